import FeatherModel.Lemmas.Remapper
import FeatherModel.Lemmas.AList

/-!
# Lemmas about the B remapper: table construction, super-type search, fuel
-/

namespace Remapper

/-! ## construction of the per-class tables -/

/-- the table entry `remapper_b` builds from one class row -/
def bclassOf (ts td : ATable) (s d : Nat) (c : Class) : Option BClass :=
  match nameAt c.names d, memberRows ts td s d (fieldMembers c), memberRows ts td s d (methodMembers c) with
  | some nt, some fr, some mr => some { name := nt, fields := tableOf fr, methods := tableOf mr }
  | _, _, _ => none

theorem lastPair_cons {K V : Type} [BEq K] (p : K × V) (rows : List (K × V)) (k : K) :
    lastPair (p :: rows) k =
      match lastPair rows k with
      | some v => some v
      | none => if p.1 == k then some p.2 else none := by
  simp only [lastPair, lastMatch]
  cases lastMatch (fun p => p.1 == k) rows with
  | some b => rfl
  | none =>
    simp only
    by_cases hk : (p.1 == k) = true <;> simp [hk]

theorem classRows_last (ts td : ATable) (s d : Nat) (o : JStr) :
    ∀ (cls : List (JStr × Class)) (rows : List (JStr × BClass)), classRows ts td s d cls = some rows →
      match lastMatch (rowFor s d o) cls with
      | none => lastPair rows o = none
      | some e => ∃ bc, bclassOf ts td s d e.2 = some bc ∧ lastPair rows o = some bc := by
  intro cls
  induction cls with
  | nil => intro rows h; simp [classRows] at h; subst h; simp [lastMatch, lastPair]
  | cons e rest ih =>
    intro rows h
    obtain ⟨k, c⟩ := e
    simp only [classRows] at h
    cases h1 : nameAt c.names s with
    | none =>
      rw [h1] at h
      simp only at h
      have hf : rowFor s d o (k, c) = false := by simp [rowFor, h1]
      simp only [lastMatch, hf]
      have := ih rows h
      cases hl : lastMatch (rowFor s d o) rest with
      | none => rw [hl] at this; simpa using this
      | some e' => rw [hl] at this; simpa using this
    | some nf =>
      cases h2 : nameAt c.names d with
      | none =>
        rw [h1, h2] at h
        simp only at h
        have hf : rowFor s d o (k, c) = false := by simp [rowFor, h2]
        simp only [lastMatch, hf]
        have := ih rows h
        cases hl : lastMatch (rowFor s d o) rest with
        | none => rw [hl] at this; simpa using this
        | some e' => rw [hl] at this; simpa using this
      | some nt =>
        rw [h1, h2] at h
        simp only at h
        cases hfr : memberRows ts td s d (fieldMembers c) with
        | none => rw [hfr] at h; simp at h
        | some fr =>
          cases hmr : memberRows ts td s d (methodMembers c) with
          | none => rw [hfr, hmr] at h; simp at h
          | some mr =>
            cases hrest : classRows ts td s d rest with
            | none => rw [hfr, hmr, hrest] at h; simp at h
            | some rows' =>
              rw [hfr, hmr, hrest] at h
              simp only [Option.some.injEq] at h
              subst h
              have hrow : rowFor s d o (k, c) = (nf == o) := by simp [rowFor, h1, h2]
              have hbc : bclassOf ts td s d c =
                  some { name := nt, fields := tableOf fr, methods := tableOf mr } := by
                simp [bclassOf, h2, hfr, hmr]
              have := ih rows' hrest
              rw [lastPair_cons]
              simp only [lastMatch, hrow]
              cases hl : lastMatch (rowFor s d o) rest with
              | some e' =>
                rw [hl] at this
                obtain ⟨bc, hb1, hb2⟩ := this
                exact ⟨bc, hb1, by rw [hb2]⟩
              | none =>
                rw [hl] at this
                simp only at this
                rw [this]
                by_cases hno : (nf == o) = true
                · simp only [hno, if_true]
                  exact ⟨_, hbc, rfl⟩
                · simp [hno]

/-- a member table of the reverse direction is the mirrored member table -/
theorem memberRows_swap (ts td : ATable) (s d : Nat) (mems : List (JStr × Names)) :
    memberRows td ts d s mems = (memberRows ts td s d mems).map (List.map swap) := by
  induction mems with
  | nil => rfl
  | cons e rest ih =>
    obtain ⟨desc, names⟩ := e
    simp only [memberRows]
    cases h1 : nameAt names s <;> cases h2 : nameAt names d <;> simp only [ih]
    cases h3 : mapDescWith ts desc <;> cases h4 : mapDescWith td desc <;> simp only [Option.map_none]
    cases memberRows ts td s d rest <;> simp [swap]

/-- what `remapper_b` knows about a class: the entry built from the last row carrying the name -/
theorem remapperB_lookup {m : Mappings} {s d : Nat} {r : BTable} (h : remapperB m s d = some r) (o : JStr) :
    match lastMatch (rowFor s d o) m.classes with
    | none => AList.lookup o r = none
    | some e => ∃ bc, bclassOf (aTable m 0 s) (aTable m 0 d) s d e.2 = some bc ∧ AList.lookup o r = some bc := by
  unfold remapperB at h
  split at h
  · split at h
    · simp at h
    · rename_i rows hrows
      simp only [Option.some.injEq] at h
      subst h
      have := classRows_last _ _ s d o _ _ hrows
      simpa only [lookup_tableOf] using this
  · simp at h

theorem remapperB_bounds {m : Mappings} {s d : Nat} {r : BTable} (h : remapperB m s d = some r) :
    s < m.ns.length ∧ d < m.ns.length := by
  unfold remapperB at h
  split at h
  · assumption
  · simp at h

theorem lookup_classTable (r : BTable) (c : JStr) :
    AList.lookup c (classTable r) = (AList.lookup c r).map (·.name) := by
  induction r with
  | nil => rfl
  | cons e rest ih =>
    obtain ⟨k, v⟩ := e
    simp only [classTable, List.map_cons, AList.lookup] at ih ⊢
    split
    · rfl
    · exact ih

theorem bclassOf_name {ts td : ATable} {s d : Nat} {c : Class} {bc : BClass} (h : bclassOf ts td s d c = some bc) :
    nameAt c.names d = some bc.name := by
  unfold bclassOf at h
  split at h
  · rename_i nt fr mr h1 _ _
    simp only [Option.some.injEq] at h
    subst h
    exact h1
  · simp at h

/-- the class part of the B remapper is the A remapper of the same namespaces -/
theorem classTable_lookup_eq {m : Mappings} {s d : Nat} {r : BTable} (h : remapperB m s d = some r) (c : JStr) :
    AList.lookup c (classTable r) = AList.lookup c (aTable m s d) := by
  rw [lookup_classTable]
  unfold aTable
  rw [lookup_tableOf]
  have hb := remapperB_lookup h c
  -- `lastPair (classPairs …) c` is the `dst`-name of the last row for `c`
  have hp : lastPair (classPairs m s d) c =
      (lastMatch (rowFor s d c) m.classes).bind (fun e => nameAt e.2.names d) := by
    unfold classPairs pairsOf
    generalize m.classes = cls
    induction cls with
    | nil => rfl
    | cons e rest ih =>
      simp only [List.filterMap_cons, lastMatch]
      cases h1 : nameAt e.2.names s with
      | none =>
        simp only [ih]
        have : rowFor s d c e = false := by simp [rowFor, h1]
        simp only [this]
        cases lastMatch (rowFor s d c) rest <;> simp
      | some nf =>
        cases h2 : nameAt e.2.names d with
        | none =>
          simp only [ih]
          have : rowFor s d c e = false := by simp [rowFor, h2]
          simp only [this]
          cases lastMatch (rowFor s d c) rest <;> simp
        | some nt =>
          simp only [lastPair_cons, ih]
          have : rowFor s d c e = (nf == c) := by simp [rowFor, h1, h2]
          simp only [this]
          cases hl : lastMatch (rowFor s d c) rest with
          | some e' =>
            obtain ⟨_, hrow⟩ := lastMatch_some hl
            simp only [rowFor, Bool.and_eq_true] at hrow
            cases hn : nameAt e'.2.names d with
            | none => simp [hn] at hrow
            | some x => simp [hn]
          | none =>
            simp only [Option.bind_none]
            by_cases hno : (nf == c) = true <;> simp [hno, h2]
  rw [hp]
  cases hl : lastMatch (rowFor s d c) m.classes with
  | none => rw [hl] at hb; simp only at hb; simp [hb]
  | some e =>
    rw [hl] at hb
    obtain ⟨bc, hb1, hb2⟩ := hb
    simp [hb2, bclassOf_name hb1]

theorem mapClass_classTable {m : Mappings} {s d : Nat} {r : BTable} (h : remapperB m s d = some r) (c : JStr) :
    mapClass (classTable r) c = mapClass (aTable m s d) c := by
  unfold mapClass mapClassFail
  rw [classTable_lookup_eq h]

/-! ## fuel monotonicity -/

theorem firstSomeM_mono {α β : Type} {f g : α → Option (Option β)} {l : List α} {res : Option β}
    (hfg : ∀ a ∈ l, ∀ x, f a = some x → g a = some x) (h : firstSomeM f l = some res) :
    firstSomeM g l = some res := by
  induction l with
  | nil => simpa [firstSomeM] using h
  | cons a rest ih =>
    simp only [firstSomeM] at h ⊢
    cases hfa : f a with
    | none => rw [hfa] at h; simp at h
    | some x =>
      rw [hfa] at h
      rw [hfg a List.mem_cons_self x hfa]
      cases x with
      | some b => exact h
      | none => exact ih (fun a' ha' => hfg a' (List.mem_cons_of_mem _ ha')) h

theorem mapMemberFail_succ (sel : BClass → AList MemberKey MemberKey) (r : BTable) (sup : Supers) (key : MemberKey) :
    ∀ (fuel : Nat) (o : JStr) (res : Option MemberKey),
      mapMemberFail sel r sup fuel o key = some res → mapMemberFail sel r sup (fuel + 1) o key = some res := by
  intro fuel
  induction fuel with
  | zero => intro o res h; simp [mapMemberFail] at h
  | succ n ih =>
    intro o res h
    rw [mapMemberFail] at h ⊢
    cases hk : declares sel r key o with
    | some v => rw [hk] at h; exact h
    | none =>
      rw [hk] at h
      simp only at h ⊢
      cases hs : AList.lookup o sup with
      | none => rw [hs] at h; exact h
      | some ss =>
        rw [hs] at h
        simp only at h ⊢
        exact firstSomeM_mono (fun a _ x hx => ih a x hx) h

/-- more fuel never changes a definite answer -/
theorem mapMemberFail_mono (sel : BClass → AList MemberKey MemberKey) (r : BTable) (sup : Supers) (key : MemberKey)
    {f f' : Nat} (hle : f ≤ f') {o : JStr} {res : Option MemberKey}
    (h : mapMemberFail sel r sup f o key = some res) : mapMemberFail sel r sup f' o key = some res := by
  induction hle with
  | refl => exact h
  | step _ ih => exact mapMemberFail_succ sel r sup key _ o res ih

theorem concatM_mono {α β : Type} {f g : α → Option (List β)} {l : List α} {res : List β}
    (hfg : ∀ a ∈ l, ∀ x, f a = some x → g a = some x) (h : concatM f l = some res) :
    concatM g l = some res := by
  induction l generalizing res with
  | nil => simpa [concatM] using h
  | cons a rest ih =>
    simp only [concatM] at h ⊢
    cases hfa : f a with
    | none => rw [hfa] at h; simp at h
    | some x =>
      rw [hfa] at h
      rw [hfg a List.mem_cons_self x hfa]
      simp only at h ⊢
      cases hr : concatM f rest with
      | none => rw [hr] at h; simp at h
      | some y =>
        rw [hr] at h
        rw [ih (fun a' ha' => hfg a' (List.mem_cons_of_mem _ ha')) hr]
        exact h

theorem dfs_succ (sup : Supers) :
    ∀ (fuel : Nat) (o : JStr) (order : List JStr), dfs sup fuel o = some order → dfs sup (fuel + 1) o = some order := by
  intro fuel
  induction fuel with
  | zero => intro o order h; simp [dfs] at h
  | succ n ih =>
    intro o order h
    rw [dfs] at h ⊢
    cases hs : AList.lookup o sup with
    | none => rw [hs] at h; exact h
    | some ss =>
      rw [hs] at h
      simp only at h ⊢
      cases hc : concatM (fun s => dfs sup n s) ss with
      | none => rw [hc] at h; simp at h
      | some l =>
        rw [hc] at h
        rw [concatM_mono (fun a _ x hx => ih a x hx) hc]
        exact h

theorem dfs_mono (sup : Supers) {f f' : Nat} (hle : f ≤ f') {o : JStr} {order : List JStr}
    (h : dfs sup f o = some order) : dfs sup f' o = some order := by
  induction hle with
  | refl => exact h
  | step _ ih => exact dfs_succ sup _ o order ih

/-! ## the search is "first declaration in pre-order" -/

theorem firstSomeM_concat (sel : BClass → AList MemberKey MemberKey) (r : BTable) (sup : Supers) (key : MemberKey)
    (n : Nat)
    (ih : ∀ (o : JStr) (order : List JStr), dfs sup n o = some order →
      mapMemberFail sel r sup n o key = some (order.findSome? (declares sel r key))) :
    ∀ (ss : List JStr) (l : List JStr), concatM (fun s => dfs sup n s) ss = some l →
      firstSomeM (fun s => mapMemberFail sel r sup n s key) ss = some (l.findSome? (declares sel r key)) := by
  intro ss
  induction ss with
  | nil => intro l h; simp [concatM] at h; subst h; simp [firstSomeM]
  | cons s rest ihl =>
    intro l h
    simp only [concatM] at h
    cases hd : dfs sup n s with
    | none => rw [hd] at h; simp at h
    | some a =>
      rw [hd] at h
      simp only at h
      cases hc : concatM (fun s => dfs sup n s) rest with
      | none => rw [hc] at h; simp at h
      | some b =>
        rw [hc] at h
        simp only [Option.some.injEq] at h
        subst h
        simp only [firstSomeM, ih s a hd, List.findSome?_append]
        cases hf : a.findSome? (declares sel r key) with
        | some v => simp
        | none => simp [ihl b hc]

theorem mapMemberFail_dfs (sel : BClass → AList MemberKey MemberKey) (r : BTable) (sup : Supers) (key : MemberKey) :
    ∀ (fuel : Nat) (o : JStr) (order : List JStr), dfs sup fuel o = some order →
      mapMemberFail sel r sup fuel o key = some (order.findSome? (declares sel r key)) := by
  intro fuel
  induction fuel with
  | zero => intro o order h; simp [dfs] at h
  | succ n ih =>
    intro o order h
    rw [dfs] at h
    rw [mapMemberFail]
    cases hs : AList.lookup o sup with
    | none =>
      rw [hs] at h
      simp only [Option.some.injEq] at h
      subst h
      simp only [List.findSome?_cons, List.findSome?_nil]
      cases declares sel r key o <;> rfl
    | some ss =>
      rw [hs] at h
      simp only at h
      cases hc : concatM (fun s => dfs sup n s) ss with
      | none => rw [hc] at h; simp at h
      | some l =>
        rw [hc] at h
        simp only [Option.some.injEq] at h
        subst h
        simp only [List.findSome?_cons]
        cases hk : declares sel r key o with
        | some v => rfl
        | none =>
          simp only
          exact firstSomeM_concat sel r sup key n ih ss l hc

/-! ## acyclic providers never run out of fuel -/

theorem concatM_isSome {α β : Type} {f : α → Option (List β)} {l : List α}
    (h : ∀ a ∈ l, ∃ x, f a = some x) : ∃ y, concatM f l = some y := by
  induction l with
  | nil => exact ⟨[], rfl⟩
  | cons a rest ih =>
    obtain ⟨x, hx⟩ := h a List.mem_cons_self
    obtain ⟨y, hy⟩ := ih (fun a' ha' => h a' (List.mem_cons_of_mem _ ha'))
    exact ⟨x ++ y, by simp [concatM, hx, hy]⟩

/-- `rank` strictly decreases along the super-type edges of the provider -/
def Ranked (sup : Supers) (rank : JStr → Nat) : Prop :=
  ∀ c ss s, AList.lookup c sup = some ss → s ∈ ss → rank s < rank c

theorem dfs_ranked (sup : Supers) (rank : JStr → Nat) (hr : Ranked sup rank) :
    ∀ (fuel : Nat) (o : JStr), rank o < fuel → ∃ order, dfs sup fuel o = some order := by
  intro fuel
  induction fuel with
  | zero => intro o h; omega
  | succ n ih =>
    intro o h
    rw [dfs]
    cases hs : AList.lookup o sup with
    | none => exact ⟨[o], rfl⟩
    | some ss =>
      simp only
      obtain ⟨l, hlc⟩ := concatM_isSome (f := fun s => dfs sup n s) (l := ss)
        (fun s hs' => ih s (by have := hr o ss s hs hs'; omega))
      exact ⟨o :: l, by rw [hlc]⟩

/-- pigeonhole: a duplicate-free list inside `k` is not longer than `k` -/
theorem nodup_subset_length {α : Type} [DecidableEq α] :
    ∀ (l k : List α), l.Nodup → (∀ a ∈ l, a ∈ k) → l.length ≤ k.length := by
  intro l
  induction l with
  | nil => intro k _ _; simp
  | cons a rest ih =>
    intro k hnd hsub
    have hak : a ∈ k := hsub a List.mem_cons_self
    have hnd' := List.nodup_cons.mp hnd
    have := ih (k.erase a) hnd'.2 (fun b hb => by
      have hne : b ≠ a := fun e => hnd'.1 (e ▸ hb)
      exact (List.mem_erase_of_ne hne).mpr (hsub b (List.mem_cons_of_mem _ hb)))
    rw [List.length_erase_of_mem hak] at this
    have hpos : 0 < k.length := List.length_pos_of_mem hak
    simp only [List.length_cons]
    omega

theorem mem_keys_of_lookup_sup {o : JStr} {sup : Supers} (h : (AList.lookup o sup).isSome) : o ∈ sup.map Prod.fst := by
  cases hl : AList.lookup o sup with
  | none => simp [hl] at h
  | some v => exact List.mem_map.mpr ⟨(o, v), AList.lookup_mem hl, rfl⟩

/-- `visited` = the classes on the path from the start to (excluding) `o`: all of them rows of the provider -/
theorem dfs_path (sup : Supers) (rank : JStr → Nat) (hr : Ranked sup rank) :
    ∀ (fuel : Nat) (o : JStr) (visited : List JStr), visited.Nodup →
      (∀ v ∈ visited, (AList.lookup v sup).isSome) → (∀ v ∈ visited, rank o < rank v) →
      sup.length + 1 ≤ fuel + visited.length → ∃ order, dfs sup fuel o = some order := by
  intro fuel
  induction fuel with
  | zero =>
    intro o visited hnd hm _ hlen
    have := nodup_subset_length visited (sup.map Prod.fst) hnd (fun v hv => mem_keys_of_lookup_sup (hm v hv))
    simp only [List.length_map] at this
    omega
  | succ n ih =>
    intro o visited hnd hm hrank hlen
    rw [dfs]
    cases hs : AList.lookup o sup with
    | none => exact ⟨[o], rfl⟩
    | some ss =>
      simp only
      have hstep : ∀ s ∈ ss, ∃ order, dfs sup n s = some order := by
        intro s hs'
        have hlt := hr o ss s hs hs'
        apply ih s (o :: visited)
        · refine List.nodup_cons.mpr ⟨?_, hnd⟩
          intro ho
          have := hrank o ho
          omega
        · intro v hv
          rcases List.mem_cons.mp hv with rfl | hv
          · simp [hs]
          · exact hm v hv
        · intro v hv
          rcases List.mem_cons.mp hv with rfl | hv
          · exact hlt
          · have := hrank v hv; omega
        · simp only [List.length_cons]; omega
      obtain ⟨l, hlc⟩ := concatM_isSome (f := fun s => dfs sup n s) (l := ss) hstep
      exact ⟨o :: l, by rw [hlc]⟩

end Remapper
