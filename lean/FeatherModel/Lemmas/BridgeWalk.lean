import FeatherModel.Lemmas.BridgeBase
import FeatherModel.Model.BridgeSpec

/-! The work-list loop of `get_ancestors` / `get_descendants` (C15): what it computes, fuel independence, termination. -/

namespace Bridge

/-- the result list holds what was accumulated before plus everything reachable from the stack -/
theorem walk_mem (g : AList JStr (List JStr)) :
    ∀ (fuel : Nat) (st acc r : List JStr), walk g fuel st acc = some r →
      ∀ a, a ∈ r ↔ a ∈ acc ∨ ∃ c, c ∈ st ∧ Reach g c a := by
  intro fuel
  induction fuel with
  | zero =>
    intro st acc r h a
    cases st with
    | nil => simp [walk] at h; subst h; simp
    | cons c st => simp [walk] at h
  | succ n ih =>
    intro st acc r h a
    cases st with
    | nil => simp [walk] at h; subst h; simp
    | cons c st =>
      simp only [walk] at h
      rw [ih _ _ _ h a]
      constructor
      · rintro (h1 | ⟨c', hc', hr⟩)
        · rcases List.mem_append.mp h1 with h1 | h1
          · exact Or.inl h1
          · exact Or.inr ⟨c, by simp, Reach.step h1⟩
        · rcases List.mem_append.mp hc' with hc' | hc'
          · exact Or.inr ⟨c, by simp, Reach.trans (List.mem_reverse.mp hc') hr⟩
          · exact Or.inr ⟨c', List.mem_cons_of_mem _ hc', hr⟩
      · rintro (h1 | ⟨c', hc', hr⟩)
        · exact Or.inl (List.mem_append.mpr (Or.inl h1))
        · rcases List.mem_cons.mp hc' with hc' | hc'
          · subst hc'
            cases hr with
            | step hp => exact Or.inl (List.mem_append.mpr (Or.inr hp))
            | trans hp hr' => exact Or.inr ⟨_, List.mem_append.mpr (Or.inl (List.mem_reverse.mpr hp)), hr'⟩
          · exact Or.inr ⟨c', List.mem_append.mpr (Or.inr hc'), hr⟩

/-- more fuel does not change a result -/
theorem walk_mono (g : AList JStr (List JStr)) :
    ∀ (f f' : Nat) (st acc r : List JStr), walk g f st acc = some r → f ≤ f' → walk g f' st acc = some r := by
  intro f
  induction f with
  | zero =>
    intro f' st acc r h _
    cases st with
    | nil => cases f' <;> simpa [walk] using h
    | cons c st => simp [walk] at h
  | succ n ih =>
    intro f' st acc r h hle
    cases st with
    | nil => cases f' <;> simpa [walk] using h
    | cons c st =>
      cases f' with
      | zero => omega
      | succ m =>
        simp only [walk] at h ⊢
        exact ih m _ _ _ h (by omega)

/-- the stack is processed front to back -/
theorem walk_append (g : AList JStr (List JStr)) :
    ∀ (f1 f2 : Nat) (s1 s2 acc a1 a2 : List JStr), walk g f1 s1 acc = some a1 → walk g f2 s2 a1 = some a2 →
      walk g (f1 + f2) (s1 ++ s2) acc = some a2 := by
  intro f1
  induction f1 with
  | zero =>
    intro f2 s1 s2 acc a1 a2 h1 h2
    cases s1 with
    | nil =>
      simp [walk] at h1; subst h1
      simpa using h2
    | cons c s1 => simp [walk] at h1
  | succ n ih =>
    intro f2 s1 s2 acc a1 a2 h1 h2
    cases s1 with
    | nil =>
      simp [walk] at h1; subst h1
      exact walk_mono g f2 _ _ _ _ h2 (by omega)
    | cons c s1 =>
      simp only [walk] at h1
      have := ih f2 _ s2 _ a1 a2 h1 h2
      have e : n + 1 + f2 = (n + f2) + 1 := by omega
      rw [e]
      simp only [List.cons_append, walk]
      simpa [List.append_assoc] using this

theorem walk_list_terminates (g : AList JStr (List JStr)) (l : List JStr)
    (h : ∀ p, p ∈ l → ∀ acc, ∃ f r, walk g f [p] acc = some r) :
    ∀ acc, ∃ f r, walk g f l acc = some r := by
  induction l with
  | nil => intro acc; exact ⟨0, acc, by simp [walk]⟩
  | cons p rest ih =>
    intro acc
    obtain ⟨f1, r1, h1⟩ := h p (by simp) acc
    obtain ⟨f2, r2, h2⟩ := ih (fun q hq => h q (List.mem_cons_of_mem _ hq)) r1
    exact ⟨f1 + f2, r2, by simpa using walk_append g f1 f2 [p] rest acc r1 r2 h1 h2⟩

/-- on a graph without cycles (witnessed by a rank function decreasing along every edge) the loop terminates -/
theorem walk_single_terminates (g : AList JStr (List JStr)) (rank : JStr → Nat)
    (hr : ∀ c p, p ∈ nexts g c → rank p < rank c) :
    ∀ (n : Nat) (c : JStr), rank c < n → ∀ acc, ∃ f r, walk g f [c] acc = some r := by
  intro n
  induction n with
  | zero => intro c h; omega
  | succ n ih =>
    intro c hc acc
    have hl : ∀ p, p ∈ (nexts g c).reverse → ∀ acc, ∃ f r, walk g f [p] acc = some r := by
      intro p hp
      have := hr c p (List.mem_reverse.mp hp)
      exact ih p (by omega)
    obtain ⟨f, r, h⟩ := walk_list_terminates g _ hl (acc ++ nexts g c)
    exact ⟨f + 1, r, by simpa [walk] using h⟩

theorem walk_terminates (g : AList JStr (List JStr)) (rank : JStr → Nat)
    (hr : ∀ c p, p ∈ nexts g c → rank p < rank c) (st acc : List JStr) :
    ∃ f r, walk g f st acc = some r :=
  walk_list_terminates g st (fun p _ acc => walk_single_terminates g rank hr (rank p + 1) p (by omega) acc) acc

/-- one fuel value that is enough for the walk from every class -/
theorem walk_uniform_fuel (g : AList JStr (List JStr)) (rank : JStr → Nat)
    (hr : ∀ c p, p ∈ nexts g c → rank p < rank c) :
    ∃ F, ∀ c, ∃ r, walk g F [c] [] = some r := by
  -- classes that are no key of `g` have no successors: one pop; the keys are finitely many
  have hkeys : ∀ (ks : List JStr), ∃ F, ∀ c, c ∈ ks → ∃ r, walk g F [c] [] = some r := by
    intro ks
    induction ks with
    | nil => exact ⟨0, by simp⟩
    | cons k rest ih =>
      obtain ⟨F, hF⟩ := ih
      obtain ⟨f, r, h⟩ := walk_terminates g rank hr [k] []
      refine ⟨F + f, ?_⟩
      intro c hc
      rcases List.mem_cons.mp hc with hc | hc
      · subst hc; exact ⟨r, walk_mono g f _ _ _ _ h (by omega)⟩
      · obtain ⟨r', h'⟩ := hF c hc
        exact ⟨r', walk_mono g F _ _ _ _ h' (by omega)⟩
  obtain ⟨F, hF⟩ := hkeys (g.map Prod.fst)
  refine ⟨F + 1, ?_⟩
  intro c
  by_cases hc : c ∈ g.map Prod.fst
  · obtain ⟨r, h⟩ := hF c hc
    exact ⟨r, walk_mono g F _ _ _ _ h (by omega)⟩
  · have hn : nexts g c = [] := by
      unfold nexts
      have : AList.lookup c g = none := lookup_none_of_not_mem_keys hc
      simp [this]
    exact ⟨[], by simp [walk, hn]⟩

end Bridge
