import FeatherModel.Lemmas.DescriptorArgs

/-!
# C18: lemmas about the documented meaning of the array-name predicates, the dimension cap inside method
descriptors, and the image of the parser
-/

open Descriptor DescriptorGrammar

/-- a field descriptor that starts with `[` denotes an array type -/
theorem FieldTy_bracket_arr {s : JStr} {t : Ty} (h : FieldTy s t) (hb : s.head? = some LBRACKET) :
    ∃ d b, t = .arr d b := by
  cases h with
  | prim q => exact absurd (Option.some.inj hb) (prim_char_ne q).1
  | obj hn =>
    have e : cL = LBRACKET := Option.some.inj hb
    exact absurd e (by decide)
  | arr1 hb' => exact ⟨_, _, rfl⟩
  | arrS _ _ => exact ⟨_, _, rfl⟩

/-- an array field descriptor starts with `[` -/
theorem ArrayDescriptor_head {s : JStr} (h : ArrayDescriptor s) : s.head? = some LBRACKET := by
  obtain ⟨d, b, hf⟩ := h
  cases hf with
  | arr1 _ => rfl
  | arrS _ _ => rfl

/-- decidable form of `ArrayDescriptor`: starts with `[` and the field-descriptor parser accepts it -/
theorem ArrayDescriptor_iff_parse (s : JStr) :
    ArrayDescriptor s ↔ s.head? = some LBRACKET ∧ (parseField s).isSome = true := by
  constructor
  · intro h
    refine ⟨ArrayDescriptor_head h, ?_⟩
    obtain ⟨d, b, hf⟩ := h
    rw [(parseField_iff s _).mpr hf]; rfl
  · intro ⟨hb, hp⟩
    cases hq : parseField s with
    | none => rw [hq] at hp; cases hp
    | some t =>
      have hf := (parseField_iff s t).mp hq
      obtain ⟨d, b, e⟩ := FieldTy_bracket_arr hf hb
      subst e
      exact ⟨d, b, hf⟩

/-- `is_valid_arr_class_name` = the documented meaning: array field descriptors -/
theorem validArr_iff (s : JStr) : validArr s = true ↔ ArrayDescriptor s := by
  unfold validArr
  rw [Bool.and_eq_true, startsWithBracket_iff]
  exact (ArrayDescriptor_iff_parse s).symm

/-- `is_valid_class_name` = object class name or array class name -/
theorem validClass_iff (s : JStr) : validClass s = true ↔ ClassName s ∨ ArrayDescriptor s := by
  unfold validClass
  by_cases hb : startsWithBracket s = true
  · simp only [hb, if_true]
    rw [validArr_iff]
    constructor
    · exact Or.inr
    · intro h
      rcases h with h | h
      · have := startsWithBracket_false_of_not_mem (ClassName_no_bracket h)
        rw [this] at hb; cases hb
      · exact h
  · simp only [hb, Bool.false_eq_true, if_false]
    rw [segs_iff_ClassName]
    constructor
    · exact Or.inl
    · intro h
      rcases h with h | h
      · exact h
      · exact absurd ((startsWithBracket_iff s).mpr (ArrayDescriptor_head h)) hb

/-- the parameter loop fails on a parameter with more than 255 dimensions -/
theorem readParams_over (n : Nat) (h : 256 ≤ n) (s : JStr) (fuel : Nat) :
    readParams fuel (List.replicate n LBRACKET ++ s) = none := by
  have hb := readBrackets_over n 0 s (by omega) (by omega)
  have hr : readFieldType (List.replicate n LBRACKET ++ s) = none := by simp [readFieldType, hb]
  cases n with
  | zero => omega
  | succ n =>
    rw [List.replicate_succ, List.cons_append] at hr ⊢
    cases fuel with
    | zero => simp only [readParams]; rw [if_neg (by decide)]
    | succ f => simp only [readParams, hr]; rw [if_neg (by decide)]

/-! ## `get_simple_name` -/

theorem simpleName_no_slash : ∀ (s : JStr), SLASH ∉ s → simpleName s = s := by
  intro s h
  cases s with
  | nil => rfl
  | cons x xs =>
    have h1 : SLASH ∉ xs := fun m => h (List.mem_cons_of_mem _ m)
    have h2 : x ≠ SLASH := fun e => h (by rw [e]; exact List.mem_cons_self)
    simp only [simpleName, h1, if_false, h2]

theorem simpleName_after_last : ∀ (p q : JStr), SLASH ∉ q → simpleName (p ++ SLASH :: q) = q := by
  intro p
  induction p with
  | nil =>
    intro q h
    simp only [List.nil_append, simpleName, h, if_false, if_true]
  | cons x xs ih =>
    intro q h
    have : SLASH ∈ xs ++ SLASH :: q := by simp
    simp only [List.cons_append, simpleName, this, if_true]
    exact ih q h
