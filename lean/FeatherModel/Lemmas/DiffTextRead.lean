import FeatherModel.Lemmas.DiffTextLines

/-!
# `.tinydiff` text, top layer: the reader's zipper on the lines of a written diff gives back the (normalised) diff
-/

namespace TinyDiff
open DiffModel AList

/-! ## running a step function; lifting a run into an enclosing state -/

def run {σ : Type} (f : σ → Line → Option σ) : σ → List Line → Option σ
  | s, [] => some s
  | s, l :: rest =>
    match f s l with
    | none => none
    | some s' => run f s' rest

theorem steps_eq_run : ∀ (ls : List Line) (st : St), steps st ls = run step st ls
  | [], _ => rfl
  | l :: rest, st => by
    simp only [steps, run]
    cases step st l with
    | none => rfl
    | some st' => exact steps_eq_run rest st'

theorem run_append {σ : Type} (f : σ → Line → Option σ) : ∀ (a b : List Line) (s : σ),
    run f s (a ++ b) = (run f s a).bind fun s' => run f s' b
  | [], _, _ => rfl
  | l :: rest, b, s => by
    simp only [List.cons_append, run]
    cases f s l with
    | none => rfl
    | some s' => exact run_append f rest b s'

/-- a run of the inner loop is a run of the outer loop on the embedded state -/
theorem run_lift {σ τ : Type} (f : σ → Line → Option σ) (g : τ → Line → Option τ) (emb : σ → τ) (P : Line → Prop)
    (h : ∀ s l, P l → g (emb s) l = (f s l).map emb) :
    ∀ (ls : List Line) (s : σ), (∀ l ∈ ls, P l) → run g (emb s) ls = (run f s ls).map emb
  | [], _, _ => rfl
  | l :: rest, s, hp => by
    simp only [run]
    rw [h s l (hp l (by simp))]
    cases f s l with
    | none => rfl
    | some s' => exact run_lift f g emb P h rest s' (fun x hx => hp x (List.mem_cons_of_mem _ hx))

/-! ## the inner loops as step functions -/

/-- the action of a line indented ≥ 1 on the open class -/
def stepC (c : OpenClass) (l : Line) : Option OpenClass :=
  match l.idents with
  | 1 => step1 c l
  | 2 =>
    match c.mem with
    | some m => (step2 m l).map fun m' => { c with mem := some m' }
    | none => none
  | 3 =>
    match c.mem with
    | some (.method k md had (some p)) =>
      (step3 p l).map fun p' => { c with mem := some (.method k md had (some p')) }
    | _ => none
  | _ => none

/-- the action of a line indented ≥ 2 on the open member -/
def stepM (m : OpenMem) (l : Line) : Option OpenMem :=
  match l.idents with
  | 2 => step2 m l
  | 3 =>
    match m with
    | .method k md had (some p) => (step3 p l).map fun p' => .method k md had (some p')
    | _ => none
  | _ => none

theorem step_lift (D : AList JStr CDiff) (c : OpenClass) (l : Line) (h : l.idents ≠ 0) :
    step { done := D, cls := some c } l = (stepC c l).map fun c' => { done := D, cls := some c' } := by
  obtain ⟨i, f, fs⟩ := l
  match i, h with
  | 1, _ => simp only [step, stepC]
  | 2, _ =>
    simp only [step, stepC]
    cases c.mem with
    | none => rfl
    | some m => simp only [Option.map_map]; rfl
  | 3, _ =>
    simp only [step, stepC]
    cases c.mem with
    | none => rfl
    | some m =>
      cases m with
      | field k fd had => rfl
      | method k md had par =>
        cases par with
        | none => rfl
        | some p => simp only [Option.map_map]; rfl
  | n + 4, _ => simp only [step, stepC]; rfl

theorem stepC_lift (key : JStr) (d : CDiff) (had : Bool) (m : OpenMem) (l : Line) (h : 2 ≤ l.idents) :
    stepC { key := key, d := d, had := had, mem := some m } l =
      (stepM m l).map fun m' => { key := key, d := d, had := had, mem := some m' } := by
  obtain ⟨i, f, fs⟩ := l
  match i, h with
  | 2, _ =>
    simp only [stepC, stepM]
  | 3, _ =>
    simp only [stepC, stepM]
    cases m with
    | field k fd hd => rfl
    | method k md hd par =>
      cases par with
      | none => rfl
      | some p => simp only [Option.map_map]; rfl
  | n + 4, _ => simp only [stepC, stepM]; rfl

theorem stepM_lift (k : MemberKey) (md : MDiff) (had : Bool) (p : OpenParam) (l : Line) (h : l.idents = 3) :
    stepM (.method k md had (some p)) l = (step3 p l).map fun p' => .method k md had (some p') := by
  obtain ⟨i, f, fs⟩ := l
  simp only at h
  subst h
  simp only [stepM]

/-! ## membership facts about the written lines -/

theorem docL_idents {i : Nat} {a : Action JStr} {l : Line} (h : l ∈ docL i a) : l.idents = i := by
  rcases docL_cases i a with ⟨_, e⟩ | e <;> rw [e] at h
  · cases h
  · simp only [List.mem_singleton] at h; subst h; rfl

theorem paramL_idents {e : Nat × PDiff} {l : Line} (h : l ∈ paramL e) : 2 ≤ l.idents := by
  simp only [paramL, List.mem_cons] at h
  rcases h with rfl | h
  · exact Nat.le_refl 2
  · rw [docL_idents h]; decide

theorem fieldL_idents {e : MemberKey × FDiff} {l : Line} (h : l ∈ fieldL e) : l.idents ≠ 0 := by
  simp only [fieldL, List.mem_cons] at h
  rcases h with rfl | h
  · simp
  · rw [docL_idents h]; decide

theorem methodL_idents {e : MemberKey × MDiff} {l : Line} (h : l ∈ methodL e) : l.idents ≠ 0 := by
  simp only [methodL, List.mem_cons, List.mem_append, List.mem_flatMap] at h
  rcases h with rfl | h | ⟨p, _, h⟩
  · simp
  · rw [docL_idents h]; decide
  · have := paramL_idents h; omega

/-! ## `contains` on appended maps -/

theorem contains_append_one {K V : Type} [BEq K] (k k' : K) (v : V) (m : AList K V) :
    contains k (m ++ [(k', v)]) = (contains k m || k' == k) := by
  induction m with
  | nil => simp [contains, lookup]; cases (k' == k) <;> rfl
  | cons e rest ih =>
    obtain ⟨k0, v0⟩ := e
    simp only [contains, List.cons_append, lookup] at ih ⊢
    cases (k0 == k) with
    | true => simp
    | false => simpa using ih

theorem contains_nil {K V : Type} [BEq K] (k : K) : contains k ([] : AList K V) = false := rfl

/-! ## parameter level -/

theorem docP_run (k : Nat) (d : PDiff) (hd : d.doc = .none) (a : Action JStr) (ha : actionAll plainDoc a = true) :
    ∃ h', run step3 { key := k, d := d, had := false } (docL 3 a) =
      some { key := k, d := { d with doc := normAction a }, had := h' } := by
  rcases docL_cases 3 a with ⟨rfl, e⟩ | e <;> rw [e]
  · refine ⟨false, ?_⟩
    simp only [run, normAction, ← hd]
  · refine ⟨true, ?_⟩
    simp only [run, step3, addComment_cells a ha, if_true]

theorem valid_unq_ne_nil (s : JStr) (h : nameCell validUnqualified s = true) : s ≠ [] := by
  intro e; subst e; simp [nameCell, validUnqualified] at h

theorem valid_method_ne_nil (s : JStr) (h : nameCell validMethodName s = true) : s ≠ [] := by
  intro e; subst e; simp [nameCell, validMethodName] at h

theorem valid_class_ne_nil (s : JStr) (h : nameCell validObjClass s = true) : s ≠ [] := by
  intro e; subst e; simp [nameCell, validObjClass, splitOn, validUnqualified] at h

theorem parse_name {valid : JStr → Bool} (hv : ∀ s, valid s = true → s ≠ []) (a : Action JStr)
    (h : actionAll (nameCell valid) a = true) : parseAction valid (actionCells a) = some (normAction a) :=
  parseAction_cells hv a (actionAll_mono (fun s hs => nameCell_valid s hs) a h)

theorem unq_ne_nil (s : JStr) (h : validUnqualified s = true) : s ≠ [] := by
  intro e; subst e; simp [validUnqualified] at h

theorem method_ne_nil (s : JStr) (h : validMethodName s = true) : s ≠ [] := by
  intro e; subst e; simp [validMethodName] at h

theorem class_ne_nil (s : JStr) (h : validObjClass s = true) : s ≠ [] := by
  intro e; subst e; simp [validObjClass, splitOn, validUnqualified] at h

/-- the lines of one parameter, from any state of the enclosing method -/
theorem param_run (k : MemberKey) (md : MDiff) (had : Bool) (par : Option OpenParam) (e : Nat × PDiff)
    (hw : writableParam e = true) (hc : contains e.1 (closeParam md par).params = false) :
    ∃ h', run stepM (.method k md had par) (paramL e) =
      some (.method k (closeParam md par) had (some { key := e.1, d := normParam e.2, had := h' })) := by
  simp only [writableParam, Bool.and_eq_true, decide_eq_true_eq] at hw
  obtain ⟨⟨hidx, hi⟩, hd⟩ := hw
  obtain ⟨h', hrun⟩ := docP_run e.1 { info := normAction e.2.info, doc := .none } rfl e.2.doc hd
  refine ⟨h', ?_⟩
  unfold paramL
  simp only [run]
  have h1 : stepM (.method k md had par) { idents := 2, first := P_, fields := decimal e.1 :: [] :: actionCells e.2.info } =
      some (.method k (closeParam md par) had
        (some { key := e.1, d := { info := normAction e.2.info, doc := .none }, had := false })) := by
    simp only [stepM, step2, if_true, parseUsize_decimal e.1 hidx, parse_name unq_ne_nil e.2.info hi, hc,
      ne_eq, not_true_eq_false, if_false, Bool.false_eq_true]
  rw [h1]
  simp only
  rw [run_lift step3 stepM (fun p => OpenMem.method k (closeParam md par) had (some p)) (fun l => l.idents = 3)
    (fun p l hl => stepM_lift k _ had p l hl) _ _ (fun l hl => docL_idents hl), hrun]
  rfl

theorem closeParam_some (md : MDiff) (p : OpenParam) :
    closeParam md (some p) = { md with params := md.params ++ [(p.key, p.d)] } := rfl

/-- the lines of a list of parameters -/
theorem params_run (k : MemberKey) (had : Bool) : ∀ (ps : AList Nat PDiff) (md : MDiff) (par : Option OpenParam),
    (∀ e ∈ ps, writableParam e = true) → ps.keys.Nodup →
    (∀ e ∈ ps, contains e.1 (closeParam md par).params = false) →
    ∃ md2 par2, run stepM (.method k md had par) (ps.flatMap paramL) = some (.method k md2 had par2) ∧
      closeParam md2 par2 = { closeParam md par with
        params := (closeParam md par).params ++ ps.map fun e => (e.1, normParam e.2) }
  | [], md, par, _, _, _ => ⟨md, par, rfl, by simp⟩
  | e :: rest, md, par, hw, hn, hc => by
    obtain ⟨h', hrun⟩ := param_run k md had par e (hw e (by simp)) (hc e (by simp))
    simp only [keys, List.map_cons, List.nodup_cons] at hn
    obtain ⟨md2, par2, hrun2, hclose⟩ := params_run k had rest (closeParam md par)
      (some { key := e.1, d := normParam e.2, had := h' })
      (fun x hx => hw x (List.mem_cons_of_mem _ hx)) hn.2
      (by
        intro x hx
        rw [closeParam_some, contains_append_one, hc x (List.mem_cons_of_mem _ hx)]
        have : e.1 ≠ x.1 := by
          intro heq
          exact hn.1 (by rw [heq]; exact List.mem_map.mpr ⟨x, hx, rfl⟩)
        simp [this])
    refine ⟨md2, par2, ?_, ?_⟩
    · simp only [List.flatMap_cons]
      rw [run_append, hrun]
      exact hrun2
    · rw [hclose, closeParam_some]
      simp

/-! ## member level -/

theorem docF_run (k : MemberKey) (f : FDiff) (hd : f.doc = .none) (a : Action JStr) (ha : actionAll plainDoc a = true) :
    ∃ h', run stepM (.field k f false) (docL 2 a) = some (.field k { f with doc := normAction a } h') := by
  rcases docL_cases 2 a with ⟨rfl, e⟩ | e <;> rw [e]
  · refine ⟨false, ?_⟩
    simp only [run, normAction, ← hd]
  · refine ⟨true, ?_⟩
    simp only [run, stepM, step2, addComment_cells a ha, if_true]

theorem docM_run (k : MemberKey) (md : MDiff) (hd : md.doc = .none) (a : Action JStr) (ha : actionAll plainDoc a = true) :
    ∃ h', run stepM (.method k md false none) (docL 2 a) = some (.method k { md with doc := normAction a } h' none) := by
  rcases docL_cases 2 a with ⟨rfl, e⟩ | e <;> rw [e]
  · refine ⟨false, ?_⟩
    simp only [run, normAction, ← hd]
  · refine ⟨true, ?_⟩
    have hpc : ¬ (C_ = P_) := by decide
    simp only [run, stepM, step2, closeParam, hpc, if_false, addComment_cells a ha, if_true]

/-- what the class looks like once the open member is closed -/
def viewC (c : OpenClass) : CDiff := closeMem c.d c.mem

/-- the lines of one field, from any state of the enclosing class -/
theorem field_run (c : OpenClass) (e : MemberKey × FDiff) (hw : writableField e = true)
    (hc : contains e.1 (viewC c).fields = false) :
    ∃ c2, run stepC c (fieldL e) = some c2 ∧ c2.key = c.key ∧ c2.had = c.had ∧
      viewC c2 = { viewC c with fields := (viewC c).fields ++ [(e.1, normField e.2)] } := by
  simp only [writableField, Bool.and_eq_true] at hw
  obtain ⟨⟨⟨hn, _⟩, hi⟩, hd⟩ := hw
  obtain ⟨h', hrun⟩ := docF_run e.1 { info := normAction e.2.info, doc := .none } rfl e.2.doc hd
  refine ⟨{ key := c.key, d := viewC c, had := c.had, mem := some (.field e.1 { info := normAction e.2.info, doc := normAction e.2.doc } h') }, ?_, rfl, rfl, rfl⟩
  unfold fieldL
  simp only [run]
  have h1 : stepC c { idents := 1, first := F_, fields := e.1.2 :: e.1.1 :: actionCells e.2.info } =
      some { key := c.key, d := viewC c, had := c.had, mem := some (.field e.1 { info := normAction e.2.info, doc := .none } false) } := by
    have hc' : contains (e.1.1, e.1.2) (closeMem c.d c.mem).fields = false := hc
    simp only [stepC, step1, if_true, nameCell_valid _ hn, Bool.not_true, Bool.false_eq_true, if_false,
      parse_name unq_ne_nil e.2.info hi, hc', viewC]
  rw [h1]
  simp only
  rw [run_lift stepM stepC (fun m => ({ key := c.key, d := viewC c, had := c.had, mem := some m } : OpenClass))
    (fun l => 2 ≤ l.idents) (fun m l hl => stepC_lift c.key _ c.had m l hl) _ _
    (fun l hl => by rw [docL_idents hl]; exact Nat.le_refl 2), hrun]
  rfl

/-- the lines of one method -/
theorem method_run (c : OpenClass) (e : MemberKey × MDiff) (hw : writableMethod e = true)
    (hn : e.2.params.keys.Nodup) (hc : contains e.1 (viewC c).methods = false) :
    ∃ c2, run stepC c (methodL e) = some c2 ∧ c2.key = c.key ∧ c2.had = c.had ∧
      viewC c2 = { viewC c with methods := (viewC c).methods ++ [(e.1, normMethod e.2)] } := by
  simp only [writableMethod, Bool.and_eq_true, List.all_eq_true] at hw
  obtain ⟨⟨⟨⟨hnm, _⟩, hi⟩, hd⟩, hp⟩ := hw
  obtain ⟨h', hrun⟩ := docM_run e.1 { info := normAction e.2.info, doc := .none, params := [] } rfl e.2.doc hd
  obtain ⟨md2, par2, hrun2, hclose⟩ := params_run e.1 h' e.2.params
    { info := normAction e.2.info, doc := normAction e.2.doc, params := [] } none hp hn
    (fun x _ => contains_nil _)
  refine ⟨{ key := c.key, d := viewC c, had := c.had, mem := some (.method e.1 md2 h' par2) }, ?_, rfl, rfl, ?_⟩
  · unfold methodL
    simp only [run]
    have h1 : stepC c { idents := 1, first := M_, fields := e.1.2 :: e.1.1 :: actionCells e.2.info } =
        some { key := c.key, d := viewC c, had := c.had, mem := some (.method e.1 { info := normAction e.2.info, doc := .none, params := [] } false none) } := by
      have hc' : contains (e.1.1, e.1.2) (closeMem c.d c.mem).methods = false := hc
      have hmf : ¬ (M_ = F_) := by decide
      simp only [stepC, step1, hmf, if_false, if_true, nameCell_valid _ hnm, Bool.not_true, Bool.false_eq_true,
        parse_name method_ne_nil e.2.info hi, hc', viewC]
    rw [h1]
    simp only
    rw [run_lift stepM stepC (fun m => ({ key := c.key, d := viewC c, had := c.had, mem := some m } : OpenClass))
      (fun l => 2 ≤ l.idents) (fun m l hl => stepC_lift c.key _ c.had m l hl) _ _
      (by
        intro l hl
        rcases List.mem_append.mp hl with hl | hl
        · rw [docL_idents hl]; exact Nat.le_refl 2
        · obtain ⟨p, _, hl⟩ := List.mem_flatMap.mp hl
          exact paramL_idents hl)]
    rw [run_append, hrun]
    simp only [Option.bind_some]
    rw [hrun2]
    rfl
  · simp only [viewC, closeMem]
    rw [hclose]
    simp [closeParam, normMethod]

/-- the lines of a list of fields -/
theorem fields_run : ∀ (fs : AList MemberKey FDiff) (c : OpenClass),
    (∀ e ∈ fs, writableField e = true) → fs.keys.Nodup → (∀ e ∈ fs, contains e.1 (viewC c).fields = false) →
    ∃ c2, run stepC c (fs.flatMap fieldL) = some c2 ∧ c2.key = c.key ∧ c2.had = c.had ∧
      viewC c2 = { viewC c with fields := (viewC c).fields ++ fs.map fun e => (e.1, normField e.2) }
  | [], c, _, _, _ => ⟨c, rfl, rfl, rfl, by simp⟩
  | e :: rest, c, hw, hn, hc => by
    obtain ⟨c1, hrun, hk, hh, hv⟩ := field_run c e (hw e (by simp)) (hc e (by simp))
    simp only [keys, List.map_cons, List.nodup_cons] at hn
    obtain ⟨c2, hrun2, hk2, hh2, hv2⟩ := fields_run rest c1
      (fun x hx => hw x (List.mem_cons_of_mem _ hx)) hn.2
      (by
        intro x hx
        rw [hv]
        simp only
        rw [contains_append_one, hc x (List.mem_cons_of_mem _ hx)]
        have : e.1 ≠ x.1 := by
          intro heq
          exact hn.1 (by rw [heq]; exact List.mem_map.mpr ⟨x, hx, rfl⟩)
        simp [this])
    refine ⟨c2, ?_, hk2.trans hk, hh2.trans hh, ?_⟩
    · simp only [List.flatMap_cons]
      rw [run_append, hrun]
      exact hrun2
    · rw [hv2, hv]
      simp

/-- the lines of a list of methods -/
theorem methods_run : ∀ (ms : AList MemberKey MDiff) (c : OpenClass),
    (∀ e ∈ ms, writableMethod e = true) → ms.keys.Nodup → (∀ e ∈ ms, e.2.params.keys.Nodup) →
    (∀ e ∈ ms, contains e.1 (viewC c).methods = false) →
    ∃ c2, run stepC c (ms.flatMap methodL) = some c2 ∧ c2.key = c.key ∧ c2.had = c.had ∧
      viewC c2 = { viewC c with methods := (viewC c).methods ++ ms.map fun e => (e.1, normMethod e.2) }
  | [], c, _, _, _, _ => ⟨c, rfl, rfl, rfl, by simp⟩
  | e :: rest, c, hw, hn, hp, hc => by
    obtain ⟨c1, hrun, hk, hh, hv⟩ := method_run c e (hw e (by simp)) (hp e (by simp)) (hc e (by simp))
    simp only [keys, List.map_cons, List.nodup_cons] at hn
    obtain ⟨c2, hrun2, hk2, hh2, hv2⟩ := methods_run rest c1
      (fun x hx => hw x (List.mem_cons_of_mem _ hx)) hn.2 (fun x hx => hp x (List.mem_cons_of_mem _ hx))
      (by
        intro x hx
        rw [hv]
        simp only
        rw [contains_append_one, hc x (List.mem_cons_of_mem _ hx)]
        have : e.1 ≠ x.1 := by
          intro heq
          exact hn.1 (by rw [heq]; exact List.mem_map.mpr ⟨x, hx, rfl⟩)
        simp [this])
    refine ⟨c2, ?_, hk2.trans hk, hh2.trans hh, ?_⟩
    · simp only [List.flatMap_cons]
      rw [run_append, hrun]
      exact hrun2
    · rw [hv2, hv]
      simp

/-! ## class level -/

theorem docC_run (key : JStr) (d : CDiff) (hd : d.doc = .none) (a : Action JStr) (ha : actionAll plainDoc a = true) :
    ∃ h', run stepC { key := key, d := d, had := false, mem := none } (docL 1 a) =
      some { key := key, d := { d with doc := normAction a }, had := h', mem := none } := by
  rcases docL_cases 1 a with ⟨rfl, e⟩ | e <;> rw [e]
  · refine ⟨false, ?_⟩
    simp only [run, normAction, ← hd]
  · refine ⟨true, ?_⟩
    have h1 : ¬ (C_ = F_) := by decide
    have h2 : ¬ (C_ = M_) := by decide
    simp only [run, stepC, step1, closeMem, h1, h2, if_false, addComment_cells a ha, if_true]

/-- what the class map looks like once the open class is closed -/
def viewS (st : St) : AList JStr CDiff := closeClass st.done st.cls

/-- the lines of one class -/
theorem class_run (st : St) (e : JStr × CDiff) (hw : writableClass e = true)
    (hnf : e.2.fields.keys.Nodup) (hnm : e.2.methods.keys.Nodup) (hnp : ∀ m ∈ e.2.methods, m.2.params.keys.Nodup)
    (hc : contains e.1 (viewS st) = false) :
    ∃ st2, run step st (classL e) = some st2 ∧ viewS st2 = viewS st ++ [(e.1, normClass e.2)] := by
  simp only [writableClass, Bool.and_eq_true, List.all_eq_true] at hw
  obtain ⟨⟨⟨⟨hn, hi⟩, hd⟩, hf⟩, hm⟩ := hw
  obtain ⟨h', hrun⟩ := docC_run e.1 { info := normAction e.2.info, doc := .none, fields := [], methods := [] } rfl e.2.doc hd
  obtain ⟨c1, hrun1, hk1, _, hv1⟩ := fields_run e.2.fields
    { key := e.1, d := { info := normAction e.2.info, doc := normAction e.2.doc, fields := [], methods := [] }, had := h', mem := none } hf hnf (fun x _ => contains_nil _)
  obtain ⟨c2, hrun2, hk2, _, hv2⟩ := methods_run e.2.methods c1 hm hnm hnp
    (by intro x _; rw [hv1]; exact contains_nil _)
  refine ⟨{ done := viewS st, cls := some c2 }, ?_, ?_⟩
  · unfold classL
    simp only [run]
    have h1 : step st { idents := 0, first := C_, fields := e.1 :: actionCells e.2.info } =
        some { done := viewS st, cls := some { key := e.1, d := { info := normAction e.2.info, doc := .none, fields := [], methods := [] }, had := false, mem := none } } := by
      have hc' : contains e.1 (closeClass st.done st.cls) = false := hc
      simp only [step, step0, if_true, nameCell_valid _ hn, Bool.not_true, Bool.false_eq_true, if_false,
        parse_name class_ne_nil e.2.info hi, hc', viewS]
    rw [h1]
    simp only
    rw [run_lift stepC step (fun c => ({ done := viewS st, cls := some c } : St)) (fun l => l.idents ≠ 0)
      (fun c l hl => step_lift (viewS st) c l hl) _ _
      (by
        intro l hl
        rcases List.mem_append.mp hl with hl | hl
        · rw [docL_idents hl]; decide
        · rcases List.mem_append.mp hl with hl | hl
          · obtain ⟨f, _, hl⟩ := List.mem_flatMap.mp hl
            exact fieldL_idents hl
          · obtain ⟨m, _, hl⟩ := List.mem_flatMap.mp hl
            exact methodL_idents hl)]
    rw [run_append, hrun]
    simp only [Option.bind_some]
    rw [run_append, hrun1]
    simp only [Option.bind_some]
    rw [hrun2]
    rfl
  · have hkey : c2.key = e.1 := hk2.trans hk1
    show closeClass (viewS st) (some c2) = _
    simp only [closeClass]
    have : closeMem c2.d c2.mem = normClass e.2 := by
      have := hv2
      simp only [viewC] at this hv1
      rw [this, hv1]
      simp [closeMem, normClass]
    rw [this, hkey]

/-- the lines of a list of classes -/
theorem classes_run : ∀ (cs : AList JStr CDiff) (st : St),
    (∀ e ∈ cs, writableClass e = true) → cs.keys.Nodup →
    (∀ e ∈ cs, e.2.fields.keys.Nodup ∧ e.2.methods.keys.Nodup ∧ ∀ m ∈ e.2.methods, m.2.params.keys.Nodup) →
    (∀ e ∈ cs, contains e.1 (viewS st) = false) →
    ∃ st2, run step st (cs.flatMap classL) = some st2 ∧
      viewS st2 = viewS st ++ cs.map fun e => (e.1, normClass e.2)
  | [], st, _, _, _, _ => ⟨st, rfl, by simp⟩
  | e :: rest, st, hw, hn, hk, hc => by
    obtain ⟨hnf, hnm, hnp⟩ := hk e (by simp)
    obtain ⟨st1, hrun, hv⟩ := class_run st e (hw e (by simp)) hnf hnm hnp (hc e (by simp))
    simp only [keys, List.map_cons, List.nodup_cons] at hn
    obtain ⟨st2, hrun2, hv2⟩ := classes_run rest st1
      (fun x hx => hw x (List.mem_cons_of_mem _ hx)) hn.2 (fun x hx => hk x (List.mem_cons_of_mem _ hx))
      (by
        intro x hx
        rw [hv, contains_append_one, hc x (List.mem_cons_of_mem _ hx)]
        have : e.1 ≠ x.1 := by
          intro heq
          exact hn.1 (by rw [heq]; exact List.mem_map.mpr ⟨x, hx, rfl⟩)
        simp [this])
    refine ⟨st2, ?_, ?_⟩
    · simp only [List.flatMap_cons]
      rw [run_append, hrun]
      exact hrun2
    · rw [hv2, hv]
      simp

/-- **the reader on the specification text**: a writable diff is read back with `Edit(a, a)` normalised to `None` -/
theorem read_writeSpec (d : Diff) (h : Writable d) : read (writeSpec d) = some (normDiff d) := by
  obtain ⟨_, _, ⟨hnc, hk⟩, hw⟩ := h
  unfold read
  rw [lines_writeSpec d hw]
  simp only
  have hh : headerOk headerL = true := by decide
  simp only [hh, Bool.not_true, Bool.false_eq_true, if_false]
  rw [steps_eq_run]
  obtain ⟨st2, hrun, hv⟩ := classes_run d.classes { done := [], cls := none }
    (List.all_eq_true.mp hw) hnc (fun e he => hk e he) (fun x _ => contains_nil _)
  rw [hrun]
  have hv' : closeClass st2.done st2.cls = [] ++ d.classes.map fun e => (e.1, normClass e.2) := hv
  rw [List.nil_append] at hv'
  simp only [normDiff]
  rw [hv']

end TinyDiff
