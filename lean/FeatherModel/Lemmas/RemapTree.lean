import FeatherModel.Model.RemapSpec
import FeatherModel.Lemmas.RemapDesc

/-!
# Lemmas for C07: the traversal of `remap.rs` acts on the independent traversal `refs*` as `applyRef`, pointwise
-/

namespace RemapTree

/-- concatenation of two possibly failed lists -/
def oapp {β : Type} : Option (List β) → Option (List β) → Option (List β)
  | some x, some y => some (x ++ y)
  | _, _ => none

@[simp] theorem oapp_none_left {β : Type} (b : Option (List β)) : oapp none b = none := by cases b <;> rfl
@[simp] theorem oapp_none_right {β : Type} (a : Option (List β)) : oapp a none = none := by cases a <;> rfl
@[simp] theorem oapp_some {β : Type} (x y : List β) : oapp (some x) (some y) = some (x ++ y) := rfl

theorem oapp_assoc {β : Type} (a b c : Option (List β)) : oapp (oapp a b) c = oapp a (oapp b c) := by
  cases a <;> cases b <;> cases c <;> simp

@[simp] theorem omapM_nil {α β : Type} (f : α → Option β) : omapM f [] = some [] := rfl

theorem omapM_cons {α β : Type} (f : α → Option β) (x : α) (xs : List α) :
    omapM f (x :: xs) = oapp ((f x).map fun y => [y]) (omapM f xs) := by
  simp only [omapM]
  cases f x <;> cases omapM f xs <;> simp

theorem omapM_append {α β : Type} (f : α → Option β) (xs ys : List α) :
    omapM f (xs ++ ys) = oapp (omapM f xs) (omapM f ys) := by
  induction xs with
  | nil => cases h : omapM f ys <;> simp [h]
  | cons x xs ih => simp only [List.cons_append, omapM_cons, ih, oapp_assoc]

@[simp] theorem omapM_singleton {α β : Type} (f : α → Option β) (x : α) :
    omapM f [x] = (f x).map fun y => [y] := by
  simp only [omapM]; cases f x <;> rfl

/-- lists of components -/
theorem flatMap_ok {α : Type} (g : Ref → Option Ref) (rm : α → Option α) (rf : α → List Ref)
    (xs : List α) (h : ∀ x ∈ xs, (rm x).map rf = omapM g (rf x)) :
    (omapM rm xs).map (·.flatMap rf) = omapM g (xs.flatMap rf) := by
  induction xs with
  | nil => rfl
  | cons x xs ih =>
    have hx := h x (by simp)
    have hxs := ih (fun y hy => h y (by simp [hy]))
    simp only [List.flatMap_cons, omapM_append, ← hx, ← hxs]
    simp only [omapM]
    cases rm x <;> cases omapM rm xs <;> simp

/-- optional components -/
theorem opt_ok {α : Type} (g : Ref → Option Ref) (rm : α → Option α) (rf : α → List Ref)
    (x : Option α) (h : ∀ a, x = some a → (rm a).map rf = omapM g (rf a)) :
    (ooptM rm x).map (refsOpt rf) = omapM g (refsOpt rf x) := by
  cases x with
  | none => rfl
  | some a =>
    have := h a rfl
    simp only [refsOpt, ← this, ooptM]
    cases rm a <;> rfl


section
variable (r : Remapper) (o : JStr)

mutual
  theorem annotation_ok : ∀ a : Annotation,
      (remapAnnotation r a).map refsAnnotation = omapM (applyRef r o) (refsAnnotation a)
    | .mk t ps => by
      have ih := pairs_ok ps
      simp only [refsAnnotation, omapM_cons, ← ih, remapAnnotation, applyRef]
      cases r.mapDesc t <;> cases remapPairs r ps <;> simp [refsAnnotation]
  theorem pairs_ok : ∀ ps : List Pair,
      (remapPairs r ps).map refsPairs = omapM (applyRef r o) (refsPairs ps)
    | [] => rfl
    | p :: ps => by
      have ih1 := pair_ok p
      have ih2 := pairs_ok ps
      simp only [refsPairs, omapM_append, ← ih1, ← ih2, remapPairs]
      cases remapPair r p <;> cases remapPairs r ps <;> simp [refsPairs]
  theorem pair_ok : ∀ p : Pair,
      (remapPair r p).map refsPair = omapM (applyRef r o) (refsPair p)
    | .mk n v => by
      have ih := elementValue_ok v
      simp only [refsPair, ← ih, remapPair]
      cases remapElementValue r v <;> simp [refsPair]
  theorem elementValue_ok : ∀ v : ElementValue,
      (remapElementValue r v).map refsElementValue = omapM (applyRef r o) (refsElementValue v)
    | .object _ => rfl
    | .enum t c => by
      simp only [refsElementValue, omapM_singleton, remapElementValue, applyRef, classOfDesc_eq, mapEnumConstName,
        fieldNameOk, validFieldName]
      cases h1 : objectClassOf t with
      | none => cases r.mapDesc t <;> simp [refsElementValue]
      | some k =>
        by_cases h2 : Descriptor.validUnqualified c = true
        · simp only [h2, ↓reduceIte]
          cases h3 : r.mapField k c t with
          | none => cases r.mapDesc t <;> simp
          | some p => cases r.mapDesc t <;> simp [refsElementValue]
        · simp only [Bool.not_eq_true] at h2
          simp only [h2, Bool.false_eq_true, ↓reduceIte]
          cases r.mapDesc t <;> simp [refsElementValue]
    | .cls d => by
      simp only [refsElementValue, omapM_singleton, remapElementValue, applyRef]
      cases r.mapDesc d <;> simp [refsElementValue]
    | .ann a => by
      have ih := annotation_ok a
      simp only [refsElementValue, ← ih, remapElementValue]
      cases remapAnnotation r a <;> simp [refsElementValue]
    | .array vs => by
      have ih := elementValues_ok vs
      simp only [refsElementValue, ← ih, remapElementValue]
      cases remapElementValues r vs <;> simp [refsElementValue]
  theorem elementValues_ok : ∀ vs : List ElementValue,
      (remapElementValues r vs).map refsElementValues = omapM (applyRef r o) (refsElementValues vs)
    | [] => rfl
    | v :: vs => by
      have ih1 := elementValue_ok v
      have ih2 := elementValues_ok vs
      simp only [refsElementValues, omapM_append, ← ih1, ← ih2, remapElementValues]
      cases remapElementValue r v <;> cases remapElementValues r vs <;> simp [refsElementValues]
end


theorem typeAnnotation_ok (t : TypeAnnotation) :
    (remapTypeAnnotation r t).map refsTypeAnnotation = omapM (applyRef r o) (refsTypeAnnotation t) := by
  simp only [refsTypeAnnotation, ← annotation_ok r o, remapTypeAnnotation]
  cases remapAnnotation r t.annotation <;> simp [refsTypeAnnotation]

theorem handle_ok (h : Handle) :
    (remapHandle r h).map refsHandle = omapM (applyRef r o) (refsHandle h) := by
  cases h with
  | field k f =>
    simp only [refsHandle, omapM_singleton, remapHandle, applyRef]
    cases mapFieldRef r f <;> simp [refsHandle]
  | method k m =>
    simp only [refsHandle, omapM_singleton, remapHandle, applyRef]
    cases mapMethodRef r m <;> simp [refsHandle]

mutual
  theorem loadable_ok : ∀ l : Loadable,
      (remapLoadable r l).map refsLoadable = omapM (applyRef r o) (refsLoadable l)
    | .const _ => rfl
    | .cls n => by
      simp only [refsLoadable, omapM_singleton, remapLoadable, applyRef]
      cases mapClassAny r n <;> simp [refsLoadable]
    | .handle h => by
      simp only [refsLoadable, ← handle_ok r o, remapLoadable]
      cases remapHandle r h <;> simp [refsLoadable]
    | .methodType d => by
      simp only [refsLoadable, omapM_singleton, remapLoadable, applyRef]
      cases r.mapDesc d <;> simp [refsLoadable]
    | .dynamic c => by
      have ih := constDyn_ok c
      simp only [refsLoadable, ← ih, remapLoadable]
      cases remapConstDyn r c <;> simp [refsLoadable]
  theorem constDyn_ok : ∀ c : ConstDyn,
      (remapConstDyn r c).map refsConstDyn = omapM (applyRef r o) (refsConstDyn c)
    | .mk n d h args => by
      have ih := loadables_ok args
      simp only [refsConstDyn, omapM_cons, omapM_append, ← handle_ok r o, ← ih, remapConstDyn, applyRef]
      cases r.mapDesc d <;> cases remapHandle r h <;> cases remapLoadables r args <;> simp [refsConstDyn]
  theorem loadables_ok : ∀ ls : List Loadable,
      (remapLoadables r ls).map refsLoadables = omapM (applyRef r o) (refsLoadables ls)
    | [] => rfl
    | l :: ls => by
      have ih1 := loadable_ok l
      have ih2 := loadables_ok ls
      simp only [refsLoadables, omapM_append, ← ih1, ← ih2, remapLoadables]
      cases remapLoadable r l <;> cases remapLoadables r ls <;> simp [refsLoadables]
end

theorem vtype_ok (v : VType) :
    (remapVType r v).map refsVType = omapM (applyRef r o) (refsVType v) := by
  cases v with
  | plain _ => rfl
  | object n =>
    simp only [refsVType, omapM_singleton, remapVType, applyRef]
    cases mapClassAny r n <;> simp [refsVType]

theorem vtypes_ok (vs : List VType) :
    (omapM (remapVType r) vs).map (·.flatMap refsVType) = omapM (applyRef r o) (vs.flatMap refsVType) :=
  flatMap_ok _ _ _ vs (fun v _ => vtype_ok r o v)

theorem frame_ok (f : Frame) :
    (remapFrame r f).map refsFrame = omapM (applyRef r o) (refsFrame f) := by
  cases f with
  | plain _ => rfl
  | same1 s =>
    simp only [refsFrame, ← vtype_ok r o, remapFrame]
    cases remapVType r s <;> simp [refsFrame]
  | append ls =>
    simp only [refsFrame, ← vtypes_ok r o, remapFrame]
    cases omapM (remapVType r) ls <;> simp [refsFrame]
  | full ls ss =>
    simp only [refsFrame, omapM_append, ← vtypes_ok r o, remapFrame]
    cases omapM (remapVType r) ls <;> cases omapM (remapVType r) ss <;> simp [refsFrame]

theorem insn_ok (i : Insn) :
    (remapInsn r i).map refsInsn = omapM (applyRef r o) (refsInsn i) := by
  cases i with
  | plain _ => rfl
  | ldc l =>
    simp only [refsInsn, ← loadable_ok r o, remapInsn]
    cases remapLoadable r l <;> simp [refsInsn]
  | field op f =>
    simp only [refsInsn, omapM_singleton, remapInsn, applyRef]
    cases mapFieldRef r f <;> simp [refsInsn]
  | method op m =>
    simp only [refsInsn, omapM_singleton, remapInsn, applyRef]
    cases mapMethodRef r m <;> simp [refsInsn]
  | indy n d h args =>
    simp only [refsInsn, omapM_cons, omapM_append, ← handle_ok r o, ← loadables_ok r o, remapInsn, applyRef]
    cases r.mapDesc d <;> cases remapHandle r h <;> cases remapLoadables r args <;> simp [refsInsn]
  | cls op n =>
    simp only [refsInsn, omapM_singleton, remapInsn, applyRef]
    cases mapClassAny r n <;> simp [refsInsn]

theorem insnEntry_ok (e : InsnEntry) :
    (remapInsnEntry r e).map refsInsnEntry = omapM (applyRef r o) (refsInsnEntry e) := by
  have h1 := opt_ok (applyRef r o) (remapFrame r) refsFrame e.frame (fun a _ => frame_ok r o a)
  simp only [refsInsnEntry, omapM_append, ← h1, ← insn_ok r o, remapInsnEntry]
  cases ooptM (remapFrame r) e.frame <;> cases remapInsn r e.insn <;> simp [refsInsnEntry]

theorem clsAny_ok (n : JStr) :
    (mapClassAny r n).map (fun n => [Ref.clsAny n]) = omapM (applyRef r o) [Ref.clsAny n] := by
  simp only [omapM_singleton, applyRef]
  cases mapClassAny r n <;> simp

theorem clsAnys_ok (ns : List JStr) :
    (omapM (mapClassAny r) ns).map (·.map Ref.clsAny) = omapM (applyRef r o) (ns.map Ref.clsAny) := by
  induction ns with
  | nil => rfl
  | cons n ns ih =>
    simp only [List.map_cons, omapM_cons, ← ih, applyRef]
    cases mapClassAny r n <;> cases omapM (mapClassAny r) ns <;> simp

theorem exc_ok (e : ExcEntry) :
    (remapExc r e).map refsExc = omapM (applyRef r o) (refsExc e) := by
  have h1 := opt_ok (applyRef r o) (mapClassAny r) (fun n => [Ref.clsAny n]) e.catchType (fun a _ => clsAny_ok r o a)
  simp only [refsExc, ← h1, remapExc]
  cases ooptM (mapClassAny r) e.catchType <;> simp [refsExc]

theorem desc_ok (d : JStr) :
    (r.mapDesc d).map (fun d => [Ref.desc d]) = omapM (applyRef r o) [Ref.desc d] := by
  simp only [omapM_singleton, applyRef]
  cases r.mapDesc d <;> simp

theorem lv_ok (l : Lv) :
    (remapLv r l).map refsLv = omapM (applyRef r o) (refsLv l) := by
  have h1 := opt_ok (applyRef r o) r.mapDesc (fun d => [Ref.desc d]) l.desc (fun a _ => desc_ok r o a)
  simp only [refsLv, ← h1, remapLv]
  cases ooptM r.mapDesc l.desc <;> simp [refsLv]


theorem annotations_ok (as : List Annotation) :
    (omapM (remapAnnotation r) as).map (·.flatMap refsAnnotation) = omapM (applyRef r o) (as.flatMap refsAnnotation) :=
  flatMap_ok _ _ _ as (fun a _ => annotation_ok r o a)

theorem typeAnnotations_ok (ts : List TypeAnnotation) :
    (omapM (remapTypeAnnotation r) ts).map (·.flatMap refsTypeAnnotation) =
      omapM (applyRef r o) (ts.flatMap refsTypeAnnotation) :=
  flatMap_ok _ _ _ ts (fun a _ => typeAnnotation_ok r o a)

theorem insnEntries_ok (es : List InsnEntry) :
    (omapM (remapInsnEntry r) es).map (·.flatMap refsInsnEntry) = omapM (applyRef r o) (es.flatMap refsInsnEntry) :=
  flatMap_ok _ _ _ es (fun a _ => insnEntry_ok r o a)

theorem excs_ok (es : List ExcEntry) :
    (omapM (remapExc r) es).map (·.flatMap refsExc) = omapM (applyRef r o) (es.flatMap refsExc) :=
  flatMap_ok _ _ _ es (fun a _ => exc_ok r o a)

theorem lvs_ok (ls : Option (List Lv)) :
    (ooptM (omapM (remapLv r)) ls).map (refsOpt (·.flatMap refsLv)) =
      omapM (applyRef r o) (refsOpt (·.flatMap refsLv) ls) :=
  opt_ok _ _ _ ls (fun a _ => flatMap_ok _ _ _ a (fun l _ => lv_ok r o l))

theorem optClsAny_ok (n : Option JStr) :
    (ooptM (mapClassAny r) n).map (refsOpt fun n => [Ref.clsAny n]) =
      omapM (applyRef r o) (refsOpt (fun n => [Ref.clsAny n]) n) :=
  opt_ok _ _ _ n (fun a _ => clsAny_ok r o a)

theorem optClsAnys_ok (ns : Option (List JStr)) :
    (ooptM (omapM (mapClassAny r)) ns).map (refsOpt (·.map Ref.clsAny)) =
      omapM (applyRef r o) (refsOpt (·.map Ref.clsAny) ns) :=
  opt_ok _ _ _ ns (fun a _ => clsAnys_ok r o a)

/-- one step of a `?` chain: the failing branch closes, the succeeding one stays -/
syntax "ostep" : tactic
macro_rules
  | `(tactic| ostep) => `(tactic| (split; · simp [*]))

theorem code_ok (c : Code) :
    (remapCode r c).map refsCode = omapM (applyRef r o) (refsCode c) := by
  simp only [refsCode, omapM_append, ← insnEntries_ok r o, ← excs_ok r o, ← lvs_ok r o, ← typeAnnotations_ok r o,
    remapCode]
  repeat ostep
  simp [*, refsCode]

theorem optCode_ok (c : Option Code) :
    (ooptM (remapCode r) c).map (refsOpt refsCode) = omapM (applyRef r o) (refsOpt refsCode c) :=
  opt_ok _ _ _ c (fun a _ => code_ok r o a)

theorem optElementValue_ok (v : Option ElementValue) :
    (ooptM (remapElementValue r) v).map (refsOpt refsElementValue) =
      omapM (applyRef r o) (refsOpt refsElementValue v) :=
  opt_ok _ _ _ v (fun a _ => elementValue_ok r o a)

theorem field_ok (f : Field) :
    (remapField r o f).map refsField = omapM (applyRef r o) (refsField f) := by
  simp only [refsField, omapM_cons, omapM_append, ← annotations_ok r o, ← typeAnnotations_ok r o, remapField,
    applyRef]
  repeat ostep
  simp [*, refsField]

theorem method_ok (m : Method) :
    (remapMethod r o m).map refsMethod = omapM (applyRef r o) (refsMethod m) := by
  simp only [refsMethod, omapM_cons, omapM_append, ← annotations_ok r o, ← typeAnnotations_ok r o, ← optCode_ok r o,
    ← optClsAnys_ok r o, ← optElementValue_ok r o, remapMethod, applyRef]
  repeat ostep
  simp [*, refsMethod]

theorem fields_ok (fs : List Field) :
    (omapM (remapField r o) fs).map (·.flatMap refsField) = omapM (applyRef r o) (fs.flatMap refsField) :=
  flatMap_ok _ _ _ fs (fun a _ => field_ok r o a)

theorem methods_ok (ms : List Method) :
    (omapM (remapMethod r o) ms).map (·.flatMap refsMethod) = omapM (applyRef r o) (ms.flatMap refsMethod) :=
  flatMap_ok _ _ _ ms (fun a _ => method_ok r o a)

theorem innerClass_ok (i : InnerClass) :
    (remapInnerClass r i).map refsInnerClass = omapM (applyRef r o) (refsInnerClass i) := by
  simp only [refsInnerClass, omapM_cons, ← optClsAny_ok r o, remapInnerClass, applyRef]
  repeat ostep
  simp [*, refsInnerClass]

theorem innerClasses_ok (is : Option (List InnerClass)) :
    (ooptM (omapM (remapInnerClass r)) is).map (refsOpt (·.flatMap refsInnerClass)) =
      omapM (applyRef r o) (refsOpt (·.flatMap refsInnerClass) is) :=
  opt_ok _ _ _ is (fun a _ => flatMap_ok _ _ _ a (fun l _ => innerClass_ok r o l))

theorem enclosing_ok (e : Enclosing) :
    (remapEnclosing r e).map refsEnclosing = omapM (applyRef r o) (refsEnclosing e) := by
  obtain ⟨c, m⟩ := e
  cases m with
  | none =>
    simp only [refsEnclosing, omapM_singleton, remapEnclosing, applyRef]
    cases mapClassAny r c <;> simp [refsEnclosing]
  | some nd =>
    obtain ⟨n, d⟩ := nd
    simp only [refsEnclosing, omapM_singleton, remapEnclosing, applyRef]
    cases mapMethodRef r ⟨c, n, d⟩ <;> simp [refsEnclosing]

theorem optEnclosing_ok (e : Option Enclosing) :
    (ooptM (remapEnclosing r) e).map (refsOpt refsEnclosing) = omapM (applyRef r o) (refsOpt refsEnclosing e) :=
  opt_ok _ _ _ e (fun a _ => enclosing_ok r o a)


theorem cls_ok (n : JStr) :
    (r.mapClass n).map (fun n => [Ref.cls n]) = omapM (applyRef r o) [Ref.cls n] := by
  simp only [omapM_singleton, applyRef]
  cases r.mapClass n <;> simp

theorem optCls_ok (n : Option JStr) :
    (ooptM r.mapClass n).map (refsOpt fun n => [Ref.cls n]) =
      omapM (applyRef r o) (refsOpt (fun n => [Ref.cls n]) n) :=
  opt_ok _ _ _ n (fun a _ => cls_ok r o a)

theorem clss_ok (ns : List JStr) :
    (omapM r.mapClass ns).map (·.map Ref.cls) = omapM (applyRef r o) (ns.map Ref.cls) := by
  induction ns with
  | nil => rfl
  | cons n ns ih =>
    simp only [List.map_cons, omapM_cons, ← ih, applyRef]
    cases r.mapClass n <;> cases omapM r.mapClass ns <;> simp

end

theorem recordComponent_ok (r : Remapper) (o : JStr) (c : RecordComponent) :
    (remapRecordComponent r o c).map refsRecordComponent = omapM (applyRef r o) (refsRecordComponent c) := by
  simp only [refsRecordComponent, omapM_cons, omapM_append, ← annotations_ok r o, ← typeAnnotations_ok r o,
    remapRecordComponent, mapRecordDecl, applyRef, fieldNameOk, validFieldName]
  by_cases h1 : Descriptor.validUnqualified c.name = true
  · simp only [h1, ↓reduceIte]
    cases h2 : r.mapField o c.name c.desc with
    | none => simp
    | some p =>
      simp only [Option.map_some]
      repeat ostep
      simp [*, refsRecordComponent]
  · simp only [Bool.not_eq_true] at h1
    simp only [h1, Bool.false_eq_true, ↓reduceIte]
    cases h2 : r.mapDesc c.desc with
    | none => simp
    | some d =>
      simp only [Option.map_some]
      repeat ostep
      simp [*, refsRecordComponent]

theorem recordComponents_ok (r : Remapper) (o : JStr) (cs : List RecordComponent) :
    (omapM (remapRecordComponent r o) cs).map (·.flatMap refsRecordComponent) =
      omapM (applyRef r o) (cs.flatMap refsRecordComponent) :=
  flatMap_ok _ _ _ cs (fun a _ => recordComponent_ok r o a)

theorem moduleProvides_ok (r : Remapper) (o : JStr) (p : ModuleProvides) :
    (remapModuleProvides r p).map refsModuleProvides = omapM (applyRef r o) (refsModuleProvides p) := by
  simp only [refsModuleProvides, omapM_cons, ← clsAnys_ok r o, remapModuleProvides, applyRef]
  cases mapClassAny r p.name <;> cases omapM (mapClassAny r) p.providesWith <;> simp [refsModuleProvides]

theorem module_ok (r : Remapper) (o : JStr) (m : Module) :
    (remapModule r m).map refsModule = omapM (applyRef r o) (refsModule m) := by
  have h2 := flatMap_ok (applyRef r o) (remapModuleProvides r) refsModuleProvides m.provides
    (fun p _ => moduleProvides_ok r o p)
  simp only [refsModule, omapM_append, ← clsAnys_ok r o, ← h2, remapModule]
  cases omapM (mapClassAny r) m.uses <;> cases omapM (remapModuleProvides r) m.provides <;> simp [refsModule]

theorem optModule_ok (r : Remapper) (o : JStr) (m : Option Module) :
    (ooptM (remapModule r) m).map (refsOpt refsModule) = omapM (applyRef r o) (refsOpt refsModule m) :=
  opt_ok _ _ _ m (fun a _ => module_ok r o a)

/-- **the traversal of `remap.rs`, exactly**: on the references of the class it answers what the remapper answers,
position by position, and it fails iff one of the answers fails -/
theorem class_ok (r : Remapper) (c : ClassFile) :
    (remapClass r c).map refsClass = omapM (applyRef r c.name) (refsClass c) := by
  simp only [refsClass, omapM_cons, omapM_append, ← annotations_ok r c.name, ← typeAnnotations_ok r c.name,
    ← optCls_ok r c.name, ← clss_ok r c.name, ← fields_ok r c.name, ← methods_ok r c.name,
    ← innerClasses_ok r c.name, ← optEnclosing_ok r c.name, ← optClsAny_ok r c.name, ← optClsAnys_ok r c.name,
    ← optModule_ok r c.name, ← recordComponents_ok r c.name, remapClass, applyRef]
  repeat ostep
  simp [*, refsClass, refsOpt]

end RemapTree
