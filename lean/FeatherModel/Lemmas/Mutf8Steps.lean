import FeatherModel.Model.Mutf8

/-! C01 lemmas: one step of the two UTF-8 decoders on explicit byte shapes. -/

namespace Mutf8

theorem strict1 (b0 : Nat) (r : Bytes) (h : b0 < 128) : strictStep (b0 :: r) = some (b0, r) := by
  simp [strictStep, h]

theorem strict2 (b0 b1 : Nat) (r : Bytes) (h0 : 194 ≤ b0) (h1 : b0 < 224) (h2 : 128 ≤ b1) (h3 : b1 < 192) :
    strictStep (b0 :: b1 :: r) = some ((b0 - 192) * 64 + (b1 - 128), r) := by
  have a : ¬ b0 < 128 := by omega
  simp [strictStep, a, h0, h1, h2, h3, isCont]

theorem strict3 (b0 b1 b2 : Nat) (r : Bytes) (h0 : 224 ≤ b0) (h1 : b0 < 240) (h2 : 128 ≤ b1) (h3 : b1 < 192)
    (h4 : 128 ≤ b2) (h5 : b2 < 192) (h6 : b0 = 224 → 160 ≤ b1) (h7 : b0 = 237 → b1 < 160) :
    strictStep (b0 :: b1 :: b2 :: r) = some (((b0 - 224) * 64 + (b1 - 128)) * 64 + (b2 - 128), r) := by
  have a : ¬ b0 < 128 := by omega
  have b : ¬ b0 < 224 := by omega
  by_cases e1 : b0 = 224
  · subst e1; have := h6 rfl; simp [strictStep, isCont, h3, h4, h5, this]
  · by_cases e2 : b0 = 237
    · subst e2; have := h7 rfl; simp [strictStep, isCont, h2, h4, h5, this]
    · simp [strictStep, isCont, a, b, h0, h1, h2, h3, h4, h5, e1, e2]

theorem strict_c0 (r : Bytes) : strictStep (192 :: r) = none := by
  simp [strictStep]

theorem strict_surrogate (b1 : Nat) (r : Bytes) (h : 160 ≤ b1) : strictStep (237 :: b1 :: r) = none := by
  have : ¬ b1 < 160 := by omega
  cases r with
  | nil => simp [strictStep]
  | cons b2 r => simp [strictStep, this]

theorem internal1 (b0 : Nat) (r : Bytes) (h0 : b0 ≠ 0) (h : b0 < 128) : internalStep (b0 :: r) = some (b0, r) := by
  simp [internalStep, h0, h]

theorem internalNul (r : Bytes) : internalStep (192 :: 128 :: r) = some (0, r) := by
  simp [internalStep]

theorem internal2 (b0 b1 : Nat) (r : Bytes) (h0 : 194 ≤ b0) (h1 : b0 < 224) (h2 : 128 ≤ b1) (h3 : b1 < 192) :
    internalStep (b0 :: b1 :: r) = some ((b0 - 192) * 64 + (b1 - 128), r) := by
  have a0 : b0 ≠ 0 := by omega
  have a : ¬ b0 < 128 := by omega
  have a2 : b0 ≠ 192 := by omega
  simp [internalStep, a0, a, a2, h0, h1, h2, h3, isCont]

/-- a three-byte form that is passed through: everything except the first half of a surrogate pair -/
theorem internal3 (b0 b1 b2 : Nat) (r : Bytes) (h0 : 224 ≤ b0) (h1 : b0 < 240) (h2 : 128 ≤ b1) (h3 : b1 < 192)
    (h4 : 128 ≤ b2) (h5 : b2 < 192) (h6 : b0 = 224 → 160 ≤ b1) (h7 : b0 = 237 → (b1 < 160 ∨ 176 ≤ b1)) :
    internalStep (b0 :: b1 :: b2 :: r) = some (((b0 - 224) * 64 + (b1 - 128)) * 64 + (b2 - 128), r) := by
  have a0 : b0 ≠ 0 := by omega
  have a : ¬ b0 < 128 := by omega
  have a2 : b0 ≠ 192 := by omega
  have b : ¬ b0 < 224 := by omega
  have c : ((b0 = 224 ∧ 160 ≤ b1) ∨ (225 ≤ b0 ∧ b0 ≤ 236) ∨ (b0 = 237 ∧ b1 < 160) ∨ 238 ≤ b0 ∨ (b0 = 237 ∧ 176 ≤ b1)) := by
    by_cases e1 : b0 = 224
    · exact Or.inl ⟨e1, h6 e1⟩
    · by_cases e2 : b0 = 237
      · rcases h7 e2 with h | h
        · exact Or.inr (Or.inr (Or.inl ⟨e2, h⟩))
        · exact Or.inr (Or.inr (Or.inr (Or.inr ⟨e2, h⟩)))
      · omega
  have c' : (decide (b0 = 224) && decide (160 ≤ b1) || decide (225 ≤ b0) && decide (b0 ≤ 236) || decide (b0 = 237) && decide (b1 < 160) ||
      decide (238 ≤ b0) || decide (b0 = 237) && decide (176 ≤ b1)) = true := by
    simp only [Bool.or_eq_true, Bool.and_eq_true, decide_eq_true_eq]
    rcases c with h | h | h | h | h
    · exact Or.inl (Or.inl (Or.inl (Or.inl h)))
    · exact Or.inl (Or.inl (Or.inl (Or.inr h)))
    · exact Or.inl (Or.inl (Or.inr h))
    · exact Or.inl (Or.inr h)
    · exact Or.inr h
  have k1 : isCont b1 = true := by simp [isCont, h2, h3]
  have k2 : isCont b2 = true := by simp [isCont, h4, h5]
  have k3 : (decide (194 ≤ b0) && decide (b0 < 224)) = false := by simp [b]
  have k4 : (decide (224 ≤ b0) && decide (b0 < 240)) = true := by simp [h0, h1]
  simp only [internalStep, a0, a, a2, if_false, k1, k2, k3, k4, Bool.not_true, Bool.false_eq_true, if_true, c']

/-- the next bytes look like a three-byte low surrogate -/
def startsLow (r : Bytes) : Prop :=
  ∃ b4 b5 r', r = 237 :: b4 :: b5 :: r' ∧ 176 ≤ b4 ∧ b4 < 192 ∧ isCont b5 = true

theorem internal3_high_base (b1 b2 : Nat) (r : Bytes) (h2 : 160 ≤ b1) (h3 : b1 < 176) (h4 : 128 ≤ b2) (h5 : b2 < 192) :
    internalStep (237 :: b1 :: b2 :: r) =
      (match r with
        | b3 :: b4 :: b5 :: r' =>
          if (decide (b3 = 237) && decide (176 ≤ b4) && decide (b4 < 192) && isCont b5) = true then
            some (0x10000 + ((0xd000 + (b1 - 128) * 64 + (b2 - 128) - 0xd800) * 1024 + (0xd000 + (b4 - 128) * 64 + (b5 - 128) - 0xdc00)), r')
          else some (((237 - 224) * 64 + (b1 - 128)) * 64 + (b2 - 128), r)
        | _ => some (((237 - 224) * 64 + (b1 - 128)) * 64 + (b2 - 128), r)) := by
  have k1 : isCont b1 = true := by
    simp only [isCont, Bool.and_eq_true, decide_eq_true_eq]; omega
  have k2 : isCont b2 = true := by simp [isCont, h4, h5]
  have n1 : ¬ b1 < 160 := by omega
  have n2 : ¬ 176 ≤ b1 := by omega
  rcases r with _ | ⟨b3, _ | ⟨b4, _ | ⟨b5, r'⟩⟩⟩ <;> simp [internalStep, k1, k2, n1, n2, h2, h3]

/-- an unpaired high surrogate stays a single code point -/
theorem internal3_high (b1 b2 : Nat) (r : Bytes) (h2 : 160 ≤ b1) (h3 : b1 < 176) (h4 : 128 ≤ b2) (h5 : b2 < 192)
    (hr : ¬ startsLow r) :
    internalStep (237 :: b1 :: b2 :: r) = some (((237 - 224) * 64 + (b1 - 128)) * 64 + (b2 - 128), r) := by
  rw [internal3_high_base b1 b2 r h2 h3 h4 h5]
  match r, hr with
  | [], _ => rfl
  | [_], _ => rfl
  | [_, _], _ => rfl
  | b3 :: b4 :: b5 :: r', hr =>
    have : (decide (b3 = 237) && decide (176 ≤ b4) && decide (b4 < 192) && isCont b5) = false := by
      cases hc : (decide (b3 = 237) && decide (176 ≤ b4) && decide (b4 < 192) && isCont b5) with
      | false => rfl
      | true =>
        simp only [Bool.and_eq_true, decide_eq_true_eq] at hc
        exact absurd ⟨b4, b5, r', by rw [hc.1.1.1], hc.1.1.2, hc.1.2, hc.2⟩ hr
    simp only [this, Bool.false_eq_true, if_false]

/-- a surrogate pair becomes one supplementary code point -/
theorem internal6 (b1 b2 b4 b5 : Nat) (r : Bytes) (h2 : 160 ≤ b1) (h3 : b1 < 176) (h4 : 128 ≤ b2) (h5 : b2 < 192)
    (h6 : 176 ≤ b4) (h7 : b4 < 192) (h8 : 128 ≤ b5) (h9 : b5 < 192) :
    internalStep (237 :: b1 :: b2 :: 237 :: b4 :: b5 :: r) =
      some (0x10000 + ((0xd000 + (b1 - 128) * 64 + (b2 - 128) - 0xd800) * 1024 + (0xd000 + (b4 - 128) * 64 + (b5 - 128) - 0xdc00)), r) := by
  have k1 : isCont b1 = true := by
    simp only [isCont, Bool.and_eq_true, decide_eq_true_eq]; omega
  have k2 : isCont b2 = true := by simp [isCont, h4, h5]
  have k5 : isCont b5 = true := by simp [isCont, h8, h9]
  have n1 : ¬ b1 < 160 := by omega
  have n2 : ¬ 176 ≤ b1 := by omega
  simp [internalStep, k1, k2, k5, n1, n2, h2, h3, h6, h7]

end Mutf8
