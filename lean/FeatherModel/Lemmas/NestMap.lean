import FeatherModel.Lemmas.NestNames

/-!
# C14 lemmas: translating a nests table (`map_nests`), `Nests::add`, `rsplit_once("__")`, `Nests::read_line`
-/

namespace Nest

/-! ## `add` -/

theorem get_add (l : Nests) (n : Nest) (c : JStr) :
    get (add l n) c = if n.className == c then some n else get l c := by
  induction l with
  | nil => simp [add, get]
  | cons m rest ih =>
    simp only [add]
    by_cases h0 : (m.className == n.className) = true
    · have e : m.className = n.className := by simpa using h0
      simp only [h0, if_true]
      rw [get_cons, get_cons, e]
      cases (n.className == c) <;> simp
    · simp only [h0, Bool.false_eq_true, if_false]
      rw [get_cons, get_cons, ih]
      by_cases hk : (m.className == c) = true
      · have e : m.className = c := by simpa using hk
        have : (n.className == c) = false := by
          apply beq_false_of_ne
          intro e2
          apply h0
          rw [e, e2]; simp
        simp [hk, this]
      · simp [hk]

theorem add_mem (l : Nests) (n x : Nest) (h : x ∈ add l n) : x = n ∨ x ∈ l := by
  induction l with
  | nil => simp only [add, List.mem_singleton] at h; exact Or.inl h
  | cons m rest ih =>
    simp only [add] at h
    split at h
    · rcases List.mem_cons.mp h with h | h
      · exact Or.inl h
      · exact Or.inr (List.mem_cons_of_mem _ h)
    · rcases List.mem_cons.mp h with h | h
      · exact Or.inr (by rw [h]; exact List.mem_cons_self)
      · rcases ih h with h | h
        · exact Or.inl h
        · exact Or.inr (List.mem_cons_of_mem _ h)

theorem add_new (l : Nests) (n : Nest) (h : n.className ∉ l.map (·.className)) : add l n = l ++ [n] := by
  induction l with
  | nil => rfl
  | cons m rest ih =>
    simp only [List.map_cons, List.mem_cons, not_or] at h
    have : (m.className == n.className) = false := beq_false_of_ne (fun e => h.1 e.symm)
    simp only [add, this, Bool.false_eq_true, if_false, List.cons_append]
    rw [ih h.2]

/-- `add` keeps the keys unique -/
theorem add_keysUnique (l : Nests) (n : Nest) (h : (l.map (·.className)).Nodup) : ((add l n).map (·.className)).Nodup := by
  induction l with
  | nil => simp [add]
  | cons m rest ih =>
    simp only [List.map_cons, List.nodup_cons] at h
    simp only [add]
    split
    · rename_i hk
      have e : m.className = n.className := by simpa using hk
      simp only [List.map_cons, List.nodup_cons]
      rw [← e]
      exact h
    · rename_i hk
      simp only [List.map_cons, List.nodup_cons]
      refine ⟨?_, ih h.2⟩
      intro hm
      obtain ⟨x, hx, ex⟩ := List.mem_map.mp hm
      rcases add_mem rest n x hx with rfl | hx
      · apply hk; rw [ex]; simp
      · exact h.1 (List.mem_map.mpr ⟨x, hx, ex⟩)

theorem foldl_add_keysUnique : ∀ (imgs acc : Nests), (acc.map (·.className)).Nodup →
    ((imgs.foldl add acc).map (·.className)).Nodup := by
  intro imgs
  induction imgs with
  | nil => intro acc h; exact h
  | cons x rest ih => intro acc h; exact ih (add acc x) (add_keysUnique acc x h)

theorem foldl_add_get_mem : ∀ (imgs acc : Nests) (x : Nest), x ∈ imgs →
    ∃ o, get (imgs.foldl add acc) x.className = some o ∧ o ∈ imgs ∧ o.className = x.className := by
  intro imgs
  induction imgs with
  | nil => intro acc x h; simp at h
  | cons y rest ih =>
    intro acc x hx
    simp only [List.foldl_cons]
    by_cases hin : x ∈ rest
    · obtain ⟨o, h1, h2, h3⟩ := ih (add acc y) x hin
      exact ⟨o, h1, List.mem_cons_of_mem _ h2, h3⟩
    · rcases List.mem_cons.mp hx with rfl | h
      · -- later entries with the same key replace it, otherwise it stays
        have key : ∀ (rest : Nests) (acc : Nests) (o : Nest), get acc x.className = some o → o.className = x.className →
            ∃ o', get (rest.foldl add acc) x.className = some o' ∧ (o' = o ∨ o' ∈ rest) ∧ o'.className = x.className := by
          intro rest
          induction rest with
          | nil => intro acc o h1 h2; exact ⟨o, h1, Or.inl rfl, h2⟩
          | cons z rest ih2 =>
            intro acc o h1 h2
            simp only [List.foldl_cons]
            by_cases hz : (z.className == x.className) = true
            · obtain ⟨o', g1, g2, g3⟩ := ih2 (add acc z) z (by rw [get_add]; simp [hz]) (by simpa using hz)
              refine ⟨o', g1, Or.inr ?_, g3⟩
              rcases g2 with g2 | g2
              · rw [g2]; exact List.mem_cons_self
              · exact List.mem_cons_of_mem _ g2
            · obtain ⟨o', g1, g2, g3⟩ := ih2 (add acc z) o (by rw [get_add]; simp [hz, h1]) h2
              refine ⟨o', g1, ?_, g3⟩
              rcases g2 with g2 | g2
              · exact Or.inl g2
              · exact Or.inr (List.mem_cons_of_mem _ g2)
        obtain ⟨o', g1, g2, g3⟩ := key rest (add acc x) x (by rw [get_add]; simp) rfl
        refine ⟨o', g1, ?_, g3⟩
        rcases g2 with g2 | g2
        · rw [g2]; exact List.mem_cons_self
        · exact List.mem_cons_of_mem _ g2
      · exact absurd h hin

theorem foldl_add_mem : ∀ (imgs acc : Nests) (x : Nest), x ∈ imgs.foldl add acc → x ∈ imgs ∨ x ∈ acc := by
  intro imgs
  induction imgs with
  | nil => intro acc x h; exact Or.inr h
  | cons y rest ih =>
    intro acc x h
    simp only [List.foldl_cons] at h
    rcases ih (add acc y) x h with h | h
    · exact Or.inl (List.mem_cons_of_mem _ h)
    · rcases add_mem acc y x h with h | h
      · exact Or.inl (by rw [h]; exact List.mem_cons_self)
      · exact Or.inr h

theorem foldl_add_nodup : ∀ (imgs acc : Nests), ((acc ++ imgs).map (·.className)).Nodup → imgs.foldl add acc = acc ++ imgs := by
  intro imgs
  induction imgs with
  | nil => intro acc _; simp
  | cons y rest ih =>
    intro acc h
    simp only [List.foldl_cons]
    have hy : y.className ∉ acc.map (·.className) := by
      intro hm
      rw [List.map_append, List.nodup_append] at h
      exact h.2.2 _ hm _ (by simp) rfl
    rw [add_new acc y hy, ih (acc ++ [y]) (by simpa [List.append_assoc] using h), List.append_assoc]
    rfl

/-! ## `map_nests` -/

theorem mapNestsGo_eq (r : RemB) : ∀ (ns acc out : Nests), mapNestsGo r ns acc = some out →
    ∃ imgs, mapOpt (mapNest r) ns = some imgs ∧ out = imgs.foldl add acc := by
  intro ns
  induction ns with
  | nil => intro acc out h; simp only [mapNestsGo, Option.some.injEq] at h; exact ⟨[], rfl, by simp [h]⟩
  | cons n rest ih =>
    intro acc out h
    simp only [mapNestsGo] at h
    cases hm : mapNest r n with
    | none => rw [hm] at h; simp at h
    | some n' =>
      rw [hm] at h
      simp only at h
      obtain ⟨imgs, h1, h2⟩ := ih (add acc n') out h
      exact ⟨n' :: imgs, by simp only [mapOpt, hm, h1], by simp [h2]⟩

theorem mapOpt_mem_of_mem {α β : Type} {f : α → Option β} : ∀ {l : List α} {r : List β}, mapOpt f l = some r →
    ∀ a ∈ l, ∃ b ∈ r, f a = some b := by
  intro l
  induction l with
  | nil => intro r _ a ha; simp at ha
  | cons x rest ih =>
    intro r h a ha
    simp only [mapOpt] at h
    cases hfx : f x with
    | none => rw [hfx] at h; simp at h
    | some b0 =>
      rw [hfx] at h
      cases hr : mapOpt f rest with
      | none => rw [hr] at h; simp at h
      | some bs =>
        rw [hr] at h
        simp only [Option.some.injEq] at h
        subst h
        rcases List.mem_cons.mp ha with rfl | ha
        · exact ⟨b0, List.mem_cons_self, hfx⟩
        · obtain ⟨b, hb, e⟩ := ih hr a ha
          exact ⟨b, List.mem_cons_of_mem _ hb, e⟩

theorem mapOpt_mem' {α β : Type} {f : α → Option β} : ∀ {l : List α} {r : List β}, mapOpt f l = some r →
    ∀ b ∈ r, ∃ a ∈ l, f a = some b := by
  intro l
  induction l with
  | nil => intro r h b hb; simp [mapOpt] at h; subst h; simp at hb
  | cons a rest ih =>
    intro r h b hb
    simp only [mapOpt] at h
    cases hfa : f a with
    | none => rw [hfa] at h; simp at h
    | some b0 =>
      rw [hfa] at h
      cases hr : mapOpt f rest with
      | none => rw [hr] at h; simp at h
      | some bs =>
        rw [hr] at h
        simp only [Option.some.injEq] at h
        subst h
        rcases List.mem_cons.mp hb with rfl | hb
        · exact ⟨a, List.mem_cons_self, hfa⟩
        · obtain ⟨a', ha', e⟩ := ih hr b hb
          exact ⟨a', List.mem_cons_of_mem _ ha', e⟩

/-- the shape of one translated nest -/
theorem mapNest_some {r : RemB} {n n' : Nest} (h : mapNest r n = some n') :
    n'.kind = n.kind ∧ n'.access = n.access ∧ n'.className = remBMapClass r n.className ∧
    mapMOpt (remBMapMethod r n.enclClass) n.enclMethod = some n'.enclMethod ∧
    ((∃ e i, rsplitUnderscore (remBMapClass r n.className) = some (some (e, i)) ∧ n'.enclClass = e ∧ n'.innerName = i) ∨
     (rsplitUnderscore (remBMapClass r n.className) = some none ∧ n'.enclClass = remBMapClass r n.enclClass ∧
      innerNameOf n.className n.innerName (remBMapClass r n.className) = some n'.innerName)) := by
  unfold mapNest at h
  simp only at h
  cases hs : rsplitUnderscore (remBMapClass r n.className) with
  | none => rw [hs] at h; simp at h
  | some sp =>
    rw [hs] at h
    simp only at h
    cases sp with
    | some ei =>
      obtain ⟨e, i⟩ := ei
      simp only at h
      cases hm : mapMOpt (remBMapMethod r n.enclClass) n.enclMethod with
      | none => rw [hm] at h; simp at h
      | some em =>
        rw [hm] at h
        simp only [Option.some.injEq] at h
        subst h
        exact ⟨rfl, rfl, rfl, rfl, Or.inl ⟨e, i, rfl, rfl, rfl⟩⟩
    | none =>
      simp only at h
      cases hi : innerNameOf n.className n.innerName (remBMapClass r n.className) with
      | none => rw [hi] at h; simp at h
      | some i =>
        rw [hi] at h
        simp only at h
        cases hm : mapMOpt (remBMapMethod r n.enclClass) n.enclMethod with
        | none => rw [hm] at h; simp at h
        | some em =>
          rw [hm] at h
          simp only [Option.some.injEq] at h
          subst h
          exact ⟨rfl, rfl, rfl, rfl, Or.inr ⟨rfl, rfl, rfl⟩⟩

/-! ## `rsplit_once("__")` -/

theorem rsplitUU_some : ∀ {s p i : List Nat}, rsplitUU s = some (p, i) →
    s = p ++ USCORE :: USCORE :: i ∧ rsplitUU i = none := by
  intro s
  induction s with
  | nil => intro p i h; simp [rsplitUU] at h
  | cons x xs ih =>
    intro p i h
    simp only [rsplitUU] at h
    cases hr : rsplitUU xs with
    | some q =>
      obtain ⟨p', i'⟩ := q
      rw [hr] at h
      simp only [Option.some.injEq, Prod.mk.injEq] at h
      obtain ⟨h1, h2⟩ := ih hr
      rw [← h.1, ← h.2]
      exact ⟨by rw [h1]; rfl, h2⟩
    | none =>
      rw [hr] at h
      simp only at h
      cases xs with
      | nil => simp at h
      | cons y ys =>
        simp only at h
        split at h
        · rename_i hxy
          simp only [Option.some.injEq, Prod.mk.injEq] at h
          rw [← h.1, ← h.2, hxy.1, hxy.2]
          refine ⟨rfl, ?_⟩
          simp only [rsplitUU] at hr
          cases hys : rsplitUU ys with
          | none => rfl
          | some q => rw [hys] at hr; simp at hr
        · simp at h

/-! ## `Nests::read_line` -/

theorem readLine_some {line : List Nat} {n : Nest} (h : readLine line = some n) :
    n.kind = kindOfInnerName n.innerName ∧ n.className ≠ [] ∧ n.enclClass ≠ [] ∧ n.innerName ≠ [] ∧
    validObjClassName n.className = true ∧ validObjClassName n.enclClass = true ∧ validObjClassName n.innerName = true ∧
    (∃ cn en mn md inn acc, splitOn TAB line = [cn, en, mn, md, inn, acc] ∧ n.className = cn ∧ n.enclClass = en ∧
      n.innerName = inn ∧ (n.enclMethod = none ↔ (mn = [] ∨ md = [])) ∧
      ∃ a, parseAccess acc = some a ∧ n.access = maskAccess a) := by
  unfold readLine at h
  split at h
  · rename_i cn en mn md inn acc hsp
    split at h
    · simp at h
    · rename_i hne
      split at h
      · simp at h
      · rename_i hv1
        split at h
        · simp at h
        · rename_i hv2
          simp only at h
          split at h
          · simp at h
          · rename_i m hm
            split at h
            · simp at h
            · rename_i hv3
              split at h
              · simp at h
              · rename_i a ha
                simp only [Option.some.injEq] at h
                subst h
                simp only [Bool.or_eq_true, List.isEmpty_iff, not_or] at hne
                simp only [Bool.not_eq_true, Bool.not_eq_false'] at hv1 hv2 hv3
                refine ⟨rfl, hne.1.1, hne.1.2, hne.2, by simpa using hv1, by simpa using hv2, by simpa using hv3,
                  cn, en, mn, md, inn, acc, hsp, rfl, rfl, rfl, ?_, a, ha, rfl⟩
                simp only
                split at hm
                · rename_i he
                  simp only [Option.some.injEq] at hm
                  subst hm
                  simp only [Bool.or_eq_true, List.isEmpty_iff] at he
                  simp [he]
                · rename_i he
                  simp only [Bool.or_eq_true, List.isEmpty_iff] at he
                  split at hm
                  · simp only [Option.some.injEq] at hm
                    subst hm
                    simp [he]
                  · simp at hm
  · simp at h

theorem readLines_all (P : Nest → Prop) (hP : ∀ l n, readLine l = some n → P n) :
    ∀ (ls : List (List Nat)) (acc out : Nests), (∀ n ∈ acc, P n) → (acc.map (·.className)).Nodup →
      readLines ls acc = some out → (∀ n ∈ out, P n) ∧ (out.map (·.className)).Nodup := by
  intro ls
  induction ls with
  | nil => intro acc out h1 h2 h; simp only [readLines, Option.some.injEq] at h; subst h; exact ⟨h1, h2⟩
  | cons l rest ih =>
    intro acc out h1 h2 h
    simp only [readLines] at h
    cases hl : readLine l with
    | none => rw [hl] at h; simp at h
    | some n =>
      rw [hl] at h
      simp only at h
      refine ih (add acc n) out ?_ (add_keysUnique acc n h2) h
      intro x hx
      rcases add_mem acc n x hx with rfl | hx
      · exact hP l x hl
      · exact h1 x hx

end Nest
