import FeatherModel.Lemmas.TinyText
import FeatherModel.Lemmas.TinySort

/-! The lines `Tiny.write` emits, seen through `lines` and `TinyLine::new` (C03). -/

namespace Tiny

def cellsOf (names : Names) : List JStr := names.map (·.getD [])

def docT (indent : Nat) : Option JStr → List TLine
  | none => []
  | some d => [{ indent := indent, first := C_, fields := [escape d] }]

def paramT (p : Param) : List TLine :=
  { indent := 2, first := P_, fields := natDigits p.index :: cellsOf p.names } :: docT 3 p.doc

def fieldT (f : Field) : List TLine :=
  { indent := 1, first := F_, fields := f.desc :: cellsOf f.names } :: docT 2 f.doc

def methodT (m : Method) : List TLine :=
  { indent := 1, first := M_, fields := m.desc :: cellsOf m.names } ::
    (docT 2 m.doc ++ (sortBy paramLe m.params.values).flatMap paramT)

def classT (c : Class) : List TLine :=
  { indent := 0, first := C_, fields := cellsOf c.names } ::
    (docT 1 c.doc ++ ((sortBy fieldLe c.fields.values).flatMap fieldT ++
      (sortBy methodLe c.methods.values).flatMap methodT))

/-- what `lines` + `TinyLine::new` make of a list of written lines -/
structure Parsed (ls : List (List Nat)) (ts : List TLine) : Prop where
  ok : ∀ l ∈ ls, LineOk l
  eq : ls.map tinyLine = ts

theorem Parsed.nil : Parsed [] [] := ⟨by simp, rfl⟩

theorem Parsed.append {a b : List (List Nat)} {x y : List TLine} (h1 : Parsed a x) (h2 : Parsed b y) :
    Parsed (a ++ b) (x ++ y) :=
  ⟨fun l hl => (List.mem_append.mp hl).elim (h1.ok l) (h2.ok l), by rw [List.map_append, h1.eq, h2.eq]⟩

theorem Parsed.cons {l : List Nat} {t : TLine} {b : List (List Nat)} {y : List TLine}
    (h1 : LineOk l) (h1' : tinyLine l = t) (h2 : Parsed b y) : Parsed (l :: b) (t :: y) :=
  ⟨fun x hx => by rcases List.mem_cons.mp hx with rfl | hx; exact h1; exact h2.ok x hx,
   by rw [List.map_cons, h1', h2.eq]⟩

theorem Parsed.flatMap {α : Type} (f : α → List (List Nat)) (g : α → List TLine) :
    ∀ (l : List α), (∀ a ∈ l, Parsed (f a) (g a)) → Parsed (l.flatMap f) (l.flatMap g)
  | [], _ => Parsed.nil
  | a :: l, h => by
    simp only [List.flatMap_cons]
    exact (h a List.mem_cons_self).append (Parsed.flatMap f g l (fun x hx => h x (List.mem_cons_of_mem _ hx)))

/-! ## cells -/

def CellClean (s : JStr) : Prop := 9 ∉ s ∧ 10 ∉ s ∧ 13 ∉ s

theorem cellOk_clean {s : JStr} (h : cellOk s = true) : CellClean s := by
  simp only [cellOk, List.all_eq_true, Bool.and_eq_true, bne_iff_ne, ne_eq] at h
  exact ⟨fun h' => (h 9 h').1.1.1 rfl, fun h' => (h 10 h').1.1.2 rfl, fun h' => (h 13 h').1.2 rfl⟩

theorem namesCells_eq (names : Names) : namesCells names = (cellsOf names).flatMap (9 :: ·) := by
  induction names with
  | nil => rfl
  | cons o r ih => simp only [namesCells, cellsOf, List.flatMap_cons, List.map_cons] at ih ⊢; rw [ih]

theorem namesOk_cells {valid : JStr → Bool} {n : Nat} {names : Names} (h : namesOk valid n names = true) :
    ∀ c ∈ cellsOf names, CellClean c := by
  simp only [namesOk, Bool.and_eq_true, List.all_eq_true] at h
  intro c hc
  simp only [cellsOf, List.mem_map] at hc
  obtain ⟨o, ho, rfl⟩ := hc
  cases o with
  | none => simp [CellClean]
  | some s =>
    have := h.2 (some s) ho
    simp only [Bool.and_eq_true] at this
    exact cellOk_clean this.1.2

theorem digits_clean (n : Nat) : CellClean (natDigits n) := by
  have h := natDigits_digits n
  unfold isDigit at h
  exact ⟨fun h' => by have := h 9 h'; omega, fun h' => by have := h 10 h'; omega, fun h' => by have := h 13 h'; omega⟩

theorem lineOk_of_clean {l : List Nat} (h10 : 10 ∉ l) (h13 : 13 ∉ l) : LineOk l := by
  refine ⟨h10, fun h => h13 ?_⟩
  exact List.mem_of_getLast? h

theorem mem_mkLine {x : Nat} {indent : Nat} {first : JStr} {cells : List JStr} (hx : x ∈ mkLine indent first cells) :
    x = 9 ∨ x ∈ first ∨ ∃ c ∈ cells, x ∈ c := by
  simp only [mkLine, List.mem_append, List.mem_replicate, List.mem_flatMap, List.mem_cons] at hx
  rcases hx with h | h | ⟨c, hc, h | h⟩
  · exact Or.inl h.2
  · exact Or.inr (Or.inl h)
  · exact Or.inl h
  · exact Or.inr (Or.inr ⟨c, hc, h⟩)

/-- a row of clean cells is a good line and is split back into its cells -/
theorem mkLine_parsed (indent : Nat) (first : JStr) (cells : List JStr)
    (h1 : first ≠ []) (h2 : CellClean first) (h3 : ∀ c ∈ cells, CellClean c) :
    LineOk (mkLine indent first cells) ∧
      tinyLine (mkLine indent first cells) = { indent := indent, first := first, fields := cells } := by
  refine ⟨lineOk_of_clean ?_ ?_, tinyLine_mkLine indent first cells h1 h2.1 (fun c hc => (h3 c hc).1)⟩
  · intro h
    rcases mem_mkLine h with h | h | ⟨c, hc, h⟩
    · omega
    · exact h2.2.1 h
    · exact (h3 c hc).2.1 h
  · intro h
    rcases mem_mkLine h with h | h | ⟨c, hc, h⟩
    · omega
    · exact h2.2.2 h
    · exact (h3 c hc).2.2 h

/-! ## the emitted lines -/

theorem docLines_parsed (indent : Nat) (doc : Option JStr) : Parsed (docLines indent doc) (docT indent doc) := by
  cases doc with
  | none => exact Parsed.nil
  | some d =>
    have hc := escape_clean d
    have hline : List.replicate indent 9 ++ [99, 9] ++ escape d = mkLine indent C_ [escape d] := by
      simp [mkLine, C_]
    have := mkLine_parsed indent C_ [escape d] (by simp [C_]) (by simp [C_, CellClean])
      (fun c hc' => by simp only [List.mem_singleton] at hc'; subst hc'; exact hc)
    simp only [docLines, docT]
    rw [hline]
    exact Parsed.cons this.1 this.2 Parsed.nil

theorem paramLines_parsed {n : Nat} {p : Param} (h : paramOk n p = true) : Parsed (paramLines p) (paramT p) := by
  simp only [paramOk, Bool.and_eq_true] at h
  have hl : [9, 9, 112, 9] ++ natDigits p.index ++ namesCells p.names = mkLine 2 P_ (natDigits p.index :: cellsOf p.names) := by
    simp [mkLine, P_, namesCells_eq]
  have := mkLine_parsed 2 P_ (natDigits p.index :: cellsOf p.names) (by simp [P_]) (by simp [P_, CellClean])
    (fun c hc => by
      rcases List.mem_cons.mp hc with rfl | hc
      · exact digits_clean _
      · exact namesOk_cells h.2 c hc)
  simp only [paramLines, paramT]
  rw [hl]
  exact Parsed.cons this.1 this.2 (docLines_parsed 3 p.doc)

theorem fieldLines_parsed {n : Nat} {f : Field} (h : fieldOk n f = true) : Parsed (fieldLines f) (fieldT f) := by
  simp only [fieldOk, Bool.and_eq_true] at h
  have hl : [9, 102, 9] ++ f.desc ++ namesCells f.names = mkLine 1 F_ (f.desc :: cellsOf f.names) := by
    simp [mkLine, F_, namesCells_eq]
  have := mkLine_parsed 1 F_ (f.desc :: cellsOf f.names) (by simp [F_]) (by simp [F_, CellClean])
    (fun c hc => by
      rcases List.mem_cons.mp hc with rfl | hc
      · exact cellOk_clean h.1
      · exact namesOk_cells h.2 c hc)
  simp only [fieldLines, fieldT]
  rw [hl]
  exact Parsed.cons this.1 this.2 (docLines_parsed 2 f.doc)

theorem methodLines_parsed {n : Nat} {m : Method} (h : methodOk n m = true) : Parsed (methodLines m) (methodT m) := by
  simp only [methodOk, Bool.and_eq_true, List.all_eq_true] at h
  have hl : [9, 109, 9] ++ m.desc ++ namesCells m.names = mkLine 1 M_ (m.desc :: cellsOf m.names) := by
    simp [mkLine, M_, namesCells_eq]
  have := mkLine_parsed 1 M_ (m.desc :: cellsOf m.names) (by simp [M_]) (by simp [M_, CellClean])
    (fun c hc => by
      rcases List.mem_cons.mp hc with rfl | hc
      · exact cellOk_clean h.1.1
      · exact namesOk_cells h.1.2 c hc)
  simp only [methodLines, methodT]
  rw [hl]
  refine Parsed.cons this.1 this.2 ((docLines_parsed 2 m.doc).append ?_)
  apply Parsed.flatMap
  intro p hp
  have hp' := mem_sortBy.mp hp
  simp only [AList.values, List.mem_map] at hp'
  obtain ⟨⟨k, v⟩, he, rfl⟩ := hp'
  exact paramLines_parsed (h.2 (k, v) he)

theorem classLines_parsed {n : Nat} {c : Class} (h : classOk n c = true) : Parsed (classLines c) (classT c) := by
  simp only [classOk, Bool.and_eq_true, List.all_eq_true] at h
  have hl : [99] ++ namesCells c.names = mkLine 0 C_ (cellsOf c.names) := by
    simp [mkLine, C_, namesCells_eq]
  have := mkLine_parsed 0 C_ (cellsOf c.names) (by simp [C_]) (by simp [C_, CellClean]) (namesOk_cells h.1.1)
  simp only [classLines, classT]
  rw [hl]
  refine Parsed.cons this.1 this.2 ((docLines_parsed 1 c.doc).append (Parsed.append ?_ ?_))
  · apply Parsed.flatMap
    intro p hp
    have hp' := mem_sortBy.mp hp
    simp only [AList.values, List.mem_map] at hp'
    obtain ⟨⟨k, v⟩, he, rfl⟩ := hp'
    exact fieldLines_parsed (h.1.2 (k, v) he)
  · apply Parsed.flatMap
    intro p hp
    have hp' := mem_sortBy.mp hp
    simp only [AList.values, List.mem_map] at hp'
    obtain ⟨⟨k, v⟩, he, rfl⟩ := hp'
    exact methodLines_parsed (h.2 (k, v) he)

end Tiny
