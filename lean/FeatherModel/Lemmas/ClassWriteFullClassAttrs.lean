import FeatherModel.Lemmas.ClassWriteFullMethod
import FeatherModel.Lemmas.ClassWriteFullRecord

/-!
# C02 (whole writer) — the class attribute blocks of `write`
-/

namespace ClassWriteFull
open PoolWrite (Entry)
open FramePool (Good Le)
open ClassRead ClassRead.Spec

def SClassAttr.frame (a : SClassAttr) : Bytes := attrFrame a.raw.1 a.raw.2

/-- a `u2`-counted list of references (`putX` = `put_class` / `put_package` / `put_module`) -/
theorem refList_spec {putX : Pool → JStr → Except Fail (Nat × Pool)} {At : Pool → Nat → JStr → Prop}
    (hput : ∀ p p' c i, Good p → putX p c = .ok (i, p') → Step p p' ∧ At p' i c ∧ i < 65536)
    (hmono : ∀ p p' i c, Le p p' → At p i c → At p' i c)
    {cs : List JStr} {p p' : Pool} {b : Bytes} (hg : Good p)
    (h : writeSlice16 (fun p c => idx16 (putX p c)) p cs = .ok (b, p')) :
    Step p p' ∧ ∃ ls : List (Nat × JStr), b = encRefs ls ∧ ls.map (·.2) = cs ∧ ls.length < 65536 ∧
      ∀ x ∈ ls, x.1 < 65536 ∧ At p' x.1 x.2 := by
  obtain ⟨hl, bb, h1, rfl⟩ := writeSlice16_inv h
  obtain ⟨s, ls, rfl, hlen, hr⟩ := writeList_spec (fun p c => idx16 (putX p c)) (fun x : Nat × JStr => be16 x.1)
    (fun p c x => x.2 = c ∧ x.1 < 65536 ∧ At p x.1 x.2) (fun p p' a l hle hr => ⟨hr.1, hr.2.1, hmono _ _ _ _ hle hr.2.2⟩)
    (fun p p' a b hg h => by
      obtain ⟨i, h1, rfl⟩ := idx16_inv h
      obtain ⟨s, c, hi⟩ := hput p p' a i hg h1
      exact ⟨s, (i, a), rfl, rfl, hi, c⟩) cs p p' bb hg h1
  refine ⟨s, ls, by simp [encRefs, hlen], map_eq_of_zip _ ls cs hlen (fun x hx => (hr x hx).1), by omega, ?_⟩
  intro x hx
  obtain ⟨k, hk, hxk⟩ := List.getElem_of_mem hx
  have hz : (x, cs[k]'(by omega)) ∈ ls.zip cs := by
    rw [← hxk]
    exact List.mem_iff_getElem.mpr ⟨k, by rw [List.length_zip]; omega, by simp⟩
  exact (hr _ hz).2

/-! ## `InnerClasses` -/

/-- what the indices of an `InnerClasses` row denote -/
def InnerAt (p : Pool) (e : InnerClass) (l : SInner) : Prop :=
  l.inner = e.inner ∧ l.outer = e.outer ∧ l.name = e.name ∧ l.flags = e.flags ∧
    l.innerCp < 65536 ∧ l.outerCp < 65536 ∧ l.nameCp < 65536 ∧ ClsAt p l.innerCp e.inner ∧
    ((e.outer = none ∧ l.outerCp = 0) ∨ ∃ o, e.outer = some o ∧ ClsAt p l.outerCp o ∧ 1 ≤ l.outerCp) ∧
    ((e.name = none ∧ l.nameCp = 0) ∨ ∃ n, e.name = some n ∧ Utf8At p l.nameCp n ∧ 1 ≤ l.nameCp)

theorem InnerAt.mono {p q : Pool} (h : Le p q) {e : InnerClass} {l : SInner} (a : InnerAt p e l) : InnerAt q e l := by
  obtain ⟨a1, a2, a3, a4, a5, a6, a7, a8, a9, a10⟩ := a
  refine ⟨a1, a2, a3, a4, a5, a6, a7, a8.mono h, ?_, ?_⟩
  · rcases a9 with a9 | ⟨o, ho, hc, h1⟩
    · exact Or.inl a9
    · exact Or.inr ⟨o, ho, hc.mono h, h1⟩
  · rcases a10 with a10 | ⟨o, ho, hc, h1⟩
    · exact Or.inl a10
    · exact Or.inr ⟨o, ho, hc.mono h, h1⟩

theorem writeInnerClass_spec {p p' : Pool} {e : InnerClass} {b : Bytes} (hg : Good p)
    (h : writeInnerClass p e = .ok (b, p')) : Step p p' ∧ ∃ l : SInner, b = l.encode ∧ InnerAt p' e l := by
  obtain ⟨⟨i, p1⟩, h1, h⟩ := bind_eq_ok.mp h
  obtain ⟨⟨o, p2⟩, h2, h⟩ := bind_eq_ok.mp h
  obtain ⟨⟨n, p3⟩, h3, h⟩ := bind_eq_ok.mp h
  have := pure_eq_ok.mp h
  cases this
  obtain ⟨s1, a1, hi⟩ := putClass_spec hg h1
  obtain ⟨s2, ho, c2⟩ := putOptional_spec ClsAt (fun p p' a i hg h => putClass_spec' hg h) s1.good h2
  obtain ⟨s3, hn, c3⟩ := putOptional_spec Utf8At (fun p p' a i hg h => putUtf8_spec' hg h) s2.good h3
  refine ⟨s1.trans (s2.trans s3), ⟨i, e.inner, o, e.outer, n, e.name, e.flags⟩, rfl, rfl, rfl, rfl, rfl, hi, ho, hn,
    a1.mono (s2.trans s3).le, ?_, c3⟩
  rcases c2 with c2 | ⟨x, hx, hc, h1'⟩
  · exact Or.inl c2
  · exact Or.inr ⟨x, hx, hc.mono s3.le, h1'⟩

/-- names and flags an `InnerClasses` row must have for the reader to accept it and give it back unchanged -/
def InnerOk (e : InnerClass) : Prop :=
  validClassName e.inner = true ∧ (∀ o, e.outer = some o → validClassName o = true) ∧ e.flags < 65536 ∧
    e.flags &&& maskInner = e.flags

theorem inner_legal {q : Pool} (hq : Good q) {e : InnerClass} {l : SInner} (a : InnerAt q e l) (hok : InnerOk e) :
    l.Legal (rpool q) := by
  obtain ⟨a1, a2, a3, a4, a5, a6, a7, a8, a9, a10⟩ := a
  refine ⟨a5, a6, a7, by rw [a4]; exact hok.2.2.1, by rw [a1]; exact getClass_of hq a8 hok.1, ?_, ?_⟩
  · rcases a9 with ⟨h0, hz⟩ | ⟨o, ho, hc, h1⟩
    · rw [hz, a2, h0]; exact getOptional_zero _ _
    · rw [a2, ho]; exact getOptional_pos _ _ h1 (getClass_of hq hc (hok.2.1 o ho))
  · rcases a10 with ⟨h0, hz⟩ | ⟨o, ho, hc, h1⟩
    · rw [hz, a3, h0]; exact getOptional_zero _ _
    · rw [a3, ho]; exact getOptional_pos _ _ h1 (getUtf8_of hq hc)

theorem innerAttr_spec {x : Option (List InnerClass)} {p p' : Pool} {o : Option Bytes} (hg : Good p)
    (h : ifSome x (fun es => attrBuf sInnerClasses (fun p => writeSlice16 writeInnerClass p es)) p = .ok (o, p')) :
    Step p p' ∧ ((x = none ∧ o = none) ∨
      (∃ (es : List InnerClass) (ls : List SInner), x = some es ∧
        Present o p' sInnerClasses (be16 ls.length ++ ls.flatMap SInner.encode) ∧ ls.length = es.length ∧
        ls.length < 65536 ∧ ∀ y ∈ ls.zip es, InnerAt p' y.2 y.1)) := by
  rcases ifSome_inv h with ⟨es, b, rfl, hb, rfl⟩ | ⟨rfl, rfl, rfl⟩
  · obtain ⟨bb, p1, i, h1, h2, _, rfl⟩ := attrBuf_inv hb
    obtain ⟨hl, bb', h3, rfl⟩ := writeSlice16_inv h1
    obtain ⟨s1, ls, rfl, hlen, hr⟩ := writeList_spec writeInnerClass SInner.encode InnerAt
      (fun p p' a l hle hr => hr.mono hle) (fun p p' a b hg h => writeInnerClass_spec hg h) es p p1 bb' hg h3
    obtain ⟨s2, a2, hi⟩ := putUtf8_spec s1.good h2
    exact ⟨s1.trans s2, Or.inr ⟨es, ls, rfl, ⟨i, by rw [hlen], hi, a2⟩, hlen, by omega, fun y hy => (hr y hy).mono s2.le⟩⟩
  · exact ⟨Step.refl hg, Or.inl ⟨rfl, rfl⟩⟩

/-! ## `EnclosingMethod` -/

theorem enclosingAttr_spec {x : Option (JStr × Option (JStr × JStr))} {p p' : Pool} {o : Option Bytes} (hg : Good p)
    (h : ifSome x (fun em => attrFix sEnclosingMethod 4 (fun p => do
      let (c, p) ← putClass p em.1
      let (m, p) ← putOptional (fun p (x : JStr × JStr) => putNameAndType p x.1 x.2) p em.2
      pure (be16 c ++ be16 m, p))) p = .ok (o, p')) :
    Step p p' ∧ ((x = none ∧ o = none) ∨
      (∃ em clsCp mCp, x = some em ∧ Present o p' sEnclosingMethod (be16 clsCp ++ be16 mCp) ∧ clsCp < 65536 ∧ mCp < 65536 ∧
        ClsAt p' clsCp em.1 ∧
        ((em.2 = none ∧ mCp = 0) ∨ ∃ nd, em.2 = some nd ∧ NatAt p' mCp nd.1 nd.2 ∧ 1 ≤ mCp))) := by
  rcases ifSome_inv h with ⟨em, b, rfl, hb, rfl⟩ | ⟨rfl, rfl, rfl⟩
  · obtain ⟨i, p1, bb, h1, h2, rfl⟩ := attrFix_inv hb
    obtain ⟨⟨c, p2⟩, h3, h2⟩ := bind_eq_ok.mp h2
    obtain ⟨⟨m, p3⟩, h4, h2⟩ := bind_eq_ok.mp h2
    have := pure_eq_ok.mp h2
    cases this
    obtain ⟨s1, a1, hi⟩ := putUtf8_spec hg h1
    obtain ⟨s2, a2, hc⟩ := putClass_spec s1.good h3
    obtain ⟨s3, hm, c3⟩ := putOptional_spec (fun p i (x : JStr × JStr) => NatAt p i x.1 x.2)
      (fun p p' a i hg h => by
        obtain ⟨s, a', hi'⟩ := putNameAndType_spec hg h
        obtain ⟨u, v, hu, _⟩ := a'
        exact ⟨s, ⟨u, v, hu, by assumption⟩, one_le_of_get s.good hu, hi'⟩) s2.good h4
    refine ⟨s1.trans (s2.trans s3), Or.inr ⟨em, c, m, rfl, ⟨i, by simp [attrFrame, be16], hi, a1.mono (s2.trans s3).le⟩,
      hc, hm, a2.mono s3.le, c3⟩⟩
  · exact ⟨Step.refl hg, Or.inl ⟨rfl, rfl⟩⟩

theorem getMethodNameAndType_of {q : Pool} (hq : Good q) {i : Nat} {n d : JStr} (h : NatAt q i n d)
    (hv : validMethodName n = true) : (rpool q).getMethodNameAndType i = .ok (n, d) := by
  simp [Pool.getMethodNameAndType, getNameAndType_of hq h, checked, hv, bind, Outcome.bind]

/-! ## `SourceDebugExtension` -/

theorem sdeAttr_spec {x : Option JStr} {p p' : Pool} {o : Option Bytes} (hg : Good p)
    (h : ifSome x (fun s => fun p => do
      let (i, p) ← putUtf8 p sSourceDebugExtension
      let l ← cnt32 (Mutf8.encode s).length
      pure (be16 i ++ l ++ Mutf8.encode s, p)) p = .ok (o, p')) :
    Step p p' ∧ ((x = none ∧ o = none) ∨
      (∃ s, x = some s ∧ Present o p' sSourceDebugExtension (Mutf8.encode s) ∧ (Mutf8.encode s).length < 4294967296)) := by
  rcases ifSome_inv h with ⟨s, b, rfl, hb, rfl⟩ | ⟨rfl, rfl, rfl⟩
  · obtain ⟨⟨i, p1⟩, h1, h2⟩ := bind_eq_ok.mp hb
    obtain ⟨l, h3, h4⟩ := bind_eq_ok.mp h2
    obtain ⟨hl, rfl⟩ := cnt32_eq_ok.mp h3
    have := pure_eq_ok.mp h4
    cases this
    obtain ⟨s1, a1, hi⟩ := putUtf8_spec hg h1
    exact ⟨s1, Or.inr ⟨s, rfl, ⟨i, rfl, hi, a1⟩, by omega⟩⟩
  · exact ⟨Step.refl hg, Or.inl ⟨rfl, rfl⟩⟩

/-! ## `ModulePackages` -/

theorem packagesAttr_spec {x : Option (List JStr)} {p p' : Pool} {o : Option Bytes} (hg : Good p)
    (h : ifSome x (fun ps => attrBuf sModulePackages (fun p => writeSlice16 (fun p x => idx16 (putPackage p x)) p ps)) p
      = .ok (o, p')) :
    Step p p' ∧ ((x = none ∧ o = none) ∨
      (∃ (ps : List JStr) (ls : List (Nat × JStr)), x = some ps ∧ Present o p' sModulePackages (encRefs ls) ∧
        ls.map (·.2) = ps ∧ ls.length < 65536 ∧ ∀ y ∈ ls, y.1 < 65536 ∧ PkgAt p' y.1 y.2)) := by
  rcases ifSome_inv h with ⟨ps, b, rfl, hb, rfl⟩ | ⟨rfl, rfl, rfl⟩
  · obtain ⟨bb, p1, i, h1, h2, _, rfl⟩ := attrBuf_inv hb
    obtain ⟨s1, ls, rfl, hm, hlt, hr⟩ := refList_spec (At := PkgAt) (fun p p' c i hg h => putPackage_spec hg h)
      (fun p p' i c hle a => a.mono hle) hg h1
    obtain ⟨s2, a2, hi⟩ := putUtf8_spec s1.good h2
    exact ⟨s1.trans s2, Or.inr ⟨ps, ls, rfl, ⟨i, rfl, hi, a2⟩, hm, hlt, fun y hy => ⟨(hr y hy).1, (hr y hy).2.mono s2.le⟩⟩⟩
  · exact ⟨Step.refl hg, Or.inl ⟨rfl, rfl⟩⟩

theorem applyAll_class_unknown (st : ClassAcc) : ∀ (ncs : List Nat) (as : List Attr), ncs.length = as.length →
    applyAll SClassAttr.apply st ((ncs.zip as).map fun x => SClassAttr.unknown x.1 x.2.name x.2.bytes)
      = some ({ st.1 with attrs := st.1.attrs ++ as }, st.2) := by
  intro ncs as
  induction as generalizing ncs st with
  | nil => intro _; cases ncs <;> simp [applyAll]
  | cons a as ih =>
    intro hl
    cases ncs with
    | nil => simp at hl
    | cons n ncs =>
      simp only [List.zip_cons_cons, List.map_cons, applyAll, SClassAttr.apply]
      rw [ih _ ncs (by simpa using hl)]
      simp

end ClassWriteFull
