import FeatherModel.Spec.ClassParse

/-!
# The independent parser reads back what the framing model writes (every count and length field is exact)
-/

namespace ClassParse
open ClassWrite PoolWrite CodeWrite

theorem u16_u16b (n : Nat) (h : n ≤ 65535) (r : Bytes) : u16 (u16b n ++ r) = some (n, r) := by
  simp only [u16b, List.cons_append, List.nil_append, u16]
  congr 2; omega

theorem u16_be16 (n : Nat) (h : n ≤ 65535) (r : Bytes) : u16 (be16 n ++ r) = some (n, r) := u16_u16b n h r

theorem u32_u32b (n : Nat) (h : n ≤ 4294967295) (r : Bytes) : u32 (u32b n ++ r) = some (n, r) := by
  simp only [u32b, List.cons_append, List.nil_append, u32]
  congr 2; omega

theorem u32_be32 (n : Nat) (h : n ≤ 4294967295) (r : Bytes) : u32 (be32 n ++ r) = some (n, r) := u32_u32b n h r

theorem u64_be64 (n : Nat) (h : n < 18446744073709551616) (r : Bytes) : u64 (be64 n ++ r) = some (n, r) := by
  have h1 : n / 4294967296 % 4294967296 ≤ 4294967295 := by omega
  have h2 : n % 4294967296 ≤ 4294967295 := by omega
  have e : n / 4294967296 % 4294967296 * 4294967296 + n % 4294967296 = n := by omega
  simp only [u64, be64, List.append_assoc, u32_be32 _ h1, u32_be32 _ h2, e]

theorem takeN_append (b r : Bytes) : takeN b.length (b ++ r) = some (b, r) := by
  simp [takeN]

theorem attrs_attrsBytes (as : List Attr) (hr : ∀ a ∈ as, a.1 ≤ 65535 ∧ a.2.length ≤ 4294967295) (r : Bytes) :
    attrs as.length (attrsBytes as ++ r) = some (as, r) := by
  induction as with
  | nil => rfl
  | cons a as ih =>
    obtain ⟨h1, h2⟩ := hr a List.mem_cons_self
    simp only [attrsBytes, List.flatMap_cons, attrBytes, List.length_cons, attrs, List.append_assoc]
    rw [u16_u16b _ h1]
    simp only
    rw [u32_u32b _ h2]
    simp only
    rw [takeN_append]
    simp only
    have := ih (fun a' ha' => hr a' (List.mem_cons_of_mem _ ha'))
    simp only [attrsBytes] at this
    rw [this]

theorem row_u16bs (xs : List Nat) (hr : ∀ x ∈ xs, x ≤ 65535) (r : Bytes) :
    row xs.length (xs.flatMap u16b ++ r) = some (xs, r) := by
  induction xs with
  | nil => rfl
  | cons x xs ih =>
    simp only [List.flatMap_cons, List.length_cons, row, List.append_assoc]
    rw [u16_u16b _ (hr x List.mem_cons_self)]
    simp only
    rw [ih (fun y hy => hr y (List.mem_cons_of_mem _ hy))]

theorem rows_rowsBytes (w : Nat) (rs : List (List Nat)) (hr : ∀ row ∈ rs, row.length = w ∧ ∀ x ∈ row, x ≤ 65535)
    (r : Bytes) : rows w rs.length (rowsBytes rs ++ r) = some (rs, r) := by
  induction rs with
  | nil => rfl
  | cons x xs ih =>
    obtain ⟨h1, h2⟩ := hr x List.mem_cons_self
    simp only [rowsBytes, List.flatMap_cons, List.length_cons, rows, List.append_assoc]
    rw [← h1, row_u16bs x h2]
    simp only
    have := ih (fun y hy => hr y (List.mem_cons_of_mem _ hy))
    simp only [rowsBytes] at this
    rw [h1, this]

/-- a table attribute reads back: `attribute_length` covers exactly the count and the rows -/
theorem table_tableBody (w : Nat) (rs : List (List Nat)) (hn : rs.length ≤ 65535)
    (hr : ∀ row ∈ rs, row.length = w ∧ ∀ x ∈ row, x ≤ 65535) : table w (tableBody rs) = some rs := by
  have := rows_rowsBytes w rs hr []
  simp only [List.append_nil] at this
  simp only [table, tableBody, u16_u16b _ hn, this]

/-- the operands of a `Code` attribute fit their fields -/
def codeFits (c : CodeAttr) : Prop :=
  c.maxStack ≤ 65535 ∧ c.maxLocals ≤ 65535 ∧ c.code.length ≤ 4294967295 ∧ c.excRows.length ≤ 65535 ∧
  (∀ row ∈ c.excRows, row.length = 4 ∧ ∀ x ∈ row, x ≤ 65535) ∧ c.attrs.length ≤ 65535 ∧
  (∀ a ∈ c.attrs, a.1 ≤ 65535 ∧ a.2.length ≤ 4294967295)

/-- the `Code` attribute reads back exactly: `code_length`, `exception_table_length`, `attributes_count` and every
nested `attribute_length` are the true lengths -/
theorem code_codeBody (c : CodeAttr) (h : codeFits c) : code (codeBody c) = some c := by
  obtain ⟨h1, h2, h3, h4, h5, h6, h7⟩ := h
  unfold code codeBody
  simp only [List.append_assoc]
  rw [u16_u16b _ h1]; simp only
  rw [u16_u16b _ h2]; simp only
  rw [u32_u32b _ h3]; simp only
  rw [takeN_append]; simp only
  rw [u16_u16b _ h4]; simp only
  rw [rows_rowsBytes 4 _ h5]; simp only
  rw [u16_u16b _ h6]; simp only
  have := attrs_attrsBytes c.attrs h7 []
  simp only [List.append_nil] at this
  rw [this]

end ClassParse
