import FeatherModel.Spec.ClassParse
import FeatherModel.Lemmas.PoolWrite

/-!
# The independent parser reads back what the framing model writes (every count and length field is exact)

Proof style: each parser gets a *step lemma* over variables (so that neither `simp` nor the kernel ever unfolds a
parser applied to a concrete byte expression — the big numerals in `u32` would be expanded in unary).
-/

namespace ClassParse
open ClassWrite PoolWrite CodeWrite

theorem u16_u16b (n : Nat) (h : n ≤ 65535) (r : Bytes) : u16 (u16b n ++ r) = some (n, r) := by
  simp only [u16b, List.cons_append, List.nil_append, u16]
  congr 2; omega

theorem u16_be16 (n : Nat) (h : n ≤ 65535) (r : Bytes) : u16 (be16 n ++ r) = some (n, r) := u16_u16b n h r

theorem u32_u32b (n : Nat) (h : n ≤ 4294967295) (r : Bytes) : u32 (u32b n ++ r) = some (n, r) := by
  simp only [u32b, List.cons_append, List.nil_append, u32]
  congr 2; omega

theorem u32_be32 (n : Nat) (h : n ≤ 4294967295) (r : Bytes) : u32 (be32 n ++ r) = some (n, r) := u32_u32b n h r

theorem takeN_append (b r : Bytes) : takeN b.length (b ++ r) = some (b, r) := by
  simp [takeN]

/-! ## step lemmas -/

theorem attrs_step {n name len : Nat} {info rest : _} {bs b1 b2 b3 b4 : Bytes}
    (h1 : u16 bs = some (name, b1)) (h2 : u32 b1 = some (len, b2)) (h3 : takeN len b2 = some (info, b3))
    (h4 : attrs n b3 = some (rest, b4)) : attrs (n + 1) bs = some ((name, info) :: rest, b4) := by
  simp only [attrs, h1, h2, h3, h4]

theorem row_step {w x : Nat} {xs : List Nat} {bs b1 b2 : Bytes}
    (h1 : u16 bs = some (x, b1)) (h2 : row w b1 = some (xs, b2)) : row (w + 1) bs = some (x :: xs, b2) := by
  simp only [row, h1, h2]

theorem rows_step {w n : Nat} {r : List Nat} {rs : List (List Nat)} {bs b1 b2 : Bytes}
    (h1 : row w bs = some (r, b1)) (h2 : rows w n b1 = some (rs, b2)) : rows w (n + 1) bs = some (r :: rs, b2) := by
  simp only [rows, h1, h2]

theorem table_step {w n : Nat} {rs : List (List Nat)} {body b1 : Bytes}
    (h1 : u16 body = some (n, b1)) (h2 : rows w n b1 = some (rs, [])) : table w body = some rs := by
  simp only [table, h1, h2]

theorem code_step {ms ml len ne na : Nat} {c : Bytes} {exc : List (List Nat)} {as : List Attr}
    {body b1 b2 b3 b4 b5 b6 b7 : Bytes}
    (h1 : u16 body = some (ms, b1)) (h2 : u16 b1 = some (ml, b2)) (h3 : u32 b2 = some (len, b3))
    (h4 : takeN len b3 = some (c, b4)) (h5 : u16 b4 = some (ne, b5)) (h6 : rows 4 ne b5 = some (exc, b6))
    (h7 : u16 b6 = some (na, b7)) (h8 : attrs na b7 = some (as, [])) :
    code body = some ⟨ms, ml, c, exc, as⟩ := by
  simp only [code, h1, h2, h3, h4, h5, h6, h7, h8]

/-! ## attributes, tables, the Code attribute -/

theorem attrs_attrsBytes (as : List Attr) (hr : ∀ a ∈ as, a.1 ≤ 65535 ∧ a.2.length ≤ 4294967295) (r : Bytes) :
    attrs as.length (attrsBytes as ++ r) = some (as, r) := by
  induction as with
  | nil => rfl
  | cons a as ih =>
    obtain ⟨h1, h2⟩ := hr a List.mem_cons_self
    have ih' := ih (fun a' ha' => hr a' (List.mem_cons_of_mem _ ha'))
    have e : attrsBytes (a :: as) ++ r = u16b a.1 ++ (u32b a.2.length ++ (a.2 ++ (attrsBytes as ++ r))) := by
      simp [attrsBytes, attrBytes]
    rw [e]
    exact attrs_step (u16_u16b _ h1 _) (u32_u32b _ h2 _) (takeN_append _ _) ih'

theorem row_u16bs (xs : List Nat) (hr : ∀ x ∈ xs, x ≤ 65535) (r : Bytes) :
    row xs.length (xs.flatMap u16b ++ r) = some (xs, r) := by
  induction xs with
  | nil => rfl
  | cons x xs ih =>
    have e : (x :: xs).flatMap u16b ++ r = u16b x ++ (xs.flatMap u16b ++ r) := by simp
    rw [e]
    exact row_step (u16_u16b _ (hr x List.mem_cons_self) _) (ih (fun y hy => hr y (List.mem_cons_of_mem _ hy)))

theorem rows_rowsBytes (w : Nat) (rs : List (List Nat)) (hr : ∀ row ∈ rs, row.length = w ∧ ∀ x ∈ row, x ≤ 65535)
    (r : Bytes) : rows w rs.length (rowsBytes rs ++ r) = some (rs, r) := by
  induction rs with
  | nil => rfl
  | cons x xs ih =>
    obtain ⟨h1, h2⟩ := hr x List.mem_cons_self
    have e : rowsBytes (x :: xs) ++ r = x.flatMap u16b ++ (rowsBytes xs ++ r) := by simp [rowsBytes]
    rw [e]
    have hrow := row_u16bs x h2 (rowsBytes xs ++ r)
    rw [h1] at hrow
    exact rows_step hrow (ih (fun y hy => hr y (List.mem_cons_of_mem _ hy)))

/-- a table attribute reads back: `attribute_length` covers exactly the count and the rows -/
theorem table_tableBody (w : Nat) (rs : List (List Nat)) (hn : rs.length ≤ 65535)
    (hr : ∀ row ∈ rs, row.length = w ∧ ∀ x ∈ row, x ≤ 65535) : table w (tableBody rs) = some rs := by
  have h2 := rows_rowsBytes w rs hr []
  rw [List.append_nil] at h2
  exact table_step (u16_u16b _ hn _) h2

/-- the operands of a `Code` attribute fit their fields -/
def codeFits (c : CodeAttr) : Prop :=
  c.maxStack ≤ 65535 ∧ c.maxLocals ≤ 65535 ∧ c.code.length ≤ 4294967295 ∧ c.excRows.length ≤ 65535 ∧
  (∀ row ∈ c.excRows, row.length = 4 ∧ ∀ x ∈ row, x ≤ 65535) ∧ c.attrs.length ≤ 65535 ∧
  (∀ a ∈ c.attrs, a.1 ≤ 65535 ∧ a.2.length ≤ 4294967295)

/-- the `Code` attribute reads back exactly: `code_length`, `exception_table_length`, `attributes_count` and every
nested `attribute_length` are the true lengths -/
theorem code_codeBody (c : CodeAttr) (h : codeFits c) : code (codeBody c) = some c := by
  obtain ⟨h1, h2, h3, h4, h5, h6, h7⟩ := h
  have ha := attrs_attrsBytes c.attrs h7 []
  rw [List.append_nil] at ha
  have e : codeBody c = u16b c.maxStack ++ (u16b c.maxLocals ++ (u32b c.code.length ++ (c.code ++
      (u16b c.excRows.length ++ (rowsBytes c.excRows ++ (u16b c.attrs.length ++ attrsBytes c.attrs)))))) := by
    simp [codeBody]
  rw [e]
  exact code_step (u16_u16b _ h1 _) (u16_u16b _ h2 _) (u32_u32b _ h3 _) (takeN_append _ _) (u16_u16b _ h4 _)
    (rows_rowsBytes 4 _ h5 _) (u16_u16b _ h6 _) ha

/-! ## members -/

theorem members_step {n access name desc na : Nat} {as : List Attr} {ms : List Member} {bs b1 b2 b3 : Bytes}
    (h1 : row 4 bs = some ([access, name, desc, na], b1)) (h2 : attrs na b1 = some (as, b2))
    (h3 : members n b2 = some (ms, b3)) : members (n + 1) bs = some (⟨access, name, desc, as⟩ :: ms, b3) := by
  simp only [members, h1, h2, h3]

def memberFits (m : Member) : Prop :=
  m.access ≤ 65535 ∧ m.nameIdx ≤ 65535 ∧ m.descIdx ≤ 65535 ∧ m.attrs.length ≤ 65535 ∧
  ∀ a ∈ m.attrs, a.1 ≤ 65535 ∧ a.2.length ≤ 4294967295

theorem members_bytes (ms : List Member) (hr : ∀ m ∈ ms, memberFits m) (r : Bytes) :
    members ms.length (ms.flatMap memberBytes ++ r) = some (ms, r) := by
  induction ms with
  | nil => rfl
  | cons m ms ih =>
    obtain ⟨h1, h2, h3, h4, h5⟩ := hr m List.mem_cons_self
    have e : (m :: ms).flatMap memberBytes ++ r =
        [m.access, m.nameIdx, m.descIdx, m.attrs.length].flatMap u16b ++ (attrsBytes m.attrs ++ (ms.flatMap memberBytes ++ r)) := by
      simp [memberBytes]
    rw [e]
    have hrow := row_u16bs [m.access, m.nameIdx, m.descIdx, m.attrs.length]
      (by intro x hx; simp at hx; rcases hx with rfl | rfl | rfl | rfl <;> assumption)
      (attrsBytes m.attrs ++ (ms.flatMap memberBytes ++ r))
    exact members_step hrow (attrs_attrsBytes _ h5 _) (ih (fun m' hm' => hr m' (List.mem_cons_of_mem _ hm')))

/-! ## constant pool entries -/

theorem u64_step {hi lo : Nat} {bs r r' : Bytes} (h1 : u32 bs = some (hi, r)) (h2 : u32 r = some (lo, r')) :
    u64 bs = some (hi * 4294967296 + lo, r') := by
  simp only [u64, h1, h2]

theorem row2_step {a b : Nat} (h1 : a ≤ 65535) (h2 : b ≤ 65535) (r : Bytes) :
    row 2 (be16 a ++ (be16 b ++ r)) = some ([a, b], r) :=
  row_step (u16_be16 a h1 _) (row_step (u16_be16 b h2 _) rfl)

theorem pe_utf8 {n : Nat} {s r r1 r2 : Bytes} (h1 : u16 r = some (n, r1)) (h2 : takeN n r1 = some (s, r2)) :
    poolEntry (1 :: r) = some (.utf8 s, r2) := by simp [poolEntry, h1, h2]
theorem pe_int {n : Nat} {r r1 : Bytes} (h : u32 r = some (n, r1)) : poolEntry (3 :: r) = some (.int (s32 n), r1) := by
  simp [poolEntry, h]
theorem pe_float {n : Nat} {r r1 : Bytes} (h : u32 r = some (n, r1)) : poolEntry (4 :: r) = some (.float n, r1) := by
  simp [poolEntry, h]
theorem pe_long {n : Nat} {r r1 : Bytes} (h : u64 r = some (n, r1)) : poolEntry (5 :: r) = some (.long (s64 n), r1) := by
  simp [poolEntry, h]
theorem pe_double {n : Nat} {r r1 : Bytes} (h : u64 r = some (n, r1)) : poolEntry (6 :: r) = some (.double n, r1) := by
  simp [poolEntry, h]
theorem pe_cls {n : Nat} {r r1 : Bytes} (h : u16 r = some (n, r1)) : poolEntry (7 :: r) = some (.cls n, r1) := by
  simp [poolEntry, h]
theorem pe_str {n : Nat} {r r1 : Bytes} (h : u16 r = some (n, r1)) : poolEntry (8 :: r) = some (.str n, r1) := by
  simp [poolEntry, h]
theorem pe_field {a b : Nat} {r r1 : Bytes} (h : row 2 r = some ([a, b], r1)) :
    poolEntry (9 :: r) = some (.fieldRef a b, r1) := by simp [poolEntry, h]
theorem pe_method {a b : Nat} {r r1 : Bytes} (h : row 2 r = some ([a, b], r1)) :
    poolEntry (10 :: r) = some (.methodRef a b, r1) := by simp [poolEntry, h]
theorem pe_iface {a b : Nat} {r r1 : Bytes} (h : row 2 r = some ([a, b], r1)) :
    poolEntry (11 :: r) = some (.ifaceMethodRef a b, r1) := by simp [poolEntry, h]
theorem pe_nat {a b : Nat} {r r1 : Bytes} (h : row 2 r = some ([a, b], r1)) :
    poolEntry (12 :: r) = some (.nameAndType a b, r1) := by simp [poolEntry, h]
theorem pe_handle {k i : Nat} {r r1 : Bytes} (h : u16 r = some (i, r1)) :
    poolEntry (15 :: k :: r) = some (.methodHandle k i, r1) := by simp [poolEntry, u8, h]
theorem pe_mtype {n : Nat} {r r1 : Bytes} (h : u16 r = some (n, r1)) : poolEntry (16 :: r) = some (.methodType n, r1) := by
  simp [poolEntry, h]
theorem pe_dyn {a b : Nat} {r r1 : Bytes} (h : row 2 r = some ([a, b], r1)) :
    poolEntry (17 :: r) = some (.dynamic a b, r1) := by simp [poolEntry, h]
theorem pe_indy {a b : Nat} {r r1 : Bytes} (h : row 2 r = some ([a, b], r1)) :
    poolEntry (18 :: r) = some (.invokeDynamic a b, r1) := by simp [poolEntry, h]
theorem pe_module {n : Nat} {r r1 : Bytes} (h : u16 r = some (n, r1)) : poolEntry (19 :: r) = some (.module n, r1) := by
  simp [poolEntry, h]
theorem pe_package {n : Nat} {r r1 : Bytes} (h : u16 r = some (n, r1)) : poolEntry (20 :: r) = some (.package n, r1) := by
  simp [poolEntry, h]

/-- the fields of a pool entry fit their widths (`u2` references, `i32`/`i64` integers, raw float bits, `u1` kind) -/
def entryFits : Entry → Prop
  | .utf8 s => s.length ≤ 65535
  | .int v => -2147483648 ≤ v ∧ v ≤ 2147483647
  | .float b => b ≤ 4294967295
  | .long v => -9223372036854775808 ≤ v ∧ v ≤ 9223372036854775807
  | .double b => b ≤ 18446744073709551615
  | .cls n => n ≤ 65535
  | .str n => n ≤ 65535
  | .fieldRef a b => a ≤ 65535 ∧ b ≤ 65535
  | .methodRef a b => a ≤ 65535 ∧ b ≤ 65535
  | .ifaceMethodRef a b => a ≤ 65535 ∧ b ≤ 65535
  | .nameAndType a b => a ≤ 65535 ∧ b ≤ 65535
  | .methodHandle k i => k ≤ 255 ∧ i ≤ 65535
  | .methodType n => n ≤ 65535
  | .dynamic a b => a ≤ 65535 ∧ b ≤ 65535
  | .invokeDynamic a b => a ≤ 65535 ∧ b ≤ 65535
  | .module n => n ≤ 65535
  | .package n => n ≤ 65535

theorem u64_be64 (n : Nat) (h : n ≤ 18446744073709551615) (r : Bytes) : u64 (be64 n ++ r) = some (n, r) := by
  have h1 : n / 4294967296 % 4294967296 ≤ 4294967295 := by omega
  have h2 : n % 4294967296 ≤ 4294967295 := by omega
  have e : be64 n ++ r = be32 (n / 4294967296 % 4294967296) ++ (be32 (n % 4294967296) ++ r) := by simp [be64]
  rw [e]
  have := u64_step (u32_be32 _ h1 (be32 (n % 4294967296) ++ r)) (u32_be32 _ h2 r)
  rw [this]
  congr 2
  omega

theorem poolEntry_entryBytes (e : Entry) (h : entryFits e) (r : Bytes) :
    poolEntry (entryBytes e ++ r) = some (e, r) := by
  cases e with
  | utf8 s =>
    have e1 : entryBytes (.utf8 s) ++ r = 1 :: (be16 s.length ++ (s ++ r)) := by simp [entryBytes]
    rw [e1]; exact pe_utf8 (u16_be16 _ h _) (takeN_append _ _)
  | int v =>
    obtain ⟨h1, h2⟩ := h
    have e1 : entryBytes (.int v) ++ r = 3 :: (be32 (i32bits v) ++ r) := by simp [entryBytes]
    rw [e1, pe_int (u32_be32 _ (by unfold i32bits; omega) _)]
    congr 3
    unfold s32 i32bits; split <;> omega
  | float b =>
    have e1 : entryBytes (.float b) ++ r = 4 :: (be32 b ++ r) := by simp [entryBytes]
    rw [e1]; exact pe_float (u32_be32 _ h _)
  | long v =>
    obtain ⟨h1, h2⟩ := h
    have e1 : entryBytes (.long v) ++ r = 5 :: (be64 (i64bits v) ++ r) := by simp [entryBytes]
    rw [e1, pe_long (u64_be64 _ (by unfold i64bits; omega) _)]
    congr 3
    unfold s64 i64bits; split <;> omega
  | double b =>
    have e1 : entryBytes (.double b) ++ r = 6 :: (be64 b ++ r) := by simp [entryBytes]
    rw [e1]; exact pe_double (u64_be64 _ h _)
  | cls n =>
    have e1 : entryBytes (.cls n) ++ r = 7 :: (be16 n ++ r) := by simp [entryBytes]
    rw [e1]; exact pe_cls (u16_be16 _ h _)
  | str n =>
    have e1 : entryBytes (.str n) ++ r = 8 :: (be16 n ++ r) := by simp [entryBytes]
    rw [e1]; exact pe_str (u16_be16 _ h _)
  | fieldRef a b =>
    have e1 : entryBytes (.fieldRef a b) ++ r = 9 :: (be16 a ++ (be16 b ++ r)) := by simp [entryBytes]
    rw [e1]; exact pe_field (row2_step h.1 h.2 _)
  | methodRef a b =>
    have e1 : entryBytes (.methodRef a b) ++ r = 10 :: (be16 a ++ (be16 b ++ r)) := by simp [entryBytes]
    rw [e1]; exact pe_method (row2_step h.1 h.2 _)
  | ifaceMethodRef a b =>
    have e1 : entryBytes (.ifaceMethodRef a b) ++ r = 11 :: (be16 a ++ (be16 b ++ r)) := by simp [entryBytes]
    rw [e1]; exact pe_iface (row2_step h.1 h.2 _)
  | nameAndType a b =>
    have e1 : entryBytes (.nameAndType a b) ++ r = 12 :: (be16 a ++ (be16 b ++ r)) := by simp [entryBytes]
    rw [e1]; exact pe_nat (row2_step h.1 h.2 _)
  | methodHandle k i =>
    have hk : k % 256 = k := by have := h.1; omega
    have e1 : entryBytes (.methodHandle k i) ++ r = 15 :: k :: (be16 i ++ r) := by simp [entryBytes, hk]
    rw [e1]; exact pe_handle (u16_be16 _ h.2 _)
  | methodType n =>
    have e1 : entryBytes (.methodType n) ++ r = 16 :: (be16 n ++ r) := by simp [entryBytes]
    rw [e1]; exact pe_mtype (u16_be16 _ h _)
  | dynamic a b =>
    have e1 : entryBytes (.dynamic a b) ++ r = 17 :: (be16 a ++ (be16 b ++ r)) := by simp [entryBytes]
    rw [e1]; exact pe_dyn (row2_step h.1 h.2 _)
  | invokeDynamic a b =>
    have e1 : entryBytes (.invokeDynamic a b) ++ r = 18 :: (be16 a ++ (be16 b ++ r)) := by simp [entryBytes]
    rw [e1]; exact pe_indy (row2_step h.1 h.2 _)
  | module n =>
    have e1 : entryBytes (.module n) ++ r = 19 :: (be16 n ++ r) := by simp [entryBytes]
    rw [e1]; exact pe_module (u16_be16 _ h _)
  | package n =>
    have e1 : entryBytes (.package n) ++ r = 20 :: (be16 n ++ r) := by simp [entryBytes]
    rw [e1]; exact pe_package (u16_be16 _ h _)

/-! ## the constant pool and the class file -/

theorem pool_done (fuel idx : Nat) (bs : Bytes) : pool fuel idx idx bs = some ([], bs) := by
  cases fuel <;> simp [pool]

theorem pool_step {fuel idx count : Nat} {e : Entry} {es : List Entry} {bs b1 b2 : Bytes} (hlt : idx < count)
    (h1 : poolEntry bs = some (e, b1)) (h2 : pool fuel (idx + slots e) count b1 = some (es, b2)) :
    pool (fuel + 1) idx count bs = some (e :: es, b2) := by
  have a : ¬ idx = count := by omega
  have b : ¬ idx > count := by omega
  simp only [pool, a, b, if_false, h1, h2]

/-- `constant_pool_count` and the two-slot rule are what the parser needs to find the end of the pool -/
theorem pool_entries (es : List Entry) (hf : ∀ e ∈ es, entryFits e) (r : Bytes) :
    ∀ (fuel idx : Nat), es.length ≤ fuel →
      pool fuel idx (idx + (es.map slots).sum) (es.flatMap entryBytes ++ r) = some (es, r) := by
  induction es with
  | nil => intro fuel idx _; simp only [List.map_nil, List.sum_nil, Nat.add_zero]; exact pool_done fuel idx _
  | cons e es ih =>
    intro fuel idx hfuel
    cases fuel with
    | zero => simp at hfuel
    | succ fuel =>
      have e1 : (e :: es).flatMap entryBytes ++ r = entryBytes e ++ (es.flatMap entryBytes ++ r) := by simp
      have hs := PoolWrite.slots_pos e
      have e2 : idx + ((e :: es).map slots).sum = (idx + slots e) + (es.map slots).sum := by
        simp only [List.map_cons, List.sum_cons]; omega
      rw [e1, e2]
      exact pool_step (by omega) (poolEntry_entryBytes e (hf e List.mem_cons_self) _)
        (ih (fun e' he' => hf e' (List.mem_cons_of_mem _ he')) fuel (idx + slots e) (by simp at hfuel; omega))

theorem classFile_step {minor major count access this super ni nf nm na : Nat} {entries : List Entry}
    {ifs : List Nat} {fields methods : List Member} {as : List Attr} {bs b1 b2 b3 b4 b5 b6 b7 b8 b9 : Bytes}
    (h1 : row 3 bs = some ([minor, major, count], b1)) (h2 : pool count 1 count b1 = some (entries, b2))
    (h3 : row 4 b2 = some ([access, this, super, ni], b3)) (h4 : row ni b3 = some (ifs, b4))
    (h5 : u16 b4 = some (nf, b5)) (h6 : members nf b5 = some (fields, b6))
    (h7 : u16 b6 = some (nm, b7)) (h8 : members nm b7 = some (methods, b8))
    (h9 : u16 b8 = some (na, b9)) (h10 : attrs na b9 = some (as, [])) :
    classFile (0xca :: 0xfe :: 0xba :: 0xbe :: bs) =
      some ⟨minor, major, count, entries, access, this, super, ifs, fields, methods, as⟩ := by
  simp only [classFile, h1, h2, h3, h4, h5, h6, h7, h8, h9, h10]

/-- every count and index of the class image fits its field; `constant_pool_count` is one more than the slots used -/
def classFits (c : ClassImg) : Prop :=
  c.minor ≤ 65535 ∧ c.major ≤ 65535 ∧ c.poolCount ≤ 65535 ∧ c.poolCount = 1 + (c.poolEntries.map slots).sum ∧
  (∀ e ∈ c.poolEntries, entryFits e) ∧
  c.access ≤ 65535 ∧ c.thisIdx ≤ 65535 ∧ c.superIdx ≤ 65535 ∧ c.interfaces.length ≤ 65535 ∧
  (∀ x ∈ c.interfaces, x ≤ 65535) ∧
  c.fields.length ≤ 65535 ∧ (∀ m ∈ c.fields, memberFits m) ∧
  c.methods.length ≤ 65535 ∧ (∀ m ∈ c.methods, memberFits m) ∧
  c.attrs.length ≤ 65535 ∧ (∀ a ∈ c.attrs, a.1 ≤ 65535 ∧ a.2.length ≤ 4294967295)

theorem entries_le_count {es : List Entry} : es.length ≤ (es.map slots).sum := by
  induction es with
  | nil => simp
  | cons e es ih => have := PoolWrite.slots_pos e; simp only [List.length_cons, List.map_cons, List.sum_cons]; omega

/-- **the whole file reads back**: an independent parser that trusts `constant_pool_count`, every count and every
`attribute_length` consumes the file exactly and returns the image that was written -/
theorem classFile_classBytes (c : ClassImg) (h : classFits c) : classFile (classBytes c) = some c := by
  obtain ⟨h1, h2, h3, h4, h5, h6, h7, h8, h9, h10, h11, h12, h13, h14, h15, h16⟩ := h
  have e : classBytes c = 0xca :: 0xfe :: 0xba :: 0xbe ::
      ([c.minor, c.major, c.poolCount].flatMap u16b ++ (c.poolEntries.flatMap entryBytes ++
      ([c.access, c.thisIdx, c.superIdx, c.interfaces.length].flatMap u16b ++ (c.interfaces.flatMap u16b ++
      (u16b c.fields.length ++ (c.fields.flatMap memberBytes ++ (u16b c.methods.length ++
      (c.methods.flatMap memberBytes ++ (u16b c.attrs.length ++ attrsBytes c.attrs))))))))) := by
    simp [classBytes, membersBytes]
  rw [e]
  have ha := attrs_attrsBytes c.attrs h16 []
  rw [List.append_nil] at ha
  have hp := pool_entries c.poolEntries h5 ([c.access, c.thisIdx, c.superIdx, c.interfaces.length].flatMap u16b ++
      (c.interfaces.flatMap u16b ++ (u16b c.fields.length ++ (c.fields.flatMap memberBytes ++
      (u16b c.methods.length ++ (c.methods.flatMap memberBytes ++ (u16b c.attrs.length ++ attrsBytes c.attrs)))))))
    c.poolCount 1 (by have := @entries_le_count c.poolEntries; omega)
  rw [← h4] at hp
  have := classFile_step
    (row_u16bs [c.minor, c.major, c.poolCount]
      (by intro x hx; simp at hx; rcases hx with rfl | rfl | rfl <;> assumption) _)
    hp
    (row_u16bs [c.access, c.thisIdx, c.superIdx, c.interfaces.length]
      (by intro x hx; simp at hx; rcases hx with rfl | rfl | rfl | rfl <;> assumption) _)
    (row_u16bs c.interfaces h10 _) (u16_u16b _ h11 _) (members_bytes _ h12 _) (u16_u16b _ h13 _)
    (members_bytes _ h14 _) (u16_u16b _ h15 _) ha
  rw [this]

end ClassParse
