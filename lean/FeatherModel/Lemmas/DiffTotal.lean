import FeatherModel.Lemmas.DiffLevels

/-!
# When `diff` succeeds: exactly when the namespaces agree and every entry of both sides has a target name
-/

namespace DiffModel
open AList

section zip
variable {K V W : Type} [BEq K] [LawfulBEq K]

omit [BEq K] [LawfulBEq K] in
theorem mapKeysM_eq_none_iff {g : K → Option W} {ks : List K} :
    mapKeysM g ks = none ↔ ∃ k, k ∈ ks ∧ g k = none := by
  induction ks with
  | nil => simp [mapKeysM]
  | cons k rest ih =>
    simp only [mapKeysM, List.mem_cons, exists_eq_or_imp]
    cases hg : g k with
    | none => simp
    | some w =>
      simp only [reduceCtorEq, false_or]
      rw [← ih]
      cases mapKeysM g rest <;> simp

theorem zipMap_eq_none_iff {f : Option V → Option V → Option W} {a b : AList K V} :
    zipMap f a b = none ↔
      ∃ k, (lookup k a ≠ none ∨ lookup k b ≠ none) ∧ f (lookup k a) (lookup k b) = none := by
  unfold zipMap
  rw [mapKeysM_eq_none_iff]
  constructor
  · rintro ⟨k, hk, hf⟩; exact ⟨k, mem_zipKeys.mp hk, hf⟩
  · rintro ⟨k, hk, hf⟩; exact ⟨k, mem_zipKeys.mpr hk, hf⟩

/-- `zip_map` succeeds exactly when the combiner does on every entry of both sides -/
theorem zipMap_isSome {f : Option V → Option V → Option W} {nm : V → Bool} {a b : AList K V}
    (ha : NoDup a) (hb : NoDup b)
    (H : ∀ k, (lookup k a ≠ none ∨ lookup k b ≠ none) →
      (f (lookup k a) (lookup k b)).isSome = ((lookup k a).all nm && (lookup k b).all nm)) :
    (zipMap f a b).isSome = ((a.all fun e => nm e.2) && (b.all fun e => nm e.2)) := by
  rw [Bool.eq_iff_iff]
  simp only [Bool.and_eq_true, List.all_eq_true]
  constructor
  · intro hs
    have hne : zipMap f a b ≠ none := by intro h; rw [h] at hs; simp at hs
    rw [Ne, zipMap_eq_none_iff] at hne
    have key : ∀ k, (lookup k a ≠ none ∨ lookup k b ≠ none) →
        ((lookup k a).all nm && (lookup k b).all nm) = true := by
      intro k hk
      rw [← H k hk]
      cases hf : f (lookup k a) (lookup k b) with
      | none => exact absurd ⟨k, hk, hf⟩ hne
      | some w => rfl
    constructor
    · intro e he
      have hl : lookup e.1 a = some e.2 := lookup_of_mem ha he
      have := key e.1 (Or.inl (by rw [hl]; simp))
      rw [hl] at this
      simp only [Option.all_some, Bool.and_eq_true] at this
      exact this.1
    · intro e he
      have hl : lookup e.1 b = some e.2 := lookup_of_mem hb he
      have := key e.1 (Or.inr (by rw [hl]; simp))
      rw [hl] at this
      simp only [Option.all_some, Bool.and_eq_true] at this
      exact this.2
  · intro ⟨hA, hB⟩
    cases hz : zipMap f a b with
    | some r => rfl
    | none =>
      obtain ⟨k, hk, hf⟩ := zipMap_eq_none_iff.mp hz
      have := H k hk
      rw [hf] at this
      have h1 : (lookup k a).all nm = true := by
        cases hl : lookup k a with
        | none => rfl
        | some x => exact hA (k, x) (mem_of_lookup hl)
      have h2 : (lookup k b).all nm = true := by
        cases hl : lookup k b with
        | none => rfl
        | some x => exact hB (k, x) (mem_of_lookup hl)
      rw [h1, h2] at this
      simp at this

end zip

theorem genDiffNames_isSome (oa ob : Option Names) (h : oa ≠ none ∨ ob ≠ none) :
    (genDiffNames oa ob).isSome = (oa.all named && ob.all named) := by
  cases oa with
  | none =>
    cases ob with
    | none => simp at h
    | some b => simp only [genDiffNames, named, Option.all_none, Option.all_some, Bool.true_and]; cases nameAt b 1 <;> simp
  | some a =>
    cases ob with
    | none => simp only [genDiffNames, named, Option.all_none, Option.all_some, Bool.and_true]; cases nameAt a 1 <;> simp
    | some b => simp only [genDiffNames, named, Option.all_some]; cases nameAt a 1 <;> cases nameAt b 1 <;> simp

theorem diffParam_isSome (oa ob : Option Param) (h : oa ≠ none ∨ ob ≠ none) :
    (diffParam oa ob).isSome = (oa.all namedParam && ob.all namedParam) := by
  have hg := genDiffNames_isSome (oa.map Param.names) (ob.map Param.names)
    (by cases oa <;> cases ob <;> simp at h ⊢)
  have he : (oa.map Param.names).all named = oa.all namedParam := by cases oa <;> rfl
  have he' : (ob.map Param.names).all named = ob.all namedParam := by cases ob <;> rfl
  rw [he, he'] at hg
  rw [← hg]
  unfold diffParam
  cases genDiffNames (oa.map Param.names) (ob.map Param.names) <;> rfl

theorem diffField_isSome (oa ob : Option Field) (h : oa ≠ none ∨ ob ≠ none) :
    (diffField oa ob).isSome = (oa.all namedField && ob.all namedField) := by
  have hg := genDiffNames_isSome (oa.map Field.names) (ob.map Field.names)
    (by cases oa <;> cases ob <;> simp at h ⊢)
  have he : (oa.map Field.names).all named = oa.all namedField := by cases oa <;> rfl
  have he' : (ob.map Field.names).all named = ob.all namedField := by cases ob <;> rfl
  rw [he, he'] at hg
  rw [← hg]
  unfold diffField
  cases genDiffNames (oa.map Field.names) (ob.map Field.names) <;> rfl

theorem nodup_kids {T K V : Type} {o : Option T} {f : T → AList K V} (h : ∀ x, o = some x → NoDup (f x)) :
    NoDup (kids o f) := by
  cases o with
  | none => exact nodup_nil
  | some x => exact h x rfl

theorem diffMethod_isSome (oa ob : Option Method) (h : oa ≠ none ∨ ob ≠ none)
    (ha : ∀ m, oa = some m → NoDup m.params) (hb : ∀ m, ob = some m → NoDup m.params) :
    (diffMethod oa ob).isSome = (oa.all namedMethod && ob.all namedMethod) := by
  have hg := genDiffNames_isSome (oa.map Method.names) (ob.map Method.names)
    (by cases oa <;> cases ob <;> simp at h ⊢)
  have hz : (zipMap diffParam (kids oa Method.params) (kids ob Method.params)).isSome =
      (((kids oa Method.params).all fun e => namedParam e.2) && ((kids ob Method.params).all fun e => namedParam e.2)) :=
    zipMap_isSome (nodup_kids ha) (nodup_kids hb) (fun k hk => diffParam_isSome _ _ hk)
  have split : (diffMethod oa ob).isSome =
      ((genDiffNames (oa.map Method.names) (ob.map Method.names)).isSome &&
        (zipMap diffParam (kids oa Method.params) (kids ob Method.params)).isSome) := by
    unfold diffMethod
    cases genDiffNames (oa.map Method.names) (ob.map Method.names) with
    | none => rfl
    | some info => cases zipMap diffParam (kids oa Method.params) (kids ob Method.params) <;> rfl
  rw [split, hg, hz]
  cases oa <;> cases ob <;>
    simp only [kids, namedMethod, Option.all_some, Option.all_none, Option.map_some, Option.map_none, List.all_nil,
      Bool.and_true, Bool.true_and] <;> ac_rfl

theorem diffClass_isSome (oa ob : Option Class) (h : oa ≠ none ∨ ob ≠ none)
    (haf : ∀ c, oa = some c → NoDup c.fields) (hbf : ∀ c, ob = some c → NoDup c.fields)
    (ham : ∀ c, oa = some c → NoDup c.methods) (hbm : ∀ c, ob = some c → NoDup c.methods)
    (hap : ∀ c, oa = some c → ∀ me ∈ c.methods, NoDup me.2.params)
    (hbp : ∀ c, ob = some c → ∀ me ∈ c.methods, NoDup me.2.params) :
    (diffClass oa ob).isSome = (oa.all namedClass && ob.all namedClass) := by
  have hg := genDiffNames_isSome (oa.map Class.names) (ob.map Class.names)
    (by cases oa <;> cases ob <;> simp at h ⊢)
  have hzf : (zipMap diffField (kids oa Class.fields) (kids ob Class.fields)).isSome =
      (((kids oa Class.fields).all fun e => namedField e.2) && ((kids ob Class.fields).all fun e => namedField e.2)) :=
    zipMap_isSome (nodup_kids haf) (nodup_kids hbf) (fun k hk => diffField_isSome _ _ hk)
  have hzm : (zipMap diffMethod (kids oa Class.methods) (kids ob Class.methods)).isSome =
      (((kids oa Class.methods).all fun e => namedMethod e.2) && ((kids ob Class.methods).all fun e => namedMethod e.2)) :=
    zipMap_isSome (nodup_kids ham) (nodup_kids hbm) (fun k hk => diffMethod_isSome _ _ hk
      (by
        intro m hm
        cases oa with
        | none => simp [kids, lookup] at hm
        | some c => exact hap c rfl (k, m) (mem_of_lookup hm))
      (by
        intro m hm
        cases ob with
        | none => simp [kids, lookup] at hm
        | some c => exact hbp c rfl (k, m) (mem_of_lookup hm)))
  have split : (diffClass oa ob).isSome =
      ((genDiffNames (oa.map Class.names) (ob.map Class.names)).isSome &&
        (zipMap diffField (kids oa Class.fields) (kids ob Class.fields)).isSome &&
        (zipMap diffMethod (kids oa Class.methods) (kids ob Class.methods)).isSome) := by
    unfold diffClass
    cases genDiffNames (oa.map Class.names) (ob.map Class.names) with
    | none => rfl
    | some info =>
      cases zipMap diffField (kids oa Class.fields) (kids ob Class.fields) with
      | none => rfl
      | some fs => cases zipMap diffMethod (kids oa Class.methods) (kids ob Class.methods) <;> rfl
  rw [split, hg, hzf, hzm]
  cases oa <;> cases ob <;>
    simp only [kids, namedClass, Option.all_some, Option.all_none, Option.map_some, Option.map_none, List.all_nil,
      Bool.and_true, Bool.true_and] <;> ac_rfl

/-- **`diff` succeeds exactly when** both sets have two namespaces with the same names and every entry of both has a
name in the second namespace -/
theorem diff_isSome {a b : Mappings} (ka : KeysUnique a) (kb : KeysUnique b) :
    (diff a b).isSome = (decide (a.ns.length = 2) && decide (a.ns = b.ns) && allNamed a && allNamed b) := by
  obtain ⟨hna, ha⟩ := ka
  obtain ⟨hnb, hb⟩ := kb
  have hz : (zipMap diffClass a.classes b.classes).isSome = (allNamed a && allNamed b) :=
    zipMap_isSome hna hnb (fun k hk => diffClass_isSome _ _ hk
      (fun c hc => (ha (k, c) (mem_of_lookup hc)).1) (fun c hc => (hb (k, c) (mem_of_lookup hc)).1)
      (fun c hc => (ha (k, c) (mem_of_lookup hc)).2.1) (fun c hc => (hb (k, c) (mem_of_lookup hc)).2.1)
      (fun c hc => (ha (k, c) (mem_of_lookup hc)).2.2) (fun c hc => (hb (k, c) (mem_of_lookup hc)).2.2))
  unfold diff
  by_cases h2 : a.ns.length = 2
  · by_cases he : a.ns = b.ns
    · have hb2 : b.ns.length = 2 := by rw [← he]; exact h2
      simp only [hb2, ne_eq, not_true_eq_false, or_self, if_false, he, decide_true, Bool.true_and]
      rw [← hz]
      cases zipMap diffClass a.classes b.classes <;> rfl
    · by_cases hl : a.ns.length ≠ 2 ∨ b.ns.length ≠ 2 <;> simp [hl, he]
  · simp [h2]

end DiffModel
