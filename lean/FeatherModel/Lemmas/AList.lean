import FeatherModel.Base.AList

namespace AList
variable {K V W : Type}

theorem mapValsM_map {f : K → V → Option W} {m : AList K V} {m' : AList K W}
    {α : Type} (g : K × W → α) (h : K × V → α)
    (hm : mapValsM f m = some m')
    (hgh : ∀ k v w, (k, v) ∈ m → f k v = some w → g (k, w) = h (k, v)) :
    m'.map g = m.map h := by
  induction m generalizing m' with
  | nil => simp [mapValsM] at hm; subst hm; rfl
  | cons e rest ih =>
    obtain ⟨k, v⟩ := e
    simp only [mapValsM] at hm
    cases hf : f k v with
    | none => rw [hf] at hm; simp at hm
    | some w =>
      rw [hf] at hm
      cases hr : mapValsM f rest with
      | none => rw [hr] at hm; simp at hm
      | some rest' =>
        rw [hr] at hm
        simp only [Option.some.injEq] at hm
        subst hm
        simp only [List.map_cons]
        rw [ih hr (fun k v w hmem => hgh k v w (List.mem_cons_of_mem _ hmem))]
        rw [hgh k v w (List.mem_cons_self) hf]

theorem mapValsM_keys {f : K → V → Option W} {m : AList K V} {m' : AList K W}
    (hm : mapValsM f m = some m') : m'.keys = m.keys := by
  unfold keys
  exact mapValsM_map Prod.fst Prod.fst hm (fun _ _ _ _ _ => rfl)

theorem mapValsM_lookup_some [BEq K] [LawfulBEq K] {f : K → V → Option W} {m : AList K V} {m' : AList K W}
    (hm : mapValsM f m = some m') {k : K} {v : V} (hl : lookup k m = some v) :
    ∃ w, f k v = some w ∧ lookup k m' = some w := by
  induction m generalizing m' with
  | nil => simp [lookup] at hl
  | cons e rest ih =>
    obtain ⟨k0, v0⟩ := e
    simp only [mapValsM] at hm
    cases hf : f k0 v0 with
    | none => rw [hf] at hm; simp at hm
    | some w0 =>
      rw [hf] at hm
      cases hr : mapValsM f rest with
      | none => rw [hr] at hm; simp at hm
      | some rest' =>
        rw [hr] at hm
        simp only [Option.some.injEq] at hm
        subst hm
        simp only [lookup] at hl ⊢
        by_cases hk : (k0 == k) = true
        · simp only [hk, if_true, Option.some.injEq] at hl ⊢
          have : k0 = k := by simpa using hk
          subst this; subst hl
          exact ⟨w0, hf, rfl⟩
        · simp only [hk] at hl ⊢
          exact ih hr hl

theorem mapValsM_lookup_none [BEq K] {f : K → V → Option W} {m : AList K V} {m' : AList K W}
    (hm : mapValsM f m = some m') {k : K} (hl : lookup k m = none) :
    lookup k m' = none := by
  induction m generalizing m' with
  | nil => simp [mapValsM] at hm; subst hm; rfl
  | cons e rest ih =>
    obtain ⟨k0, v0⟩ := e
    simp only [mapValsM] at hm
    cases hf : f k0 v0 with
    | none => rw [hf] at hm; simp at hm
    | some w0 =>
      rw [hf] at hm
      cases hr : mapValsM f rest with
      | none => rw [hr] at hm; simp at hm
      | some rest' =>
        rw [hr] at hm
        simp only [Option.some.injEq] at hm
        subst hm
        simp only [lookup] at hl ⊢
        by_cases hk : (k0 == k) = true
        · simp [hk] at hl
        · simp only [hk] at hl ⊢
          exact ih hr hl

theorem mapValsM_none_of_mem {f : K → V → Option W} {m : AList K V} {k : K} {v : V}
    (hmem : (k, v) ∈ m) (hf : f k v = none) : mapValsM f m = none := by
  induction m with
  | nil => simp at hmem
  | cons e rest ih =>
    obtain ⟨k0, v0⟩ := e
    simp only [mapValsM]
    rcases List.mem_cons.mp hmem with h | h
    · cases h; rw [hf]
    · cases f k0 v0 with
      | none => rfl
      | some w => simp only; rw [ih h]

theorem lookup_mem [BEq K] [LawfulBEq K] {m : AList K V} {k : K} {v : V} (h : lookup k m = some v) : (k, v) ∈ m := by
  induction m with
  | nil => simp [lookup] at h
  | cons e rest ih =>
    obtain ⟨k0, v0⟩ := e
    simp only [lookup] at h
    by_cases hk : (k0 == k) = true
    · simp only [hk, if_true, Option.some.injEq] at h
      have : k0 = k := by simpa using hk
      subst this; subst h; exact List.mem_cons_self
    · simp only [hk] at h
      exact List.mem_cons_of_mem _ (ih h)

theorem mapVals_mapValsM {f : K → V → Option W} {g : W → V} {m : AList K V} {m' : AList K W}
    (hm : mapValsM f m = some m')
    (hg : ∀ k v w, (k, v) ∈ m → f k v = some w → g w = v) :
    mapVals g m' = m := by
  have := mapValsM_map (fun e : K × W => (e.1, g e.2)) (fun e : K × V => e) hm
    (fun k v w hmem hf => by simp [hg k v w hmem hf])
  simpa [mapVals] using this

end AList
