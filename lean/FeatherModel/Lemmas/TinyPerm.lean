import FeatherModel.Lemmas.TinySort

/-! Content equality of mapping sets and insertion-order independence of `Tiny.write` (C03). -/

namespace Tiny

/-- element-wise relation of two lists -/
inductive All2 {α β : Type} (R : α → β → Prop) : List α → List β → Prop
  | nil : All2 R [] []
  | cons {a b as bs} : R a b → All2 R as bs → All2 R (a :: as) (b :: bs)

/-- `l'` has the entries of `l` in another order, entry by entry up to `R` -/
def PermRel {α : Type} (R : α → α → Prop) (l l' : List α) : Prop :=
  ∃ a b, l.Perm a ∧ All2 R a b ∧ b.Perm l'

/-- same method entry, parameters in any insertion order -/
def MethodEquiv (m m' : Method) : Prop :=
  m.desc = m'.desc ∧ m.names = m'.names ∧ m.doc = m'.doc ∧ m.params.Perm m'.params

/-- same class entry, fields / methods / parameters in any insertion order -/
def ClassEquiv (c c' : Class) : Prop :=
  c.names = c'.names ∧ c.doc = c'.doc ∧ c.fields.Perm c'.fields ∧
    PermRel (fun x y => x.1 = y.1 ∧ MethodEquiv x.2 y.2) c.methods c'.methods

/-- same content: the same entries under the same keys at every level, in any insertion order at every level -/
def ContentEq (m m' : Mappings) : Prop :=
  m.ns = m'.ns ∧ m.doc = m'.doc ∧ PermRel (fun x y => x.1 = y.1 ∧ ClassEquiv x.2 y.2) m.classes m'.classes

theorem All2.map {α β γ δ : Type} {R : α → β → Prop} {S : γ → δ → Prop} {f : α → γ} {g : β → δ}
    (h : ∀ a b, R a b → S (f a) (g b)) : ∀ {l l'}, All2 R l l' → All2 S (l.map f) (l'.map g)
  | _, _, .nil => .nil
  | _, _, .cons r t => .cons (h _ _ r) (All2.map h t)

theorem All2.map_eq {α β γ : Type} {R : α → β → Prop} {f : α → γ} {g : β → γ}
    (h : ∀ a b, R a b → f a = g b) : ∀ {l l'}, All2 R l l' → l.map f = l'.map g
  | _, _, .nil => rfl
  | _, _, .cons r t => by simp only [List.map_cons, h _ _ r, All2.map_eq h t]

theorem All2.mem_right {α β : Type} {R : α → β → Prop} : ∀ {l l'}, All2 R l l' → ∀ b ∈ l', ∃ a ∈ l, R a b
  | _, _, .nil, b, hb => by simp at hb
  | _, _, .cons r t, b, hb => by
    rcases List.mem_cons.mp hb with rfl | hb
    · exact ⟨_, List.mem_cons_self, r⟩
    · obtain ⟨a, ha, hr⟩ := All2.mem_right t b hb
      exact ⟨a, List.mem_cons_of_mem _ ha, hr⟩

/-! ## keys determine entries -/

theorem contains_false_of {K V : Type} [BEq K] [LawfulBEq K] {k : K} :
    ∀ {m : AList K V}, AList.contains k m = false → ∀ e ∈ m, e.1 ≠ k
  | [], _, e, he => by simp at he
  | (k0, v0) :: rest, h, e, he => by
    simp only [AList.contains, AList.lookup] at h
    by_cases hk : (k0 == k) = true
    · simp [hk] at h
    · simp only [hk] at h
      rcases List.mem_cons.mp he with rfl | he
      · simpa using hk
      · exact contains_false_of (m := rest) (by simpa [AList.contains] using h) e he

/-- in a map with unique keys whose keys are derived from the values, values with equal derived keys are equal -/
theorem values_inj {K V K' : Type} [BEq K] [LawfulBEq K] (keyOf : V → K') (g : K → K')
    (ginj : ∀ a b, g a = g b → a = b) :
    ∀ {m : AList K V}, keysNodup m = true → (∀ e ∈ m, keyOf e.2 = g e.1) →
      ∀ v w, v ∈ m.values → w ∈ m.values → keyOf v = keyOf w → v = w
  | [], _, _, v, _, hv, _, _ => by simp [AList.values] at hv
  | (k0, v0) :: rest, hn, hk, v, w, hv, hw, hvw => by
    simp only [keysNodup, Bool.and_eq_true, Bool.not_eq_true'] at hn
    have hrest := fun e (he : e ∈ rest) => hk e (List.mem_cons_of_mem _ he)
    have h0 := hk (k0, v0) List.mem_cons_self
    simp only [AList.values, List.map_cons, List.mem_cons, List.mem_map] at hv hw
    have key_ne : ∀ e ∈ rest, keyOf e.2 ≠ keyOf v0 := by
      intro e he heq
      have := contains_false_of hn.1 e he
      rw [hrest e he, h0] at heq
      exact this (ginj _ _ heq)
    rcases hv with rfl | ⟨e, he, rfl⟩
    · rcases hw with rfl | ⟨e', he', rfl⟩
      · rfl
      · exact absurd hvw.symm (key_ne e' he')
    · rcases hw with rfl | ⟨e', he', rfl⟩
      · exact absurd hvw (key_ne e he)
      · exact values_inj keyOf g ginj hn.2 hrest _ _ (List.mem_map.mpr ⟨e, he, rfl⟩) (List.mem_map.mpr ⟨e', he', rfl⟩) hvw

/-! ## well-formedness unpacked -/

theorem wfMethod_params_inj {m : Method} (h : wfMethod m = true) :
    ∀ p q, p ∈ m.params.values → q ∈ m.params.values → paramLe p q = true → paramLe q p = true → p = q := by
  simp only [wfMethod, Bool.and_eq_true, List.all_eq_true] at h
  intro p q hp hq h1 h2
  have := indexNamesLe_ord.antisymm _ _ h1 h2
  apply values_inj (fun p : Param => p.index) id (fun _ _ h => h) h.1 _ p q hp hq (by simpa using congrArg Prod.fst this)
  intro e he
  have := h.2 e he
  simpa using (eq_of_beq this).symm

theorem firstName_inj {a b : JStr} (h : some a = some b) : a = b := by simpa using h

theorem wfClass_fields_inj {c : Class} (h : wfClass c = true) :
    ∀ p q, p ∈ c.fields.values → q ∈ c.fields.values → fieldLe p q = true → fieldLe q p = true → p = q := by
  simp only [wfClass, Bool.and_eq_true, List.all_eq_true] at h
  intro p q hp hq h1 h2
  have := descNamesLe_ord.antisymm _ _ h1 h2
  simp only [Prod.mk.injEq] at this
  apply values_inj (fun f : Field => (firstName f.names, f.desc)) (fun k : MemberKey => (some k.1, k.2))
    (fun a b hab => by
      simp only [Prod.mk.injEq, Option.some.injEq] at hab
      exact Prod.ext hab.1 hab.2) h.1.1.1 _ p q hp hq (by simp [this.1, this.2])
  intro e he
  have := h.1.1.2 e he
  simp only [Bool.and_eq_true, beq_iff_eq] at this
  simp [this.1, this.2]

theorem wfClass_methods_inj {c : Class} (h : wfClass c = true) :
    ∀ p q, p ∈ c.methods.values → q ∈ c.methods.values → methodLe p q = true → methodLe q p = true → p = q := by
  simp only [wfClass, Bool.and_eq_true, List.all_eq_true] at h
  intro p q hp hq h1 h2
  have := descNamesLe_ord.antisymm _ _ h1 h2
  simp only [Prod.mk.injEq] at this
  apply values_inj (fun f : Method => (firstName f.names, f.desc)) (fun k : MemberKey => (some k.1, k.2))
    (fun a b hab => by
      simp only [Prod.mk.injEq, Option.some.injEq] at hab
      exact Prod.ext hab.1 hab.2) h.1.2 _ p q hp hq (by simp [this.1, this.2])
  intro e he
  have := h.2 e he
  simp only [Bool.and_eq_true, beq_iff_eq] at this
  simp [this.1.1, this.1.2]

theorem wfClass_method {c : Class} (h : wfClass c = true) : ∀ m ∈ c.methods.values, wfMethod m = true := by
  simp only [wfClass, Bool.and_eq_true, List.all_eq_true] at h
  intro m hm
  simp only [AList.values, List.mem_map] at hm
  obtain ⟨⟨k, v⟩, he, rfl⟩ := hm
  have := h.2 (k, v) he
  simp only [Bool.and_eq_true] at this
  exact this.2

theorem wf_classes_inj {m : Mappings} (h : wf m = true) :
    ∀ p q, p ∈ m.classes.values → q ∈ m.classes.values → classLe p q = true → classLe q p = true → p = q := by
  simp only [wf, Bool.and_eq_true, List.all_eq_true] at h
  intro p q hp hq h1 h2
  have := namesLe_ord.antisymm _ _ h1 h2
  apply values_inj (fun c : Class => firstName c.names) (fun k : JStr => some k)
    (fun a b hab => by simpa using hab) h.1 _ p q hp hq (by rw [this])
  intro e he
  have := h.2 e he
  simp only [Bool.and_eq_true, beq_iff_eq] at this
  exact this.1

theorem wf_class {m : Mappings} (h : wf m = true) : ∀ c ∈ m.classes.values, wfClass c = true := by
  simp only [wf, Bool.and_eq_true, List.all_eq_true] at h
  intro c hc
  simp only [AList.values, List.mem_map] at hc
  obtain ⟨⟨k, v⟩, he, rfl⟩ := hc
  have := h.2 (k, v) he
  simp only [Bool.and_eq_true] at this
  exact this.2

/-! ## sorted emission does not depend on the insertion order -/

theorem flatMap_eq_of_map_eq {α γ κ : Type} (key : α → κ) (f : α → List γ) {l l' : List α}
    (h : l.map (fun x => (key x, f x)) = l'.map (fun x => (key x, f x))) : l.flatMap f = l'.flatMap f := by
  have : ∀ l : List α, l.flatMap f = (l.map (fun x => (key x, f x))).flatMap Prod.snd := by
    intro l; induction l with
    | nil => rfl
    | cons a l ih => simp [List.flatMap_cons, ih]
  rw [this l, this l', h]

/-- the generic step: sorting by a key and printing gives the same text for two lists that are permutations of each
other up to a relation preserving key and printed text -/
theorem sorted_emit_congr {α γ κ : Type} {kle : κ → κ → Bool} (hk : TotalOrd kle) (key : α → κ) (f : α → List γ)
    (R : α → α → Prop) (hR : ∀ a b, R a b → key a = key b ∧ f a = f b)
    {l l' : List α}
    (anti : ∀ a b, a ∈ l → b ∈ l → kle (key a) (key b) = true → kle (key b) (key a) = true → a = b)
    (anti' : ∀ a b, a ∈ l' → b ∈ l' → kle (key a) (key b) = true → kle (key b) (key a) = true → a = b)
    (h : PermRel R l l') :
    (sortBy (fun a b => kle (key a) (key b)) l).flatMap f = (sortBy (fun a b => kle (key a) (key b)) l').flatMap f := by
  obtain ⟨a, b, hla, hab, hbl⟩ := h
  have total : ∀ x y : α, kle (key x) (key y) = true ∨ kle (key y) (key x) = true := fun x y => hk.total _ _
  have trans : ∀ x y z : α, kle (key x) (key y) = true → kle (key y) (key z) = true → kle (key x) (key z) = true :=
    fun x y z => hk.trans _ _ _
  rw [sortBy_eq_of_perm total trans anti hla]
  rw [← sortBy_eq_of_perm total trans (fun x y hx hy => anti' x y (hbl.subset hx) (hbl.subset hy)) hbl]
  apply flatMap_eq_of_map_eq key f
  rw [sortBy_map (le' := fun p q : κ × List γ => kle p.1 q.1) (fun x => (key x, f x)) (fun _ _ => rfl),
    sortBy_map (le' := fun p q : κ × List γ => kle p.1 q.1) (fun x => (key x, f x)) (fun _ _ => rfl)]
  congr 1
  exact All2.map_eq (fun x y r => by rw [(hR x y r).1, (hR x y r).2]) hab

theorem methodLines_congr {m m' : Method} (hw : wfMethod m = true) (h : MethodEquiv m m') :
    methodLines m = methodLines m' := by
  obtain ⟨h1, h2, h3, h4⟩ := h
  have hs : sortBy paramLe m.params.values = sortBy paramLe m'.params.values :=
    sortBy_eq_of_perm (le := paramLe) (fun _ _ => indexNamesLe_ord.total _ _) (fun _ _ _ => indexNamesLe_ord.trans _ _ _)
      (wfMethod_params_inj hw) (h4.map Prod.snd)
  simp only [methodLines, h1, h2, h3, hs]

theorem values_permRel {K V : Type} {R : V → V → Prop} {l l' : AList K V}
    (h : PermRel (fun x y => x.1 = y.1 ∧ R x.2 y.2) l l') : PermRel R l.values l'.values := by
  obtain ⟨a, b, h1, h2, h3⟩ := h
  exact ⟨a.map Prod.snd, b.map Prod.snd, h1.map _, All2.map (fun _ _ r => r.2) h2, h3.map _⟩

theorem permRel_mem_left {α : Type} {R : α → α → Prop} {l l' : List α} (h : PermRel R l l') :
    ∃ a b, l.Perm a ∧ All2 (fun x y => R x y ∧ x ∈ l ∧ y ∈ l') a b ∧ b.Perm l' := by
  obtain ⟨a, b, h1, h2, h3⟩ := h
  refine ⟨a, b, h1, ?_, h3⟩
  have ha : ∀ x ∈ a, x ∈ l := fun x hx => h1.symm.subset hx
  have hb : ∀ x ∈ b, x ∈ l' := fun x hx => h3.subset hx
  clear h1 h3
  induction h2 with
  | nil => exact .nil
  | cons r _ ih =>
    exact .cons ⟨r, ha _ List.mem_cons_self, hb _ List.mem_cons_self⟩
      (ih (fun x hx => ha x (List.mem_cons_of_mem _ hx)) (fun x hx => hb x (List.mem_cons_of_mem _ hx)))

theorem classLines_congr {c c' : Class} (hw : wfClass c = true) (hw' : wfClass c' = true) (h : ClassEquiv c c') :
    classLines c = classLines c' := by
  obtain ⟨h1, h2, h3, h4⟩ := h
  have hf : sortBy fieldLe c.fields.values = sortBy fieldLe c'.fields.values :=
    sortBy_eq_of_perm (le := fieldLe) (fun _ _ => descNamesLe_ord.total _ _) (fun _ _ _ => descNamesLe_ord.trans _ _ _)
      (wfClass_fields_inj hw) (h3.map Prod.snd)
  have hm : (sortBy methodLe c.methods.values).flatMap methodLines = (sortBy methodLe c'.methods.values).flatMap methodLines := by
    obtain ⟨a, b, p1, p2, p3⟩ := permRel_mem_left (values_permRel h4)
    exact sorted_emit_congr descNamesLe_ord (fun m : Method => (m.desc, m.names)) methodLines
      (fun x y => MethodEquiv x y ∧ x ∈ c.methods.values ∧ y ∈ c'.methods.values)
      (fun x y r => ⟨by rw [r.1.1, r.1.2.1], methodLines_congr (wfClass_method hw x r.2.1) r.1⟩)
      (wfClass_methods_inj hw) (wfClass_methods_inj hw') ⟨a, b, p1, p2, p3⟩
  simp only [classLines, h1, h2, hf, hm]

theorem writeLines_congr {m m' : Mappings} (hw : wf m = true) (hw' : wf m' = true) (h : ContentEq m m') :
    writeLines m = writeLines m' := by
  obtain ⟨h1, h2, h3⟩ := h
  have hc : (sortBy classLe m.classes.values).flatMap classLines = (sortBy classLe m'.classes.values).flatMap classLines := by
    obtain ⟨a, b, p1, p2, p3⟩ := permRel_mem_left (values_permRel h3)
    exact sorted_emit_congr namesLe_ord (fun c : Class => c.names) classLines
      (fun x y => ClassEquiv x y ∧ x ∈ m.classes.values ∧ y ∈ m'.classes.values)
      (fun x y r => ⟨r.1.1, classLines_congr (wf_class hw x r.2.1) (wf_class hw' y r.2.2) r.1⟩)
      (wf_classes_inj hw) (wf_classes_inj hw') ⟨a, b, p1, p2, p3⟩
  simp only [writeLines, h1, h2, hc]

theorem namesDisplayable_all {α : Type} (f : α → Bool) {l l' : List α} (h : l.Perm l') : l.all f = l'.all f := by
  rw [Bool.eq_iff_iff]
  simp only [List.all_eq_true]
  exact ⟨fun H x hx => H x (h.symm.subset hx), fun H x hx => H x (h.subset hx)⟩

theorem All2.all_eq {α : Type} {R : α → α → Prop} (f : α → Bool) (h : ∀ a b, R a b → f a = f b) :
    ∀ {l l' : List α}, All2 R l l' → l.all f = l'.all f
  | _, _, .nil => rfl
  | _, _, .cons r t => by simp only [List.all_cons, h _ _ r, All2.all_eq f h t]

theorem permRel_all_eq {α : Type} {R : α → α → Prop} (f : α → Bool) (h : ∀ a b, R a b → f a = f b)
    {l l' : List α} (p : PermRel R l l') : l.all f = l'.all f := by
  obtain ⟨a, b, h1, h2, h3⟩ := p
  rw [namesDisplayable_all f h1, All2.all_eq f h h2, namesDisplayable_all f h3]

theorem writeOk_congr {m m' : Mappings} (h : ContentEq m m') : writeOk m = writeOk m' := by
  obtain ⟨h1, _, h3⟩ := h
  unfold writeOk
  rw [h1]
  congr 1
  apply permRel_all_eq _ _ h3
  rintro ⟨k, c⟩ ⟨k', c'⟩ ⟨_, c1, _, c3, c4⟩
  simp only at c1 c3 c4 ⊢
  rw [c1, namesDisplayable_all _ c3]
  congr 1
  apply permRel_all_eq _ _ c4
  rintro ⟨k, m⟩ ⟨k', m'⟩ ⟨_, m1, m2, _, m4⟩
  simp only at m1 m2 m4 ⊢
  rw [m1, m2, namesDisplayable_all _ m4]

end Tiny
