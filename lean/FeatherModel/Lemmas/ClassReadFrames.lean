import FeatherModel.Lemmas.ClassReadCodeFinal
import FeatherModel.Lemmas.ClassReadPoolRead

/-! C01 lemmas: attribute framing — skipping members, reading class references, the generic attribute loop. -/

namespace ClassRead
open Outcome Spec

/-- an attribute whose name index and length fit their fields -/
def FrameOk (a : Nat × Bytes) : Prop := a.1 < 65536 ∧ a.2.length < 4294967296

theorem skipAttributesLoop_enc (as : List (Nat × Bytes)) (h : ∀ a ∈ as, FrameOk a) (r : Bytes) :
    skipAttributesLoop as.length (as.flatMap (fun a => attrFrame a.1 a.2) ++ r) = ok ((), r) := by
  induction as with
  | nil => simp [skipAttributesLoop]
  | cons a as ih =>
    obtain ⟨h1, h2⟩ := h a (by simp)
    simp only [List.length_cons, skipAttributesLoop, List.flatMap_cons, attrFrame, List.append_assoc, u16_be16 _ h1,
      u32_be32 _ h2, ok_bind, skipN, List.drop_left']
    simpa [attrFrame] using ih (fun b hb => h b (by simp [hb]))

theorem skipAttributes_enc (as : List (Nat × Bytes)) (hn : as.length < 65536) (h : ∀ a ∈ as, FrameOk a) (r : Bytes) :
    skipAttributes (encAttrs as ++ r) = ok ((), r) := by
  simp only [skipAttributes, encAttrs, List.append_assoc, u16_be16 _ hn, ok_bind, skipAttributesLoop_enc as h r]

/-- members are `u16 u16 u16 attributes` -/
theorem skipMembersLoop_enc {α : Type} (enc : α → Bytes) (attrsOf : α → List (Nat × Bytes)) (hd : α → Bytes) (xs : List α)
    (henc : ∀ x ∈ xs, enc x = hd x ++ encAttrs (attrsOf x) ∧ (hd x).length = 6 ∧ (attrsOf x).length < 65536 ∧ ∀ a ∈ attrsOf x, FrameOk a)
    (r : Bytes) : skipMembersLoop xs.length (xs.flatMap enc ++ r) = ok ((), r) := by
  induction xs with
  | nil => simp [skipMembersLoop]
  | cons x xs ih =>
    obtain ⟨h1, h2, h3, h4⟩ := henc x (by simp)
    simp only [List.length_cons, skipMembersLoop, List.flatMap_cons, h1, List.append_assoc, skipN, ok_bind]
    rw [← h2, List.drop_left']
    · simp only [skipAttributes_enc _ h3 h4, ok_bind]
      exact ih (fun y hy => henc y (by simp [hy]))
    · rfl

theorem skipMembers_enc {α : Type} (enc : α → Bytes) (attrsOf : α → List (Nat × Bytes)) (hd : α → Bytes) (xs : List α)
    (hn : xs.length < 65536)
    (henc : ∀ x ∈ xs, enc x = hd x ++ encAttrs (attrsOf x) ∧ (hd x).length = 6 ∧ (attrsOf x).length < 65536 ∧ ∀ a ∈ attrsOf x, FrameOk a)
    (r : Bytes) : skipMembers (be16 xs.length ++ xs.flatMap enc ++ r) = ok ((), r) := by
  simp only [skipMembers, List.append_assoc, u16_be16 _ hn, ok_bind, skipMembersLoop_enc enc attrsOf hd xs henc r]

/-- `read_vec(u16, |r| pool.get_class(r.read_u16()?))` on a list of indices -/
theorem readClassRefs_enc (p : Pool) (cps : List Nat) (names : List JStr) (h : classRefsLegal p cps names) (r : Bytes) :
    readVec16 (readClassRef p) (be16 cps.length ++ cps.flatMap be16 ++ r) = ok (names, r) := by
  obtain ⟨hn, hlen, hall⟩ := h
  have := readVec16_flatMap (readClassRef p) (fun (x : Nat × JStr) => be16 x.1) (fun x => x.2) (cps.zip names)
    (by simp [List.length_zip, ← hlen]; omega)
    (fun x hx r => by
      obtain ⟨h1, h2⟩ := hall x hx
      simp [readClassRef, u16_be16 _ h1, h2]) r
  have e1 : (cps.zip names).length = cps.length := by simp [List.length_zip, ← hlen]
  have e2 : (cps.zip names).flatMap (fun x => be16 x.1) = cps.flatMap be16 := by
    clear this hall hn e1
    induction cps generalizing names with
    | nil => simp
    | cons c cs ih =>
      cases names with
      | nil => simp at hlen
      | cons n ns => simp [List.flatMap_cons, ih ns (by simpa using hlen)]
  have e3 : (cps.zip names).map (fun x => x.2) = names := by
    clear this hall hn e1 e2
    induction cps generalizing names with
    | nil => cases names <;> simp at hlen ⊢
    | cons c cs ih =>
      cases names with
      | nil => simp at hlen
      | cons n ns => simp [ih ns (by simpa using hlen)]
  rw [e1, e2, e3] at this
  exact this

/-- a fold over attribute layouts, mirrored by a reader loop -/
theorem attrLoop_enc {σ α : Type} (loop : Nat → σ → Bytes → Outcome (σ × Bytes)) (one : σ → Bytes → Outcome (σ × Bytes))
    (hloop0 : ∀ st s, loop 0 st s = ok (st, s))
    (hloopS : ∀ n st s, loop (n + 1) st s = (do let (st, s) ← one st s; loop n st s))
    (raw : α → Nat × Bytes) (step : σ → α → Option σ) (as : List α)
    (hone : ∀ a ∈ as, ∀ st st' r, step st a = some st' → one st (attrFrame (raw a).1 (raw a).2 ++ r) = ok (st', r))
    (st st' : σ) (hst : applyAll step st as = some st') (r : Bytes) :
    loop as.length st ((as.map raw).flatMap (fun a => attrFrame a.1 a.2) ++ r) = ok (st', r) := by
  induction as generalizing st with
  | nil => simp only [applyAll, Option.some.injEq] at hst; subst hst; simp [hloop0]
  | cons a as ih =>
    simp only [applyAll] at hst
    cases hs : step st a with
    | none => simp [hs] at hst
    | some st1 =>
      simp only [hs] at hst
      simp only [List.length_cons, hloopS, List.map_cons, List.flatMap_cons, List.append_assoc,
        hone a (by simp) st st1 _ hs, ok_bind]
      exact ih (fun b hb => hone b (by simp [hb])) st1 hst

theorem mapOpt_length {α β : Type} (f : α → Option β) (xs : List α) (ys : List β) (h : mapOpt f xs = some ys) : xs.length = ys.length := by
  induction xs generalizing ys with
  | nil => simp [mapOpt] at h; subst h; rfl
  | cons x xs ih =>
    simp only [mapOpt] at h
    cases hx : f x with
    | none => simp [hx] at h
    | some b =>
      cases hr : mapOpt f xs with
      | none => simp [hx, hr] at h
      | some bs => simp [hx, hr] at h; subst h; simp [ih bs hr]

theorem mapOpt_get {α β : Type} (f : α → Option β) (xs : List α) (ys : List β) (h : mapOpt f xs = some ys) (k : Nat) (x : α) (y : β)
    (hx : xs[k]? = some x) (hy : ys[k]? = some y) : f x = some y := by
  induction xs generalizing ys k with
  | nil => simp at hx
  | cons x' xs ih =>
    simp only [mapOpt] at h
    cases hfx : f x' with
    | none => simp [hfx] at h
    | some b =>
      cases hr : mapOpt f xs with
      | none => simp [hfx, hr] at h
      | some bs =>
        simp [hfx, hr] at h; subst h
        cases k with
        | zero => simp at hx hy; subst hx; subst hy; exact hfx
        | succ k => exact ih bs hr k (by simpa using hx) (by simpa using hy)

end ClassRead
