import FeatherModel.Lemmas.EnigmaSort

/-!
# C12: the comparison functions of the Enigma writer are total orders
(`Ord` of `JavaString`, `Option`, name arrays; the member and parameter sort keys; the file-name order)
-/

namespace Enigma

/-- a three-way comparison that is a total order -/
structure LawfulCmp {α : Type} (cmp : α → α → Ordering) : Prop where
  swap : ∀ a b, cmp b a = (cmp a b).swap
  eq : ∀ a b, cmp a b = .eq → a = b
  trans : ∀ a b c, cmp a b = .lt → cmp b c = .lt → cmp a c = .lt

namespace LawfulCmp
variable {α : Type} {cmp : α → α → Ordering}

theorem refl (h : LawfulCmp cmp) (a : α) : cmp a a = .eq := by
  have := h.swap a a
  cases hc : cmp a a <;> rw [hc] at this <;> simp [Ordering.swap] at this

theorem gt_iff (h : LawfulCmp cmp) (a b : α) : cmp a b = .gt ↔ cmp b a = .lt := by
  rw [h.swap a b]
  cases cmp a b <;> simp [Ordering.swap]

/-- `cmp a b != .gt` is a total preorder that is antisymmetric -/
theorem le_total (h : LawfulCmp cmp) (a b : α) : (cmp a b != .gt) = true ∨ (cmp b a != .gt) = true := by
  rw [h.swap a b]
  cases cmp a b <;> simp [Ordering.swap]

theorem le_antisymm (h : LawfulCmp cmp) (a b : α) (h1 : (cmp a b != .gt) = true) (h2 : (cmp b a != .gt) = true) : a = b := by
  apply h.eq
  rw [h.swap a b] at h2
  cases hc : cmp a b <;> rw [hc] at h1 h2 <;> simp [Ordering.swap] at h1 h2 ⊢

theorem lt_of_lt_of_le (h : LawfulCmp cmp) {a b c : α} (h1 : cmp a b = .lt) (h2 : (cmp b c != .gt) = true) :
    cmp a c = .lt := by
  cases hc : cmp b c with
  | lt => exact h.trans a b c h1 hc
  | eq => rw [← h.eq b c hc]; exact h1
  | gt => rw [hc] at h2; simp at h2

theorem le_trans (h : LawfulCmp cmp) (a b c : α) (h1 : (cmp a b != .gt) = true) (h2 : (cmp b c != .gt) = true) :
    (cmp a c != .gt) = true := by
  cases hab : cmp a b with
  | lt => rw [h.lt_of_lt_of_le hab h2]; rfl
  | eq => rw [h.eq a b hab]; exact h2
  | gt => rw [hab] at h1; simp at h1

end LawfulCmp

/-! ## strings, options, name rows -/

theorem jcmp_lawful : LawfulCmp jcmp where
  swap := by
    intro a
    induction a with
    | nil => intro b; cases b <;> rfl
    | cons x xs ih =>
      intro b
      cases b with
      | nil => rfl
      | cons y ys =>
        simp only [jcmp]
        by_cases h1 : x < y
        · have h2 : ¬ y < x := by omega
          simp [h1, h2, Ordering.swap]
        · by_cases h2 : y < x
          · simp [h1, h2, Ordering.swap]
          · simp [h1, h2, ih ys]
  eq := by
    intro a
    induction a with
    | nil => intro b h; cases b with
      | nil => rfl
      | cons y ys => simp [jcmp] at h
    | cons x xs ih =>
      intro b h
      cases b with
      | nil => simp [jcmp] at h
      | cons y ys =>
        simp only [jcmp] at h
        by_cases h1 : x < y
        · simp [h1] at h
        · by_cases h2 : y < x
          · simp [h1, h2] at h
          · simp only [h1, h2, if_false] at h
            have : x = y := by omega
            rw [this, ih ys h]
  trans := by
    intro a
    induction a with
    | nil =>
      intro b c h1 h2
      cases b with
      | nil => simp [jcmp] at h1
      | cons y ys => cases c with
        | nil => simp [jcmp] at h2
        | cons z zs => rfl
    | cons x xs ih =>
      intro b c h1 h2
      cases b with
      | nil => simp [jcmp] at h1
      | cons y ys =>
        cases c with
        | nil => simp [jcmp] at h2
        | cons z zs =>
          simp only [jcmp] at h1 h2 ⊢
          by_cases hxy : x < y
          · by_cases hyz : y < z
            · have : x < z := by omega
              simp [this]
            · by_cases hzy : z < y
              · simp [hyz, hzy] at h2
              · have : x < z := by omega
                simp [this]
          · by_cases hyx : y < x
            · simp [hxy, hyx] at h1
            · simp only [hxy, hyx, if_false] at h1
              have hxy' : x = y := by omega
              subst hxy'
              by_cases hyz : x < z
              · simp [hyz]
              · by_cases hzy : z < x
                · simp [hyz, hzy] at h2
                · simp only [hyz, hzy, if_false] at h2 ⊢
                  exact ih ys zs h1 h2

theorem ocmp_lawful : LawfulCmp ocmp where
  swap := by
    intro a b
    cases a with
    | none => cases b <;> rfl
    | some x => cases b with
      | none => rfl
      | some y => exact jcmp_lawful.swap x y
  eq := by
    intro a b h
    cases a <;> cases b <;> simp [ocmp] at h ⊢
    exact jcmp_lawful.eq _ _ h
  trans := by
    intro a b c h1 h2
    cases a <;> cases b <;> cases c <;> simp [ocmp] at h1 h2 ⊢
    exact jcmp_lawful.trans _ _ _ h1 h2

theorem ncmp_cons (a b : Option JStr) (as bs : Names) :
    ncmp (a :: as) (b :: bs) = (match ocmp a b with | .eq => ncmp as bs | o => o) := rfl

theorem ncmp_lawful : LawfulCmp ncmp where
  swap := by
    intro a
    induction a with
    | nil => intro b; cases b <;> rfl
    | cons x xs ih =>
      intro b
      cases b with
      | nil => rfl
      | cons y ys =>
        rw [ncmp_cons, ncmp_cons, ocmp_lawful.swap x y]
        cases ocmp x y <;> simp [Ordering.swap, ih ys]
  eq := by
    intro a
    induction a with
    | nil => intro b h; cases b with
      | nil => rfl
      | cons y ys => simp [ncmp] at h
    | cons x xs ih =>
      intro b h
      cases b with
      | nil => simp [ncmp] at h
      | cons y ys =>
        rw [ncmp_cons] at h
        cases hc : ocmp x y with
        | eq => rw [hc] at h; rw [ocmp_lawful.eq x y hc, ih ys h]
        | lt => rw [hc] at h; simp at h
        | gt => rw [hc] at h; simp at h
  trans := by
    intro a
    induction a with
    | nil =>
      intro b c h1 h2
      cases b with
      | nil => simp [ncmp] at h1
      | cons y ys => cases c with
        | nil => simp [ncmp] at h2
        | cons z zs => rfl
    | cons x xs ih =>
      intro b c h1 h2
      cases b with
      | nil => simp [ncmp] at h1
      | cons y ys =>
        cases c with
        | nil => simp [ncmp] at h2
        | cons z zs =>
          rw [ncmp_cons] at h1 h2 ⊢
          cases hxy : ocmp x y with
          | gt => rw [hxy] at h1; simp at h1
          | lt =>
            cases hyz : ocmp y z with
            | gt => rw [hyz] at h2; simp at h2
            | lt => rw [ocmp_lawful.trans x y z hxy hyz]
            | eq => rw [← ocmp_lawful.eq y z hyz, hxy]
          | eq =>
            rw [hxy] at h1
            have := ocmp_lawful.eq x y hxy
            subst this
            cases hyz : ocmp x z with
            | gt => rw [hyz] at h2; simp at h2
            | lt => rfl
            | eq =>
              rw [hyz] at h2
              exact ih ys zs h1 h2

/-! ## lexicographic pairs -/

/-- `a.cmp(b).then_with(|| c.cmp(d))` -/
def thenCmp {α β : Type} (c1 : α → α → Ordering) (c2 : β → β → Ordering) (a b : α × β) : Ordering :=
  match c1 a.1 b.1 with
  | .eq => c2 a.2 b.2
  | o => o

theorem thenCmp_lawful {α β : Type} {c1 : α → α → Ordering} {c2 : β → β → Ordering} (h1 : LawfulCmp c1)
    (h2 : LawfulCmp c2) : LawfulCmp (thenCmp c1 c2) where
  swap := by
    intro a b
    simp only [thenCmp]
    rw [h1.swap a.1 b.1]
    cases c1 a.1 b.1 <;> simp [Ordering.swap, h2.swap a.2 b.2]
  eq := by
    intro a b h
    simp only [thenCmp] at h
    cases hc : c1 a.1 b.1 with
    | eq => rw [hc] at h; exact Prod.ext (h1.eq _ _ hc) (h2.eq _ _ h)
    | lt => rw [hc] at h; simp at h
    | gt => rw [hc] at h; simp at h
  trans := by
    intro a b c hab hbc
    simp only [thenCmp] at hab hbc ⊢
    cases hxy : c1 a.1 b.1 with
    | gt => rw [hxy] at hab; simp at hab
    | lt =>
      cases hyz : c1 b.1 c.1 with
      | gt => rw [hyz] at hbc; simp at hbc
      | lt => rw [h1.trans _ _ _ hxy hyz]
      | eq => rw [← h1.eq _ _ hyz, hxy]
    | eq =>
      rw [hxy] at hab
      rw [h1.eq _ _ hxy]
      cases hyz : c1 b.1 c.1 with
      | gt => rw [hyz] at hbc; simp at hbc
      | lt => rfl
      | eq =>
        rw [hyz] at hbc
        exact h2.trans _ _ _ hab hbc

def natCmp (a b : Nat) : Ordering := if a < b then .lt else if b < a then .gt else .eq

theorem natCmp_lawful : LawfulCmp natCmp where
  swap := by
    intro a b
    simp only [natCmp]
    by_cases h1 : a < b
    · have : ¬ b < a := by omega
      simp [h1, this, Ordering.swap]
    · by_cases h2 : b < a <;> simp [h1, h2, Ordering.swap]
  eq := by
    intro a b h
    simp only [natCmp] at h
    by_cases h1 : a < b
    · simp [h1] at h
    · by_cases h2 : b < a
      · simp [h1, h2] at h
      · omega
  trans := by
    intro a b c h1 h2
    simp only [natCmp] at h1 h2 ⊢
    have hab : a < b := by
      by_cases h : a < b
      · exact h
      · by_cases h' : b < a <;> simp [h, h'] at h1
    have hbc : b < c := by
      by_cases h : b < c
      · exact h
      · by_cases h' : c < b <;> simp [h, h'] at h2
    have : a < c := by omega
    simp [this]

/-! ## the sort keys of the writer -/

theorem memberLe_eq (an : Names) (ad : JStr) (bn : Names) (bd : JStr) :
    memberLe an ad bn bd = (thenCmp ncmp jcmp (an, ad) (bn, bd) != .gt) := by
  simp only [memberLe, thenCmp]
  cases ncmp an bn <;> rfl

theorem memberCmp_lawful : LawfulCmp (thenCmp ncmp jcmp) := thenCmp_lawful ncmp_lawful jcmp_lawful

theorem paramLe_eq (a b : Nat × Param) :
    paramLe a b = (thenCmp natCmp ncmp (a.2.index, a.2.names) (b.2.index, b.2.names) != .gt) := by
  simp only [paramLe, thenCmp, natCmp]
  by_cases h1 : a.2.index < b.2.index
  · simp [h1]
  · by_cases h2 : b.2.index < a.2.index
    · simp [h1, h2]
    · simp [h1, h2]

theorem paramCmp_lawful : LawfulCmp (thenCmp natCmp ncmp) := thenCmp_lawful natCmp_lawful ncmp_lawful

/-- a Boolean `≤` obtained from a lawful comparison of a sort key -/
structure KeyOrd {α κ : Type} (le : α → α → Bool) (key : α → κ) : Prop where
  total : ∀ a b, le a b = true ∨ le b a = true
  trans : ∀ a b c, le a b = true → le b c = true → le a c = true
  antisymm : ∀ a b, le a b = true → le b a = true → key a = key b
  congr : ∀ a a' b b', key a = key a' → key b = key b' → le a b = le a' b'

theorem keyOrd_of_cmp {α κ : Type} {cmp : κ → κ → Ordering} (h : LawfulCmp cmp) (key : α → κ) (le : α → α → Bool)
    (hle : ∀ a b, le a b = (cmp (key a) (key b) != .gt)) : KeyOrd le key where
  total a b := by rw [hle, hle]; exact h.le_total _ _
  trans a b c := by rw [hle, hle, hle]; exact h.le_trans _ _ _
  antisymm a b := by rw [hle, hle]; exact h.le_antisymm _ _
  congr a a' b b' h1 h2 := by rw [hle, hle, h1, h2]

theorem keyLe_ord {α : Type} : KeyOrd (keyLe (α := α)) Prod.fst :=
  keyOrd_of_cmp jcmp_lawful Prod.fst keyLe (fun _ _ => rfl)

theorem fieldLe_ord : KeyOrd fieldLe (fun e : MemberKey × Field => (e.2.names, e.2.desc)) :=
  keyOrd_of_cmp memberCmp_lawful _ fieldLe (fun _ _ => memberLe_eq _ _ _ _)

theorem methodLe_ord : KeyOrd methodLe (fun e : MemberKey × Method => (e.2.names, e.2.desc)) :=
  keyOrd_of_cmp memberCmp_lawful _ methodLe (fun _ _ => memberLe_eq _ _ _ _)

theorem paramLe_ord : KeyOrd paramLe (fun e : Nat × Param => (e.2.index, e.2.names)) :=
  keyOrd_of_cmp paramCmp_lawful _ paramLe paramLe_eq

/-- sorting is idempotent -/
theorem isort_idem {α κ : Type} {le : α → α → Bool} {key : α → κ} (h : KeyOrd le key) (l : List α) :
    isort le (isort le l) = isort le l :=
  isort_of_pairwise _ (isort_pairwise h.total h.trans l)

end Enigma
