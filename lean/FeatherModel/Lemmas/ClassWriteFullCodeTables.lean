import FeatherModel.Lemmas.ClassWriteFullAnnoBlocks
import FeatherModel.Lemmas.ClassWriteFullCodeResolve

/-!
# C02 (whole writer) — the tables of `write_code` written from the label table: exception table, `LineNumberTable`,
`LocalVariableTable` / `LocalVariableTypeTable`, the type annotations of `Code`

`lp` is `labels.try_get` on the label ids of the tree; `cpos` gives the position of an instruction index and `lab` the
instruction index of a label id: `LpEq` says `lp id = some a → a = cpos (lab id)`.
-/

namespace ClassWriteFull
open PoolWrite (Entry)
open FramePool (Good Le)
open ClassRead ClassRead.Spec

/-- the writer's label look-up agrees with the positions of the layout -/
def LpEq (lp : Nat → Option Nat) (lab : Nat → Nat) (cpos : Nat → Nat) : Prop := ∀ id a, lp id = some a → a = cpos (lab id)

theorem tryGet_inv {lp : Nat → Option Nat} {l a : Nat} (h : tryGet lp l = .ok a) : lp l = some a := opt_eq_ok.mp h

theorem range_inv {lp : Nat → Option Nat} {a b s l : Nat} (h : CodeWrite.range lp a b = .ok (s, l)) :
    ∃ e, lp a = some s ∧ lp b = some e ∧ s ≤ e ∧ l = e - s := by
  unfold CodeWrite.range at h
  split at h
  · cases h
  · rename_i s' hs
    split at h
    · cases h
    · rename_i e he
      split at h
      · cases h
      · have := ok_inj.mp h
        simp only [Prod.mk.injEq] at this
        obtain ⟨rfl, rfl⟩ := this
        exact ⟨e, hs, he, by omega, rfl⟩

/-! ## exception table -/

/-- what a written exception-table row denotes -/
def ExcAt (p : Pool) (lab : Nat → Nat) (e : ExceptionEntry) (l : SException) : Prop :=
  l.start = lab e.start ∧ l.end_ = lab e.end_ ∧ l.handler = lab e.handler ∧ l.catch_ = e.catch_ ∧ l.catchCp < 65536 ∧
    ((e.catch_ = none ∧ l.catchCp = 0) ∨ ∃ c, e.catch_ = some c ∧ ClsAt p l.catchCp c ∧ 1 ≤ l.catchCp)

theorem ExcAt.mono {p q : Pool} (h : Le p q) {lab : Nat → Nat} {e : ExceptionEntry} {l : SException} (a : ExcAt p lab e l) :
    ExcAt q lab e l := by
  obtain ⟨a1, a2, a3, a4, a5, a6⟩ := a
  refine ⟨a1, a2, a3, a4, a5, ?_⟩
  rcases a6 with a6 | ⟨c, hc, hcl, h1⟩
  · exact Or.inl a6
  · exact Or.inr ⟨c, hc, hcl.mono h, h1⟩

theorem writeException_spec {lp : Nat → Option Nat} {lab cpos : Nat → Nat} (hlp : LpEq lp lab cpos) {p p' : Pool}
    {e : ExceptionEntry} {b : Bytes} (hg : Good p) (h : writeException lp p e = .ok (b, p')) :
    Step p p' ∧ ∃ l : SException, b = l.encode cpos ∧ ExcAt p' lab e l := by
  obtain ⟨a, h1, h⟩ := bind_eq_ok.mp h
  obtain ⟨a2, h2, h⟩ := bind_eq_ok.mp h
  obtain ⟨a3, h3, h⟩ := bind_eq_ok.mp h
  obtain ⟨⟨c, p1⟩, h4, h⟩ := bind_eq_ok.mp h
  have := pure_eq_ok.mp h
  cases this
  obtain ⟨s, hc, c2⟩ := putOptional_spec ClsAt (fun p p' a i hg h => putClass_spec' hg h) hg h4
  refine ⟨s, ⟨lab e.start, lab e.end_, lab e.handler, c, e.catch_⟩, ?_, rfl, rfl, rfl, rfl, hc, c2⟩
  simp only [SException.encode]
  rw [hlp _ _ (tryGet_inv h1), hlp _ _ (tryGet_inv h2), hlp _ _ (tryGet_inv h3)]

theorem exception_legal {q : Pool} (hq : Good q) {lab : Nat → Nat} {n : Nat} {e : ExceptionEntry} {l : SException}
    (a : ExcAt q lab e l) (hr : lab e.start < n ∧ lab e.end_ ≤ n ∧ lab e.handler < n)
    (hv : ∀ c, e.catch_ = some c → validClassName c = true) : l.Legal (rpool q) n := by
  obtain ⟨a1, a2, a3, a4, a5, a6⟩ := a
  refine ⟨by rw [a1]; exact hr.1, by rw [a2]; exact hr.2.1, by rw [a3]; exact hr.2.2, a5, ?_⟩
  rcases a6 with ⟨h0, hz⟩ | ⟨c, hc, hcl, h1⟩
  · rw [hz, a4, h0]; exact getOptional_zero _ _
  · rw [a4, hc]; exact getOptional_pos _ _ h1 (getClass_of hq hcl (hv c hc))

/-! ## `LineNumberTable` -/

theorem writeLines_spec {lp : Nat → Option Nat} {lab cpos : Nat → Nat} (hlp : LpEq lp lab cpos) :
    ∀ (ls : List (Nat × Nat)) {p p' : Pool} {b : Bytes}, writeList (writeLine lp) p ls = .ok (b, p') →
      p' = p ∧ b = (ls.map fun e => (lab e.1, e.2)).flatMap (fun e => be16 (cpos e.1) ++ be16 e.2)
  | [], p, p', b, h => by
    obtain ⟨rfl, rfl⟩ := writeList_nil_inv h
    exact ⟨rfl, rfl⟩
  | e :: ls, p, p', b, h => by
    obtain ⟨b1, p1, b2, h1, h2, rfl⟩ := writeList_cons_inv h
    obtain ⟨a, ha, h1⟩ := bind_eq_ok.mp h1
    have := pure_eq_ok.mp h1
    simp only [Prod.mk.injEq] at this
    obtain ⟨rfl, rfl⟩ := this
    obtain ⟨rfl, rfl⟩ := writeLines_spec hlp ls h2
    refine ⟨rfl, ?_⟩
    simp only [List.map_cons, List.flatMap_cons]
    rw [hlp _ _ (tryGet_inv ha)]

/-! ## `LocalVariableTable` / `LocalVariableTypeTable` -/

/-- the descriptor (`sig = false`) / signature (`sig = true`) of an entry -/
def lvText (sig : Bool) (v : Lv) : Option JStr := if sig then v.sig else v.desc

def LvAt (p : Pool) (lab : Nat → Nat) (sig : Bool) (v : Lv) (l : SLv) : Prop :=
  l.start = lab v.start ∧ l.end_ = lab v.end_ ∧ l.name = v.name ∧ lvText sig v = some l.desc ∧ l.index = v.index ∧
    l.nameCp < 65536 ∧ l.descCp < 65536 ∧ Utf8At p l.nameCp v.name ∧ Utf8At p l.descCp l.desc

theorem LvAt.mono {p q : Pool} (h : Le p q) {lab : Nat → Nat} {sig : Bool} {v : Lv} {l : SLv} (a : LvAt p lab sig v l) :
    LvAt q lab sig v l := by
  obtain ⟨a1, a2, a3, a4, a5, a6, a7, a8, a9⟩ := a
  exact ⟨a1, a2, a3, a4, a5, a6, a7, a8.mono h, a9.mono h⟩

/-- the rows of a local-variable table: one row per entry that has the descriptor / signature, in order -/
theorem writeLvs_spec {lp : Nat → Option Nat} {lab cpos : Nat → Nat} (hlp : LpEq lp lab cpos) (sig : Bool) :
    ∀ (vs : List Lv) {p p' : Pool} {b : Bytes}, Good p → writeList (writeLv lp sig) p vs = .ok (b, p') →
      Step p p' ∧ ∃ ls : List SLv, b = ls.flatMap (SLv.encode cpos) ∧
        ls.length = (vs.filter fun v => (lvText sig v).isSome).length ∧
        (∀ x ∈ ls.zip (vs.filter fun v => (lvText sig v).isSome), LvAt p' lab sig x.2 x.1) ∧
        ∀ l ∈ ls, cpos l.start ≤ cpos l.end_
  | [], p, p', b, hg, h => by
    obtain ⟨rfl, rfl⟩ := writeList_nil_inv h
    exact ⟨Step.refl hg, [], rfl, rfl, by simp, by simp⟩
  | v :: vs, p, p', b, hg, h => by
    obtain ⟨b1, p1, b2, h1, h2, rfl⟩ := writeList_cons_inv h
    unfold writeLv at h1
    cases htx : lvText sig v with
    | none =>
      have htx' : (if sig = true then v.sig else v.desc) = none := htx
      rw [htx'] at h1
      have := ok_inj.mp h1
      simp only [Prod.mk.injEq] at this
      obtain ⟨rfl, rfl⟩ := this
      obtain ⟨s, ls, rfl, hl, hr, hm⟩ := writeLvs_spec hlp sig vs hg h2
      refine ⟨s, ls, by simp, ?_, ?_, hm⟩
      · simp [htx, hl]
      · simpa [List.filter_cons, htx] using hr
    | some d =>
      have htx' : (if sig = true then v.sig else v.desc) = some d := htx
      rw [htx'] at h1
      simp only at h1
      obtain ⟨⟨s0, l0⟩, hr0, h1⟩ := bind_eq_ok.mp h1
      obtain ⟨⟨ni, q1⟩, hn, h1⟩ := bind_eq_ok.mp h1
      obtain ⟨⟨di, q2⟩, hd, h1⟩ := bind_eq_ok.mp h1
      have := pure_eq_ok.mp h1
      simp only [Prod.mk.injEq] at this
      obtain ⟨rfl, rfl⟩ := this
      obtain ⟨e0, hs0, he0, hle, rfl⟩ := range_inv hr0
      obtain ⟨s1, a1, hni⟩ := putUtf8_spec hg hn
      obtain ⟨s2, a2, hdi⟩ := putUtf8_spec s1.good hd
      obtain ⟨s3, ls, rfl, hl, hr, hm⟩ := writeLvs_spec hlp sig vs s2.good h2
      have es := hlp _ _ hs0
      have ee := hlp _ _ he0
      refine ⟨s1.trans (s2.trans s3), ⟨lab v.start, lab v.end_, ni, v.name, di, d, v.index⟩ :: ls, ?_, ?_, ?_, ?_⟩
      · simp only [List.flatMap_cons, SLv.encode]
        rw [← es, ← ee]
      · simp [htx, hl]
      · intro x hx
        simp only [List.filter_cons, htx, Option.isSome_some, if_true, List.zip_cons_cons, List.mem_cons] at hx
        rcases hx with rfl | hx
        · exact ⟨rfl, rfl, rfl, htx, rfl, hni, hdi, a1.mono (s2.trans s3).le, a2.mono s3.le⟩
        · exact hr x hx
      · intro l hlm
        rcases List.mem_cons.mp hlm with rfl | hlm
        · simp only; omega
        · exact hm l hlm

theorem lv_legal {q : Pool} (hq : Good q) {lab : Nat → Nat} {n : Nat} {sig : Bool} {v : Lv} {l : SLv}
    (a : LvAt q lab sig v l)
    (hr : lab v.start < n ∧ lab v.start ≤ lab v.end_ ∧ lab v.end_ ≤ n ∧ v.index < 65536 ∧ validUnqualified v.name = true) :
    l.Legal (rpool q) n := by
  obtain ⟨a1, a2, a3, a4, a5, a6, a7, a8, a9⟩ := a
  exact ⟨by rw [a1]; exact hr.1, by rw [a1, a2]; exact hr.2.1, by rw [a2]; exact hr.2.2.1, a6, a7, by rw [a5]; exact hr.2.2.2.1,
    by rw [a3]; exact getUtf8_of hq a8, by rw [a3]; exact hr.2.2.2.2, getUtf8_of hq a9⟩

/-! ## type annotations inside `Code` -/

theorem concatE_ranges {lp : Nat → Option Nat} {lab cpos : Nat → Nat} (hlp : LpEq lp lab cpos) :
    ∀ (tbl : List (Nat × Nat × Nat)) {b : Bytes}, concatE (writeRange lp) tbl = .ok b →
      b = (tbl.map fun e => (lab e.1, lab e.2.1, e.2.2)).flatMap
        (fun e => be16 (cpos e.1) ++ be16 (cpos e.2.1 - cpos e.1) ++ be16 e.2.2)
  | [], b, h => by have := ok_inj.mp h; subst this; rfl
  | e :: tbl, b, h => by
    obtain ⟨b1, h1, h⟩ := bind_eq_ok.mp h
    obtain ⟨b2, h2, h⟩ := bind_eq_ok.mp h
    have := pure_eq_ok.mp h
    subst this
    obtain ⟨⟨s, l⟩, hr, h1⟩ := bind_eq_ok.mp h1
    have := pure_eq_ok.mp h1
    subst this
    obtain ⟨e0, hs0, he0, _, rfl⟩ := range_inv hr
    rw [concatE_ranges hlp tbl h2]
    simp only [List.map_cons, List.flatMap_cons]
    rw [hlp _ _ hs0, hlp _ _ he0]

theorem writeTargetCode_eq {lp : Nat → Option Nat} {lab cpos : Nat → Nat} (hlp : LpEq lp lab cpos) {t : Target} {b : Bytes}
    (h : writeTargetCode lp t = .ok b) : b = encCodeTarget cpos (tgMapL lab t) := by
  cases t with
  | localVar tag tbl =>
    simp only [writeTargetCode] at h
    split at h
    · obtain ⟨c, h1, h⟩ := bind_eq_ok.mp h
      obtain ⟨_, rfl⟩ := cnt16_eq_ok.mp h1
      obtain ⟨bb, h2, h⟩ := bind_eq_ok.mp h
      have := pure_eq_ok.mp h
      subst this
      rw [concatE_ranges hlp tbl h2]
      simp [tgMapL, encCodeTarget]
    · cases h
  | exceptionParam i =>
    have := ok_inj.mp h
    subst this
    rfl
  | offset tag l =>
    simp only [writeTargetCode] at h
    split at h
    · obtain ⟨o, h1, h⟩ := bind_eq_ok.mp h
      have := pure_eq_ok.mp h
      subst this
      simp [tgMapL, encCodeTarget, hlp _ _ (tryGet_inv h1)]
    · cases h
  | offsetArg tag l i =>
    simp only [writeTargetCode] at h
    split at h
    · obtain ⟨o, h1, h⟩ := bind_eq_ok.mp h
      have := pure_eq_ok.mp h
      subst this
      simp [tgMapL, encCodeTarget, hlp _ _ (tryGet_inv h1)]
    · cases h
  | typeParam _ _ | extends_ | implements _ | typeParamBound _ _ _ | field | ret | receiver | formalParam _ | throws _ =>
    cases h

instance (n : Nat) (t : Target) : Decidable (codeTargetOk n t) := by
  cases t <;> simp only [codeTargetOk] <;> infer_instance

/-- type annotations of `Code`: a target admissible inside `Code` whose labels (renamed by `lab`) are instructions, a
well-formed type path, an annotation as in `AnnosOk` -/
def CodeTypeAnnosOk (lab : Nat → Nat) (n : Nat) (as : List TypeAnno) : Prop :=
  ∀ a ∈ as, codeTargetOk n (tgMapL lab a.target) ∧ typePathOk a.path ∧ a.anno.ok ∧ a.anno.depth ≤ 255

instance (lab : Nat → Nat) (n : Nat) (as : List TypeAnno) : Decidable (CodeTypeAnnosOk lab n as) := by
  unfold CodeTypeAnnosOk; infer_instance

theorem codeTypeAnnosAttr_spec {lp : Nat → Option Nat} {lab cpos : Nat → Nat} (hlp : LpEq lp lab cpos) {n : Nat}
    {name : JStr} {as : List TypeAnno} {p p' : Pool} {o : Option Bytes} (hg : Good p)
    (hok : CodeTypeAnnosOk lab n as) (h : typeAnnosAttr (writeTargetCode lp) name as p = .ok (o, p')) :
    Step p p' ∧ ((as = [] ∧ o = none) ∨
      ∃ sas : List SCodeTypeAnno, as ≠ [] ∧ Present o p' name (be16 sas.length ++ sas.flatMap (SCodeTypeAnno.encode cpos)) ∧
        sas.map SCodeTypeAnno.fact = as.map (fun a => { a with target := tgMapL lab a.target }) ∧ sas.length < 65536 ∧
        (be16 sas.length ++ sas.flatMap (SCodeTypeAnno.encode cpos)).length < 4294967296 ∧
        ∀ sa ∈ sas, Sound p' (fun rp => sa.Legal rp n)) := by
  rcases onlyIf_inv h with ⟨hc0, b, hb, rfl⟩ | ⟨hc, rfl, rfl⟩
  · have hne : as ≠ [] := by intro hnil; subst hnil; simp at hc0
    obtain ⟨bb, p1, i, h1, h2, hlen, rfl⟩ := attrBuf_inv hb
    obtain ⟨hl, bb', h3, rfl⟩ := writeSlice16_inv h1
    obtain ⟨s1, sas, rfl, hlen', hr⟩ := writeList_spec' _ (SCodeTypeAnno.encode cpos)
      (fun (a : TypeAnno) => codeTargetOk n (tgMapL lab a.target) ∧ typePathOk a.path ∧ a.anno.ok ∧ a.anno.depth ≤ 255)
      (fun p (a : TypeAnno) (sa : SCodeTypeAnno) => sa.fact = { a with target := tgMapL lab a.target } ∧
        ∀ q, Ext p q → sa.Legal (rpool q) n)
      (fun p p' a l hle hr => ⟨hr.1, fun q hq => hr.2 q (hq.of_le hle)⟩)
      (fun p p' a b hg hP h => by
        obtain ⟨t, ht, h⟩ := bind_eq_ok.mp h
        obtain ⟨tp, htp, h⟩ := bind_eq_ok.mp h
        obtain ⟨⟨ab, p2⟩, ha, h⟩ := bind_eq_ok.mp h
        have := pure_eq_ok.mp h
        cases this
        obtain ⟨s, sa, rfl, hf, hn, hleg⟩ := writeAnnotation_spec a.anno hg hP.2.2.1 ha
        refine ⟨s, ⟨tgMapL lab a.target, a.path, sa⟩, ?_, ?_, ?_⟩
        · simp [SCodeTypeAnno.encode, writeTargetCode_eq hlp ht, writeTypePath_eq htp]
        · simp [SCodeTypeAnno.fact, hf]
        · intro q hq
          exact ⟨hP.1, hP.2.1, hleg q hq, by rw [hn]; exact hP.2.2.2⟩) as p p1 bb' hg hok h3
    obtain ⟨s2, a2, hi⟩ := putUtf8_spec s1.good h2
    refine ⟨s1.trans s2, Or.inr ⟨sas, hne, ⟨i, by rw [hlen'], hi, a2⟩,
      map_eq_of_zip _ sas _ (by simp [hlen']) (fun x hx => ?_), by omega, ?_, ?_⟩⟩
    · rw [List.zip_map_right] at hx
      obtain ⟨y, hy, rfl⟩ := List.mem_map.mp hx
      exact (hr y hy).1
    · rw [hlen']; omega
    · refine forall_of_zip (Q := fun sa => Sound p' (fun rp => SCodeTypeAnno.Legal rp n sa)) hlen' ?_
      intro x hx q hq
      exact (hr x hx).2 q (hq.of_le s2.le)
  · refine ⟨Step.refl hg, Or.inl ⟨?_, rfl⟩⟩
    cases as with
    | nil => rfl
    | cons _ _ => simp at hc

end ClassWriteFull
