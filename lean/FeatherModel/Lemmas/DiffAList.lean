import FeatherModel.Model.DiffSpec

/-!
# Association-list facts used by C04: `lookup` versus `insert`, `swapRemove`, permutations of duplicate-free maps
-/

namespace AList
variable {K V W : Type}

theorem lookup_cons [BEq K] (k k' : K) (v : V) (m : AList K V) :
    lookup k ((k', v) :: m) = if k' == k then some v else lookup k m := rfl

theorem lookup_insert [BEq K] [LawfulBEq K] (k k' : K) (v : V) (m : AList K V) :
    lookup k (insert k' v m) = if k' == k then some v else lookup k m := by
  induction m with
  | nil => simp [insert, lookup]
  | cons e rest ih =>
    obtain ⟨k0, v0⟩ := e
    simp only [insert]
    by_cases h0 : (k0 == k') = true
    · have : k0 = k' := by simpa using h0
      subst this
      simp only [beq_self_eq_true, if_true, lookup]
      by_cases hk : (k0 == k) = true <;> simp [hk]
    · simp only [h0, lookup, Bool.false_eq_true, if_false]
      by_cases hk : (k0 == k) = true
      · have : k0 = k := by simpa using hk
        subst this
        have h1 : (k' == k0) = false := by
          cases h : (k' == k0) with
          | false => rfl
          | true => exact absurd (by simpa using h : k' = k0) (by intro e; subst e; simp at h0)
        simp [h1]
      · simp only [hk, Bool.false_eq_true, if_false]
        exact ih

theorem lookup_eq_none_iff [BEq K] [LawfulBEq K] {k : K} {m : AList K V} :
    lookup k m = none ↔ k ∉ m.keys := by
  induction m with
  | nil => simp [lookup, keys]
  | cons e rest ih =>
    obtain ⟨k0, v0⟩ := e
    simp only [lookup, keys, List.map_cons, List.mem_cons, not_or]
    by_cases hk : (k0 == k) = true
    · have : k0 = k := by simpa using hk
      subst this
      simp
    · simp only [hk, Bool.false_eq_true, if_false]
      have hne : ¬ k = k0 := by intro e; subst e; simp at hk
      rw [ih]
      simp [keys, hne]

theorem mem_of_lookup [BEq K] [LawfulBEq K] {k : K} {v : V} {m : AList K V} (h : lookup k m = some v) :
    (k, v) ∈ m := by
  induction m with
  | nil => simp [lookup] at h
  | cons e rest ih =>
    obtain ⟨k0, v0⟩ := e
    simp only [lookup] at h
    by_cases hk : (k0 == k) = true
    · have : k0 = k := by simpa using hk
      subst this
      simp only [beq_self_eq_true, if_true, Option.some.injEq] at h
      subst h
      exact List.mem_cons_self
    · simp only [hk, Bool.false_eq_true, if_false] at h
      exact List.mem_cons_of_mem _ (ih h)

theorem lookup_of_mem [BEq K] [LawfulBEq K] {k : K} {v : V} {m : AList K V} (hn : m.keys.Nodup) (h : (k, v) ∈ m) :
    lookup k m = some v := by
  induction m with
  | nil => simp at h
  | cons e rest ih =>
    obtain ⟨k0, v0⟩ := e
    simp only [keys, List.map_cons, List.nodup_cons] at hn
    simp only [lookup]
    rcases List.mem_cons.mp h with h | h
    · cases h; simp
    · have hne : (k0 == k) = false := by
        cases hh : (k0 == k) with
        | false => rfl
        | true =>
          have : k0 = k := by simpa using hh
          subst this
          exact absurd (List.mem_map.mpr ⟨(k0, v), h, rfl⟩) hn.1
      simp only [hne, Bool.false_eq_true, if_false]
      exact ih hn.2 h

theorem lookup_some_iff_mem [BEq K] [LawfulBEq K] {k : K} {v : V} {m : AList K V} (hn : m.keys.Nodup) :
    lookup k m = some v ↔ (k, v) ∈ m := ⟨mem_of_lookup, lookup_of_mem hn⟩

/-- on duplicate-free maps `lookup` does not see the order -/
theorem lookup_perm [BEq K] [LawfulBEq K] {m1 m2 : AList K V} (hp : List.Perm m1 m2) (hn : m1.keys.Nodup) (k : K) :
    lookup k m1 = lookup k m2 := by
  have hn2 : m2.keys.Nodup := (List.Perm.nodup_iff (hp.map Prod.fst)).mp hn
  cases h1 : lookup k m1 with
  | some v =>
    have := (lookup_some_iff_mem hn).mp h1
    exact ((lookup_some_iff_mem hn2).mpr (hp.mem_iff.mp this)).symm
  | none =>
    cases h2 : lookup k m2 with
    | none => rfl
    | some v =>
      have := (lookup_some_iff_mem hn2).mp h2
      have := (lookup_some_iff_mem hn).mpr (hp.mem_iff.mpr this)
      rw [h1] at this
      cases this

theorem swapHead_perm (rest : AList K V) : List.Perm (swapHead rest) rest := by
  unfold swapHead
  cases h : rest.getLast? with
  | none =>
    have : rest = [] := List.getLast?_eq_none_iff.mp h
    subst this
    exact List.Perm.refl _
  | some l =>
    obtain ⟨ys, hys⟩ := List.getLast?_eq_some_iff.mp h
    subst hys
    simp only [List.dropLast_concat]
    exact (List.perm_append_comm (l₁ := ys) (l₂ := [l])).symm

/-- `swap_remove` removes one entry with the key and permutes the rest -/
theorem swapRemove_some [BEq K] [LawfulBEq K] {k : K} {m m' : AList K V} {v : V}
    (h : swapRemove k m = some (v, m')) : lookup k m = some v ∧ List.Perm m ((k, v) :: m') := by
  induction m generalizing m' with
  | nil => simp [swapRemove] at h
  | cons e rest ih =>
    obtain ⟨k0, v0⟩ := e
    simp only [swapRemove] at h
    by_cases hk : (k0 == k) = true
    · have : k0 = k := by simpa using hk
      subst this
      simp only [beq_self_eq_true, if_true, Option.some.injEq, Prod.mk.injEq] at h
      obtain ⟨hv, hm⟩ := h
      subst hv; subst hm
      refine ⟨by simp [lookup], ?_⟩
      exact List.Perm.cons _ (swapHead_perm rest).symm
    · simp only [hk, Bool.false_eq_true, if_false] at h
      cases hr : swapRemove k rest with
      | none => rw [hr] at h; simp at h
      | some q =>
        obtain ⟨v1, r1⟩ := q
        rw [hr] at h
        simp only [Option.some.injEq, Prod.mk.injEq] at h
        obtain ⟨hv, hm⟩ := h
        subst hv; subst hm
        obtain ⟨hl, hp⟩ := ih hr
        refine ⟨by simp [lookup, hk, hl], ?_⟩
        exact (List.Perm.cons _ hp).trans (List.Perm.swap _ _ _)

theorem swapRemove_none [BEq K] {k : K} {m : AList K V} (h : swapRemove k m = none) : lookup k m = none := by
  induction m with
  | nil => rfl
  | cons e rest ih =>
    obtain ⟨k0, v0⟩ := e
    simp only [swapRemove] at h
    by_cases hk : (k0 == k) = true
    · simp [hk] at h
    · simp only [hk, Bool.false_eq_true, if_false] at h
      cases hr : swapRemove k rest with
      | none => simp only [lookup, hk, Bool.false_eq_true, if_false]; exact ih hr
      | some q => rw [hr] at h; simp at h

/-- what is left after `swap_remove` on a duplicate-free map: duplicate-free, without the key, otherwise unchanged -/
theorem swapRemove_rest [BEq K] [LawfulBEq K] {k : K} {m m' : AList K V} {v : V}
    (h : swapRemove k m = some (v, m')) (hn : m.keys.Nodup) :
    m'.keys.Nodup ∧ lookup k m' = none ∧ ∀ k', k' ≠ k → lookup k' m' = lookup k' m := by
  obtain ⟨_, hp⟩ := swapRemove_some h
  have hn2 : (keys ((k, v) :: m')).Nodup := (List.Perm.nodup_iff (hp.map Prod.fst)).mp hn
  simp only [keys, List.map_cons, List.nodup_cons] at hn2
  refine ⟨hn2.2, lookup_eq_none_iff.mpr hn2.1, ?_⟩
  intro k' hne
  rw [lookup_perm hp hn k']
  have : (k == k') = false := by
    cases hh : (k == k') with
    | false => rfl
    | true => exact absurd (by simpa using hh : k = k').symm hne
  simp [lookup, this]

end AList
