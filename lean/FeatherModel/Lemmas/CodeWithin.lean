import FeatherModel.Lemmas.CodePatch

/-!
# The space reserved for an unwritten label lies inside the chunk of its instruction
-/

namespace CodeWrite

theorem within_nil (lo hi : Nat) : Within lo hi [] := by intro u hu; cases hu

theorem within_append {lo hi : Nat} {xs ys : List Unwritten} (hx : Within lo hi xs) (hy : Within lo hi ys) :
    Within lo hi (xs ++ ys) := by
  intro u hu
  rcases List.mem_append.mp hu with h | h
  · exact hx u h
  · exact hy u h

theorem within_mono {lo hi lo' hi' : Nat} {xs : List Unwritten} (h : Within lo hi xs) (h1 : lo' ≤ lo) (h2 : hi ≤ hi') :
    Within lo' hi' xs := by
  intro u hu
  obtain ⟨a, b⟩ := h u hu
  exact ⟨by omega, by omega⟩

theorem swLabel_len (lbl : Nat → Option Nat) (p k wp t : Nat) : (swLabel lbl p k wp t).1.length = 4 := by
  unfold swLabel; cases lbl t <;> rfl

theorem swLabel_within (lbl : Nat → Option Nat) (p k wp t : Nat) : Within wp (wp + 4) (swLabel lbl p k wp t).2 := by
  unfold swLabel
  cases lbl t with
  | some tp => exact within_nil _ _
  | none =>
    intro u hu
    simp at hu
    subst hu
    simp [Unwritten.width]

theorem swTable_len (lbl : Nat → Option Nat) (p k : Nat) (ts : List Nat) :
    ∀ wp, (swTable lbl p k wp ts).1.length = 4 * ts.length := by
  induction ts with
  | nil => intro wp; rfl
  | cons t ts ih => intro wp; simp only [swTable, List.length_append, swLabel_len, ih, List.length_cons]; omega

theorem swTable_within (lbl : Nat → Option Nat) (p k : Nat) (ts : List Nat) :
    ∀ wp, Within wp (wp + 4 * ts.length) (swTable lbl p k wp ts).2 := by
  induction ts with
  | nil => intro wp; exact within_nil _ _
  | cons t ts ih =>
    intro wp
    simp only [swTable]
    apply within_append
    · exact within_mono (swLabel_within lbl p k wp t) (Nat.le_refl _) (by simp; omega)
    · exact within_mono (ih (wp + 4)) (by omega) (by simp; omega)

theorem swPairs_len (lbl : Nat → Option Nat) (p k : Nat) (ps : List (Int × Nat)) :
    ∀ wp, (swPairs lbl p k wp ps).1.length = 8 * ps.length := by
  induction ps with
  | nil => intro wp; rfl
  | cons t ts ih =>
    intro wp
    simp only [swPairs, List.length_append, swLabel_len, ih, List.length_cons]
    simp [i32b, u32b]; omega

theorem swPairs_within (lbl : Nat → Option Nat) (p k : Nat) (ps : List (Int × Nat)) :
    ∀ wp, Within wp (wp + 8 * ps.length) (swPairs lbl p k wp ps).2 := by
  induction ps with
  | nil => intro wp; exact within_nil _ _
  | cons t ts ih =>
    intro wp
    simp only [swPairs]
    apply within_append
    · exact within_mono (swLabel_within lbl p k (wp + 4) t.2) (by omega) (by simp; omega)
    · exact within_mono (ih (wp + 8)) (by omega) (by simp; omega)

theorem encInsn_within {isWide : Bool} {lbl : Nat → Option Nat} {p k : Nat} {i : Insn} {r : Bytes × List Unwritten}
    (h : encInsn isWide lbl p k i = .ok r) : Within p (p + r.1.length) r.2 := by
  cases i with
  | ifc c t =>
    simp only [encInsn, encIf] at h
    split at h
    · split at h
      · cases h; exact within_nil _ _
      · split at h
        · cases h
        · cases h; exact within_nil _ _
    · split at h
      · split at h
        · cases h
        · cases h
          intro u hu; simp at hu; subst hu
          simp [Unwritten.width, i16b, u16b, i32b, u32b]
      · cases h
        intro u hu; simp at hu; subst hu
        simp [Unwritten.width, i16b, u16b]
  | goto t =>
    simp only [encInsn, encGoto] at h
    split at h
    · split at h <;> (cases h; exact within_nil _ _)
    · split at h
      · cases h
        intro u hu; simp at hu; subst hu
        simp [Unwritten.width, i32b, u32b]
      · cases h
        intro u hu; simp at hu; subst hu
        simp [Unwritten.width, i16b, u16b]
  | jsr t =>
    simp only [encInsn, encGoto] at h
    split at h
    · split at h <;> (cases h; exact within_nil _ _)
    · split at h
      · cases h
        intro u hu; simp at hu; subst hu
        simp [Unwritten.width, i32b, u32b]
      · cases h
        intro u hu; simp at hu; subst hu
        simp [Unwritten.width, i16b, u16b]
  | tableswitch d lo hi tb =>
    simp only [encInsn, encTableSwitch] at h
    split at h
    · cases h
    · split at h
      · cases h
      · split at h
        · cases h
        · cases h
          apply within_append
          · exact within_mono (swLabel_within lbl p k (p + 1 + padLen p) d) (by omega)
              (by simp [swLabel_len, swTable_len, i32b, u32b]; omega)
          · exact within_mono (swTable_within lbl p k tb (p + 1 + padLen p + 12)) (by omega)
              (by simp [swLabel_len, swTable_len, i32b, u32b]; omega)
  | lookupswitch d ps =>
    simp only [encInsn, encLookupSwitch] at h
    split at h
    · cases h
    · cases h
      apply within_append
      · exact within_mono (swLabel_within lbl p k (p + 1 + padLen p) d) (by omega)
          (by simp [swLabel_len, swPairs_len, i32b, u32b]; omega)
      · exact within_mono (swPairs_within lbl p k ps (p + 1 + padLen p + 8)) (by omega)
          (by simp [swLabel_len, swPairs_len, i32b, u32b]; omega)
  | invokeinterface idx desc =>
    simp only [encInsn] at h
    split at h
    · cases h
    · cases h; exact within_nil _ _
  | _ => simp only [encInsn] at h; cases h; exact within_nil _ _

end CodeWrite
