import FeatherModel.Lemmas.EnigmaLines

/-!
# C12, layer 3: the reader's stack machine on the blocks of a written class (comments, parameters, fields, methods)
`Settle d s s0`: the state `s` has loops open that are at least `d` deep, and ending the ones deeper than `d` gives `s0`.
Every block lemma has the shape: from a state that settles to the state in front of the block, running the block gives a
state that settles to the state after the block.
-/

namespace Enigma

theorem run_append (a b : List ELine) : ∀ s : St, run (a ++ b) s = (run a s).bind (run b) := by
  induction a with
  | nil => intro s; rfl
  | cons l a ih =>
    intro s
    simp only [List.cons_append, run]
    cases step s l with
    | none => rfl
    | some s' => exact ih s'

theorem run_cons (l : ELine) (ls : List ELine) (s : St) : run (l :: ls) s = (step s l).bind (run ls) := by
  simp only [run]
  cases step s l <;> rfl

/-! ## ending loops -/

def Settle (d : Nat) (s s0 : St) : Prop := d ≤ s.depth ∧ unwindTo d s = some s0

theorem Settle.refl (s : St) : Settle s.depth s s := ⟨Nat.le_refl _, by simp [unwindTo]⟩

theorem Settle.of_depth {s : St} {d : Nat} (h : s.depth = d) : Settle d s s := h ▸ Settle.refl s

theorem step_of_settle {d : Nat} {s s0 : St} {l : ELine} (h : Settle d s s0) (hl : l.idents = d) :
    step s l = handle s0 l := by
  subst hl
  unfold step
  have : ¬ s.depth < l.idents := by have := h.1; omega
  simp only [this, if_false, h.2]

theorem popFrames_short {t : Nat} {st : List Frame} (cs : AList JStr Class) (h : st.length ≤ t) :
    popFrames t st cs = some (st, cs) := by
  cases st with
  | nil => rfl
  | cons fr rest =>
    have : ¬ t < rest.length + 1 := by simp only [List.length_cons] at h; omega
    simp only [popFrames, this, if_false]

theorem popFrames_length {t : Nat} : ∀ {st : List Frame} {cs : AList JStr Class} {st1 : List Frame} {cs1 : AList JStr Class},
    popFrames t st cs = some (st1, cs1) → t ≤ st.length → st1.length = t
  | [], cs, st1, cs1, h, ht => by
    simp only [popFrames, Option.some.injEq, Prod.mk.injEq] at h
    obtain ⟨rfl, _⟩ := h
    simp only [List.length_nil] at ht ⊢; omega
  | fr :: rest, cs, st1, cs1, h, ht => by
    simp only [popFrames] at h
    split at h
    · rename_i hlt
      cases hi : AList.insertNew fr.key fr.cls cs with
      | none => rw [hi] at h; simp at h
      | some cs' =>
        rw [hi] at h
        exact popFrames_length h (by omega)
    · rename_i hlt
      simp only [Option.some.injEq, Prod.mk.injEq] at h
      obtain ⟨rfl, _⟩ := h
      simp only [List.length_cons] at ht ⊢; omega

theorem popFrames_comp {d d' : Nat} (hdd : d ≤ d') : ∀ {st : List Frame} {cs : AList JStr Class} {st1 : List Frame}
    {cs1 : AList JStr Class}, popFrames d' st cs = some (st1, cs1) → popFrames d st cs = popFrames d st1 cs1
  | [], cs, st1, cs1, h => by
    simp only [popFrames, Option.some.injEq, Prod.mk.injEq] at h
    obtain ⟨rfl, rfl⟩ := h
    rfl
  | fr :: rest, cs, st1, cs1, h => by
    simp only [popFrames] at h
    split at h
    · rename_i hlt
      have hlt' : d < rest.length + 1 := by omega
      cases hi : AList.insertNew fr.key fr.cls cs with
      | none => rw [hi] at h; simp at h
      | some cs' =>
        rw [hi] at h
        simp only [popFrames, hlt', if_true, hi]
        exact popFrames_comp hdd h
    · simp only [Option.some.injEq, Prod.mk.injEq] at h
      obtain ⟨rfl, rfl⟩ := h
      rfl

theorem closeParam_idem (m : Mem) : closeParam (closeParam m) = closeParam m := by
  cases m with
  | idle => rfl
  | field k f => rfl
  | method k m p => cases p <;> rfl

theorem closeMem_stack_length (s : St) : (closeMem s).stack.length = s.stack.length := by
  unfold closeMem
  split <;> simp_all

theorem mem_depth_two {m : Mem} (h : 2 ≤ m.depth) : ∃ k me p, m = .method k me (some p) := by
  cases m with
  | idle => simp [Mem.depth] at h
  | field k f => simp [Mem.depth] at h
  | method k me p =>
    cases p with
    | none => simp [Mem.depth] at h
    | some p => exact ⟨k, me, p, rfl⟩

theorem Mem.depth_le (m : Mem) : m.depth ≤ 2 := by
  cases m with
  | idle => simp [Mem.depth]
  | field k f => simp [Mem.depth]
  | method k me p => cases p <;> simp [Mem.depth]

/-- ending loops in two stages is ending them at once -/
theorem Settle.trans {d d' : Nat} {s s1 s0 : St} (hdd : d ≤ d') (h1 : Settle d' s s1) (h2 : Settle d s1 s0) :
    Settle d s s0 := by
  obtain ⟨hd1, hu1⟩ := h1
  obtain ⟨hd2, hu2⟩ := h2
  refine ⟨by omega, ?_⟩
  have hu1' := hu1
  unfold unwindTo at hu1
  split at hu1
  · simp only [Option.some.injEq] at hu1
    subst hu1; exact hu2
  · rename_i hnd
    split at hu1
    · rename_i hl
      -- only a parameter loop was ended
      simp only [Option.some.injEq] at hu1
      have hm : 2 ≤ s.mem.depth := by simp only [St.depth] at hnd; omega
      obtain ⟨k, me, p, hmem⟩ := mem_depth_two hm
      have hd'eq : d' = s.stack.length + 1 := by
        simp only [St.depth, hmem, Mem.depth] at hnd; omega
      subst hu1
      by_cases hdl : s.stack.length + 1 ≤ d
      · have : d = d' := by omega
        subst this
        have hs1 : ({ s with mem := closeParam s.mem } : St).depth ≤ d := by
          simp only [St.depth, hmem, closeParam, Mem.depth]; omega
        simp only [unwindTo, hs1, if_true, Option.some.injEq] at hu2
        rw [← hu2]; exact hu1'
      · have hs1 : ¬ ({ s with mem := closeParam s.mem } : St).depth ≤ d := by
          simp only [St.depth, hmem, closeParam, Mem.depth]; omega
        have hs : ¬ s.depth ≤ d := by omega
        simp only [unwindTo, hs1, if_false, hdl] at hu2
        simp only [unwindTo, hs, if_false, hdl]
        have hcm : closeMem { s with mem := closeParam s.mem } = closeMem s := by
          simp only [closeMem, closeParam_idem]
        rw [hcm] at hu2
        exact hu2
    · rename_i hl
      -- member loops and `CLASS` loops were ended
      cases hp : popFrames d' (closeMem s).stack (closeMem s).classes with
      | none => simp only [hp] at hu1; exact absurd hu1 (by simp)
      | some r =>
        obtain ⟨st1, cs1⟩ := r
        simp only [hp, Option.some.injEq] at hu1
        subst hu1
        have hlen : st1.length = d' := popFrames_length hp (by rw [closeMem_stack_length]; omega)
        by_cases hdl : d' ≤ d
        · have : d = d' := by omega
          subst this
          have hs1 : (⟨cs1, st1, .idle⟩ : St).depth ≤ d := by simp only [St.depth, Mem.depth]; omega
          simp only [unwindTo, hs1, if_true, Option.some.injEq] at hu2
          rw [← hu2]; exact hu1'
        · have hs1 : ¬ (⟨cs1, st1, .idle⟩ : St).depth ≤ d := by simp only [St.depth, Mem.depth]; omega
          have hs1' : ¬ st1.length + 1 ≤ d := by omega
          have hs : ¬ s.depth ≤ d := by omega
          have hs' : ¬ s.stack.length + 1 ≤ d := by omega
          simp only [unwindTo, hs1, if_false, hs1'] at hu2
          simp only [unwindTo, hs, if_false, hs']
          have hcm : closeMem (⟨cs1, st1, .idle⟩ : St) = ⟨cs1, st1, .idle⟩ := by
            cases st1 <;> rfl
          rw [hcm] at hu2
          rw [popFrames_comp (by omega) hp]
          exact hu2

/-! ## the four kinds of pending loops -/

theorem settle_param (cs : AList JStr Class) (st : List Frame) (k : MemberKey) (m : Method) (p : Nat × Param) :
    Settle (st.length + 1) ⟨cs, st, .method k m (some p)⟩ ⟨cs, st, .method k { m with params := m.params ++ [p] } none⟩ := by
  constructor
  · show st.length + 1 ≤ st.length + 2
    omega
  · simp [unwindTo, St.depth, Mem.depth, closeParam]

theorem settle_field (cs : AList JStr Class) (fr : Frame) (rest : List Frame) (k : MemberKey) (f : Field) :
    Settle (rest.length + 1) ⟨cs, fr :: rest, .field k f⟩
      ⟨cs, { fr with cls := { fr.cls with fields := fr.cls.fields ++ [(k, f)] } } :: rest, .idle⟩ := by
  have h1 : ¬ (rest.length + 1 ≤ rest.length) := by omega
  constructor
  · show rest.length + 1 ≤ rest.length + 1 + 1
    omega
  · simp [unwindTo, St.depth, Mem.depth, closeMem, closeParam, popFrames, h1]

theorem settle_method (cs : AList JStr Class) (fr : Frame) (rest : List Frame) (k : MemberKey) (m : Method) :
    Settle (rest.length + 1) ⟨cs, fr :: rest, .method k m none⟩
      ⟨cs, { fr with cls := { fr.cls with methods := fr.cls.methods ++ [(k, m)] } } :: rest, .idle⟩ := by
  have h1 : ¬ (rest.length + 1 ≤ rest.length) := by omega
  constructor
  · show rest.length + 1 ≤ rest.length + 1 + 1
    omega
  · simp [unwindTo, St.depth, Mem.depth, closeMem, closeParam, popFrames, h1]

theorem settle_class (cs : AList JStr Class) (fr : Frame) (st : List Frame) (h : AList.contains fr.key cs = false) :
    Settle st.length ⟨cs, fr :: st, .idle⟩ ⟨cs ++ [(fr.key, fr.cls)], st, .idle⟩ := by
  refine ⟨by show st.length ≤ st.length + 1 + 0; omega, ?_⟩
  have h1 : ¬ (st.length + 1 + 0 ≤ st.length) := by omega
  have h2 : ¬ (st.length + 1 + 1 ≤ st.length) := by omega
  simp only [unwindTo, St.depth, Mem.depth, List.length_cons, h1, h2, if_false, closeMem, closeParam, popFrames,
    Nat.lt_succ_self, if_true, AList.insertNew, h, Bool.false_eq_true]
  rw [popFrames_short _ (Nat.le_refl _)]

/-! ## `COMMENT` lines -/

/-- a family of states that differ in one javadoc slot, all at depth `n`, where `COMMENT` lines go into that slot -/
theorem run_comments (mk : Option JStr → St) (n : Nat) (hdepth : ∀ doc, (mk doc).depth = n)
    (hh : ∀ doc l, l.first = kwCOMMENT → handle (mk doc) l = some (mk (insertComment doc l))) :
    ∀ (ls : List ELine) (doc : Option JStr), (∀ l ∈ ls, l.idents = n ∧ l.first = kwCOMMENT) →
      run ls (mk doc) = some (mk (ls.foldl insertComment doc))
  | [], doc, _ => rfl
  | l :: ls, doc, h => by
    obtain ⟨h1, h2⟩ := h l List.mem_cons_self
    rw [run_cons, step_of_settle (Settle.of_depth (hdepth doc)) h1, hh doc l h2]
    simp only [Option.bind_some, List.foldl_cons]
    exact run_comments mk n hdepth hh ls _ (fun x hx => h x (List.mem_cons_of_mem _ hx))

theorem commentEL_block (n : Nat) (d : Option JStr) : ∀ l ∈ commentEL n d, l.idents = n ∧ l.first = kwCOMMENT := by
  cases d with
  | none => intro l hl; simp [commentEL] at hl
  | some d =>
    intro l hl
    simp only [commentEL, List.mem_map] at hl
    obtain ⟨x, _, rfl⟩ := hl
    exact ⟨rfl, rfl⟩

theorem joinSp_splitOn {l : Text} (h : DocLine l) : joinSp (splitOn isJavaWs l) = l := by
  rw [joinSp_eq, joinWith_splitOn SP isJavaWs l h.ws]

/-- the comment escaping round trip: the `COMMENT` lines of a javadoc are put together to the javadoc -/
theorem foldl_commentEL (n : Nat) (d : Option JStr) (h : docOk d = true) :
    (commentEL n d).foldl insertComment none = d := by
  cases d with
  | none => rfl
  | some d =>
    have gen : ∀ (ps : List Text) (acc : JStr), (∀ p ∈ ps, DocLine p) →
        (ps.map fun l => ({ idents := n, first := kwCOMMENT, fields := splitOn isJavaWs l } : ELine)).foldl insertComment (some acc) =
          some (acc ++ ps.flatMap (LF :: ·)) := by
      intro ps
      induction ps with
      | nil => intro acc _; simp
      | cons p ps ih =>
        intro acc hp
        simp only [List.map_cons, List.foldl_cons, insertComment, joinSp_splitOn (hp p List.mem_cons_self)]
        rw [ih _ (fun q hq => hp q (List.mem_cons_of_mem _ hq))]
        simp
    have hj := joinWith_splitOn LF (· == LF) d (fun c _ hc => by simpa using hc)
    simp only [commentEL]
    cases hs : splitOn (· == LF) d with
    | nil => exact absurd hs (splitOn_ne_nil _ d)
    | cons p ps =>
      have hdl : ∀ q ∈ p :: ps, DocLine q := fun q hq => docOk_docLine h (by rw [hs]; exact hq)
      simp only [List.map_cons, List.foldl_cons, insertComment, joinSp_splitOn (hdl p List.mem_cons_self)]
      rw [gen ps p (fun q hq => hdl q (List.mem_cons_of_mem _ hq))]
      rw [hs] at hj
      simp only [joinWith] at hj
      rw [hj]

/-- the `COMMENT` block of a javadoc, read into an empty slot -/
theorem run_commentEL (mk : Option JStr → St) (n : Nat) (hdepth : ∀ doc, (mk doc).depth = n)
    (hh : ∀ doc l, l.first = kwCOMMENT → handle (mk doc) l = some (mk (insertComment doc l)))
    (d : Option JStr) (h : docOk d = true) : run (commentEL n d) (mk none) = some (mk d) := by
  rw [run_comments mk n hdepth hh _ none (commentEL_block n d), foldl_commentEL n d h]

end Enigma
