import FeatherModel.Lemmas.RawReadWrite

/-! C20: `read (write v ++ r) = (v, r)` on `fitsV`, for every layout, both reader modes (main induction). -/

namespace RawLayout

theorem nodeAgrees_of (env : Env) (id k : Nat) (body : Body) (vs : List Val) (t1 t2 : List Nat)
    (tag : Option (TExpr × Prim × Nat))
    (h1 : constVals (len32 (lenV env (.ref id) (.node k vs))) (mkCtx body.fields vs) body.pre = some t1)
    (h2 : constVals (len32 (lenV env (.ref id) (.node k vs))) (mkCtx body.fields vs) (allPost body.fields) = some t2)
    (h3 : match tag with
      | none => True
      | some (e, p, t) => ∃ n, evalW e.bits (len32 (lenV env (.ref id) (.node k vs))) (mkCtx body.fields vs) e.e = some n ∧
          n % p.bound = t) :
    nodeAgrees env id k body tag vs (t1 ++ t2) = true := by
  simp only [nodeAgrees, constVals_append _ _ _ _ _ _ h1 h2, beq_self_eq_true, Bool.true_and]
  match tag, h3 with
  | none, _ => rfl
  | some (e, p, t), ⟨n, hn, ht⟩ => simp [hn, ht]

theorem readBody_write (strict : Bool) (env : Env) (fuel id k : Nat) (body : Body) (fs : List Val) (pool : Pool)
    (binds b1 : Binds) (a w r : Bytes) (tag : Option (TExpr × Prim × Nat))
    (hall : ∀ v ∈ fs, RWOk strict env v) (hd : depthAll fs ≤ fuel)
    (hcb : constsBinds (len32 (lenV env (.ref id) (.node k fs))) (mkCtx body.fields fs) binds body.pre = some b1)
    (hf : fitsFields env (len32 (lenV env (.ref id) (.node k fs))) (mkCtx body.fields fs) pool b1 body.fields fs = true)
    (ha : writeConsts (len32 (lenV env (.ref id) (.node k fs))) (mkCtx body.fields fs) body.pre = some a)
    (hw : writeFields env (len32 (lenV env (.ref id) (.node k fs))) (mkCtx body.fields fs) body.fields fs = some w)
    (htag : match tag with
      | none => True
      | some (e, p, t) => ∃ n, evalW e.bits (len32 (lenV env (.ref id) (.node k fs))) (mkCtx body.fields fs) e.e = some n ∧
          n % p.bound = t) :
    readBody strict env id tag (readG strict env fuel) pool binds k body (a ++ (w ++ r)) = .ok (.node k fs, r) := by
  obtain ⟨t1, ht1, hr1⟩ := readConsts_write _ _ body.pre binds b1 a (w ++ r) hcb ha
  obtain ⟨t2, ht2, hr2⟩ := readFields_write strict env fuel _ _ body.fields fs pool b1 w r hall hd hf hw
  simp only [readBody, hr1, Res.bind_ok, hr2, nodeAgrees_of env id k body fs t1 t2 tag ht1 ht2 htag]
  simp

theorem readTy_write (strict : Bool) (env : Env) : ∀ v, RWOk strict env v := by
  intro v
  induction v using Val.ind with
  | hnum n =>
    intro fuel ty pool binds b r _ hf hw
    cases ty <;> simp [writeV] at hw
    obtain ⟨hlt, rfl⟩ := hw
    simp [readTy, takeBE_be _ _ _ hlt]
  | hlist vs ih =>
    intro fuel ty pool binds b r hd hf hw
    simp only [depthV] at hd
    cases ty with
    | prim p => simp [writeV] at hw
    | ref id => simp [writeV] at hw
    | vecCnt c el =>
      simp only [writeV] at hw
      split at hw
      · rename_i w hw'
        simp at hw; subst hw
        simp only [fitsV, Bool.and_eq_true, decide_eq_true_eq] at hf
        obtain ⟨hlen, hfa⟩ := hf
        have hel : ∀ v ∈ vs, ∀ a r', writeV env el v = some a →
            readTy (readG strict env fuel) pool binds el (a ++ r') = .ok (v, r') :=
          fun v hv a r' ha => ih v hv fuel el pool binds a r' (depthAll_le hd v hv) (fitsAll_mem hfa v hv) ha
        simp only [readTy, List.append_assoc, Nat.mod_eq_of_lt hlen, takeBE_be _ _ _ hlen,
          readN_writeAll env _ el vs w r hel hw', Res.bind_ok]
      · cases hw
    | vecLen e el =>
      simp only [writeV] at hw
      simp only [fitsV, Bool.and_eq_true, beq_iff_eq] at hf
      obtain ⟨hlen, hfa⟩ := hf
      have hel : ∀ v ∈ vs, ∀ a r', writeV env el v = some a →
          readTy (readG strict env fuel) pool binds el (a ++ r') = .ok (v, r') :=
        fun v hv a r' ha => ih v hv fuel el pool binds a r' (depthAll_le hd v hv) (fitsAll_mem hfa v hv) ha
      simp only [readTy, hlen, readN_writeAll env _ el vs b r hel hw, Res.bind_ok]
    | vecSlots e wd el =>
      simp only [writeV] at hw
      simp only [fitsV, Bool.and_eq_true, beq_iff_eq] at hf
      obtain ⟨hlen, hfa⟩ := hf
      have hel : ∀ v ∈ vs, ∀ a r', writeV env el v = some a →
          readTy (readG strict env fuel) pool binds el (a ++ r') = .ok (v, r') :=
        fun v hv a r' ha => ih v hv fuel el pool binds a r' (depthAll_le hd v hv) (fitsAll_mem hfa v hv) ha
      simp only [readTy, hlen, readSlots_writeAll env wd _ el vs b r hel hw, Res.bind_ok]
  | hnode k fs ih =>
    intro fuel ty pool binds b r hd hf hw
    simp only [depthV] at hd
    cases ty with
    | prim p => simp [writeV] at hw
    | vecCnt c el => simp [writeV] at hw
    | vecLen e el => simp [writeV] at hw
    | vecSlots e wd el => simp [writeV] at hw
    | ref id =>
      cases fuel with
      | zero => omega
      | succ fuel =>
        have hd' : depthAll fs ≤ fuel := by omega
        simp only [writeV] at hw
        simp only [fitsV] at hf
        simp only [readTy, readG, readDef]
        split at hw
        · -- struct
          rename_i nm body hdef
          simp only [hdef] at hf ⊢
          split at hw
          · rename_i hk
            subst hk
            split at hw
            · rename_i a w ha hw'
              simp at hw; subst hw
              simp only [beq_self_eq_true, Bool.true_and] at hf
              split at hf
              · rename_i b1 hcb
                simpa using readBody_write strict env fuel id 0 body fs pool [] b1 a w r none ih hd' hcb hf ha hw' trivial
              · cases hf
            · cases hw
          · cases hw
        · -- enum
          rename_i nm tn tagTy variants fb hdef
          simp only [hdef] at hf ⊢
          split at hw
          · rename_i var hv
            simp only [hv] at hf
            split at hw
            · rename_i t a w ht ha hw'
              simp at hw; subst hw
              simp only [ht, Bool.and_eq_true, beq_iff_eq] at hf
              obtain ⟨hsel, hf⟩ := hf
              split at hf
              · rename_i b1 hcb
                have hlt : t % tagTy.bound < tagTy.bound := Nat.mod_lt _ (by cases tagTy <;> simp [Prim.bound])
                simp only [List.append_assoc, takeBE_be _ _ _ hlt,
                  selectVariant_of_idx env.utf8 env.wide pool _ variants k var hsel hv, Res.bind_ok]
                exact readBody_write strict env fuel id k var.body fs pool _ b1 a w r _ ih hd' hcb hf ha hw' ⟨t, ht, rfl⟩
              · cases hf
            · cases hw
          · cases hw
        · cases hw

/-- **read ∘ write**: for every layout environment, a value in the domain `fitsV` that `_write` serialises to `b` is
read back from `b ++ r` exactly, with `r` left over, by the Rust reader (`strict = false`) and by the checking reader,
for every fuel above the nesting depth. -/
theorem read_write (strict : Bool) (env : Env) (id : Nat) (pool : Pool) (v : Val) (b r : Bytes) (fuel : Nat)
    (hd : depthV v ≤ fuel) (hf : fitsV env pool [] (.ref id) v = true) (hw : writeV env (.ref id) v = some b) :
    readG strict env fuel id pool (b ++ r) = .ok (v, r) := by
  simpa [readTy] using readTy_write strict env v fuel (.ref id) pool [] b r hd hf hw

end RawLayout
