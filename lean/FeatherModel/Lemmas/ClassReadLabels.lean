import FeatherModel.Model.ClassReadCode

/-! C01 lemmas about the label table: well-formedness is preserved, labels are never renumbered, two offsets share
an id only if they are equal. -/

namespace ClassRead
namespace Labels

open Outcome

/-- invariant of the table: one slot per offset `0..=code_length`, ids below the counter, no id used twice -/
structure WF (l : Labels) : Prop where
  size : l.tbl.size = l.codeLength + 1
  lt : ∀ pc id, l.get pc = some id → id < l.count
  inj : ∀ p q id, l.get p = some id → l.get q = some id → p = q

/-- `l'` extends `l`: same code length, every label of `l` keeps its id -/
def Le (l l' : Labels) : Prop :=
  l.codeLength = l'.codeLength ∧ ∀ pc id, l.get pc = some id → l'.get pc = some id

theorem Le.refl (l : Labels) : Le l l := ⟨rfl, fun _ _ h => h⟩

theorem Le.trans {a b c : Labels} (h1 : Le a b) (h2 : Le b c) : Le a c :=
  ⟨h1.1.trans h2.1, fun pc id h => h2.2 pc id (h1.2 pc id h)⟩

theorem get_new (n pc : Nat) : (Labels.new n).get pc = none := by
  simp only [Labels.new, Labels.get, Array.getElem?_replicate]
  split <;> simp_all

theorem wf_new (n : Nat) : WF (Labels.new n) := by
  refine ⟨by simp [Labels.new], ?_, ?_⟩
  · intro pc id h; simp [get_new] at h
  · intro p q id h; simp [get_new] at h

theorem get_bound {l : Labels} (hwf : WF l) {pc id : Nat} (h : l.get pc = some id) : pc ≤ l.codeLength := by
  unfold Labels.get at h
  split at h
  · rename_i heq
    have := (Array.getElem?_eq_some_iff.mp heq).1
    have hs := hwf.size
    omega
  · simp at h

theorem get_set (l : Labels) (pc : Nat) (v : Nat) (q : Nat) (hpc : pc < l.tbl.size) :
    ({ l with tbl := l.tbl.setIfInBounds pc (some v), count := l.count + 1 } : Labels).get q
      = if pc = q then some v else l.get q := by
  simp only [Labels.get, Array.getElem?_setIfInBounds]
  by_cases h : pc = q
  · subst h; simp [hpc]
  · simp [h]

/-- the heart of it: adding a key -/
theorem addUnchecked_spec {l : Labels} (hwf : WF l) {pc : Nat} (hpc : pc ≤ l.codeLength) (hcnt : l.count < 65535) :
    ∃ id l', l.addUnchecked pc = ok (id, l') ∧ WF l' ∧ Le l l' ∧ l'.get pc = some id ∧ l'.count ≤ l.count + 1 := by
  unfold addUnchecked
  cases hg : l.get pc with
  | some id => exact ⟨id, l, rfl, hwf, Le.refl l, hg, by omega⟩
  | none =>
    have hm : l.count % 65536 = l.count := Nat.mod_eq_of_lt (by omega)
    have hsz : pc < l.tbl.size := by have := hwf.size; omega
    simp only [hm]
    refine ⟨l.count, _, rfl, ?_, ?_, ?_, by simp⟩
    · refine ⟨by simp [hwf.size], ?_, ?_⟩
      · intro q id h
        rw [get_set l pc l.count q hsz] at h
        by_cases hq : pc = q
        · simp [hq] at h; simp; omega
        · simp [hq] at h; have := hwf.lt q id h; simp; omega
      · intro p q id hp hq
        rw [get_set l pc l.count p hsz] at hp
        rw [get_set l pc l.count q hsz] at hq
        by_cases h1 : pc = p <;> by_cases h2 : pc = q
        · omega
        · simp [h1] at hp; simp [h2] at hq; have := hwf.lt q id hq; omega
        · simp [h1] at hp; simp [h2] at hq; have := hwf.lt p id hp; omega
        · simp [h1] at hp; simp [h2] at hq; exact hwf.inj p q id hp hq
    · refine ⟨rfl, ?_⟩
      intro q id h
      rw [get_set l pc l.count q hsz]
      by_cases hq : pc = q
      · subst hq; rw [hg] at h; simp at h
      · simp [hq, h]
    · rw [get_set l pc l.count pc hsz]; simp

theorem getOrCreate_spec {l : Labels} (hwf : WF l) {pc : Nat} (hpc : pc < l.codeLength) (hcnt : l.count < 65535) :
    ∃ id l', l.getOrCreate pc = ok (id, l') ∧ WF l' ∧ Le l l' ∧ l'.get pc = some id ∧ l'.count ≤ l.count + 1 := by
  unfold getOrCreate
  have : ¬ pc ≥ l.codeLength := by omega
  simp only [this, if_false]
  exact addUnchecked_spec hwf (by omega) hcnt

theorem getOrCreateExcl_spec {l : Labels} (hwf : WF l) {pc : Nat} (hpc : pc ≤ l.codeLength) (hcnt : l.count < 65535) :
    ∃ id l', l.getOrCreateExcl pc = ok (id, l') ∧ WF l' ∧ Le l l' ∧ l'.get pc = some id ∧ l'.count ≤ l.count + 1 := by
  unfold getOrCreateExcl
  have : ¬ pc > l.codeLength := by omega
  simp only [this, if_false]
  exact addUnchecked_spec hwf hpc hcnt

theorem create_spec {l : Labels} (hwf : WF l) {pc : Nat} (hpc : pc < l.codeLength) (hcnt : l.count < 65535) :
    ∃ l', l.create pc = ok l' ∧ WF l' ∧ Le l l' ∧ (∃ id, l'.get pc = some id) ∧ l'.count ≤ l.count + 1 := by
  unfold create
  have : ¬ pc ≥ l.codeLength := by omega
  simp only [this, if_false]
  obtain ⟨id, l', h, hwf', hle, hget, hc⟩ := addUnchecked_spec hwf (show pc ≤ l.codeLength by omega) hcnt
  exact ⟨l', by simp [h], hwf', hle, ⟨id, hget⟩, hc⟩

theorem getOrCreateRange_spec {l : Labels} (hwf : WF l) {start len : Nat} (hs : start < l.codeLength)
    (he : start + len ≤ l.codeLength) (h16 : l.codeLength ≤ 65535) (hcnt : l.count + 1 < 65535) :
    ∃ a b l', l.getOrCreateRange start len = ok ((a, b), l') ∧ WF l' ∧ Le l l' ∧ l'.get start = some a ∧
      l'.get (start + len) = some b ∧ l'.count ≤ l.count + 2 := by
  unfold getOrCreateRange
  obtain ⟨a, l1, h1, hwf1, hle1, hg1, hc1⟩ := getOrCreate_spec hwf hs (by omega)
  have hcl : l1.codeLength = l.codeLength := hle1.1.symm
  obtain ⟨b, l2, h2, hwf2, hle2, hg2, hc2⟩ := getOrCreateExcl_spec hwf1 (pc := start + len) (by omega) (by omega)
  have hov : ¬ start + len > 65535 := by omega
  refine ⟨a, b, l2, ?_, hwf2, hle1.trans hle2, hle2.2 _ _ hg1, hg2, by omega⟩
  simp [h1, hov, h2]

end Labels
end ClassRead
