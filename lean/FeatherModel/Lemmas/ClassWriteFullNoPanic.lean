import FeatherModel.Lemmas.ClassWriteFullPool
import FeatherModel.Lemmas.CodeNoPanic
import FeatherModel.Lemmas.FramePositions

/-!
# C02 (whole writer) — `write` never panics: whatever the class description, the outcome is the bytes or the explicit error
-/

namespace ClassWriteFull
open ClassRead

/-- not the panic outcome -/
def NP {α : Type} (x : Except Fail α) : Prop := x ≠ .error .panic

theorem np_ok {α : Type} (a : α) : NP (.ok a : Except Fail α) := by intro h; cases h
theorem np_pure {α : Type} (a : α) : NP (pure a : Except Fail α) := by intro h; cases h
theorem np_err {α : Type} : NP (.error .err : Except Fail α) := by intro h; cases h

theorem np_cast {α β : Type} {e : Fail} (h : NP (.error e : Except Fail α)) : NP (.error e : Except Fail β) := by
  intro h'
  cases h'
  exact h rfl

theorem np_bind {α β : Type} {x : Except Fail α} {f : α → Except Fail β} (hx : NP x) (hf : ∀ a, NP (f a)) : NP (x >>= f) := by
  cases x with
  | error e => cases e with
    | err => exact np_err
    | panic => exact absurd rfl hx
  | ok a => exact hf a

theorem np_opt {α : Type} (o : Option α) : NP (opt o) := by cases o <;> simp [opt, NP]
theorem np_cnt8 (n : Nat) : NP (cnt8 n) := by unfold cnt8; split <;> simp [NP]
theorem np_cnt16 (n : Nat) : NP (cnt16 n) := by unfold cnt16; split <;> simp [NP]
theorem np_cnt32 (n : Nat) : NP (cnt32 n) := by unfold cnt32; split <;> simp [NP]

theorem np_putUtf8 (p : Pool) (s : JStr) : NP (putUtf8 p s) := np_opt _
theorem np_putClass (p : Pool) (s : JStr) : NP (putClass p s) := np_opt _
theorem np_putString (p : Pool) (s : JStr) : NP (putString p s) := np_opt _
theorem np_putNameAndType (p : Pool) (n d : JStr) : NP (putNameAndType p n d) := np_opt _
theorem np_put (p : Pool) (e : PoolWrite.Entry) : NP (put p e) := np_opt _
theorem np_putRef (p : Pool) (k : Nat) (r : MemberRef) : NP (putRef p k r) := np_opt _
theorem np_putHandle (p : Pool) (h : ClassRead.Handle) : NP (putHandle p h) := np_opt _

theorem np_putPackage (p : Pool) (s : JStr) : NP (putPackage p s) :=
  np_bind (np_putUtf8 _ _) (fun ⟨_, _⟩ => np_put _ _)
theorem np_putModule (p : Pool) (s : JStr) : NP (putModule p s) :=
  np_bind (np_putUtf8 _ _) (fun ⟨_, _⟩ => np_put _ _)
theorem np_putMethodType (p : Pool) (s : JStr) : NP (putMethodType p s) :=
  np_bind (np_putUtf8 _ _) (fun ⟨_, _⟩ => np_put _ _)

theorem np_putOptional {α : Type} {f : Pool → α → Except Fail (Nat × Pool)} (hf : ∀ p a, NP (f p a)) (p : Pool) (x : Option α) :
    NP (putOptional f p x) := by
  cases x with
  | none => exact np_ok _
  | some a => exact hf p a

theorem np_putConstantValue (p : Pool) (v : ConstantValue) : NP (putConstantValue p v) := by
  cases v <;> simp only [putConstantValue]
  · exact np_put _ _
  · exact np_put _ _
  · exact np_put _ _
  · exact np_put _ _
  · exact np_putString _ _

theorem np_idx16 {r : Except Fail (Nat × Pool)} (h : NP r) : NP (idx16 r) :=
  np_bind h (fun ⟨_, _⟩ => np_pure _)

theorem np_writeList {α : Type} {f : Pool → α → W} (hf : ∀ p a, NP (f p a)) : ∀ (xs : List α) (p : Pool), NP (writeList f p xs) := by
  intro xs
  induction xs with
  | nil => intro p; exact np_ok _
  | cons a as ih =>
    intro p
    exact np_bind (hf p a) (fun ⟨_, p1⟩ => np_bind (ih p1) (fun ⟨_, _⟩ => np_pure _))

theorem np_writeSlice16 {α : Type} {f : Pool → α → W} (hf : ∀ p a, NP (f p a)) (p : Pool) (xs : List α) :
    NP (writeSlice16 f p xs) :=
  np_bind (np_cnt16 _) (fun _ => np_bind (np_writeList hf xs p) (fun ⟨_, _⟩ => np_pure _))

theorem np_attrBuf {name : JStr} {body : Pool → W} (hb : ∀ p, NP (body p)) (p : Pool) : NP (attrBuf name body p) :=
  np_bind (hb p) (fun ⟨_, _⟩ => np_bind (np_putUtf8 _ _) (fun ⟨_, _⟩ => np_bind (np_cnt32 _) (fun _ => np_pure _)))

theorem np_attrFix {name : JStr} {len : Nat} {body : Pool → W} (hb : ∀ p, NP (body p)) (p : Pool) : NP (attrFix name len body p) :=
  np_bind (np_putUtf8 _ _) (fun ⟨_, _⟩ => np_bind (hb _) (fun ⟨_, _⟩ => np_pure _))

theorem np_unknownAttr (p : Pool) (a : Attr) : NP (unknownAttr p a) :=
  np_bind (np_putUtf8 _ _) (fun ⟨_, _⟩ => np_bind (np_cnt32 _) (fun _ => np_pure _))

/-- an attribute block never panics -/
def NPA (w : AttrW) : Prop := ∀ p, NP (w p)

theorem npa_always {w : Pool → W} (h : ∀ p, NP (w p)) : NPA (always w) :=
  fun p => np_bind (h p) (fun ⟨_, _⟩ => np_pure _)

theorem npa_onlyIf {c : Bool} {w : Pool → W} (h : ∀ p, NP (w p)) : NPA (onlyIf c w) := by
  intro p
  unfold onlyIf
  split
  · exact npa_always h p
  · exact np_ok _

theorem npa_ifSome {α : Type} {x : Option α} {w : α → Pool → W} (h : ∀ a p, NP (w a p)) : NPA (ifSome x w) := by
  intro p
  unfold ifSome
  cases x with
  | none => exact np_ok _
  | some a => exact npa_always (h a) p

theorem np_runAttrs : ∀ (ws : List AttrW), (∀ w ∈ ws, NPA w) → ∀ p, NP (runAttrs ws p) := by
  intro ws
  induction ws with
  | nil => intro _ p; exact np_ok _
  | cons w ws ih =>
    intro h p
    exact np_bind (h w (by simp) p) (fun ⟨_, p1⟩ => np_bind (ih (fun v hv => h v (by simp [hv])) p1) (fun ⟨_, _⟩ => np_pure _))

theorem np_attrsBytes (as : List Bytes) : NP (attrsBytes as) := np_bind (np_cnt16 _) (fun _ => np_pure _)

theorem npa_flagAttr (flag : Bool) (name : JStr) : NPA (flagAttr flag name) :=
  npa_onlyIf (fun p => np_attrFix (fun p => np_ok _) p)

theorem npa_sigAttr (sig : Option JStr) : NPA (sigAttr sig) :=
  npa_ifSome (fun s p => np_attrFix (fun p => np_idx16 (np_putUtf8 _ _)) p)

theorem npa_unknownAttrs (as : List Attr) : ∀ w ∈ unknownAttrs as, NPA w := by
  intro w hw
  obtain ⟨a, _, rfl⟩ := List.mem_map.mp hw
  exact npa_always (fun p => np_unknownAttr p a)

/-! ## annotations -/

mutual
theorem np_writeElemVal : ∀ (v : ElemVal) (p : Pool), NP (writeElemVal p v)
  | .const tag x, p => by
    unfold writeElemVal
    split
    · exact np_err
    · have := np_put p ‹PoolWrite.Entry›
      split
      · rename_i h; rw [h] at this; exact np_cast this
      · exact np_ok _
  | .str s, p => by
    unfold writeElemVal
    have := np_putUtf8 p s
    split
    · rename_i h; rw [h] at this; exact np_cast this
    · exact np_ok _
  | .enum ty name, p => by
    unfold writeElemVal
    have := np_putUtf8 p ty
    split
    · rename_i h; rw [h] at this; exact np_cast this
    · rename_i t p1 _
      have := np_putUtf8 p1 name
      split
      · rename_i h; rw [h] at this; exact np_cast this
      · exact np_ok _
  | .cls d, p => by
    unfold writeElemVal
    have := np_putUtf8 p d
    split
    · rename_i h; rw [h] at this; exact np_cast this
    · exact np_ok _
  | .anno a, p => by
    unfold writeElemVal
    have := np_writeAnnotation a p
    split
    · rename_i h; rw [h] at this; exact np_cast this
    · exact np_ok _
  | .arr vs, p => by
    unfold writeElemVal
    have := np_cnt16 vs.length
    split
    · rename_i h; rw [h] at this; exact np_cast this
    · have := np_writeElemVals vs p
      split
      · rename_i h; rw [h] at this; exact np_cast this
      · exact np_ok _
theorem np_writeAnnotation : ∀ (a : Annotation) (p : Pool), NP (writeAnnotation p a)
  | .mk ty pairs, p => by
    unfold writeAnnotation
    have := np_putUtf8 p ty
    split
    · rename_i h; rw [h] at this; exact np_cast this
    · rename_i t p1 _
      have := np_cnt16 pairs.length
      split
      · rename_i h; rw [h] at this; exact np_cast this
      · have := np_writePairs pairs p1
        split
        · rename_i h; rw [h] at this; exact np_cast this
        · exact np_ok _
theorem np_writePairs : ∀ (ps : List (JStr × ElemVal)) (p : Pool), NP (writePairs p ps)
  | [], p => by unfold writePairs; exact np_ok _
  | (name, v) :: rest, p => by
    unfold writePairs
    have := np_putUtf8 p name
    split
    · rename_i h; rw [h] at this; exact np_cast this
    · rename_i n p1 _
      have := np_writeElemVal v p1
      split
      · rename_i h; rw [h] at this; exact np_cast this
      · rename_i b p2 _
        have := np_writePairs rest p2
        split
        · rename_i h; rw [h] at this; exact np_cast this
        · exact np_ok _
theorem np_writeElemVals : ∀ (vs : List ElemVal) (p : Pool), NP (writeElemVals p vs)
  | [], p => by unfold writeElemVals; exact np_ok _
  | v :: rest, p => by
    unfold writeElemVals
    have := np_writeElemVal v p
    split
    · rename_i h; rw [h] at this; exact np_cast this
    · rename_i b p1 _
      have := np_writeElemVals rest p1
      split
      · rename_i h; rw [h] at this; exact np_cast this
      · exact np_ok _
end

theorem np_writeAnnotations (as : List Annotation) (p : Pool) : NP (writeAnnotations as p) :=
  np_writeSlice16 (fun p a => np_writeAnnotation a p) p as

theorem npa_annosAttr (name : JStr) (as : List Annotation) : NPA (annosAttr name as) :=
  npa_onlyIf (fun p => np_attrBuf (fun p => np_writeAnnotations as p) p)

theorem np_writeTypePath (path : List (Nat × Nat)) : NP (writeTypePath path) := np_bind (np_cnt8 _) (fun _ => np_pure _)

theorem np_writeTargetClass (t : Target) : NP (writeTargetClass t) := by
  cases t <;> simp only [writeTargetClass] <;> first | exact np_err | exact np_ok _ | (split <;> first | exact np_err | exact np_ok _)

theorem np_writeTargetField (t : Target) : NP (writeTargetField t) := by
  cases t <;> simp only [writeTargetField] <;> first | exact np_err | exact np_ok _

theorem np_writeTargetMethod (t : Target) : NP (writeTargetMethod t) := by
  cases t <;> simp only [writeTargetMethod] <;> first | exact np_err | exact np_ok _ | (split <;> first | exact np_err | exact np_ok _)

theorem np_writeTypeAnnos {wt : Target → Except Fail Bytes} (hwt : ∀ t, NP (wt t)) (as : List TypeAnno) (p : Pool) :
    NP (writeTypeAnnos wt as p) := by
  unfold writeTypeAnnos
  refine np_writeSlice16 (fun p a => ?_) p as
  refine np_bind (hwt _) (fun _ => np_bind (np_writeTypePath _) (fun _ => np_bind (np_writeAnnotation _ _) (fun x => ?_)))
  cases x
  exact np_pure _

theorem npa_typeAnnosAttr {wt : Target → Except Fail Bytes} (hwt : ∀ t, NP (wt t)) (name : JStr) (as : List TypeAnno) :
    NPA (typeAnnosAttr wt name as) :=
  npa_onlyIf (fun p => np_attrBuf (fun p => np_writeTypeAnnos hwt as p) p)

theorem npa_annoBlocks {wt : Target → Except Fail Bytes} (hwt : ∀ t, NP (wt t)) (rva ria : List Annotation)
    (rvta rita : List TypeAnno) : ∀ w ∈ annoBlocks wt rva ria rvta rita, NPA w := by
  intro w hw
  simp only [annoBlocks, List.mem_cons, List.not_mem_nil, or_false] at hw
  rcases hw with rfl | rfl | rfl | rfl
  · exact npa_annosAttr _ _
  · exact npa_annosAttr _ _
  · exact npa_typeAnnosAttr hwt _ _
  · exact npa_typeAnnosAttr hwt _ _

theorem mem_append3 {α : Type} {a : α} {xs ys zs : List α} (h : a ∈ xs ++ ys ++ zs) : a ∈ xs ∨ a ∈ ys ∨ a ∈ zs := by
  simp only [List.mem_append] at h
  rcases h with (h | h) | h
  · exact Or.inl h
  · exact Or.inr (Or.inl h)
  · exact Or.inr (Or.inr h)

theorem np_writeField (p : Pool) (f : FieldFacts) : NP (writeField p f) := by
  unfold writeField
  refine np_bind (np_putUtf8 _ _) (fun ⟨_, _⟩ => np_bind (np_putUtf8 _ _) (fun ⟨_, _⟩ => np_bind (np_runAttrs _ ?_ _)
    (fun ⟨_, _⟩ => np_bind (np_attrsBytes _) (fun _ => np_pure _))))
  intro w hw
  rcases mem_append3 hw with hw | hw | hw
  · simp only [List.mem_cons, List.not_mem_nil, or_false] at hw
    rcases hw with rfl | rfl | rfl | rfl
    · exact npa_flagAttr _ _
    · exact npa_flagAttr _ _
    · exact npa_ifSome (fun v p => np_attrFix (fun p => np_idx16 (np_putConstantValue _ _)) p)
    · exact npa_sigAttr _
  · exact npa_annoBlocks np_writeTargetField _ _ _ _ w hw
  · exact npa_unknownAttrs _ w hw

/-! ## code -/

mutual
theorem np_putLoadable : ∀ (c : Loadable) (p : Pool) (bs : List Bsm), NP (putLoadable p bs c)
  | .int v, p, bs => by unfold putLoadable; have := np_put p (.int v); split <;> first | exact np_ok _ | (rename_i h; rw [h] at this; exact np_cast this)
  | .float v, p, bs => by unfold putLoadable; have := np_put p (.float v); split <;> first | exact np_ok _ | (rename_i h; rw [h] at this; exact np_cast this)
  | .long v, p, bs => by unfold putLoadable; have := np_put p (.long v); split <;> first | exact np_ok _ | (rename_i h; rw [h] at this; exact np_cast this)
  | .double v, p, bs => by unfold putLoadable; have := np_put p (.double v); split <;> first | exact np_ok _ | (rename_i h; rw [h] at this; exact np_cast this)
  | .cls c, p, bs => by unfold putLoadable; have := np_putClass p c; split <;> first | exact np_ok _ | (rename_i h; rw [h] at this; exact np_cast this)
  | .str s, p, bs => by unfold putLoadable; have := np_putString p s; split <;> first | exact np_ok _ | (rename_i h; rw [h] at this; exact np_cast this)
  | .handle h, p, bs => by unfold putLoadable; have := np_putHandle p h; split <;> first | exact np_ok _ | (rename_i h; rw [h] at this; exact np_cast this)
  | .mtype d, p, bs => by unfold putLoadable; have := np_putMethodType p d; split <;> first | exact np_ok _ | (rename_i h; rw [h] at this; exact np_cast this)
  | .dyn name desc h args, p, bs => by
    unfold putLoadable
    have := np_putNameAndType p name desc
    split
    · rename_i h; rw [h] at this; exact np_cast this
    · rename_i nt p1 _
      have := np_putLoadables args p1 bs
      split
      · rename_i h; rw [h] at this; exact np_cast this
      · split
        · exact np_err
        · rename_i as p2 bs2 _ _ b bs3 _
          have := np_put p2 (.dynamic b nt)
          split
          · rename_i h; rw [h] at this; exact np_cast this
          · exact np_ok _
theorem np_putLoadables : ∀ (cs : List Loadable) (p : Pool) (bs : List Bsm), NP (putLoadables p bs cs)
  | [], p, bs => by unfold putLoadables; exact np_ok _
  | c :: cs, p, bs => by
    unfold putLoadables
    have := np_putLoadable c p bs
    split
    · rename_i h; rw [h] at this; exact np_cast this
    · rename_i i p1 bs1 _
      have := np_putLoadables cs p1 bs1
      split
      · rename_i h; rw [h] at this; exact np_cast this
      · exact np_ok _
end

theorem np_putInvokeDynamic (p : Pool) (bs : List Bsm) (d : ClassRead.InvokeDynamic) : NP (putInvokeDynamic p bs d) :=
  np_bind (np_putNameAndType _ _ _) (fun ⟨_, _⟩ => np_bind (np_putLoadables _ _ _) (fun ⟨_, _, _⟩ =>
    np_bind (np_opt _) (fun ⟨_, _⟩ => np_bind (np_put _ _) (fun ⟨_, _⟩ => np_pure _))))

theorem np_putInsn (lab : Nat → Nat) (p : Pool) (bs : List Bsm) (i : ClassRead.Insn) : NP (putInsn lab p bs i) := by
  cases i <;> simp only [putInsn] <;>
    first
    | exact np_ok _
    | exact np_bind (np_putLoadable _ _ _) (fun ⟨_, _, _⟩ => np_pure _)
    | exact np_bind (np_putRef _ _ _) (fun ⟨_, _⟩ => np_pure _)
    | exact np_bind (np_putClass _ _) (fun ⟨_, _⟩ => np_pure _)
    | exact np_bind (np_putInvokeDynamic _ _ _) (fun ⟨_, _, _⟩ => np_pure _)
    | (split <;> first | exact np_err | exact np_ok _)

theorem np_putInsns (lab : Nat → Nat) : ∀ (es : List InsnEntry) (p : Pool) (bs : List Bsm), NP (putInsns lab p bs es) := by
  intro es
  induction es with
  | nil => intro p bs; exact np_ok _
  | cons e es ih =>
    intro p bs
    exact np_bind (np_putInsn _ _ _ _) (fun ⟨_, p1, bs1⟩ => np_bind (ih p1 bs1) (fun ⟨_, _, _⟩ => np_pure _))

theorem np_tryGet (lp : Nat → Option Nat) (l : Nat) : NP (tryGet lp l) := np_opt _

theorem np_range (lp : Nat → Option Nat) (a b : Nat) : NP (CodeWrite.range lp a b) := by
  unfold CodeWrite.range
  split
  · exact np_err
  · split
    · exact np_err
    · split
      · exact np_err
      · exact np_ok _

theorem np_writeException (lp : Nat → Option Nat) (p : Pool) (e : ExceptionEntry) : NP (writeException lp p e) :=
  np_bind (np_tryGet _ _) (fun _ => np_bind (np_tryGet _ _) (fun _ => np_bind (np_tryGet _ _) (fun _ =>
    np_bind (np_putOptional np_putClass _ _) (fun ⟨_, _⟩ => np_pure _))))

theorem np_writeLine (lp : Nat → Option Nat) (p : Pool) (e : Nat × Nat) : NP (writeLine lp p e) :=
  np_bind (np_tryGet _ _) (fun _ => np_pure _)

theorem np_writeLv (lp : Nat → Option Nat) (sig : Bool) (p : Pool) (v : Lv) : NP (writeLv lp sig p v) := by
  unfold writeLv
  split
  · exact np_ok _
  · exact np_bind (np_range _ _ _) (fun ⟨_, _⟩ => np_bind (np_putUtf8 _ _) (fun ⟨_, _⟩ => np_bind (np_putUtf8 _ _) (fun ⟨_, _⟩ => np_pure _)))

theorem np_writeLvTable (lp : Nat → Option Nat) (sig : Bool) (vs : List Lv) (p : Pool) : NP (writeLvTable lp sig vs p) :=
  np_bind (np_cnt16 _) (fun _ => np_bind (np_writeList (np_writeLv lp sig) vs p) (fun ⟨_, _⟩ => np_pure _))

theorem np_concatE {α : Type} {f : α → Except Fail Bytes} (hf : ∀ a, NP (f a)) : ∀ xs : List α, NP (concatE f xs) := by
  intro xs
  induction xs with
  | nil => exact np_ok _
  | cons a as ih => exact np_bind (hf a) (fun _ => np_bind ih (fun _ => np_pure _))

theorem np_writeRange (lp : Nat → Option Nat) (e : Nat × Nat × Nat) : NP (writeRange lp e) :=
  np_bind (np_range _ _ _) (fun ⟨_, _⟩ => np_pure _)

theorem np_writeTargetCode (lp : Nat → Option Nat) (t : Target) : NP (writeTargetCode lp t) := by
  cases t <;> simp only [writeTargetCode] <;>
    first
    | exact np_err
    | exact np_ok _
    | (split
       · first
         | exact np_bind (np_cnt16 _) (fun _ => np_bind (np_concatE (np_writeRange lp) _) (fun _ => np_pure _))
         | exact np_bind (np_tryGet _ _) (fun _ => np_pure _)
       · exact np_err)

theorem npa_lvAttr (lp : Nat → Option Nat) (sig : Bool) (name : JStr) (locals : Option (List Lv)) : NPA (lvAttr lp sig name locals) := by
  unfold lvAttr
  cases locals with
  | none => intro p; exact np_ok _
  | some vs => exact npa_onlyIf (fun p => np_attrBuf (fun p => np_writeLvTable lp sig vs p) p)

/-- what the theorems about the `StackMapTable` writer give: no panic for the frames `write_code` collects -/
def FramesNoPanic : Prop :=
  ∀ (is : List CodeWrite.Insn) (res : CodeWrite.Result), CodeWrite.writeCode is = .ok res →
    ∀ (fs : List (Option FrameWrite.Frame)) (p : PoolWrite.Pool),
      FrameWrite.attr res.label p (FrameWrite.framesOf res fs) ≠ .error .panic

theorem np_writeCode (hF : FramesNoPanic) (c : Code) (p : Pool) (bs : List Bsm) : NP (writeCode c p bs) := by
  unfold writeCode
  refine np_bind (np_putInsns _ _ _ _) (fun ⟨is, p1, bs1⟩ => ?_)
  simp only
  have hno := CodeWrite.write_no_panic is (is.length + 1) []
  split
  · exact np_err
  · exact np_err
  · rename_i h; exact absurd h hno
  · rename_i res hres
    refine np_bind (np_writeSlice16 (np_writeException _) _ _) (fun ⟨_, p2⟩ => ?_)
    refine np_bind (hF is res hres _ p2) (fun ⟨smt, p3⟩ => ?_)
    refine np_bind (np_runAttrs _ ?_ _) (fun ⟨_, _⟩ => np_bind (np_attrsBytes _) (fun _ => np_pure _))
    intro w hw
    simp only [List.mem_append, List.mem_cons, List.not_mem_nil, or_false] at hw
    rcases hw with (rfl | rfl | rfl | rfl | rfl) | hw
    · exact npa_ifSome (fun ls p => np_attrBuf (fun p => np_writeSlice16 (np_writeLine _) p ls) p)
    · exact npa_lvAttr _ _ _ _
    · exact npa_lvAttr _ _ _ _
    · exact npa_typeAnnosAttr (np_writeTargetCode _) _ _
    · exact npa_typeAnnosAttr (np_writeTargetCode _) _ _
    · exact npa_unknownAttrs _ w hw

theorem np_codeAttr (hF : FramesNoPanic) (code : Option Code) (p : Pool) (bs : List Bsm) : NP (codeAttr code p bs) := by
  unfold codeAttr
  cases code with
  | none => exact np_ok _
  | some c =>
    exact np_bind (np_writeCode hF c p bs) (fun ⟨_, _, _⟩ => np_bind (np_putUtf8 _ _) (fun ⟨_, _⟩ =>
      np_bind (np_cnt32 _) (fun _ => np_pure _)))

theorem np_writeMethodParam (p : Pool) (q : MethodParam) : NP (writeMethodParam p q) :=
  np_bind (np_putOptional np_putUtf8 _ _) (fun ⟨_, _⟩ => np_pure _)

theorem np_writeMethod (hF : FramesNoPanic) (p : Pool) (bs : List Bsm) (m : MethodFacts) : NP (writeMethod p bs m) := by
  unfold writeMethod
  refine np_bind (np_putUtf8 _ _) (fun ⟨_, _⟩ => np_bind (np_putUtf8 _ _) (fun ⟨_, _⟩ => np_bind (np_runAttrs _ ?_ _)
    (fun ⟨_, _⟩ => np_bind (np_codeAttr hF _ _ _) (fun ⟨_, _, _⟩ => np_bind (np_runAttrs _ ?_ _)
      (fun ⟨_, _⟩ => np_bind (np_attrsBytes _) (fun _ => np_pure _))))))
  · intro w hw
    simp only [List.mem_cons, List.not_mem_nil, or_false] at hw
    rcases hw with rfl | rfl
    · exact npa_flagAttr _ _
    · exact npa_flagAttr _ _
  · intro w hw
    simp only [List.mem_append] at hw
    rcases hw with ((hw | hw) | hw) | hw
    · simp only [List.mem_cons, List.not_mem_nil, or_false] at hw
      rcases hw with rfl | rfl
      · exact npa_ifSome (fun es p => np_attrBuf (fun p => np_writeSlice16 (fun p e => np_idx16 (np_putClass _ _)) p es) p)
      · exact npa_sigAttr _
    · exact npa_annoBlocks np_writeTargetMethod _ _ _ _ w hw
    · simp only [List.mem_cons, List.not_mem_nil, or_false] at hw
      rcases hw with rfl | rfl
      · exact npa_ifSome (fun v p => np_attrBuf (fun p => np_writeElemVal v p) p)
      · exact npa_ifSome (fun ps p => np_attrBuf (fun p => np_bind (np_cnt8 _) (fun _ =>
          np_bind (np_writeList np_writeMethodParam ps p) (fun x => by cases x; exact np_pure _))) p)
    · exact npa_unknownAttrs _ w hw

theorem np_writeMethods (hF : FramesNoPanic) : ∀ (ms : List MethodFacts) (p : Pool) (bs : List Bsm), NP (writeMethods p bs ms) := by
  intro ms
  induction ms with
  | nil => intro p bs; exact np_ok _
  | cons m ms ih =>
    intro p bs
    exact np_bind (np_writeMethod hF _ _ _) (fun ⟨_, p1, bs1⟩ => np_bind (ih p1 bs1) (fun ⟨_, _, _⟩ => np_pure _))

theorem np_writeRecordComponent (p : Pool) (r : RecordComponent) : NP (writeRecordComponent p r) := by
  unfold writeRecordComponent
  refine np_bind (np_putUtf8 _ _) (fun ⟨_, _⟩ => np_bind (np_putUtf8 _ _) (fun ⟨_, _⟩ => np_bind (np_runAttrs _ ?_ _)
    (fun ⟨_, _⟩ => np_bind (np_attrsBytes _) (fun _ => np_pure _))))
  intro w hw
  rcases mem_append3 hw with hw | hw | hw
  · simp only [List.mem_cons, List.not_mem_nil, or_false] at hw
    subst hw
    exact npa_sigAttr _
  · exact npa_annoBlocks np_writeTargetField _ _ _ _ w hw
  · exact npa_unknownAttrs _ w hw

theorem np_writeRequires (p : Pool) (r : ModuleRequires) : NP (writeRequires p r) :=
  np_bind (np_putModule _ _) (fun ⟨_, _⟩ => np_bind (np_putOptional np_putUtf8 _ _) (fun ⟨_, _⟩ => np_pure _))

theorem np_writeExports (p : Pool) (e : ModuleExports) : NP (writeExports p e) :=
  np_bind (np_putPackage _ _) (fun ⟨_, _⟩ => np_bind (np_writeSlice16 (fun p m => np_idx16 (np_putModule p m)) _ _)
    (fun ⟨_, _⟩ => np_pure _))

theorem np_writeProvides (p : Pool) (e : ModuleProvides) : NP (writeProvides p e) :=
  np_bind (np_putClass _ _) (fun ⟨_, _⟩ => np_bind (np_writeSlice16 (fun p c => np_idx16 (np_putClass p c)) _ _)
    (fun ⟨_, _⟩ => np_pure _))

theorem np_writeModule (m : Module) (p : Pool) : NP (writeModule m p) :=
  np_bind (np_putModule _ _) (fun ⟨_, _⟩ => np_bind (np_putOptional np_putUtf8 _ _) (fun ⟨_, _⟩ =>
    np_bind (np_writeSlice16 np_writeRequires _ _) (fun ⟨_, _⟩ => np_bind (np_writeSlice16 np_writeExports _ _) (fun ⟨_, _⟩ =>
      np_bind (np_writeSlice16 np_writeExports _ _) (fun ⟨_, _⟩ =>
        np_bind (np_writeSlice16 (fun p c => np_idx16 (np_putClass p c)) _ _) (fun ⟨_, _⟩ =>
          np_bind (np_writeSlice16 np_writeProvides _ _) (fun ⟨_, _⟩ => np_pure _)))))))

theorem np_writeInnerClass (p : Pool) (e : InnerClass) : NP (writeInnerClass p e) :=
  np_bind (np_putClass _ _) (fun ⟨_, _⟩ => np_bind (np_putOptional np_putClass _ _) (fun ⟨_, _⟩ =>
    np_bind (np_putOptional np_putUtf8 _ _) (fun ⟨_, _⟩ => np_pure _)))

theorem np_writeClassList (cs : List JStr) (p : Pool) : NP (writeClassList cs p) :=
  np_writeSlice16 (fun p c => np_idx16 (np_putClass p c)) _ _

theorem np_writeBsmRow (p : Pool) (b : Bsm) : NP (writeBsmRow p b) :=
  np_bind (np_opt _) (fun ⟨_, _⟩ => np_bind (np_cnt16 _) (fun _ => np_pure _))

theorem npa_classAttrs (t : ClassFacts) (bs : List Bsm) : ∀ w ∈ classAttrs t bs, NPA w := by
  intro w hw
  unfold classAttrs at hw
  simp only [List.mem_append] at hw
  rcases hw with ((hw | hw) | hw) | hw
  · simp only [List.mem_cons, List.not_mem_nil, or_false] at hw
    rcases hw with rfl | rfl | rfl | rfl | rfl | rfl | rfl
    · exact npa_flagAttr _ _
    · exact npa_flagAttr _ _
    · exact npa_ifSome (fun es p => np_attrBuf (fun p => np_writeSlice16 np_writeInnerClass p es) p)
    · refine npa_ifSome (fun em p => np_attrFix (fun p => ?_) p)
      refine np_bind (np_putClass _ _) (fun x => ?_)
      cases x
      refine np_bind (np_putOptional (fun p (x : JStr × JStr) => np_putNameAndType p x.1 x.2) _ _) (fun x => ?_)
      cases x
      exact np_pure _
    · exact npa_sigAttr _
    · exact npa_ifSome (fun s p => np_attrFix (fun p => np_idx16 (np_putUtf8 _ _)) p)
    · refine npa_ifSome (fun s p => ?_)
      refine np_bind (np_putUtf8 _ _) (fun x => ?_)
      cases x
      exact np_bind (np_cnt32 _) (fun _ => np_pure _)
  · exact npa_annoBlocks np_writeTargetClass _ _ _ _ w hw
  · simp only [List.mem_cons, List.not_mem_nil, or_false] at hw
    rcases hw with rfl | rfl | rfl | rfl | rfl | rfl | rfl | rfl
    · exact npa_ifSome (fun m p => np_attrBuf (np_writeModule m) p)
    · exact npa_ifSome (fun ps p => np_attrBuf (fun p => np_writeSlice16 (fun p x => np_idx16 (np_putPackage p x)) p ps) p)
    · exact npa_ifSome (fun c p => np_attrFix (fun p => np_idx16 (np_putClass _ _)) p)
    · exact npa_ifSome (fun c p => np_attrFix (fun p => np_idx16 (np_putClass _ _)) p)
    · exact npa_ifSome (fun cs p => np_attrBuf (np_writeClassList cs) p)
    · exact npa_ifSome (fun cs p => np_attrBuf (np_writeClassList cs) p)
    · exact npa_onlyIf (fun p => np_attrBuf (fun p => np_writeSlice16 np_writeRecordComponent p _) p)
    · exact npa_onlyIf (fun p => np_attrBuf (fun p => np_writeSlice16 np_writeBsmRow p _) p)
  · exact npa_unknownAttrs _ w hw

theorem np_entryBytes (e : PoolWrite.Entry) : NP (entryBytes e) := by
  cases e <;> simp only [entryBytes] <;> first | exact np_ok _ | exact np_bind (np_cnt16 _) (fun _ => np_pure _)

theorem np_entriesBytes : ∀ es : List PoolWrite.Entry, NP (entriesBytes es) := by
  intro es
  induction es with
  | nil => exact np_ok _
  | cons e es ih => exact np_bind (np_entryBytes e) (fun _ => np_bind ih (fun _ => np_pure _))

theorem np_poolBytes (p : Pool) : NP (poolBytes p) := np_bind (np_entriesBytes _) (fun _ => np_pure _)

theorem np_writeBody (hF : FramesNoPanic) (t : ClassFacts) : NP (writeBody t) := by
  unfold writeBody
  refine np_bind (np_putClass _ _) (fun x => ?_)
  cases x
  refine np_bind (np_putOptional np_putClass _ _) (fun x => ?_)
  cases x
  refine np_bind (np_writeSlice16 (fun p i => np_idx16 (np_putClass p i)) _ _) (fun x => ?_)
  cases x
  refine np_bind (np_cnt16 _) (fun _ => ?_)
  refine np_bind (np_writeList np_writeField _ _) (fun x => ?_)
  cases x
  refine np_bind (np_cnt16 _) (fun _ => ?_)
  refine np_bind (np_writeMethods hF _ _ _) (fun x => ?_)
  obtain ⟨_, _, bs⟩ := x
  refine np_bind (np_runAttrs _ (npa_classAttrs t bs) _) (fun x => ?_)
  cases x
  exact np_bind (np_attrsBytes _) (fun _ => np_pure _)

/-- `write` never panics -/
theorem np_writeClass (hF : FramesNoPanic) (t : ClassFacts) : writeClass t ≠ .error .panic := by
  unfold writeClass
  refine np_bind (np_writeBody hF t) (fun x => ?_)
  cases x
  exact np_bind (np_poolBytes _) (fun _ => np_pure _)

end ClassWriteFull
