import FeatherModel.Model.Remapper

/-!
# Lemmas about the remapper tables: `upsert`, `tableOf`, `lastMatch`, injectivity
-/

namespace Remapper
variable {K V W : Type}

/-! ## `lastMatch` -/

theorem lastMatch_some {α : Type} {p : α → Bool} {l : List α} {a : α} (h : lastMatch p l = some a) :
    a ∈ l ∧ p a = true := by
  induction l with
  | nil => simp [lastMatch] at h
  | cons x rest ih =>
    simp only [lastMatch] at h
    cases hr : lastMatch p rest with
    | some b =>
      rw [hr] at h
      simp only [Option.some.injEq] at h; subst h
      obtain ⟨h1, h2⟩ := ih hr
      exact ⟨List.mem_cons_of_mem _ h1, h2⟩
    | none =>
      rw [hr] at h
      simp only at h
      split at h
      · rename_i hp
        simp only [Option.some.injEq] at h; subst h
        exact ⟨List.mem_cons_self, hp⟩
      · simp at h

theorem lastMatch_none {α : Type} {p : α → Bool} {l : List α} (h : lastMatch p l = none) :
    ∀ a ∈ l, p a = false := by
  induction l with
  | nil => simp
  | cons x rest ih =>
    simp only [lastMatch] at h
    cases hr : lastMatch p rest with
    | some b => rw [hr] at h; simp at h
    | none =>
      rw [hr] at h
      simp only at h
      intro a ha
      rcases List.mem_cons.mp ha with rfl | ha
      · cases hp : p a with
        | true => simp [hp] at h
        | false => rfl
      · exact ih hr a ha

/-- if every `q`-element is a `p`-element and the last `p`-element is a `q`-element, it is also the last `q`-element -/
theorem lastMatch_transfer {α : Type} {p q : α → Bool} {l : List α} {a : α}
    (h : lastMatch p l = some a) (hq : q a = true) (hqp : ∀ e ∈ l, q e = true → p e = true) :
    lastMatch q l = some a := by
  induction l with
  | nil => simp [lastMatch] at h
  | cons x rest ih =>
    simp only [lastMatch] at h ⊢
    cases hr : lastMatch p rest with
    | some b =>
      rw [hr] at h
      simp only [Option.some.injEq] at h; subst h
      rw [ih hr (fun e he => hqp e (List.mem_cons_of_mem _ he))]
    | none =>
      rw [hr] at h
      simp only at h
      split at h
      · simp only [Option.some.injEq] at h; subst h
        have hn : lastMatch q rest = none := by
          cases hqr : lastMatch q rest with
          | none => rfl
          | some b =>
            obtain ⟨hb, hqb⟩ := lastMatch_some hqr
            have := lastMatch_none hr b hb
            rw [hqp b (List.mem_cons_of_mem _ hb) hqb] at this
            simp at this
        rw [hn]; simp [hq]
      · simp at h

/-! ## `upsert` / `tableOf` -/

theorem lookup_upsert [BEq K] [LawfulBEq K] (k k' : K) (v : V) (t : AList K V) :
    AList.lookup k (upsert k' v t) = if k' == k then some v else AList.lookup k t := by
  induction t with
  | nil => simp [upsert, AList.lookup]
  | cons e rest ih =>
    obtain ⟨a, b⟩ := e
    simp only [upsert]
    by_cases hak' : (a == k') = true
    · have : a = k' := by simpa using hak'
      subst this
      simp only [beq_self_eq_true, if_true, AList.lookup]
      split <;> rfl
    · simp only [hak', Bool.false_eq_true, if_false, AList.lookup, ih]
      by_cases hak : (a == k) = true
      · have : a = k := by simpa using hak
        subst this
        have : (k' == a) = false := by
          cases h : k' == a with
          | false => rfl
          | true => exact absurd (by simpa using h : k' = a) (fun e => hak' (by simp [e]))
        simp [this]
      · simp [hak]

theorem lookup_foldl_upsert [BEq K] [LawfulBEq K] (k : K) (rows : List (K × V)) (acc : AList K V) :
    AList.lookup k (rows.foldl (fun acc p => upsert p.1 p.2 acc) acc) =
      match lastPair rows k with
      | some v => some v
      | none => AList.lookup k acc := by
  induction rows generalizing acc with
  | nil => simp [lastPair, lastMatch]
  | cons p rest ih =>
    simp only [List.foldl_cons]
    rw [ih]
    simp only [lastPair, lastMatch]
    cases lastMatch (fun p => p.1 == k) rest with
    | some b => rfl
    | none =>
      simp only [lookup_upsert]
      split <;> simp_all

/-- a table built by inserts answers with the last row of the key -/
theorem lookup_tableOf [BEq K] [LawfulBEq K] (k : K) (rows : List (K × V)) :
    AList.lookup k (tableOf rows) = lastPair rows k := by
  unfold tableOf
  rw [lookup_foldl_upsert]
  cases lastPair rows k <;> simp [AList.lookup]

theorem lastPair_some [BEq K] [LawfulBEq K] {rows : List (K × V)} {k : K} {v : V} (h : lastPair rows k = some v) :
    (k, v) ∈ rows := by
  unfold lastPair at h
  split at h
  · rename_i p hp
    simp only [Option.some.injEq] at h; subst h
    obtain ⟨h1, h2⟩ := lastMatch_some hp
    have : p.1 = k := by simpa using h2
    subst this
    exact h1
  · simp at h

theorem lastPair_none [BEq K] [LawfulBEq K] {rows : List (K × V)} {k : K} (h : lastPair rows k = none) :
    ∀ p ∈ rows, p.1 ≠ k := by
  unfold lastPair at h
  split at h
  · simp at h
  · rename_i hp
    intro p hm he
    have := lastMatch_none hp p hm
    simp [he] at this

theorem lastPair_map [BEq K] (g : V → W) (rows : List (K × V)) (k : K) :
    lastPair (rows.map fun e => (e.1, g e.2)) k = (lastPair rows k).map g := by
  induction rows with
  | nil => rfl
  | cons p rest ih =>
    simp only [lastPair, List.map_cons, lastMatch] at ih ⊢
    cases h1 : lastMatch (fun p => p.1 == k) (rest.map fun e => (e.1, g e.2)) with
    | some b =>
      rw [h1] at ih
      cases h2 : lastMatch (fun p => p.1 == k) rest with
      | some c => rw [h2] at ih; simpa using ih
      | none => rw [h2] at ih; simp at ih
    | none =>
      rw [h1] at ih
      cases h2 : lastMatch (fun p => p.1 == k) rest with
      | some c => rw [h2] at ih; simp at ih
      | none =>
        simp only
        by_cases hk : (p.1 == k) = true <;> simp [hk]

/-! ## injectivity and the round trip through a table and its inverse -/

def swap (p : K × K) : K × K := (p.2, p.1)

theorem injOn_spec [BEq K] [LawfulBEq K] {pairs : List (K × K)} {img c : K} (h : injOn pairs img c = true) :
    ∀ p ∈ pairs, p.2 = img → p.1 = c := by
  intro p hp he
  unfold injOn at h
  have := List.all_eq_true.mp h p hp
  simpa [he] using this

/-- mapped or not: if `c` is the only source of its image, the inverse table leads back to `c` -/
theorem roundtrip_core [BEq K] [LawfulBEq K] (pairs : List (K × K)) (c : K)
    (h : injOn pairs (match lastPair pairs c with | some v => v | none => c) c = true) :
    (match lastPair (pairs.map swap) (match lastPair pairs c with | some v => v | none => c) with
      | some v => v
      | none => (match lastPair pairs c with | some v => v | none => c)) = c := by
  generalize himg : (match lastPair pairs c with | some v => v | none => c) = img at h
  cases hb : lastPair (pairs.map swap) img with
  | some x =>
    simp only
    have hm := lastPair_some hb
    obtain ⟨q, hq, hqe⟩ := List.mem_map.mp hm
    simp only [swap, Prod.mk.injEq] at hqe
    have := injOn_spec h q hq hqe.1
    rw [← hqe.2, this]
  | none =>
    simp only
    cases hf : lastPair pairs c with
    | none => rw [hf] at himg; exact himg.symm
    | some v =>
      rw [hf] at himg
      simp only at himg
      subst himg
      have hm := lastPair_some hf
      have := lastPair_none hb (swap (c, v)) (List.mem_map.mpr ⟨_, hm, rfl⟩)
      simp [swap] at this

/-- the same for a key that *is* in the table (used for member tables) -/
theorem roundtrip_lookup [BEq K] [LawfulBEq K] (rows : List (K × K)) (k k' : K)
    (hl : AList.lookup k (tableOf rows) = some k') (h : injOn rows k' k = true) :
    AList.lookup k' (tableOf (rows.map swap)) = some k := by
  rw [lookup_tableOf] at hl ⊢
  have := roundtrip_core rows k (by rw [hl]; exact h)
  rw [hl] at this
  simp only at this
  cases hb : lastPair (rows.map swap) k' with
  | some x => rw [hb] at this; simp only at this; rw [this]
  | none =>
    have hm := lastPair_some hl
    have := lastPair_none hb (swap (k, k')) (List.mem_map.mpr ⟨_, hm, rfl⟩)
    simp [swap] at this

/-! ## `pairsOf` -/

theorem mem_pairsOf {α : Type} {names : α → Names} {src dst : Nat} {rows : List α} {p : JStr × JStr} :
    p ∈ pairsOf names src dst rows ↔
      ∃ e ∈ rows, nameAt (names e) src = some p.1 ∧ nameAt (names e) dst = some p.2 := by
  unfold pairsOf
  simp only [List.mem_filterMap]
  constructor
  · rintro ⟨e, he, h⟩
    refine ⟨e, he, ?_⟩
    split at h
    · rename_i f t hf ht
      simp only [Option.some.injEq] at h; subst h
      exact ⟨hf, ht⟩
    · simp at h
  · rintro ⟨e, he, h1, h2⟩
    exact ⟨e, he, by simp [h1, h2]⟩

theorem pairsOf_swap {α : Type} (names : α → Names) (src dst : Nat) (rows : List α) :
    pairsOf names dst src rows = (pairsOf names src dst rows).map swap := by
  induction rows with
  | nil => rfl
  | cons e rest ih =>
    simp only [pairsOf, List.filterMap_cons] at ih ⊢
    cases h1 : nameAt (names e) src <;> cases h2 : nameAt (names e) dst <;> simp [ih, swap]

theorem classPairs_swap (m : Mappings) (x y : Nat) : classPairs m y x = (classPairs m x y).map swap :=
  pairsOf_swap _ x y m.classes

end Remapper
