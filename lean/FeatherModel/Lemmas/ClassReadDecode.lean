import FeatherModel.Lemmas.ClassReadInsn

/-! C01 lemma `decodeInsn_encode`: decoding any legal encoding of an instruction placed at any offset yields the
instruction (targets as the labels of the target offsets) and consumes exactly its bytes. -/

namespace ClassRead
open Outcome Spec

/-- what the second pass needs to know about the label table for one instruction: every target has a label -/
def TargetsLabelled (l : Labels) (pos : Nat → Nat) (i : Insn) : Prop :=
  ∀ t ∈ targetsOf i, (l.get (pos t)).isSome = true

set_option maxHeartbeats 1000000 in
theorem decodeInsn_encode (p : Pool) (bsms : Option (List Bsm)) (l : Labels) (n : Nat) (pos : Nat → Nat) (a : Nat)
    (si : SInsn) (hleg : si.Legal p bsms n pos a) (ha : a ≤ 65535) (hpos : ∀ t, t < n → pos t ≤ 65535)
    (hl : TargetsLabelled l pos si.insn) (r : Bytes) :
    decodeInsn p bsms l (a, si.encode pos a ++ r) = ok (mapT (labOf l pos) si.insn, (a + si.size a, r)) := by
  obtain ⟨insn, form, cp, pad⟩ := si
  cases insn with
  | simple op =>
    simp only [SInsn.Legal] at hleg
    simp [SInsn.encode, SInsn.size, decodeInsn, cU8_cons, opKind_simple op hleg, mapT]
  | bipush v =>
    simp only [SInsn.Legal] at hleg
    have hk : opKind 0x10 = .bipush := by decide
    simp [SInsn.encode, SInsn.size, decodeInsn, cU8_cons, hk, cI8_of _ v hleg, mapT]
  | sipush v =>
    simp only [SInsn.Legal] at hleg
    have hk : opKind 0x11 = .sipush := by decide
    simp [SInsn.encode, SInsn.size, decodeInsn, cU8_cons, hk, cI16_of _ v hleg, mapT]
  | ldc k =>
    cases form with
    | short =>
      simp only [SInsn.Legal] at hleg
      have hk : opKind 0x12 = .ldc := by decide
      simp [SInsn.encode, SInsn.size, decodeInsn, cU8_cons, hk, hleg.2, mapT]
    | plain =>
      simp only [SInsn.Legal] at hleg
      have hk : opKind 0x13 = .ldcW := by decide
      simp [SInsn.encode, SInsn.size, decodeInsn, cU8_cons, hk, cU16_be _ cp hleg.1, hleg.2, mapT]
    | wide =>
      simp only [SInsn.Legal] at hleg
      have hk : opKind 0x14 = .ldcW := by decide
      simp [SInsn.encode, SInsn.size, decodeInsn, cU8_cons, hk, cU16_be _ cp hleg.1, hleg.2, mapT]
  | load k i =>
    cases form with
    | short =>
      simp only [SInsn.Legal] at hleg
      simp [SInsn.encode, SInsn.size, decodeInsn, cU8_cons, opKind_loadN_aux k hleg.1 i hleg.2, mapT]
    | plain =>
      simp only [SInsn.Legal] at hleg
      simp [SInsn.encode, SInsn.size, decodeInsn, cU8_cons, opKind_load_aux k hleg.1, mapT]
    | wide =>
      simp only [SInsn.Legal] at hleg
      have hk : opKind 0xc4 = .wide := by decide
      have h1 : 21 + k ≤ 25 := by omega
      simp [SInsn.encode, SInsn.size, decodeInsn, decodeWide, cU8_cons, hk, cU16_be _ i hleg.2, mapT, h1]
  | store k i =>
    cases form with
    | short =>
      simp only [SInsn.Legal] at hleg
      simp [SInsn.encode, SInsn.size, decodeInsn, cU8_cons, opKind_storeN_aux k hleg.1 i hleg.2, mapT]
    | plain =>
      simp only [SInsn.Legal] at hleg
      simp [SInsn.encode, SInsn.size, decodeInsn, cU8_cons, opKind_store_aux k hleg.1, mapT]
    | wide =>
      simp only [SInsn.Legal] at hleg
      have hk : opKind 0xc4 = .wide := by decide
      have h1 : ¬ (54 + k ≤ 25) := by omega
      have h2 : 54 + k ≤ 58 := by omega
      simp [SInsn.encode, SInsn.size, decodeInsn, decodeWide, cU8_cons, hk, cU16_be _ i hleg.2, mapT, h1, h2]
  | iinc i v =>
    cases form with
    | short => simp [SInsn.Legal] at hleg
    | plain =>
      simp only [SInsn.Legal] at hleg
      have hk : opKind 0x84 = .iinc := by decide
      simp [SInsn.encode, SInsn.size, decodeInsn, cU8_cons, hk, cI8_of _ v hleg.2, mapT]
    | wide =>
      simp only [SInsn.Legal] at hleg
      have hk : opKind 0xc4 = .wide := by decide
      simp [SInsn.encode, SInsn.size, decodeInsn, decodeWide, cU8_cons, hk, cU16_be _ i hleg.1, cI16_of _ v hleg.2, mapT]
  | branch op t =>
    simp only [SInsn.Legal] at hleg
    have hlt := hl t (by simp [targetsOf])
    simp [SInsn.encode, SInsn.size, decodeInsn, cU8_cons, opKind_cond op hleg.1,
      cBranch16_rel pos a (a + 1) t hleg.2.2 (hpos t hleg.2.1), tryGet_labOf l pos t hlt, mapT]
  | goto t =>
    have hlt := hl t (by simp [targetsOf])
    cases form with
    | short => simp [SInsn.Legal] at hleg
    | plain =>
      simp only [SInsn.Legal] at hleg
      have hk : opKind 0xa7 = .goto := by decide
      simp [SInsn.encode, SInsn.size, decodeInsn, cU8_cons, hk,
        cBranch16_rel pos a (a + 1) t hleg.2 (hpos t hleg.1), tryGet_labOf l pos t hlt, mapT]
    | wide =>
      simp only [SInsn.Legal] at hleg
      have hk : opKind 0xc8 = .gotoW := by decide
      simp [SInsn.encode, SInsn.size, decodeInsn, cU8_cons, hk,
        cBranch32_rel pos a (a + 1) t ha (hpos t hleg), tryGet_labOf l pos t hlt, mapT]
  | jsr t =>
    have hlt := hl t (by simp [targetsOf])
    cases form with
    | short => simp [SInsn.Legal] at hleg
    | plain =>
      simp only [SInsn.Legal] at hleg
      have hk : opKind 0xa8 = .jsr := by decide
      simp [SInsn.encode, SInsn.size, decodeInsn, cU8_cons, hk,
        cBranch16_rel pos a (a + 1) t hleg.2 (hpos t hleg.1), tryGet_labOf l pos t hlt, mapT]
    | wide =>
      simp only [SInsn.Legal] at hleg
      have hk : opKind 0xc9 = .jsrW := by decide
      simp [SInsn.encode, SInsn.size, decodeInsn, cU8_cons, hk,
        cBranch32_rel pos a (a + 1) t ha (hpos t hleg), tryGet_labOf l pos t hlt, mapT]
  | ret i =>
    cases form with
    | short => simp [SInsn.Legal] at hleg
    | plain =>
      simp only [SInsn.Legal] at hleg
      have hk : opKind 0xa9 = .ret := by decide
      simp [SInsn.encode, SInsn.size, decodeInsn, cU8_cons, hk, mapT]
    | wide =>
      simp only [SInsn.Legal] at hleg
      have hk : opKind 0xc4 = .wide := by decide
      simp [SInsn.encode, SInsn.size, decodeInsn, decodeWide, cU8_cons, hk, cU16_be _ i hleg, mapT]
  | tableswitch d lo hi tbl =>
    have hk : opKind 0xaa = .tableswitch := by decide
    have hleg' : d < n ∧ (∀ t ∈ tbl, t < n) ∧ inI32 lo ∧ inI32 hi ∧ lo ≤ hi ∧ (tbl.length : Int) = hi - lo + 1 ∧ tbl.length < 16384 ∧ pad < 256 := by
      cases form <;> simpa [SInsn.Legal] using hleg
    obtain ⟨hd, htb, hlo, hhi, hle, hlen, hsmall, _⟩ := hleg'
    have hld := hl d (by simp [targetsOf])
    have htl : ∀ t ∈ tbl, pos t ≤ 65535 ∧ (l.get (pos t)).isSome = true :=
      fun t ht => ⟨hpos t (htb t ht), hl t (by simp [targetsOf, ht])⟩
    have hcnt : tableCount lo hi = ok tbl.length :=
      tableCount_ok lo hi tbl.length hle hlen hlo hhi (by omega)
    have henc : SInsn.encode pos a ⟨.tableswitch d lo hi tbl, form, cp, pad⟩ =
        0xaa :: (List.replicate (padLen a) pad ++ (be32 (ofI32 (relOff pos a d)) ++ (be32 (ofI32 lo) ++ (be32 (ofI32 hi)
          ++ tbl.flatMap (fun t => be32 (ofI32 (relOff pos a t))))))) := by
      cases form <;> simp [SInsn.encode, List.append_assoc]
    have hsize : SInsn.size a ⟨.tableswitch d lo hi tbl, form, cp, pad⟩ = 1 + padLen a + 12 + 4 * tbl.length := by
      cases form <;> simp [SInsn.size]
    rw [henc, hsize]
    simp only [decodeInsn, List.cons_append, List.append_assoc, cU8_cons, ok_bind, hk, cAlign_pad a pad,
      cBranch32_rel pos a _ d ha (hpos d hd), tryGet_labOf l pos d hld, cI32_of _ lo hlo, cI32_of _ hi hhi, hcnt,
      pass2Table_enc l pos a _ ha tbl htl, pure_eq, mapT]
    congr 3; omega
  | lookupswitch d pairs =>
    have hk : opKind 0xab = .lookupswitch := by decide
    have hleg' : d < n ∧ (∀ kt ∈ pairs, kt.2 < n ∧ inI32 kt.1) ∧ pairs.length < 8192 ∧ pad < 256 := by
      cases form <;> simpa [SInsn.Legal] using hleg
    obtain ⟨hd, htb, hlen, _⟩ := hleg'
    have hld := hl d (by simp [targetsOf])
    have htl : ∀ kt ∈ pairs, pos kt.2 ≤ 65535 ∧ (l.get (pos kt.2)).isSome = true ∧ inI32 kt.1 :=
      fun kt hkt => ⟨hpos kt.2 (htb kt hkt).1, hl kt.2 (by simp only [targetsOf, List.mem_cons, List.mem_map]; exact Or.inr ⟨kt, hkt, rfl⟩),
        (htb kt hkt).2⟩
    have henc : SInsn.encode pos a ⟨.lookupswitch d pairs, form, cp, pad⟩ =
        0xab :: (List.replicate (padLen a) pad ++ (be32 (ofI32 (relOff pos a d)) ++ (be32 pairs.length
          ++ pairs.flatMap (fun kt => be32 (ofI32 kt.1) ++ be32 (ofI32 (relOff pos a kt.2)))))) := by
      cases form <;> simp [SInsn.encode, List.append_assoc]
    have hsize : SInsn.size a ⟨.lookupswitch d pairs, form, cp, pad⟩ = 1 + padLen a + 8 + 8 * pairs.length := by
      cases form <;> simp [SInsn.size]
    have hn : cI32 (a + 1 + padLen a + 4, be32 pairs.length ++
        (pairs.flatMap (fun kt => be32 (ofI32 kt.1) ++ be32 (ofI32 (relOff pos a kt.2))) ++ r))
        = ok ((pairs.length : Int), (a + 1 + padLen a + 4 + 4, pairs.flatMap (fun kt => be32 (ofI32 kt.1) ++ be32 (ofI32 (relOff pos a kt.2))) ++ r)) := by
      have := cI32_of (a + 1 + padLen a + 4) (pairs.length : Int) (by unfold inI32; omega)
        (pairs.flatMap (fun kt => be32 (ofI32 kt.1) ++ be32 (ofI32 (relOff pos a kt.2))) ++ r)
      have e : ofI32 (pairs.length : Int) = pairs.length := by unfold ofI32; omega
      rw [e] at this; exact this
    have hneg : ¬ ((pairs.length : Int) < 0) := by omega
    rw [henc, hsize]
    simp only [decodeInsn, List.cons_append, List.append_assoc, cU8_cons, ok_bind, hk, cAlign_pad a pad,
      cBranch32_rel pos a _ d ha (hpos d hd), tryGet_labOf l pos d hld, hn, hneg, if_false, Int.toNat_natCast,
      pass2Pairs_enc l pos a _ ha pairs htl, pure_eq, mapT]
    congr 3; omega
  | field op rf =>
    simp only [SInsn.Legal] at hleg
    have hop : op < 256 := by omega
    simp [SInsn.encode, SInsn.size, decodeInsn, cU8_cons, opKind_field_aux op hop hleg.1 hleg.2.1,
      cU16_be _ cp hleg.2.2.1, hleg.2.2.2, mapT]
  | invokevirtual m =>
    simp only [SInsn.Legal] at hleg
    have hk : opKind 0xb6 = .invokevirtual := by decide
    simp [SInsn.encode, SInsn.size, decodeInsn, cU8_cons, hk, cU16_be _ cp hleg.1, hleg.2, mapT]
  | invokespecial m itf =>
    simp only [SInsn.Legal] at hleg
    have hk : opKind 0xb7 = .invokespecial := by decide
    simp [SInsn.encode, SInsn.size, decodeInsn, cU8_cons, hk, cU16_be _ cp hleg.1, hleg.2, mapT]
  | invokestatic m itf =>
    simp only [SInsn.Legal] at hleg
    have hk : opKind 0xb8 = .invokestatic := by decide
    simp [SInsn.encode, SInsn.size, decodeInsn, cU8_cons, hk, cU16_be _ cp hleg.1, hleg.2, mapT]
  | invokeinterface m =>
    simp only [SInsn.Legal] at hleg
    have hk : opKind 0xb9 = .invokeinterface := by decide
    simp [SInsn.encode, SInsn.size, decodeInsn, cU8_cons, hk, cU16_be _ cp hleg.1, hleg.2.1, mapT]
  | invokedynamic dd =>
    simp only [SInsn.Legal] at hleg
    obtain ⟨hcp, d', hd', rfl⟩ := hleg
    have hk : opKind 0xba = .invokedynamic := by decide
    simp [SInsn.encode, SInsn.size, decodeInsn, cU8_cons, hk, cU16_be _ cp hcp, hd', mapT]
  | new c =>
    simp only [SInsn.Legal] at hleg
    have hk : opKind 0xbb = .new := by decide
    simp [SInsn.encode, SInsn.size, decodeInsn, cU8_cons, hk, cU16_be _ cp hleg.1, hleg.2, mapT]
  | newarray at_ =>
    simp only [SInsn.Legal] at hleg
    have hk : opKind 0xbc = .newarray := by decide
    simp [SInsn.encode, SInsn.size, decodeInsn, cU8_cons, hk, hleg.1, hleg.2, mapT]
  | anewarray c =>
    simp only [SInsn.Legal] at hleg
    have hk : opKind 0xbd = .anewarray := by decide
    simp [SInsn.encode, SInsn.size, decodeInsn, cU8_cons, hk, cU16_be _ cp hleg.1, hleg.2, mapT]
  | checkcast c =>
    simp only [SInsn.Legal] at hleg
    have hk : opKind 0xc0 = .checkcast := by decide
    simp [SInsn.encode, SInsn.size, decodeInsn, cU8_cons, hk, cU16_be _ cp hleg.1, hleg.2, mapT]
  | instanceof c =>
    simp only [SInsn.Legal] at hleg
    have hk : opKind 0xc1 = .instanceof := by decide
    simp [SInsn.encode, SInsn.size, decodeInsn, cU8_cons, hk, cU16_be _ cp hleg.1, hleg.2, mapT]
  | multianewarray c dims =>
    simp only [SInsn.Legal] at hleg
    have hk : opKind 0xc5 = .multianewarray := by decide
    simp [SInsn.encode, SInsn.size, decodeInsn, cU8_cons, hk, cU16_be _ cp hleg.1, hleg.2.1, mapT]

end ClassRead
