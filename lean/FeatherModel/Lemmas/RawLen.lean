import FeatherModel.Lemmas.RawBasic

/-! C20: `_len()` is the number of bytes `_write` produces (every layout, every value). -/

namespace RawLayout

theorem writeConsts_length (tl : Option Nat) (ctx : List (Nat × Val)) :
    ∀ (cs : List Const) (b : Bytes), writeConsts tl ctx cs = some b → b.length = constsLen cs := by
  intro cs
  induction cs with
  | nil => intro b h; simp [writeConsts] at h; subst h; rfl
  | cons c cs ih =>
    intro b h
    simp only [writeConsts] at h
    split at h
    · rename_i n r hn hr
      simp at h; subst h
      simp [constsLen, be_length, ih r hr]
    · cases h

/-- the statement for one value, all types -/
def LenOk (env : Env) (v : Val) : Prop := ∀ ty b, writeV env ty v = some b → b.length = lenV env ty v

theorem writeAll_length (env : Env) (el : Ty) :
    ∀ (vs : List Val), (∀ v ∈ vs, LenOk env v) → ∀ b, writeAll env el vs = some b → b.length = lenAll env el vs := by
  intro vs
  induction vs with
  | nil => intro _ b h; simp [writeAll] at h; subst h; rfl
  | cons v vs ih =>
    intro hall b h
    simp only [writeAll] at h
    split at h
    · rename_i a r ha hr
      simp at h; subst h
      simp [lenAll, hall v (by simp) el a ha, ih (fun w hw => hall w (by simp [hw])) r hr]
    · cases h

theorem writeFields_length (env : Env) (tl : Option Nat) (ctx : List (Nat × Val)) :
    ∀ (fds : List Field) (vs : List Val), (∀ v ∈ vs, LenOk env v) →
      ∀ b, writeFields env tl ctx fds vs = some b → b.length = lenFields env fds vs := by
  intro fds
  induction fds with
  | nil =>
    intro vs _ b h
    cases vs with
    | nil => simp [writeFields] at h; subst h; rfl
    | cons v vs => simp [writeFields] at h
  | cons f fds ih =>
    intro vs hall b h
    cases vs with
    | nil => simp [writeFields] at h
    | cons v vs =>
      simp only [writeFields] at h
      split at h
      · rename_i a c r ha hc hr
        simp at h; subst h
        have h2 := writeConsts_length tl ctx f.post c hc
        have h3 := ih vs (fun w hw => hall w (by simp [hw])) r hr
        simp only [lenFields, List.length_append, h2, h3]
        cases hk : f.kind with
        | field ty sp => rw [hk] at ha; simp at ha; simp [hall v (by simp) ty a ha]
        | nowrite p e =>
          rw [hk] at ha
          cases v <;> simp at ha
          subst ha; simp
      · cases h

theorem writeV_length (env : Env) : ∀ v, LenOk env v := by
  intro v
  induction v using Val.ind with
  | hnum n =>
    intro ty b h
    cases ty <;> simp [writeV] at h
    obtain ⟨_, rfl⟩ := h
    simp [lenV, be_length]
  | hlist vs ih =>
    intro ty b h
    cases ty with
    | prim p => simp [writeV] at h
    | ref id => simp [writeV] at h
    | vecCnt c el =>
      simp only [writeV] at h
      split at h
      · rename_i r hr
        simp at h; subst h
        simp [lenV, be_length, writeAll_length env el vs ih r hr]
      · cases h
    | vecLen e el =>
      simp only [writeV] at h
      simp [lenV, writeAll_length env el vs ih b h]
    | vecSlots e w el =>
      simp only [writeV] at h
      simp [lenV, writeAll_length env el vs ih b h]
  | hnode k fs ih =>
    intro ty b h
    cases ty with
    | prim p => simp [writeV] at h
    | vecCnt c el => simp [writeV] at h
    | vecLen e el => simp [writeV] at h
    | vecSlots e w el => simp [writeV] at h
    | ref id =>
      simp only [writeV] at h
      simp only [lenV]
      split at h
      · -- struct
        rename_i nm body hd
        split at h
        · split at h
          · rename_i a r ha hr
            simp at h; subst h
            simp [writeConsts_length _ _ _ a ha, writeFields_length env _ _ _ fs ih r hr]
          · cases h
        · cases h
      · -- enum
        rename_i nm tn tagTy variants fb hd
        split at h
        · rename_i var hv
          split at h
          · rename_i t a r ht ha hr
            simp at h; subst h
            simp [be_length, writeConsts_length _ _ _ a ha, writeFields_length env _ _ _ fs ih r hr]
          · cases h
        · cases h
      · cases h

theorem len_eq_write_length (env : Env) (ty : Ty) (v : Val) (b : Bytes) (h : writeV env ty v = some b) :
    b.length = lenV env ty v := writeV_length env v ty b h

end RawLayout
