import FeatherModel.Model.VersionGraph
import FeatherModel.Lemmas.AList

namespace VG

theorem lookup_append_single {V : Type} (m : AList JStr V) (k k' : JStr) (v : V) :
    AList.lookup k (m ++ [(k', v)]) =
      match AList.lookup k m with
      | some x => some x
      | none => if k' = k then some v else none := by
  induction m with
  | nil => simp [AList.lookup]
  | cons e rest ih =>
    obtain ⟨k0, v0⟩ := e
    simp only [List.cons_append, AList.lookup]
    by_cases h : (k0 == k) = true
    · simp [h]
    · simp only [h]; exact ih

theorem keyKind_some_mem {k vs : JStr} {sp : Split} (h : keyKind k vs = some sp) : k ∈ keysOf vs := by
  unfold keyKind at h
  unfold keysOf
  split at h
  · split at h
    · simp_all
    · split at h
      · simp_all
      · simp at h
  · split at h
    · simp_all
    · simp at h

/-- the closed form of the `versions` table after registering the version strings `seen` -/
def VersionsSpec (g : Graph) (seen : List JStr) : Prop :=
  ∀ k sp n, AList.lookup k g.versions = some (sp, n) ↔ (n ∈ seen ∧ keyKind k n = some sp)

theorem versionsSpec_empty : VersionsSpec Graph.empty [] := by
  intro k sp n
  simp [Graph.empty, AList.lookup]

theorem addNode_spec {g : Graph} {seen : List JStr} {vs : JStr}
    (hinv : VersionsSpec g seen) (hwf : KeysDisjoint (vs :: seen)) :
    (addNode g vs).2 = vs ∧ VersionsSpec (addNode g vs).1 (vs :: seen) ∧
    (addNode g vs).1.edges = g.edges ∧ (addNode g vs).1.root = g.root := by
  -- a key of `vs` that is already registered is registered for `vs` itself
  have hown : ∀ k sp n, k ∈ keysOf vs → AList.lookup k g.versions = some (sp, n) → n = vs := by
    intro k sp n hk hl
    obtain ⟨hn, hkk⟩ := (hinv k sp n).mp hl
    cases Decidable.em (n = vs) with
    | inl h => exact h
    | inr h =>
      exact absurd (keyKind_some_mem hkk)
        (hwf vs (List.mem_cons_self) n (List.mem_cons_of_mem _ hn) (fun e => h e.symm) k hk)
  unfold addNode
  cases hs : splitOnce TILDE vs with
  | none =>
    have hkeys : keysOf vs = [vs] := by simp [keysOf, hs]
    simp only
    cases hl : AList.lookup vs g.versions with
    | some q =>
      obtain ⟨sp0, n0⟩ := q
      have hn0 := hown vs sp0 n0 (by simp [hkeys]) hl
      subst hn0
      refine ⟨by first | rfl | trivial, ?_, by first | rfl | trivial, by first | rfl | trivial⟩
      intro k sp n
      rw [hinv k sp n]
      have hmem : n0 ∈ seen := ((hinv n0 sp0 n0).mp hl).1
      constructor
      · intro ⟨h1, h2⟩; exact ⟨List.mem_cons_of_mem _ h1, h2⟩
      · intro ⟨h1, h2⟩
        rcases List.mem_cons.mp h1 with h | h
        · subst h; exact ⟨hmem, h2⟩
        · exact ⟨h, h2⟩
    | none =>
      refine ⟨by first | rfl | trivial, ?_, by first | rfl | trivial, by first | rfl | trivial⟩
      intro k sp n
      simp only [lookup_append_single]
      cases hk : AList.lookup k g.versions with
      | some q =>
        obtain ⟨sp1, n1⟩ := q
        simp only [Option.some.injEq, Prod.mk.injEq]
        have h1 := (hinv k sp1 n1).mp hk
        constructor
        · intro ⟨e1, e2⟩; subst e1; subst e2
          exact ⟨List.mem_cons_of_mem _ h1.1, h1.2⟩
        · intro ⟨hm, hkk⟩
          rcases List.mem_cons.mp hm with h | h
          · subst h
            -- k is a key of vs = n, so k = vs, but lookup vs = none
            have : k = n := by
              have := keyKind_some_mem hkk
              simpa [hkeys] using this
            subst this
            rw [hl] at hk; simp at hk
          · have := (hinv k sp n).mpr ⟨h, hkk⟩
            rw [hk] at this
            simpa using this
      | none =>
        simp only
        constructor
        · intro h
          split at h
          · rename_i hvk
            simp only [Option.some.injEq, Prod.mk.injEq] at h
            obtain ⟨e1, e2⟩ := h
            subst e1; subst e2; subst hvk
            exact ⟨List.mem_cons_self, by simp [keyKind, hs]⟩
          · simp at h
        · intro ⟨hm, hkk⟩
          rcases List.mem_cons.mp hm with h | h
          · subst h
            have : k = n := by
              have := keyKind_some_mem hkk
              simpa [hkeys] using this
            subst this
            simp only [keyKind, hs, if_true, Option.some.injEq] at hkk
            subst hkk
            simp
          · have := (hinv k sp n).mpr ⟨h, hkk⟩
            rw [hk] at this
            simp at this
  | some cs =>
    obtain ⟨c, s⟩ := cs
    have hkeys : keysOf vs = [c, s] := by simp [keysOf, hs]
    simp only
    -- first half
    cases hlc : AList.lookup c g.versions with
    | some q =>
      obtain ⟨sp0, n0⟩ := q
      have hn0 := hown c sp0 n0 (by simp [hkeys]) hlc
      subst hn0
      have hmem : n0 ∈ seen := ((hinv c sp0 n0).mp hlc).1
      -- then the second half is registered as well
      have hls : ∃ q, AList.lookup s g.versions = some q := by
        by_cases hcs : s = c
        · subst hcs; exact ⟨_, hlc⟩
        · exact ⟨_, (hinv s Split.second n0).mpr ⟨hmem, by simp [keyKind, hs, hcs]⟩⟩
      obtain ⟨q, hq⟩ := hls
      simp only [hq]
      refine ⟨by first | rfl | trivial, ?_, by first | rfl | trivial, by first | rfl | trivial⟩
      intro k sp n
      rw [hinv k sp n]
      constructor
      · intro ⟨h1, h2⟩; exact ⟨List.mem_cons_of_mem _ h1, h2⟩
      · intro ⟨h1, h2⟩
        rcases List.mem_cons.mp h1 with h | h
        · subst h; exact ⟨hmem, h2⟩
        · exact ⟨h, h2⟩
    | none =>
      simp only
      -- vs was not seen before (otherwise c would be registered)
      have hnew : vs ∉ seen := by
        intro hm
        have := (hinv c Split.first vs).mpr ⟨hm, by simp [keyKind, hs]⟩
        rw [hlc] at this; simp at this
      -- so s is not registered either, unless s = c
      have hls_old : AList.lookup s g.versions = none := by
        cases hq : AList.lookup s g.versions with
        | none => rfl
        | some q =>
          obtain ⟨sp1, n1⟩ := q
          have := hown s sp1 n1 (by simp [hkeys]) hq
          subst this
          exact absurd ((hinv s sp1 n1).mp hq).1 hnew
      by_cases hcs : c = s
      · subst hcs
        have hl2 : AList.lookup c (g.versions ++ [(c, (Split.first, vs))]) = some (Split.first, vs) := by
          simp [lookup_append_single, hlc]
        simp only [hl2]
        refine ⟨by first | rfl | trivial, ?_, by first | rfl | trivial, by first | rfl | trivial⟩
        intro k sp n
        simp only [lookup_append_single]
        cases hk : AList.lookup k g.versions with
        | some q =>
          obtain ⟨sp1, n1⟩ := q
          simp only [Option.some.injEq, Prod.mk.injEq]
          have h1 := (hinv k sp1 n1).mp hk
          constructor
          · intro ⟨e1, e2⟩; subst e1; subst e2
            exact ⟨List.mem_cons_of_mem _ h1.1, h1.2⟩
          · intro ⟨hm, hkk⟩
            rcases List.mem_cons.mp hm with h | h
            · subst h
              have : k = c := by
                have := keyKind_some_mem hkk
                simpa [hkeys] using this
              subst this
              rw [hlc] at hk; simp at hk
            · have := (hinv k sp n).mpr ⟨h, hkk⟩
              rw [hk] at this
              simpa using this
        | none =>
          simp only
          constructor
          · intro h
            split at h
            · rename_i hvk
              simp only [Option.some.injEq, Prod.mk.injEq] at h
              obtain ⟨e1, e2⟩ := h
              subst e1; subst e2; subst hvk
              exact ⟨List.mem_cons_self, by simp [keyKind, hs]⟩
            · simp at h
          · intro ⟨hm, hkk⟩
            rcases List.mem_cons.mp hm with h | h
            · subst h
              have hkc : k = c := by
                have := keyKind_some_mem hkk
                simpa [hkeys] using this
              subst hkc
              simp only [keyKind, hs, if_true, Option.some.injEq] at hkk
              subst hkk
              simp
            · have := (hinv k sp n).mpr ⟨h, hkk⟩
              rw [hk] at this
              simp at this
      · have hl2 : AList.lookup s (g.versions ++ [(c, (Split.first, vs))]) = none := by
          simp [lookup_append_single, hls_old, hcs]
        simp only [hl2]
        refine ⟨by first | rfl | trivial, ?_, by first | rfl | trivial, by first | rfl | trivial⟩
        intro k sp n
        simp only [lookup_append_single]
        cases hk : AList.lookup k g.versions with
        | some q =>
          obtain ⟨sp1, n1⟩ := q
          simp only [Option.some.injEq, Prod.mk.injEq]
          have h1 := (hinv k sp1 n1).mp hk
          constructor
          · intro ⟨e1, e2⟩; subst e1; subst e2
            exact ⟨List.mem_cons_of_mem _ h1.1, h1.2⟩
          · intro ⟨hm, hkk⟩
            rcases List.mem_cons.mp hm with h | h
            · subst h
              have : k = c ∨ k = s := by
                have := keyKind_some_mem hkk
                simpa [hkeys] using this
              rcases this with h | h
              · subst h; rw [hlc] at hk; simp at hk
              · subst h; rw [hls_old] at hk; simp at hk
            · have := (hinv k sp n).mpr ⟨h, hkk⟩
              rw [hk] at this
              simpa using this
        | none =>
          simp only
          constructor
          · intro h
            by_cases hck : c = k
            · subst hck
              simp only [if_true, Option.some.injEq, Prod.mk.injEq] at h
              obtain ⟨e1, e2⟩ := h
              subst e1; subst e2
              exact ⟨List.mem_cons_self, by simp [keyKind, hs]⟩
            · simp only [hck, if_false] at h
              by_cases hsk : s = k
              · subst hsk
                simp only [if_true, Option.some.injEq, Prod.mk.injEq] at h
                obtain ⟨e1, e2⟩ := h
                subst e1; subst e2
                exact ⟨List.mem_cons_self, by simp [keyKind, hs, Ne.symm hcs]⟩
              · simp [hsk] at h
          · intro ⟨hm, hkk⟩
            rcases List.mem_cons.mp hm with h | h
            · subst h
              simp only [keyKind, hs] at hkk
              by_cases hck : k = c
              · subst hck
                simp only [if_true, Option.some.injEq] at hkk
                subst hkk
                simp
              · simp only [hck, if_false] at hkk
                by_cases hsk : k = s
                · subst hsk
                  simp only [if_true, Option.some.injEq] at hkk
                  subst hkk
                  simp [Ne.symm hck]
                · simp [hsk] at hkk
            · have := (hinv k sp n).mpr ⟨h, hkk⟩
              rw [hk] at this
              simp at this

end VG

namespace VG

theorem keysDisjoint_sub {a b : List JStr} (h : KeysDisjoint b) (hs : ∀ x, x ∈ a → x ∈ b) : KeysDisjoint a :=
  fun v1 h1 v2 h2 hne k hk => h v1 (hs _ h1) v2 (hs _ h2) hne k hk

theorem addFile_spec {g g' : Graph} {seen : List JStr} {f : JStr × Bytes}
    (hinv : VersionsSpec g seen) (hwf : KeysDisjoint (fileVersions f ++ seen))
    (h : addFile g f = some g') :
    VersionsSpec g' (fileVersions f ++ seen) ∧
    g'.edges = g.edges ++ (fileEdge f).toList ∧
    (match fileRoot f with
     | some r => g.root = none ∧ g'.root = some r
     | none => g'.root = g.root) := by
  unfold addFile at h
  cases ht : stripSuffix EXT_TINY f.1 with
  | some vs =>
    rw [ht] at h
    simp only at h
    have hfv : fileVersions f = [vs] := by simp [fileVersions, ht]
    rw [hfv] at hwf ⊢
    obtain ⟨hnode, hspec, hedges, hroot⟩ := addNode_spec (g := g) (vs := vs) hinv hwf
    cases hr : (addNode g vs).1.root with
    | some r => rw [hr] at h; simp at h
    | none =>
      rw [hr] at h
      simp only [Option.some.injEq] at h
      subst h
      refine ⟨hspec, ?_, ?_⟩
      · simp [fileEdge, ht, hedges]
      · simp only [fileRoot, ht]
        rw [hroot] at hr
        exact ⟨hr, by rw [hnode]⟩
  | none =>
    rw [ht] at h
    simp only at h
    cases hd : stripSuffix EXT_DIFF f.1 with
    | none =>
      rw [hd] at h
      simp only [Option.some.injEq] at h
      subst h
      have hfv : fileVersions f = [] := by simp [fileVersions, ht, hd]
      rw [hfv]
      exact ⟨hinv, by simp [fileEdge, ht, hd], by simp [fileRoot, ht]⟩
    | some raw =>
      rw [hd] at h
      simp only at h
      cases hh : splitOnce HASH raw with
      | none => rw [hh] at h; simp at h
      | some pv =>
        obtain ⟨parent, version⟩ := pv
        rw [hh] at h
        simp only [Option.some.injEq] at h
        have hfv : fileVersions f = [version, parent] := by simp [fileVersions, ht, hd, hh]
        rw [hfv] at hwf ⊢
        have hwf1 : KeysDisjoint (version :: seen) :=
          keysDisjoint_sub hwf (by intro x hx; simp at hx ⊢; rcases hx with h | h <;> simp [h])
        obtain ⟨hn1, hs1, he1, hr1⟩ := addNode_spec (g := g) (vs := version) hinv hwf1
        have hwf2 : KeysDisjoint (parent :: version :: seen) :=
          keysDisjoint_sub hwf (by intro x hx; simp at hx ⊢; rcases hx with h | h | h <;> simp [h])
        obtain ⟨hn2, hs2, he2, hr2⟩ := addNode_spec (g := (addNode g version).1) (vs := parent) hs1 hwf2
        subst h
        refine ⟨?_, ?_, ?_⟩
        · intro k sp n
          rw [hs2 k sp n]
          simp only [List.mem_cons, List.cons_append, List.nil_append]
          constructor
          · intro ⟨h1, h2⟩; exact ⟨by rcases h1 with h | h | h <;> simp [h], h2⟩
          · intro ⟨h1, h2⟩; exact ⟨by rcases h1 with h | h | h <;> simp [h], h2⟩
        · simp [fileEdge, ht, hd, hh, he2, he1, hn1, hn2]
        · simp only [fileRoot, ht]
          rw [hr2, hr1]

theorem addFiles_spec : ∀ (files : List (JStr × Bytes)) {g g' : Graph} {seen : List JStr},
    VersionsSpec g seen → KeysDisjoint (dirVersions files ++ seen) → addFiles g files = some g' →
    (∃ seen', (∀ n, n ∈ seen' ↔ (n ∈ dirVersions files ∨ n ∈ seen)) ∧ VersionsSpec g' seen') ∧
    g'.edges = g.edges ++ dirEdges files ∧
    (match g.root with
     | some r => dirRoots files = [] ∧ g'.root = some r
     | none => (dirRoots files = [] ∧ g'.root = none) ∨ (∃ r, dirRoots files = [r] ∧ g'.root = some r)) := by
  intro files
  induction files with
  | nil =>
    intro g g' seen hinv _ h
    simp only [addFiles, Option.some.injEq] at h
    subst h
    refine ⟨⟨seen, by simp [dirVersions], hinv⟩, by simp [dirEdges], ?_⟩
    cases g.root <;> simp [dirRoots]
  | cons f fs ih =>
    intro g g' seen hinv hwf h
    simp only [addFiles] at h
    cases hf : addFile g f with
    | none => rw [hf] at h; simp at h
    | some g1 =>
      rw [hf] at h
      simp only at h
      have hsub1 : KeysDisjoint (fileVersions f ++ seen) :=
        keysDisjoint_sub hwf (by
          intro x hx
          simp only [dirVersions, List.flatMap_cons, List.mem_append] at hx ⊢
          rcases hx with h | h
          · exact Or.inl (Or.inl h)
          · exact Or.inr h)
      obtain ⟨hs1, he1, hr1⟩ := addFile_spec hinv hsub1 hf
      have hsub2 : KeysDisjoint (dirVersions fs ++ (fileVersions f ++ seen)) :=
        keysDisjoint_sub hwf (by
          intro x hx
          simp only [dirVersions, List.flatMap_cons, List.mem_append] at hx ⊢
          rcases hx with h | h | h
          · exact Or.inl (Or.inr h)
          · exact Or.inl (Or.inl h)
          · exact Or.inr h)
      obtain ⟨⟨seen', hseen', hspec'⟩, he2, hr2⟩ := ih hs1 hsub2 h
      refine ⟨⟨seen', ?_, hspec'⟩, ?_, ?_⟩
      · intro n
        rw [hseen' n]
        simp only [dirVersions, List.flatMap_cons, List.mem_append]
        constructor
        · intro h
          rcases h with h | h | h
          · exact Or.inl (Or.inr h)
          · exact Or.inl (Or.inl h)
          · exact Or.inr h
        · intro h
          rcases h with (h | h) | h
          · exact Or.inr (Or.inl h)
          · exact Or.inl h
          · exact Or.inr (Or.inr h)
      · rw [he2, he1]
        simp only [dirEdges, List.filterMap_cons]
        cases fileEdge f <;> simp
      · simp only [dirRoots, List.filterMap_cons]
        cases hfr : fileRoot f with
        | some r =>
          rw [hfr] at hr1
          simp only at hr1
          obtain ⟨hg, hg1⟩ := hr1
          rw [hg]
          rw [hg1] at hr2
          simp only at hr2 ⊢
          obtain ⟨hnil, hroot⟩ := hr2
          simp only [dirRoots] at hnil
          exact Or.inr ⟨r, by simp [hnil], hroot⟩
        | none =>
          rw [hfr] at hr1
          simp only at hr1
          rw [hr1] at hr2
          simpa [dirRoots] using hr2

end VG
