import FeatherModel.Model.VersionGraph
import FeatherModel.Lemmas.AList

namespace VG

theorem lookup_append_single {V : Type} (m : AList JStr V) (k k' : JStr) (v : V) :
    AList.lookup k (m ++ [(k', v)]) =
      match AList.lookup k m with
      | some x => some x
      | none => if k' = k then some v else none := by
  induction m with
  | nil => simp [AList.lookup]
  | cons e rest ih =>
    obtain ⟨k0, v0⟩ := e
    simp only [List.cons_append, AList.lookup]
    by_cases h : (k0 == k) = true
    · simp [h]
    · simp only [h]; exact ih

theorem keyKind_some_mem {k vs : JStr} {sp : Split} (h : keyKind k vs = some sp) : k ∈ keysOf vs := by
  unfold keyKind at h
  unfold keysOf
  split at h
  · split at h
    · simp_all
    · split at h
      · simp_all
      · simp at h
  · split at h
    · simp_all
    · simp at h

/-- the closed form of the `versions` table after registering the version strings `seen` -/
def VersionsSpec (g : Graph) (seen : List JStr) : Prop :=
  ∀ k sp n, AList.lookup k g.versions = some (sp, n) ↔ (n ∈ seen ∧ keyKind k n = some sp)

theorem versionsSpec_empty : VersionsSpec Graph.empty [] := by
  intro k sp n
  simp [Graph.empty, AList.lookup]

theorem addNodeRaw_spec {g : Graph} {seen : List JStr} {vs : JStr}
    (hinv : VersionsSpec g seen) (hwf : KeysDisjoint (vs :: seen)) :
    (addNodeRaw g vs).2 = vs ∧ VersionsSpec (addNodeRaw g vs).1 (vs :: seen) ∧
    (addNodeRaw g vs).1.edges = g.edges ∧ (addNodeRaw g vs).1.root = g.root := by
  -- a key of `vs` that is already registered is registered for `vs` itself
  have hown : ∀ k sp n, k ∈ keysOf vs → AList.lookup k g.versions = some (sp, n) → n = vs := by
    intro k sp n hk hl
    obtain ⟨hn, hkk⟩ := (hinv k sp n).mp hl
    cases Decidable.em (n = vs) with
    | inl h => exact h
    | inr h =>
      exact absurd (keyKind_some_mem hkk)
        (hwf vs (List.mem_cons_self) n (List.mem_cons_of_mem _ hn) (fun e => h e.symm) k hk)
  unfold addNodeRaw
  cases hs : splitOnce TILDE vs with
  | none =>
    have hkeys : keysOf vs = [vs] := by simp [keysOf, hs]
    simp only
    cases hl : AList.lookup vs g.versions with
    | some q =>
      obtain ⟨sp0, n0⟩ := q
      have hn0 := hown vs sp0 n0 (by simp [hkeys]) hl
      subst hn0
      refine ⟨by first | rfl | trivial, ?_, by first | rfl | trivial, by first | rfl | trivial⟩
      intro k sp n
      rw [hinv k sp n]
      have hmem : n0 ∈ seen := ((hinv n0 sp0 n0).mp hl).1
      constructor
      · intro ⟨h1, h2⟩; exact ⟨List.mem_cons_of_mem _ h1, h2⟩
      · intro ⟨h1, h2⟩
        rcases List.mem_cons.mp h1 with h | h
        · subst h; exact ⟨hmem, h2⟩
        · exact ⟨h, h2⟩
    | none =>
      refine ⟨by first | rfl | trivial, ?_, by first | rfl | trivial, by first | rfl | trivial⟩
      intro k sp n
      simp only [lookup_append_single]
      cases hk : AList.lookup k g.versions with
      | some q =>
        obtain ⟨sp1, n1⟩ := q
        simp only [Option.some.injEq, Prod.mk.injEq]
        have h1 := (hinv k sp1 n1).mp hk
        constructor
        · intro ⟨e1, e2⟩; subst e1; subst e2
          exact ⟨List.mem_cons_of_mem _ h1.1, h1.2⟩
        · intro ⟨hm, hkk⟩
          rcases List.mem_cons.mp hm with h | h
          · subst h
            -- k is a key of vs = n, so k = vs, but lookup vs = none
            have : k = n := by
              have := keyKind_some_mem hkk
              simpa [hkeys] using this
            subst this
            rw [hl] at hk; simp at hk
          · have := (hinv k sp n).mpr ⟨h, hkk⟩
            rw [hk] at this
            simpa using this
      | none =>
        simp only
        constructor
        · intro h
          split at h
          · rename_i hvk
            simp only [Option.some.injEq, Prod.mk.injEq] at h
            obtain ⟨e1, e2⟩ := h
            subst e1; subst e2; subst hvk
            exact ⟨List.mem_cons_self, by simp [keyKind, hs]⟩
          · simp at h
        · intro ⟨hm, hkk⟩
          rcases List.mem_cons.mp hm with h | h
          · subst h
            have : k = n := by
              have := keyKind_some_mem hkk
              simpa [hkeys] using this
            subst this
            simp only [keyKind, hs, if_true, Option.some.injEq] at hkk
            subst hkk
            simp
          · have := (hinv k sp n).mpr ⟨h, hkk⟩
            rw [hk] at this
            simp at this
  | some cs =>
    obtain ⟨c, s⟩ := cs
    have hkeys : keysOf vs = [c, s] := by simp [keysOf, hs]
    simp only
    -- first half
    cases hlc : AList.lookup c g.versions with
    | some q =>
      obtain ⟨sp0, n0⟩ := q
      have hn0 := hown c sp0 n0 (by simp [hkeys]) hlc
      subst hn0
      have hmem : n0 ∈ seen := ((hinv c sp0 n0).mp hlc).1
      -- then the second half is registered as well
      have hls : ∃ q, AList.lookup s g.versions = some q := by
        by_cases hcs : s = c
        · subst hcs; exact ⟨_, hlc⟩
        · exact ⟨_, (hinv s Split.second n0).mpr ⟨hmem, by simp [keyKind, hs, hcs]⟩⟩
      obtain ⟨q, hq⟩ := hls
      simp only [hq]
      refine ⟨by first | rfl | trivial, ?_, by first | rfl | trivial, by first | rfl | trivial⟩
      intro k sp n
      rw [hinv k sp n]
      constructor
      · intro ⟨h1, h2⟩; exact ⟨List.mem_cons_of_mem _ h1, h2⟩
      · intro ⟨h1, h2⟩
        rcases List.mem_cons.mp h1 with h | h
        · subst h; exact ⟨hmem, h2⟩
        · exact ⟨h, h2⟩
    | none =>
      simp only
      -- vs was not seen before (otherwise c would be registered)
      have hnew : vs ∉ seen := by
        intro hm
        have := (hinv c Split.first vs).mpr ⟨hm, by simp [keyKind, hs]⟩
        rw [hlc] at this; simp at this
      -- so s is not registered either, unless s = c
      have hls_old : AList.lookup s g.versions = none := by
        cases hq : AList.lookup s g.versions with
        | none => rfl
        | some q =>
          obtain ⟨sp1, n1⟩ := q
          have := hown s sp1 n1 (by simp [hkeys]) hq
          subst this
          exact absurd ((hinv s sp1 n1).mp hq).1 hnew
      by_cases hcs : c = s
      · subst hcs
        have hl2 : AList.lookup c (g.versions ++ [(c, (Split.first, vs))]) = some (Split.first, vs) := by
          simp [lookup_append_single, hlc]
        simp only [hl2]
        refine ⟨by first | rfl | trivial, ?_, by first | rfl | trivial, by first | rfl | trivial⟩
        intro k sp n
        simp only [lookup_append_single]
        cases hk : AList.lookup k g.versions with
        | some q =>
          obtain ⟨sp1, n1⟩ := q
          simp only [Option.some.injEq, Prod.mk.injEq]
          have h1 := (hinv k sp1 n1).mp hk
          constructor
          · intro ⟨e1, e2⟩; subst e1; subst e2
            exact ⟨List.mem_cons_of_mem _ h1.1, h1.2⟩
          · intro ⟨hm, hkk⟩
            rcases List.mem_cons.mp hm with h | h
            · subst h
              have : k = c := by
                have := keyKind_some_mem hkk
                simpa [hkeys] using this
              subst this
              rw [hlc] at hk; simp at hk
            · have := (hinv k sp n).mpr ⟨h, hkk⟩
              rw [hk] at this
              simpa using this
        | none =>
          simp only
          constructor
          · intro h
            split at h
            · rename_i hvk
              simp only [Option.some.injEq, Prod.mk.injEq] at h
              obtain ⟨e1, e2⟩ := h
              subst e1; subst e2; subst hvk
              exact ⟨List.mem_cons_self, by simp [keyKind, hs]⟩
            · simp at h
          · intro ⟨hm, hkk⟩
            rcases List.mem_cons.mp hm with h | h
            · subst h
              have hkc : k = c := by
                have := keyKind_some_mem hkk
                simpa [hkeys] using this
              subst hkc
              simp only [keyKind, hs, if_true, Option.some.injEq] at hkk
              subst hkk
              simp
            · have := (hinv k sp n).mpr ⟨h, hkk⟩
              rw [hk] at this
              simp at this
      · have hl2 : AList.lookup s (g.versions ++ [(c, (Split.first, vs))]) = none := by
          simp [lookup_append_single, hls_old, hcs]
        simp only [hl2]
        refine ⟨by first | rfl | trivial, ?_, by first | rfl | trivial, by first | rfl | trivial⟩
        intro k sp n
        simp only [lookup_append_single]
        cases hk : AList.lookup k g.versions with
        | some q =>
          obtain ⟨sp1, n1⟩ := q
          simp only [Option.some.injEq, Prod.mk.injEq]
          have h1 := (hinv k sp1 n1).mp hk
          constructor
          · intro ⟨e1, e2⟩; subst e1; subst e2
            exact ⟨List.mem_cons_of_mem _ h1.1, h1.2⟩
          · intro ⟨hm, hkk⟩
            rcases List.mem_cons.mp hm with h | h
            · subst h
              have : k = c ∨ k = s := by
                have := keyKind_some_mem hkk
                simpa [hkeys] using this
              rcases this with h | h
              · subst h; rw [hlc] at hk; simp at hk
              · subst h; rw [hls_old] at hk; simp at hk
            · have := (hinv k sp n).mpr ⟨h, hkk⟩
              rw [hk] at this
              simpa using this
        | none =>
          simp only
          constructor
          · intro h
            by_cases hck : c = k
            · subst hck
              simp only [if_true, Option.some.injEq, Prod.mk.injEq] at h
              obtain ⟨e1, e2⟩ := h
              subst e1; subst e2
              exact ⟨List.mem_cons_self, by simp [keyKind, hs]⟩
            · simp only [hck, if_false] at h
              by_cases hsk : s = k
              · subst hsk
                simp only [if_true, Option.some.injEq, Prod.mk.injEq] at h
                obtain ⟨e1, e2⟩ := h
                subst e1; subst e2
                exact ⟨List.mem_cons_self, by simp [keyKind, hs, Ne.symm hcs]⟩
              · simp [hsk] at h
          · intro ⟨hm, hkk⟩
            rcases List.mem_cons.mp hm with h | h
            · subst h
              simp only [keyKind, hs] at hkk
              by_cases hck : k = c
              · subst hck
                simp only [if_true, Option.some.injEq] at hkk
                subst hkk
                simp
              · simp only [hck, if_false] at hkk
                by_cases hsk : k = s
                · subst hsk
                  simp only [if_true, Option.some.injEq] at hkk
                  subst hkk
                  simp [Ne.symm hck]
                · simp [hsk] at hkk
            · have := (hinv k sp n).mpr ⟨h, hkk⟩
              rw [hk] at this
              simp at this

end VG

namespace VG

theorem keysDisjoint_sub {a b : List JStr} (h : KeysDisjoint b) (hs : ∀ x, x ∈ a → x ∈ b) : KeysDisjoint a :=
  fun v1 h1 v2 h2 hne k hk => h v1 (hs _ h1) v2 (hs _ h2) hne k hk

end VG
