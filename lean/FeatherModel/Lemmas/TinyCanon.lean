import FeatherModel.Lemmas.TinyRoundTrip

/-! `write` does not see the difference between a mapping set and its canonical form; error propagation;
the domain of the round trip lies inside the domain where `write` succeeds (C03). -/

namespace Tiny

theorem values_sortKV {K V : Type} (le : V → V → Bool) (m : AList K V) :
    (sortKV le m).values = sortBy le m.values := by
  unfold sortKV AList.values
  exact sortBy_map (le := fun a b : K × V => le a.2 b.2) (le' := le) Prod.snd (fun _ _ => rfl) m

theorem values_mapVals {K V W : Type} (g : V → W) (m : AList K V) : (AList.mapVals g m).values = m.values.map g := by
  simp [AList.mapVals, AList.values, List.map_map, Function.comp_def]

/-- sorting again after a key-preserving map changes nothing -/
theorem sortBy_sortBy_map {α : Type} {le : α → α → Bool}
    (total : ∀ a b, le a b = true ∨ le b a = true) (trans : ∀ a b c, le a b = true → le b c = true → le a c = true)
    (g : α → α) (hg : ∀ a b, le (g a) (g b) = le a b) (l : List α) :
    sortBy le (sortBy le (l.map g)) = (sortBy le l).map g := by
  rw [sortBy_of_pairwise _ (sortBy_pairwise total trans _)]
  exact (sortBy_map (le := le) (le' := le) g hg l).symm

theorem flatMap_map' {α β γ : Type} (g : α → β) (f : β → List γ) (l : List α) :
    (l.map g).flatMap f = l.flatMap (fun a => f (g a)) := by
  induction l with
  | nil => rfl
  | cons a l ih => simp [List.flatMap_cons, ih]

theorem methodLines_canon (m : Method) : methodLines (canonMethod m) = methodLines m := by
  simp only [methodLines, canonMethod, values_sortKV]
  rw [sortBy_of_pairwise _ (sortBy_pairwise (le := paramLe) (fun _ _ => indexNamesLe_ord.total _ _) (fun _ _ _ => indexNamesLe_ord.trans _ _ _) _)]

theorem classLines_canon (c : Class) : classLines (canonClass c) = classLines c := by
  simp only [classLines, canonClass, values_sortKV, values_mapVals]
  rw [sortBy_of_pairwise _ (sortBy_pairwise (le := fieldLe) (fun _ _ => descNamesLe_ord.total _ _) (fun _ _ _ => descNamesLe_ord.trans _ _ _) _)]
  rw [sortBy_sortBy_map (le := methodLe) (fun _ _ => descNamesLe_ord.total _ _) (fun _ _ _ => descNamesLe_ord.trans _ _ _)
    canonMethod (fun _ _ => rfl)]
  rw [flatMap_map']
  simp only [methodLines_canon]

theorem writeLines_canon (m : Mappings) : writeLines (canon m) = writeLines m := by
  simp only [writeLines, canon, values_sortKV, values_mapVals]
  rw [sortBy_sortBy_map (le := classLe) (fun _ _ => namesLe_ord.total _ _) (fun _ _ _ => namesLe_ord.trans _ _ _)
    canonClass (fun _ _ => rfl)]
  rw [flatMap_map']
  simp only [classLines_canon]

/-! ## an error anywhere is an error of the whole run -/

theorem run_none_of_step_none {n : Nat} :
    ∀ (pre : List TLine) (s0 s : St) (l : TLine) (post : List TLine),
      run n s0 pre = some s → step n s l = none → run n s0 (pre ++ l :: post) = none
  | [], s0, s, l, post, h1, h2 => by
    simp only [run, Option.some.injEq] at h1
    subst h1
    simp [run, h2]
  | x :: pre, s0, s, l, post, h1, h2 => by
    simp only [run, List.cons_append] at h1 ⊢
    cases hx : step n s0 x with
    | none => rfl
    | some s1 =>
      rw [hx] at h1
      exact run_none_of_step_none pre s1 s l post h1 h2

theorem firstName_intoNames {valid : JStr → Bool} {n : Nat} {name : JStr} {more : List JStr} {names : Names}
    (hne : name ≠ []) (h : intoNames valid n (name :: more) = some names) : firstName names = some name := by
  unfold intoNames at h
  split at h
  · simp at h
  · split at h
    · simp at h
    · simp only [Option.some.injEq] at h
      subst h
      simp [firstName, hne]

/-! ## the round-trip domain lies inside the domain of `write` -/

theorem namesOk_writable {valid : JStr → Bool} {n : Nat} {names : Names} (h : namesOk valid n names = true) :
    namesWritable names = true := by
  simp only [namesOk, Bool.and_eq_true, List.all_eq_true] at h
  simp only [namesWritable, List.all_eq_true]
  intro o ho
  cases o with
  | none => rfl
  | some s =>
    have := h.2 (some s) ho
    simp only [Bool.and_eq_true] at this
    exact this.1.2

theorem writable_writeOk {n : Nat} {m : Mappings} (h : writable n m = true) : writeOk m = true := by
  simp only [writable, Bool.and_eq_true, List.all_eq_true] at h
  simp only [writeOk, List.all_eq_true, Bool.and_eq_true]
  refine ⟨fun s hs => (h.1.1.2 s hs).2, ?_⟩
  rintro ⟨k, c⟩ hc
  have h1 := h.2 (k, c) hc
  simp only [classOk, Bool.and_eq_true, List.all_eq_true] at h1
  refine ⟨⟨namesOk_writable h1.1.1, ?_⟩, ?_⟩
  · rintro ⟨kf, f⟩ hf
    have := h1.1.2 (kf, f) hf
    simp only [fieldOk, Bool.and_eq_true] at this
    exact ⟨this.1, namesOk_writable this.2⟩
  · rintro ⟨km, me⟩ hm
    have := h1.2 (km, me) hm
    simp only [methodOk, Bool.and_eq_true, List.all_eq_true] at this
    refine ⟨⟨this.1.1, namesOk_writable this.1.2⟩, ?_⟩
    rintro ⟨kp, p⟩ hp
    have := this.2 (kp, p) hp
    simp only [paramOk, Bool.and_eq_true] at this
    exact namesOk_writable this.2

end Tiny
