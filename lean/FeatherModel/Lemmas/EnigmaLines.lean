import FeatherModel.Lemmas.EnigmaLex
import FeatherModel.Lemmas.EnigmaSort
import FeatherModel.Lemmas.InnerNames

/-!
# C12, layer 2: what the reader's tokeniser sees of the lines written by `write_class`
`…EL` are the `EnigmaLine`s of a block; `…_lex` say that on the Enigma-expressible domain the writer succeeds and that
its lines are tokenised into exactly these.
-/

namespace Enigma

/-! ## decimal numbers -/

theorem decDigits_mem : ∀ (fuel n : Nat) (acc : List Nat) (c : Nat), c ∈ decDigits fuel n acc → c ∈ acc ∨ (48 ≤ c ∧ c ≤ 57)
  | 0, _, _, c, h => Or.inl h
  | fuel + 1, n, acc, c, h => by
    simp only [decDigits] at h
    split at h
    · rcases List.mem_cons.mp h with rfl | h
      · exact Or.inr (by omega)
      · exact Or.inl h
    · rcases decDigits_mem fuel _ _ c h with h | h
      · rcases List.mem_cons.mp h with rfl | h
        · exact Or.inr (by omega)
        · exact Or.inl h
      · exact Or.inr h

theorem decDigits_ne_nil : ∀ (fuel n : Nat) (acc : List Nat), acc ≠ [] → decDigits fuel n acc ≠ []
  | 0, _, _, h => h
  | fuel + 1, n, acc, h => by
    simp only [decDigits]
    split
    · simp
    · exact decDigits_ne_nil fuel _ _ (by simp)

theorem natToDec_digits (n : Nat) : natToDec n ≠ [] ∧ ∀ c ∈ natToDec n, 48 ≤ c ∧ c ≤ 57 := by
  constructor
  · simp only [natToDec, decDigits]
    split
    · simp
    · exact decDigits_ne_nil _ _ _ (by simp)
  · intro c hc
    rcases decDigits_mem _ _ _ c hc with h | h
    · simp at h
    · exact h

theorem natToDec_tok (n : Nat) : Tok (natToDec n) := by
  obtain ⟨h1, h2⟩ := natToDec_digits n
  refine ⟨h1, fun c hc => ?_⟩
  have := h2 c hc
  constructor
  · simp only [isWhite, Bool.or_eq_false_iff, Bool.and_eq_false_iff, decide_eq_false_iff_not, beq_eq_false_iff_ne]
    omega
  · simp only [HASH]; omega

theorem parseDigits_decDigits : ∀ (fuel n : Nat) (acc : List Nat), n < fuel →
    parseDigits (decDigits fuel n acc) 0 = parseDigits acc n
  | 0, _, _, h => by omega
  | fuel + 1, n, acc, h => by
    simp only [decDigits]
    split
    · rename_i hn
      have h1 : 48 ≤ 48 + n ∧ 48 + n ≤ 57 := by omega
      simp only [parseDigits, h1, and_self, if_true]
      congr 1; omega
    · rename_i hn
      rw [parseDigits_decDigits fuel (n / 10) _ (by omega)]
      have h1 : 48 ≤ 48 + n % 10 ∧ 48 + n % 10 ≤ 57 := by omega
      simp only [parseDigits, h1, and_self, if_true]
      congr 1; omega

theorem stripPlus_eq (s : JStr) (h43 : ∀ r, s ≠ 43 :: r) :
    (match s with
      | 43 :: rest => rest
      | _ => s) = s := by
  split
  · rename_i h; exact absurd rfl (h _)
  · rfl

theorem parseUsize_of (s : JStr) (n : Nat) (hne : s ≠ []) (h43 : ∀ r, s ≠ 43 :: r)
    (hp : parseDigits s 0 = some n) (h : n < 18446744073709551616) : parseUsize s = some n := by
  unfold parseUsize
  have hd := stripPlus_eq s h43
  simp only [hne, if_false, hp, h, if_true]

/-- `usize::from_str` reads back what `Display for usize` wrote -/
theorem parseUsize_natToDec (n : Nat) (h : n < 18446744073709551616) : parseUsize (natToDec n) = some n := by
  obtain ⟨h1, h2⟩ := natToDec_digits n
  have hp : parseDigits (natToDec n) 0 = some n := by
    rw [natToDec, parseDigits_decDigits _ _ _ (by omega)]; rfl
  refine parseUsize_of _ n h1 ?_ hp h
  intro r hr
  have := h2 43 (by rw [hr]; exact List.mem_cons_self)
  omega

/-! ## the `EnigmaLine`s of the blocks -/

def commentEL (n : Nat) : Option JStr → List ELine
  | none => []
  | some d => (splitOn (· == LF) d).map fun l => { idents := n, first := kwCOMMENT, fields := splitOn isJavaWs l }

def paramEL (n : Nat) : List (Nat × Param) → List ELine
  | [] => []
  | e :: rest =>
    { idents := n, first := kwARG, fields := [natToDec e.2.index, (dstOf e.2.names).getD []] } ::
      commentEL (n + 1) e.2.doc ++ paramEL n rest

def fieldEL (n : Nat) : List (MemberKey × Field) → List ELine
  | [] => []
  | e :: rest =>
    { idents := n, first := kwFIELD, fields := e.1.1 :: (dstOf e.2.names).toList ++ [e.1.2] } ::
      commentEL (n + 1) e.2.doc ++ fieldEL n rest

/-- the target name of a method as written: `<init>` is left out -/
def methodDst (m : Method) : Option JStr :=
  match dstOf m.names with
  | some d => if d = kwINIT then none else some d
  | none => none

def methodEL (n : Nat) : List (MemberKey × Method) → List ELine
  | [] => []
  | e :: rest =>
    { idents := n, first := kwMETHOD, fields := e.1.1 :: (methodDst e.2).toList ++ [e.1.2] } ::
      commentEL (n + 1) e.2.doc ++ paramEL (n + 1) (isort paramLe e.2.params) ++ methodEL n rest

def classEL (key : JStr) (c : Class) (n : Nat) : List ELine :=
  { idents := n, first := kwCLASS,
    fields := shortName (n != 0) key :: ((dstOf c.names).map (shortName (n != 0))).toList } ::
    commentEL (n + 1) c.doc ++ fieldEL (n + 1) (isort fieldLe c.fields) ++ methodEL (n + 1) (isort methodLe c.methods)

/-! ## domain predicates, unpacked -/

theorem docOk_docLine {d : JStr} (h : docOk (some d) = true) {l : Text} (hl : l ∈ splitOn (· == LF) d) : DocLine l := by
  intro c hc
  obtain ⟨h1, h2⟩ := mem_splitOn hl c hc
  simp only [docOk, List.all_eq_true, Bool.and_eq_true, bne_iff_ne, ne_eq] at h
  have := h c h1
  have h2' : c ≠ 10 := by simpa [LF] using h2
  exact ⟨this.1.1.1, h2', this.1.1.2, this.1.2, this.2⟩

theorem paramOk_spec {e : Nat × Param} (h : paramOk e = true) :
    ∃ d, e.2.names = [none, some d] ∧ e.1 = e.2.index ∧ e.2.index < 18446744073709551616 ∧ docOk e.2.doc = true ∧
      tokOk d = true ∧ validUnq d = true := by
  simp only [paramOk, Bool.and_eq_true, beq_iff_eq, decide_eq_true_eq] at h
  obtain ⟨⟨⟨h1, h2⟩, h3⟩, h4⟩ := h
  split at h4
  · rename_i d hn
    simp only [Bool.and_eq_true] at h4
    exact ⟨d, hn, h1, h2, h3, h4.1, h4.2⟩
  · exact absurd h4 (by simp)

theorem fieldOk_spec {e : MemberKey × Field} (h : fieldOk e = true) :
    ∃ dst, e.2.names = [some e.1.1, dst] ∧ e.2.desc = e.1.2 ∧ tokOk e.1.2 = true ∧ docOk e.2.doc = true ∧
      tokOk e.1.1 = true ∧ validUnq e.1.1 = true ∧
      ∀ d, dst = some d → tokOk d = true ∧ validUnq d = true ∧ isModifier e.1.2 = false := by
  simp only [fieldOk, Bool.and_eq_true, beq_iff_eq] at h
  obtain ⟨⟨⟨h1, h2⟩, h3⟩, h4⟩ := h
  split at h4
  · rename_i n dst hn
    simp only [Bool.and_eq_true, beq_iff_eq] at h4
    obtain ⟨⟨⟨h5, h6⟩, h7⟩, h8⟩ := h4
    refine ⟨dst, by rw [hn, h5], h1.symm, by rw [h1]; exact h2, h3, by rw [h5]; exact h6, by rw [h5]; exact h7, ?_⟩
    intro d hd
    subst hd
    simp only [optAll, Bool.and_eq_true, Bool.not_eq_true'] at h8
    exact ⟨h8.1.1, h8.1.2, by rw [h1]; exact h8.2⟩
  · exact absurd h4 (by simp)

theorem methodOk_spec {e : MemberKey × Method} (h : methodOk e = true) :
    ∃ dst, e.2.names = [some e.1.1, dst] ∧ e.2.desc = e.1.2 ∧ tokOk e.1.2 = true ∧ docOk e.2.doc = true ∧
      tokOk e.1.1 = true ∧ validMethodName e.1.1 = true ∧
      (∀ d, dst = some d → d = kwINIT ∨ (tokOk d = true ∧ validMethodName d = true ∧ isModifier e.1.2 = false)) ∧
      (∀ p ∈ e.2.params, paramOk p = true) ∧ (e.2.params.map Prod.fst).Nodup := by
  simp only [methodOk, Bool.and_eq_true, beq_iff_eq] at h
  obtain ⟨⟨⟨⟨⟨h1, h2⟩, h3⟩, h4⟩, h9⟩, h10⟩ := h
  split at h4
  · rename_i n dst hn
    simp only [Bool.and_eq_true, beq_iff_eq] at h4
    obtain ⟨⟨⟨h5, h6⟩, h7⟩, h8⟩ := h4
    refine ⟨dst, by rw [hn, h5], h1.symm, by rw [h1]; exact h2, h3, by rw [h5]; exact h6, by rw [h5]; exact h7, ?_,
      List.all_eq_true.mp h9, (nodupB_iff _).mp h10⟩
    intro d hd
    subst hd
    simp only [optAll, Bool.or_eq_true, beq_iff_eq, Bool.and_eq_true, Bool.not_eq_true'] at h8
    rcases h8 with h8 | h8
    · exact Or.inl h8
    · exact Or.inr ⟨h8.1.1, h8.1.2, by rw [h1]; exact h8.2⟩
  · exact absurd h4 (by simp)

theorem dstOf_pair (a b : Option JStr) : dstOf [a, b] = b := by
  simp [dstOf]

/-! ## keyword lines -/

theorem notComment_CLASS (toks : List JStr) : kwCOMMENT.isPrefixOf (lineBody kwCLASS toks) = false := rfl
theorem notComment_FIELD (toks : List JStr) : kwCOMMENT.isPrefixOf (lineBody kwFIELD toks) = false := rfl
theorem notComment_METHOD (toks : List JStr) : kwCOMMENT.isPrefixOf (lineBody kwMETHOD toks) = false := rfl
theorem notComment_ARG (toks : List JStr) : kwCOMMENT.isPrefixOf (lineBody kwARG toks) = false := rfl

theorem tok_CLASS : Tok kwCLASS := ⟨by decide, by decide⟩
theorem tok_FIELD : Tok kwFIELD := ⟨by decide, by decide⟩
theorem tok_METHOD : Tok kwMETHOD := ⟨by decide, by decide⟩
theorem tok_ARG : Tok kwARG := ⟨by decide, by decide⟩

/-! ## comments -/

theorem commentLines_lex (n : Nat) : ∀ d : Option JStr, docOk d = true → Lexes (commentLines n d) (commentEL n d)
  | none, _ => Lexes.nil
  | some d, h => by
    simp only [commentLines, commentEL]
    have gen : ∀ ps : List Text, (∀ p ∈ ps, DocLine p) →
        Lexes (ps.map fun l => tabs n ++ kwCOMMENT ++ SP :: l)
          (ps.map fun l => { idents := n, first := kwCOMMENT, fields := splitOn isJavaWs l }) := by
      intro ps
      induction ps with
      | nil => intro _; exact Lexes.nil
      | cons p ps ih =>
        intro hp
        obtain ⟨h1, h2⟩ := lexLine_comment n p (hp p List.mem_cons_self)
        exact Lexes.cons h1 h2 (ih (fun q hq => hp q (List.mem_cons_of_mem _ hq)))
    exact gen _ (fun p hp => docOk_docLine h hp)

/-! ## parameters, fields, methods -/

theorem paramLines_lex (n : Nat) : ∀ ps : List (Nat × Param), (∀ e ∈ ps, paramOk e = true) →
    ∃ ls, paramLines n ps = some ls ∧ Lexes ls (paramEL n ps)
  | [], _ => ⟨[], rfl, Lexes.nil⟩
  | (i, p) :: rest, h => by
    obtain ⟨ls', e', l'⟩ := paramLines_lex n rest (fun e he => h e (List.mem_cons_of_mem _ he))
    obtain ⟨d, hn, _, _, hdoc, htok, _⟩ := paramOk_spec (h (i, p) List.mem_cons_self)
    simp only at hn hdoc
    have hd : dstOf p.names = some d := by rw [hn, dstOf_pair]
    refine ⟨_, by simp only [paramLines, hd, tokOk_noSurrogate htok, e']; rfl, ?_⟩
    have hline : tabs n ++ kwARG ++ SP :: natToDec p.index ++ SP :: d = tabs n ++ lineBody kwARG [natToDec p.index, d] := by
      simp [lineBody, joinWith, List.append_assoc]
    obtain ⟨k1, k2⟩ := lexLine_tokens n kwARG [natToDec p.index, d] tok_ARG (notComment_ARG _) (by
      intro t ht
      simp only [List.mem_cons, List.not_mem_nil, or_false] at ht
      rcases ht with rfl | rfl
      · exact natToDec_tok _
      · exact tokOk_tok htok)
    simp only [paramEL, hd, Option.getD_some]
    rw [hline]
    exact Lexes.cons k1 k2 ((commentLines_lex (n + 1) p.doc hdoc).append l')

theorem optTok_spec {o : Option JStr} (h : ∀ d, o = some d → tokOk d = true) :
    optTok o = some (o.toList.flatMap (SP :: ·)) := by
  cases o with
  | none => rfl
  | some d => simp [optTok, tokOk_noSurrogate (h d rfl)]

theorem memberLine_eq (n : Nat) (kw name desc : JStr) (dst : Option JStr) :
    tabs n ++ kw ++ SP :: name ++ dst.toList.flatMap (SP :: ·) ++ SP :: desc =
      tabs n ++ lineBody kw (name :: dst.toList ++ [desc]) := by
  cases dst <;> simp [lineBody, joinWith, List.append_assoc]

theorem fieldLines_lex (n : Nat) : ∀ fs : List (MemberKey × Field), (∀ e ∈ fs, fieldOk e = true) →
    ∃ ls, fieldLines n fs = some ls ∧ Lexes ls (fieldEL n fs)
  | [], _ => ⟨[], rfl, Lexes.nil⟩
  | ((name, desc), f) :: rest, h => by
    obtain ⟨ls', e', l'⟩ := fieldLines_lex n rest (fun e he => h e (List.mem_cons_of_mem _ he))
    obtain ⟨dst, hn, _, htd, hdoc, htn, _, hdst⟩ := fieldOk_spec (h ((name, desc), f) List.mem_cons_self)
    simp only at hn hdoc htd htn hdst
    have hd : dstOf f.names = dst := by rw [hn, dstOf_pair]
    have ho := optTok_spec (o := dst) (fun d hd => (hdst d hd).1)
    refine ⟨_, by simp only [fieldLines, hd, ho, tokOk_noSurrogate htn, tokOk_noSurrogate htd, e']; rfl, ?_⟩
    obtain ⟨k1, k2⟩ := lexLine_tokens n kwFIELD (name :: dst.toList ++ [desc]) tok_FIELD (notComment_FIELD _) (by
      intro t ht
      simp only [List.mem_cons, List.mem_append, Option.mem_toList, List.not_mem_nil, or_false] at ht
      rcases ht with (rfl | ht) | rfl
      · exact tokOk_tok htn
      · exact tokOk_tok (hdst t ht).1
      · exact tokOk_tok htd)
    simp only [fieldEL, hd]
    rw [memberLine_eq]
    exact Lexes.cons k1 k2 ((commentLines_lex (n + 1) f.doc hdoc).append l')

theorem mem_isort_all {α : Type} {le : α → α → Bool} {p : α → Prop} {l : List α} (h : ∀ e ∈ l, p e) :
    ∀ e ∈ isort le l, p e := fun e he => h e (mem_isort.mp he)

theorem methodLines_cons_eq (n : Nat) (name desc : JStr) (m : Method) (rest : List (MemberKey × Method)) :
    methodLines n (((name, desc), m) :: rest) =
      match disp name, optTok (methodDst m), disp desc, paramLines (n + 1) (isort paramLe m.params), methodLines n rest with
      | some name, some dst, some desc, some ps, some more =>
        some ((tabs n ++ kwMETHOD ++ SP :: name ++ dst ++ SP :: desc) :: commentLines (n + 1) m.doc ++ ps ++ more)
      | _, _, _, _, _ => none := rfl

theorem methodLines_lex (n : Nat) : ∀ ms : List (MemberKey × Method), (∀ e ∈ ms, methodOk e = true) →
    ∃ ls, methodLines n ms = some ls ∧ Lexes ls (methodEL n ms)
  | [], _ => ⟨[], rfl, Lexes.nil⟩
  | ((name, desc), m) :: rest, h => by
    obtain ⟨ls', e', l'⟩ := methodLines_lex n rest (fun e he => h e (List.mem_cons_of_mem _ he))
    obtain ⟨dst, hn, _, htd, hdoc, htn, _, hdst, hps, _⟩ := methodOk_spec (h ((name, desc), m) List.mem_cons_self)
    simp only at hn hdoc htd htn hdst hps
    obtain ⟨pl, pe, plx⟩ := paramLines_lex (n + 1) (isort paramLe m.params) (mem_isort_all hps)
    have hd : dstOf m.names = dst := by rw [hn, dstOf_pair]
    have hdst' : ∀ d, methodDst m = some d → tokOk d = true := by
      intro d hdm
      simp only [methodDst, hd] at hdm
      cases dst with
      | none => simp at hdm
      | some x =>
        simp only at hdm
        split at hdm
        · simp at hdm
        · rename_i hx
          simp only [Option.some.injEq] at hdm
          subst hdm
          rcases hdst x rfl with hi | hi
          · exact absurd hi hx
          · exact hi.1
    have ho := optTok_spec (o := methodDst m) hdst'
    refine ⟨_, by rw [methodLines_cons_eq]; simp only [ho, tokOk_noSurrogate htn, tokOk_noSurrogate htd, e', pe]; rfl, ?_⟩
    obtain ⟨k1, k2⟩ := lexLine_tokens n kwMETHOD (name :: (methodDst m).toList ++ [desc]) tok_METHOD (notComment_METHOD _) (by
      intro t ht
      simp only [List.mem_cons, List.mem_append, Option.mem_toList, List.not_mem_nil, or_false] at ht
      rcases ht with (rfl | ht) | rfl
      · exact tokOk_tok htn
      · exact tokOk_tok (hdst' t ht)
      · exact tokOk_tok htd)
    simp only [methodEL]
    rw [memberLine_eq]
    exact Lexes.cons k1 k2 (((commentLines_lex (n + 1) m.doc hdoc).append plx).append l')

/-! ## classes -/

theorem tokOk_shortName (b : Bool) {s : JStr} (h : tokOk s = true) : tokOk (shortName b s) = true := by
  unfold shortName
  cases b with
  | false => simpa using h
  | true =>
    simp only [if_true]
    cases hs : InnerNames.split s with
    | none => exact h
    | some pi =>
      obtain ⟨p, i⟩ := pi
      obtain ⟨e, _, _, hi, _⟩ := InnerNames.split_some hs
      simp only [tokOk, Bool.and_eq_true, bne_iff_ne, ne_eq] at h ⊢
      refine ⟨hi, ?_⟩
      have := h.2
      rw [e, List.all_append, List.all_cons] at this
      simp only [Bool.and_eq_true] at this
      exact this.2.2

theorem classLines_lex (key : JStr) (c : Class) (n : Nat) (hk : tokOk key = true)
    (hd : ∀ d, dstOf c.names = some d → tokOk d = true) (hdoc : docOk c.doc = true)
    (hf : ∀ e ∈ c.fields, fieldOk e = true) (hm : ∀ e ∈ c.methods, methodOk e = true) :
    ∃ ls, classLines key c n = some ls ∧ Lexes ls (classEL key c n) := by
  obtain ⟨fl, fe, flx⟩ := fieldLines_lex (n + 1) (isort fieldLe c.fields) (mem_isort_all hf)
  obtain ⟨ml, me, mlx⟩ := methodLines_lex (n + 1) (isort methodLe c.methods) (mem_isort_all hm)
  have hks := tokOk_shortName (n != 0) hk
  have hds : ∀ d, (dstOf c.names).map (shortName (n != 0)) = some d → tokOk d = true := by
    intro d hdd
    cases hdn : dstOf c.names with
    | none => rw [hdn] at hdd; simp at hdd
    | some x =>
      rw [hdn] at hdd
      simp only [Option.map_some, Option.some.injEq] at hdd
      subst hdd
      exact tokOk_shortName _ (hd x hdn)
  have ho := optTok_spec hds
  refine ⟨_, by simp only [classLines, ho, tokOk_noSurrogate hks, fe, me]; rfl, ?_⟩
  have hline : tabs n ++ kwCLASS ++ SP :: shortName (n != 0) key ++
        ((dstOf c.names).map (shortName (n != 0))).toList.flatMap (SP :: ·) =
      tabs n ++ lineBody kwCLASS (shortName (n != 0) key :: ((dstOf c.names).map (shortName (n != 0))).toList) := by
    cases (dstOf c.names).map (shortName (n != 0)) <;> simp [lineBody, joinWith, List.append_assoc]
  obtain ⟨k1, k2⟩ := lexLine_tokens n kwCLASS (shortName (n != 0) key :: ((dstOf c.names).map (shortName (n != 0))).toList)
    tok_CLASS (notComment_CLASS _) (by
      intro t ht
      simp only [List.mem_cons, Option.mem_toList] at ht
      rcases ht with rfl | ht
      · exact tokOk_tok hks
      · exact tokOk_tok (hds t ht))
  simp only [classEL]
  rw [hline]
  exact Lexes.cons k1 k2 (((commentLines_lex (n + 1) c.doc hdoc).append flx).append mlx)

end Enigma
