import FeatherModel.Lemmas.ClassWriteFullCodeDyn
import FeatherModel.Lemmas.ClassWriteFullCodeArray

/-!
# C02 (whole writer) — the constant-pool operand of one instruction of `write_code`, and when the writer's layout of an
instruction is legal
-/

namespace ClassWriteFull
open PoolWrite (Entry)
open FramePool (Good Le)
open ClassRead ClassRead.Spec

/-- `P` holds of the reader's pool table and bootstrap table of everything the writer can still reach: a later pool,
more bootstrap rows -/
def Sound2 (p : Pool) (bs : List Bsm) (P : ClassRead.Pool → Option (List ClassRead.Bsm) → Prop) : Prop :=
  ∀ q bs', Ext p q → BsExt bs bs' → P (rpool q) (bsTable bs')

theorem Sound2.mono {p p' : Pool} {bs bs' : List Bsm} {P : ClassRead.Pool → Option (List ClassRead.Bsm) → Prop}
    (h : Sound2 p bs P) (l : Le p p') (e : BsExt bs bs') : Sound2 p' bs' P :=
  fun q bs'' hq hb => h q bs'' (hq.of_le l) (e.trans hb)

theorem Sound2.of_all {p : Pool} {bs : List Bsm} {P : ClassRead.Pool → Option (List ClassRead.Bsm) → Prop}
    (h : Sound p (fun rp => ∀ bsms, P rp bsms)) : Sound2 p bs P := fun q bs' hq _ => h q hq (bsTable bs')

/-! ## one instruction -/

/-- operands of an instruction of the proved fragment that do not depend on the pool or on positions: the ranges of
duke's tree types, valid names where the reader validates them, `Dynamic` constants nested within the reader's depth
limit for bootstrap arguments -/
def insnOk : ClassRead.Insn → Prop
  | .simple op => isSimpleOp op = true
  | .bipush v => inI8 v
  | .sipush v => inI16 v
  | .ldc c => loadableOk2 c ∧ ldepth c < 17
  | .load k i => k < 5 ∧ i < 65536
  | .store k i => k < 5 ∧ i < 65536
  | .iinc i v => i < 65536 ∧ inI16 v
  | .branch _ _ => True
  | .goto _ => True
  | .jsr _ => True
  | .ret i => i < 65536
  | .tableswitch _ lo hi tbl => inI32 lo ∧ inI32 hi ∧ lo ≤ hi ∧ (tbl.length : Int) = hi - lo + 1 ∧ tbl.length < 16384
  | .lookupswitch _ pairs => (∀ kt ∈ pairs, inI32 kt.1) ∧ pairs.length < 8192
  | .field op r => 0xb2 ≤ op ∧ op ≤ 0xb5 ∧ fieldRefOk r
  | .invokevirtual m => methodRefOk m
  | .invokespecial m _ => methodRefOk m
  | .invokestatic m _ => methodRefOk m
  | .invokeinterface m => methodRefOk m
  | .invokedynamic d => indyOk d
  | .new c => validClassName c = true
  | .newarray a => 4 ≤ a ∧ a ≤ 11
  | .anewarray c => validClassName c = true
  | .checkcast c => validClassName c = true
  | .instanceof c => validClassName c = true
  | .multianewarray c d => validClassName c = true ∧ d < 256

/-- `insnOk` does not look at targets -/
theorem insnOk_mapT (f : Nat → Nat) (ri : ClassRead.Insn) : insnOk (mapT f ri) ↔ insnOk ri := by
  cases ri with
  | lookupswitch d pairs =>
    simp only [mapT, insnOk, List.length_map]
    constructor
    · intro ⟨h1, h2⟩
      exact ⟨fun kt hkt => h1 (kt.1, f kt.2) (List.mem_map.mpr ⟨kt, hkt, rfl⟩), h2⟩
    · intro ⟨h1, h2⟩
      refine ⟨fun kt hkt => ?_, h2⟩
      obtain ⟨x, hx, rfl⟩ := List.mem_map.mp hkt
      exact h1 x hx
  | tableswitch d lo hi tbl => simp [mapT, insnOk]
  | _ => simp [mapT, insnOk]

/-- what the pool index of an instruction must resolve to -/
def poolPart (rp : ClassRead.Pool) (bsms : Option (List ClassRead.Bsm)) (cp : Nat) : ClassRead.Insn → Prop
  | .ldc k => rp.getLoadable bsms cp = .ok k
  | .field _ r => rp.getFieldRef cp = .ok r
  | .invokevirtual m => rp.getMethodRef cp = .ok m
  | .invokespecial m itf => rp.getMethodRefOrInterface cp = .ok (m, itf)
  | .invokestatic m itf => rp.getMethodRefOrInterface cp = .ok (m, itf)
  | .invokeinterface m => rp.getInterfaceMethodRef cp = .ok m
  | .invokedynamic d => ∃ d', rp.getInvokeDynamic bsms cp = .ok d' ∧ d' = d
  | .new c => rp.getClass cp = .ok c
  | .anewarray c => rp.getClass cp = .ok c
  | .checkcast c => rp.getClass cp = .ok c
  | .instanceof c => rp.getClass cp = .ok c
  | .multianewarray c _ => rp.getClass cp = .ok c
  | _ => True

theorem argsSize_lt {d : JStr} {c : Nat} (h : CodeWrite.argsSize d = .ok c) : c < 256 := by
  unfold CodeWrite.argsSize at h
  split at h
  · rename_i rest
    exact loop (rest.length + 1) rest 1 c (by omega) h
  · cases h
where
  loop : ∀ (fuel : Nat) (cs : List Nat) (size c : Nat), size ≤ 255 → CodeWrite.argsLoop fuel cs size = .ok c → c < 256
    | 0, _, _, _, _, h => by simp [CodeWrite.argsLoop] at h
    | fuel + 1, cs, size, c, hs, h => by
      unfold CodeWrite.argsLoop at h
      split at h
      · cases h
      · rename_i ch rest
        split at h
        · cases h; omega
        · split at h
          · split at h
            · cases h
            · exact loop fuel _ _ c (by omega) h
          · split at h
            · cases h
            · split at h
              · split at h
                · cases h
                · split at h
                  · cases h
                  · exact loop fuel _ _ c (by omega) h
              · split at h
                · cases h
                · exact loop fuel _ _ c (by omega) h

/-- **legality of the writer's layout of one instruction**: operands in range, pool index resolving to the operand,
targets inside the method and every offset within 16 bits -/
theorem sinsn_legal {rp : ClassRead.Pool} {bsms : Option (List ClassRead.Bsm)} {n : Nat} {pos : Nat → Nat} {a cp : Nat}
    {ri : ClassRead.Insn} (hok : insnOk ri) (hop : ∀ op t, ri = .branch op t → isCondBranchOp op = true)
    (hcp : cp < 65536) (hpool : poolPart rp bsms cp ri)
    (ht : ∀ t ∈ targetsOf ri, t < n ∧ inI16 (relOff pos a t)) : (sinsnOf cp ri).Legal rp bsms n pos a := by
  cases ri with
  | simple op => exact hok
  | bipush v => exact hok
  | sipush v => exact hok
  | ldc c =>
    simp only [poolPart] at hpool
    by_cases h2 : isTwoSlot c = true
    · simp only [sinsnOf, formOf, h2, if_true, SInsn.Legal]
      exact ⟨hcp, hpool⟩
    · by_cases h3 : cp ≤ 255
      · simp only [sinsnOf, formOf, h2, h3, if_true, SInsn.Legal]
        exact ⟨by omega, hpool⟩
      · simp only [sinsnOf, formOf, h2, h3, if_false, SInsn.Legal]
        exact ⟨hcp, hpool⟩
  | load k i =>
    simp only [insnOk] at hok
    by_cases h2 : i < 4
    · simp only [sinsnOf, formOf, localForm, h2, if_true, SInsn.Legal]
      exact ⟨hok.1, trivial⟩
    · by_cases h3 : i ≤ 255
      · simp only [sinsnOf, formOf, localForm, h2, h3, if_true, if_false, SInsn.Legal]
        exact ⟨hok.1, by omega⟩
      · simp only [sinsnOf, formOf, localForm, h2, h3, if_false, SInsn.Legal]
        exact hok
  | store k i =>
    simp only [insnOk] at hok
    by_cases h2 : i < 4
    · simp only [sinsnOf, formOf, localForm, h2, if_true, SInsn.Legal]
      exact ⟨hok.1, trivial⟩
    · by_cases h3 : i ≤ 255
      · simp only [sinsnOf, formOf, localForm, h2, h3, if_true, if_false, SInsn.Legal]
        exact ⟨hok.1, by omega⟩
      · simp only [sinsnOf, formOf, localForm, h2, h3, if_false, SInsn.Legal]
        exact hok
  | iinc i v =>
    simp only [insnOk] at hok
    by_cases h2 : i ≤ 255 ∧ -128 ≤ v ∧ v ≤ 127
    · simp only [sinsnOf, formOf, h2, and_self, if_true, SInsn.Legal]
      exact ⟨by omega, ⟨h2.2.1, by omega⟩⟩
    · simp only [sinsnOf, formOf, h2, if_false, SInsn.Legal]
      exact hok
  | branch op t =>
    have := ht t (by simp [targetsOf])
    exact ⟨hop op t rfl, this.1, this.2⟩
  | goto t => exact ht t (by simp [targetsOf])
  | jsr t => exact ht t (by simp [targetsOf])
  | ret i =>
    simp only [insnOk] at hok
    by_cases h2 : i ≤ 255
    · simp only [sinsnOf, formOf, h2, if_true, SInsn.Legal]
      omega
    · simp only [sinsnOf, formOf, h2, if_false, SInsn.Legal]
      exact hok
  | tableswitch d lo hi tbl =>
    simp only [insnOk] at hok
    obtain ⟨h1, h2, h3, h4, h5⟩ := hok
    exact ⟨(ht d (by simp [targetsOf])).1, fun t htm => (ht t (by simp [targetsOf, htm])).1, h1, h2, h3, h4, h5,
      by simp [sinsnOf, padOf]⟩
  | lookupswitch d pairs =>
    simp only [insnOk] at hok
    refine ⟨(ht d (by simp [targetsOf])).1, fun kt hkt => ⟨(ht kt.2 ?_).1, hok.1 kt hkt⟩, hok.2, by simp [sinsnOf, padOf]⟩
    simp only [targetsOf, List.mem_cons, List.mem_map]
    exact Or.inr ⟨kt, hkt, rfl⟩
  | field op r => exact ⟨hok.1, hok.2.1, hcp, hpool⟩
  | invokevirtual m => exact ⟨hcp, hpool⟩
  | invokespecial m itf => exact ⟨hcp, hpool⟩
  | invokestatic m itf => exact ⟨hcp, hpool⟩
  | invokeinterface m =>
    refine ⟨hcp, hpool, ?_⟩
    simp only [sinsnOf, padOf]
    split
    · rename_i c hc; exact argsSize_lt hc
    · omega
  | invokedynamic d => exact ⟨hcp, hpool⟩
  | new c => exact ⟨hcp, hpool⟩
  | newarray a' => exact hok
  | anewarray c => exact ⟨hcp, hpool⟩
  | checkcast c => exact ⟨hcp, hpool⟩
  | instanceof c => exact ⟨hcp, hpool⟩
  | multianewarray c d => exact ⟨hcp, hpool, hok.2⟩

/-- **the pool puts of one instruction**: `putInsn` yields `cw cp` of the instruction with its labels renamed, the pool
index resolves to the operand in every later pool with every later bootstrap table, bootstrap rows are only appended -/
theorem putInsn_spec {lab : Nat → Nat} {p p' : Pool} {bs bs' : List Bsm} {ri : ClassRead.Insn} {i : CodeWrite.Insn}
    (hg : Good p) (hb : BsOk bs) (hok : insnOk ri) (h : putInsn lab p bs ri = .ok (i, p', bs')) :
    (Step p p' ∧ BsExt bs bs' ∧ BsOk bs') ∧ ∃ cp, cw cp (mapT lab ri) = some i ∧ cp < 65536 ∧
      (∀ op t, ri = .branch op t → isCondBranchOp op = true) ∧
      Sound2 p' bs' (fun rp bsms => poolPart rp bsms cp (mapT lab ri)) := by
  have plain : ∀ {j : CodeWrite.Insn}, putInsn lab p bs ri = .ok (j, p, bs) → j = i ∧ p' = p ∧ bs' = bs := by
    intro j hj
    rw [hj] at h
    have := ok_inj.mp h
    simp only [Prod.mk.injEq] at this
    exact ⟨this.1, this.2.1.symm, this.2.2.symm⟩
  cases ri with
  | simple op =>
    obtain ⟨rfl, rfl, rfl⟩ := plain rfl
    exact ⟨⟨Step.refl hg, BsExt.refl _, hb⟩, 0, rfl, by omega, (fun _ _ h => by cases h), fun _ _ _ _ => trivial⟩
  | bipush v =>
    obtain ⟨rfl, rfl, rfl⟩ := plain rfl
    exact ⟨⟨Step.refl hg, BsExt.refl _, hb⟩, 0, rfl, by omega, (fun _ _ h => by cases h), fun _ _ _ _ => trivial⟩
  | sipush v =>
    obtain ⟨rfl, rfl, rfl⟩ := plain rfl
    exact ⟨⟨Step.refl hg, BsExt.refl _, hb⟩, 0, rfl, by omega, (fun _ _ h => by cases h), fun _ _ _ _ => trivial⟩
  | load k ix =>
    obtain ⟨rfl, rfl, rfl⟩ := plain rfl
    exact ⟨⟨Step.refl hg, BsExt.refl _, hb⟩, 0, rfl, by omega, (fun _ _ h => by cases h), fun _ _ _ _ => trivial⟩
  | store k ix =>
    obtain ⟨rfl, rfl, rfl⟩ := plain rfl
    exact ⟨⟨Step.refl hg, BsExt.refl _, hb⟩, 0, rfl, by omega, (fun _ _ h => by cases h), fun _ _ _ _ => trivial⟩
  | iinc ix v =>
    obtain ⟨rfl, rfl, rfl⟩ := plain rfl
    exact ⟨⟨Step.refl hg, BsExt.refl _, hb⟩, 0, rfl, by omega, (fun _ _ h => by cases h), fun _ _ _ _ => trivial⟩
  | goto t =>
    obtain ⟨rfl, rfl, rfl⟩ := plain rfl
    exact ⟨⟨Step.refl hg, BsExt.refl _, hb⟩, 0, rfl, by omega, (fun _ _ h => by cases h), fun _ _ _ _ => trivial⟩
  | jsr t =>
    obtain ⟨rfl, rfl, rfl⟩ := plain rfl
    exact ⟨⟨Step.refl hg, BsExt.refl _, hb⟩, 0, rfl, by omega, (fun _ _ h => by cases h), fun _ _ _ _ => trivial⟩
  | ret ix =>
    obtain ⟨rfl, rfl, rfl⟩ := plain rfl
    exact ⟨⟨Step.refl hg, BsExt.refl _, hb⟩, 0, rfl, by omega, (fun _ _ h => by cases h), fun _ _ _ _ => trivial⟩
  | tableswitch d lo hi tbl =>
    obtain ⟨rfl, rfl, rfl⟩ := plain rfl
    exact ⟨⟨Step.refl hg, BsExt.refl _, hb⟩, 0, rfl, by omega, (fun _ _ h => by cases h), fun _ _ _ _ => trivial⟩
  | lookupswitch d ps =>
    obtain ⟨rfl, rfl, rfl⟩ := plain rfl
    exact ⟨⟨Step.refl hg, BsExt.refl _, hb⟩, 0, rfl, by omega, (fun _ _ h => by cases h), fun _ _ _ _ => trivial⟩
  | newarray a =>
    obtain ⟨rfl, rfl, rfl⟩ := plain rfl
    exact ⟨⟨Step.refl hg, BsExt.refl _, hb⟩, 0, rfl, by omega, (fun _ _ h => by cases h), fun _ _ _ _ => trivial⟩
  | branch op t =>
    simp only [putInsn] at h
    split at h
    · cases h
    · rename_i c hc
      have := ok_inj.mp h
      simp only [Prod.mk.injEq] at this
      obtain ⟨rfl, rfl, rfl⟩ := this
      refine ⟨⟨Step.refl hg, BsExt.refl _, hb⟩, 0, by simp [cw, mapT, hc], by omega, ?_, fun _ _ _ _ => trivial⟩
      intro op' t' he
      cases he
      exact condOfOp_isCond hc
  | ldc c =>
    obtain ⟨⟨cp, p1, bs1⟩, h1, h2⟩ := bind_eq_ok.mp h
    have := pure_eq_ok.mp h2
    simp only [Prod.mk.injEq] at this
    obtain ⟨rfl, rfl, rfl⟩ := this
    obtain ⟨s, e, o, a, b⟩ := putLoadable_spec2 c hg hb hok.1 h1
    exact ⟨⟨s, e, o⟩, cp, rfl, b, (fun _ _ h => by cases h),
      fun q bs'' hq hbs => getLoadableFuel_of2 hq.good c 17 (LoadableAt2.mono hq.le hbs c a) hok.1 hok.2⟩
  | field op r =>
    obtain ⟨⟨cp, p1⟩, h1, h2⟩ := bind_eq_ok.mp h
    have := pure_eq_ok.mp h2
    simp only [Prod.mk.injEq] at this
    obtain ⟨rfl, rfl, rfl⟩ := this
    obtain ⟨s, a, b⟩ := putRef_spec hg h1
    exact ⟨⟨s, BsExt.refl _, hb⟩, cp, rfl, b, (fun _ _ h => by cases h), fun q _ hq _ => getFieldRef_of hq.good (a.mono hq.le) hok.2.2⟩
  | invokevirtual m =>
    obtain ⟨⟨cp, p1⟩, h1, h2⟩ := bind_eq_ok.mp h
    have := pure_eq_ok.mp h2
    simp only [Prod.mk.injEq] at this
    obtain ⟨rfl, rfl, rfl⟩ := this
    obtain ⟨s, a, b⟩ := putRef_spec hg h1
    exact ⟨⟨s, BsExt.refl _, hb⟩, cp, rfl, b, (fun _ _ h => by cases h), fun q _ hq _ => getMethodRef_of hq.good (a.mono hq.le) hok⟩
  | invokespecial m itf =>
    obtain ⟨⟨cp, p1⟩, h1, h2⟩ := bind_eq_ok.mp h
    have := pure_eq_ok.mp h2
    simp only [Prod.mk.injEq] at this
    obtain ⟨rfl, rfl, rfl⟩ := this
    obtain ⟨s, a, b⟩ := putRef_spec hg h1
    exact ⟨⟨s, BsExt.refl _, hb⟩, cp, rfl, b, (fun _ _ h => by cases h), fun q _ hq _ => getMethodRefOrInterface_of hq.good (a.mono hq.le) hok⟩
  | invokestatic m itf =>
    obtain ⟨⟨cp, p1⟩, h1, h2⟩ := bind_eq_ok.mp h
    have := pure_eq_ok.mp h2
    simp only [Prod.mk.injEq] at this
    obtain ⟨rfl, rfl, rfl⟩ := this
    obtain ⟨s, a, b⟩ := putRef_spec hg h1
    exact ⟨⟨s, BsExt.refl _, hb⟩, cp, rfl, b, (fun _ _ h => by cases h), fun q _ hq _ => getMethodRefOrInterface_of hq.good (a.mono hq.le) hok⟩
  | invokeinterface m =>
    obtain ⟨⟨cp, p1⟩, h1, h2⟩ := bind_eq_ok.mp h
    have := pure_eq_ok.mp h2
    simp only [Prod.mk.injEq] at this
    obtain ⟨rfl, rfl, rfl⟩ := this
    obtain ⟨s, a, b⟩ := putRef_spec hg h1
    exact ⟨⟨s, BsExt.refl _, hb⟩, cp, rfl, b, (fun _ _ h => by cases h), fun q _ hq _ => getInterfaceMethodRef_of hq.good (a.mono hq.le) hok⟩
  | invokedynamic d =>
    obtain ⟨⟨cp, p1, bs1⟩, h1, h2⟩ := bind_eq_ok.mp h
    have := pure_eq_ok.mp h2
    simp only [Prod.mk.injEq] at this
    obtain ⟨rfl, rfl, rfl⟩ := this
    obtain ⟨s, e, o, a, b⟩ := putInvokeDynamic_spec hg hb hok h1
    exact ⟨⟨s, e, o⟩, cp, rfl, b, (fun _ _ h => by cases h),
      fun q bs'' hq hbs => ⟨d, getInvokeDynamic_of hq.good (a.mono hq.le hbs) hok, rfl⟩⟩
  | new c =>
    obtain ⟨⟨cp, p1⟩, h1, h2⟩ := bind_eq_ok.mp h
    have := pure_eq_ok.mp h2
    simp only [Prod.mk.injEq] at this
    obtain ⟨rfl, rfl, rfl⟩ := this
    obtain ⟨s, a, b⟩ := putClass_spec hg h1
    exact ⟨⟨s, BsExt.refl _, hb⟩, cp, rfl, b, (fun _ _ h => by cases h), fun q _ hq _ => getClass_of hq.good (a.mono hq.le) hok⟩
  | anewarray c =>
    obtain ⟨⟨cp, p1⟩, h1, h2⟩ := bind_eq_ok.mp h
    have := pure_eq_ok.mp h2
    simp only [Prod.mk.injEq] at this
    obtain ⟨rfl, rfl, rfl⟩ := this
    obtain ⟨s, a, b⟩ := putClass_spec hg h1
    exact ⟨⟨s, BsExt.refl _, hb⟩, cp, rfl, b, (fun _ _ h => by cases h), fun q _ hq _ => getClass_of hq.good (a.mono hq.le) hok⟩
  | checkcast c =>
    obtain ⟨⟨cp, p1⟩, h1, h2⟩ := bind_eq_ok.mp h
    have := pure_eq_ok.mp h2
    simp only [Prod.mk.injEq] at this
    obtain ⟨rfl, rfl, rfl⟩ := this
    obtain ⟨s, a, b⟩ := putClass_spec hg h1
    exact ⟨⟨s, BsExt.refl _, hb⟩, cp, rfl, b, (fun _ _ h => by cases h), fun q _ hq _ => getClass_of hq.good (a.mono hq.le) hok⟩
  | instanceof c =>
    obtain ⟨⟨cp, p1⟩, h1, h2⟩ := bind_eq_ok.mp h
    have := pure_eq_ok.mp h2
    simp only [Prod.mk.injEq] at this
    obtain ⟨rfl, rfl, rfl⟩ := this
    obtain ⟨s, a, b⟩ := putClass_spec hg h1
    exact ⟨⟨s, BsExt.refl _, hb⟩, cp, rfl, b, (fun _ _ h => by cases h), fun q _ hq _ => getClass_of hq.good (a.mono hq.le) hok⟩
  | multianewarray c d =>
    obtain ⟨⟨cp, p1⟩, h1, h2⟩ := bind_eq_ok.mp h
    have := pure_eq_ok.mp h2
    simp only [Prod.mk.injEq] at this
    obtain ⟨rfl, rfl, rfl⟩ := this
    obtain ⟨s, a, b⟩ := putClass_spec hg h1
    exact ⟨⟨s, BsExt.refl _, hb⟩, cp, rfl, b, (fun _ _ h => by cases h), fun q _ hq _ => getClass_of hq.good (a.mono hq.le) hok.1⟩

end ClassWriteFull
