import FeatherModel.Model.ClassReadBase

/-! C01 lemmas: big-endian readers invert the big-endian writers; `readVec` over a concatenation of encodings. -/

namespace ClassRead

open Outcome

theorem u8_be8 (n : Nat) (h : n < 256) (r : Bytes) : u8 (be8 n ++ r) = ok (n, r) := by
  simp [be8, u8]; omega

theorem u16_be16 (n : Nat) (h : n < 65536) (r : Bytes) : u16 (be16 n ++ r) = ok (n, r) := by
  simp [be16, u16]; omega

theorem u32_be32 (n : Nat) (h : n < 4294967296) (r : Bytes) : u32 (be32 n ++ r) = ok (n, r) := by
  simp [be32, u32]; omega

theorem u64_be64 (n : Nat) (h : n < 18446744073709551616) (r : Bytes) : u64 (be64 n ++ r) = ok (n, r) := by
  have h1 : n / 4294967296 < 4294967296 := by omega
  have h2 : n % 4294967296 < 4294967296 := by omega
  simp only [be64, u64, List.append_assoc, u32_be32 _ h1, u32_be32 _ h2, ok_bind, pure_eq]
  congr 2; omega

theorem toI8_ofI8 (v : Int) (h : -128 ≤ v ∧ v < 128) : toI8 (ofI8 v) = v := by
  unfold toI8 ofI8; split <;> omega

theorem toI16_ofI16 (v : Int) (h : -32768 ≤ v ∧ v < 32768) : toI16 (ofI16 v) = v := by
  unfold toI16 ofI16; split <;> omega

theorem toI32_ofI32 (v : Int) (h : -2147483648 ≤ v ∧ v < 2147483648) : toI32 (ofI32 v) = v := by
  unfold toI32 ofI32; split <;> omega

theorem toI64_ofI64 (v : Int) (h : -9223372036854775808 ≤ v ∧ v < 9223372036854775808) : toI64 (ofI64 v) = v := by
  unfold toI64 ofI64; split <;> omega

theorem ofI8_lt (v : Int) : ofI8 v < 256 := by unfold ofI8; omega
theorem ofI16_lt (v : Int) : ofI16 v < 65536 := by unfold ofI16; omega
theorem ofI32_lt (v : Int) : ofI32 v < 4294967296 := by unfold ofI32; omega
theorem ofI64_lt (v : Int) : ofI64 v < 18446744073709551616 := by unfold ofI64; omega

theorem i8_be (v : Int) (h : -128 ≤ v ∧ v < 128) (r : Bytes) : i8 (be8 (ofI8 v) ++ r) = ok (v, r) := by
  simp [i8, u8_be8 _ (ofI8_lt v), toI8_ofI8 v h]

theorem i16_be (v : Int) (h : -32768 ≤ v ∧ v < 32768) (r : Bytes) : i16 (be16 (ofI16 v) ++ r) = ok (v, r) := by
  simp [i16, u16_be16 _ (ofI16_lt v), toI16_ofI16 v h]

theorem i32_be (v : Int) (h : -2147483648 ≤ v ∧ v < 2147483648) (r : Bytes) : i32 (be32 (ofI32 v) ++ r) = ok (v, r) := by
  simp [i32, u32_be32 _ (ofI32_lt v), toI32_ofI32 v h]

theorem i64_be (v : Int) (h : -9223372036854775808 ≤ v ∧ v < 9223372036854775808) (r : Bytes) :
    i64 (be64 (ofI64 v) ++ r) = ok (v, r) := by
  simp [i64, u64_be64 _ (ofI64_lt v), toI64_ofI64 v h]

theorem lengthGe_iff (s : Bytes) (n : Nat) : lengthGe s n = decide (n ≤ s.length) := by
  induction s generalizing n with
  | nil => cases n <;> simp [lengthGe]
  | cons a r ih => cases n <;> simp [lengthGe, ih]

theorem takeN_append (b r : Bytes) : takeN b.length (b ++ r) = ok (b, r) := by
  simp [takeN, lengthGe_iff]

theorem be16_length (n : Nat) : (be16 n).length = 2 := rfl
theorem be32_length (n : Nat) : (be32 n).length = 4 := rfl

/-- `readVec` reads back a concatenation of element encodings -/
theorem readVec_flatMap {α β : Type} (elem : Rd α) (enc : β → Bytes) (val : β → α) (xs : List β)
    (h : ∀ x ∈ xs, ∀ r, elem (enc x ++ r) = ok (val x, r)) (r : Bytes) :
    readVec elem xs.length (xs.flatMap enc ++ r) = ok (xs.map val, r) := by
  induction xs with
  | nil => simp [readVec]
  | cons x xs ih =>
    have hx := h x (by simp)
    have ih' := ih (fun y hy => h y (by simp [hy]))
    simp [readVec, List.flatMap_cons, List.append_assoc, hx, ih']

theorem readVec16_flatMap {α β : Type} (elem : Rd α) (enc : β → Bytes) (val : β → α) (xs : List β)
    (hlen : xs.length < 65536)
    (h : ∀ x ∈ xs, ∀ r, elem (enc x ++ r) = ok (val x, r)) (r : Bytes) :
    readVec16 elem (be16 xs.length ++ xs.flatMap enc ++ r) = ok (xs.map val, r) := by
  simp [readVec16, List.append_assoc, u16_be16 _ hlen, readVec_flatMap elem enc val xs h]

/-- the same with the input associated to the right -/
theorem readVec16_flatMap' {α β : Type} (elem : Rd α) (enc : β → Bytes) (val : β → α) (xs : List β)
    (hlen : xs.length < 65536)
    (h : ∀ x ∈ xs, ∀ r, elem (enc x ++ r) = ok (val x, r)) (r : Bytes) :
    readVec16 elem (be16 xs.length ++ (xs.flatMap enc ++ r)) = ok (xs.map val, r) := by
  have := readVec16_flatMap elem enc val xs hlen h r
  simpa [List.append_assoc] using this

end ClassRead
