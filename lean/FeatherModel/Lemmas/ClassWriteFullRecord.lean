import FeatherModel.Lemmas.ClassWriteFullGen

/-!
# C02 (whole writer) — `write_record_component`: the bytes are the encoding of a legal `RecordLayout` denoting the
component; the `Record` attribute
-/

namespace ClassWriteFull
open PoolWrite (Entry)
open FramePool (Good Le)
open ClassRead ClassRead.Spec

def SRecordAttr.frame (a : SRecordAttr) : Bytes := attrFrame a.raw.1 a.raw.2

/-- record components: framing, legality, effect on the facts -/
def ownRecord : Own SRecordAttr RecordComponent :=
  ⟨SRecordAttr.frame, fun q a => Sound q (fun rp => a.Legal rp), fun hl h => h.mono hl, SRecordAttr.apply⟩

/-- conditions on a record component of the proved fragment that do not depend on the pool: well-typed annotations
within the reader's nesting limit, type annotations with the target a record component admits (`field`), unknown
attributes not named like a known one (the reader does not validate the component's name) -/
structure RecordOk (r : RecordComponent) : Prop where
  rva : AnnosOk r.rva
  ria : AnnosOk r.ria
  rvta : TypeAnnosOk .field r.rvta
  rita : TypeAnnosOk .field r.rita
  unknown : ∀ a ∈ r.attrs, a.name ∉ recordAttrNames

theorem applyAll_record_unknown (st : RecordComponent) : ∀ (ncs : List Nat) (as : List Attr), ncs.length = as.length →
    applyAll SRecordAttr.apply st ((ncs.zip as).map fun x => SRecordAttr.unknown x.1 x.2.name x.2.bytes)
      = some { st with attrs := st.attrs ++ as } := by
  intro ncs as
  induction as generalizing ncs st with
  | nil => intro _; cases ncs <;> simp [applyAll]
  | cons a as ih =>
    intro hl
    cases ncs with
    | nil => simp at hl
    | cons n ncs =>
      simp only [List.zip_cons_cons, List.map_cons, applyAll, SRecordAttr.apply]
      rw [ih _ ncs (by simpa using hl)]
      simp

theorem rblock_signature {f : RecordComponent} {o : Option Bytes} {q : Pool}
    (c : (f.signature = none ∧ o = none) ∨
      (∃ s cp, f.signature = some s ∧ Present o q sSignature (be16 cp) ∧ cp < 65536 ∧ Utf8At q cp s)) :
    GBlock ownRecord o q (fun c => c.signature = none) (fun c => { c with signature := f.signature }) := by
  rcases c with ⟨hf, rfl⟩ | ⟨s, cp, hf, ⟨nc, rfl, hn, a⟩, hc, ac⟩
  · exact gblock_absent (fun c hc => by cases c; simp_all)
  · exact gblock_present (O := ownRecord) (.signature nc cp s)
      (fun q' hq => ⟨hn, getUtf8_of hq.good (a.mono hq.le), hc, getUtf8_of hq.good (ac.mono hq.le)⟩)
      (fun st hst => by simp [ownRecord, SRecordAttr.apply, hst, hf])

theorem rblock_annos (visible : Bool) {as : List Annotation} {o : Option Bytes} {q : Pool}
    (c : (as = [] ∧ o = none) ∨
      ∃ sas : List SAnno, Present o q (if visible then sRVA else sRIA) (encAnnos sas) ∧ sas.map SAnno.fact = as ∧
        sas.length < 65536 ∧ (encAnnos sas).length < 4294967296 ∧ ∀ sa ∈ sas, Sound q (fun rp => sa.Ok rp)) :
    GBlock ownRecord o q (fun _ => True)
      (fun c => if visible then { c with rva := c.rva ++ as } else { c with ria := c.ria ++ as }) := by
  rcases c with ⟨rfl, rfl⟩ | ⟨sas, ⟨nc, rfl, hn, a⟩, hm, hl, hb, hs⟩
  · exact gblock_absent (fun c _ => by cases visible <;> simp)
  · exact gblock_present (O := ownRecord) (.annotations nc visible sas)
      (fun q' hq => ⟨hn, getUtf8_of hq.good (a.mono hq.le), hl, fun sa hsa => hs sa hsa q' hq, hb⟩)
      (fun st _ => by cases visible <;> simp [ownRecord, SRecordAttr.apply, hm])

theorem rblock_typeAnnos (visible : Bool) {as : List TypeAnno} {o : Option Bytes} {q : Pool}
    (c : (as = [] ∧ o = none) ∨
      ∃ sas : List STypeAnno, Present o q (if visible then sRVTA else sRITA) (encTypeAnnos sas) ∧ sas.map STypeAnno.fact = as ∧
        sas.length < 65536 ∧ (encTypeAnnos sas).length < 4294967296 ∧ ∀ sa ∈ sas, Sound q (fun rp => sa.Legal rp .field)) :
    GBlock ownRecord o q (fun _ => True)
      (fun c => if visible then { c with rvta := c.rvta ++ as } else { c with rita := c.rita ++ as }) := by
  rcases c with ⟨rfl, rfl⟩ | ⟨sas, ⟨nc, rfl, hn, a⟩, hm, hl, hb, hs⟩
  · exact gblock_absent (fun c _ => by cases visible <;> simp)
  · exact gblock_present (O := ownRecord) (.typeAnnotations nc visible sas)
      (fun q' hq => ⟨hn, getUtf8_of hq.good (a.mono hq.le), hl, fun sa hsa => hs sa hsa q' hq, hb⟩)
      (fun st _ => by cases visible <;> simp [ownRecord, SRecordAttr.apply, hm])

theorem rblocks_unknown {f : RecordComponent} (hok : ∀ a ∈ f.attrs, a.name ∉ recordAttrNames) {q : Pool} {ncs : List Nat}
    (hlen : ncs.length = f.attrs.length)
    (hunk : ∀ x ∈ ncs.zip f.attrs, x.1 < 65536 ∧ Utf8At q x.1 x.2.name ∧ x.2.bytes.length < 4294967296) :
    GBlocks ownRecord ((ncs.zip f.attrs).map (fun x => attrFrame x.1 x.2.bytes)) q (fun _ => True)
      (fun c => { c with attrs := c.attrs ++ f.attrs }) := by
  refine ⟨(ncs.zip f.attrs).map fun x => SRecordAttr.unknown x.1 x.2.name x.2.bytes, ?_, ?_, ?_⟩
  · simp [List.map_map, Function.comp_def, ownRecord, SRecordAttr.frame, SRecordAttr.raw]
  · intro a ha q' hq
    obtain ⟨x, hx, rfl⟩ := List.mem_map.mp ha
    obtain ⟨hn, hu, hb⟩ := hunk x hx
    exact ⟨hn, getUtf8_of hq.good (hu.mono hq.le), hok x.2 (List.of_mem_zip hx).2, hb⟩
  · intro st _
    exact applyAll_record_unknown st ncs f.attrs hlen

theorem writeRecordComponent_spec {p p' : Pool} {f : RecordComponent} {b : Bytes} (hg : Good p) (hok : RecordOk f)
    (h : writeRecordComponent p f = .ok (b, p')) :
    Step p p' ∧ ∃ l : RecordLayout, b = l.encode ∧ Sound p' (fun rp => l.Legal rp) ∧ l.facts = some f := by
  obtain ⟨⟨ni, p1⟩, h1, h⟩ := bind_eq_ok.mp h
  obtain ⟨⟨di, p2⟩, h2, h⟩ := bind_eq_ok.mp h
  obtain ⟨⟨as, p3⟩, h3, h⟩ := bind_eq_ok.mp h
  obtain ⟨ab, h4, h⟩ := bind_eq_ok.mp h
  have := pure_eq_ok.mp h
  cases this
  obtain ⟨s1, a1, hni⟩ := putUtf8_spec hg h1
  obtain ⟨s2, a2, hdi⟩ := putUtf8_spec s1.good h2
  simp only [List.cons_append, List.nil_append] at h3
  obtain ⟨o4, q4, r4, e4, k4, rfl⟩ := runAttrs_cons_inv h3
  obtain ⟨r5, q8, r6, e5, k5, rfl⟩ := runAttrs_append_inv k4
  obtain ⟨o5, q5, o6, q6, o7, q7, o8, e5a, e6, e7, e8, rfl⟩ := annoBlocks_inv e5
  obtain ⟨t4, c4⟩ := sigAttr_spec s2.good e4
  obtain ⟨t5, c5⟩ := annosAttr_spec t4.good hok.rva e5a
  obtain ⟨t6, c6⟩ := annosAttr_spec t5.good hok.ria e6
  obtain ⟨t7, c7⟩ := typeAnnosAttr_spec writeTargetField_eq t6.good hok.rvta e7
  obtain ⟨t8, c8⟩ := typeAnnosAttr_spec writeTargetField_eq t7.good hok.rita e8
  obtain ⟨t9, ncs, hlen, rfl, hunk⟩ := unknownAttrs_spec f.attrs t8.good k5
  obtain ⟨hcount, rfl⟩ := attrsBytes_inv h4
  have s8 := t9
  have s7 := t8.trans s8
  have s6 := t7.trans s7
  have s5 := t6.trans s6
  have s4 := t5.trans s5
  have s3 := t4.trans s4
  refine ⟨s1.trans (s2.trans s3), ?_⟩
  have B := GBlocks.cons (rblock_signature c4) s4.le
    (GBlocks.cons' (rblock_annos true c5) s5.le
    (GBlocks.cons' (rblock_annos false c6) s6.le
    (GBlocks.cons' (rblock_typeAnnos true c7) s7.le
    (GBlocks.cons' (rblock_typeAnnos false c8) s8.le
      (rblocks_unknown hok.unknown hlen hunk)
      (fun _ _ => trivial)) (fun _ _ => trivial)) (fun _ _ => trivial)) (fun _ _ => trivial))
      (pre := fun c : RecordComponent => c.signature = none) (fun c h => ⟨h, trivial⟩)
  obtain ⟨attrs, hbytes, hsound, hfacts⟩ := B
  have hb' : o4.toList ++ ((o5.toList ++ (o6.toList ++ (o7.toList ++ (o8.toList ++ []))))
      ++ List.map (fun x => attrFrame x.fst x.snd.bytes) (ncs.zip f.attrs)) = attrs.map SRecordAttr.frame := by
    rw [show attrs.map SRecordAttr.frame = attrs.map ownRecord.frame from rfl, ← hbytes]; simp [List.append_assoc]
  refine ⟨⟨ni, f.name, di, f.desc, attrs⟩, ?_, ?_, ?_⟩
  · simp only [RecordLayout.encode, encAttrs_eq]
    rw [hb', List.length_map]
    rfl
  · intro q hq
    have hq1 : Ext p1 q := hq.of_le (s2.trans s3).le
    have hq2 : Ext p2 q := hq.of_le s3.le
    refine ⟨hni, hdi, getUtf8_of hq.good (a1.mono hq1.le), getUtf8_of hq.good (a2.mono hq2.le), ?_,
      fun a ha => hsound a ha q hq⟩
    rw [hb', List.length_map] at hcount
    show attrs.length < 65536
    omega
  · have := hfacts ⟨f.name, f.desc, none, [], [], [], [], []⟩ rfl
    simp only [RecordLayout.facts]
    show applyAll ownRecord.apply _ attrs = some f
    rw [this]
    cases f
    simp_all

/-- the components of a `Record` attribute, one after the other -/
theorem writeRecordComponents_spec : ∀ (fs : List RecordComponent) {p p' : Pool} {b : Bytes}, Good p →
    (∀ f ∈ fs, RecordOk f) → writeList writeRecordComponent p fs = .ok (b, p') →
    Step p p' ∧ ∃ ls : List RecordLayout, b = ls.flatMap RecordLayout.encode ∧ ls.length = fs.length ∧
      (∀ l ∈ ls, Sound p' (fun rp => l.Legal rp)) ∧ mapOpt RecordLayout.facts ls = some fs := by
  intro fs
  induction fs with
  | nil =>
    intro p p' b hg _ h
    obtain ⟨rfl, rfl⟩ := writeList_nil_inv h
    exact ⟨Step.refl hg, [], rfl, rfl, by simp, rfl⟩
  | cons f fs ih =>
    intro p p' b hg hok h
    obtain ⟨b1, p1, b2, h1, h2, rfl⟩ := writeList_cons_inv h
    obtain ⟨s1, l, rfl, sd, hf⟩ := writeRecordComponent_spec hg (hok f (by simp)) h1
    obtain ⟨s2, ls, rfl, hl, sds, hfs⟩ := ih s1.good (fun g hg' => hok g (by simp [hg'])) h2
    refine ⟨s1.trans s2, l :: ls, by simp, by simp [hl], ?_, by simp [mapOpt, hf, hfs]⟩
    intro x hx
    rcases List.mem_cons.mp hx with rfl | hx
    · exact sd.mono s2.le
    · exact sds x hx

/-- the `Record` block of `write`: written exactly when there are components -/
theorem recordAttr_spec {rs : List RecordComponent} {p p' : Pool} {o : Option Bytes} (hg : Good p)
    (hok : ∀ r ∈ rs, RecordOk r)
    (h : onlyIf (!rs.isEmpty) (attrBuf sRecord (fun p => writeSlice16 writeRecordComponent p rs)) p = .ok (o, p')) :
    Step p p' ∧ ((rs = [] ∧ o = none) ∨
      (rs ≠ [] ∧ ∃ ls : List RecordLayout, Present o p' sRecord (be16 ls.length ++ ls.flatMap RecordLayout.encode) ∧
        ls.length < 65536 ∧ (be16 ls.length ++ ls.flatMap RecordLayout.encode).length < 4294967296 ∧
        (∀ l ∈ ls, Sound p' (fun rp => l.Legal rp)) ∧ mapOpt RecordLayout.facts ls = some rs)) := by
  rcases onlyIf_inv h with ⟨hc, b, hb, rfl⟩ | ⟨hc, rfl, rfl⟩
  · obtain ⟨bb, p1, i, h1, h2, hlen, rfl⟩ := attrBuf_inv hb
    obtain ⟨hl, bb', h3, rfl⟩ := writeSlice16_inv h1
    obtain ⟨s1, ls, rfl, hlen', sds, hfs⟩ := writeRecordComponents_spec rs hg hok h3
    obtain ⟨s2, a2, hi⟩ := putUtf8_spec s1.good h2
    refine ⟨s1.trans s2, Or.inr ⟨?_, ls, ⟨i, by rw [hlen'], hi, a2⟩, by omega, ?_, fun l hl' => (sds l hl').mono s2.le, hfs⟩⟩
    · intro hnil; subst hnil; simp at hc
    · rw [hlen']; omega
  · refine ⟨Step.refl hg, Or.inl ⟨?_, rfl⟩⟩
    cases rs with
    | nil => rfl
    | cons _ _ => simp at hc

end ClassWriteFull
