/-!
# Finite checks over position-indexed tables

A table `T` with one entry per index `0..n-1` is checked in ONE linear pass (`(List.range n).zip T`), which the kernel
evaluates quickly; `forall_of_zip_all` turns the pass into the pointwise statement.
-/

namespace Arms

theorem forall_of_zip_all {α : Type} (T : List α) (n : Nat) (d : α) (p : Nat → α → Bool)
    (hlen : T.length = n) (h : ((List.range n).zip T).all (fun x => p x.1 x.2) = true) :
    ∀ i, i < n → p i (T.getD i d) = true := by
  intro i hi
  have hi' : i < T.length := hlen ▸ hi
  have hget : T[i]? = some T[i] := List.getElem?_eq_getElem hi'
  have hd : T.getD i d = T[i] := by simp [List.getD, hget]
  rw [hd]
  have hmem : (i, T[i]) ∈ (List.range n).zip T := by
    rw [List.mem_iff_getElem?]
    refine ⟨i, ?_⟩
    rw [List.getElem?_zip_eq_some]
    exact ⟨by simp [hi], hget⟩
  exact (List.all_eq_true.mp h) (i, T[i]) hmem

end Arms
