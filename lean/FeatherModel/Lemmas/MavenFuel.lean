import FeatherModel.Model.Maven

/-! Fuel independence of the recursive functions of the Maven model (C19): once a function answers `ok` or `err`,
every larger amount of fuel gives the same answer.  `Res.le a b` = "`a` ran out of fuel, or `a = b`". -/

namespace Maven

variable {α : Type}

def Res.le (a b : Res α) : Prop := a = .fuel ∨ a = b

theorem Res.le_refl (a : Res α) : a.le a := Or.inr rfl

theorem Res.le_trans {a b c : Res α} (h1 : a.le b) (h2 : b.le c) : a.le c := by
  rcases h1 with h | h
  · exact Or.inl h
  · rw [h]; exact h2

theorem Res.le_ok {a b : Res α} {x : α} (h : a.le b) (e : a = .ok x) : b = .ok x := by
  rcases h with h | h
  · rw [h] at e; cases e
  · rw [← h]; exact e

theorem Res.le_err {a b : Res α} (h : a.le b) (e : a = .err) : b = .err := by
  rcases h with h | h
  · rw [h] at e; cases e
  · rw [← h]; exact e

/-- monotone sequences: one step suffices -/
theorem Res.le_of_step {f : Nat → Res α} (h : ∀ n, (f n).le (f (n + 1))) : ∀ {n m : Nat}, n ≤ m → (f n).le (f m) := by
  intro n m hnm
  induction m with
  | zero =>
    have : n = 0 := by omega
    subst this; exact Res.le_refl _
  | succ m ih =>
    by_cases e : n = m + 1
    · subst e; exact Res.le_refl _
    · exact Res.le_trans (ih (by omega)) (h m)

variable (U : Universe) (rs : List Resolver)

theorem collectParents_step : ∀ (n : Nat) (oc : Option Coord),
    (collectParents U rs n oc).le (collectParents U rs (n + 1) oc) := by
  intro n
  induction n with
  | zero =>
    intro oc
    cases oc with
    | none => exact Or.inr (by simp [collectParents])
    | some c => exact Or.inl (by simp [collectParents])
  | succ n ih =>
    intro oc
    cases oc with
    | none => exact Or.inr (by simp [collectParents])
    | some c =>
      rw [collectParents, collectParents]
      cases tryGetPom U rs c with
      | err => exact Res.le_refl _
      | fuel => exact Res.le_refl _
      | ok p =>
        obtain ⟨r, pom⟩ := p
        rcases ih pom.parentCoord with h | h
        · exact Or.inl (by simp only [h])
        · simp only [h]; exact Res.le_refl _

theorem makeDMOwn_le {imp imp' : Coord → Res PomDone} (h : ∀ c, (imp c).le (imp' c)) :
    ∀ l, (makeDMOwn imp l).le (makeDMOwn imp' l) := by
  intro l
  induction l with
  | nil => exact Res.le_refl _
  | cons x rest ih =>
    rw [makeDMOwn, makeDMOwn]
    cases x.version with
    | none => exact Res.le_refl _
    | some v =>
      simp only []
      split
      · -- import
        rcases h (depCoord x.group x.artifact v x.type_ x.classifier) with h1 | h1
        · exact Or.inl (by simp only [h1])
        · simp only [h1]
          cases imp' (depCoord x.group x.artifact v x.type_ x.classifier) with
          | err => exact Res.le_refl _
          | fuel => exact Res.le_refl _
          | ok target =>
            rcases ih with h2 | h2
            · exact Or.inl (by simp only [h2])
            · simp only [h2]; exact Res.le_refl _
      · rcases ih with h2 | h2
        · exact Or.inl (by simp only [h2])
        · simp only [h2]; exact Res.le_refl _

theorem makeDM_le {imp imp' : Coord → Res PomDone} (h : ∀ c, (imp c).le (imp' c)) (own) (parent) :
    (makeDM imp own parent).le (makeDM imp' own parent) := by
  unfold makeDM
  rcases makeDMOwn_le h own with h2 | h2
  · exact Or.inl (by simp only [h2])
  · simp only [h2]; exact Res.le_refl _

theorem mergeParent_le {imp imp' : Coord → Res PomDone} (h : ∀ c, (imp c).le (imp' c)) (parent) (child : Pom) :
    (mergeParent imp parent child).le (mergeParent imp' parent child) := by
  unfold mergeParent
  cases parent with
  | some p =>
    simp only []
    split
    · exact Res.le_refl _
    · rcases makeDM_le h child.depMgmt (some p.depMgmt) with h2 | h2
      · exact Or.inl (by simp only [h2])
      · simp only [h2]; exact Res.le_refl _
  | none =>
    simp only []
    split
    · rcases makeDM_le h child.depMgmt none with h2 | h2
      · exact Or.inl (by simp only [h2])
      · simp only [h2]; exact Res.le_refl _
    · exact Res.le_refl _

theorem mergeChain_le {imp imp' : Coord → Res PomDone} (h : ∀ c, (imp c).le (imp' c)) :
    ∀ (l : List Pom) (acc : Option PomDone), (mergeChain imp acc l).le (mergeChain imp' acc l) := by
  intro l
  induction l with
  | nil => intro acc; exact Res.le_refl _
  | cons p rest ih =>
    intro acc
    rw [mergeChain, mergeChain]
    rcases mergeParent_le h acc p with h2 | h2
    · exact Or.inl (by simp only [h2])
    · simp only [h2]
      cases mergeParent imp' acc p with
      | err => exact Res.le_refl _
      | fuel => exact Res.le_refl _
      | ok m => exact ih (some m)

/-- the `imp` closure of `getMergedPom` -/
def impOf (n : Nat) : Coord → Res PomDone := fun c =>
  match getMergedPom U rs n c with
  | .ok (_, p) => .ok p
  | .err => .err
  | .fuel => .fuel

theorem getMergedPom_succ (n : Nat) (coord : Coord) :
    getMergedPom U rs (n + 1) coord =
      match tryGetPom U rs coord with
      | .ok (resolver, pom) =>
        match collectParents U rs n pom.parentCoord with
        | .ok stack =>
          match mergeChain (impOf U rs n) none stack.reverse with
          | .ok parent =>
            match mergeParent (impOf U rs n) parent pom with
            | .ok merged => .ok (resolver, merged)
            | .err => .err
            | .fuel => .fuel
          | .err => .err
          | .fuel => .fuel
        | .err => .err
        | .fuel => .fuel
      | .err => .err
      | .fuel => .fuel := by
  rw [getMergedPom]
  rfl

theorem getMergedPom_step : ∀ (n : Nat) (c : Coord), (getMergedPom U rs n c).le (getMergedPom U rs (n + 1) c) := by
  intro n
  induction n with
  | zero => intro c; exact Or.inl (by rw [getMergedPom])
  | succ n ih =>
    intro c
    have himp : ∀ c, (impOf U rs n c).le (impOf U rs (n + 1) c) := by
      intro c
      unfold impOf
      rcases ih c with h | h
      · exact Or.inl (by simp only [h])
      · simp only [h]; exact Res.le_refl _
    rw [getMergedPom_succ, getMergedPom_succ]
    cases tryGetPom U rs c with
    | err => exact Res.le_refl _
    | fuel => exact Res.le_refl _
    | ok p =>
      obtain ⟨r, pom⟩ := p
      simp only []
      rcases collectParents_step U rs n pom.parentCoord with h1 | h1
      · exact Or.inl (by simp only [h1])
      · simp only [← h1]
        cases collectParents U rs n pom.parentCoord with
        | err => exact Res.le_refl _
        | fuel => exact Res.le_refl _
        | ok stack =>
          simp only []
          rcases mergeChain_le himp stack.reverse none with h2 | h2
          · exact Or.inl (by simp only [h2])
          · simp only [← h2]
            cases mergeChain (impOf U rs n) none stack.reverse with
            | err => exact Res.le_refl _
            | fuel => exact Res.le_refl _
            | ok parent =>
              simp only []
              rcases mergeParent_le himp parent pom with h3 | h3
              · exact Or.inl (by simp only [h3])
              · simp only [← h3]; exact Res.le_refl _

theorem getMergedPom_mono {n m : Nat} (h : n ≤ m) (c : Coord) : (getMergedPom U rs n c).le (getMergedPom U rs m c) :=
  Res.le_of_step (f := fun k => getMergedPom U rs k c) (fun k => getMergedPom_step U rs k c) h

theorem collectParents_mono {n m : Nat} (h : n ≤ m) (oc : Option Coord) :
    (collectParents U rs n oc).le (collectParents U rs m oc) :=
  Res.le_of_step (f := fun k => collectParents U rs k oc) (fun k => collectParents_step U rs k oc) h

theorem impOf_mono {n m : Nat} (h : n ≤ m) (c : Coord) : (impOf U rs n c).le (impOf U rs m c) := by
  unfold impOf
  rcases getMergedPom_mono U rs h c with h1 | h1
  · exact Or.inl (by simp only [h1])
  · simp only [h1]; exact Res.le_refl _

/-! ## the dependency tree -/

theorem depChildren_le {rec rec' : Coord → Scope → Res (Tree Found)} (h : ∀ c s, (rec c s).le (rec' c s)) (scope : Scope) :
    ∀ l, (depChildren rec scope l).le (depChildren rec' scope l) := by
  intro l
  induction l with
  | nil => exact Res.le_refl _
  | cons d rest ih =>
    rw [depChildren, depChildren]
    split
    · exact ih
    · cases theScopeTable scope (d.scope.getD .compile) with
      | none => exact ih
      | some sc =>
        simp only []
        rcases h d.coord sc with h1 | h1
        · exact Or.inl (by simp only [h1])
        · simp only [← h1]
          cases rec d.coord sc with
          | err => exact Res.le_refl _
          | fuel => exact Res.le_refl _
          | ok c =>
            simp only []
            rcases ih with h2 | h2
            · exact Or.inl (by simp only [h2])
            · simp only [h2]; exact Res.le_refl _

theorem depTree_step : ∀ (n : Nat) (c : Coord) (s : Scope), (depTree U rs n c s).le (depTree U rs (n + 1) c s) := by
  intro n
  induction n with
  | zero => intro c s; exact Or.inl (by rw [depTree])
  | succ n ih =>
    intro c s
    rw [depTree, depTree]
    rcases getMergedPom_step U rs n c with h1 | h1
    · exact Or.inl (by simp only [h1])
    · simp only [← h1]
      cases getMergedPom U rs n c with
      | err => exact Res.le_refl _
      | fuel => exact Res.le_refl _
      | ok p =>
        obtain ⟨r, pom⟩ := p
        simp only []
        rcases depChildren_le (rec := fun c s => depTree U rs n c s) (rec' := fun c s => depTree U rs (n + 1) c s)
          (fun c s => ih c s) s pom.deps with h2 | h2
        · exact Or.inl (by simp only [h2])
        · simp only [h2]; exact Res.le_refl _

theorem depTree_mono {n m : Nat} (h : n ≤ m) (c : Coord) (s : Scope) : (depTree U rs n c s).le (depTree U rs m c s) :=
  Res.le_of_step (f := fun k => depTree U rs k c s) (fun k => depTree_step U rs k c s) h

theorem depForest_mono {n m : Nat} (h : n ≤ m) : ∀ roots, (depForest U rs n roots).le (depForest U rs m roots) := by
  intro roots
  induction roots with
  | nil => exact Res.le_refl _
  | cons x rest ih =>
    obtain ⟨c, s⟩ := x
    rw [depForest, depForest]
    rcases depTree_mono U rs h c s with h1 | h1
    · exact Or.inl (by simp only [h1])
    · simp only [← h1]
      cases depTree U rs n c s with
      | err => exact Res.le_refl _
      | fuel => exact Res.le_refl _
      | ok t =>
        simp only []
        rcases ih with h2 | h2
        · exact Or.inl (by simp only [h2])
        · simp only [h2]; exact Res.le_refl _

theorem resolve_mono {n m : Nat} (h : n ≤ m) (roots) : (resolve U rs n roots).le (resolve U rs m roots) := by
  unfold resolve
  rcases depForest_mono U rs h roots with h1 | h1
  · exact Or.inl (by simp only [h1])
  · simp only [h1]; exact Res.le_refl _

end Maven
