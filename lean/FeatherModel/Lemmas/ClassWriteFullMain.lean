import FeatherModel.Lemmas.ClassWriteFullClassSpec
import FeatherModel.Lemmas.ClassReadFinal

/-!
# C02 (whole writer) — `write`: the file is the encoding of a legal `ClassLayout` denoting the class, hence C01's reader
reads it back
-/

namespace ClassWriteFull
open PoolWrite (Entry)
open FramePool (Good Le)
open ClassRead ClassRead.Spec

/-! preconditions of the blocks of `write`, from the last block backwards: the single-instance attribute fields the
remaining blocks set are still unset -/

abbrev PreBootstrap (st : ClassAcc) : Prop := st.2.1 = none
abbrev PreRecord (st : ClassAcc) : Prop := st.2.2 = false ∧ PreBootstrap st
abbrev PrePermitted (st : ClassAcc) : Prop := st.1.permittedSubclasses = none ∧ PreRecord st
abbrev PreNestMembers (st : ClassAcc) : Prop := st.1.nestMembers = none ∧ PrePermitted st
abbrev PreNestHost (st : ClassAcc) : Prop := st.1.nestHost = none ∧ PreNestMembers st
abbrev PreMainClass (st : ClassAcc) : Prop := st.1.moduleMainClass = none ∧ PreNestHost st
abbrev PrePackages (st : ClassAcc) : Prop := st.1.modulePackages = none ∧ PreMainClass st
abbrev PreModule (st : ClassAcc) : Prop := st.1.module = none ∧ PrePackages st
abbrev PreSde (st : ClassAcc) : Prop := st.1.sourceDebugExtension = none ∧ PreModule st
abbrev PreSourceFile (st : ClassAcc) : Prop := st.1.sourceFile = none ∧ PreSde st
abbrev PreSignature (st : ClassAcc) : Prop := st.1.signature = none ∧ PreSourceFile st
abbrev PreEnclosing (st : ClassAcc) : Prop := st.1.enclosingMethod = none ∧ PreSignature st
abbrev PreInner (st : ClassAcc) : Prop := st.1.innerClasses = none ∧ PreEnclosing st

/-- the single-instance attribute fields the blocks of `write` set are still unset, no `Record` attribute was seen -/
abbrev FreshC (st : ClassAcc) : Prop := PreInner st

theorem classAttrs_spec {t : ClassFacts} {bsm : List Bsm} {p p' : Pool} {bs : List Bytes} (hg : Good p) (hok : ClassOk t)
    (hb : BsOk bsm) (h : runAttrs (classAttrs t bsm) p = .ok (bs, p')) :
    Step p p' ∧ ∃ as : List SClassAttr, bs = as.map SClassAttr.frame ∧ (∀ a ∈ as, Sound p' (fun rp => a.Legal rp)) ∧
      ∀ st : ClassAcc, FreshC st → applyAll SClassAttr.apply st as =
        some (withAttrsOf st.1 t, bsTable bsm, st.2.2 || !t.recordComponents.isEmpty) := by
  unfold classAttrs at h
  simp only [List.cons_append, List.nil_append, List.append_assoc] at h
  obtain ⟨o1, q1, r1, e1, k1, rfl⟩ := runAttrs_cons_inv h
  obtain ⟨o2, q2, r2, e2, k2, rfl⟩ := runAttrs_cons_inv k1
  obtain ⟨o3, q3, r3, e3, k3, rfl⟩ := runAttrs_cons_inv k2
  obtain ⟨o4, q4, r4, e4, k4, rfl⟩ := runAttrs_cons_inv k3
  obtain ⟨o5, q5, r5, e5, k5, rfl⟩ := runAttrs_cons_inv k4
  obtain ⟨o6, q6, r6, e6, k6, rfl⟩ := runAttrs_cons_inv k5
  obtain ⟨o7, q7, r7, e7, k7, rfl⟩ := runAttrs_cons_inv k6
  obtain ⟨r8, q8, r9, e8, k8, rfl⟩ := runAttrs_append_inv k7
  obtain ⟨oa1, qa1, oa2, qa2, oa3, qa3, oa4, ea1, ea2, ea3, ea4, rfl⟩ := annoBlocks_inv e8
  obtain ⟨o9, q9, r10, e9, k9, rfl⟩ := runAttrs_cons_inv k8
  obtain ⟨o10, q10, r11, e10, k10, rfl⟩ := runAttrs_cons_inv k9
  obtain ⟨o11, q11, r12, e11, k11, rfl⟩ := runAttrs_cons_inv k10
  obtain ⟨o12, q12, r13, e12, k12, rfl⟩ := runAttrs_cons_inv k11
  obtain ⟨o13, q13, r14, e13, k13, rfl⟩ := runAttrs_cons_inv k12
  obtain ⟨o14, q14, r15, e14, k14, rfl⟩ := runAttrs_cons_inv k13
  obtain ⟨o15, q15, r16, e15, k15, rfl⟩ := runAttrs_cons_inv k14
  obtain ⟨o16, q16, r17, e16, k16, rfl⟩ := runAttrs_cons_inv k15
  obtain ⟨t1, c1⟩ := flagAttr_spec hg e1
  obtain ⟨t2, c2⟩ := flagAttr_spec t1.good e2
  obtain ⟨t3, c3⟩ := innerAttr_spec t2.good e3
  obtain ⟨t4, c4⟩ := enclosingAttr_spec t3.good e4
  obtain ⟨t5, c5⟩ := sigAttr_spec t4.good e5
  obtain ⟨t6, c6⟩ := utf8Attr_spec t5.good e6
  obtain ⟨t7, c7⟩ := sdeAttr_spec t6.good e7
  obtain ⟨ta1, ca1⟩ := annosAttr_spec t7.good hok.rva ea1
  obtain ⟨ta2, ca2⟩ := annosAttr_spec ta1.good hok.ria ea2
  obtain ⟨ta3, ca3⟩ := typeAnnosAttr_spec writeTargetClass_eq ta2.good hok.rvta ea3
  obtain ⟨ta4, ca4⟩ := typeAnnosAttr_spec writeTargetClass_eq ta3.good hok.rita ea4
  obtain ⟨t9, c9⟩ := moduleAttr_spec ta4.good e9
  obtain ⟨t10, c10⟩ := packagesAttr_spec t9.good e10
  obtain ⟨t11, c11⟩ := classAttr_spec t10.good e11
  obtain ⟨t12, c12⟩ := classAttr_spec t11.good e12
  obtain ⟨t13, c13⟩ := classListAttr_spec t12.good e13
  obtain ⟨t14, c14⟩ := classListAttr_spec t13.good e14
  obtain ⟨t15, c15⟩ := recordAttr_spec t14.good hok.record e15
  obtain ⟨t16, c16⟩ := ablock_bootstrap hb t15.good e16
  obtain ⟨t17, ncs, hlen, rfl, hunk⟩ := unknownAttrs_spec t.attrs t16.good k16
  have s16 := t17
  have s15 := t16.trans s16
  have s14 := t15.trans s15
  have s13 := t14.trans s14
  have s12 := t13.trans s13
  have s11 := t12.trans s12
  have s10 := t11.trans s11
  have s9 := t10.trans s10
  have sa4 := t9.trans s9
  have sa3 := ta4.trans sa4
  have sa2 := ta3.trans sa3
  have sa1 := ta2.trans sa2
  have s7 := ta1.trans sa1
  have s6 := t7.trans s7
  have s5 := t6.trans s6
  have s4 := t5.trans s5
  have s3 := t4.trans s4
  have s2 := t3.trans s3
  have s1 := t2.trans s2
  refine ⟨t1.trans s1, ?_⟩
  have B := Blocks.cons (block_flag_deprecated c1) s1.le
    (Blocks.cons (block_flag_synthetic c2) s2.le
    (Blocks.cons (block_inner hok.inner c3) s3.le
    (Blocks.cons (block_enclosing hok.enclosing c4) s4.le
    (Blocks.cons (block_signature c5) s5.le
    (Blocks.cons (block_sourceFile c6) s6.le
    (Blocks.cons (block_sde hok.sde c7) s7.le
    (Blocks.cons (block_annos true ca1) sa1.le
    (Blocks.cons (block_annos false ca2) sa2.le
    (Blocks.cons (block_typeAnnos true ca3) sa3.le
    (Blocks.cons (block_typeAnnos false ca4) sa4.le
    (Blocks.cons (block_module hok.module c9) s9.le
    (Blocks.cons (block_packages c10) s10.le
    (Blocks.cons (block_mainClass hok.mainClass c11) s11.le
    (Blocks.cons (block_nestHost hok.nestHost c12) s12.le
    (Blocks.cons (block_nestMembers hok.nestMembers c13) s13.le
    (Blocks.cons (block_permitted hok.permitted c14) s14.le
    (Blocks.consA (ablock_record c15) s15.le
    (Blocks.consA c16 s16.le
      (blocks_unknown hok.unknown hlen hunk)
      (pre := PreBootstrap) (fun c h => ⟨h, trivial⟩))
      (pre := PreRecord) (fun c h => ⟨h.1, h.2⟩))
      (pre := PrePermitted) (fun c h => ⟨h.1, h.2⟩))
      (pre := PreNestMembers) (fun c h => ⟨h.1, h.2⟩))
      (pre := PreNestHost) (fun c h => ⟨h.1, h.2⟩))
      (pre := PreMainClass) (fun c h => ⟨h.1, h.2⟩))
      (pre := PrePackages) (fun c h => ⟨h.1, h.2⟩))
      (pre := PreModule) (fun c h => ⟨h.1, h.2⟩))
      (pre := PreModule) (fun c h => ⟨trivial, h⟩))
      (pre := PreModule) (fun c h => ⟨trivial, h⟩))
      (pre := PreModule) (fun c h => ⟨trivial, h⟩))
      (pre := PreModule) (fun c h => ⟨trivial, h⟩))
      (pre := PreSde) (fun c h => ⟨h.1, h.2⟩))
      (pre := PreSourceFile) (fun c h => ⟨h.1, h.2⟩))
      (pre := PreSignature) (fun c h => ⟨h.1, h.2⟩))
      (pre := PreEnclosing) (fun c h => ⟨h.1, h.2⟩))
      (pre := PreInner) (fun c h => ⟨h.1, h.2⟩))
      (pre := PreInner) (fun c h => ⟨trivial, h⟩))
      (pre := FreshC) (fun c h => ⟨trivial, h⟩)
  obtain ⟨as, hb, hs, hf⟩ := B
  refine ⟨as, by rw [show as.map SClassAttr.frame = as.map ownClass.frame from rfl, ← hb]; simp [List.append_assoc], hs,
    fun st hst => ?_⟩
  show applyAll ownClass.apply st as = _
  rw [hf st hst]
  simp [withAttrsOf]

/-! ## the pool image -/

theorem entryBytes_eq {e : Entry} {b : Bytes} (h : entryBytes e = .ok b) : b = encPoolEntry (conv e) := by
  cases e with
  | utf8 s =>
    obtain ⟨c, h1, h2⟩ := bind_eq_ok.mp h
    obtain ⟨_, rfl⟩ := cnt16_eq_ok.mp h1
    exact (pure_eq_ok.mp h2).symm
  | _ => exact (ok_inj.mp h).symm

theorem entriesBytes_eq : ∀ (es : List Entry) {b : Bytes}, entriesBytes es = .ok b → b = (es.map conv).flatMap encPoolEntry := by
  intro es
  induction es with
  | nil => intro b h; exact (ok_inj.mp h).symm
  | cons e es ih =>
    intro b h
    obtain ⟨b1, h1, h⟩ := bind_eq_ok.mp h
    obtain ⟨b2, h2, h⟩ := bind_eq_ok.mp h
    have := pure_eq_ok.mp h
    subst this
    simp [entryBytes_eq h1, ih h2]

theorem poolBytes_eq {p : Pool} (hw : p.WF) {b : Bytes} (h : poolBytes p = .ok b) : b = encPool (rentries p) := by
  obtain ⟨b1, h1, h⟩ := bind_eq_ok.mp h
  have := pure_eq_ok.mp h
  subst this
  rw [entriesBytes_eq _ h1, encPool, poolCount_rentries hw]
  rfl

/-- every entry of the written pool fits its fields and every string is encodable (the operand ranges of duke's tree
types, `JavaString`s) -/
def PoolAllOk (p : Pool) : Prop := ∀ e ∈ rentries p, PoolEntryOk e

/-- the proved fragment of class descriptions: `ClassOk` (syntactic: valid names, flags within their masks, no
annotations / `Code` / `Record` / `Module` yet) and well-typed constants and strings in the pool the writer builds -/
def PoolOkOf (t : ClassFacts) : Prop :=
  match writeBody t with
  | .ok (_, p) => PoolAllOk p
  | .error _ => True

def InWriterFragment (t : ClassFacts) : Prop := ClassOk t ∧ PoolOkOf t

/-- `write` emits the JVMS encoding of a legal layout that denotes exactly `t` -/
theorem writeClass_layout (t : ClassFacts) (hfrag : InWriterFragment t) (bytes : Bytes) (hw : writeClass t = .ok bytes) :
    ∃ c : ClassLayout, bytes = c.encode ∧ c.Legal ∧ ∃ t', t.resolve = some t' ∧ c.facts = some t' := by
  obtain ⟨hok, hpool⟩ := hfrag
  obtain ⟨⟨body, pf⟩, hbody, hw⟩ := bind_eq_ok.mp hw
  obtain ⟨pb, hpb, hw⟩ := bind_eq_ok.mp hw
  have := pure_eq_ok.mp hw
  subst this
  have hpoolok : PoolAllOk pf := by
    unfold PoolOkOf at hpool
    rw [hbody] at hpool
    exact hpool
  obtain ⟨⟨ti, p1⟩, h1, h⟩ := bind_eq_ok.mp hbody
  obtain ⟨⟨si, p2⟩, h2, h⟩ := bind_eq_ok.mp h
  obtain ⟨⟨ib, p3⟩, h3, h⟩ := bind_eq_ok.mp h
  obtain ⟨fc, h4, h⟩ := bind_eq_ok.mp h
  obtain ⟨⟨fb, p4⟩, h5, h⟩ := bind_eq_ok.mp h
  obtain ⟨mc, h6, h⟩ := bind_eq_ok.mp h
  obtain ⟨⟨mb, p5, bs⟩, h7, h⟩ := bind_eq_ok.mp h
  obtain ⟨⟨as, p6⟩, h8, h⟩ := bind_eq_ok.mp h
  obtain ⟨ab, h9, h⟩ := bind_eq_ok.mp h
  have := pure_eq_ok.mp h
  cases this
  obtain ⟨hfl, rfl⟩ := cnt16_eq_ok.mp h4
  obtain ⟨hml, rfl⟩ := cnt16_eq_ok.mp h6
  obtain ⟨s1, a1, hti⟩ := putClass_spec FramePool.good_empty h1
  obtain ⟨s2, hsi, c2⟩ := putOptional_spec ClsAt (fun p p' a i hg h => putClass_spec' hg h) s1.good h2
  obtain ⟨s3, ils, rfl, him, hilt, hir⟩ := refList_spec (At := ClsAt) (fun p p' c i hg h => putClass_spec hg h)
    (fun p p' i c hle a => a.mono hle) s2.good h3
  obtain ⟨s4, fls, rfl, hfll, hfsd, hff⟩ := writeFields_spec t.fields s3.good hok.fields h5
  obtain ⟨⟨s5, _, hbs⟩, mls, rfl, hmll, hmsd, ms', hmr, hmf⟩ := writeMethods_spec t.methods s4.good bsOk_nil hok.methods h7
  obtain ⟨s6, als, rfl, hasd, haf⟩ := classAttrs_spec s5.good hok hbs h8
  obtain ⟨hal, rfl⟩ := attrsBytes_inv h9
  have hgf : Good pf := s6.good
  have e6 : Ext pf pf := Ext.refl hgf
  have e5 : Ext p5 pf := e6.of_le s6.le
  have e4 : Ext p4 pf := e5.of_le s5.le
  have e3 : Ext p3 pf := e4.of_le s4.le
  have e2 : Ext p2 pf := e3.of_le s3.le
  have e1 : Ext p1 pf := e2.of_le s2.le
  let c : ClassLayout :=
    { minor := t.minor, major := t.major, pool := rentries pf, access := t.access, thisCp := ti, name := t.name,
      superCp := si, super := t.super, interfaces := ils, fields := fls, methods := mls, attrs := als }
  have hbase : FreshC (c.base, none, false) := ⟨rfl, rfl, rfl, rfl, rfl, rfl, rfl, rfl, rfl, rfl, rfl, rfl, rfl⟩
  have hacc := haf (c.base, none, false) hbase
  have hfacts : c.facts = some { t with methods := ms' } := by
    simp only [ClassLayout.facts, hacc, c, hff, hmf]
    have g7 := hok.mask
    cases t
    simp_all [withAttrsOf, ClassLayout.base]
  have hresolve : t.resolve = some { t with methods := ms' } := by
    simp [ClassFacts.resolve, hmr, bind, Option.bind]
  have hbsms : c.bsms = bsTable bs := by
    show (match applyAll SClassAttr.apply (c.base, none, false) als with | some (_, b, _) => b | none => none) = _
    rw [hacc]
  refine ⟨c, ?_, ?_, _, hresolve, hfacts⟩
  · -- the bytes
    simp only [ClassLayout.encode, c, poolBytes_eq hgf.1 hpb, encAttrs_eq, hfll, hmll, List.length_map, encRefs]
    simp only [List.append_assoc, List.append_cancel_left_eq]
    rfl
  · -- legality
    refine ⟨hok.version, hpoolok, ?_, hok.access, ⟨hti, getObjClass_of hgf (a1.mono e1.le) hok.name⟩, ⟨hsi, ?_⟩,
      hilt, ?_, (by show fls.length < 65536; omega), fun f hf => hfsd f hf pf e4, (by show mls.length < 65536; omega), fun m hm => by rw [hbsms]; exact hmsd m hm pf bs e5 (BsExt.refl _), ?_,
      fun a ha => hasd a ha pf e6, by simp [hfacts]⟩
    · show poolCount (rentries pf) < 65536
      rw [poolCount_rentries hgf.1]
      have := hgf.2
      omega
    · show (rpool pf).getOptional si Pool.getObjClass = .ok t.super
      rcases c2 with ⟨h0, hz⟩ | ⟨x, hx, hc, hone⟩
      · rw [hz, h0]; exact getOptional_zero _ _
      · rw [hx]; exact getOptional_pos _ _ hone (getObjClass_of hgf (hc.mono e2.le) (hok.super x hx))
    · intro i hi
      refine ⟨(hir i hi).1, getObjClass_of hgf ((hir i hi).2.mono e3.le) (hok.interfaces i.2 ?_)⟩
      rw [← him]
      exact List.mem_map_of_mem hi
    · show als.length < 65536
      have : als.length = (als.map SClassAttr.frame).length := by simp
      omega

/-- **the written file is read back**: C01's reader model reads the file `write` produced for a class description of
the fragment back to exactly that description, and stops at its end -/
theorem writeClass_read (t : ClassFacts) (hfrag : InWriterFragment t) (bytes : Bytes) (hw : writeClass t = .ok bytes)
    (r : Bytes) : ∃ raw t', ClassRead.read (bytes ++ r) = .ok (raw, r) ∧ t.resolve = some t' ∧ raw.resolve = some t' := by
  obtain ⟨c, rfl, hleg, t', hres, hfacts⟩ := writeClass_layout t hfrag bytes hw
  obtain ⟨raw, h1, h2⟩ := read_encode c hleg t' hfacts r
  exact ⟨raw, t', h1, hres, h2⟩

/-- a class description without method bodies is its own resolved form -/
theorem resolve_no_code (t : ClassFacts) (h : ∀ m ∈ t.methods, m.code = none) : t.resolve = some t := by
  have : ∀ ms : List MethodFacts, (∀ m ∈ ms, m.code = none) → mapM' MethodFacts.resolve ms = some ms := by
    intro ms
    induction ms with
    | nil => intro _; rfl
    | cons m ms ih =>
      intro hm
      have h0 : m.resolve = some m := by simp [MethodFacts.resolve, hm m (by simp)]
      simp [mapM', h0, ih (fun x hx => hm x (by simp [hx])), bind, Option.bind]
  simp [ClassFacts.resolve, this t.methods h, bind, Option.bind]

end ClassWriteFull
