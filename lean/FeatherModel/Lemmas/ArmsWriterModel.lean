import FeatherModel.Lemmas.ArmsWriter
import FeatherModel.Lemmas.ClassReadOpKind

/-!
# The hand-written writer model against the generated writer tables

`putInsn_name`: turning a reader-model instruction into a writer-model instruction keeps the instruction (same mnemonic).
`encInsn_head`: whatever the writer model emits for an instruction starts the way the Rust arm of the constructor with
that name starts: the arm's own opcode, the `wide` prefix and the opcode behind it, or the inverted condition in front of
the trampoline jump. For all operands, positions, label tables.
-/

namespace Arms

open JvmsTables CodeWrite

/-- the constructor whose name is `name` up to case and underscores -/
def wFind (name : JStr) : Option Nat :=
  (List.range Gen.WriterArms.ctorNames.length).find? fun c => squash (ctorName c) == squash name

theorem wFind_spec {name : JStr} {c : Nat} (h : wFind name = some c) :
    c < Gen.WriterArms.ctorNames.length ∧ squash (ctorName c) = squash name := by
  unfold wFind at h
  have h1 := List.find?_some h
  have h2 := List.mem_of_find?_eq_some h
  exact ⟨List.mem_range.mp h2, by simpa using h1⟩

/-- the arm of the constructor named `name` -/
def wArmNamed (name : JStr) : Option WArm := (wFind name).map wArm

theorem of_wArmNamed {name : JStr} {a : WArm} {bytes : Bytes} (h : wArmNamed name = some a)
    (hh : headOk a Gen.WriterArms.trampolineOpcode bytes = true) :
    ∃ c, c < Gen.WriterArms.ctorNames.length ∧ squash (ctorName c) = squash name ∧
      headOk (wArm c) Gen.WriterArms.trampolineOpcode bytes = true := by
  unfold wArmNamed at h
  cases hf : wFind name with
  | none => rw [hf] at h; cases h
  | some c =>
    rw [hf] at h
    simp only [Option.map_some, Option.some.injEq] at h
    obtain ⟨h1, h2⟩ := wFind_spec hf
    exact ⟨c, h1, h2, by rw [h]; exact hh⟩

/-! ## finite facts: the arms by name -/

theorem arm_bipush : wArmNamed (jstr "bipush") = some (.operands 0x10 0 [1]) := by decide +kernel
theorem arm_sipush : wArmNamed (jstr "sipush") = some (.operands 0x11 0 [2]) := by decide +kernel
theorem arm_ldc : wArmNamed (jstr "ldc") = some (.forms [0x14, 0x12, 0x13] []) := by decide +kernel
theorem arm_iinc : wArmNamed (jstr "iinc") = some (.forms [0x84] [(0xc4, 0x84)]) := by decide +kernel
theorem arm_ret : wArmNamed (jstr "ret") = some (.forms [0xa9] [(0xc4, 0xa9)]) := by decide +kernel
theorem arm_goto : wArmNamed (jstr "goto") = some (.jump 0xa7 0xc8) := by decide +kernel
theorem arm_jsr : wArmNamed (jstr "jsr") = some (.jump 0xa8 0xc9) := by decide +kernel
theorem arm_tableswitch : wArmNamed (jstr "tableswitch") = some (.switch 0xaa 0) := by decide +kernel
theorem arm_lookupswitch : wArmNamed (jstr "lookupswitch") = some (.switch 0xab 1) := by decide +kernel
theorem arm_invokeinterface : wArmNamed (jstr "invokeinterface") = some (.operands 0xb9 5 [2, 1, 1]) := by decide +kernel
theorem arm_newarray : wArmNamed (jstr "newarray") = some (.operands 0xbc 8 [1]) := by decide +kernel
theorem arm_multianewarray : wArmNamed (jstr "multianewarray") = some (.operands 0xc5 7 [2, 1]) := by decide +kernel
theorem arm_invokedynamic : wArmNamed (jstr "invokedynamic") = some (.operands 0xba 6 [2, 1, 1]) := by decide +kernel
theorem trampoline_eq : Gen.WriterArms.trampolineOpcode = CodeWrite.GOTO_W := by decide

def allConds : List Cond := [.eq, .ne, .lt, .ge, .gt, .le, .icmpeq, .icmpne, .icmplt, .icmpge, .icmpgt, .icmple, .acmpeq, .acmpne,
  .null, .nonnull]

theorem arm_cond_all : (allConds.all fun c => wArmNamed (condName c) == some (.cond c.opcode c.opposite.opcode)) = true := by
  decide +kernel

theorem arm_cond (c : Cond) : wArmNamed (condName c) = some (.cond c.opcode c.opposite.opcode) := by
  have h := List.all_eq_true.mp arm_cond_all c (by cases c <;> simp [allConds])
  simpa using h

theorem arm_simple_all : ((List.range 256).all fun op =>
    !ClassRead.isSimpleOp op || wArmNamed ((mnemonic? op).getD []) == some (.unit op)) = true := by decide +kernel

theorem arm_simple (op : Nat) (h : ClassRead.isSimpleOp op = true) : wArmNamed ((mnemonic? op).getD []) = some (.unit op) := by
  have := List.all_eq_true.mp arm_simple_all op (List.mem_range.mpr (ClassRead.isSimpleOp_lt op h))
  simpa [h] using this

theorem isCp_lt (op : Nat) (h : CodeDecode.isCp op = true) : op < 256 := by
  simp only [CodeDecode.isCp, Bool.or_eq_true, Bool.and_eq_true, decide_eq_true_eq, beq_iff_eq] at h
  omega

theorem arm_cp_all : ((List.range 256).all fun op =>
    !CodeDecode.isCp op || (match wArmNamed ((mnemonic? op).getD []) with | some (.operands o _ [2]) => o == op | _ => false)) = true := by
  decide +kernel

theorem arm_cp (op : Nat) (h : CodeDecode.isCp op = true) :
    ∃ put, wArmNamed ((mnemonic? op).getD []) = some (.operands op put [2]) := by
  have := List.all_eq_true.mp arm_cp_all op (List.mem_range.mpr (isCp_lt op h))
  simp only [h, Bool.not_true, Bool.false_or] at this
  split at this
  · rename_i o put heq; simp only [beq_iff_eq] at this; subst this; exact ⟨put, heq⟩
  · cases this

/-- the family arms: `kind` 0..4, for `load` (`base0 = 0x15`) and `store` (`0x36`) -/
theorem arm_local_all : ((List.range 5).all fun k =>
    wArmNamed ((mnemonic? (0x15 + k)).getD []) == some (.local_ 4 0x15 2 0x1a 0xc4 (0x15 + k)) &&
    wArmNamed ((mnemonic? (0x36 + k)).getD []) == some (.local_ 4 0x36 2 0x3b 0xc4 (0x36 + k))) = true := by decide +kernel

theorem arm_load (k : Nat) (h : k < 5) : wArmNamed ((mnemonic? (0x15 + k)).getD []) = some (.local_ 4 0x15 2 0x1a 0xc4 (0x15 + k)) := by
  have := List.all_eq_true.mp arm_local_all k (List.mem_range.mpr h)
  simp only [Bool.and_eq_true, beq_iff_eq] at this
  exact this.1

theorem arm_store (k : Nat) (h : k < 5) : wArmNamed ((mnemonic? (0x36 + k)).getD []) = some (.local_ 4 0x36 2 0x3b 0xc4 (0x36 + k)) := by
  have := List.all_eq_true.mp arm_local_all k (List.mem_range.mpr h)
  simp only [Bool.and_eq_true, beq_iff_eq] at this
  exact this.2

/-- the short forms: what the Rust formula gives is what the model's `encLocal` writes -/
theorem short_form_all : ((List.range 5).all fun k => (List.range 4).all fun i =>
    (((0x15 + k - 0x15) <<< 2) ||| i) + 0x1a == k * 4 + i + 0x1a && (((0x36 + k - 0x36) <<< 2) ||| i) + 0x3b == k * 4 + i + 0x3b) = true := by
  decide +kernel

theorem headOk_local (base0 sub add k idx : Nat) (hk : k < 5) (hb : (base0 = 0x15 ∧ sub = 0x15 ∧ add = 0x1a) ∨ (base0 = 0x36 ∧ sub = 0x36 ∧ add = 0x3b)) :
    headOk (.local_ 4 sub 2 add 0xc4 (base0 + k)) Gen.WriterArms.trampolineOpcode (encLocal base0 add k idx) = true := by
  have hs := List.all_eq_true.mp short_form_all k (List.mem_range.mpr hk)
  unfold encLocal
  split
  · rename_i hi
    have hs' := List.all_eq_true.mp hs idx (List.mem_range.mpr hi)
    simp only [Bool.and_eq_true, beq_iff_eq] at hs'
    simp only [headOk, WArm.plain, Bool.or_eq_true, List.contains_iff_mem, List.mem_cons, List.mem_map, List.mem_range]
    left; left; right
    refine ⟨idx, hi, ?_⟩
    rcases hb with ⟨rfl, rfl, rfl⟩ | ⟨rfl, rfl, rfl⟩
    · exact hs'.1
    · exact hs'.2
  · split
    · simp [headOk, WArm.plain]
    · simp [headOk, WArm.prefixed]

/-! ## `encInsn` -/

theorem encInsn_head (wd : Bool) (lbl : Nat → Option Nat) (p k : Nat) (ci : Insn) (bytes : Bytes) (u : List Unwritten)
    (hd : CwDomain ci) (h : encInsn wd lbl p k ci = .ok (bytes, u)) :
    ∃ c, c < Gen.WriterArms.ctorNames.length ∧ squash (ctorName c) = squash (cwMnemonic ci) ∧
      headOk (wArm c) Gen.WriterArms.trampolineOpcode bytes = true := by
  cases ci with
  | simple op =>
    simp only [encInsn, Except.ok.injEq, Prod.mk.injEq] at h
    obtain ⟨rfl, -⟩ := h
    exact of_wArmNamed (arm_simple op hd) (by simp [headOk, WArm.plain])
  | bipush v =>
    simp only [encInsn, Except.ok.injEq, Prod.mk.injEq] at h
    obtain ⟨rfl, -⟩ := h
    exact of_wArmNamed arm_bipush (by simp [headOk, WArm.plain])
  | sipush v =>
    simp only [encInsn, Except.ok.injEq, Prod.mk.injEq] at h
    obtain ⟨rfl, -⟩ := h
    exact of_wArmNamed arm_sipush (by simp [headOk, WArm.plain])
  | ldc idx two =>
    simp only [encInsn, Except.ok.injEq, Prod.mk.injEq] at h
    obtain ⟨rfl, -⟩ := h
    refine of_wArmNamed arm_ldc ?_
    unfold encLdc
    split
    · simp [headOk, WArm.plain]
    · split <;> simp [headOk, WArm.plain]
  | load kind idx =>
    simp only [encInsn, Except.ok.injEq, Prod.mk.injEq] at h
    obtain ⟨rfl, -⟩ := h
    exact of_wArmNamed (arm_load kind hd) (headOk_local 0x15 0x15 0x1a kind idx hd (Or.inl ⟨rfl, rfl, rfl⟩))
  | store kind idx =>
    simp only [encInsn, Except.ok.injEq, Prod.mk.injEq] at h
    obtain ⟨rfl, -⟩ := h
    exact of_wArmNamed (arm_store kind hd) (headOk_local 0x36 0x36 0x3b kind idx hd (Or.inr ⟨rfl, rfl, rfl⟩))
  | iinc idx v =>
    simp only [encInsn, Except.ok.injEq, Prod.mk.injEq] at h
    obtain ⟨rfl, -⟩ := h
    refine of_wArmNamed arm_iinc ?_
    unfold encIinc
    split <;> simp [headOk, WArm.plain, WArm.prefixed]
  | ret idx =>
    simp only [encInsn, Except.ok.injEq, Prod.mk.injEq] at h
    obtain ⟨rfl, -⟩ := h
    refine of_wArmNamed arm_ret ?_
    unfold encRet
    split <;> simp [headOk, WArm.plain, WArm.prefixed]
  | ifc c t =>
    refine of_wArmNamed (arm_cond c) ?_
    simp only [encInsn, encIf] at h
    rw [trampoline_eq]
    split at h
    · split at h
      · simp only [Except.ok.injEq, Prod.mk.injEq] at h; obtain ⟨rfl, -⟩ := h; simp [headOk, WArm.plain]
      · split at h
        · cases h
        · simp only [Except.ok.injEq, Prod.mk.injEq] at h; obtain ⟨rfl, -⟩ := h
          simp [headOk, WArm.plain, i16b, u16b]
    · split at h
      · split at h
        · cases h
        · simp only [Except.ok.injEq, Prod.mk.injEq] at h; obtain ⟨rfl, -⟩ := h
          simp [headOk, WArm.plain, i16b, u16b]
      · simp only [Except.ok.injEq, Prod.mk.injEq] at h; obtain ⟨rfl, -⟩ := h; simp [headOk, WArm.plain]
  | goto t =>
    refine of_wArmNamed arm_goto ?_
    simp only [encInsn, encGoto] at h
    split at h
    · split at h <;> (simp only [Except.ok.injEq, Prod.mk.injEq] at h; obtain ⟨rfl, -⟩ := h; simp [headOk, WArm.plain])
    · split at h <;> (simp only [Except.ok.injEq, Prod.mk.injEq] at h; obtain ⟨rfl, -⟩ := h; simp [headOk, WArm.plain])
  | jsr t =>
    refine of_wArmNamed arm_jsr ?_
    simp only [encInsn, encGoto] at h
    split at h
    · split at h <;> (simp only [Except.ok.injEq, Prod.mk.injEq] at h; obtain ⟨rfl, -⟩ := h; simp [headOk, WArm.plain])
    · split at h <;> (simp only [Except.ok.injEq, Prod.mk.injEq] at h; obtain ⟨rfl, -⟩ := h; simp [headOk, WArm.plain])
  | tableswitch d lo hi tb =>
    refine of_wArmNamed arm_tableswitch ?_
    simp only [encInsn, encTableSwitch] at h
    split at h; · cases h
    split at h; · cases h
    split at h; · cases h
    simp only [Except.ok.injEq, Prod.mk.injEq] at h; obtain ⟨rfl, -⟩ := h
    simp [headOk, WArm.plain]
  | lookupswitch d ps =>
    refine of_wArmNamed arm_lookupswitch ?_
    simp only [encInsn, encLookupSwitch] at h
    split at h; · cases h
    simp only [Except.ok.injEq, Prod.mk.injEq] at h; obtain ⟨rfl, -⟩ := h
    simp [headOk, WArm.plain]
  | cp op idx =>
    simp only [encInsn, Except.ok.injEq, Prod.mk.injEq] at h
    obtain ⟨rfl, -⟩ := h
    obtain ⟨put, ha⟩ := arm_cp op hd
    exact of_wArmNamed ha (by simp [headOk, WArm.plain])
  | invokeinterface idx desc =>
    refine of_wArmNamed arm_invokeinterface ?_
    simp only [encInsn] at h
    split at h
    · cases h
    · simp only [Except.ok.injEq, Prod.mk.injEq] at h; obtain ⟨rfl, -⟩ := h; simp [headOk, WArm.plain]
  | newarray a =>
    simp only [encInsn, Except.ok.injEq, Prod.mk.injEq] at h
    obtain ⟨rfl, -⟩ := h
    exact of_wArmNamed arm_newarray (by simp [headOk, WArm.plain])
  | multianewarray idx d =>
    simp only [encInsn, Except.ok.injEq, Prod.mk.injEq] at h
    obtain ⟨rfl, -⟩ := h
    exact of_wArmNamed arm_multianewarray (by simp [headOk, WArm.plain])
  | invokedynamic idx =>
    simp only [encInsn, Except.ok.injEq, Prod.mk.injEq] at h
    obtain ⟨rfl, -⟩ := h
    exact of_wArmNamed arm_invokedynamic (by simp [headOk, WArm.plain])

/-! ## `putInsn`: from the reader model's instruction to the writer model's -/

theorem except_bind_eq_ok {ε α β : Type} {x : Except ε α} {f : α → Except ε β} {b : β} :
    (x >>= f) = .ok b ↔ ∃ a, x = .ok a ∧ f a = .ok b := by
  cases x with
  | error e => simp [bind, Except.bind]
  | ok a => simp [bind, Except.bind]

theorem cond_all : ((List.range 256).all fun op =>
    match ClassWriteFull.condOfOp op with
    | some c => condName c == (mnemonic? op).getD [] && c.opcode == op
    | none => !ClassRead.isCondBranchOp op) = true := by decide +kernel

theorem condOfOp_name (op : Nat) (c : Cond) (hop : op < 256) (h : ClassWriteFull.condOfOp op = some c) :
    condName c = (mnemonic? op).getD [] ∧ c.opcode = op := by
  have := List.all_eq_true.mp cond_all op (List.mem_range.mpr hop)
  rw [h] at this
  simpa using this

theorem field_isCp : ∀ op, op < 256 → 0xb2 ≤ op → op ≤ 0xb5 → CodeDecode.isCp op = true := by decide +kernel

theorem putInsn_name (lab : Nat → Nat) (p p' : ClassWriteFull.Pool) (bs bs' : List ClassWriteFull.Bsm) (i : ClassRead.Insn)
    (ci : Insn) (hd : RdDomain i) (h : ClassWriteFull.putInsn lab p bs i = .ok (ci, p', bs')) :
    cwMnemonic ci = insnMnemonic i ∧ CwDomain ci := by
  cases i <;> simp only [ClassWriteFull.putInsn, except_bind_eq_ok, Prod.exists, pure, Except.pure, Except.ok.injEq, Prod.mk.injEq] at h
  case simple op => obtain ⟨rfl, -⟩ := h; exact ⟨rfl, hd⟩
  case bipush v => obtain ⟨rfl, -⟩ := h; exact ⟨rfl, trivial⟩
  case sipush v => obtain ⟨rfl, -⟩ := h; exact ⟨rfl, trivial⟩
  case ldc c => obtain ⟨_, _, _, _, rfl, -⟩ := h; exact ⟨rfl, trivial⟩
  case load k idx => obtain ⟨rfl, -⟩ := h; exact ⟨rfl, hd⟩
  case store k idx => obtain ⟨rfl, -⟩ := h; exact ⟨rfl, hd⟩
  case iinc idx v => obtain ⟨rfl, -⟩ := h; exact ⟨rfl, trivial⟩
  case branch op t =>
    split at h
    · cases h
    · rename_i c hc
      simp only [Except.ok.injEq, Prod.mk.injEq] at h
      obtain ⟨rfl, -⟩ := h
      exact ⟨(condOfOp_name op c (ClassRead.isCondBranchOp_lt op hd) hc).1, trivial⟩
  case goto t => obtain ⟨rfl, -⟩ := h; exact ⟨rfl, trivial⟩
  case jsr t => obtain ⟨rfl, -⟩ := h; exact ⟨rfl, trivial⟩
  case ret idx => obtain ⟨rfl, -⟩ := h; exact ⟨rfl, trivial⟩
  case tableswitch d lo hi tbl => obtain ⟨rfl, -⟩ := h; exact ⟨rfl, trivial⟩
  case lookupswitch d pairs => obtain ⟨rfl, -⟩ := h; exact ⟨rfl, trivial⟩
  case field op r =>
    obtain ⟨_, _, _, rfl, -⟩ := h
    exact ⟨rfl, field_isCp op (by have := hd.2; omega) hd.1 hd.2⟩
  case invokevirtual m => obtain ⟨_, _, _, rfl, -⟩ := h; exact ⟨rfl, (by decide : CodeDecode.isCp _ = true)⟩
  case invokespecial m itf => obtain ⟨_, _, _, rfl, -⟩ := h; exact ⟨rfl, (by decide : CodeDecode.isCp _ = true)⟩
  case invokestatic m itf => obtain ⟨_, _, _, rfl, -⟩ := h; exact ⟨rfl, (by decide : CodeDecode.isCp _ = true)⟩
  case invokeinterface m => obtain ⟨_, _, _, rfl, -⟩ := h; exact ⟨rfl, trivial⟩
  case invokedynamic d => obtain ⟨_, _, _, _, rfl, -⟩ := h; exact ⟨rfl, trivial⟩
  case new c => obtain ⟨_, _, _, rfl, -⟩ := h; exact ⟨rfl, (by decide : CodeDecode.isCp _ = true)⟩
  case newarray a => obtain ⟨rfl, -⟩ := h; exact ⟨rfl, trivial⟩
  case anewarray c => obtain ⟨_, _, _, rfl, -⟩ := h; exact ⟨rfl, (by decide : CodeDecode.isCp _ = true)⟩
  case checkcast c => obtain ⟨_, _, _, rfl, -⟩ := h; exact ⟨rfl, (by decide : CodeDecode.isCp _ = true)⟩
  case instanceof c => obtain ⟨_, _, _, rfl, -⟩ := h; exact ⟨rfl, (by decide : CodeDecode.isCp _ = true)⟩
  case multianewarray c d => obtain ⟨_, _, _, rfl, -⟩ := h; exact ⟨rfl, trivial⟩

end Arms
