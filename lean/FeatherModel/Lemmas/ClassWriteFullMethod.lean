import FeatherModel.Lemmas.ClassWriteFullField

/-!
# C02 (whole writer) — `write_method` for methods without `Code`: the bytes are the encoding of a legal
`MethodLayout` denoting the method
-/

namespace ClassWriteFull
open PoolWrite (Entry)
open FramePool (Good Le)
open ClassRead ClassRead.Spec

def SMethodAttr.frame (a : SMethodAttr) : Bytes := attrFrame a.raw.1 a.raw.2

theorem map_eq_of_zip {α β : Type} (g : α → β) : ∀ (ls : List α) (xs : List β), ls.length = xs.length →
    (∀ x ∈ ls.zip xs, g x.1 = x.2) → ls.map g = xs := by
  intro ls
  induction ls with
  | nil => intro xs hl _; cases xs with
    | nil => rfl
    | cons _ _ => simp at hl
  | cons l ls ih =>
    intro xs hl h
    cases xs with
    | nil => simp at hl
    | cons x xs =>
      have h0 := h (l, x) (by simp)
      simp only at h0
      rw [List.map_cons, h0, ih xs (by simpa using hl) (fun y hy => h y (by simp [hy]))]

/-- conditions on a method of the proved fragment (no `Code`, no annotations yet) -/
structure MethodOk (m : MethodFacts) : Prop where
  code : m.code = none
  rva : m.rva = []
  ria : m.ria = []
  rvta : m.rvta = []
  rita : m.rita = []
  annotationDefault : m.annotationDefault = none
  access : m.access < 65536
  mask : m.access &&& maskMethod = m.access
  name : validMethodName m.name = true
  exceptions : ∀ es, m.exceptions = some es → ∀ e ∈ es, validClassName e = true
  params : ∀ ps, m.params = some ps → ∀ q ∈ ps, q.flags < 65536 ∧ q.flags &&& maskParam = q.flags ∧
    ∀ n, q.name = some n → validUnqualified n = true
  unknown : ∀ a ∈ m.attrs, a.name ∉ methodAttrNames

theorem applyAll_method_unknown (st : MethodFacts) : ∀ (ncs : List Nat) (as : List Attr), ncs.length = as.length →
    applyAll SMethodAttr.apply st ((ncs.zip as).map fun x => SMethodAttr.unknown x.1 x.2.name x.2.bytes)
      = some { st with attrs := st.attrs ++ as } := by
  intro ncs as
  induction as generalizing ncs st with
  | nil => intro _; cases ncs <;> simp [applyAll]
  | cons a as ih =>
    intro hl
    cases ncs with
    | nil => simp at hl
    | cons n ncs =>
      simp only [List.zip_cons_cons, List.map_cons, applyAll, SMethodAttr.apply]
      rw [ih _ ncs (by simpa using hl)]
      simp

/-- the rows of `MethodParameters` -/
theorem methodParams_spec {ps : List MethodParam} {p p' : Pool} {b : Bytes} (hg : Good p)
    (h : writeList writeMethodParam p ps = .ok (b, p')) :
    Step p p' ∧ ∃ ls : List (Nat × Option JStr × Nat), b = ls.flatMap (fun q => be16 q.1 ++ be16 q.2.2) ∧
      ls.length = ps.length ∧ ∀ x ∈ ls.zip ps, x.1.2.1 = x.2.name ∧ x.1.2.2 = x.2.flags ∧ x.1.1 < 65536 ∧
        ((x.2.name = none ∧ x.1.1 = 0) ∨ ∃ n, x.2.name = some n ∧ Utf8At p' x.1.1 n ∧ 1 ≤ x.1.1) :=
  writeList_spec writeMethodParam (fun q => be16 q.1 ++ be16 q.2.2)
    (fun p (mp : MethodParam) (q : Nat × Option JStr × Nat) => q.2.1 = mp.name ∧ q.2.2 = mp.flags ∧ q.1 < 65536 ∧
      ((mp.name = none ∧ q.1 = 0) ∨ ∃ n, mp.name = some n ∧ Utf8At p q.1 n ∧ 1 ≤ q.1))
    (fun p p' a l hle hr => by
      obtain ⟨a1, a2, a3, a4⟩ := hr
      refine ⟨a1, a2, a3, ?_⟩
      rcases a4 with a4 | ⟨n, hn, hu, h1⟩
      · exact Or.inl a4
      · exact Or.inr ⟨n, hn, hu.mono hle, h1⟩)
    (fun p p' a b hg h => by
      obtain ⟨⟨i, p1⟩, h1, h2⟩ := bind_eq_ok.mp h
      have := pure_eq_ok.mp h2
      cases this
      obtain ⟨s, hi, hc⟩ := putOptional_spec Utf8At (fun p p' a i hg h => putUtf8_spec' hg h) hg h1
      exact ⟨s, (i, a.name, a.flags), rfl, rfl, rfl, hi, hc⟩) ps p p' b hg h

theorem writeMethod_spec {p p' : Pool} {bs bs' : List Bsm} {m : MethodFacts} {b : Bytes} (hg : Good p) (hok : MethodOk m)
    (h : writeMethod p bs m = .ok (b, p', bs')) :
    bs' = bs ∧ Step p p' ∧
      ∃ l : MethodLayout, b = l.encode ∧ (∀ bsms, Sound p' (fun rp => l.Legal rp bsms)) ∧ l.facts = some m := by
  obtain ⟨⟨ni, p1⟩, h1, h⟩ := bind_eq_ok.mp h
  obtain ⟨⟨di, p2⟩, h2, h⟩ := bind_eq_ok.mp h
  obtain ⟨⟨as1, p3⟩, h3, h⟩ := bind_eq_ok.mp h
  obtain ⟨⟨as2, p4, bs2⟩, h4, h⟩ := bind_eq_ok.mp h
  rw [hok.code] at h4
  have := ok_inj.mp (show (Except.ok ([], p3, bs) : Except Fail _) = .ok (as2, p4, bs2) from h4)
  cases this
  obtain ⟨⟨as3, p5⟩, h5, h⟩ := bind_eq_ok.mp h
  obtain ⟨ab, h6, h⟩ := bind_eq_ok.mp h
  have := pure_eq_ok.mp h
  cases this
  obtain ⟨s1, a1, hni⟩ := putUtf8_spec hg h1
  obtain ⟨s2, a2, hdi⟩ := putUtf8_spec s1.good h2
  rw [hok.rva, hok.ria, hok.rvta, hok.rita, hok.annotationDefault] at h5
  obtain ⟨o1, q1, r1, e1, k1, rfl⟩ := runAttrs_cons_inv h3
  obtain ⟨o2, q2, r2, e2, k2, rfl⟩ := runAttrs_cons_inv k1
  obtain ⟨rfl, rfl⟩ := runAttrs_nil_inv k2
  simp only [List.cons_append, List.nil_append, List.append_assoc] at h5
  obtain ⟨o3, q3, r3, e3, k3, rfl⟩ := runAttrs_cons_inv h5
  obtain ⟨o4, q4, r4, e4, k4, rfl⟩ := runAttrs_cons_inv k3
  obtain ⟨r5, q5, r6, e5, k5, rfl⟩ := runAttrs_append_inv k4
  rw [annoBlocks_nil] at e5
  have := ok_inj.mp e5
  cases this
  obtain ⟨o6, q6, r7, e6, k6, rfl⟩ := runAttrs_cons_inv k5
  have : o6 = none ∧ q6 = q4 := by
    have := ok_inj.mp e6
    cases this
    exact ⟨rfl, rfl⟩
  obtain ⟨rfl, rfl⟩ := this
  obtain ⟨o7, q7, r8, e7, k7, rfl⟩ := runAttrs_cons_inv k6
  obtain ⟨t1, c1⟩ := flagAttr_spec s2.good e1
  obtain ⟨t2, c2⟩ := flagAttr_spec t1.good e2
  obtain ⟨t3, c3⟩ := classListAttr_spec (name := sExceptions) t2.good e3
  obtain ⟨t4, c4⟩ := sigAttr_spec t3.good e4
  -- MethodParameters
  have t7 : Step q6 q7 ∧ ((m.params = none ∧ o7 = none) ∨
      ∃ (ps : List MethodParam) (ls : List (Nat × Option JStr × Nat)), m.params = some ps ∧
        Present o7 q7 sMethodParameters (be8 ls.length ++ ls.flatMap (fun q => be16 q.1 ++ be16 q.2.2)) ∧
        ls.length = ps.length ∧ ls.length < 256 ∧
        ∀ x ∈ ls.zip ps, x.1.2.1 = x.2.name ∧ x.1.2.2 = x.2.flags ∧ x.1.1 < 65536 ∧
          ((x.2.name = none ∧ x.1.1 = 0) ∨ ∃ n, x.2.name = some n ∧ Utf8At q7 x.1.1 n ∧ 1 ≤ x.1.1)) := by
    rcases ifSome_inv e7 with ⟨ps, b, hps, hb, rfl⟩ | ⟨hps, rfl, rfl⟩
    · obtain ⟨bb, p1', i, hb1, hb2, _, rfl⟩ := attrBuf_inv hb
      obtain ⟨c, hc1, hc2⟩ := bind_eq_ok.mp hb1
      obtain ⟨hl8, rfl⟩ := cnt8_eq_ok.mp hc1
      obtain ⟨⟨rows, p2'⟩, hc3, hc4⟩ := bind_eq_ok.mp hc2
      have := pure_eq_ok.mp hc4
      cases this
      obtain ⟨u1, ls, rfl, hlen, hr⟩ := methodParams_spec t4.good hc3
      obtain ⟨u2, au, hi⟩ := putUtf8_spec u1.good hb2
      refine ⟨u1.trans u2, Or.inr ⟨ps, ls, hps, ⟨i, ?_, hi, au⟩, hlen, by omega, ?_⟩⟩
      · have : ps.length % 256 = ps.length := Nat.mod_eq_of_lt (by omega)
        simp [be8, hlen, this]
      · intro x hx
        obtain ⟨b1, b2, b3, b4⟩ := hr x hx
        refine ⟨b1, b2, b3, ?_⟩
        rcases b4 with b4 | ⟨n, hn, hu, h1'⟩
        · exact Or.inl b4
        · exact Or.inr ⟨n, hn, hu.mono u2.le, h1'⟩
    · exact ⟨Step.refl t4.good, Or.inl ⟨hps, rfl⟩⟩
  obtain ⟨t7, c7⟩ := t7
  obtain ⟨t8, ncs, hlen, rfl, hunk⟩ := unknownAttrs_spec m.attrs t7.good k7
  obtain ⟨hcount, rfl⟩ := attrsBytes_inv h6
  have stepAll : Step p p' := s1.trans (s2.trans (t1.trans (t2.trans (t3.trans (t4.trans (t7.trans t8))))))
  refine ⟨rfl, stepAll, ?_⟩
  have L1 : ∃ lo : Option SMethodAttr, o1 = lo.map SMethodAttr.frame ∧
      (∀ a ∈ lo, ∀ bsms, Sound q1 (fun rp => a.Legal rp bsms)) ∧
      ∀ st : MethodFacts, applyAll SMethodAttr.apply st lo.toList = some { st with deprecated := st.deprecated || m.deprecated } := by
    rcases c1 with ⟨hf, rfl⟩ | ⟨hf, nc, rfl, hn, a⟩
    · exact ⟨none, rfl, by simp, fun st => by simp [applyAll, hf]⟩
    · refine ⟨some (.deprecated nc), rfl, ?_, fun st => by simp [applyAll, SMethodAttr.apply, hf]⟩
      intro x hx bsms q hq
      cases Option.mem_some_iff.mp hx
      exact ⟨hn, getUtf8_of hq.good (a.mono hq.le)⟩
  have L2 : ∃ lo : Option SMethodAttr, o2 = lo.map SMethodAttr.frame ∧
      (∀ a ∈ lo, ∀ bsms, Sound p3 (fun rp => a.Legal rp bsms)) ∧
      ∀ st : MethodFacts, applyAll SMethodAttr.apply st lo.toList = some { st with synthetic := st.synthetic || m.synthetic } := by
    rcases c2 with ⟨hf, rfl⟩ | ⟨hf, nc, rfl, hn, a⟩
    · exact ⟨none, rfl, by simp, fun st => by simp [applyAll, hf]⟩
    · refine ⟨some (.synthetic nc), rfl, ?_, fun st => by simp [applyAll, SMethodAttr.apply, hf]⟩
      intro x hx bsms q hq
      cases Option.mem_some_iff.mp hx
      exact ⟨hn, getUtf8_of hq.good (a.mono hq.le)⟩
  have L3 : ∃ lo : Option SMethodAttr, o3 = lo.map SMethodAttr.frame ∧
      (∀ a ∈ lo, ∀ bsms, Sound q3 (fun rp => a.Legal rp bsms)) ∧
      ∀ st : MethodFacts, st.exceptions = none → applyAll SMethodAttr.apply st lo.toList = some { st with exceptions := m.exceptions } := by
    rcases c3 with ⟨hf, rfl⟩ | ⟨cs, cps, hf, ⟨nc, rfl, hn, a⟩, hl, hlt, hr⟩
    · exact ⟨none, rfl, by simp, fun st hst => by cases st; simp_all [applyAll]⟩
    · refine ⟨some (.exceptions nc cps cs), rfl, ?_, fun st hst => by simp [applyAll, SMethodAttr.apply, hf, hst]⟩
      intro x hx bsms q hq
      cases Option.mem_some_iff.mp hx
      refine ⟨hn, getUtf8_of hq.good (a.mono hq.le), hlt, hl, ?_⟩
      intro y hy
      exact ⟨(hr y hy).1, getClass_of hq.good ((hr y hy).2.mono hq.le) (hok.exceptions cs hf y.2 (List.of_mem_zip hy).2)⟩
  have L4 : ∃ lo : Option SMethodAttr, o4 = lo.map SMethodAttr.frame ∧
      (∀ a ∈ lo, ∀ bsms, Sound q6 (fun rp => a.Legal rp bsms)) ∧
      ∀ st : MethodFacts, st.signature = none → applyAll SMethodAttr.apply st lo.toList = some { st with signature := m.signature } := by
    rcases c4 with ⟨hf, rfl⟩ | ⟨v, cp, hf, ⟨nc, rfl, hn, a⟩, hc, ac⟩
    · exact ⟨none, rfl, by simp, fun st hst => by cases st; simp_all [applyAll]⟩
    · refine ⟨some (.signature nc cp v), rfl, ?_, fun st hst => by simp [applyAll, SMethodAttr.apply, hf, hst]⟩
      intro x hx bsms q hq
      cases Option.mem_some_iff.mp hx
      exact ⟨hn, getUtf8_of hq.good (a.mono hq.le), hc, getUtf8_of hq.good (ac.mono hq.le)⟩
  have L7 : ∃ lo : Option SMethodAttr, o7 = lo.map SMethodAttr.frame ∧
      (∀ a ∈ lo, ∀ bsms, Sound q7 (fun rp => a.Legal rp bsms)) ∧
      ∀ st : MethodFacts, st.params = none → applyAll SMethodAttr.apply st lo.toList = some { st with params := m.params } := by
    rcases c7 with ⟨hf, rfl⟩ | ⟨ps, ls, hf, ⟨nc, rfl, hn, a⟩, hl, hlt, hr⟩
    · exact ⟨none, rfl, by simp, fun st hst => by cases st; simp_all [applyAll]⟩
    · refine ⟨some (.methodParameters nc ls), rfl, ?_, fun st hst => ?_⟩
      · intro x hx bsms q hq
        cases Option.mem_some_iff.mp hx
        refine ⟨hn, getUtf8_of hq.good (a.mono hq.le), hlt, ?_⟩
        intro y hy
        obtain ⟨k, hk, hyk⟩ := List.getElem_of_mem hy
        have hk' : k < ps.length := by omega
        have hz : (y, ps[k]) ∈ ls.zip ps := by
          rw [← hyk]
          exact List.mem_iff_getElem.mpr ⟨k, by rw [List.length_zip]; omega, by simp⟩
        obtain ⟨b1, b2, b3, b4⟩ := hr _ hz
        simp only at b1 b2 b3 b4
        have hpk := hok.params ps hf ps[k] (List.getElem_mem hk')
        refine ⟨b3, by rw [b2]; exact hpk.1, ?_⟩
        rcases b4 with ⟨hnone, h0⟩ | ⟨n, hn', hu, h1'⟩
        · rw [h0, b1, hnone]; exact getOptional_zero _ _
        · rw [b1, hn']
          apply getOptional_pos _ _ h1'
          simp [getUtf8_of hq.good (hu.mono hq.le), checked, hpk.2.2 n hn', bind, Outcome.bind]
      · simp only [Option.toList, applyAll, SMethodAttr.apply, hst, Option.isNone_none, if_true, hf]
        congr 2
        refine congrArg some ?_
        apply map_eq_of_zip _ ls ps hl
        intro x hx
        obtain ⟨b1, b2, _, _⟩ := hr x hx
        have hpk := hok.params ps hf x.2 (List.of_mem_zip hx).2
        cases hx2 : x.2
        simp_all
  obtain ⟨l1, rfl, sd1, f1⟩ := L1
  obtain ⟨l2, rfl, sd2, f2⟩ := L2
  obtain ⟨l3, rfl, sd3, f3⟩ := L3
  obtain ⟨l4, rfl, sd4, f4⟩ := L4
  obtain ⟨l7, rfl, sd7, f7⟩ := L7
  let unk : List SMethodAttr := (ncs.zip m.attrs).map fun x => SMethodAttr.unknown x.1 x.2.name x.2.bytes
  let attrs : List SMethodAttr := l1.toList ++ (l2.toList ++ (l3.toList ++ (l4.toList ++ (l7.toList ++ unk))))
  have hmap : attrs.map SMethodAttr.frame
      = (l1.map SMethodAttr.frame).toList ++ ((l2.map SMethodAttr.frame).toList ++ []) ++ [] ++
          ((l3.map SMethodAttr.frame).toList ++ ((l4.map SMethodAttr.frame).toList ++ ([] ++ ((none : Option Bytes).toList ++
            ((l7.map SMethodAttr.frame).toList ++ (ncs.zip m.attrs).map fun x => attrFrame x.1 x.2.bytes))))) := by
    simp only [attrs, unk, List.map_append, List.map_map, List.nil_append, List.append_nil, toList_map, Option.toList_none,
      List.append_assoc]
    rfl
  refine ⟨⟨m.access, ni, m.name, di, m.desc, attrs⟩, ?_, ?_, ?_⟩
  · simp only [MethodLayout.encode, encAttrs_eq]
    rw [← hmap, List.length_map]
    rfl
  · intro bsms q hq
    have hq1 : Ext p1 q := hq.of_le (s2.trans (t1.trans (t2.trans (t3.trans (t4.trans (t7.trans t8)))))).le
    have hp3 : Ext p2 q := hq.of_le (t1.trans (t2.trans (t3.trans (t4.trans (t7.trans t8))))).le
    refine ⟨hok.access, hni, hdi, getUtf8_of hq.good (a1.mono hq1.le), hok.name, getUtf8_of hq.good (a2.mono hp3.le), ?_, ?_⟩
    · have : attrs.length = (attrs.map SMethodAttr.frame).length := by simp
      rw [this, hmap]
      omega
    · intro a ha
      simp only [attrs, List.mem_append, Option.mem_toList] at ha
      rcases ha with ha | ha | ha | ha | ha | ha
      · exact sd1 a ha bsms q (hq.of_le (t2.trans (t3.trans (t4.trans (t7.trans t8)))).le)
      · exact sd2 a ha bsms q (hq.of_le (t3.trans (t4.trans (t7.trans t8))).le)
      · exact sd3 a ha bsms q (hq.of_le (t4.trans (t7.trans t8)).le)
      · exact sd4 a ha bsms q (hq.of_le (t7.trans t8).le)
      · exact sd7 a ha bsms q (hq.of_le t8.le)
      · simp only [unk, List.mem_map] at ha
        obtain ⟨x, hx, rfl⟩ := ha
        obtain ⟨hn, hu, hb⟩ := hunk x hx
        exact ⟨hn, getUtf8_of hq.good (hu.mono hq.le), hok.unknown x.2 (List.of_mem_zip hx).2, hb⟩
  · simp only [MethodLayout.facts, attrs, applyAll_append, f1, f2, Option.bind_some]
    rw [f3 _ rfl]
    simp only [Option.bind_some]
    rw [f4 _ rfl]
    simp only [Option.bind_some]
    rw [f7 _ rfl]
    simp only [Option.bind_some, unk]
    rw [applyAll_method_unknown _ ncs m.attrs hlen]
    have hm := hok.mask
    have g0 := hok.code
    have g1 := hok.rva
    have g2 := hok.ria
    have g3 := hok.rvta
    have g4 := hok.rita
    have g5 := hok.annotationDefault
    cases m
    simp_all

end ClassWriteFull
