import FeatherModel.Lemmas.ClassWriteFullField
import FeatherModel.Lemmas.ClassWriteFullCodeMain

/-!
# C02 (whole writer) — `write_method`: the bytes are the encoding of a legal `MethodLayout` denoting the method (its
`Code`, if any, with the labels resolved)
-/

namespace ClassWriteFull
open PoolWrite (Entry)
open FramePool (Good Le)
open ClassRead ClassRead.Spec

def SMethodAttr.frame (a : SMethodAttr) : Bytes := attrFrame a.raw.1 a.raw.2

/-- conditions on a method of the proved fragment (a `Code` attribute, if any, as in `CodeOk`) -/
structure MethodOk (m : MethodFacts) : Prop where
  code : ∀ c, m.code = some c → CodeOk c
  rva : AnnosOk m.rva
  ria : AnnosOk m.ria
  rvta : TypeAnnosOk .method m.rvta
  rita : TypeAnnosOk .method m.rita
  annotationDefault : ∀ v, m.annotationDefault = some v → v.ok ∧ v.depth ≤ 255
  access : m.access < 65536
  mask : m.access &&& maskMethod = m.access
  name : validMethodName m.name = true
  exceptions : ∀ es, m.exceptions = some es → ∀ e ∈ es, validClassName e = true
  params : ∀ ps, m.params = some ps → ∀ q ∈ ps, q.flags < 65536 ∧ q.flags &&& maskParam = q.flags ∧
    ∀ n, q.name = some n → validUnqualified n = true
  unknown : ∀ a ∈ m.attrs, a.name ∉ methodAttrNames

theorem applyAll_method_unknown (st : MethodFacts) : ∀ (ncs : List Nat) (as : List Attr), ncs.length = as.length →
    applyAll SMethodAttr.apply st ((ncs.zip as).map fun x => SMethodAttr.unknown x.1 x.2.name x.2.bytes)
      = some { st with attrs := st.attrs ++ as } := by
  intro ncs as
  induction as generalizing ncs st with
  | nil => intro _; cases ncs <;> simp [applyAll]
  | cons a as ih =>
    intro hl
    cases ncs with
    | nil => simp at hl
    | cons n ncs =>
      simp only [List.zip_cons_cons, List.map_cons, applyAll, SMethodAttr.apply]
      rw [ih _ ncs (by simpa using hl)]
      simp

/-- the rows of `MethodParameters` -/
theorem methodParams_spec {ps : List MethodParam} {p p' : Pool} {b : Bytes} (hg : Good p)
    (h : writeList writeMethodParam p ps = .ok (b, p')) :
    Step p p' ∧ ∃ ls : List (Nat × Option JStr × Nat), b = ls.flatMap (fun q => be16 q.1 ++ be16 q.2.2) ∧
      ls.length = ps.length ∧ ∀ x ∈ ls.zip ps, x.1.2.1 = x.2.name ∧ x.1.2.2 = x.2.flags ∧ x.1.1 < 65536 ∧
        ((x.2.name = none ∧ x.1.1 = 0) ∨ ∃ n, x.2.name = some n ∧ Utf8At p' x.1.1 n ∧ 1 ≤ x.1.1) :=
  writeList_spec writeMethodParam (fun q => be16 q.1 ++ be16 q.2.2)
    (fun p (mp : MethodParam) (q : Nat × Option JStr × Nat) => q.2.1 = mp.name ∧ q.2.2 = mp.flags ∧ q.1 < 65536 ∧
      ((mp.name = none ∧ q.1 = 0) ∨ ∃ n, mp.name = some n ∧ Utf8At p q.1 n ∧ 1 ≤ q.1))
    (fun p p' a l hle hr => by
      obtain ⟨a1, a2, a3, a4⟩ := hr
      refine ⟨a1, a2, a3, ?_⟩
      rcases a4 with a4 | ⟨n, hn, hu, h1⟩
      · exact Or.inl a4
      · exact Or.inr ⟨n, hn, hu.mono hle, h1⟩)
    (fun p p' a b hg h => by
      obtain ⟨⟨i, p1⟩, h1, h2⟩ := bind_eq_ok.mp h
      have := pure_eq_ok.mp h2
      cases this
      obtain ⟨s, hi, hc⟩ := putOptional_spec Utf8At (fun p p' a i hg h => putUtf8_spec' hg h) hg h1
      exact ⟨s, (i, a.name, a.flags), rfl, rfl, rfl, hi, hc⟩) ps p p' b hg h

/-- methods: framing, legality (for any bootstrap table: no `Code` here), effect on the facts -/
def ownMethod : Own SMethodAttr MethodFacts :=
  ⟨SMethodAttr.frame, fun q a => Sound q (fun rp => ∀ bsms : Option (List ClassRead.Bsm), a.Legal rp bsms),
   fun hl h => h.mono hl, SMethodAttr.apply⟩

/-- methods, with the bootstrap rows collected so far: an attribute is sound when it is legal for every later pool and
every later bootstrap table -/
def ownMethodAt (bs : List Bsm) : Own SMethodAttr MethodFacts :=
  ⟨SMethodAttr.frame, fun q a => Sound2 q bs (fun rp bsms => a.Legal rp bsms), fun hl h => h.mono hl (BsExt.refl _),
   SMethodAttr.apply⟩

/-- an attribute that does not look at the bootstrap table is sound whatever the table -/
theorem GBlock.at {o : Option Bytes} {q : Pool} {pre : MethodFacts → Prop} {upd : MethodFacts → MethodFacts}
    (b : GBlock ownMethod o q pre upd) (bs : List Bsm) : GBlock (ownMethodAt bs) o q pre upd := by
  obtain ⟨lo, h1, h2, h3⟩ := b
  exact ⟨lo, h1, fun a ha => Sound2.of_all (P := fun rp bsms => a.Legal rp bsms) (h2 a ha), h3⟩

theorem GBlocks.at {bsb : List Bytes} {q : Pool} {pre : MethodFacts → Prop} {upd : MethodFacts → MethodFacts}
    (b : GBlocks ownMethod bsb q pre upd) (bs : List Bsm) : GBlocks (ownMethodAt bs) bsb q pre upd := by
  obtain ⟨as, h1, h2, h3⟩ := b
  exact ⟨as, h1, fun a ha => Sound2.of_all (P := fun rp bsms => a.Legal rp bsms) (h2 a ha), h3⟩

theorem mblock_deprecated {m : MethodFacts} {o : Option Bytes} {q : Pool}
    (c : (m.deprecated = false ∧ o = none) ∨ (m.deprecated = true ∧ Present o q sDeprecated [])) :
    GBlock ownMethod o q (fun _ => True) (fun c => { c with deprecated := c.deprecated || m.deprecated }) := by
  rcases c with ⟨hf, rfl⟩ | ⟨hf, nc, rfl, hn, a⟩
  · exact gblock_absent (fun c _ => by simp [hf])
  · exact gblock_present (O := ownMethod) (.deprecated nc) (fun q' hq _ => ⟨hn, getUtf8_of hq.good (a.mono hq.le)⟩)
      (fun st _ => by simp [ownMethod, SMethodAttr.apply, hf])

theorem mblock_synthetic {m : MethodFacts} {o : Option Bytes} {q : Pool}
    (c : (m.synthetic = false ∧ o = none) ∨ (m.synthetic = true ∧ Present o q sSynthetic [])) :
    GBlock ownMethod o q (fun _ => True) (fun c => { c with synthetic := c.synthetic || m.synthetic }) := by
  rcases c with ⟨hf, rfl⟩ | ⟨hf, nc, rfl, hn, a⟩
  · exact gblock_absent (fun c _ => by simp [hf])
  · exact gblock_present (O := ownMethod) (.synthetic nc) (fun q' hq _ => ⟨hn, getUtf8_of hq.good (a.mono hq.le)⟩)
      (fun st _ => by simp [ownMethod, SMethodAttr.apply, hf])

theorem mblock_exceptions {m : MethodFacts} {o : Option Bytes} {q : Pool}
    (hok : ∀ es, m.exceptions = some es → ∀ e ∈ es, validClassName e = true)
    (c : (m.exceptions = none ∧ o = none) ∨
      (∃ (cs : List JStr) (cps : List Nat), m.exceptions = some cs ∧
        Present o q sExceptions (be16 cps.length ++ cps.flatMap be16) ∧ cps.length = cs.length ∧
        cps.length < 65536 ∧ ∀ y ∈ cps.zip cs, y.1 < 65536 ∧ ClsAt q y.1 y.2)) :
    GBlock ownMethod o q (fun c => c.exceptions = none) (fun c => { c with exceptions := m.exceptions }) := by
  rcases c with ⟨hf, rfl⟩ | ⟨cs, cps, hf, ⟨nc, rfl, hn, a⟩, hl, hlt, hr⟩
  · exact gblock_absent (fun c hc => by cases c; simp_all)
  · refine gblock_present (O := ownMethod) (.exceptions nc cps cs) ?_
      (fun st hst => by simp [ownMethod, SMethodAttr.apply, hst, hf])
    intro q' hq _
    refine ⟨hn, getUtf8_of hq.good (a.mono hq.le), hlt, hl, ?_⟩
    intro y hy
    exact ⟨(hr y hy).1, getClass_of hq.good ((hr y hy).2.mono hq.le) (hok cs hf y.2 (List.of_mem_zip hy).2)⟩

theorem mblock_signature {m : MethodFacts} {o : Option Bytes} {q : Pool}
    (c : (m.signature = none ∧ o = none) ∨
      (∃ s cp, m.signature = some s ∧ Present o q sSignature (be16 cp) ∧ cp < 65536 ∧ Utf8At q cp s)) :
    GBlock ownMethod o q (fun c => c.signature = none) (fun c => { c with signature := m.signature }) := by
  rcases c with ⟨hf, rfl⟩ | ⟨s, cp, hf, ⟨nc, rfl, hn, a⟩, hc, ac⟩
  · exact gblock_absent (fun c hc => by cases c; simp_all)
  · exact gblock_present (O := ownMethod) (.signature nc cp s)
      (fun q' hq _ => ⟨hn, getUtf8_of hq.good (a.mono hq.le), hc, getUtf8_of hq.good (ac.mono hq.le)⟩)
      (fun st hst => by simp [ownMethod, SMethodAttr.apply, hst, hf])

theorem mblock_annos (visible : Bool) {as : List Annotation} {o : Option Bytes} {q : Pool}
    (c : (as = [] ∧ o = none) ∨
      ∃ sas : List SAnno, Present o q (if visible then sRVA else sRIA) (encAnnos sas) ∧ sas.map SAnno.fact = as ∧
        sas.length < 65536 ∧ (encAnnos sas).length < 4294967296 ∧ ∀ sa ∈ sas, Sound q (fun rp => sa.Ok rp)) :
    GBlock ownMethod o q (fun _ => True)
      (fun c => if visible then { c with rva := c.rva ++ as } else { c with ria := c.ria ++ as }) := by
  rcases c with ⟨rfl, rfl⟩ | ⟨sas, ⟨nc, rfl, hn, a⟩, hm, hl, hb, hs⟩
  · exact gblock_absent (fun c _ => by cases visible <;> simp)
  · exact gblock_present (O := ownMethod) (.annotations nc visible sas)
      (fun q' hq _ => ⟨hn, getUtf8_of hq.good (a.mono hq.le), hl, fun sa hsa => hs sa hsa q' hq, hb⟩)
      (fun st _ => by cases visible <;> simp [ownMethod, SMethodAttr.apply, hm])

theorem mblock_typeAnnos (visible : Bool) {as : List TypeAnno} {o : Option Bytes} {q : Pool}
    (c : (as = [] ∧ o = none) ∨
      ∃ sas : List STypeAnno, Present o q (if visible then sRVTA else sRITA) (encTypeAnnos sas) ∧ sas.map STypeAnno.fact = as ∧
        sas.length < 65536 ∧ (encTypeAnnos sas).length < 4294967296 ∧ ∀ sa ∈ sas, Sound q (fun rp => sa.Legal rp .method)) :
    GBlock ownMethod o q (fun _ => True)
      (fun c => if visible then { c with rvta := c.rvta ++ as } else { c with rita := c.rita ++ as }) := by
  rcases c with ⟨rfl, rfl⟩ | ⟨sas, ⟨nc, rfl, hn, a⟩, hm, hl, hb, hs⟩
  · exact gblock_absent (fun c _ => by cases visible <;> simp)
  · exact gblock_present (O := ownMethod) (.typeAnnotations nc visible sas)
      (fun q' hq _ => ⟨hn, getUtf8_of hq.good (a.mono hq.le), hl, fun sa hsa => hs sa hsa q' hq, hb⟩)
      (fun st _ => by cases visible <;> simp [ownMethod, SMethodAttr.apply, hm])

theorem annotationDefault_spec {x : Option ElemVal} {p p' : Pool} {o : Option Bytes} (hg : Good p)
    (hok : ∀ v, x = some v → v.ok ∧ v.depth ≤ 255)
    (h : ifSome x (fun v => attrBuf sAnnotationDefault (fun p => writeElemVal p v)) p = .ok (o, p')) :
    Step p p' ∧ ((x = none ∧ o = none) ∨
      ∃ se : SElem, Present o p' sAnnotationDefault se.encode ∧ x = some se.fact ∧ se.encode.length < 4294967296 ∧
        Sound p' (fun rp => se.Ok rp)) := by
  rcases ifSome_inv h with ⟨v, b, rfl, hb, rfl⟩ | ⟨rfl, rfl, rfl⟩
  · obtain ⟨bb, p1, i, h1, h2, hlen, rfl⟩ := attrBuf_inv hb
    obtain ⟨s1, se, rfl, hf, hn, hleg⟩ := writeElemVal_spec v hg (hok v rfl).1 h1
    obtain ⟨s2, a2, hi⟩ := putUtf8_spec s1.good h2
    exact ⟨s1.trans s2, Or.inr ⟨se, ⟨i, rfl, hi, a2⟩, by rw [hf], by omega,
      fun q hq => ⟨hleg q (hq.of_le s2.le), by rw [hn]; exact (hok v rfl).2⟩⟩⟩
  · exact ⟨Step.refl hg, Or.inl ⟨rfl, rfl⟩⟩

theorem mblock_annotationDefault {m : MethodFacts} {o : Option Bytes} {q : Pool}
    (c : (m.annotationDefault = none ∧ o = none) ∨
      ∃ se : SElem, Present o q sAnnotationDefault se.encode ∧ m.annotationDefault = some se.fact ∧
        se.encode.length < 4294967296 ∧ Sound q (fun rp => se.Ok rp)) :
    GBlock ownMethod o q (fun c => c.annotationDefault = none)
      (fun c => { c with annotationDefault := m.annotationDefault }) := by
  rcases c with ⟨hf, rfl⟩ | ⟨se, ⟨nc, rfl, hn, a⟩, hf, hl, hs⟩
  · exact gblock_absent (fun c hc => by cases c; simp_all)
  · exact gblock_present (O := ownMethod) (.annotationDefault nc se)
      (fun q' hq _ => ⟨hn, getUtf8_of hq.good (a.mono hq.le), hs q' hq, hl⟩)
      (fun st _ => by simp [ownMethod, SMethodAttr.apply, hf])

theorem mblock_params {m : MethodFacts} {o : Option Bytes} {q : Pool}
    (hok : ∀ ps, m.params = some ps → ∀ q ∈ ps, q.flags < 65536 ∧ q.flags &&& maskParam = q.flags ∧
      ∀ n, q.name = some n → validUnqualified n = true)
    (c : (m.params = none ∧ o = none) ∨
      ∃ (ps : List MethodParam) (ls : List (Nat × Option JStr × Nat)), m.params = some ps ∧
        Present o q sMethodParameters (be8 ls.length ++ ls.flatMap (fun q => be16 q.1 ++ be16 q.2.2)) ∧
        ls.length = ps.length ∧ ls.length < 256 ∧
        ∀ x ∈ ls.zip ps, x.1.2.1 = x.2.name ∧ x.1.2.2 = x.2.flags ∧ x.1.1 < 65536 ∧
          ((x.2.name = none ∧ x.1.1 = 0) ∨ ∃ n, x.2.name = some n ∧ Utf8At q x.1.1 n ∧ 1 ≤ x.1.1)) :
    GBlock ownMethod o q (fun c => c.params = none) (fun c => { c with params := m.params }) := by
  rcases c with ⟨hf, rfl⟩ | ⟨ps, ls, hf, ⟨nc, rfl, hn, a⟩, hl, hlt, hr⟩
  · exact gblock_absent (fun c hc => by cases c; simp_all)
  · refine gblock_present (O := ownMethod) (.methodParameters nc ls) ?_ ?_
    · intro q' hq _
      refine ⟨hn, getUtf8_of hq.good (a.mono hq.le), hlt, ?_⟩
      intro y hy
      obtain ⟨k, hk, hyk⟩ := List.getElem_of_mem hy
      have hk' : k < ps.length := by omega
      have hz : (y, ps[k]) ∈ ls.zip ps := by
        rw [← hyk]
        exact List.mem_iff_getElem.mpr ⟨k, by rw [List.length_zip]; omega, by simp⟩
      obtain ⟨b1, b2, b3, b4⟩ := hr _ hz
      simp only at b1 b2 b3 b4
      have hpk := hok ps hf ps[k] (List.getElem_mem hk')
      refine ⟨b3, by rw [b2]; exact hpk.1, ?_⟩
      rcases b4 with ⟨hnone, h0⟩ | ⟨n, hn', hu, h1'⟩
      · rw [h0, b1, hnone]; exact getOptional_zero _ _
      · rw [b1, hn']
        apply getOptional_pos _ _ h1'
        simp [getUtf8_of hq.good (hu.mono hq.le), checked, hpk.2.2 n hn', bind, Outcome.bind]
    · intro st hst
      simp only [ownMethod, SMethodAttr.apply, hst, Option.isNone_none, if_true, hf]
      congr 2
      refine congrArg some ?_
      apply map_eq_of_zip _ ls ps hl
      intro x hx
      obtain ⟨b1, b2, _, _⟩ := hr x hx
      have hpk := hok ps hf x.2 (List.of_mem_zip hx).2
      cases hx2 : x.2
      simp_all

theorem mblocks_unknown {m : MethodFacts} (hok : ∀ a ∈ m.attrs, a.name ∉ methodAttrNames) {q : Pool} {ncs : List Nat}
    (hlen : ncs.length = m.attrs.length)
    (hunk : ∀ x ∈ ncs.zip m.attrs, x.1 < 65536 ∧ Utf8At q x.1 x.2.name ∧ x.2.bytes.length < 4294967296) :
    GBlocks ownMethod ((ncs.zip m.attrs).map (fun x => attrFrame x.1 x.2.bytes)) q (fun _ => True)
      (fun c => { c with attrs := c.attrs ++ m.attrs }) := by
  refine ⟨(ncs.zip m.attrs).map fun x => SMethodAttr.unknown x.1 x.2.name x.2.bytes, ?_, ?_, ?_⟩
  · simp [List.map_map, Function.comp_def, ownMethod, SMethodAttr.frame, SMethodAttr.raw]
  · intro a ha q' hq _
    obtain ⟨x, hx, rfl⟩ := List.mem_map.mp ha
    obtain ⟨hn, hu, hb⟩ := hunk x hx
    exact ⟨hn, getUtf8_of hq.good (hu.mono hq.le), hok x.2 (List.of_mem_zip hx).2, hb⟩
  · intro st _
    exact applyAll_method_unknown st ncs m.attrs hlen

/-- the `Code` block of `write_method` -/
theorem codeAttr_spec {code : Option Code} {p p' : Pool} {bs bs' : List Bsm} {as : List Bytes} (hg : Good p) (hb : BsOk bs)
    (hok : ∀ c, code = some c → CodeOk c) (h : codeAttr code p bs = .ok (as, p', bs')) :
    (Step p p' ∧ BsExt bs bs' ∧ BsOk bs') ∧ ∃ (o : Option Bytes) (code' : Option Code), as = o.toList ∧
      ((code = none ∧ code' = none ∧ o = none) ∨
        ∃ (c : Code) (cl : CodeLayout) (nc : Nat), code = some c ∧ c.resolve = some cl.facts ∧ code' = some cl.facts ∧
          Present o p' sCode cl.encode ∧ Sound2 p' bs' (fun rp bsms => cl.Legal rp bsms) ∧ cl.encode.length < 4294967296) := by
  cases code with
  | none =>
    have := ok_inj.mp (show (Except.ok ([], p, bs) : Except Fail _) = .ok (as, p', bs') from h)
    simp only [Prod.mk.injEq] at this
    obtain ⟨rfl, rfl, rfl⟩ := this
    exact ⟨⟨Step.refl hg, BsExt.refl _, hb⟩, none, none, rfl, Or.inl ⟨rfl, rfl, rfl⟩⟩
  | some c =>
    obtain ⟨⟨b, p1, bs1⟩, h1, h⟩ := bind_eq_ok.mp h
    obtain ⟨⟨i, p2⟩, h2, h⟩ := bind_eq_ok.mp h
    obtain ⟨l, h3, h⟩ := bind_eq_ok.mp h
    obtain ⟨hl, rfl⟩ := cnt32_eq_ok.mp h3
    have := pure_eq_ok.mp h
    simp only [Prod.mk.injEq] at this
    obtain ⟨rfl, rfl, rfl⟩ := this
    have hc := hok c rfl
    unfold CodeOk at hc
    cases hr : c.resolve with
    | none => rw [hr] at hc; exact hc.elim
    | some c' =>
      rw [hr] at hc
      simp only at hc
      have hc' := code_resolve_eq hr
      rw [hc'] at hc
      obtain ⟨⟨s1, e1, o1⟩, cl, rfl, hsd, hf⟩ := writeCode_spec rfl hg hb hc h1
      obtain ⟨s2, a2, hi⟩ := putUtf8_spec s1.good h2
      refine ⟨⟨s1.trans s2, e1, o1⟩, some (attrFrame i cl.encode), some cl.facts, rfl, Or.inr ⟨c, cl, i, rfl, ?_, rfl,
        ⟨i, rfl, hi, a2⟩, hsd.mono s2.le (BsExt.refl _), by omega⟩⟩
      rw [hf, ← hc']
      exact hr

theorem mblock_code {o : Option Bytes} {q : Pool} {bs : List Bsm} {code' : Option Code}
    (c : (code' = none ∧ o = none) ∨
      ∃ (cl : CodeLayout), code' = some cl.facts ∧ Present o q sCode cl.encode ∧
        Sound2 q bs (fun rp bsms => cl.Legal rp bsms) ∧ cl.encode.length < 4294967296) :
    GBlock (ownMethodAt bs) o q (fun st => st.code = none) (fun st => { st with code := code' }) := by
  rcases c with ⟨rfl, rfl⟩ | ⟨cl, rfl, ⟨nc, rfl, hn, a⟩, hs, hl⟩
  · exact gblock_absent (fun st hst => by cases st; simp_all)
  · exact gblock_present (O := ownMethodAt bs) (.code nc cl)
      (fun q' bs' hq hbs => ⟨hn, getUtf8_of hq.good (a.mono hq.le), hs q' bs' hq hbs, hl⟩)
      (fun st hst => by simp [ownMethodAt, SMethodAttr.apply, hst])

theorem writeMethod_spec {p p' : Pool} {bs bs' : List Bsm} {m : MethodFacts} {b : Bytes} (hg : Good p) (hb : BsOk bs)
    (hok : MethodOk m) (h : writeMethod p bs m = .ok (b, p', bs')) :
    (Step p p' ∧ BsExt bs bs' ∧ BsOk bs') ∧
      ∃ l : MethodLayout, b = l.encode ∧ Sound2 p' bs' (fun rp bsms => l.Legal rp bsms) ∧
        ∃ m', m.resolve = some m' ∧ l.facts = some m' := by
  obtain ⟨⟨ni, p1⟩, h1, h⟩ := bind_eq_ok.mp h
  obtain ⟨⟨di, p2⟩, h2, h⟩ := bind_eq_ok.mp h
  obtain ⟨⟨as1, p3⟩, h3, h⟩ := bind_eq_ok.mp h
  obtain ⟨⟨as2, p4, bs2⟩, h4, h⟩ := bind_eq_ok.mp h
  obtain ⟨⟨as3, p5⟩, h5, h⟩ := bind_eq_ok.mp h
  obtain ⟨ab, h6, h⟩ := bind_eq_ok.mp h
  have := pure_eq_ok.mp h
  cases this
  obtain ⟨s1, a1, hni⟩ := putUtf8_spec hg h1
  obtain ⟨s2, a2, hdi⟩ := putUtf8_spec s1.good h2
  obtain ⟨o1, q1, r1, e1, k1, rfl⟩ := runAttrs_cons_inv h3
  obtain ⟨o2, q2, r2, e2, k2, rfl⟩ := runAttrs_cons_inv k1
  obtain ⟨rfl, rfl⟩ := runAttrs_nil_inv k2
  simp only [List.cons_append, List.nil_append, List.append_assoc] at h5
  obtain ⟨o3, q3, r3, e3, k3, rfl⟩ := runAttrs_cons_inv h5
  obtain ⟨o4, q4, r4, e4, k4, rfl⟩ := runAttrs_cons_inv k3
  obtain ⟨r5, q8, r6, e5, k5, rfl⟩ := runAttrs_append_inv k4
  obtain ⟨o5, q5, o6, q6, o7, q7, o8, e5a, e6, e7, e8, rfl⟩ := annoBlocks_inv e5
  obtain ⟨o9, q9, r7, e9, k6, rfl⟩ := runAttrs_cons_inv k5
  obtain ⟨o10, q10, r8, e10, k7, rfl⟩ := runAttrs_cons_inv k6
  obtain ⟨t1, c1⟩ := flagAttr_spec s2.good e1
  obtain ⟨t2, c2⟩ := flagAttr_spec t1.good e2
  obtain ⟨⟨tc, ebs, obs⟩, oc, code', rfl, cc⟩ := codeAttr_spec t2.good hb hok.code h4
  obtain ⟨t3, c3⟩ := classListAttr_spec (name := sExceptions) tc.good e3
  obtain ⟨t4, c4⟩ := sigAttr_spec t3.good e4
  obtain ⟨t5, c5⟩ := annosAttr_spec t4.good hok.rva e5a
  obtain ⟨t6, c6⟩ := annosAttr_spec t5.good hok.ria e6
  obtain ⟨t7, c7⟩ := typeAnnosAttr_spec writeTargetMethod_eq t6.good hok.rvta e7
  obtain ⟨t8, c8⟩ := typeAnnosAttr_spec writeTargetMethod_eq t7.good hok.rita e8
  obtain ⟨t9, c9⟩ := annotationDefault_spec t8.good hok.annotationDefault e9
  -- MethodParameters
  have t10 : Step q9 q10 ∧ ((m.params = none ∧ o10 = none) ∨
      ∃ (ps : List MethodParam) (ls : List (Nat × Option JStr × Nat)), m.params = some ps ∧
        Present o10 q10 sMethodParameters (be8 ls.length ++ ls.flatMap (fun q => be16 q.1 ++ be16 q.2.2)) ∧
        ls.length = ps.length ∧ ls.length < 256 ∧
        ∀ x ∈ ls.zip ps, x.1.2.1 = x.2.name ∧ x.1.2.2 = x.2.flags ∧ x.1.1 < 65536 ∧
          ((x.2.name = none ∧ x.1.1 = 0) ∨ ∃ n, x.2.name = some n ∧ Utf8At q10 x.1.1 n ∧ 1 ≤ x.1.1)) := by
    rcases ifSome_inv e10 with ⟨ps, b, hps, hb, rfl⟩ | ⟨hps, rfl, rfl⟩
    · obtain ⟨bb, p1', i, hb1, hb2, _, rfl⟩ := attrBuf_inv hb
      obtain ⟨c, hc1, hc2⟩ := bind_eq_ok.mp hb1
      obtain ⟨hl8, rfl⟩ := cnt8_eq_ok.mp hc1
      obtain ⟨⟨rows, p2'⟩, hc3, hc4⟩ := bind_eq_ok.mp hc2
      have := pure_eq_ok.mp hc4
      cases this
      obtain ⟨u1, ls, rfl, hlen, hr⟩ := methodParams_spec t9.good hc3
      obtain ⟨u2, au, hi⟩ := putUtf8_spec u1.good hb2
      refine ⟨u1.trans u2, Or.inr ⟨ps, ls, hps, ⟨i, ?_, hi, au⟩, hlen, by omega, ?_⟩⟩
      · have : ps.length % 256 = ps.length := Nat.mod_eq_of_lt (by omega)
        simp [be8, hlen, this]
      · intro x hx
        obtain ⟨b1, b2, b3, b4⟩ := hr x hx
        refine ⟨b1, b2, b3, ?_⟩
        rcases b4 with b4 | ⟨n, hn, hu, h1'⟩
        · exact Or.inl b4
        · exact Or.inr ⟨n, hn, hu.mono u2.le, h1'⟩
    · exact ⟨Step.refl t9.good, Or.inl ⟨hps, rfl⟩⟩
  obtain ⟨t10, c10⟩ := t10
  obtain ⟨t11, ncs, hlen, rfl, hunk⟩ := unknownAttrs_spec m.attrs t10.good k7
  obtain ⟨hcount, rfl⟩ := attrsBytes_inv h6
  have s10 := t11
  have s9 := t10.trans s10
  have s8 := t9.trans s9
  have s7 := t8.trans s8
  have s6 := t7.trans s7
  have s5 := t6.trans s6
  have s4 := t5.trans s5
  have s3 := t4.trans s4
  have s2' := t3.trans s3
  have sc := tc.trans s2'
  have s1' := t2.trans sc
  have s0 := t1.trans s1'
  refine ⟨⟨s1.trans (s2.trans s0), ebs, obs⟩, ?_⟩
  have ccode : (code' = none ∧ oc = none) ∨
      ∃ (cl : CodeLayout), code' = some cl.facts ∧ Present oc p4 sCode cl.encode ∧
        Sound2 p4 bs' (fun rp bsms => cl.Legal rp bsms) ∧ cl.encode.length < 4294967296 := by
    rcases cc with ⟨_, h2', h3'⟩ | ⟨c, cl, nc, _, _, h3', h4', h5', h6'⟩
    · exact Or.inl ⟨h2', h3'⟩
    · exact Or.inr ⟨cl, h3', h4', h5', h6'⟩
  have B :=
    GBlocks.cons' ((mblock_deprecated c1).at bs') s1'.le
    (GBlocks.cons' ((mblock_synthetic c2).at bs') sc.le
    (GBlocks.cons (mblock_code ccode) s2'.le
    (GBlocks.cons ((mblock_exceptions hok.exceptions c3).at bs') s3.le
    (GBlocks.cons ((mblock_signature c4).at bs') s4.le
    (GBlocks.cons' ((mblock_annos true c5).at bs') s5.le
    (GBlocks.cons' ((mblock_annos false c6).at bs') s6.le
    (GBlocks.cons' ((mblock_typeAnnos true c7).at bs') s7.le
    (GBlocks.cons' ((mblock_typeAnnos false c8).at bs') s8.le
    (GBlocks.cons ((mblock_annotationDefault c9).at bs') s9.le
    (GBlocks.cons ((mblock_params hok.params c10).at bs') s10.le
      ((mblocks_unknown hok.unknown hlen hunk).at bs')
      (pre := fun c : MethodFacts => c.params = none) (fun c h => ⟨h, trivial⟩))
      (pre := fun c : MethodFacts => c.annotationDefault = none ∧ c.params = none) (fun c h => ⟨h.1, h.2⟩))
      (pre2 := fun c : MethodFacts => c.annotationDefault = none ∧ c.params = none) (fun c h => ⟨h.1, h.2⟩))
      (pre2 := fun c : MethodFacts => c.annotationDefault = none ∧ c.params = none) (fun c h => ⟨h.1, h.2⟩))
      (pre2 := fun c : MethodFacts => c.annotationDefault = none ∧ c.params = none) (fun c h => ⟨h.1, h.2⟩))
      (pre2 := fun c : MethodFacts => c.annotationDefault = none ∧ c.params = none) (fun c h => ⟨h.1, h.2⟩))
      (pre := fun c : MethodFacts => c.signature = none ∧ c.annotationDefault = none ∧ c.params = none) (fun c h => ⟨h.1, h.2⟩))
      (pre := fun c : MethodFacts => c.exceptions = none ∧ c.signature = none ∧ c.annotationDefault = none ∧ c.params = none)
      (fun c h => ⟨h.1, h.2⟩))
      (pre := fun c : MethodFacts => c.code = none ∧ c.exceptions = none ∧ c.signature = none ∧ c.annotationDefault = none ∧
        c.params = none) (fun c h => ⟨h.1, h.2⟩))
      (pre2 := fun c : MethodFacts => c.code = none ∧ c.exceptions = none ∧ c.signature = none ∧ c.annotationDefault = none ∧
        c.params = none) (fun c h => ⟨h.1, h.2.1, h.2.2⟩))
      (pre2 := fun c : MethodFacts => c.code = none ∧ c.exceptions = none ∧ c.signature = none ∧ c.annotationDefault = none ∧
        c.params = none) (fun c h => ⟨h.1, h.2.1, h.2.2⟩)
  obtain ⟨attrs, hbytes, hsound, hfacts⟩ := B
  have hb' : o1.toList ++ (o2.toList ++ []) ++ oc.toList ++ (o3.toList ++ (o4.toList ++ (o5.toList ++ (o6.toList ++ (o7.toList ++
      (o8.toList ++ [])))  ++ (o9.toList ++ (o10.toList ++ List.map (fun x => attrFrame x.fst x.snd.bytes) (ncs.zip m.attrs))))))
      = attrs.map SMethodAttr.frame := by
    rw [show attrs.map SMethodAttr.frame = attrs.map (ownMethodAt bs').frame from rfl, ← hbytes]; simp [List.append_assoc]
  refine ⟨⟨m.access, ni, m.name, di, m.desc, attrs⟩, ?_, ?_, ?_⟩
  · simp only [MethodLayout.encode, encAttrs_eq]
    rw [hb', List.length_map]
    rfl
  · intro q bs'' hq hbs
    have hq1 : Ext p1 q := hq.of_le (s2.trans s0).le
    have hq2 : Ext p2 q := hq.of_le s0.le
    refine ⟨hok.access, hni, hdi, getUtf8_of hq.good (a1.mono hq1.le), hok.name, getUtf8_of hq.good (a2.mono hq2.le), ?_,
      fun a ha => hsound a ha q bs'' hq hbs⟩
    rw [hb', List.length_map] at hcount
    show attrs.length < 65536
    omega
  · have := hfacts ⟨m.access &&& maskMethod, m.name, m.desc, false, false, none, none, none, [], [], [], [], none, none, []⟩
      ⟨rfl, rfl, rfl, rfl, rfl⟩
    refine ⟨{ m with code := code' }, ?_, ?_⟩
    · unfold MethodFacts.resolve
      rcases cc with ⟨h1', h2', _⟩ | ⟨c, cl, nc, h1', h2', h3', _⟩
      · rw [h1', h2']
        cases m
        simp_all
      · rw [h1', h3']
        simp [h2', bind, Option.bind]
    · simp only [MethodLayout.facts]
      show applyAll (ownMethodAt bs').apply _ attrs = some _
      rw [this]
      have hm := hok.mask
      cases m
      simp_all

end ClassWriteFull
