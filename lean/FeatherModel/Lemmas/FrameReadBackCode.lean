import FeatherModel.Lemmas.FrameReadBack

/-!
# Read-back by the reader model for the frames of a method written by `write_code`

Instantiates `FrameReadBack.readFrames_written` with the label table, the positions and the collected frames of a
successful `CodeWrite.writeCode`.
-/

namespace FrameReadBack
open FrameWrite FrameDenote FramePool
open CodeWrite (SortedFrom Insn Result writeCode)
open PoolWrite (Pool)
open ClassRead.Spec (SVType SFrameKind SFrame)

/-- `collect` with the instruction index instead of the position -/
def collectIdx : Nat → List Nat → List (Option Frame) → List (Nat × Frame)
  | k, _ :: ps, some f :: fs => (k, f) :: collectIdx (k + 1) ps fs
  | k, _ :: ps, none :: fs => collectIdx (k + 1) ps fs
  | _, _, _ => []

theorem collect_eq (lp : Nat → Option Nat) : ∀ (ps : List Nat) (fs : List (Option Frame)) (k : Nat),
    (∀ (j : Nat) (v : Nat), ps[j]? = some v → posOf lp (k + j) = v) →
    collect ps fs = atPositions lp (collectIdx k ps fs)
  | [], _, _, _ => by simp [collect, collectIdx, atPositions]
  | _ :: _, [], _, _ => by simp [collect, collectIdx, atPositions]
  | q :: ps, some f :: fs, k, h => by
    have h0 : posOf lp k = q := by simpa using h 0 q (by simp)
    have ih := collect_eq lp ps fs (k + 1) (fun j v hj => by
      have := h (j + 1) v (by simpa using hj)
      rw [← this]; congr 1; omega)
    simp only [collect, collectIdx, atPositions, List.map_cons, h0] at ih ⊢
    rw [ih]
  | q :: ps, none :: fs, k, h => by
    have ih := collect_eq lp ps fs (k + 1) (fun j v hj => by
      have := h (j + 1) v (by simpa using hj)
      rw [← this]; congr 1; omega)
    simp only [collect, collectIdx] at ih ⊢
    exact ih

theorem collectIdx_bound : ∀ (ps : List Nat) (fs : List (Option Frame)) (k : Nat),
    ∀ x ∈ collectIdx k ps fs, k ≤ x.1 ∧ x.1 < k + ps.length ∧ fs[x.1 - k]? = some (some x.2)
  | [], _, _, x, hx => by simp [collectIdx] at hx
  | _ :: _, [], _, x, hx => by simp [collectIdx] at hx
  | q :: ps, some f :: fs, k, x, hx => by
    simp only [collectIdx, List.mem_cons] at hx
    rcases hx with rfl | hx
    · simp
    · obtain ⟨a, b, c⟩ := collectIdx_bound ps fs (k + 1) x hx
      refine ⟨by omega, by simp only [List.length_cons]; omega, ?_⟩
      have : x.1 - k = (x.1 - (k + 1)) + 1 := by omega
      rw [this]; simpa using c
  | q :: ps, none :: fs, k, x, hx => by
    simp only [collectIdx] at hx
    obtain ⟨a, b, c⟩ := collectIdx_bound ps fs (k + 1) x hx
    refine ⟨by omega, by simp only [List.length_cons]; omega, ?_⟩
    have : x.1 - k = (x.1 - (k + 1)) + 1 := by omega
    rw [this]; simpa using c

theorem collectIdx_incr (lp : Nat → Option Nat) (n : Nat)
    (hmono : ∀ a b, a < b → b ≤ n → posOf lp a < posOf lp b) (hsmall : posOf lp n ≤ 65535) :
    ∀ (ps : List Nat) (fs : List (Option Frame)) (k : Nat) (prev : Option Nat),
      k + ps.length ≤ n → (match prev with | none => True | some q => q < k) →
      IdxIncr lp prev (collectIdx k ps fs)
  | [], _, _, _, _, _ => by simp [collectIdx, IdxIncr]
  | _ :: _, [], _, _, _, _ => by simp [collectIdx, IdxIncr]
  | q :: ps, some f :: fs, k, prev, hk, hprev => by
    simp only [List.length_cons] at hk
    simp only [collectIdx, IdxIncr]
    refine ⟨?_, ?_, collectIdx_incr lp n hmono hsmall ps fs (k + 1) (some k) (by omega) (by simp)⟩
    · cases prev with
      | none => trivial
      | some i => simp only at hprev ⊢; exact ⟨hprev, hmono i k hprev (by omega)⟩
    · have := hmono k n (by omega) (Nat.le_refl _); omega
  | q :: ps, none :: fs, k, prev, hk, hprev => by
    simp only [List.length_cons] at hk
    simp only [collectIdx]
    refine collectIdx_incr lp n hmono hsmall ps fs (k + 1) prev (by omega) ?_
    cases prev with
    | none => trivial
    | some i => simp only at hprev ⊢; omega

/-! ## the reader's label demand, in terms of the tree's frames -/

def uninitCount : List VType → Nat
  | [] => 0
  | .uninit _ :: vs => uninitCount vs + 1
  | _ :: vs => uninitCount vs

/-- labels the reader looks up or creates for one frame: the frame's own offset and one per `Uninitialized` type -/
def labelDemand : Frame → Nat
  | .same1 v => uninitCount [v] + 1
  | .append ls => uninitCount ls + 1
  | .full ls st => uninitCount ls + uninitCount st + 1
  | _ => 1

theorem sVTypes_refs {lp : Nat → Option Nat} : ∀ (vs : List VType) {p p' : Pool} {ss : List SVType},
    sVTypes lp p vs = some (ss, p') → (ss.map SVType.labelRefs).sum = uninitCount vs
  | [], _, _, _, h => by simp only [sVTypes, Option.some.injEq, Prod.mk.injEq] at h; obtain ⟨rfl, _⟩ := h; rfl
  | v :: vs, p, p', ss, h => by
    simp only [sVTypes] at h
    split at h
    · cases h
    · rename_i s p1 h1
      split at h
      · cases h
      · rename_i ss' p2 h2
        cases h
        have ih := sVTypes_refs vs h2
        cases v <;> simp only [sVType] at h1
        case object c => split at h1 <;> cases h1; simp [SVType.labelRefs, uninitCount, ih]
        case uninit l => split at h1 <;> cases h1; simp [SVType.labelRefs, uninitCount, ih]; omega
        all_goals (cases h1; simp [SVType.labelRefs, uninitCount, ih])

theorem sKind_refs {lp : Nat → Option Nat} {f : Frame} {p p' : Pool} {sk : SFrameKind}
    (h : sKind lp p f = some (sk, p')) : sk.labelRefs + 1 = labelDemand f := by
  cases f with
  | same => cases h; rfl
  | chop k => cases h; rfl
  | same1 v =>
    simp only [sKind] at h
    split at h
    · cases h
    · rename_i s p1 h1
      cases h
      have := sVTypes_refs (lp := lp) [v] (p := p) (p' := p') (ss := [s]) (by simp [sVTypes, h1])
      simp only [List.map_cons, List.map_nil, List.sum_cons, List.sum_nil, Nat.add_zero] at this
      simp [SFrameKind.labelRefs, labelDemand, this]
  | append ls =>
    simp only [sKind] at h
    split at h
    · cases h
    · rename_i ss p1 h1
      cases h
      simp [SFrameKind.labelRefs, labelDemand, sVTypes_refs ls h1]
  | full ls st =>
    simp only [sKind] at h
    split at h
    · cases h
    · rename_i sl p1 h1
      split at h
      · cases h
      · rename_i ss p2 h2
        cases h
        simp [SFrameKind.labelRefs, labelDemand, sVTypes_refs ls h1, sVTypes_refs st h2]

theorem sFrames_refs {lp : Nat → Option Nat} : ∀ (ifs : List (Nat × Frame)) {p p' : Pool} {sfs : List SFrame}
    (prev : Option Nat), sFrames lp p prev ifs = some (sfs, p') →
    (sfs.map (fun f => f.kind.labelRefs + 1)).sum = (ifs.map (fun x => labelDemand x.2)).sum
  | [], _, _, _, _, h => by simp only [sFrames, Option.some.injEq, Prod.mk.injEq] at h; obtain ⟨rfl, _⟩ := h; rfl
  | (k, f) :: rest, p, p', sfs, prev, h => by
    simp only [sFrames] at h
    split at h
    · cases h
    · rename_i sk p1 hsk
      split at h
      · cases h
      · rename_i sfs' p2 hsfs
        cases h
        simp [sKind_refs hsk, sFrames_refs rest (some k) hsfs]

/-! ## the positions of a written method -/

/-- for a successful `write_code` on well-typed instructions: `posOf res.label` is the position table, strictly
increasing up to `code_length` at index `n` -/
theorem result_pos_ok (is : List Insn) (hwt : ∀ i ∈ is, CodeDenote.wt i = true) (res : Result)
    (hres : writeCode is = .ok res) :
    (∀ (j : Nat) (v : Nat), res.pos.toList[j]? = some v → posOf res.label (0 + j) = v) ∧
    (∀ a b, a < b → b ≤ is.length → posOf res.label a < posOf res.label b) ∧
    ClassRead.PosOk (posOf res.label) is.length res.code.length := by
  have hsz := CodeWrite.writeCode_pos_size is res hres
  have hcl := CodeWrite.writeCode_code_length is res hres
  have hpos : ∀ (j : Nat) (v : Nat), res.pos[j]? = some v → posOf res.label j = v := by
    intro j v hj
    simp [posOf, Result.label, CodeWrite.labelPos, hj]
  have hend : posOf res.label is.length = res.code.length := by
    have hnone : res.pos[is.length]? = none := by rw [← hsz]; simp
    simp only [posOf, Result.label, CodeWrite.labelPos, hnone, hsz, if_true, Option.getD_some]
    omega
  have hstep : ∀ t, t < is.length → posOf res.label t < posOf res.label (t + 1) := by
    intro t ht
    have hi : is[t]? = some is[t] := by simp [ht]
    obtain ⟨pc, fin, rest, h1, _, h3, h4⟩ := CodeWrite.writeCode_positions is hwt res hres t _ hi
    rw [hpos t pc h1]
    simp only [posOf, h4, Option.getD_some]
    omega
  have hmono : ∀ a b, a < b → b ≤ is.length → posOf res.label a < posOf res.label b := by
    intro a b hab
    induction b with
    | zero => omega
    | succ b ih =>
      intro hb
      by_cases h : a = b
      · subst h; exact hstep a (by omega)
      · have := ih (by omega) (by omega)
        have := hstep b (by omega)
        omega
  refine ⟨fun j v hj => ?_, hmono, ⟨fun t ht => ?_, fun t ht => ?_, hcl.2⟩⟩
  · rw [Nat.zero_add]; exact hpos j v (by simpa using hj)
  · rw [← hend]; exact hmono t is.length ht (Nat.le_refl _)
  · by_cases h : t = is.length
    · subst h; omega
    · rw [← hend]; exact Nat.le_of_lt (hmono t is.length (by omega) (Nat.le_refl _))

end FrameReadBack
