import FeatherModel.Lemmas.DescriptorParse

/-! `get_arguments_size` and `dimension` on grammatical input. -/

namespace Descriptor
open DescriptorGrammar

theorem skipBrackets_replicate : ∀ (d : Nat) (r : JStr), r.head? ≠ some LBRACKET →
    skipBrackets (List.replicate d LBRACKET ++ r) = r := by
  intro d
  induction d with
  | zero =>
    intro r hr
    cases r with
    | nil => rfl
    | cons c rest =>
      simp only [List.head?_cons, ne_eq, Option.some.injEq] at hr
      simp [skipBrackets, hr]
  | succ d ih =>
    intro r hr
    simp only [List.replicate_succ, List.cons_append, skipBrackets, if_true]
    exact ih r hr

theorem countBrackets_replicate : ∀ (d : Nat) (r : JStr), r.head? ≠ some LBRACKET →
    countBrackets (List.replicate d LBRACKET ++ r) = d := by
  intro d
  induction d with
  | zero =>
    intro r hr
    cases r with
    | nil => rfl
    | cons c rest =>
      simp only [List.head?_cons, ne_eq, Option.some.injEq] at hr
      simp [countBrackets, hr]
  | succ d ih =>
    intro r hr
    simp only [List.replicate_succ, List.cons_append, countBrackets, if_true]
    rw [ih r hr]

theorem dimension_of_FieldTy {s : JStr} {d : Nat} {b : Base} (h : FieldTy s (.arr d b)) : dimension s = some d := by
  obtain ⟨h1, h2, p, hp, hs⟩ := flat_of_FieldTy h
  subst hs
  obtain ⟨c, rest, hc, hcb, _⟩ := BaseTy_head hp
  unfold dimension
  rw [countBrackets_replicate d p (by rw [hc]; simpa using hcb)]
  have : d % 256 = d := Nat.mod_eq_of_lt (by omega)
  simp only [this]
  rw [if_neg (by omega)]

/-! ## one iteration of the `get_arguments_size` loop -/

theorem argsLoop_rparen (fuel size : Nat) (r : JStr) : argsLoop fuel size (RPAREN :: r) = .ok size := by
  cases fuel <;> simp [argsLoop]

theorem argsLoop_wide {c : Nat} (hc : c = cD ∨ c = cJ) (fuel size : Nat) (rest : JStr) :
    argsLoop (fuel + 1) size (c :: rest) =
      if size + 2 > 255 then .err else argsLoop fuel (size + 2) rest := by
  have h1 : c ≠ RPAREN := by rcases hc with rfl | rfl <;> decide
  simp only [argsLoop, if_neg h1, if_pos hc]

theorem argsLoop_narrow {c : Nat} (h1 : c ≠ RPAREN) (h2 : ¬(c = cD ∨ c = cJ)) (h3 : c ≠ LBRACKET) (h4 : c ≠ cL)
    (fuel size : Nat) (rest : JStr) :
    argsLoop (fuel + 1) size (c :: rest) =
      if size + 1 > 255 then .err else argsLoop fuel (size + 1) rest := by
  simp only [argsLoop, if_neg h1, if_neg h2, skipBrackets, if_neg h3, if_neg h4]

/-- after the brackets (at least one, or none if the first character is no `D`/`J`/`)`): one slot -/
theorem argsLoop_base {p : JStr} {b : Base} (hb : BaseTy p b) (d : Nat) (fuel size : Nat) (rest : JStr)
    (hd : d = 0 → ∀ q, b ≠ .prim q) :
    argsLoop (fuel + 1) size (List.replicate d LBRACKET ++ p ++ rest) =
      if size + 1 > 255 then .err else argsLoop fuel (size + 1) rest := by
  obtain ⟨c0, rest0, hc0, hcb, _, hcp⟩ := BaseTy_head hb
  -- the first character of the whole parameter is neither `)` nor `D`/`J`
  have hskip : skipBrackets (List.replicate d LBRACKET ++ p ++ rest) = p ++ rest := by
    rw [List.append_assoc]
    exact skipBrackets_replicate d (p ++ rest) (by rw [hc0]; simpa using hcb)
  have hfirst : ∃ c tl, List.replicate d LBRACKET ++ p ++ rest = c :: tl ∧ c ≠ RPAREN ∧ ¬(c = cD ∨ c = cJ) := by
    cases d with
    | zero =>
      cases hb with
      | prim q => exact absurd rfl (hd rfl q)
      | obj hn =>
        rename_i n
        exact ⟨cL, n ++ [SEMI] ++ rest, by simp, by decide, by decide⟩
    | succ d => exact ⟨LBRACKET, List.replicate d LBRACKET ++ p ++ rest, by simp [List.replicate_succ], by decide, by decide⟩
  obtain ⟨c, tl, he, hc1, hc2⟩ := hfirst
  rw [he]
  simp only [argsLoop, if_neg hc1, if_neg hc2]
  rw [← he, hskip]
  cases hb with
  | prim q =>
    simp only [List.cons_append, List.nil_append]
    rw [if_neg (prim_char_ne q).2.1]
  | obj hn =>
    rename_i n
    have e : (cL :: n ++ [SEMI]) ++ rest = cL :: (n ++ SEMI :: rest) := by simp
    rw [e]
    simp only [if_true]
    rw [readName_append n rest (ClassName_no_semi hn)]

theorem argsLoop_step {s : JStr} {t : Ty} (hf : FieldTy s t) (fuel size : Nat) (rest : JStr) :
    argsLoop (fuel + 1) size (s ++ rest) =
      if size + t.slots > 255 then .err else argsLoop fuel (size + t.slots) rest := by
  have hfl := flat_of_FieldTy hf
  cases t with
  | prim q =>
    simp only [Flat] at hfl
    subst hfl
    cases q
    case D => exact argsLoop_wide (Or.inl rfl) fuel size rest
    case J => exact argsLoop_wide (Or.inr rfl) fuel size rest
    all_goals exact argsLoop_narrow (by decide) (by decide) (by decide) (by decide) fuel size rest
  | obj n =>
    obtain ⟨hn, hs⟩ := hfl
    subst hs
    have := argsLoop_base (BaseTy.obj hn) 0 fuel size rest (fun _ q => by simp)
    simpa [Ty.slots] using this
  | arr d b =>
    obtain ⟨h1, _, p, hp, hs⟩ := hfl
    subst hs
    exact argsLoop_base hp d fuel size rest (fun h0 => by omega)

theorem argsLoop_params {ps : JStr} {ts : List Ty} (h : ParamsTy ps ts) :
    ∀ (fuel size : Nat) (r : JStr), ps.length ≤ fuel → size ≤ 255 →
      argsLoop fuel size (ps ++ RPAREN :: r) =
        if size + slotsSum ts ≤ 255 then .ok (size + slotsSum ts) else .err := by
  induction h with
  | nil =>
    intro fuel size r _ hs
    have e : size + slotsSum [] = size := rfl
    rw [List.nil_append, argsLoop_rparen, e, if_pos hs]
  | cons hf hps ih =>
    rename_i s rest t ts'
    intro fuel size r hfuel hs
    have hpos := FieldTy_length_pos hf
    cases fuel with
    | zero => rw [List.length_append] at hfuel; omega
    | succ fuel =>
      rw [List.append_assoc, argsLoop_step hf fuel size (rest ++ RPAREN :: r)]
      have e : slotsSum (t :: ts') = t.slots + slotsSum ts' := rfl
      rw [e]
      by_cases hov : size + t.slots > 255
      · have hno : ¬ (size + (t.slots + slotsSum ts') ≤ 255) := by omega
        rw [if_pos hov, if_neg hno]
      · rw [if_neg hov, ih fuel (size + t.slots) r (by rw [List.length_append] at hfuel; omega) (by omega)]
        simp only [Nat.add_assoc]

end Descriptor
