import FeatherModel.Model.NestDomain

/-!
# C14 lemmas: the two naming recursions, fuel, tables
-/

namespace Nest

/-! ## `get` -/

theorem get_some {ns : Nests} {c : JStr} {n : Nest} (h : get ns c = some n) : n ∈ ns ∧ n.className = c := by
  unfold get at h
  have h1 := List.mem_of_find?_eq_some h
  have h2 := List.find?_some h
  exact ⟨h1, by simpa using h2⟩

theorem get_none {ns : Nests} {c : JStr} (h : get ns c = none) : ∀ n ∈ ns, n.className ≠ c := by
  unfold get at h
  intro n hn e
  have := List.find?_eq_none.mp h n hn
  simp [e] at this

theorem get_cons (m : Nest) (ns : Nests) (c : JStr) :
    get (m :: ns) c = if m.className == c then some m else get ns c := by
  unfold get
  simp only [List.find?_cons]
  cases h : (m.className == c) <;> simp

/-- with unique keys every entry is found under its own key -/
theorem get_self_of_unique : ∀ {ns : Nests}, (ns.map (·.className)).Nodup → ∀ n ∈ ns, get ns n.className = some n := by
  intro ns
  induction ns with
  | nil => intro _ n hn; simp at hn
  | cons m rest ih =>
    intro hnd n hn
    simp only [List.map_cons, List.nodup_cons] at hnd
    rw [get_cons]
    rcases List.mem_cons.mp hn with rfl | hn
    · simp
    · have hne : (m.className == n.className) = false := by
        apply beq_false_of_ne
        intro e
        exact hnd.1 (by rw [e]; exact List.mem_map.mpr ⟨n, hn, rfl⟩)
      rw [hne]
      simpa using ih hnd.2 n hn

/-! ## `mapOpt` -/

theorem mapOpt_isSome {α β : Type} {f : α → Option β} : ∀ {l : List α},
    (mapOpt f l).isSome = true ↔ ∀ a ∈ l, (f a).isSome = true := by
  intro l
  induction l with
  | nil => simp [mapOpt]
  | cons a rest ih =>
    simp only [mapOpt, List.mem_cons, forall_eq_or_imp]
    cases hfa : f a with
    | none => simp
    | some b =>
      cases hr : mapOpt f rest with
      | none =>
        rw [hr] at ih
        simp only [Option.isSome_none, Bool.false_eq_true, false_iff] at ih
        simp only [Option.isSome_none, Bool.false_eq_true, Option.isSome_some, true_and, false_iff]
        exact ih
      | some bs =>
        rw [hr] at ih
        simp only [Option.isSome_some, true_iff] at ih
        simp only [Option.isSome_some, true_and, true_iff]
        exact ih

theorem mapOpt_congr {α β : Type} {f g : α → Option β} : ∀ {l : List α}, (∀ a ∈ l, f a = g a) → mapOpt f l = mapOpt g l := by
  intro l
  induction l with
  | nil => intro _; rfl
  | cons a rest ih =>
    intro h
    simp only [mapOpt]
    rw [h a (List.mem_cons_self), ih (fun x hx => h x (List.mem_cons_of_mem _ hx))]

theorem mapOpt_length {α β : Type} {f : α → Option β} : ∀ {l : List α} {r : List β}, mapOpt f l = some r → r.length = l.length := by
  intro l
  induction l with
  | nil => intro r h; simp [mapOpt] at h; subst h; rfl
  | cons a rest ih =>
    intro r h
    simp only [mapOpt] at h
    cases hfa : f a with
    | none => rw [hfa] at h; simp at h
    | some b =>
      rw [hfa] at h
      cases hr : mapOpt f rest with
      | none => rw [hr] at h; simp at h
      | some bs =>
        rw [hr] at h
        simp only [Option.some.injEq] at h
        subst h
        simp [ih hr]

/-- looking a class up in a table built entry by entry from a nests table is looking it up in the nests table -/
theorem lookup_mapOpt_table {g : Nest → Option JStr} : ∀ {ns : Nests} {t : AList JStr JStr},
    mapOpt (fun n => (g n).map (fun v => (n.className, v))) ns = some t →
    ∀ c, AList.lookup c t = match get ns c with | none => none | some n => g n := by
  intro ns
  induction ns with
  | nil => intro t h c; simp [mapOpt] at h; subst h; simp [AList.lookup, get]
  | cons m rest ih =>
    intro t h c
    simp only [mapOpt] at h
    cases hg : g m with
    | none => rw [hg] at h; simp at h
    | some v =>
      rw [hg] at h
      simp only [Option.map_some] at h
      cases hr : mapOpt (fun n => (g n).map (fun v => (n.className, v))) rest with
      | none => rw [hr] at h; simp at h
      | some t' =>
        rw [hr] at h
        simp only [Option.some.injEq] at h
        subst h
        rw [get_cons]
        simp only [AList.lookup]
        cases hk : (m.className == c)
        · simp only [Bool.false_eq_true, if_false]
          exact ih hr c
        · simp [hg]

/-! ## the two recursions compute the same names -/

/-- `remap` of `nester_jar.rs` is `build_translation` of `nester_run.rs` applied to the enclosing class, joined with the
inner name: fuel by fuel, on every table (cyclic ones included) -/
theorem jarRemap_eq_build (ns : Nests) : ∀ (fuel : Nat) (n : Nest),
    jarRemap ns fuel n = (build ns fuel n.enclClass).map (fun a => join a n.innerName) := by
  intro fuel
  induction fuel with
  | zero => intro n; simp [jarRemap, build]
  | succ f ih =>
    intro n
    simp only [jarRemap, build]
    cases hg : get ns n.enclClass with
    | none => simp
    | some e =>
      simp only
      rw [ih e]
      cases build ns f e.enclClass <;> simp

theorem jarTable_eq_mapTable (ns : Nests) : jarTable ns = mapTable ns := by
  unfold jarTable mapTable
  apply mapOpt_congr
  intro n _
  rw [jarRemap_eq_build]
  cases build ns (fuelFor ns) n.enclClass <;> simp

/-! ## fuel -/

theorem build_mono (ns : Nests) : ∀ (f k : Nat) (c r : JStr), build ns f c = some r → build ns (f + k) c = some r := by
  intro f
  induction f with
  | zero => intro k c r h; simp [build] at h
  | succ f ih =>
    intro k c r h
    have : f + 1 + k = (f + k) + 1 := by omega
    rw [this]
    simp only [build] at h ⊢
    cases hg : get ns c with
    | none => rw [hg] at h; exact h
    | some n =>
      rw [hg] at h
      simp only at h ⊢
      cases hb : build ns f n.enclClass with
      | none => rw [hb] at h; simp at h
      | some a =>
        rw [hb] at h
        rw [ih k n.enclClass a hb]
        exact h

theorem build_mono_le (ns : Nests) {f f' : Nat} {c r : JStr} (h : build ns f c = some r) (hle : f ≤ f') :
    build ns f' c = some r := by
  have := build_mono ns f (f' - f) c r h
  rwa [show f + (f' - f) = f' by omega] at this

theorem filter_length_le_of_imp {α : Type} (p q : α → Bool) (hpq : ∀ x, p x = true → q x = true) :
    ∀ l : List α, (l.filter p).length ≤ (l.filter q).length := by
  intro l
  induction l with
  | nil => simp
  | cons x rest ih =>
    simp only [List.filter_cons]
    cases hp : p x
    · cases hq : q x <;> simp <;> omega
    · simp [hpq x hp, ih]

theorem filter_length_lt_of_imp {α : Type} (p q : α → Bool) (hpq : ∀ x, p x = true → q x = true) :
    ∀ (l : List α) (x0 : α), x0 ∈ l → q x0 = true → p x0 = false → (l.filter p).length < (l.filter q).length := by
  intro l
  induction l with
  | nil => intro x0 h; simp at h
  | cons x rest ih =>
    intro x0 hx hq hp
    simp only [List.filter_cons]
    rcases List.mem_cons.mp hx with rfl | hx
    · have := filter_length_le_of_imp p q hpq rest
      simp only [hp, hq, Bool.false_eq_true, if_false, if_true, List.length_cons]
      omega
    · have := ih x0 hx hq hp
      cases hp' : p x
      · cases hq' : q x <;> simp <;> omega
      · simp [hpq x hp']; omega

/-- with a rank that decreases from every class to its enclosing class, the recursion from `c` needs no more fuel than
the number of table entries ranked at most like `c`, plus one -/
theorem build_isSome_of_rank (ns : Nests) (rank : JStr → Nat) (hr : ∀ n ∈ ns, rank n.enclClass < rank n.className) :
    ∀ (fuel : Nat) (c : JStr), (ns.filter (fun n => decide (rank n.className ≤ rank c))).length < fuel →
      (build ns fuel c).isSome = true := by
  intro fuel
  induction fuel with
  | zero => intro c h; omega
  | succ f ih =>
    intro c h
    simp only [build]
    cases hg : get ns c with
    | none => rfl
    | some n =>
      obtain ⟨hn, hc⟩ := get_some hg
      have hlt := hr n hn
      have hcount := filter_length_lt_of_imp (fun m => decide (rank m.className ≤ rank n.enclClass))
        (fun m => decide (rank m.className ≤ rank c))
        (fun x hx => by simp only [decide_eq_true_eq] at hx ⊢; rw [← hc]; omega) ns n hn
        (by simp [hc]) (by simp only [decide_eq_false_iff_not]; omega)
      have := ih n.enclClass (by omega)
      simp only
      cases hb : build ns f n.enclClass with
      | none => rw [hb] at this; simp at this
      | some a => rfl

theorem build_isSome_of_rank_len (ns : Nests) (rank : JStr → Nat) (hr : ∀ n ∈ ns, rank n.enclClass < rank n.className)
    (c : JStr) : (build ns (ns.length + 1) c).isSome = true := by
  apply build_isSome_of_rank ns rank hr
  have := List.length_filter_le (fun n => decide (rank n.className ≤ rank c)) ns
  omega

/-- for the enclosing class of a table entry one unit of fuel less is enough -/
theorem build_isSome_encl (ns : Nests) (rank : JStr → Nat) (hr : ∀ n ∈ ns, rank n.enclClass < rank n.className)
    (n : Nest) (hn : n ∈ ns) : (build ns ns.length n.enclClass).isSome = true := by
  apply build_isSome_of_rank ns rank hr
  have h1 := filter_length_lt_of_imp (fun m => decide (rank m.className ≤ rank n.enclClass))
    (fun m => decide (rank m.className ≤ rank n.className))
    (fun x hx => by have := hr n hn; simp only [decide_eq_true_eq] at hx ⊢; omega) ns n hn
    (by simp) (by have := hr n hn; simp only [decide_eq_false_iff_not]; omega)
  have h2 := List.length_filter_le (fun m => decide (rank m.className ≤ rank n.className)) ns
  omega

/-! ## tables -/

theorem mapTable_isSome_iff (ns : Nests) :
    (mapTable ns).isSome = true ↔ ∀ n ∈ ns, (build ns (fuelFor ns) n.enclClass).isSome = true := by
  unfold mapTable
  rw [mapOpt_isSome]
  constructor
  · intro h n hn
    have := h n hn
    cases hb : build ns (fuelFor ns) n.enclClass with
    | none => rw [hb] at this; simp at this
    | some a => rfl
  · intro h n hn
    have := h n hn
    cases hb : build ns (fuelFor ns) n.enclClass with
    | none => rw [hb] at this; simp at this
    | some a => rfl

/-- `map_class` of the mappings-side remapper, as a recursion: one more round of `build` -/
theorem tableMap_mapTable {ns : Nests} {t : AList JStr JStr} (h : mapTable ns = some t) (c : JStr) :
    some (tableMap t c) = build ns (fuelFor ns + 1) c := by
  unfold mapTable at h
  have hl := lookup_mapOpt_table (g := fun n => (build ns (fuelFor ns) n.enclClass).map (fun a => join a n.innerName))
    (ns := ns) (t := t) (by
      rw [← h]
      apply mapOpt_congr
      intro n _
      cases build ns (fuelFor ns) n.enclClass <;> simp) c
  have hall := (mapTable_isSome_iff ns).mp (by unfold mapTable; rw [h]; rfl)
  unfold tableMap
  rw [hl]
  simp only [build]
  cases hg : get ns c with
  | none => rfl
  | some n =>
    have := hall n (get_some hg).1
    simp only
    cases hb : build ns (fuelFor ns) n.enclClass with
    | none => rw [hb] at this; simp at this
    | some a => rfl

/-- the translated name of a class follows the table: a listed class is its enclosing class's translated name, `$`,
its inner name; any other class keeps its name -/
theorem mapName_rec (ns : Nests) (h : (mapTable ns).isSome = true) (c : JStr) :
    mapName ns c = match get ns c with
      | none => some c
      | some n => (mapName ns n.enclClass).map (fun a => join a n.innerName) := by
  cases ht : mapTable ns with
  | none => rw [ht] at h; simp at h
  | some t =>
    have hall := (mapTable_isSome_iff ns).mp h
    have hm : ∀ x, mapName ns x = build ns (fuelFor ns + 1) x := by
      intro x
      unfold mapName
      rw [ht]
      exact tableMap_mapTable ht x
    rw [hm c]
    cases hg : get ns c with
    | none => simp only [build, hg]
    | some n =>
      simp only
      rw [hm n.enclClass]
      simp only [build, hg]
      have := hall n (get_some hg).1
      cases hb : build ns (fuelFor ns) n.enclClass with
      | none => rw [hb] at this; simp at this
      | some a =>
        have h2 := build_mono ns (fuelFor ns) 1 n.enclClass a hb
        simp only [build] at h2
        rw [h2]
        rfl

/-- a table whose names can all be computed is acyclic: the length of the translated name is a rank -/
theorem rank_of_mapTable (ns : Nests) (hu : (ns.map (·.className)).Nodup) (h : (mapTable ns).isSome = true) :
    ∃ rank : JStr → Nat, ∀ n ∈ ns, rank n.enclClass < rank n.className := by
  refine ⟨fun c => match build ns (fuelFor ns + 1) c with | some r => r.length | none => 0, ?_⟩
  intro n hn
  have hall := (mapTable_isSome_iff ns).mp h n hn
  cases hb : build ns (fuelFor ns) n.enclClass with
  | none => rw [hb] at hall; simp at hall
  | some a =>
    have h1 : build ns (fuelFor ns + 1) n.enclClass = some a := build_mono ns _ 1 _ _ hb
    have h2 : build ns (fuelFor ns + 1) n.className = some (join a n.innerName) := by
      simp only [build, get_self_of_unique hu n hn, hb]
    simp only [h1, h2, join, List.length_append, List.length_cons]
    omega

end Nest
