import FeatherModel.Lemmas.DiffTextCells

/-!
# `.tinydiff` text, middle layer: the `TinyLine`s of the specification text of a diff
-/

namespace TinyDiff
open DiffModel

/-! ## the lines of a written diff -/

def docL (i : Nat) : Action JStr → List Line
  | .none => []
  | a => [{ idents := i, first := C_, fields := (actionCells a).map escape }]

def paramL (e : Nat × PDiff) : List Line :=
  { idents := 2, first := P_, fields := decimal e.1 :: [] :: actionCells e.2.info } :: docL 3 e.2.doc

def fieldL (e : MemberKey × FDiff) : List Line :=
  { idents := 1, first := F_, fields := e.1.2 :: e.1.1 :: actionCells e.2.info } :: docL 2 e.2.doc

def methodL (e : MemberKey × MDiff) : List Line :=
  { idents := 1, first := M_, fields := e.1.2 :: e.1.1 :: actionCells e.2.info } ::
    (docL 2 e.2.doc ++ e.2.params.flatMap paramL)

def classL (e : JStr × CDiff) : List Line :=
  { idents := 0, first := C_, fields := e.1 :: actionCells e.2.info } ::
    (docL 1 e.2.doc ++ (e.2.fields.flatMap fieldL ++ e.2.methods.flatMap methodL))

def headerL : Line := { idents := 0, first := TINY, fields := [[50], [48]] }

theorem docL_cases (i : Nat) (a : Action JStr) :
    (a = .none ∧ docL i a = []) ∨ docL i a = [{ idents := i, first := C_, fields := (actionCells a).map escape }] := by
  cases a <;> simp [docL]

/-! ## text ↦ lines -/

theorem actionAll_mono {p q : JStr → Bool} (h : ∀ s, p s = true → q s = true) (a : Action JStr)
    (ha : actionAll p a = true) : actionAll q a = true := by
  cases a with
  | none => rfl
  | add b => exact h _ ha
  | remove x => exact h _ ha
  | edit x y =>
    simp only [actionAll, Bool.and_eq_true] at ha ⊢
    exact ⟨h _ ha.1, h _ ha.2⟩

theorem nameCell_valid {valid : JStr → Bool} (s : JStr) (h : nameCell valid s = true) : valid s = true := by
  simp only [nameCell, Bool.and_eq_true] at h; exact h.1

theorem nameCell_clean {valid : JStr → Bool} (s : JStr) (h : nameCell valid s = true) : Clean s := by
  simp only [nameCell, Bool.and_eq_true] at h; exact plainCell_clean h.2

theorem docRow_good (i : Nat) (a : Action JStr) (h : actionAll plainDoc a = true) : Good (docRow i a) (docL i a) := by
  have hC : Clean C_ := by simp [Clean, C_]
  have hcells := docCells_clean a h
  cases a with
  | none => exact Good.nil
  | add b =>
    exact Good.row i C_ _ (by simp [C_]) (by
      intro c hc
      rcases List.mem_cons.mp hc with rfl | hc
      · exact hC
      · exact hcells c hc)
  | remove x =>
    exact Good.row i C_ _ (by simp [C_]) (by
      intro c hc
      rcases List.mem_cons.mp hc with rfl | hc
      · exact hC
      · exact hcells c hc)
  | edit x y =>
    exact Good.row i C_ _ (by simp [C_]) (by
      intro c hc
      rcases List.mem_cons.mp hc with rfl | hc
      · exact hC
      · exact hcells c hc)

theorem writeParam_good (e : Nat × PDiff) (h : writableParam e = true) : Good (writeParam e) (paramL e) := by
  simp only [writableParam, Bool.and_eq_true] at h
  obtain ⟨⟨_, hi⟩, hd⟩ := h
  unfold writeParam paramL
  refine Good.append (Good.row 2 P_ _ (by simp [P_]) ?_) (docRow_good 3 _ hd)
  intro c hc
  simp only [List.mem_cons] at hc
  rcases hc with rfl | rfl | rfl | hc
  · simp [Clean, P_]
  · exact decimal_clean _
  · exact clean_nil
  · exact actionCells_clean (fun s hs => nameCell_clean s hs) _ hi c (by simpa using hc)

theorem writeField_good (e : MemberKey × FDiff) (h : writableField e = true) : Good (writeField e) (fieldL e) := by
  simp only [writableField, Bool.and_eq_true] at h
  obtain ⟨⟨⟨hn, hdesc⟩, hi⟩, hd⟩ := h
  unfold writeField fieldL
  refine Good.append (Good.row 1 F_ _ (by simp [F_]) ?_) (docRow_good 2 _ hd)
  intro c hc
  simp only [List.mem_cons] at hc
  rcases hc with rfl | rfl | rfl | hc
  · simp [Clean, F_]
  · exact plainCell_clean hdesc
  · exact nameCell_clean _ hn
  · exact actionCells_clean (fun s hs => nameCell_clean s hs) _ hi c (by simpa using hc)

theorem writeMethod_good (e : MemberKey × MDiff) (h : writableMethod e = true) : Good (writeMethod e) (methodL e) := by
  simp only [writableMethod, Bool.and_eq_true, List.all_eq_true] at h
  obtain ⟨⟨⟨⟨hn, hdesc⟩, hi⟩, hd⟩, hp⟩ := h
  unfold writeMethod methodL
  rw [List.append_assoc]
  refine Good.append (Good.row 1 M_ _ (by simp [M_]) ?_)
    (Good.append (docRow_good 2 _ hd) (Good.flatten writeParam paramL _ (fun p hpm => writeParam_good p (hp p hpm))))
  intro c hc
  simp only [List.mem_cons] at hc
  rcases hc with rfl | rfl | rfl | hc
  · simp [Clean, M_]
  · exact plainCell_clean hdesc
  · exact nameCell_clean _ hn
  · exact actionCells_clean (fun s hs => nameCell_clean s hs) _ hi c (by simpa using hc)

theorem writeClass_good (e : JStr × CDiff) (h : writableClass e = true) : Good (writeClass e) (classL e) := by
  simp only [writableClass, Bool.and_eq_true, List.all_eq_true] at h
  obtain ⟨⟨⟨⟨hn, hi⟩, hd⟩, hf⟩, hm⟩ := h
  unfold writeClass classL
  rw [List.append_assoc, List.append_assoc]
  refine Good.append (Good.row 0 C_ _ (by simp [C_]) ?_)
    (Good.append (docRow_good 1 _ hd)
      (Good.append (Good.flatten writeField fieldL _ (fun f hfm => writeField_good f (hf f hfm)))
        (Good.flatten writeMethod methodL _ (fun m hmm => writeMethod_good m (hm m hmm)))))
  intro c hc
  simp only [List.mem_cons] at hc
  rcases hc with rfl | rfl | hc
  · simp [Clean, C_]
  · exact nameCell_clean _ hn
  · exact actionCells_clean (fun s hs => nameCell_clean s hs) _ hi c (by simpa using hc)

/-- **the lines the reader sees** for the specification text of a writable diff -/
theorem lines_writeSpec (d : Diff) (h : d.classes.all writableClass = true) :
    (textLines (writeSpec d)).map mkLine = headerL :: d.classes.flatMap classL := by
  rw [List.all_eq_true] at h
  apply Good.textLines
  unfold writeSpec
  have hh : Good (row 0 [TINY, [50], [48]]) [headerL] :=
    Good.row 0 TINY _ (by simp [TINY]) (by
      intro c hc
      simp only [List.mem_cons, List.not_mem_nil, or_false] at hc
      rcases hc with rfl | rfl | rfl <;> simp [Clean, TINY])
  exact Good.append hh (Good.flatten writeClass classL _ (fun c hc => writeClass_good c (h c hc)))

end TinyDiff
