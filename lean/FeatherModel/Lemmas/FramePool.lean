import FeatherModel.Lemmas.PoolWrite
import FeatherModel.Spec.FrameDenote

/-!
# Pool facts used by the `StackMapTable` writer: `put_class` returns an index that designates the class, and keeps
designating it while the pool grows
-/

namespace FramePool
open PoolWrite FrameDenote

/-- a pool `write` can have produced: well formed, `constant_pool_count` a `u16` -/
def Good (p : Pool) : Prop := p.WF ∧ p.count ≤ 65535

/-- `q` extends `p`: every index keeps its meaning -/
def Le (p q : Pool) : Prop := ∀ j e, p.get j = some e → q.get j = some e

theorem Le.refl (p : Pool) : Le p p := fun _ _ h => h
theorem Le.trans {p q r : Pool} (h1 : Le p q) (h2 : Le q r) : Le p r := fun j e h => h2 j e (h1 j e h)

theorem good_empty : Good PoolWrite.empty := ⟨wf_empty, by simp [PoolWrite.empty]⟩

theorem put_good {p p' : Pool} {e : Entry} {i : Nat} (hg : Good p) (h : put p e = some (i, p')) :
    Good p' ∧ Le p p' ∧ p'.get i = some e ∧ 1 ≤ i ∧ i < 65535 ∧ p.count ≤ p'.count := by
  obtain ⟨hw, hc⟩ := hg
  obtain ⟨a, b, c⟩ := put_range hw hc h
  have hs := slots_pos e
  refine ⟨⟨put_wf hw h, c⟩, fun j e' hj => put_stable hw h hj, put_get hw h, a, by omega, ?_⟩
  unfold put at h
  split at h
  · cases h; exact Nat.le_refl _
  · split at h
    · cases h
    · cases h; simp only; omega

theorem clsAt_le {p q : Pool} (h : Le p q) {c : JStr} {i : Nat} (hc : clsAt p c i = true) : clsAt q c i = true := by
  unfold clsAt at hc ⊢
  split at hc
  · rename_i u hu
    rw [h _ _ hu]
    simp only [beq_iff_eq] at hc ⊢
    exact h _ _ hc
  · cases hc

/-- `put_class`: the returned index designates a `CONSTANT_Class_info` naming `c` -/
theorem putClass_good {p p' : Pool} {c : JStr} {i : Nat} (hg : Good p) (h : putClass p c = some (i, p')) :
    Good p' ∧ Le p p' ∧ clsAt p' c i = true ∧ i ≤ 65535 ∧ p.count ≤ p'.count := by
  unfold putClass putUtf8 at h
  split at h
  · cases h
  · rename_i u p1 h1
    obtain ⟨g1, l1, e1, _, _, c1⟩ := put_good hg h1
    obtain ⟨g2, l2, e2, _, hi, c2⟩ := put_good g1 h
    refine ⟨g2, l1.trans l2, ?_, by omega, by omega⟩
    unfold clsAt
    rw [e2]
    simp only [beq_iff_eq]
    exact l2 _ _ e1

/-- `put` has room when two more slots fit -/
theorem put_room (p : Pool) (e : Entry) (h : p.count + slots e ≤ 65535) :
    ∃ i p', put p e = some (i, p') ∧ p'.count ≤ p.count + slots e := by
  unfold put
  split
  · exact ⟨_, _, rfl, by omega⟩
  · have : ¬ p.count + slots e > 65535 := by omega
    simp only [this, if_false]
    exact ⟨_, _, rfl, Nat.le_refl _⟩

theorem putClass_room (p : Pool) (c : JStr) (h : p.count + 2 ≤ 65535) :
    ∃ i p', putClass p c = some (i, p') ∧ p'.count ≤ p.count + 2 := by
  obtain ⟨u, p1, h1, c1⟩ := put_room p (.utf8 c) (by simp [slots]; omega)
  obtain ⟨i, p2, h2, c2⟩ := put_room p1 (.cls u) (by simp [slots] at c1 ⊢; omega)
  refine ⟨i, p2, ?_, by simp [slots] at c1 c2; omega⟩
  simp [putClass, putUtf8, h1, h2]

end FramePool
