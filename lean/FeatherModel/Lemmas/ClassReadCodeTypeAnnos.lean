import FeatherModel.Lemmas.ClassReadFramesSM
import FeatherModel.Lemmas.ClassReadAnnoLemmas

/-! C01 lemmas: `Runtime(In)VisibleTypeAnnotations` inside `Code` — targets that name instructions create labels. -/

namespace ClassRead
open Outcome Spec

/-- a target as the reader delivers it: instruction indices replaced by the label ids of their offsets -/
def targetRaw (lf : Labels) (pos : Nat → Nat) : Target → Target
  | .localVar tag tbl => .localVar tag (tbl.map (fun e => (labOf lf pos e.1, labOf lf pos e.2.1, e.2.2)))
  | .offset tag t => .offset tag (labOf lf pos t)
  | .offsetArg tag t i => .offsetArg tag (labOf lf pos t) i
  | t => t

def targetRefs (pos : Nat → Nat) : Target → List Nat
  | .localVar _ tbl => tbl.flatMap (fun e => [pos e.1, pos e.2.1])
  | .offset _ t => [pos t]
  | .offsetArg _ t _ => [pos t]
  | _ => []

def typeAnnoRaw (lf : Labels) (pos : Nat → Nat) (a : SCodeTypeAnno) : TypeAnno :=
  ⟨targetRaw lf pos a.target, a.path, a.anno.fact⟩

theorem u8_cons (x : Nat) (s : Bytes) : u8 (x :: s) = ok (x, s) := rfl

theorem sum_map_const' {α : Type} (k : Nat) (xs : List α) : (xs.map (fun _ => k)).sum = k * xs.length := by
  induction xs with
  | nil => simp
  | cons _ _ ih => simp [List.sum_cons, ih, Nat.mul_add]; omega

theorem readLocalVarEntry_ok (pos : Nat → Nat) (n cl : Nat) (hp : PosOk pos n cl) (hmono : ∀ a b, a ≤ b → b ≤ n → pos a ≤ pos b)
    (e : Nat × Nat × Nat) (he : e.1 < n ∧ e.1 ≤ e.2.1 ∧ e.2.1 ≤ n ∧ e.2.2 < 65536)
    (l : Labels) (r : Bytes) (hwf : l.WF) (hcl : l.codeLength = cl) (hcnt : l.count + 2 < 65536) :
    StepOk l ((fun (l : Labels) (s : Bytes) => do
        let (start, s) ← u16 s
        let (len, s) ← u16 s
        let ((a, b), l) ← l.getOrCreateRange start len
        let (index, s) ← u16 s
        pure ((a, b, index), l, s)) l ((be16 (pos e.1) ++ be16 (pos e.2.1 - pos e.1) ++ be16 e.2.2) ++ r)) r 2
      [pos e.1, pos e.2.1] (fun lf => (labOf lf pos e.1, labOf lf pos e.2.1, e.2.2)) := by
  obtain ⟨hs, hse, hen, hix⟩ := he
  have b1 : pos e.1 < 65536 := by have := hp.lt _ hs; have := hp.small; omega
  have hm := hmono e.1 e.2.1 hse hen
  have b2 : pos e.2.1 - pos e.1 < 65536 := by have := hp.le _ hen; have := hp.small; omega
  have hsum : pos e.1 + (pos e.2.1 - pos e.1) = pos e.2.1 := by omega
  obtain ⟨ia, ib, l2, h2, hwf2, hle2, hg1, hg2, hc2⟩ := Labels.getOrCreateRange_spec hwf (start := pos e.1)
    (len := pos e.2.1 - pos e.1) (by rw [hcl]; exact hp.lt _ hs) (by rw [hcl, hsum]; exact hp.le _ hen)
    (by rw [hcl]; exact hp.small) (by omega)
  rw [hsum] at hg2
  refine ⟨(ia, ib, e.2.2), l2, ?_, hwf2, hle2, hc2, ?_, ?_⟩
  · simp only [List.append_assoc, u16_be16 _ b1, u16_be16 _ b2, u16_be16 _ hix, ok_bind, h2, pure_eq]
  · intro pc hpc
    simp only [List.mem_cons, List.not_mem_nil, or_false] at hpc
    rcases hpc with rfl | rfl
    · rw [hg1]; rfl
    · rw [hg2]; rfl
  · intro lf hlf
    simp only [labOf_of_le hlf hg1, labOf_of_le hlf hg2]

theorem readTargetCode_ok (pos : Nat → Nat) (n cl : Nat) (hp : PosOk pos n cl) (hmono : ∀ a b, a ≤ b → b ≤ n → pos a ≤ pos b)
    (t : Target) (ht : codeTargetOk n t)
    (l : Labels) (r : Bytes) (hwf : l.WF) (hcl : l.codeLength = cl) (hcnt : l.count + codeTargetRefs t < 65536) :
    StepOk l (readTargetCode l (encCodeTarget pos t ++ r)) r (codeTargetRefs t) (targetRefs pos t)
      (fun lf => targetRaw lf pos t) := by
  cases t <;> simp only [codeTargetOk] at ht
  all_goals first
    | exact ht.elim
    | skip
  case localVar tag tbl =>
    obtain ⟨htag, hlen, hes⟩ := ht
    have hk : (tbl.map (fun _ => 2)).sum = 2 * tbl.length := sum_map_const' 2 tbl
    simp only [codeTargetRefs] at hcnt
    obtain ⟨v, l', h1, hwf', hle', hc', hr', hv'⟩ := readVecS_stepOk (fun (l : Labels) (s : Bytes) => do
        let (start, s) ← u16 s
        let (len, s) ← u16 s
        let ((a, b), l) ← l.getOrCreateRange start len
        let (index, s) ← u16 s
        pure ((a, b, index), l, s))
      (fun e : Nat × Nat × Nat => be16 (pos e.1) ++ be16 (pos e.2.1 - pos e.1) ++ be16 e.2.2)
      (fun lf e => (labOf lf pos e.1, labOf lf pos e.2.1, e.2.2)) (fun _ => 2) (fun e => [pos e.1, pos e.2.1]) cl tbl
      (fun e he l r hwf hcl hcnt => readLocalVarEntry_ok pos n cl hp hmono e (hes e he) l r hwf hcl hcnt)
      l hwf hcl (by rw [hk]; exact hcnt) r
    have htag' : (tag = 0x40 || tag = 0x41) = true := by rcases htag with rfl | rfl <;> rfl
    refine ⟨.localVar tag v, l', ?_, hwf', hle', by rw [hk] at hc'; simpa [codeTargetRefs] using hc', hr', ?_⟩
    · simp only [readTargetCode, encCodeTarget, List.cons_append, List.append_assoc, u8_cons, ok_bind, htag', if_true,
        u16_be16 _ hlen, pure_eq]
      simp only [List.append_assoc, pure_eq] at h1
      rw [h1]; rfl
    · intro lf hlf
      simp only [targetRaw, hv' lf hlf]
  case exceptionParam i =>
    refine ⟨.exceptionParam i, l, ?_, hwf, Labels.Le.refl l, by simp, by simp [targetRefs], fun _ _ => rfl⟩
    simp [readTargetCode, encCodeTarget, u8, u16_be16 _ ht]
  case offset tag t =>
    obtain ⟨h1, h2, h3⟩ := ht
    have b1 : pos t < 65536 := by have := hp.lt _ h3; have := hp.small; omega
    obtain ⟨ia, l1, hg, hwf1, hle1, hg1, hc1⟩ := Labels.getOrCreate_spec hwf (pc := pos t) (by rw [hcl]; exact hp.lt _ h3)
      (by simp only [codeTargetRefs] at hcnt; omega)
    have n1 : ¬ (tag = 64 ∨ tag = 65) := by omega
    have n2 : ¬ tag = 66 := by omega
    refine ⟨.offset tag ia, l1, ?_, hwf1, hle1, by simpa [codeTargetRefs] using hc1, ?_, ?_⟩
    · simp [readTargetCode, encCodeTarget, u8, n1, n2, h1, h2, u16_be16 _ b1, hg]
    · intro pc hpc
      simp only [targetRefs, List.mem_singleton] at hpc
      subst hpc; rw [hg1]; rfl
    · intro lf hlf; simp only [targetRaw, labOf_of_le hlf hg1]
  case offsetArg tag t i =>
    obtain ⟨h1, h2, h3, h4⟩ := ht
    have b1 : pos t < 65536 := by have := hp.lt _ h3; have := hp.small; omega
    obtain ⟨ia, l1, hg, hwf1, hle1, hg1, hc1⟩ := Labels.getOrCreate_spec hwf (pc := pos t) (by rw [hcl]; exact hp.lt _ h3)
      (by simp only [codeTargetRefs] at hcnt; omega)
    have n1 : ¬ (tag = 64 ∨ tag = 65) := by omega
    have n2 : ¬ tag = 66 := by omega
    have n3 : ¬ (67 ≤ tag ∧ tag ≤ 70) := by omega
    refine ⟨.offsetArg tag ia i, l1, ?_, hwf1, hle1, by simpa [codeTargetRefs] using hc1, ?_, ?_⟩
    · simp [readTargetCode, encCodeTarget, u8, n1, n2, n3, h1, h2, u16_be16 _ b1, hg]
    · intro pc hpc
      simp only [targetRefs, List.mem_singleton] at hpc
      subst hpc; rw [hg1]; rfl
    · intro lf hlf; simp only [targetRaw, labOf_of_le hlf hg1]

theorem readTypeAnnosCode_ok (p : Pool) (pos : Nat → Nat) (n cl : Nat) (hp : PosOk pos n cl)
    (hmono : ∀ a b, a ≤ b → b ≤ n → pos a ≤ pos b) (as : List SCodeTypeAnno) (hn : as.length < 65536)
    (has : ∀ a ∈ as, a.Legal p n) (l : Labels) (r : Bytes) (hwf : l.WF) (hcl : l.codeLength = cl)
    (hcnt : l.count + (as.map (fun a => codeTargetRefs a.target)).sum < 65536) :
    StepOk l (readTypeAnnosCode p l (be16 as.length ++ as.flatMap (SCodeTypeAnno.encode pos) ++ r)) r
      (as.map (fun a => codeTargetRefs a.target)).sum (as.flatMap (fun a => targetRefs pos a.target))
      (fun lf => as.map (typeAnnoRaw lf pos)) := by
  have := readVecS_stepOk (fun l s => do
      let (t, l, s) ← readTargetCode l s
      let (path, s) ← readTypePath s
      let (a, s) ← readAnnotation p s
      pure ((⟨t, path, a⟩ : TypeAnno), l, s)) (SCodeTypeAnno.encode pos) (fun lf a => typeAnnoRaw lf pos a)
    (fun a => codeTargetRefs a.target) (fun a => targetRefs pos a.target) cl as
    (fun a ha l r hwf hcl hcnt => by
      obtain ⟨h1, h2, h3⟩ := has a ha
      obtain ⟨v, l', e1, hwf', hle', hc', hr', hv'⟩ := readTargetCode_ok pos n cl hp hmono a.target h1 l
        (encTypePath a.path ++ (a.anno.encode ++ r)) hwf hcl hcnt
      refine ⟨⟨v, a.path, a.anno.fact⟩, l', ?_, hwf', hle', hc', hr', ?_⟩
      · simp only [SCodeTypeAnno.encode, List.append_assoc, e1, ok_bind, readTypePath_enc a.path h2,
          readAnnotation_enc p a.anno h3, pure_eq]
      · intro lf hlf
        simp only [typeAnnoRaw, hv' lf hlf])
    l hwf hcl hcnt r
  simpa only [readTypeAnnosCode, List.append_assoc, u16_be16 _ hn, ok_bind] using this

end ClassRead
