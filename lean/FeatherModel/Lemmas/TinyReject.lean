import FeatherModel.Lemmas.TinyContent

/-! What `Tiny.write?` refuses (C03, after fix 4f3eba6): exactly the sets holding a namespace, a present name or a
descriptor with TAB / LF / CR or a lone surrogate. -/

namespace Tiny

/-- a string the function `cell` of `tiny_v2.rs` refuses -/
def BadCell (s : JStr) : Prop := 9 ∈ s ∨ 10 ∈ s ∨ 13 ∈ s ∨ ∃ c ∈ s, isSurrogate c = true

/-- a row with a present name that is refused -/
def BadNames (names : Names) : Prop := ∃ s, some s ∈ names ∧ BadCell s

theorem cellOk_false_iff (s : JStr) : cellOk s = false ↔ BadCell s := by
  simp only [cellOk, List.all_eq_false, Bool.and_eq_true, bne_iff_ne, ne_eq, Bool.not_eq_true', not_and, BadCell]
  constructor
  · rintro ⟨c, hc, h⟩
    by_cases h9 : c = 9
    · subst h9; exact Or.inl hc
    · by_cases h10 : c = 10
      · subst h10; exact Or.inr (Or.inl hc)
      · by_cases h13 : c = 13
        · subst h13; exact Or.inr (Or.inr (Or.inl hc))
        · refine Or.inr (Or.inr (Or.inr ⟨c, hc, ?_⟩))
          have := h ⟨⟨h9, h10⟩, h13⟩
          simpa using this
  · rintro (h | h | h | ⟨c, hc, h⟩)
    · exact ⟨9, h, fun h' => absurd rfl h'.1.1⟩
    · exact ⟨10, h, fun h' => absurd rfl h'.1.2⟩
    · exact ⟨13, h, fun h' => absurd rfl h'.2⟩
    · exact ⟨c, hc, fun _ => by simp [h]⟩

theorem namesWritable_false_iff (names : Names) : namesWritable names = false ↔ BadNames names := by
  simp only [namesWritable, List.all_eq_false, BadNames]
  constructor
  · rintro ⟨o, ho, h⟩
    cases o with
    | none => simp at h
    | some s => exact ⟨s, ho, (cellOk_false_iff s).mp (by simpa using h)⟩
  · rintro ⟨s, hs, h⟩
    exact ⟨some s, hs, by simp [(cellOk_false_iff s).mpr h]⟩

theorem write?_none_iff (m : Mappings) : write? m = none ↔ writeOk m = false := by
  unfold write?
  cases writeOk m <;> simp

theorem write?_of_writeOk {m : Mappings} (h : writeOk m = true) : write? m = some (write m) := by
  simp [write?, h]

/-- where the refused cell sits -/
theorem writeOk_false_iff (m : Mappings) : writeOk m = false ↔
    (∃ s ∈ m.ns, BadCell s) ∨
    ∃ e ∈ m.classes, BadNames e.2.names ∨
      (∃ f ∈ e.2.fields, BadCell f.2.desc ∨ BadNames f.2.names) ∨
      (∃ me ∈ e.2.methods, BadCell me.2.desc ∨ BadNames me.2.names ∨ ∃ p ∈ me.2.params, BadNames p.2.names) := by
  simp only [writeOk, Bool.and_eq_false_iff, List.all_eq_false, Bool.not_eq_true, cellOk_false_iff, namesWritable_false_iff]
  constructor
  · rintro (⟨s, hs, h⟩ | ⟨e, he, h⟩)
    · exact Or.inl ⟨s, hs, h⟩
    · refine Or.inr ⟨e, he, ?_⟩
      rcases h with (h | ⟨f, hf, h⟩) | ⟨me, hme, h⟩
      · exact Or.inl h
      · exact Or.inr (Or.inl ⟨f, hf, h⟩)
      · refine Or.inr (Or.inr ⟨me, hme, ?_⟩)
        rcases h with (h | h) | ⟨p, hp, h⟩
        · exact Or.inl h
        · exact Or.inr (Or.inl h)
        · exact Or.inr (Or.inr ⟨p, hp, h⟩)
  · rintro (⟨s, hs, h⟩ | ⟨e, he, h⟩)
    · exact Or.inl ⟨s, hs, h⟩
    · refine Or.inr ⟨e, he, ?_⟩
      rcases h with h | ⟨f, hf, h⟩ | ⟨me, hme, h⟩
      · exact Or.inl (Or.inl h)
      · exact Or.inl (Or.inr ⟨f, hf, h⟩)
      · refine Or.inr ⟨me, hme, ?_⟩
        rcases h with h | h | ⟨p, hp, h⟩
        · exact Or.inl (Or.inl h)
        · exact Or.inl (Or.inr h)
        · exact Or.inr ⟨p, hp, h⟩

end Tiny
