import FeatherModel.Lemmas.ClassReadFields

/-! C01 lemmas: `read_method` on an encoded method.  The reader delivers label ids inside `Code`; `MRel` relates its
output to the label-free description. -/

namespace ClassRead
open Outcome Spec

theorem attrLoopRel_enc {σ τ α : Type} (loop : Nat → σ → Bytes → Outcome (σ × Bytes)) (one : σ → Bytes → Outcome (σ × Bytes))
    (hloop0 : ∀ st s, loop 0 st s = ok (st, s))
    (hloopS : ∀ n st s, loop (n + 1) st s = (do let (st, s) ← one st s; loop n st s))
    (raw : α → Nat × Bytes) (step : τ → α → Option τ) (R : σ → τ → Prop) (as : List α)
    (hone : ∀ a ∈ as, ∀ sr st st' r, R sr st → step st a = some st' →
      ∃ sr', one sr (attrFrame (raw a).1 (raw a).2 ++ r) = ok (sr', r) ∧ R sr' st')
    (sr : σ) (st st' : τ) (hR : R sr st) (hst : applyAll step st as = some st') (r : Bytes) :
    ∃ sr', loop as.length sr ((as.map raw).flatMap (fun a => attrFrame a.1 a.2) ++ r) = ok (sr', r) ∧ R sr' st' := by
  induction as generalizing sr st with
  | nil => simp only [applyAll, Option.some.injEq] at hst; subst hst; exact ⟨sr, by simp [hloop0], hR⟩
  | cons a as ih =>
    simp only [applyAll] at hst
    cases hs : step st a with
    | none => simp [hs] at hst
    | some st1 =>
      simp only [hs] at hst
      obtain ⟨sr1, h1, hR1⟩ := hone a (by simp) sr st st1 ((as.map raw).flatMap (fun a => attrFrame a.1 a.2) ++ r) hR hs
      obtain ⟨sr2, h2, hR2⟩ := ih (fun b hb => hone b (by simp [hb])) sr1 st1 hR1 hst
      refine ⟨sr2, ?_, hR2⟩
      simp only [List.length_cons, hloopS, List.map_cons, List.flatMap_cons, List.append_assoc, h1, ok_bind, h2]

/-- the reader's method description `mr` is the label-free description `mf` up to label resolution inside `Code` -/
def MRel (mr mf : MethodFacts) : Prop :=
  mr = { mf with code := mr.code } ∧
    ((mr.code = none ∧ mf.code = none) ∨ ∃ cr cf, mr.code = some cr ∧ mf.code = some cf ∧ cr.resolve = some cf)

theorem MRel.resolve {mr mf : MethodFacts} (h : MRel mr mf) : mr.resolve = some mf := by
  obtain ⟨h1, h2⟩ := h
  rcases h2 with ⟨a, b⟩ | ⟨cr, cf, a, b, c⟩
  · have e : mr = mf := by
      rw [h1, a]; cases mf; simp only [] at b; subst b; rfl
    unfold MethodFacts.resolve; rw [a]; simp only [e]
  · have e : ({ mr with code := some cf } : MethodFacts) = mf := by
      rw [h1]; cases mf; simp only [] at b; subst b; rfl
    unfold MethodFacts.resolve; rw [a]
    simp only [c, Option.bind_eq_bind, Option.bind_some, Option.pure_def, e]

theorem readExceptions_enc (p : Pool) (cps : List Nat) (names : List JStr) (hn : cps.length < 65536) (hlen : cps.length = names.length)
    (hall : ∀ x ∈ cps.zip names, x.1 < 65536 ∧ p.getClass x.1 = .ok x.2) (r : Bytes) :
    readVec16 (readClassRef p) (be16 cps.length ++ (cps.flatMap be16 ++ r)) = ok (names, r) := by
  have := readClassRefs_enc p cps names ⟨hn, hlen, hall⟩ r
  simpa [List.append_assoc] using this

theorem readMethodAttr_enc (p : Pool) (bsms : Option (List Bsm)) (a : SMethodAttr) (ha : a.Legal p bsms)
    (mr m m' : MethodFacts) (r : Bytes) (hR : MRel mr m) (h : a.apply m = some m') :
    ∃ mr', readMethodAttr p bsms mr (attrFrame a.raw.1 a.raw.2 ++ r) = ok (mr', r) ∧ MRel mr' m' := by
  obtain ⟨hr1, hr2⟩ := hR
  cases a with
  | deprecated nc =>
    obtain ⟨h1, h2⟩ := ha
    simp only [SMethodAttr.apply, Option.some.injEq] at h; subst h
    refine ⟨{ mr with deprecated := true }, by
      simp [readMethodAttr, SMethodAttr.raw, attrFrame, u16_be16 _ h1, h2, u32_be32 0 (by decide)], ?_, ?_⟩
    · rw [hr1]
    · simpa using hr2
  | synthetic nc =>
    obtain ⟨h1, h2⟩ := ha
    simp only [SMethodAttr.apply, Option.some.injEq] at h; subst h
    refine ⟨{ mr with synthetic := true }, by
      simp [readMethodAttr, SMethodAttr.raw, attrFrame, u16_be16 _ h1, h2, u32_be32 0 (by decide), methodNe_Synthetic], ?_, ?_⟩
    · rw [hr1]
    · simpa using hr2
  | code nc c =>
    obtain ⟨h1, h2, h3, h4⟩ := ha
    obtain ⟨n1, n2⟩ := methodNe_Code
    simp only [SMethodAttr.apply] at h
    cases hc : m.code with
    | some _ => simp [hc] at h
    | none =>
      simp only [hc, Option.isNone_none, if_true, Option.some.injEq] at h; subst h
      have hmr : mr.code = none := by
        rcases hr2 with ⟨a, _⟩ | ⟨cr, cf, _, b, _⟩
        · exact a
        · rw [hc] at b; simp at b
      obtain ⟨raw, hread, hres⟩ := readCode_resolve p bsms c h3 r
      refine ⟨{ mr with code := some raw }, by
        simp [readMethodAttr, SMethodAttr.raw, attrFrame, u16_be16 _ h1, h2, u32_be32 _ h4, n1, n2, hread, hmr, insertIfEmpty_none],
        ?_, Or.inr ⟨raw, c.facts, rfl, rfl, hres⟩⟩
      rw [hr1]
  | exceptions nc cps names =>
    obtain ⟨h1, h2, h3, h4, h5⟩ := ha
    obtain ⟨n1, n2, n3⟩ := methodNe_Exceptions
    simp only [SMethodAttr.apply] at h
    cases hc : m.exceptions with
    | some _ => simp [hc] at h
    | none =>
      simp only [hc, Option.isNone_none, if_true, Option.some.injEq] at h; subst h
      have hme : mr.exceptions = none := by rw [hr1]; exact hc
      have hbody : (be16 cps.length ++ cps.flatMap be16).length < 4294967296 := by
        have := length_flatMap_const be16 2 cps (fun _ _ => rfl)
        simp [be16_length, this]; omega
      refine ⟨{ mr with exceptions := some names }, by
        simp only [readMethodAttr, SMethodAttr.raw, attrFrame, List.append_assoc, u16_be16 _ h1, ok_bind, h2, u32_be32 _ hbody,
          n1, n2, n3, if_false, if_true, readExceptions_enc p cps names h3 h4 h5 r, hme, insertIfEmpty_none, pure_eq], ?_, ?_⟩
      · rw [hr1]
      · simpa using hr2
  | signature nc cp sig =>
    obtain ⟨h1, h2, h3, h4⟩ := ha
    obtain ⟨n1, n2, n3, n4⟩ := methodNe_Signature
    simp only [SMethodAttr.apply] at h
    cases hc : m.signature with
    | some _ => simp [hc] at h
    | none =>
      simp only [hc, Option.isNone_none, if_true, Option.some.injEq] at h; subst h
      have hme : mr.signature = none := by rw [hr1]; exact hc
      refine ⟨{ mr with signature := some sig }, by
        simp [readMethodAttr, SMethodAttr.raw, attrFrame, u16_be16 _ h1, h2, be16_length, u32_be32 2 (by decide), n1, n2, n3, n4,
          readUtf8Ref, u16_be16 _ h3, h4, hme, insertIfEmpty_none], ?_, ?_⟩
      · rw [hr1]
      · simpa using hr2
  | annotations nc visible as =>
    obtain ⟨h1, h2, h3, h4, h5⟩ := ha
    have hread := readAnnotations_enc p as h3 h4 r
    cases visible with
    | true =>
      obtain ⟨n1, n2, n3, n4, n5⟩ := methodNe_RVA
      simp only [SMethodAttr.apply, if_true, Option.some.injEq] at h; subst h
      simp only [if_true] at h2
      refine ⟨{ mr with rva := mr.rva ++ as.map SAnno.fact }, by
        simp only [readMethodAttr, SMethodAttr.raw, attrFrame, List.append_assoc, u16_be16 _ h1, ok_bind, h2, u32_be32 _ h5,
          n1, n2, n3, n4, n5, if_false, if_true, hread, pure_eq], ?_, ?_⟩
      · rw [hr1]
      · simpa using hr2
    | false =>
      obtain ⟨n1, n2, n3, n4, n5, n6⟩ := methodNe_RIA
      simp only [SMethodAttr.apply, Bool.false_eq_true, if_false, Option.some.injEq] at h; subst h
      simp only [Bool.false_eq_true, if_false] at h2
      refine ⟨{ mr with ria := mr.ria ++ as.map SAnno.fact }, by
        simp only [readMethodAttr, SMethodAttr.raw, attrFrame, List.append_assoc, u16_be16 _ h1, ok_bind, h2, u32_be32 _ h5,
          n1, n2, n3, n4, n5, n6, if_false, if_true, hread, pure_eq], ?_, ?_⟩
      · rw [hr1]
      · simpa using hr2
  | typeAnnotations nc visible as =>
    obtain ⟨h1, h2, h3, h4, h5⟩ := ha
    have hread : readTypeAnnos p readTargetMethod (encTypeAnnos as ++ r) = ok (as.map STypeAnno.fact, r) :=
      readTypeAnnos_enc p .method as h3 h4 r
    cases visible with
    | true =>
      obtain ⟨n1, n2, n3, n4, n5, n6, n7⟩ := methodNe_RVTA
      simp only [SMethodAttr.apply, if_true, Option.some.injEq] at h; subst h
      simp only [if_true] at h2
      refine ⟨{ mr with rvta := mr.rvta ++ as.map STypeAnno.fact }, by
        simp only [readMethodAttr, SMethodAttr.raw, attrFrame, List.append_assoc, u16_be16 _ h1, ok_bind, h2, u32_be32 _ h5,
          n1, n2, n3, n4, n5, n6, n7, if_false, if_true, hread, pure_eq], ?_, ?_⟩
      · rw [hr1]
      · simpa using hr2
    | false =>
      obtain ⟨n1, n2, n3, n4, n5, n6, n7, n8⟩ := methodNe_RITA
      simp only [SMethodAttr.apply, Bool.false_eq_true, if_false, Option.some.injEq] at h; subst h
      simp only [Bool.false_eq_true, if_false] at h2
      refine ⟨{ mr with rita := mr.rita ++ as.map STypeAnno.fact }, by
        simp only [readMethodAttr, SMethodAttr.raw, attrFrame, List.append_assoc, u16_be16 _ h1, ok_bind, h2, u32_be32 _ h5,
          n1, n2, n3, n4, n5, n6, n7, n8, if_false, if_true, hread, pure_eq], ?_, ?_⟩
      · rw [hr1]
      · simpa using hr2
  | annotationDefault nc e =>
    obtain ⟨h1, h2, h3, h4⟩ := ha
    obtain ⟨n1, n2, n3, n4, n5, n6, n7, n8, n9, n10, n11⟩ := methodNe_AnnotationDefault
    simp only [SMethodAttr.apply, Option.some.injEq] at h; subst h
    refine ⟨{ mr with annotationDefault := some e.fact }, by
      simp only [readMethodAttr, SMethodAttr.raw, attrFrame, List.append_assoc, u16_be16 _ h1, ok_bind, h2, u32_be32 _ h4,
        n1, n2, n3, n4, n5, n6, n7, n8, n9, n10, n11, if_false, if_true, decide_false, Bool.or_self, Bool.false_eq_true,
        readAnnotationDefault_enc p e h3 r, pure_eq], ?_, ?_⟩
    · rw [hr1]
    · simpa using hr2
  | methodParameters nc ps =>
    obtain ⟨h1, h2, h3, h4⟩ := ha
    obtain ⟨n1, n2, n3, n4, n5, n6, n7, n8, n9, n10, n11, n12⟩ := methodNe_MethodParameters
    simp only [SMethodAttr.apply] at h
    cases hc : m.params with
    | some _ => simp [hc] at h
    | none =>
      simp only [hc, Option.isNone_none, if_true, Option.some.injEq] at h; subst h
      have hme : mr.params = none := by rw [hr1]; exact hc
      have hbody : (be8 ps.length ++ ps.flatMap (fun q => be16 q.1 ++ be16 q.2.2)).length < 4294967296 := by
        have := length_flatMap_const (fun q : Nat × Option JStr × Nat => be16 q.1 ++ be16 q.2.2) 4 ps (fun _ _ => by simp [be16_length])
        simp [be8, this]; omega
      have hvec := readVec_flatMap (readMethodParam p) (fun q : Nat × Option JStr × Nat => be16 q.1 ++ be16 q.2.2)
        (fun q => (⟨q.2.1, q.2.2 &&& maskParam⟩ : MethodParam)) ps
        (fun q hq r => by
          obtain ⟨k1, k2, k3⟩ := h4 q hq
          simp [readMethodParam, List.append_assoc, u16_be16 _ k1, u16_be16 _ k2, k3]) r
      have hcnt : u8 (be8 ps.length ++ (ps.flatMap (fun q => be16 q.1 ++ be16 q.2.2) ++ r)) =
          ok (ps.length, ps.flatMap (fun q => be16 q.1 ++ be16 q.2.2) ++ r) := u8_be8 _ (by omega) _
      refine ⟨{ mr with params := some (ps.map fun q => ⟨q.2.1, q.2.2 &&& maskParam⟩) }, by
        simp only [readMethodAttr, SMethodAttr.raw, attrFrame, List.append_assoc, u16_be16 _ h1, ok_bind, h2, u32_be32 _ hbody,
          n1, n2, n3, n4, n5, n6, n7, n8, n9, n10, n11, n12, if_false, if_true, decide_false, Bool.or_self, Bool.false_eq_true,
          hcnt, hvec, hme, insertIfEmpty_none, pure_eq], ?_, ?_⟩
      · rw [hr1]
      · simpa using hr2
  | unknown nc name b =>
    obtain ⟨h1, h2, hnot, hlen⟩ := ha
    simp only [methodAttrNames, List.mem_cons, List.not_mem_nil, or_false, not_or] at hnot
    obtain ⟨n1, n2, n3, n4, n5, n6, n7, n8, n9, n10, n11, n12, n13⟩ := hnot
    simp only [SMethodAttr.apply, Option.some.injEq] at h; subst h
    refine ⟨{ mr with attrs := mr.attrs ++ [⟨name, b⟩] }, by
      simp only [readMethodAttr, SMethodAttr.raw, attrFrame, List.append_assoc, u16_be16 _ h1, ok_bind, h2, u32_be32 _ hlen,
        n1, n2, n3, n4, n5, n6, n7, n8, n9, n10, n11, n12, n13, if_false, Bool.or_self, decide_false, Bool.false_eq_true,
        readUnknown, takeN_append, pure_eq], ?_, ?_⟩
    · rw [hr1]
    · simpa using hr2

end ClassRead
