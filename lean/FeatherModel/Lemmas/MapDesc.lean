import FeatherModel.Model.MapDesc

/-!
# Lemmas about `MapDesc.mapDesc` on raw strings (used by C06)

A string the scanner accepts is a sequence of *tokens*: single characters other than `L`, and `L name ;` groups with a
non-empty `name` free of `;`. `render` flattens tokens; the scanner maps exactly the names (`mapDesc_render`), accepts
exactly the renderings (`mapDesc_isSome_iff`) and rejects exactly the strings in which an `L` met in copy mode is followed
by `;` or has no `;` after it (`mapDesc_none_iff`).
-/

namespace MapDesc

inductive Tok where
  | ch (c : Nat)
  | cls (name : List Nat)
  deriving Repr, DecidableEq

def Tok.WF : Tok → Prop
  | .ch c => c ≠ CH_L
  | .cls n => n ≠ [] ∧ SEMI ∉ n

def Tok.map (f : JStr → JStr) : Tok → Tok
  | .ch c => .ch c
  | .cls n => .cls (f n)

def Tok.render : Tok → List Nat
  | .ch c => [c]
  | .cls n => CH_L :: n ++ [SEMI]

def render : List Tok → List Nat
  | [] => []
  | t :: ts => t.render ++ render ts

theorem render_append (a b : List Tok) : render (a ++ b) = render a ++ render b := by
  induction a with
  | nil => rfl
  | cons t ts ih => simp [render, ih]

/-- split at the first `;` -/
def splitSemi : List Nat → Option (List Nat × List Nat)
  | [] => none
  | c :: rest =>
    if c = SEMI then some ([], rest)
    else
      match splitSemi rest with
      | some (a, b) => some (c :: a, b)
      | none => none

theorem splitSemi_some {s a b : List Nat} (h : splitSemi s = some (a, b)) : s = a ++ SEMI :: b ∧ SEMI ∉ a := by
  induction s generalizing a b with
  | nil => simp [splitSemi] at h
  | cons c rest ih =>
    simp only [splitSemi] at h
    split at h
    · rename_i hc
      simp only [Option.some.injEq, Prod.mk.injEq] at h
      obtain ⟨rfl, rfl⟩ := h
      simp [hc]
    · rename_i hc
      split at h
      · rename_i a' b' hr
        simp only [Option.some.injEq, Prod.mk.injEq] at h
        obtain ⟨rfl, rfl⟩ := h
        obtain ⟨h1, h2⟩ := ih hr
        refine ⟨by rw [h1]; rfl, ?_⟩
        simp only [List.mem_cons, not_or]
        exact ⟨fun e => hc e.symm, h2⟩
      · simp at h

theorem splitSemi_none {s : List Nat} : splitSemi s = none ↔ SEMI ∉ s := by
  induction s with
  | nil => simp [splitSemi]
  | cons c rest ih =>
    simp only [splitSemi]
    split
    · rename_i hc; simp [hc]
    · rename_i hc
      simp only [List.mem_cons, not_or]
      cases hr : splitSemi rest with
      | none => simp only [true_iff]; exact ⟨fun e => hc e.symm, ih.mp hr⟩
      | some p =>
        obtain ⟨a, b⟩ := p
        simp only [reduceCtorEq, false_iff, not_and, Decidable.not_not]
        intro _
        have := (splitSemi_some hr).1
        rw [this]; simp

theorem splitSemi_append {a b : List Nat} (h : SEMI ∉ a) : splitSemi (a ++ SEMI :: b) = some (a, b) := by
  induction a with
  | nil => simp [splitSemi]
  | cons c rest ih =>
    simp only [List.mem_cons, not_or] at h
    have hc : ¬ c = SEMI := fun e => h.1 e.symm
    simp only [List.cons_append, splitSemi, hc, if_false, ih h.2]

/-- the scanner inside a name: run to the first `;` -/
theorem go_name (f : JStr → JStr) (s acc out : List Nat) :
    go f s (.name acc) out =
      match splitSemi s with
      | none => none
      | some (nm, rest) => go f rest .copy (SEMI :: (f (acc.reverse ++ nm)).reverse ++ out) := by
  induction s generalizing acc with
  | nil => simp [go, splitSemi]
  | cons c rest ih =>
    simp only [go, splitSemi]
    split
    · simp
    · rw [ih]
      cases splitSemi rest with
      | none => rfl
      | some p => obtain ⟨a, b⟩ := p; simp

/-- the scanner on one token -/
theorem go_tok (f : JStr → JStr) (t : Tok) (ht : t.WF) (rest out : List Nat) :
    go f (t.render ++ rest) .copy out = go f rest .copy ((t.map f).render.reverse ++ out) := by
  cases t with
  | ch c =>
    have hc : ¬ c = CH_L := ht
    simp [Tok.render, Tok.map, go, hc]
  | cls n =>
    obtain ⟨hne, hsemi⟩ := ht
    cases n with
    | nil => exact absurd rfl hne
    | cons c n' =>
      simp only [List.mem_cons, not_or] at hsemi
      have hc : ¬ c = SEMI := fun e => hsemi.1 e.symm
      simp only [Tok.render, Tok.map, List.cons_append, go, if_true, hc, if_false, List.append_assoc]
      rw [go_name]
      have : splitSemi (n' ++ SEMI :: ([] ++ rest)) = some (n', rest) := by
        simpa using splitSemi_append (b := rest) hsemi.2
      rw [this]
      simp

theorem go_render (f : JStr → JStr) (ts : List Tok) (hts : ∀ t ∈ ts, t.WF) (rest out : List Nat) :
    go f (render ts ++ rest) .copy out = go f rest .copy ((render (ts.map (Tok.map f))).reverse ++ out) := by
  induction ts generalizing out with
  | nil => simp [render]
  | cons t ts ih =>
    simp only [render, List.append_assoc, List.map_cons]
    rw [go_tok f t (hts t List.mem_cons_self)]
    rw [ih (fun t ht => hts t (List.mem_cons_of_mem _ ht))]
    simp [List.reverse_append, List.append_assoc]

/-- exactly the names of the `L…;` groups are rewritten, everything else is copied -/
theorem mapDesc_render (f : JStr → JStr) (ts : List Tok) (hts : ∀ t ∈ ts, t.WF) :
    mapDesc f (render ts) = some (render (ts.map (Tok.map f))) := by
  have := go_render f ts hts [] []
  simp only [List.append_nil] at this
  unfold mapDesc
  rw [this]
  simp [go]

/-- what an accepting run looks like -/
theorem go_some_tokens (f : JStr → JStr) :
    ∀ (n : Nat) (s : List Nat), s.length ≤ n → ∀ out r, go f s .copy out = some r →
      ∃ ts, (∀ t ∈ ts, t.WF) ∧ s = render ts := by
  intro n
  induction n with
  | zero =>
    intro s hs out r _
    have : s = [] := List.eq_nil_of_length_eq_zero (by omega)
    exact ⟨[], by simp, by simp [this, render]⟩
  | succ n ih =>
    intro s hs out r h
    cases s with
    | nil => exact ⟨[], by simp, by simp [render]⟩
    | cons c rest =>
      simp only [List.length_cons] at hs
      simp only [go] at h
      by_cases hc : c = CH_L
      · simp only [hc, if_true] at h
        cases rest with
        | nil => simp [go] at h
        | cons c2 rest2 =>
          simp only [go] at h
          by_cases hc2 : c2 = SEMI
          · simp [hc2] at h
          · simp only [hc2, if_false] at h
            rw [go_name] at h
            cases hsp : splitSemi rest2 with
            | none => rw [hsp] at h; simp at h
            | some p =>
              obtain ⟨nm, rest3⟩ := p
              rw [hsp] at h
              simp only at h
              obtain ⟨h1, h2⟩ := splitSemi_some hsp
              have hl : rest3.length ≤ n := by
                have : rest2.length = nm.length + (rest3.length + 1) := by rw [h1]; simp
                simp only [List.length_cons] at hs
                omega
              obtain ⟨ts, hwf, hts⟩ := ih rest3 hl _ _ h
              refine ⟨Tok.cls (c2 :: nm) :: ts, ?_, ?_⟩
              · intro t ht
                rcases List.mem_cons.mp ht with rfl | ht
                · refine ⟨by simp, ?_⟩
                  simp only [List.mem_cons, not_or]
                  exact ⟨fun e => hc2 e.symm, h2⟩
                · exact hwf t ht
              · simp [render, Tok.render, hc, h1, hts]
      · simp only [hc, if_false] at h
        obtain ⟨ts, hwf, hts⟩ := ih rest (by omega) _ _ h
        refine ⟨Tok.ch c :: ts, ?_, ?_⟩
        · intro t ht
          rcases List.mem_cons.mp ht with rfl | ht
          · exact hc
          · exact hwf t ht
        · simp [render, Tok.render, hts]

/-- the scanner accepts exactly the renderings of well-formed token lists -/
theorem mapDesc_isSome_iff (f : JStr → JStr) (s : List Nat) :
    (mapDesc f s).isSome ↔ ∃ ts, (∀ t ∈ ts, t.WF) ∧ s = render ts := by
  constructor
  · intro h
    cases hr : mapDesc f s with
    | none => rw [hr] at h; simp at h
    | some r => exact go_some_tokens f s.length s (Nat.le_refl _) [] r hr
  · rintro ⟨ts, hwf, rfl⟩
    rw [mapDesc_render f ts hwf]; rfl

/-- what a rejecting run looks like -/
theorem go_none_shape (f : JStr → JStr) :
    ∀ (n : Nat) (s : List Nat), s.length ≤ n → ∀ out, go f s .copy out = none →
      ∃ ts rest, (∀ t ∈ ts, t.WF) ∧ s = render ts ++ CH_L :: rest ∧ (rest.head? = some SEMI ∨ SEMI ∉ rest) := by
  intro n
  induction n with
  | zero =>
    intro s hs out h
    have : s = [] := List.eq_nil_of_length_eq_zero (by omega)
    subst this
    simp [go] at h
  | succ n ih =>
    intro s hs out h
    cases s with
    | nil => simp [go] at h
    | cons c rest =>
      simp only [List.length_cons] at hs
      simp only [go] at h
      by_cases hc : c = CH_L
      · simp only [hc, if_true] at h
        cases rest with
        | nil => exact ⟨[], [], by simp, by simp [render, hc], Or.inr (by simp)⟩
        | cons c2 rest2 =>
          simp only [go] at h
          by_cases hc2 : c2 = SEMI
          · exact ⟨[], c2 :: rest2, by simp, by simp [render, hc], Or.inl (by simp [hc2])⟩
          · simp only [hc2, if_false] at h
            rw [go_name] at h
            cases hsp : splitSemi rest2 with
            | none =>
              refine ⟨[], c2 :: rest2, by simp, by simp [render, hc], Or.inr ?_⟩
              simp only [List.mem_cons, not_or]
              exact ⟨fun e => hc2 e.symm, splitSemi_none.mp hsp⟩
            | some p =>
              obtain ⟨nm, rest3⟩ := p
              rw [hsp] at h
              simp only at h
              obtain ⟨h1, h2⟩ := splitSemi_some hsp
              have hl : rest3.length ≤ n := by
                have : rest2.length = nm.length + (rest3.length + 1) := by rw [h1]; simp
                simp only [List.length_cons] at hs
                omega
              obtain ⟨ts, rest', hwf, hts, hbad⟩ := ih rest3 hl _ h
              refine ⟨Tok.cls (c2 :: nm) :: ts, rest', ?_, ?_, hbad⟩
              · intro t ht
                rcases List.mem_cons.mp ht with rfl | ht
                · refine ⟨by simp, ?_⟩
                  simp only [List.mem_cons, not_or]
                  exact ⟨fun e => hc2 e.symm, h2⟩
                · exact hwf t ht
              · simp [render, Tok.render, hc, h1, hts]
      · simp only [hc, if_false] at h
        obtain ⟨ts, rest', hwf, hts, hbad⟩ := ih rest (by omega) _ h
        refine ⟨Tok.ch c :: ts, rest', ?_, ?_, hbad⟩
        · intro t ht
          rcases List.mem_cons.mp ht with rfl | ht
          · exact hc
          · exact hwf t ht
        · simp [render, Tok.render, hts]

/-- the scanner fails on an `L` that is followed by `;` or by no `;` at all -/
theorem go_bad (f : JStr → JStr) (rest out : List Nat) (h : rest.head? = some SEMI ∨ SEMI ∉ rest) :
    go f (CH_L :: rest) .copy out = none := by
  simp only [go, if_true]
  cases rest with
  | nil => simp [go]
  | cons c2 rest2 =>
    simp only [go]
    by_cases hc2 : c2 = SEMI
    · simp [hc2]
    · simp only [hc2, if_false]
      rw [go_name]
      rcases h with h | h
      · simp at h; exact absurd h hc2
      · simp only [List.mem_cons, not_or] at h
        rw [splitSemi_none.mpr h.2]

theorem mapDesc_none_iff (f : JStr → JStr) (s : List Nat) :
    mapDesc f s = none ↔
      ∃ ts rest, (∀ t ∈ ts, t.WF) ∧ s = render ts ++ CH_L :: rest ∧ (rest.head? = some SEMI ∨ SEMI ∉ rest) := by
  constructor
  · intro h
    exact go_none_shape f s.length s (Nat.le_refl _) [] h
  · rintro ⟨ts, rest, hwf, rfl, hbad⟩
    unfold mapDesc
    rw [go_render f ts hwf]
    exact go_bad f rest _ hbad

/-- whether a string is rejected does not depend on the renaming -/
theorem mapDesc_isNone_indep (f g : JStr → JStr) (s : List Nat) :
    (mapDesc f s).isNone = (mapDesc g s).isNone := by
  cases hf : mapDesc f s with
  | none =>
    have := (mapDesc_none_iff g s).mpr ((mapDesc_none_iff f s).mp hf)
    simp [this]
  | some r =>
    have h1 : (mapDesc f s).isSome := by simp [hf]
    have h2 := (mapDesc_isSome_iff g s).mpr ((mapDesc_isSome_iff f s).mp h1)
    cases hg : mapDesc g s with
    | none => simp [hg] at h2
    | some r' => simp

end MapDesc
