import FeatherModel.Spec.Opcodes
import FeatherModel.Gen.Constants
import FeatherModel.Gen.ReaderArms
import FeatherModel.Model.ClassRead

/-!
# Vocabulary of the translator tie (C01, reader side)

Definitions used in the *statements* of the theorems of `Thm/C01.lean`, section "generated tables": how the generated
tables (`Gen/Constants.lean`, `Gen/ReaderArms.lean`, written by `translate/constants_to_lean.py` and
`translate/insn_arms_to_lean.py` from the Rust source) are read, and which JVMS instruction a value of the hand-written
model's instruction type stands for. Short on purpose: this file is part of what the theorems mean.
-/

namespace Arms

open JvmsTables ClassRead

/-! ## the generated reader tables, as functions of the opcode -/

/-- name of the `Instruction` constructor with declaration index `c` -/
def ctorName (c : Nat) : JStr := (Gen.ReaderArms.ctorNames[c]?).getD []

/-- the arm of the first loop of `read_code` an opcode byte takes (class codes: see `Gen/ReaderArms.lean`; 21 = bails) -/
def p1Class (op : Nat) : Nat := Gen.ReaderArms.p1Dense.getD op 21

/-- the arm of the `wide` sub-match of the first loop: bytes skipped after the modified opcode, `none` = bails -/
def p1WideSkip? (w : Nat) : Option Nat :=
  let n := Gen.ReaderArms.p1WideDense.getD w 21
  if n < 16 then some n else none

/-- the same classes for the hand-written model's `P1Kind` -/
def p1Code : P1Kind → Nat
  | .skip n => n
  | .branch16 => 16
  | .branch32 => 17
  | .tableswitch => 18
  | .lookupswitch => 19
  | .wide => 20
  | .invalid => 21

/-- bytes consumed by the reader primitives 1..9 of `Gen/ReaderArms.lean` -/
def readWidth : Nat → Nat
  | 1 => 1 | 2 => 1 | 3 => 2 | 4 => 2 | 5 => 4 | 6 => 1 | 7 => 2 | 8 => 2 | 9 => 4
  | _ => 0

/-- what the second loop of the Rust reader does with an opcode -/
inductive RArm where
  /-- `opcode::X => Instruction::Y(args)`: constructor, reader primitives in order, resolver -/
  | straight (ctor : Nat) (reads : List Nat) (resolver : Nat)
  /-- a `*load_<n>` / `*store_<n>` opcode: constructor and the index computed from the opcode -/
  | localN (ctor : Nat) (index : Nat)
  /-- `tableswitch` (kind 0) / `lookupswitch` (kind 1) -/
  | switch (ctor : Nat) (kind : Nat)
  | wide
  /-- explicit `bail!` arm or no arm at all (catch-all `bail!`) -/
  | bail
  deriving DecidableEq, Repr

/-- the arithmetic of a range arm: `shifted = opcode - base; index = shifted & mask; opcode' = base2 + (shifted >> shift)`,
then the inner match on `opcode'` -/
def expandLocalN (f : Gen.ReaderArms.LocalN) (op : Nat) : Option (Nat × Nat) :=
  if f.lo ≤ op ∧ op ≤ f.hi then
    ((f.inner.lookup (f.base2 + ((op - f.base) >>> f.shift))).map fun c => (c, (op - f.base) &&& f.mask))
  else none

/-- an entry of `Gen.ReaderArms.p2Dense` / `p2WideDense`, read for opcode byte `op` -/
def rArmOf (e : Nat × Nat × List Nat × Nat) (op : Nat) : RArm :=
  match e with
  | (0, c, rs, rv) => .straight c rs rv
  | (1, f, _, _) =>
    match (Gen.ReaderArms.localN[f]?).bind (expandLocalN · op) with
    | some (c, i) => .localN c i
    | none => .bail
  | (2, c, _, k) => .switch c k
  | (3, _, _, _) => .wide
  | _ => .bail

/-- the arm of the second loop of `read_code` an opcode byte takes -/
def rArm (op : Nat) : RArm := rArmOf (Gen.ReaderArms.p2Dense.getD op (5, 0, [], 0)) op

/-- the arm of the `wide` sub-match of the second loop -/
def rWideArm (w : Nat) : RArm := rArmOf (Gen.ReaderArms.p2WideDense.getD w (5, 0, [], 0)) w

/-- the constructor an arm builds -/
def RArm.ctor? : RArm → Option Nat
  | .straight c _ _ => some c
  | .localN c _ => some c
  | .switch c _ => some c
  | _ => none

/-- `opcode::X => Instruction::Y` for a constructor without fields: nothing read, nothing resolved -/
def RArm.isUnit : RArm → Bool
  | .straight _ [] 0 => true
  | _ => false

/-- the index a `*load_<n>` / `*store_<n>` arm computes from the opcode -/
def RArm.implicitIndex? : RArm → Option Nat
  | .localN _ j => some j
  | _ => none

/-- operand bytes after the opcode, where the arm fixes them -/
def RArm.operandBytes? : RArm → Option Nat
  | .straight _ rs _ => some (rs.map readWidth).sum
  | .localN _ _ => some 0
  | _ => none

/-! ## what the JVMS demands of an arm -/

/-- operand bytes after the opcode according to the JVMS, where fixed -/
def jvmsOperandBytes : Option Operands → Option Nat
  | some (.bytes n) => some n
  | some .branch16 => some 2
  | some .branch32 => some 4
  | _ => none

/-- the class the first loop of `read_code` has to put an opcode in, according to the JVMS -/
def jvmsP1Class : Option Operands → Nat
  | some (.bytes n) => n
  | some .branch16 => 16
  | some .branch32 => 17
  | some .tableswitch => 18
  | some .lookupswitch => 19
  | some .wide => 20
  | none => 21

/-- how an arm of the second loop treats its operand: 16 / 17 = a branch target (`read_i16/i32_as_branch_target_label`
resolved by `labels.try_get`), 18 / 19 = the switches, 20 = wide, 21 = bail, 0 = plain operands -/
def RArm.operandClass : RArm → Nat
  | .straight _ [8] 9 => 16
  | .straight _ [9] 9 => 17
  | .straight _ rs rv => if rs.contains 8 || rs.contains 9 || rv == 9 then 99 else 0
  | .localN _ _ => 0
  | .switch _ 0 => 18
  | .switch _ 1 => 19
  | .switch _ _ => 99
  | .wide => 20
  | .bail => 21

def jvmsOperandClass : Option Operands → Nat
  | some (.bytes _) => 0
  | o => jvmsP1Class o

/-! ## the small tag dispatches -/

/-- `get_integer_as_byte` ↦ `integer`: the pool entry kind a getter of `PoolRead` accepts (the word after `get_`) -/
def getterKind (g : JStr) : JStr := ((g.drop 4).takeWhile (· != 95))

/-- the arm of `read_stack_map_frame` a tag byte takes: (variant, `some k` if `offset_delta = frame_type - k`);
`none` = bails -/
def frameArm? (t : Nat) : Option (JStr × Option Nat) :=
  (Gen.ReaderArms.frameArms.find? fun a => a.1 ≤ t && t ≤ a.2.1).bind fun a =>
    if a.2.2.1 = jstr "bail" then none else some (a.2.2.1, if a.2.2.2.1 = 0 then some a.2.2.2.2 else none)

/-! ## which instruction a value of the model's `Insn` stands for -/

/-- JVMS mnemonic of the *general form* of the instruction (`iload` for `iload_2` and `wide iload`, `ldc` for `ldc_w` /
`ldc2_w`, `goto` for `goto_w`). `simple`, `branch`, `field` carry their opcode; `load` / `store` carry the kind
0..4 = i l f d a, i.e. the offset from `iload` / `istore`. -/
def insnMnemonic : Insn → JStr
  | .simple op => (mnemonic? op).getD []
  | .bipush _ => jstr "bipush"
  | .sipush _ => jstr "sipush"
  | .ldc _ => jstr "ldc"
  | .load k _ => (mnemonic? (0x15 + k)).getD []
  | .store k _ => (mnemonic? (0x36 + k)).getD []
  | .iinc _ _ => jstr "iinc"
  | .branch op _ => (mnemonic? op).getD []
  | .goto _ => jstr "goto"
  | .jsr _ => jstr "jsr"
  | .ret _ => jstr "ret"
  | .tableswitch _ _ _ _ => jstr "tableswitch"
  | .lookupswitch _ _ => jstr "lookupswitch"
  | .field op _ => (mnemonic? op).getD []
  | .invokevirtual _ => jstr "invokevirtual"
  | .invokespecial _ _ => jstr "invokespecial"
  | .invokestatic _ _ => jstr "invokestatic"
  | .invokeinterface _ => jstr "invokeinterface"
  | .invokedynamic _ => jstr "invokedynamic"
  | .new _ => jstr "new"
  | .newarray _ => jstr "newarray"
  | .anewarray _ => jstr "anewarray"
  | .checkcast _ => jstr "checkcast"
  | .instanceof _ => jstr "instanceof"
  | .multianewarray _ _ => jstr "multianewarray"

/-- the local-variable index of a `load` / `store` -/
def insnLocal? : Insn → Option Nat
  | .load _ i => some i
  | .store _ i => some i
  | _ => none

/-- the values of the reader model's instruction type that stand for an instruction (what `decodeInsn` builds): the opcode
of `simple` / `branch` / `field` is one of the respective instructions, the kind of `load` / `store` is 0..4 -/
def RdDomain : Insn → Prop
  | .simple op => isSimpleOp op = true
  | .branch op _ => isCondBranchOp op = true
  | .field op _ => 0xb2 ≤ op ∧ op ≤ 0xb5
  | .load k _ => k < 5
  | .store k _ => k < 5
  | _ => True

/-! ## the model's constants, next to the name of the Rust constant they mirror -/

/-- (`class_constants::attribute::NAME`, the model's constant) -/
def modelAttributeNames : List (JStr × JStr) := [
  (jstr "ANNOTATION_DEFAULT", sAnnotationDefault), (jstr "BOOTSTRAP_METHODS", sBootstrapMethods), (jstr "CODE", sCode),
  (jstr "CONSTANT_VALUE", sConstantValue), (jstr "DEPRECATED", sDeprecated), (jstr "ENCLOSING_METHOD", sEnclosingMethod),
  (jstr "EXCEPTIONS", sExceptions), (jstr "INNER_CLASSES", sInnerClasses), (jstr "LINE_NUMBER_TABLE", sLineNumberTable),
  (jstr "LOCAL_VARIABLE_TABLE", sLocalVariableTable), (jstr "LOCAL_VARIABLE_TYPE_TABLE", sLocalVariableTypeTable),
  (jstr "METHOD_PARAMETERS", sMethodParameters), (jstr "MODULE", sModule), (jstr "MODULE_MAIN_CLASS", sModuleMainClass),
  (jstr "MODULE_PACKAGES", sModulePackages), (jstr "NEST_HOST", sNestHost), (jstr "NEST_MEMBERS", sNestMembers),
  (jstr "PERMITTED_SUBCLASSES", sPermittedSubclasses), (jstr "RECORD", sRecord),
  (jstr "RUNTIME_VISIBLE_ANNOTATIONS", sRVA), (jstr "RUNTIME_VISIBLE_PARAMETER_ANNOTATIONS", sRVPA),
  (jstr "RUNTIME_VISIBLE_TYPE_ANNOTATIONS", sRVTA), (jstr "RUNTIME_INVISIBLE_ANNOTATIONS", sRIA),
  (jstr "RUNTIME_INVISIBLE_PARAMETER_ANNOTATIONS", sRIPA), (jstr "RUNTIME_INVISIBLE_TYPE_ANNOTATIONS", sRITA),
  (jstr "SIGNATURE", sSignature), (jstr "SOURCE_DEBUG_EXTENSION", sSourceDebugExtension), (jstr "SOURCE_FILE", sSourceFile),
  (jstr "STACK_MAP", sStackMap), (jstr "STACK_MAP_TABLE", sStackMapTable), (jstr "SYNTHETIC", sSynthetic)]

/-- the bits a flag struct of `duke/src/tree` keeps: the `|` of its masks -/
def maskOf (table : List (JStr × List (JStr × Nat))) (struct : JStr) : Nat :=
  ((table.lookup struct).getD []).foldl (fun m e => m ||| e.2) 0

/-- (flag struct, the model's mask) -/
def modelMasks : List (JStr × Nat) := [
  (jstr "ClassAccess", maskClass), (jstr "InnerClassFlags", maskInner), (jstr "FieldAccess", maskField),
  (jstr "MethodAccess", maskMethod), (jstr "ParameterFlags", maskParam), (jstr "ModuleFlags", maskModule),
  (jstr "ModuleRequiresFlags", maskRequires), (jstr "ModuleExportsFlags", maskExports), (jstr "ModuleOpensFlags", maskExports)]

/-! ## probes of the model's tag dispatches on a fixed payload (zeros) -/

def poolEntryName : PoolEntry → JStr
  | .utf8 _ => jstr "Utf8" | .int _ => jstr "Integer" | .float _ => jstr "Float" | .long _ => jstr "Long"
  | .double _ => jstr "Double" | .cls _ => jstr "Class" | .str _ => jstr "String" | .fieldRef _ _ => jstr "FieldRef"
  | .methodRef _ _ => jstr "MethodRef" | .ifaceMethodRef _ _ => jstr "InterfaceMethodRef"
  | .nameAndType _ _ => jstr "NameAndType" | .methodHandle _ _ => jstr "MethodHandle" | .methodType _ => jstr "MethodType"
  | .dynamic _ _ => jstr "Dynamic" | .invokeDynamic _ _ => jstr "InvokeDynamic" | .module _ => jstr "Module"
  | .package _ => jstr "Package"

/-- the model's `readPoolEntry` on `tag` followed by twelve zero bytes: (entry kind, bytes consumed after the tag, slots) -/
def poolProbe (tag : Nat) : Option (JStr × Nat × Nat) :=
  match readPoolEntry (tag :: List.replicate 12 0) with
  | .ok ((e, slots), rest) => some (poolEntryName e, 12 - rest.length, slots)
  | _ => none

def vtypeName : VType → JStr
  | .top => jstr "Top" | .int => jstr "Integer" | .float => jstr "Float" | .double => jstr "Double" | .long => jstr "Long"
  | .null => jstr "Null" | .uninitThis => jstr "UninitializedThis" | .object _ => jstr "Object" | .uninit _ => jstr "Uninitialized"

def frameName : Frame → JStr
  | .same => jstr "Same" | .same1 _ => jstr "SameLocals1StackItem" | .chop _ => jstr "Chop" | .append _ => jstr "Append"
  | .full _ _ => jstr "Full"

end Arms
