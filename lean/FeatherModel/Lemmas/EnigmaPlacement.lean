import FeatherModel.Lemmas.EnigmaRoundTrip
import FeatherModel.Lemmas.EnigmaOrder

/-!
# C12: placement of classes into files and below parents, sortedness, fuel
-/

namespace Enigma

/-! ## which tree a class is in -/

/-- the tree of a root `r` holds exactly the classes that have `r` as ancestor-or-self along present parents -/
theorem mem_tree_iff {classes : AList JStr Class} (hnd : (classes.map Prod.fst).Nodup) {r e : JStr × Class}
    (hr : r ∈ rootsOf classes) (he : e ∈ classes) :
    e ∈ postRaw classes (treeFuel classes) r.1 r.2 ↔ Anc classes e.1 r.1 := by
  have hrc : r ∈ classes := (List.mem_filter.mp hr).1
  have hrroot : parentInSet classes r.1 = none := by simpa [isRoot] using (List.mem_filter.mp hr).2
  constructor
  · intro h
    exact (mem_postRaw _ r.1 r.2 e h hrc).2
  · intro h
    obtain ⟨r', hr', her'⟩ := forest_cover hnd e.1.length e he (Nat.le_refl _)
    have hr'c : r' ∈ classes := (List.mem_filter.mp hr').1
    have hr'root : parentInSet classes r'.1 = none := by simpa [isRoot] using (List.mem_filter.mp hr').2
    have h' := (mem_postRaw _ r'.1 r'.2 e her' hr'c).2
    have hk : r.1 = r'.1 := by
      apply Classical.byContradiction
      intro hne
      exact anc_sibling_false h h' hne (by rw [hrroot, hr'root])
    have : r = r' := by
      have h1 := lookup_of_mem hnd (show (r.1, r.2) ∈ classes from hrc)
      have h2 := lookup_of_mem hnd (show (r'.1, r'.2) ∈ classes from hr'c)
      rw [hk, h2] at h1
      simp only [Option.some.injEq] at h1
      exact Prod.ext hk h1.symm
    rw [this]; exact her'

/-- a class is in the tree of exactly one root -/
theorem tree_unique {classes : AList JStr Class} (hnd : (classes.map Prod.fst).Nodup) {r r' e : JStr × Class}
    (hr : r ∈ rootsOf classes) (hr' : r' ∈ rootsOf classes)
    (h : e ∈ postRaw classes (treeFuel classes) r.1 r.2) (h' : e ∈ postRaw classes (treeFuel classes) r'.1 r'.2) :
    r = r' := by
  have hrc : r ∈ classes := (List.mem_filter.mp hr).1
  have hr'c : r' ∈ classes := (List.mem_filter.mp hr').1
  have hrroot : parentInSet classes r.1 = none := by simpa [isRoot] using (List.mem_filter.mp hr).2
  have hr'root : parentInSet classes r'.1 = none := by simpa [isRoot] using (List.mem_filter.mp hr').2
  have a1 := (mem_postRaw _ r.1 r.2 e h hrc).2
  have a2 := (mem_postRaw _ r'.1 r'.2 e h' hr'c).2
  have hk : r.1 = r'.1 := by
    apply Classical.byContradiction
    intro hne
    exact anc_sibling_false a1 a2 hne (by rw [hrroot, hr'root])
  have h1 := lookup_of_mem hnd (show (r.1, r.2) ∈ classes from hrc)
  have h2 := lookup_of_mem hnd (show (r'.1, r'.2) ∈ classes from hr'c)
  rw [hk, h2] at h1
  simp only [Option.some.injEq] at h1
  exact Prod.ext hk h1.symm

/-! ## the `CLASS` lines of a tree -/

/-- pre-order walk with nesting depth -/
def preDepth (classes : AList JStr Class) : Nat → JStr → Class → Nat → List (Nat × (JStr × Class))
  | 0, _, _, _ => []
  | fuel + 1, key, c, d =>
    (d, (key, c)) :: (childrenOf classes key).flatMap fun e => preDepth classes fuel e.1 e.2 (d + 1)

/-- the `CLASS` line of a class written at depth `d`: simple names below a parent, full names at the top of a file -/
def headerEL (x : Nat × (JStr × Class)) : ELine :=
  { idents := x.1, first := kwCLASS,
    fields := shortName (x.1 != 0) x.2.1 :: ((dstOf x.2.2.names).map (shortName (x.1 != 0))).toList }

def isClassLine (l : ELine) : Bool := l.first == kwCLASS

theorem commentEL_noClass (n : Nat) (d : Option JStr) : (commentEL n d).filter isClassLine = [] := by
  rw [List.filter_eq_nil_iff]
  intro l hl
  unfold isClassLine
  rw [(commentEL_block n d l hl).2]
  decide

theorem paramEL_noClass (n : Nat) : ∀ ps : List (Nat × Param), (paramEL n ps).filter isClassLine = []
  | [] => rfl
  | e :: rest => by
    simp only [paramEL, List.cons_append, List.filter_cons, List.filter_append, commentEL_noClass,
      paramEL_noClass n rest, List.append_nil]
    rfl

theorem fieldEL_noClass (n : Nat) : ∀ fs : List (MemberKey × Field), (fieldEL n fs).filter isClassLine = []
  | [] => rfl
  | e :: rest => by
    simp only [fieldEL, List.cons_append, List.filter_cons, List.filter_append, commentEL_noClass,
      fieldEL_noClass n rest, List.append_nil]
    rfl

theorem methodEL_noClass (n : Nat) : ∀ ms : List (MemberKey × Method), (methodEL n ms).filter isClassLine = []
  | [] => rfl
  | e :: rest => by
    simp only [methodEL, List.cons_append, List.filter_cons, List.filter_append, commentEL_noClass, paramEL_noClass,
      methodEL_noClass n rest, List.append_nil]
    rfl

theorem classEL_header (key : JStr) (c : Class) (d : Nat) :
    (classEL key c d).filter isClassLine = [headerEL (d, (key, c))] := by
  simp only [classEL, List.cons_append, List.filter_cons, List.filter_append, commentEL_noClass, fieldEL_noClass,
    methodEL_noClass, List.append_nil]
  rfl

/-- **nesting in the text mirrors source-name nesting**: the `CLASS` lines of a written tree are the pre-order walk
along present parents, each class one level deeper than the class that is its present parent -/
theorem treeEL_classLines (classes : AList JStr Class) : ∀ (fuel : Nat) (key : JStr) (c : Class) (d : Nat),
    (treeEL classes fuel key c d).filter isClassLine = (preDepth classes fuel key c d).map headerEL
  | 0, _, _, _ => rfl
  | fuel + 1, key, c, d => by
    simp only [treeEL, preDepth, List.filter_append, classEL_header, List.map_cons, List.singleton_append]
    congr 1
    rw [List.map_flatMap]
    generalize childrenOf classes key = kids
    induction kids with
    | nil => rfl
    | cons e rest ih =>
      simp only [List.flatMap_cons, List.filter_append, ih, treeEL_classLines classes fuel e.1 e.2 (d + 1)]

/-- the classes in the pre-order walk are those of the post-order listing -/
theorem preDepth_perm (classes : AList JStr Class) : ∀ (fuel : Nat) (key : JStr) (c : Class) (d : Nat),
    ((preDepth classes fuel key c d).map Prod.snd).Perm (postRaw classes fuel key c)
  | 0, _, _, _ => List.Perm.refl _
  | fuel + 1, key, c, d => by
    simp only [preDepth, postRaw, List.map_cons]
    refine List.Perm.trans ?_ List.perm_append_comm
    simp only [List.singleton_append]
    refine List.Perm.cons _ ?_
    rw [List.map_flatMap]
    generalize childrenOf classes key = kids
    induction kids with
    | nil => exact List.Perm.refl _
    | cons e rest ih =>
      simp only [List.flatMap_cons]
      exact (preDepth_perm classes fuel e.1 e.2 (d + 1)).append ih

/-- depth 0 exactly for the root of the walk, and every other class is one deeper than its present parent, which
precedes it in the walk -/
theorem preDepth_spec (classes : AList JStr Class) : ∀ (fuel : Nat) (key : JStr) (c : Class) (d : Nat)
    (x : Nat × (JStr × Class)), x ∈ preDepth classes fuel key c d →
      (x = (d, (key, c))) ∨ (d < x.1 ∧ ∃ p ∈ preDepth classes fuel key c d,
        parentInSet classes x.2.1 = some p.2.1 ∧ x.1 = p.1 + 1)
  | 0, _, _, _, x, h => by simp [preDepth] at h
  | fuel + 1, key, c, d, x, h => by
    simp only [preDepth, List.mem_cons, List.mem_flatMap] at h
    rcases h with rfl | ⟨e, he, hx⟩
    · exact Or.inl rfl
    · right
      rcases preDepth_spec classes fuel e.1 e.2 (d + 1) x hx with rfl | ⟨hlt, p, hp, hpar, hd⟩
      · refine ⟨Nat.lt_succ_self d, (d, (key, c)), by simp [preDepth], (mem_childrenOf he).2, rfl⟩
      · refine ⟨by omega, p, ?_, hpar, hd⟩
        simp only [preDepth, List.mem_cons, List.mem_flatMap]
        exact Or.inr ⟨e, he, hp⟩

/-! ## sortedness -/

theorem fileEntries_sorted (m : Mappings) : (fileEntries m).Pairwise (fun a b => keyLe a b = true) :=
  isort_pairwise keyLe_ord.total keyLe_ord.trans _

theorem childrenOf_sorted (classes : AList JStr Class) (key : JStr) :
    (childrenOf classes key).Pairwise (fun a b => keyLe a b = true) :=
  isort_pairwise keyLe_ord.total keyLe_ord.trans _

theorem canonClass_sorted (c : Class) :
    (canonClass c).fields.Pairwise (fun a b => fieldLe a b = true) ∧
    (isort methodLe c.methods).Pairwise (fun a b => methodLe a b = true) ∧
    ∀ e ∈ (canonClass c).methods, e.2.params.Pairwise (fun a b => paramLe a b = true) := by
  refine ⟨isort_pairwise fieldLe_ord.total fieldLe_ord.trans _, isort_pairwise methodLe_ord.total methodLe_ord.trans _, ?_⟩
  intro e he
  simp only [canonClass, List.mem_map] at he
  obtain ⟨x, _, rfl⟩ := he
  exact isort_pairwise paramLe_ord.total paramLe_ord.trans _

/-! ## fuel -/

theorem concatOpts_mono {α : Type} {f g : α → Option (List Text)} : ∀ (l : List α) (b : List Text),
    (∀ e ∈ l, ∀ x, f e = some x → g e = some x) → concatOpts (l.map f) = some b → concatOpts (l.map g) = some b
  | [], b, _, h => h
  | e :: l, b, hfg, h => by
    simp only [List.map_cons] at h ⊢
    cases hf : f e with
    | none => rw [hf] at h; simp [concatOpts] at h
    | some a =>
      rw [hf] at h
      simp only [concatOpts] at h
      cases hr : concatOpts (l.map f) with
      | none => rw [hr] at h; simp at h
      | some r =>
        rw [hr] at h
        simp only [concatOpts, hfg e List.mem_cons_self a hf,
          concatOpts_mono l r (fun x hx => hfg x (List.mem_cons_of_mem _ hx)) hr]
        exact h

/-- more fuel does not change the result of `write_one_tree_starting_at` -/
theorem treeLines_mono (classes : AList JStr Class) : ∀ (fuel : Nat) (key : JStr) (c : Class) (d : Nat) (ls : List Text),
    treeLines classes fuel key c d = some ls → treeLines classes (fuel + 1) key c d = some ls
  | 0, _, _, _, _, h => by simp [treeLines] at h
  | fuel + 1, key, c, d, ls, h => by
    rw [treeLines] at h ⊢
    cases ho : classLines key c d with
    | none => rw [ho] at h; simp at h
    | some own =>
      rw [ho] at h
      simp only at h ⊢
      cases hb : concatOpts ((childrenOf classes key).map fun e => treeLines classes fuel e.1 e.2 (d + 1)) with
      | none => rw [hb] at h; simp at h
      | some below =>
        rw [hb] at h
        rw [concatOpts_mono (g := fun e => treeLines classes (fuel + 1) e.1 e.2 (d + 1)) _ below
          (fun e _ x hx => treeLines_mono classes fuel e.1 e.2 (d + 1) x hx) hb]
        exact h

end Enigma
