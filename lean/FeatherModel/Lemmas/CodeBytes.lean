import FeatherModel.Spec.CodeDenote

/-!
# Big-endian two's complement: what the decoder reads back from what the writer wrote
-/

namespace CodeWrite
open CodeDecode

theorem s8_i8b (v : Int) (h1 : -128 ≤ v) (h2 : v ≤ 127) : s8 (i8b v) = v := by
  unfold s8 i8b
  split <;> omega

theorem i16b_eq (v : Int) : i16b v = [(v % 65536).toNat / 256 % 256, (v % 65536).toNat % 256] := rfl

theorem i32b_eq (v : Int) : i32b v =
    [(v % 4294967296).toNat / 16777216 % 256, (v % 4294967296).toNat / 65536 % 256,
     (v % 4294967296).toNat / 256 % 256, (v % 4294967296).toNat % 256] := rfl

theorem s16_i16b (v : Int) (h1 : -32768 ≤ v) (h2 : v ≤ 32767) :
    s16 ((v % 65536).toNat / 256 % 256) ((v % 65536).toNat % 256) = v := by
  unfold s16
  split <;> omega

theorem s32_i32b (v : Int) (h1 : -2147483648 ≤ v) (h2 : v ≤ 2147483647) :
    s32 ((v % 4294967296).toNat / 16777216 % 256) ((v % 4294967296).toNat / 65536 % 256)
      ((v % 4294967296).toNat / 256 % 256) ((v % 4294967296).toNat % 256) = v := by
  unfold s32 u32
  split <;> omega

theorem u16_u16b (n : Nat) (h : n ≤ 65535) : n / 256 % 256 * 256 + n % 256 = n := by omega

theorem fitsI16_iff (v : Int) : fitsI16 v = true ↔ -32768 ≤ v ∧ v ≤ 32767 := by
  unfold fitsI16; simp

/-- offsets between two code positions always fit 32 bits -/
theorem offs_range {p tp : Nat} (hp : p ≤ 65535) (ht : tp ≤ 65535) :
    -2147483648 ≤ offs p tp ∧ offs p tp ≤ 2147483647 := by
  unfold offs; omega

theorem padLen_eq_switchPad (p : Nat) : padLen p = switchPad p := by
  unfold padLen switchPad; omega

end CodeWrite
