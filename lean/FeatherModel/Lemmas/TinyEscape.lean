import FeatherModel.Lemmas.TinyContent

/-! The fixed point on the wider domain (C03): a comment containing backslash-`n` is read back changed (`reDoc`), but the
changed comment is written exactly like the original, so `write (read (write m)) = write m` still holds. -/

namespace Tiny

/-! ## `escape ∘ unescape` is the identity on a single line -/

theorem escape_unescape : ∀ s : JStr, 10 ∉ s → escape (unescape s) = s
  | [], _ => rfl
  | [c], h => by
    have hc : c ≠ 10 := by intro e; subst e; simp at h
    simp [unescape, escape, hc]
  | a :: b :: rest, h => by
    have ha : a ≠ 10 := by intro e; subst e; simp at h
    have hr : 10 ∉ b :: rest := fun hm => h (List.mem_cons_of_mem _ hm)
    have hrr : 10 ∉ rest := fun hm => hr (List.mem_cons_of_mem _ hm)
    unfold unescape
    split
    · rename_i hab
      rw [escape_cons, if_pos rfl, escape_unescape rest hrr, hab.1, hab.2]
    · rw [escape_cons, if_neg ha, escape_unescape (b :: rest) hr]

theorem escape_reDoc (d : JStr) : escape (reDoc d) = escape d :=
  escape_unescape _ (escape_no_lf d)

/-- `unescape` never leaves a backslash directly followed by `n` -/
theorem unescape_head : ∀ (a : Nat) (rest : JStr), ¬ (a = 92 ∧ rest.head? = some 110) →
    ¬ (a = 92 ∧ (unescape rest).head? = some 110)
  | a, [], _ => by simp [unescape]
  | a, [c], h => by simpa [unescape] using h
  | a, b :: c :: r, h => by
    unfold unescape
    split
    · simp
    · simpa using h

theorem noBsN_unescape : ∀ s : JStr, noBsN (unescape s) = true
  | [] => rfl
  | [c] => rfl
  | a :: b :: rest => by
    unfold unescape
    split
    · -- `10 :: unescape rest`
      have ih := noBsN_unescape rest
      cases hu : unescape rest with
      | nil => rfl
      | cons x xs =>
        rw [hu] at ih
        simp [noBsN, ih]
    · rename_i hab
      have ih := noBsN_unescape (b :: rest)
      have hh := unescape_head a (b :: rest) (by simpa using hab)
      cases hu : unescape (b :: rest) with
      | nil => rfl
      | cons x xs =>
        rw [hu] at ih hh
        simp only [List.head?_cons, Option.some.injEq] at hh
        simp only [noBsN, ih, Bool.and_true, Bool.not_eq_true', Bool.and_eq_false_iff, beq_eq_false_iff_ne]
        by_cases ha : a = 92
        · right; exact fun hx => hh ⟨ha, hx⟩
        · left; exact ha

theorem unescape_mem {x : Nat} : ∀ s : JStr, x ∈ unescape s → x ∈ s ∨ x = 10
  | [], h => by simp [unescape] at h
  | [c], h => by left; simpa [unescape] using h
  | a :: b :: rest, h => by
    unfold unescape at h
    split at h
    · rcases List.mem_cons.mp h with rfl | h
      · right; rfl
      · rcases unescape_mem rest h with h | h
        · left; exact List.mem_cons_of_mem _ (List.mem_cons_of_mem _ h)
        · right; exact h
    · rcases List.mem_cons.mp h with rfl | h
      · left; exact List.mem_cons_self
      · rcases unescape_mem (b :: rest) h with h | h
        · left; exact List.mem_cons_of_mem _ h
        · right; exact h

theorem unescape_getLast : ∀ s : JStr, s.getLast? ≠ some 13 → (unescape s).getLast? ≠ some 13
  | [], _ => by simp [unescape]
  | [c], h => by simpa [unescape] using h
  | a :: b :: rest, h => by
    unfold unescape
    split
    · have hr : rest.getLast? ≠ some 13 ∨ rest = [] := by
        cases rest with
        | nil => right; rfl
        | cons x xs => left; simpa [List.getLast?_cons_cons] using h
      rcases hr with hr | rfl
      · have ih := unescape_getLast rest hr
        cases hu : unescape rest with
        | nil => simp
        | cons x xs => rw [hu] at ih; simpa [List.getLast?_cons_cons] using ih
      · simp [unescape]
    · have hr : (b :: rest).getLast? ≠ some 13 := by simpa [List.getLast?_cons_cons] using h
      have ih := unescape_getLast (b :: rest) hr
      cases hu : unescape (b :: rest) with
      | nil =>
        -- impossible: `unescape` of a non-empty list is non-empty
        exfalso
        have : unescape (b :: rest) ≠ [] := by
          cases rest with
          | nil => simp [unescape]
          | cons c r => unfold unescape; split <;> simp
        exact this hu
      | cons x xs => rw [hu] at ih; simpa [List.getLast?_cons_cons] using ih

theorem docOk_reDoc {d : Option JStr} (h : docOkE d = true) : docOk (d.map reDoc) = true := by
  cases d with
  | none => rfl
  | some d =>
    simp only [docOkE, Bool.and_eq_true, List.all_eq_true, bne_iff_ne, ne_eq, Bool.not_eq_true'] at h
    simp only [Option.map_some, docOk, Bool.and_eq_true, List.all_eq_true, bne_iff_ne, ne_eq, Bool.not_eq_true']
    refine ⟨⟨?_, ?_⟩, noBsN_unescape _⟩
    · intro x hx
      rcases unescape_mem _ hx with hx | rfl
      · rcases escape_mem hx with hx | rfl | rfl
        · exact h.1 x hx
        · decide
        · decide
      · decide
    · exact unescape_getLast _ (escape_getLast d h.2)

/-! ## `write` does not see the difference -/

theorem docLines_reDoc (indent : Nat) (d : Option JStr) : docLines indent (d.map reDoc) = docLines indent d := by
  cases d with
  | none => rfl
  | some d => simp [docLines, escape_reDoc]

theorem paramLines_reDoc (p : Param) : paramLines (reDocParam p) = paramLines p := by
  simp [paramLines, reDocParam, docLines_reDoc]

theorem fieldLines_reDoc (f : Field) : fieldLines (reDocField f) = fieldLines f := by
  simp [fieldLines, reDocField, docLines_reDoc]

theorem methodLines_reDoc (m : Method) : methodLines (reDocMethod m) = methodLines m := by
  simp only [methodLines, reDocMethod, docLines_reDoc, values_mapVals]
  rw [← sortBy_map (le := paramLe) (le' := paramLe) reDocParam (fun _ _ => rfl), flatMap_map']
  simp only [paramLines_reDoc]

theorem classLines_reDoc (c : Class) : classLines (reDocClass c) = classLines c := by
  simp only [classLines, reDocClass, docLines_reDoc, values_mapVals]
  rw [← sortBy_map (le := fieldLe) (le' := fieldLe) reDocField (fun _ _ => rfl), flatMap_map',
    ← sortBy_map (le := methodLe) (le' := methodLe) reDocMethod (fun _ _ => rfl), flatMap_map']
  simp only [fieldLines_reDoc, methodLines_reDoc]

theorem writeLines_reDoc (m : Mappings) : writeLines (reDocM m) = writeLines m := by
  simp only [writeLines, reDocM, values_mapVals]
  rw [← sortBy_map (le := classLe) (le' := classLe) reDocClass (fun _ _ => rfl), flatMap_map']
  simp only [classLines_reDoc]

theorem write_reDoc (m : Mappings) : write (reDocM m) = write m := by
  unfold write
  rw [writeLines_reDoc]

/-! ## the changed set is in the domain of the round trip -/

theorem contains_mapVals {K V W : Type} [BEq K] (g : V → W) (k : K) :
    ∀ m : AList K V, AList.contains k (AList.mapVals g m) = AList.contains k m
  | [] => rfl
  | (k0, v0) :: rest => by
    have ih := contains_mapVals g k rest
    simp only [AList.contains, AList.mapVals, List.map_cons, AList.lookup] at ih ⊢
    split
    · rfl
    · exact ih

theorem keysNodup_mapVals {K V W : Type} [BEq K] (g : V → W) :
    ∀ m : AList K V, keysNodup (AList.mapVals g m) = keysNodup m
  | [] => rfl
  | (k0, v0) :: rest => by
    have ih := keysNodup_mapVals g rest
    have hc := contains_mapVals g k0 rest
    simp only [AList.mapVals, List.map_cons, keysNodup] at ih hc ⊢
    rw [ih, hc]

theorem all_mapVals {K V W : Type} (g : V → W) (P : K × W → Bool) (m : AList K V) :
    (AList.mapVals g m).all P = m.all (fun e => P (e.1, g e.2)) := by
  simp [AList.mapVals, List.all_map, Function.comp_def]

theorem wfMethod_reDoc (m : Method) : wfMethod (reDocMethod m) = wfMethod m := by
  simp only [wfMethod, reDocMethod, keysNodup_mapVals, all_mapVals]
  rfl

theorem wfClass_reDoc (c : Class) : wfClass (reDocClass c) = wfClass c := by
  simp only [wfClass, reDocClass, keysNodup_mapVals, all_mapVals, wfMethod_reDoc]
  rfl

theorem wf_reDoc (m : Mappings) : wf (reDocM m) = wf m := by
  simp only [wf, reDocM, keysNodup_mapVals, all_mapVals, wfClass_reDoc]
  rfl

theorem paramOk_reDoc {n : Nat} {p : Param} (h : paramOkE n p = true) : paramOk n (reDocParam p) = true := by
  simp only [paramOkE, Bool.and_eq_true] at h
  simp only [paramOk, reDocParam, Bool.and_eq_true]
  exact ⟨h.1, docOk_reDoc h.2⟩

theorem fieldOk_reDoc {n : Nat} {f : Field} (h : fieldOkE n f = true) : fieldOk n (reDocField f) = true := by
  simp only [fieldOkE, Bool.and_eq_true] at h
  simp only [fieldOk, reDocField, Bool.and_eq_true]
  exact ⟨h.1, docOk_reDoc h.2⟩

theorem methodOk_reDoc {n : Nat} {m : Method} (h : methodOkE n m = true) : methodOk n (reDocMethod m) = true := by
  simp only [methodOkE, Bool.and_eq_true, List.all_eq_true] at h
  simp only [methodOk, reDocMethod, Bool.and_eq_true, all_mapVals, List.all_eq_true]
  exact ⟨⟨h.1.1, docOk_reDoc h.1.2⟩, fun e he => paramOk_reDoc (h.2 e he)⟩

theorem classOk_reDoc {n : Nat} {c : Class} (h : classOkE n c = true) : classOk n (reDocClass c) = true := by
  simp only [classOkE, Bool.and_eq_true, List.all_eq_true] at h
  simp only [classOk, reDocClass, Bool.and_eq_true, all_mapVals, List.all_eq_true]
  exact ⟨⟨⟨h.1.1.1, docOk_reDoc h.1.1.2⟩, fun e he => fieldOk_reDoc (h.1.2 e he)⟩, fun e he => methodOk_reDoc (h.2 e he)⟩

theorem writable_reDoc {n : Nat} {m : Mappings} (h : writableE n m = true) : writable n (reDocM m) = true := by
  simp only [writableE, Bool.and_eq_true] at h
  obtain ⟨⟨⟨⟨⟨h1, h2⟩, h3⟩, h4⟩, h5⟩, h6⟩ := h
  have h6' : ((reDocM m).classes.all fun (_, c) => classOk n c) = true := by
    simp only [List.all_eq_true] at h6
    simp only [reDocM, all_mapVals, List.all_eq_true]
    exact fun e he => classOk_reDoc (h6 e he)
  simp only [writable, Bool.and_eq_true]
  exact ⟨⟨⟨⟨⟨h1, h2⟩, h3⟩, h4⟩, by rw [wf_reDoc]; exact h5⟩, h6'⟩

/-- a set of the narrow domain is in the wide one -/
theorem docOkE_of_docOk {d : Option JStr} (h : docOk d = true) : docOkE d = true := by
  cases d with
  | none => rfl
  | some d =>
    simp only [docOk, Bool.and_eq_true] at h
    simp only [docOkE, Bool.and_eq_true]
    exact h.1


theorem paramOkE_of {n : Nat} {p : Param} (h : paramOk n p = true) : paramOkE n p = true := by
  simp only [paramOk, Bool.and_eq_true] at h
  simp only [paramOkE, Bool.and_eq_true]
  exact ⟨h.1, docOkE_of_docOk h.2⟩

theorem fieldOkE_of {n : Nat} {f : Field} (h : fieldOk n f = true) : fieldOkE n f = true := by
  simp only [fieldOk, Bool.and_eq_true] at h
  simp only [fieldOkE, Bool.and_eq_true]
  exact ⟨h.1, docOkE_of_docOk h.2⟩

theorem methodOkE_of {n : Nat} {m : Method} (h : methodOk n m = true) : methodOkE n m = true := by
  simp only [methodOk, Bool.and_eq_true, List.all_eq_true] at h
  simp only [methodOkE, Bool.and_eq_true, List.all_eq_true]
  exact ⟨⟨h.1.1, docOkE_of_docOk h.1.2⟩, fun e he => paramOkE_of (h.2 e he)⟩

theorem classOkE_of {n : Nat} {c : Class} (h : classOk n c = true) : classOkE n c = true := by
  simp only [classOk, Bool.and_eq_true, List.all_eq_true] at h
  simp only [classOkE, Bool.and_eq_true, List.all_eq_true]
  exact ⟨⟨⟨h.1.1.1, docOkE_of_docOk h.1.1.2⟩, fun e he => fieldOkE_of (h.1.2 e he)⟩, fun e he => methodOkE_of (h.2 e he)⟩

/-- the domain of the round trip lies inside the domain of the fixed point -/
theorem writableE_of_writable {n : Nat} {m : Mappings} (h : writable n m = true) : writableE n m = true := by
  simp only [writable, Bool.and_eq_true] at h
  obtain ⟨h1, h6⟩ := h
  simp only [List.all_eq_true] at h6
  simp only [writableE, Bool.and_eq_true]
  refine ⟨h1, ?_⟩
  simp only [List.all_eq_true]
  exact fun e he => classOkE_of (h6 e he)

/-- what `read` makes of the written form, on the wide domain -/
theorem read_write_writableE {n : Nat} {m : Mappings} (h : writableE n m = true) :
    read n (write m) = some (canon (reDocM m)) := by
  rw [← write_reDoc m]
  exact read_write_writable (writable_reDoc h)

theorem displayable_reDoc (m : Mappings) : displayable (reDocM m) = displayable m := by
  simp only [displayable, reDocM, all_mapVals]
  congr 1
  funext e
  simp only [reDocClass, all_mapVals, reDocField, reDocMethod, reDocParam]

theorem write?_reDoc (m : Mappings) : write? (reDocM m) = write? m := by
  unfold write?
  rw [displayable_reDoc, write_reDoc]

end Tiny
