import FeatherModel.Lemmas.EnigmaWrite
import FeatherModel.Lemmas.EnigmaOrder

/-!
# C12: the output of the Enigma writer does not depend on the insertion order (at any level)
-/

namespace Enigma

/-- element-wise relation of two lists -/
inductive All2 {α β : Type} (R : α → β → Prop) : List α → List β → Prop
  | nil : All2 R [] []
  | cons {a b as bs} : R a b → All2 R as bs → All2 R (a :: as) (b :: bs)

/-- `l'` has the entries of `l` in another order, entry by entry up to `R` -/
def PermRel {α : Type} (R : α → α → Prop) (l l' : List α) : Prop :=
  ∃ a b, l.Perm a ∧ All2 R a b ∧ b.Perm l'

/-- same method entry, parameters in any insertion order -/
def MethodSh (m m' : Method) : Prop :=
  m.desc = m'.desc ∧ m.names = m'.names ∧ m.doc = m'.doc ∧ m.params.Perm m'.params

/-- same class entry, fields / methods / parameters in any insertion order -/
def ClassSh (c c' : Class) : Prop :=
  c.names = c'.names ∧ c.doc = c'.doc ∧ c.fields.Perm c'.fields ∧
    PermRel (fun x y => x.1 = y.1 ∧ MethodSh x.2 y.2) c.methods c'.methods

def EntrySh (x y : JStr × Class) : Prop := x.1 = y.1 ∧ ClassSh x.2 y.2

/-- same content: the same entries under the same keys at every level, in any insertion order at every level -/
def Shuffled (m m' : Mappings) : Prop := PermRel EntrySh m.classes m'.classes

/-! ## generic facts -/

theorem All2.mem_left {α β : Type} {R : α → β → Prop} : ∀ {l l'}, All2 R l l' → ∀ a ∈ l, ∃ b ∈ l', R a b
  | _, _, .nil, a, ha => by simp at ha
  | _, _, .cons r t, a, ha => by
    rcases List.mem_cons.mp ha with rfl | ha
    · exact ⟨_, List.mem_cons_self, r⟩
    · obtain ⟨b, hb, hr⟩ := All2.mem_left t a ha
      exact ⟨b, List.mem_cons_of_mem _ hb, hr⟩

theorem All2.mem_right {α β : Type} {R : α → β → Prop} : ∀ {l l'}, All2 R l l' → ∀ b ∈ l', ∃ a ∈ l, R a b
  | _, _, .nil, b, hb => by simp at hb
  | _, _, .cons r t, b, hb => by
    rcases List.mem_cons.mp hb with rfl | hb
    · exact ⟨_, List.mem_cons_self, r⟩
    · obtain ⟨a, ha, hr⟩ := All2.mem_right t b hb
      exact ⟨a, List.mem_cons_of_mem _ ha, hr⟩

theorem All2.map_eq {α β γ : Type} {R : α → β → Prop} {f : α → γ} {g : β → γ} :
    ∀ {l l'}, All2 R l l' → (∀ a ∈ l, ∀ b ∈ l', R a b → f a = g b) → l.map f = l'.map g
  | _, _, .nil, _ => rfl
  | _, _, .cons r t, h => by
    simp only [List.map_cons]
    rw [h _ List.mem_cons_self _ List.mem_cons_self r,
      All2.map_eq t (fun a ha b hb => h a (List.mem_cons_of_mem _ ha) b (List.mem_cons_of_mem _ hb))]

theorem All2.map {α β γ δ : Type} {R : α → β → Prop} {S : γ → δ → Prop} {f : α → γ} {g : β → δ}
    (h : ∀ a b, R a b → S (f a) (g b)) : ∀ {l l'}, All2 R l l' → All2 S (l.map f) (l'.map g)
  | _, _, .nil => .nil
  | _, _, .cons r t => .cons (h _ _ r) (All2.map h t)

theorem All2.filter {α β : Type} {R : α → β → Prop} {p : α → Bool} {q : β → Bool} (h : ∀ a b, R a b → p a = q b) :
    ∀ {l l'}, All2 R l l' → All2 R (l.filter p) (l'.filter q)
  | _, _, .nil => .nil
  | _, _, .cons (a := a) (b := b) r t => by
    simp only [List.filter_cons, h a b r]
    split
    · exact .cons r (All2.filter h t)
    · exact All2.filter h t

theorem All2.insertBy {α β : Type} {R : α → β → Prop} {le : α → α → Bool} {le' : β → β → Bool}
    (hle : ∀ a b a' b', R a a' → R b b' → le a b = le' a' b') {x : α} {y : β} (hx : R x y) :
    ∀ {l l'}, All2 R l l' → All2 R (insertBy le x l) (insertBy le' y l')
  | _, _, .nil => .cons hx .nil
  | _, _, .cons (a := a) (b := b) r t => by
    simp only [Enigma.insertBy, hle x a y b hx r]
    split
    · exact .cons hx (.cons r t)
    · exact .cons r (All2.insertBy hle hx t)

theorem All2.isort {α β : Type} {R : α → β → Prop} {le : α → α → Bool} {le' : β → β → Bool}
    (hle : ∀ a b a' b', R a a' → R b b' → le a b = le' a' b') :
    ∀ {l l'}, All2 R l l' → All2 R (isort le l) (isort le' l')
  | _, _, .nil => .nil
  | _, _, .cons r t => All2.insertBy hle r (All2.isort hle t)

theorem PermRel.filter {α : Type} {R : α → α → Prop} {p q : α → Bool} (h : ∀ a b, R a b → p a = q b) {l l' : List α}
    (hp : PermRel R l l') : PermRel R (l.filter p) (l'.filter q) := by
  obtain ⟨a, b, h1, h2, h3⟩ := hp
  exact ⟨a.filter p, b.filter q, h1.filter p, All2.filter h h2, h3.filter q⟩

theorem PermRel.map {α β : Type} {R : α → α → Prop} {S : β → β → Prop} {f g : α → β} (h : ∀ a b, R a b → S (f a) (g b))
    {l l' : List α} (hp : PermRel R l l') : PermRel S (l.map f) (l'.map g) := by
  obtain ⟨a, b, h1, h2, h3⟩ := hp
  exact ⟨a.map f, b.map g, h1.map f, All2.map h h2, h3.map g⟩

theorem PermRel.mem_left {α : Type} {R : α → α → Prop} {l l' : List α} (hp : PermRel R l l') :
    ∀ x ∈ l, ∃ y ∈ l', R x y := by
  obtain ⟨a, b, h1, h2, h3⟩ := hp
  intro x hx
  obtain ⟨y, hy, r⟩ := h2.mem_left x (h1.subset hx)
  exact ⟨y, h3.subset hy, r⟩

theorem PermRel.mem_right {α : Type} {R : α → α → Prop} {l l' : List α} (hp : PermRel R l l') :
    ∀ y ∈ l', ∃ x ∈ l, R x y := by
  obtain ⟨a, b, h1, h2, h3⟩ := hp
  intro y hy
  obtain ⟨x, hx, r⟩ := h2.mem_right y (h3.symm.subset hy)
  exact ⟨x, h1.symm.subset hx, r⟩

/-- sorted, two permuted lists are related entry by entry (the sort key separates the entries of each list and is
respected by the relation) -/
theorem permRel_isort {α κ : Type} {R : α → α → Prop} {le : α → α → Bool} {key : α → κ} (ho : KeyOrd le key)
    (hR : ∀ a b, R a b → key a = key b) {l l' : List α}
    (hinj : ∀ a ∈ l, ∀ b ∈ l, key a = key b → a = b) (hinj' : ∀ a ∈ l', ∀ b ∈ l', key a = key b → a = b)
    (hp : PermRel R l l') : All2 R (isort le l) (isort le l') := by
  obtain ⟨a, b, h1, h2, h3⟩ := hp
  have e1 : isort le l = isort le a :=
    isort_eq_of_perm ho.total ho.trans (fun x y hx hy hxy hyx => hinj x hx y hy (ho.antisymm x y hxy hyx)) h1
  have e2 : isort le l' = isort le b :=
    isort_eq_of_perm ho.total ho.trans (fun x y hx hy hxy hyx => hinj' x hx y hy (ho.antisymm x y hxy hyx)) h3.symm
  rw [e1, e2]
  exact All2.isort (fun x y x' y' hx hy => ho.congr x x' y y' (hR x x' hx) (hR y y' hy)) h2

theorem inj_of_nodup_keys {K V : Type} : ∀ {l : AList K V}, (l.map Prod.fst).Nodup →
    ∀ a ∈ l, ∀ b ∈ l, a.1 = b.1 → a = b
  | [], _, a, ha, _, _, _ => by simp at ha
  | x :: l, h, a, ha, b, hb, hab => by
    have h' : x.1 ∉ l.map Prod.fst ∧ (l.map Prod.fst).Nodup := List.nodup_cons.mp h
    rcases List.mem_cons.mp ha with ea | ha' <;> rcases List.mem_cons.mp hb with eb | hb'
    · rw [ea, eb]
    · have : x.1 ∈ l.map Prod.fst := List.mem_map.mpr ⟨b, hb', by rw [← hab, ea]⟩
      exact absurd this h'.1
    · have : x.1 ∈ l.map Prod.fst := List.mem_map.mpr ⟨a, ha', by rw [hab, eb]⟩
      exact absurd this h'.1
    · exact inj_of_nodup_keys h'.2 a ha' b hb' hab

/-! ## one class -/

theorem params_sorted_eq {m m' : Method} (hok : ∀ p ∈ m.params, paramOk p = true) (hnd : (m.params.map Prod.fst).Nodup)
    (h : m.params.Perm m'.params) : isort paramLe m.params = isort paramLe m'.params := by
  refine isort_eq_of_perm paramLe_ord.total paramLe_ord.trans ?_ h
  intro a b ha hb hab hba
  have hk := paramLe_ord.antisymm a b hab hba
  simp only [Prod.mk.injEq] at hk
  obtain ⟨_, _, ha1, _⟩ := paramOk_spec (hok a ha)
  obtain ⟨_, _, hb1, _⟩ := paramOk_spec (hok b hb)
  exact inj_of_nodup_keys hnd a ha b hb (by rw [ha1, hb1, hk.1])

theorem fields_sorted_eq {c c' : Class} (hok : ∀ f ∈ c.fields, fieldOk f = true) (hnd : (c.fields.map Prod.fst).Nodup)
    (h : c.fields.Perm c'.fields) : isort fieldLe c.fields = isort fieldLe c'.fields := by
  refine isort_eq_of_perm fieldLe_ord.total fieldLe_ord.trans ?_ h
  intro a b ha hb hab hba
  have hk := fieldLe_ord.antisymm a b hab hba
  simp only [Prod.mk.injEq] at hk
  obtain ⟨_, ha1, ha2, _⟩ := fieldOk_spec (hok a ha)
  obtain ⟨_, hb1, hb2, _⟩ := fieldOk_spec (hok b hb)
  refine inj_of_nodup_keys hnd a ha b hb (Prod.ext ?_ ?_)
  · have := hk.1
    rw [ha1, hb1] at this
    simp only [List.cons.injEq, Option.some.injEq] at this
    exact this.1
  · rw [← ha2, ← hb2, hk.2]

theorem methodKey_inj {l : AList MemberKey Method} (hok : ∀ e ∈ l, methodOk e = true) (hnd : (l.map Prod.fst).Nodup) :
    ∀ a ∈ l, ∀ b ∈ l, (a.2.names, a.2.desc) = (b.2.names, b.2.desc) → a = b := by
  intro a ha b hb hk
  simp only [Prod.mk.injEq] at hk
  obtain ⟨_, ha1, ha2, _⟩ := methodOk_spec (hok a ha)
  obtain ⟨_, hb1, hb2, _⟩ := methodOk_spec (hok b hb)
  refine inj_of_nodup_keys hnd a ha b hb (Prod.ext ?_ ?_)
  · have := hk.1
    rw [ha1, hb1] at this
    simp only [List.cons.injEq, Option.some.injEq] at this
    exact this.1
  · rw [← ha2, ← hb2, hk.2]

theorem methodLines_all2 (n : Nat) : ∀ {l l' : List (MemberKey × Method)},
    All2 (fun x y => x.1 = y.1 ∧ MethodSh x.2 y.2) l l' → (∀ e ∈ l, methodOk e = true) →
    methodLines n l = methodLines n l'
  | _, _, .nil, _ => rfl
  | _, _, .cons (a := a) (b := b) r t, hok => by
    obtain ⟨⟨an, ad⟩, am⟩ := a
    obtain ⟨⟨bn, bd⟩, bm⟩ := b
    obtain ⟨hk, _, hnames, hdoc, hpar⟩ := r
    simp only [Prod.mk.injEq] at hk
    obtain ⟨rfl, rfl⟩ := hk
    obtain ⟨_, _, _, _, _, _, _, _, hps, hpnd⟩ := methodOk_spec (hok _ List.mem_cons_self)
    simp only at hnames hdoc hpar hps hpnd
    have hd : methodDst am = methodDst bm := by simp only [methodDst, hnames]
    rw [methodLines_cons_eq, methodLines_cons_eq, hd, hdoc, params_sorted_eq hps hpnd hpar,
      methodLines_all2 n t (fun e he => hok e (List.mem_cons_of_mem _ he))]

theorem classLines_sh {key : JStr} {c c' : Class} (d : Nat) (hf : ∀ f ∈ c.fields, fieldOk f = true)
    (hfn : (c.fields.map Prod.fst).Nodup) (hm : ∀ e ∈ c.methods, methodOk e = true) (hmn : (c.methods.map Prod.fst).Nodup)
    (hm' : ∀ e ∈ c'.methods, methodOk e = true) (hmn' : (c'.methods.map Prod.fst).Nodup)
    (h : ClassSh c c') : classLines key c d = classLines key c' d := by
  obtain ⟨hnames, hdoc, hfp, hmp⟩ := h
  have hms : All2 (fun x y => x.1 = y.1 ∧ MethodSh x.2 y.2) (isort methodLe c.methods) (isort methodLe c'.methods) :=
    permRel_isort methodLe_ord (fun a b r => by rw [r.2.2.1, r.2.1]) (methodKey_inj hm hmn) (methodKey_inj hm' hmn') hmp
  have hml := methodLines_all2 (d + 1) hms (mem_isort_all hm)
  simp only [classLines, hnames, hdoc, fields_sorted_eq hf hfn hfp, hml]

/-! ## the set of keys -/

theorem All2.keys_eq {l l' : AList JStr Class} (h : All2 EntrySh l l') : l.map Prod.fst = l'.map Prod.fst :=
  All2.map_eq h (fun _ _ _ _ r => r.1)

theorem shuffled_keys_perm {m m' : Mappings} (h : Shuffled m m') : (m.classes.map Prod.fst).Perm (m'.classes.map Prod.fst) := by
  obtain ⟨a, b, h1, h2, h3⟩ := h
  exact ((h1.map Prod.fst).trans (h2.keys_eq ▸ List.Perm.refl _)).trans (h3.map Prod.fst)

theorem contains_perm {m m' : Mappings} (h : Shuffled m m') (k : JStr) :
    AList.contains k m.classes = AList.contains k m'.classes := by
  have hp := shuffled_keys_perm h
  cases h1 : AList.contains k m.classes with
  | true =>
    exact ((contains_eq_true_iff k _).mpr (hp.subset ((contains_eq_true_iff k _).mp h1))).symm
  | false =>
    cases h2 : AList.contains k m'.classes with
    | false => rfl
    | true =>
      have := (contains_eq_true_iff k _).mpr (hp.symm.subset ((contains_eq_true_iff k _).mp h2))
      rw [h1] at this; exact absurd this (by simp)

theorem parentInSet_perm {m m' : Mappings} (h : Shuffled m m') (k : JStr) :
    parentInSet m.classes k = parentInSet m'.classes k := by
  unfold parentInSet
  cases InnerNames.split k with
  | none => rfl
  | some pi => simp only [contains_perm h]

theorem maxKeyLen_le_iff (cs : AList JStr Class) (n : Nat) : maxKeyLen cs ≤ n ↔ ∀ e ∈ cs, e.1.length ≤ n := by
  unfold maxKeyLen
  have gen : ∀ (l : AList JStr Class) (init : Nat),
      l.foldl (fun a e => max a e.1.length) init ≤ n ↔ init ≤ n ∧ ∀ e ∈ l, e.1.length ≤ n := by
    intro l
    induction l with
    | nil => intro init; simp
    | cons x l ih =>
      intro init
      simp only [List.foldl_cons, ih, List.mem_cons, forall_eq_or_imp]
      constructor
      · intro ⟨h1, h2⟩; exact ⟨by omega, by omega, h2⟩
      · intro ⟨h1, h2, h3⟩; exact ⟨by omega, h3⟩
  rw [gen]; simp

theorem treeFuel_perm {m m' : Mappings} (h : Shuffled m m') : treeFuel m.classes = treeFuel m'.classes := by
  have hp := shuffled_keys_perm h
  have h1 : maxKeyLen m.classes ≤ maxKeyLen m'.classes := by
    rw [maxKeyLen_le_iff]
    intro e he
    obtain ⟨e', he', hk⟩ := List.mem_map.mp (hp.subset (List.mem_map.mpr ⟨e, he, rfl⟩))
    rw [← hk]; exact le_maxKeyLen he'
  have h2 : maxKeyLen m'.classes ≤ maxKeyLen m.classes := by
    rw [maxKeyLen_le_iff]
    intro e he
    obtain ⟨e', he', hk⟩ := List.mem_map.mp (hp.symm.subset (List.mem_map.mpr ⟨e, he, rfl⟩))
    rw [← hk]; exact le_maxKeyLen he'
  simp only [treeFuel]; omega

/-! ## trees -/

theorem entrySh_classLines {m m' : Mappings} (hok : ∀ e ∈ m.classes, classOk m.classes e = true)
    (hok' : ∀ e ∈ m'.classes, classOk m'.classes e = true) {x y : JStr × Class} (hx : x ∈ m.classes) (hy : y ∈ m'.classes)
    (r : EntrySh x y) (d : Nat) : classLines x.1 x.2 d = classLines y.1 y.2 d := by
  obtain ⟨_, _, _, _, _, _, hf, hfn, hm, hmn⟩ := classOk_spec (hok x hx)
  obtain ⟨_, _, _, _, _, _, _, _, hm', hmn'⟩ := classOk_spec (hok' y hy)
  rw [← r.1]
  exact classLines_sh d hf hfn hm hmn hm' hmn' r.2

theorem childrenOf_sh {m m' : Mappings} (hnd : (m.classes.map Prod.fst).Nodup) (hnd' : (m'.classes.map Prod.fst).Nodup)
    (h : Shuffled m m') (key : JStr) : All2 EntrySh (childrenOf m.classes key) (childrenOf m'.classes key) := by
  unfold childrenOf
  refine permRel_isort keyLe_ord (fun a b r => r.1) ?_ ?_ (PermRel.filter ?_ h)
  · intro a ha b hb
    exact inj_of_nodup_keys hnd a (List.mem_filter.mp ha).1 b (List.mem_filter.mp hb).1
  · intro a ha b hb
    exact inj_of_nodup_keys hnd' a (List.mem_filter.mp ha).1 b (List.mem_filter.mp hb).1
  · intro a b r
    rw [parentInSet_perm h, r.1]

theorem concatOpts_congr {α β : Type} {R : α → β → Prop} {f : α → Option (List Text)} {g : β → Option (List Text)} :
    ∀ {l l'}, All2 R l l' → (∀ a ∈ l, ∀ b ∈ l', R a b → f a = g b) → concatOpts (l.map f) = concatOpts (l'.map g) := by
  intro l l' h hfg
  rw [All2.map_eq h hfg]

theorem treeLines_sh {m m' : Mappings} (hok : ∀ e ∈ m.classes, classOk m.classes e = true)
    (hok' : ∀ e ∈ m'.classes, classOk m'.classes e = true) (hnd : (m.classes.map Prod.fst).Nodup)
    (hnd' : (m'.classes.map Prod.fst).Nodup) (h : Shuffled m m') :
    ∀ (fuel : Nat) (x y : JStr × Class), x ∈ m.classes → y ∈ m'.classes → EntrySh x y → ∀ d,
      treeLines m.classes fuel x.1 x.2 d = treeLines m'.classes fuel y.1 y.2 d
  | 0, _, _, _, _, _, _ => rfl
  | fuel + 1, x, y, hx, hy, r, d => by
    have hkids := childrenOf_sh hnd hnd' h x.1
    have hc := concatOpts_congr (f := fun e : JStr × Class => treeLines m.classes fuel e.1 e.2 (d + 1))
      (g := fun e : JStr × Class => treeLines m'.classes fuel e.1 e.2 (d + 1)) hkids (by
        intro a ha b hb rab
        exact treeLines_sh hok hok' hnd hnd' h fuel a b (mem_childrenOf ha).1 (mem_childrenOf hb).1 rab (d + 1))
    simp only [treeLines, entrySh_classLines hok hok' hx hy r d]
    rw [hc, r.1]

/-! ## files -/

def FileSh (x y : JStr × (JStr × Class)) : Prop := x.1 = y.1 ∧ EntrySh x.2 y.2

theorem fileEntries_sh {m m' : Mappings} (hw : writableB m = true) (hw' : writableB m' = true) (h : Shuffled m m') :
    All2 FileSh (fileEntries m) (fileEntries m') := by
  obtain ⟨_, _, hrf⟩ := writableB_spec hw
  obtain ⟨_, _, hrf'⟩ := writableB_spec hw'
  unfold fileEntries
  have hinj : ∀ cs : AList JStr Class, (rootFileNames cs).Nodup →
      ∀ a ∈ rootEntries cs, ∀ b ∈ rootEntries cs, a.1 = b.1 → a = b := by
    intro cs hn
    have : ((rootEntries cs).map Prod.fst).Nodup := by
      rw [rootFileNames_eq] at hn
      simpa [rootEntries, Function.comp_def] using hn
    exact inj_of_nodup_keys this
  refine permRel_isort keyLe_ord (fun a b r => r.1) (hinj _ hrf) (hinj _ hrf') ?_
  unfold rootEntries rootsOf
  refine PermRel.map ?_ (PermRel.filter ?_ h)
  · intro a b r
    refine ⟨?_, r⟩
    simp only [fileNameOf, r.1, r.2.1]
  · intro a b r
    simp only [isRoot, parentInSet_perm h, r.1]

theorem fileTree_sh {m m' : Mappings} (hw : writableB m = true) (hw' : writableB m' = true) (h : Shuffled m m')
    {x y : JStr × Class} (hx : x ∈ m.classes) (hy : y ∈ m'.classes) (r : EntrySh x y) : fileTree m x = fileTree m' y := by
  obtain ⟨hok, hnd, _⟩ := writableB_spec hw
  obtain ⟨hok', hnd', _⟩ := writableB_spec hw'
  simp only [fileTree, treeFuel_perm h]
  exact treeLines_sh hok hok' hnd hnd' h _ x y hx hy r 0

theorem writeAll_go_sh {m m' : Mappings} (hw : writableB m = true) (hw' : writableB m' = true) (h : Shuffled m m') :
    ∀ {fm fm'}, All2 FileSh fm fm' → (∀ x ∈ fm, x.2 ∈ m.classes) → (∀ y ∈ fm', y.2 ∈ m'.classes) →
      writeAllLines.go m fm = writeAllLines.go m' fm'
  | _, _, .nil, _, _ => rfl
  | _, _, .cons (a := a) (b := b) r t, h1, h2 => by
    obtain ⟨fa, na⟩ := a
    obtain ⟨fb, nb⟩ := b
    have e1 : fa = fb := r.1
    subst e1
    simp only [writeAllLines.go, fileTree_sh hw hw' h (h1 _ List.mem_cons_self) (h2 _ List.mem_cons_self) r.2,
      writeAll_go_sh hw hw' h t (fun x hx => h1 x (List.mem_cons_of_mem _ hx)) (fun y hy => h2 y (List.mem_cons_of_mem _ hy))]

theorem files_go_sh {m m' : Mappings} (hw : writableB m = true) (hw' : writableB m' = true) (h : Shuffled m m') :
    ∀ {fm fm'}, All2 FileSh fm fm' → (∀ x ∈ fm, x.2 ∈ m.classes) → (∀ y ∈ fm', y.2 ∈ m'.classes) →
      files.go m fm = files.go m' fm'
  | _, _, .nil, _, _ => rfl
  | _, _, .cons (a := a) (b := b) r t, h1, h2 => by
    obtain ⟨fa, na⟩ := a
    obtain ⟨fb, nb⟩ := b
    have e1 : fa = fb := r.1
    subst e1
    simp only [files.go, fileTree_sh hw hw' h (h1 _ List.mem_cons_self) (h2 _ List.mem_cons_self) r.2,
      files_go_sh hw hw' h t (fun x hx => h1 x (List.mem_cons_of_mem _ hx)) (fun y hy => h2 y (List.mem_cons_of_mem _ hy))]

/-- **insertion-order independence**: two Enigma-expressible sets with the same content give the same stream and the
same files -/
theorem write_shuffled {m m' : Mappings} (hw : writableB m = true) (hw' : writableB m' = true) (h : Shuffled m m') :
    writeAll m = writeAll m' ∧ files m = files m' := by
  have hfe := fileEntries_sh hw hw' h
  have h1 : ∀ x ∈ fileEntries m, x.2 ∈ m.classes := fun x hx => (mem_fileEntries hx).1
  have h2 : ∀ x ∈ fileEntries m', x.2 ∈ m'.classes := fun x hx => (mem_fileEntries hx).1
  constructor
  · simp only [writeAll, writeAllLines, fileMap_spec hw, fileMap_spec hw']
    show (writeAllLines.go m (fileEntries m)).map render = (writeAllLines.go m' (fileEntries m')).map render
    rw [writeAll_go_sh hw hw' h hfe h1 h2]
  · simp only [files, fileMap_spec hw, fileMap_spec hw']
    show files.go m (fileEntries m) = files.go m' (fileEntries m')
    exact files_go_sh hw hw' h hfe h1 h2

end Enigma
