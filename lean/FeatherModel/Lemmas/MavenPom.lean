import FeatherModel.Lemmas.MavenFuel
import FeatherModel.Spec.MavenPom

/-! The model's loops (`get_merged_pom`'s parent stack, `make_dependency_management`, `get_dependencies_tree`) satisfy
Maven's rules of `Spec/MavenPom.lean`, in both directions (C19). -/

namespace Maven

/-! ## scope table -/

theorem scope_table_spec (l t : Scope) :
    theScopeTable l t = (Spec.MavenScope.table l.toSpec t.toSpec).map Scope.ofSpec := by
  cases l <;> cases t <;> decide

/-! ## `merge_parent` in one equation -/

theorem mergeParent_eq (imp : Coord → Res PomDone) (par : Option PomDone) (child : Pom) :
    mergeParent imp par child =
      match inheritCoord par child with
      | none => .err
      | some coord =>
        match makeDMOwn imp child.depMgmt with
        | .ok own =>
          match fillDeps (own ++ parDM par) child.deps with
          | some deps => .ok { coord := coord, depMgmt := own ++ parDM par, deps := deps ++ parDeps par }
          | none => .err
        | .err => .err
        | .fuel => .fuel := by
  cases par with
  | some p =>
    by_cases ht : p.coord.type_ = jstr "pom"
    · simp only [mergeParent, inheritCoord, ht, ne_eq, not_true_eq_false, if_false, if_true, makeDM, makeDeps,
        parDM, parDeps, Option.map_some, Option.getD_some, packagingToType]
      cases makeDMOwn imp child.depMgmt with
      | err => rfl
      | fuel => rfl
      | ok own =>
        simp only []
        cases fillDeps (own ++ p.depMgmt) child.deps <;> rfl
    · simp [mergeParent, inheritCoord, ht]
  | none =>
    simp only [mergeParent, inheritCoord]
    cases child.group with
    | none => rfl
    | some g =>
      cases child.version with
      | none => rfl
      | some v =>
        simp only [makeDM, makeDeps, parDM, parDeps, Option.map_none, Option.getD_none, packagingToType]
        cases makeDMOwn imp child.depMgmt with
        | err => rfl
        | fuel => rfl
        | ok own =>
          simp only []
          cases fillDeps (own ++ []) child.deps <;> rfl

theorem mergeParent_ok_iff (imp : Coord → Res PomDone) (par : Option PomDone) (child : Pom) (e : PomDone) :
    mergeParent imp par child = .ok e ↔
      ∃ own deps coord, inheritCoord par child = some coord ∧ makeDMOwn imp child.depMgmt = .ok own ∧
        fillDeps (own ++ parDM par) child.deps = some deps ∧
        e = { coord := coord, depMgmt := own ++ parDM par, deps := deps ++ parDeps par } := by
  rw [mergeParent_eq]
  constructor
  · intro h
    cases hc : inheritCoord par child with
    | none => simp [hc] at h
    | some coord =>
      cases ho : makeDMOwn imp child.depMgmt with
      | err => simp [hc, ho] at h
      | fuel => simp [hc, ho] at h
      | ok own =>
        cases hd : fillDeps (own ++ parDM par) child.deps with
        | none => simp [hc, ho, hd] at h
        | some deps =>
          simp only [hc, ho, hd, Res.ok.injEq] at h
          exact ⟨own, deps, coord, rfl, rfl, hd, h.symm⟩
  · rintro ⟨own, deps, coord, hc, ho, hd, he⟩
    rw [hc, ho]
    simp only [hd, he]

/-! ## the closure `imp` -/

theorem impOf_ok_iff (U : Universe) (rs : List Resolver) (n : Nat) (c : Coord) (b : PomDone) :
    impOf U rs n c = .ok b ↔ ∃ r, getMergedPom U rs n c = .ok (r, b) := by
  unfold impOf
  cases getMergedPom U rs n c with
  | err => simp
  | fuel => simp
  | ok p =>
    obtain ⟨r, q⟩ := p
    simp only [Res.ok.injEq, Prod.mk.injEq]
    constructor
    · intro h; exact ⟨r, rfl, h⟩
    · rintro ⟨_, _, h⟩; exact h

/-! ## dependency management -/

theorem managed_of_makeDMOwn {imp : Coord → Res PomDone} {E : Coord → PomDone → Prop}
    (hE : ∀ c b, imp c = .ok b → E c b) :
    ∀ (l : List (RawDep (Option Scope))) (own : List DepDone), makeDMOwn imp l = .ok own → Managed E l own := by
  intro l
  induction l with
  | nil =>
    intro own h
    rw [makeDMOwn] at h
    injection h with h
    subst h
    exact Managed.nil
  | cons x rest ih =>
    intro own h
    rw [makeDMOwn] at h
    cases hv : x.version with
    | none => rw [hv] at h; cases h
    | some v =>
      rw [hv] at h
      simp only [] at h
      cases hs : x.scope with
      | none =>
        rw [hs] at h
        simp only [] at h
        cases hr : makeDMOwn imp rest with
        | err => rw [hr] at h; cases h
        | fuel => rw [hr] at h; cases h
        | ok r =>
          rw [hr] at h
          injection h with h
          subst h
          have := Managed.entry (E := E) hv (by rw [hs]; simp) (ih r hr)
          simpa [managedEntry, hs] using this
      | some o =>
        cases o with
        | none =>
          rw [hs] at h
          simp only [] at h
          cases hi : imp (depCoord x.group x.artifact v x.type_ x.classifier) with
          | err => rw [hi] at h; cases h
          | fuel => rw [hi] at h; cases h
          | ok target =>
            rw [hi] at h
            simp only [] at h
            cases hr : makeDMOwn imp rest with
            | err => rw [hr] at h; cases h
            | fuel => rw [hr] at h; cases h
            | ok r =>
              rw [hr] at h
              injection h with h
              subst h
              exact Managed.imp hv hs (hE _ _ hi) (ih r hr)
        | some s =>
          rw [hs] at h
          simp only [] at h
          cases hr : makeDMOwn imp rest with
          | err => rw [hr] at h; cases h
          | fuel => rw [hr] at h; cases h
          | ok r =>
            rw [hr] at h
            injection h with h
            subst h
            have := Managed.entry (E := E) hv (by rw [hs]; simp) (ih r hr)
            simpa [managedEntry, hs] using this

theorem makeDMOwn_of_managed (U : Universe) (rs : List Resolver) {l : List (RawDep (Option Scope))} {own : List DepDone}
    (h : Managed (EffPom U rs) l own) : ∃ N, ∀ n, N ≤ n → makeDMOwn (impOf U rs n) l = .ok own := by
  induction h with
  | nil => exact ⟨0, fun n _ => by rw [makeDMOwn]⟩
  | @entry x v rest r hv hs _ ih =>
    obtain ⟨N, hN⟩ := ih
    refine ⟨N, fun n hn => ?_⟩
    rw [makeDMOwn, hv]
    simp only []
    cases hsc : x.scope with
    | none => simp [hN n hn, managedEntry, hsc]
    | some o =>
      cases o with
      | none => exact absurd hsc hs
      | some s => simp [hN n hn, managedEntry, hsc]
  | @imp x v rest r bom hv hs hE _ ih =>
    obtain ⟨N, hN⟩ := ih
    obtain ⟨rr, k, hk⟩ := hE
    refine ⟨max N k, fun n hn => ?_⟩
    have h1 : impOf U rs n (depCoord x.group x.artifact v x.type_ x.classifier) = .ok bom :=
      Res.le_ok (impOf_mono U rs (by omega : k ≤ n) _) ((impOf_ok_iff U rs k _ _).2 ⟨rr, hk⟩)
    rw [makeDMOwn, hv]
    simp only [hs, h1, hN n (by omega)]

/-! ## the parent stack -/

theorem mergeChain_append (imp : Coord → Res PomDone) :
    ∀ (a b : List Pom) (acc : Option PomDone),
      mergeChain imp acc (a ++ b) =
        match mergeChain imp acc a with
        | .ok acc' => mergeChain imp acc' b
        | .err => .err
        | .fuel => .fuel := by
  intro a
  induction a with
  | nil => intro b acc; rfl
  | cons p rest ih =>
    intro b acc
    rw [List.cons_append, mergeChain, mergeChain]
    cases mergeParent imp acc p with
    | err => rfl
    | fuel => rfl
    | ok m => exact ih b (some m)

theorem getMergedPom_ok_iff (U : Universe) (rs : List Resolver) (n : Nat) (c : Coord) (r : Resolver) (e : PomDone) :
    getMergedPom U rs (n + 1) c = .ok (r, e) ↔
      ∃ pom stack parent, tryGetPom U rs c = .ok (r, pom) ∧ collectParents U rs n pom.parentCoord = .ok stack ∧
        mergeChain (impOf U rs n) none stack.reverse = .ok parent ∧ mergeParent (impOf U rs n) parent pom = .ok e := by
  rw [getMergedPom_succ]
  constructor
  · intro h
    cases h1 : tryGetPom U rs c with
    | err => rw [h1] at h; cases h
    | fuel => rw [h1] at h; cases h
    | ok p =>
      obtain ⟨r', pom⟩ := p
      rw [h1] at h
      simp only [] at h
      cases h2 : collectParents U rs n pom.parentCoord with
      | err => rw [h2] at h; cases h
      | fuel => rw [h2] at h; cases h
      | ok stack =>
        rw [h2] at h
        simp only [] at h
        cases h3 : mergeChain (impOf U rs n) none stack.reverse with
        | err => rw [h3] at h; cases h
        | fuel => rw [h3] at h; cases h
        | ok parent =>
          rw [h3] at h
          simp only [] at h
          cases h4 : mergeParent (impOf U rs n) parent pom with
          | err => rw [h4] at h; cases h
          | fuel => rw [h4] at h; cases h
          | ok m =>
            rw [h4] at h
            simp only [Res.ok.injEq, Prod.mk.injEq] at h
            obtain ⟨hr, hm⟩ := h
            subst hr hm
            exact ⟨pom, stack, parent, rfl, h2, h3, h4⟩
  · rintro ⟨pom, stack, parent, h1, h2, h3, h4⟩
    simp only [h1, h2, h3, h4]

theorem collectParents_some_ok_iff (U : Universe) (rs : List Resolver) (n : Nat) (c : Coord) (stack : List Pom) :
    collectParents U rs n (some c) = .ok stack ↔
      ∃ k r p1 rest, n = k + 1 ∧ tryGetPom U rs c = .ok (r, p1) ∧ collectParents U rs k p1.parentCoord = .ok rest ∧
        stack = p1 :: rest := by
  cases n with
  | zero => simp [collectParents]
  | succ k =>
    rw [collectParents]
    constructor
    · intro h
      cases h1 : tryGetPom U rs c with
      | err => rw [h1] at h; cases h
      | fuel => rw [h1] at h; cases h
      | ok p =>
        obtain ⟨r, p1⟩ := p
        rw [h1] at h
        simp only [] at h
        cases h2 : collectParents U rs k p1.parentCoord with
        | err => rw [h2] at h; cases h
        | fuel => rw [h2] at h; cases h
        | ok rest =>
          rw [h2] at h
          injection h with h
          exact ⟨k, r, p1, rest, rfl, rfl, h2, h.symm⟩
    · rintro ⟨k', r, p1, rest, hk, h1, h2, hs⟩
      have : k = k' := by omega
      subst this
      simp only [h1, h2, hs]

/-- what the parent stack and the merge loop compute is the effective POM of the parent -/
theorem parentEff_of_chain (U : Universe) (rs : List Resolver) (n : Nat) (pc : Option Coord) (stack : List Pom)
    (parent : Option PomDone) (h1 : collectParents U rs n pc = .ok stack)
    (h2 : mergeChain (impOf U rs n) none stack.reverse = .ok parent) : ParentEff (EffPom U rs) pc parent := by
  cases pc with
  | none =>
    have : stack = [] := by
      cases n <;> simp [collectParents] at h1 <;> exact h1
    subst this
    simp only [List.reverse_nil, mergeChain, Res.ok.injEq] at h2
    exact h2.symm
  | some c =>
    obtain ⟨k, r, p1, rest, hn, ht, hc, hs⟩ := (collectParents_some_ok_iff U rs n c stack).1 h1
    subst hs
    rw [List.reverse_cons, mergeChain_append] at h2
    cases h3 : mergeChain (impOf U rs n) none rest.reverse with
    | err => rw [h3] at h2; cases h2
    | fuel => rw [h3] at h2; cases h2
    | ok acc =>
      rw [h3] at h2
      simp only [mergeChain] at h2
      cases h4 : mergeParent (impOf U rs n) acc p1 with
      | err => rw [h4] at h2; cases h2
      | fuel => rw [h4] at h2; cases h2
      | ok m =>
        rw [h4] at h2
        simp only [Res.ok.injEq] at h2
        refine ⟨m, h2.symm, r, n + 1, ?_⟩
        rw [getMergedPom_ok_iff]
        refine ⟨p1, rest, acc, ht, ?_, h3, h4⟩
        exact Res.le_ok (collectParents_mono U rs (by omega : k ≤ n) _) hc

theorem chain_of_parentEff (U : Universe) (rs : List Resolver) (pc : Option Coord) (par : Option PomDone)
    (h : ParentEff (EffPom U rs) pc par) :
    ∃ N, ∀ n, N ≤ n → ∃ stack, collectParents U rs n pc = .ok stack ∧
      mergeChain (impOf U rs n) none stack.reverse = .ok par := by
  cases pc with
  | none =>
    have hp : par = none := h
    subst hp
    refine ⟨0, fun n _ => ⟨[], ?_, rfl⟩⟩
    cases n <;> simp [collectParents]
  | some c =>
    obtain ⟨ep, hp, r, k, hk⟩ := h
    subst hp
    cases k with
    | zero => rw [getMergedPom] at hk; cases hk
    | succ j =>
      obtain ⟨p1, rest, acc, ht, hc, h3, h4⟩ := (getMergedPom_ok_iff U rs j c r ep).1 hk
      refine ⟨j + 1, fun n hn => ⟨p1 :: rest, ?_, ?_⟩⟩
      · rw [collectParents_some_ok_iff]
        refine ⟨n - 1, r, p1, rest, by omega, ht, ?_, rfl⟩
        exact Res.le_ok (collectParents_mono U rs (by omega : j ≤ n - 1) _) hc
      · have himp : ∀ c, (impOf U rs j c).le (impOf U rs n c) := fun c => impOf_mono U rs (by omega) c
        rw [List.reverse_cons, mergeChain_append, Res.le_ok (mergeChain_le himp rest.reverse none) h3]
        simp only [mergeChain, Res.le_ok (mergeParent_le himp acc p1) h4]

/-! ## sequential map with first failure -/

def mapRes {β γ : Type} (f : β → Res γ) : List β → Res (List γ)
  | [] => .ok []
  | x :: xs =>
    match f x with
    | .ok y =>
      match mapRes f xs with
      | .ok ys => .ok (y :: ys)
      | .err => .err
      | .fuel => .fuel
    | .err => .err
    | .fuel => .fuel

theorem depChildren_eq (rec : Coord → Scope → Res (Tree Found)) (scope : Scope) :
    ∀ deps, depChildren rec scope deps = mapRes (fun p => rec p.1 p.2) (transitive scope deps) := by
  intro deps
  induction deps with
  | nil => rfl
  | cons d rest ih =>
    rw [depChildren]
    have ht : transitive scope (d :: rest) =
        (if d.optional = some true then [] else
          match Spec.MavenScope.table scope.toSpec (d.scope.getD .compile).toSpec with
          | none => []
          | some s => [(d.coord, Scope.ofSpec s)]) ++ transitive scope rest := by
      simp only [transitive, List.filterMap_cons]
      split
      · rename_i h
        split at h
        · rename_i ho; simp [ho]
        · rename_i ho
          simp only [ho, if_false]
          cases hh : Spec.MavenScope.table scope.toSpec (d.scope.getD .compile).toSpec with
          | none => rfl
          | some s => rw [hh] at h; simp at h
      · rename_i b h
        split at h
        · cases h
        · rename_i ho
          simp only [ho, if_false]
          cases hh : Spec.MavenScope.table scope.toSpec (d.scope.getD .compile).toSpec with
          | none => rw [hh] at h; simp at h
          | some s =>
            rw [hh] at h
            simp only [Option.map_some, Option.some.injEq] at h
            subst h
            rfl
    rw [ht]
    cases ho : d.optional with
    | none =>
      simp only [Option.getD_none, Bool.false_eq_true, if_false, reduceCtorEq]
      rw [scope_table_spec]
      cases Spec.MavenScope.table scope.toSpec (d.scope.getD .compile).toSpec with
      | none => simpa using ih
      | some s =>
        simp only [Option.map_some, List.cons_append, List.nil_append]
        rw [mapRes, ← ih]
        cases rec d.coord (Scope.ofSpec s) with
        | err => rfl
        | fuel => rfl
        | ok c => cases depChildren rec scope rest <;> rfl
    | some b =>
      cases b with
      | true => simpa using ih
      | false =>
        simp only [Option.getD_some, Bool.false_eq_true, if_false, Option.some.injEq]
        rw [scope_table_spec]
        cases Spec.MavenScope.table scope.toSpec (d.scope.getD .compile).toSpec with
        | none => simpa using ih
        | some s =>
          simp only [Option.map_some, List.cons_append, List.nil_append]
          rw [mapRes, ← ih]
          cases rec d.coord (Scope.ofSpec s) with
          | err => rfl
          | fuel => rfl
          | ok c => cases depChildren rec scope rest <;> rfl

theorem depForest_eq (U : Universe) (rs : List Resolver) (n : Nat) :
    ∀ roots, depForest U rs n roots = mapRes (fun p => depTree U rs n p.1 p.2) roots := by
  intro roots
  induction roots with
  | nil => rfl
  | cons x rest ih =>
    obtain ⟨c, s⟩ := x
    rw [depForest, mapRes, ih]
    cases depTree U rs n c s with
    | err => rfl
    | fuel => rfl
    | ok t => cases mapRes (fun p => depTree U rs n p.1 p.2) rest <;> rfl

theorem treesFor_of_mapRes {T : Coord → Scope → Tree Found → Prop} {f : Coord × Scope → Res (Tree Found)}
    (hT : ∀ p t, f p = .ok t → T p.1 p.2 t) :
    ∀ (l : List (Coord × Scope)) (ts : List (Tree Found)), mapRes f l = .ok ts → TreesFor T l ts := by
  intro l
  induction l with
  | nil =>
    intro ts h
    simp only [mapRes, Res.ok.injEq] at h
    subst h
    exact TreesFor.nil
  | cons x rest ih =>
    intro ts h
    obtain ⟨c, s⟩ := x
    rw [mapRes] at h
    cases h1 : f (c, s) with
    | err => rw [h1] at h; cases h
    | fuel => rw [h1] at h; cases h
    | ok t =>
      rw [h1] at h
      simp only [] at h
      cases h2 : mapRes f rest with
      | err => rw [h2] at h; cases h
      | fuel => rw [h2] at h; cases h
      | ok ts' =>
        rw [h2] at h
        injection h with h
        subst h
        exact TreesFor.cons (hT (c, s) t h1) (ih ts' h2)

theorem mapRes_of_treesFor (U : Universe) (rs : List Resolver) {l : List (Coord × Scope)} {ts : List (Tree Found)}
    (h : TreesFor (DepTreeOf U rs) l ts) :
    ∃ N, ∀ n, N ≤ n → mapRes (fun p => depTree U rs n p.1 p.2) l = .ok ts := by
  induction h with
  | nil => exact ⟨0, fun n _ => rfl⟩
  | @cons c s t rest ts' hT _ ih =>
    obtain ⟨N, hN⟩ := ih
    obtain ⟨k, hk⟩ := hT
    refine ⟨max N k, fun n hn => ?_⟩
    have h1 : depTree U rs n c s = .ok t := Res.le_ok (depTree_mono U rs (by omega : k ≤ n) c s) hk
    simp only [mapRes, h1, hN n (by omega)]

end Maven
