import FeatherModel.Lemmas.TinyCanon

/-! Content equality (C03): the decidable test `contentEqB` used by the oracles is sound for the relation `ContentEq`
the theorems speak about, and the canonical form has the same content as the set it was computed from. -/

namespace Tiny

theorem all2B_sound {α β : Type} {r : α → β → Bool} {R : α → β → Prop} (h : ∀ a b, r a b = true → R a b) :
    ∀ {l : List α} {l' : List β}, all2B r l l' = true → All2 R l l'
  | [], [], _ => .nil
  | [], _ :: _, h' => by simp [all2B] at h'
  | _ :: _, [], h' => by simp [all2B] at h'
  | a :: as, b :: bs, h' => by
    simp only [all2B, Bool.and_eq_true] at h'
    exact .cons (h a b h'.1) (all2B_sound h h'.2)

/-- two lists whose sorted forms are related entry by entry are permutations of each other up to the relation -/
theorem permRel_of_sorted {α : Type} {R : α → α → Prop} (le le' : α → α → Bool) {l l' : List α}
    (h : All2 R (sortBy le l) (sortBy le' l')) : PermRel R l l' :=
  ⟨_, _, (sortBy_perm le l).symm, h, sortBy_perm le' l'⟩

theorem perm_of_sorted_eq {α : Type} (le le' : α → α → Bool) {l l' : List α}
    (h : sortBy le l = sortBy le' l') : l.Perm l' :=
  (sortBy_perm le l).symm.trans (h ▸ sortBy_perm le' l')

theorem methodEqB_sound {a b : Method} (h : methodEqB a b = true) : MethodEquiv a b := by
  simp only [methodEqB, paramsEqB, Bool.and_eq_true, beq_iff_eq, decide_eq_true_eq] at h
  exact ⟨h.1.1.1, h.1.1.2, h.1.2, perm_of_sorted_eq _ _ h.2⟩

theorem classEqB_sound {a b : Class} (h : classEqB a b = true) : ClassEquiv a b := by
  simp only [classEqB, Bool.and_eq_true, beq_iff_eq, decide_eq_true_eq] at h
  refine ⟨h.1.1.1, h.1.1.2, perm_of_sorted_eq _ _ h.1.2, permRel_of_sorted _ _ (all2B_sound ?_ h.2)⟩
  intro x y hxy
  simp only [Bool.and_eq_true, beq_iff_eq] at hxy
  exact ⟨hxy.1, methodEqB_sound hxy.2⟩

/-- the decidable content test implies content equality -/
theorem contentEqB_sound {a b : Mappings} (h : contentEqB a b = true) : ContentEq a b := by
  simp only [contentEqB, Bool.and_eq_true, beq_iff_eq] at h
  refine ⟨h.1.1, h.1.2, permRel_of_sorted _ _ (all2B_sound ?_ h.2)⟩
  intro x y hxy
  simp only [Bool.and_eq_true, beq_iff_eq] at hxy
  exact ⟨hxy.1, classEqB_sound hxy.2⟩

/-! ## the canonical form has the same content -/

theorem all2_mapVals {K V : Type} {R : V → V → Prop} (g : V → V) (h : ∀ v, R v (g v)) :
    ∀ m : AList K V, All2 (fun x y : K × V => x.1 = y.1 ∧ R x.2 y.2) m (AList.mapVals g m)
  | [] => .nil
  | (_, v) :: rest => .cons ⟨rfl, h v⟩ (all2_mapVals g h rest)

theorem methodEquiv_canon (m : Method) : MethodEquiv m (canonMethod m) :=
  ⟨rfl, rfl, rfl, (sortBy_perm _ _).symm⟩

theorem classEquiv_canon (c : Class) : ClassEquiv c (canonClass c) :=
  ⟨rfl, rfl, (sortBy_perm _ _).symm,
    ⟨_, _, List.Perm.refl _, all2_mapVals canonMethod methodEquiv_canon c.methods, (sortBy_perm _ _).symm⟩⟩

/-- `canon` only changes the order of the entries, at every level -/
theorem contentEq_canon (m : Mappings) : ContentEq m (canon m) :=
  ⟨rfl, rfl, ⟨_, _, List.Perm.refl _, all2_mapVals canonClass classEquiv_canon m.classes, (sortBy_perm _ _).symm⟩⟩

/-- content equality of plain permutations of the class list -/
theorem contentEq_of_perm {m : Mappings} {cs : AList JStr Class} (h : m.classes.Perm cs) :
    ContentEq m { m with classes := cs } := by
  refine ⟨rfl, rfl, ⟨m.classes, m.classes, List.Perm.refl _, ?_, h⟩⟩
  have : ∀ l : AList JStr Class, All2 (fun x y : JStr × Class => x.1 = y.1 ∧ ClassEquiv x.2 y.2) l l := by
    intro l
    induction l with
    | nil => exact .nil
    | cons a l ih =>
      refine .cons ⟨rfl, rfl, rfl, List.Perm.refl _, ⟨_, _, List.Perm.refl _, ?_, List.Perm.refl _⟩⟩ ih
      generalize a.2.methods = ms
      induction ms with
      | nil => exact .nil
      | cons b ms ih2 => exact .cons ⟨rfl, rfl, rfl, rfl, List.Perm.refl _⟩ ih2
  exact this _

/-! ## `write?` -/

theorem write?_congr {m m' : Mappings} (hw : wf m = true) (hw' : wf m' = true) (h : ContentEq m m') :
    write? m = write? m' := by
  unfold write? write
  rw [writeOk_congr h, writeLines_congr hw hw' h]

theorem write_canon (m : Mappings) : write (canon m) = write m := by
  unfold write
  rw [writeLines_canon]

theorem write?_canon (m : Mappings) : write? (canon m) = write? m := by
  unfold write?
  rw [← writeOk_congr (contentEq_canon m), write_canon]

end Tiny
