import FeatherModel.Lemmas.TotalCode

/-!
# C16 — the two passes of `read_code` decode the same instruction boundaries

Consequence: when the second pass allocates `Vec::with_capacity(n)` for a `tableswitch` / `lookupswitch` (sites 33,
34), the first pass has already read all `n` offsets (pairs) from the same bytes, so `4n` (`8n`) is at most the code
length: `alloc_bound_code`.

Method: the cursor operations do not depend on the account; they are rewritten as pure `Option` functions (`…P`), after
which one step of the first pass and one step of the second pass at the same cursor can be case-split together.
-/

namespace Total.Code

open TM

/-! ## pure cursor operations -/

theorem ofOption_bind {α β : Type} (o : Option α) (f : α → TM β) :
    (TM.ofOption o >>= f) = (match o with | some a => f a | none => TM.fail) := by
  cases o <;> rfl

def takeP (k : Nat) (c : Cur) : Option (Bytes × Cur) :=
  match Cur.splitExact k c.rest with
  | some (x, r) => some (x, { c with pos := c.pos + k, rest := r })
  | none => none

theorem take_eq (k : Nat) (c : Cur) : c.take k = TM.ofOption (takeP k c) := by
  unfold Cur.take takeP
  cases Cur.splitExact k c.rest with
  | none => rfl
  | some p => rfl

theorem takeP_some {k : Nat} {c : Cur} {x : Bytes} {c' : Cur} (h : takeP k c = some (x, c')) :
    c' = c.skip k ∧ k ≤ c.rest.length ∧ x.length = k := by
  unfold takeP at h
  cases hs : Cur.splitExact k c.rest with
  | none => rw [hs] at h; simp at h
  | some p =>
    obtain ⟨x', r⟩ := p
    rw [hs] at h
    simp only [Option.some.injEq, Prod.mk.injEq] at h
    obtain ⟨h1, h2⟩ := h
    have := splitExact_some k c.rest x' r hs
    subst h1 h2
    refine ⟨?_, by omega, this.2.1⟩
    simp [Cur.skip, this.2.2]

def u8P (c : Cur) : Option (Nat × Cur) :=
  match takeP 1 c with
  | some ([a], c') => some (byte a, c')
  | _ => none

theorem u8_eq (c : Cur) : c.u8 = TM.ofOption (u8P c) := by
  unfold Cur.u8 u8P
  rw [take_eq, ofOption_bind]
  cases takeP 1 c with
  | none => rfl
  | some p =>
    obtain ⟨b, c'⟩ := p
    match b with
    | [] => rfl
    | [a] => rfl
    | _ :: _ :: _ => rfl

theorem u8P_some {c : Cur} {v : Nat} {c' : Cur} (h : u8P c = some (v, c')) : c' = c.skip 1 ∧ 1 ≤ c.rest.length ∧ v ≤ 255 := by
  unfold u8P at h
  cases ht : takeP 1 c with
  | none => rw [ht] at h; simp at h
  | some p =>
    obtain ⟨b, c1⟩ := p
    rw [ht] at h
    match b, h with
    | [a], h =>
      simp only [Option.some.injEq, Prod.mk.injEq] at h
      obtain ⟨h1, h2⟩ := h
      subst h1 h2
      have := takeP_some ht
      exact ⟨this.1, this.2.1, Spec.byte_le a⟩

def i32P (c : Cur) : Option (Int × Cur) :=
  match takeP 4 c with
  | some ([a, b, x, d], c') => some (toI32 (((byte a * 256 + byte b) * 256 + byte x) * 256 + byte d), c')
  | _ => none

theorem i32_eq (c : Cur) : c.i32 = TM.ofOption (i32P c) := by
  unfold Cur.i32 i32P
  rw [take_eq, ofOption_bind]
  cases takeP 4 c with
  | none => rfl
  | some p =>
    obtain ⟨b, c'⟩ := p
    match b with
    | [] => rfl
    | [_] => rfl
    | [_, _] => rfl
    | [_, _, _] => rfl
    | [_, _, _, _] => rfl
    | _ :: _ :: _ :: _ :: _ :: _ => rfl

theorem i32P_some {c : Cur} {v : Int} {c' : Cur} (h : i32P c = some (v, c')) :
    c' = c.skip 4 ∧ 4 ≤ c.rest.length ∧ v ≤ 2147483647 := by
  unfold i32P at h
  cases ht : takeP 4 c with
  | none => rw [ht] at h; simp at h
  | some p =>
    obtain ⟨b, c1⟩ := p
    rw [ht] at h
    match b, h with
    | [a, b, x, d], h =>
      simp only [Option.some.injEq, Prod.mk.injEq] at h
      obtain ⟨h1, h2⟩ := h
      subst h1 h2
      have := takeP_some ht
      refine ⟨this.1, this.2.1, ?_⟩
      have := Spec.byte_le a; have := Spec.byte_le b; have := Spec.byte_le x; have := Spec.byte_le d
      exact (toI32_bounds _ (by omega)).2

def i16P (c : Cur) : Option (Int × Cur) :=
  match takeP 2 c with
  | some ([a, b], c') => some (toI16 (byte a * 256 + byte b), c')
  | _ => none

theorem i16_eq (c : Cur) : c.i16 = TM.ofOption (i16P c) := by
  unfold Cur.i16 Cur.u16 i16P
  rw [take_eq]
  cases takeP 2 c with
  | none => rfl
  | some p =>
    obtain ⟨b, c'⟩ := p
    match b with
    | [] => rfl
    | [_] => rfl
    | [_, _] => rfl
    | _ :: _ :: _ :: _ => rfl

theorem i16P_some {c : Cur} {v : Int} {c' : Cur} (h : i16P c = some (v, c')) : c' = c.skip 2 ∧ 2 ≤ c.rest.length := by
  unfold i16P at h
  cases ht : takeP 2 c with
  | none => rw [ht] at h; simp at h
  | some p =>
    obtain ⟨b, c1⟩ := p
    rw [ht] at h
    match b, h with
    | [a, b], h =>
      simp only [Option.some.injEq, Prod.mk.injEq] at h
      obtain ⟨h1, h2⟩ := h
      subst h1 h2
      have := takeP_some ht
      exact ⟨this.1, this.2.1⟩

def branch16P (p : Nat) (c : Cur) : Option (Nat × Cur) :=
  match i16P c with
  | some (off, c') => if 0 ≤ (p : Int) + off ∧ (p : Int) + off ≤ 65535 then some (((p : Int) + off).toNat, c') else none
  | none => none

theorem branch16_eq (p : Nat) (c : Cur) : c.branch16 p = TM.ofOption (branch16P p c) := by
  unfold Cur.branch16 branch16P
  rw [i16_eq, ofOption_bind]
  cases i16P c with
  | none => rfl
  | some q =>
    obtain ⟨off, c'⟩ := q
    dsimp only
    split <;> rfl

theorem branch16P_some {p : Nat} {c : Cur} {t : Nat} {c' : Cur} (h : branch16P p c = some (t, c')) :
    c' = c.skip 2 ∧ 2 ≤ c.rest.length := by
  unfold branch16P at h
  cases hi : i16P c with
  | none => rw [hi] at h; simp at h
  | some q =>
    obtain ⟨off, c1⟩ := q
    rw [hi] at h
    dsimp only at h
    split at h
    · simp only [Option.some.injEq, Prod.mk.injEq] at h
      obtain ⟨_, h2⟩ := h
      subst h2
      exact i16P_some hi
    · simp at h

def branch32P (p : Nat) (c : Cur) : Option (Nat × Cur) :=
  match i32P c with
  | some (off, c') => if 0 ≤ (p : Int) + off ∧ (p : Int) + off ≤ 65535 then some (((p : Int) + off).toNat, c') else none
  | none => none

theorem branch32_eq (p : Nat) (c : Cur) : c.branch32 p = TM.ofOption (branch32P p c) := by
  unfold Cur.branch32 branch32P
  rw [i32_eq, ofOption_bind]
  cases i32P c with
  | none => rfl
  | some q =>
    obtain ⟨off, c'⟩ := q
    dsimp only
    split <;> rfl

theorem branch32P_some {p : Nat} {c : Cur} {t : Nat} {c' : Cur} (h : branch32P p c = some (t, c')) :
    c' = c.skip 4 ∧ 4 ≤ c.rest.length := by
  unfold branch32P at h
  cases hi : i32P c with
  | none => rw [hi] at h; simp at h
  | some q =>
    obtain ⟨off, c1⟩ := q
    rw [hi] at h
    dsimp only at h
    split at h
    · simp only [Option.some.injEq, Prod.mk.injEq] at h
      obtain ⟨_, h2⟩ := h
      subst h2
      have := i32P_some hi
      exact ⟨this.1, this.2.1⟩
    · simp at h

def padOf (c : Cur) : Nat := if c.pos % 4 = 0 then 0 else 4 - c.pos % 4

def alignP (c : Cur) : Option Cur := (takeP (padOf c) c).map (·.2)

theorem align_eq (c : Cur) : c.align = TM.ofOption (alignP c) := by
  unfold Cur.align alignP padOf
  have h : decide (c.pos % 4 < 4) = true := decide_eq_true (Nat.mod_lt _ (by decide))
  simp only [TM.check, h, if_true]
  rw [take_eq]
  cases takeP (if c.pos % 4 = 0 then 0 else 4 - c.pos % 4) c with
  | none => rfl
  | some q => rfl

theorem alignP_some {c c' : Cur} (h : alignP c = some c') : c' = c.skip (padOf c) ∧ padOf c ≤ c.rest.length := by
  unfold alignP at h
  cases ht : takeP (padOf c) c with
  | none => rw [ht] at h; simp at h
  | some q =>
    obtain ⟨x, c1⟩ := q
    rw [ht] at h
    simp only [Option.map_some, Option.some.injEq] at h
    subst h
    have := takeP_some ht
    exact ⟨this.1, this.2.1⟩

/-! ## `skip` -/

theorem skip_skip (c : Cur) (a b : Nat) : (c.skip a).skip b = c.skip (a + b) := by
  simp [Cur.skip, List.drop_drop, Nat.add_assoc]

theorem skip_zero (c : Cur) : c.skip 0 = c := by cases c; simp [Cur.skip]

theorem skip_rest_length (c : Cur) (a : Nat) : (c.skip a).rest.length = c.rest.length - a := by
  simp [Cur.skip]

theorem skip_pos (c : Cur) (a : Nat) : (c.skip a).pos = c.pos + a := rfl
theorem skip_len (c : Cur) (a : Nat) : (c.skip a).len = c.len := rfl

/-- a failed computation is not `ok` -/
theorem fail_ne_ok {α : Type} (st : Acct) (a : α) : ((TM.fail : TM α) st).1 ≠ .ok a := by simp [TM.fail]

/-! ## the dispatch tables of the two passes agree (all 256 opcodes) -/

def plainOk (op : Nat) : Bool :=
  match operandOf op with
  | some o => skipOf op == some o.size
  | none => true

def loadstoreOk (op : Nat) : Bool :=
  !(((26 ≤ op && op ≤ 45) || (59 ≤ op && op ≤ 78))) || ((operandOf op).isNone && skipOf op == some 0)

def specialOk (op : Nat) : Bool :=
  !(isBranch16 op || isBranch32 op || op == 170 || op == 171 || op == 196) ||
    ((operandOf op).isNone && (skipOf op).isNone && !(26 ≤ op && op ≤ 45) && !(59 ≤ op && op ≤ 78))

def badOk (op : Nat) : Bool :=
  !((operandOf op).isNone && !(26 ≤ op && op ≤ 45) && !(59 ≤ op && op ≤ 78)) || (skipOf op).isNone

theorem tables_all : (List.range 256).all (fun op => plainOk op && loadstoreOk op && specialOk op && badOk op) = true := by
  decide +kernel

theorem tables_at {op : Nat} (h : op ≤ 255) : plainOk op = true ∧ loadstoreOk op = true ∧ specialOk op = true ∧ badOk op = true := by
  have := List.all_eq_true.mp tables_all op (List.mem_range.mpr (by omega))
  simpa [Bool.and_eq_true, and_assoc] using this

theorem tables_plain {op : Nat} (h : op ≤ 255) {o : Operand} (ho : operandOf op = some o) : skipOf op = some o.size := by
  have := (tables_at h).1
  unfold plainOk at this
  rw [ho] at this
  simpa using this

theorem tables_loadstore {op : Nat} (h : op ≤ 255) (hr : (26 ≤ op ∧ op ≤ 45) ∨ (59 ≤ op ∧ op ≤ 78)) :
    operandOf op = none ∧ skipOf op = some 0 := by
  have := (tables_at h).2.1
  unfold loadstoreOk at this
  have hb : ((decide (26 ≤ op) && decide (op ≤ 45)) || (decide (59 ≤ op) && decide (op ≤ 78))) = true := by
    rcases hr with hr | hr <;> simp [hr.1, hr.2]
  rw [hb] at this
  simpa [Option.isNone_iff_eq_none] using this

/-- the remaining arms: no plain arm in either pass -/
theorem tables_special {op : Nat} (h : op ≤ 255)
    (hs : isBranch16 op = true ∨ isBranch32 op = true ∨ op = 170 ∨ op = 171 ∨ op = 196) :
    operandOf op = none ∧ skipOf op = none ∧ ¬ (26 ≤ op ∧ op ≤ 45) ∧ ¬ (59 ≤ op ∧ op ≤ 78) := by
  have := (tables_at h).2.2.1
  unfold specialOk at this
  have hb : (isBranch16 op || isBranch32 op || op == 170 || op == 171 || op == 196) = true := by
    rcases hs with hs | hs | hs | hs | hs <;> simp [hs]
  rw [hb] at this
  have t : ((operandOf op = none ∧ skipOf op = none) ∧ (op < 26 ∨ 45 < op)) ∧ (op < 59 ∨ 78 < op) := by
    simpa [Option.isNone_iff_eq_none] using this
  exact ⟨t.1.1.1, t.1.1.2, by omega, by omega⟩

/-- an opcode that is in no arm of the second pass is in no arm of the first -/
theorem tables_bad {op : Nat} (h : op ≤ 255) (h1 : operandOf op = none) (h2 : ¬ (26 ≤ op ∧ op ≤ 45)) (h3 : ¬ (59 ≤ op ∧ op ≤ 78)) :
    skipOf op = none := by
  have := (tables_at h).2.2.2
  unfold badOk at this
  have hb : ((operandOf op).isNone && !(decide (26 ≤ op) && decide (op ≤ 45)) && !(decide (59 ≤ op) && decide (op ≤ 78))) = true := by
    simp only [h1, Option.isNone_none, Bool.true_and, Bool.and_eq_true, Bool.not_eq_true', Bool.and_eq_false_imp, decide_eq_true_eq,
      decide_eq_false_iff_not]
    constructor <;> intro hh <;> omega
  rw [hb] at this
  simpa [Option.isNone_iff_eq_none] using this

theorem tables_wide : ∀ w, w ≤ 255 →
    (wideSkipOf w = (if (21 ≤ w ∧ w ≤ 25) ∨ (54 ≤ w ∧ w ≤ 58) ∨ w = 169 then some 2 else if w = 132 then some 4 else none)) := by
  intro w _; rfl

/-! ## shape of the switch loops -/

theorem pass1Table_shape (p : Nat) : ∀ (n : Nat) (l : Labels) (c : Cur) (st : Acct) (l' : Labels) (c' : Cur),
    (pass1Table p n l c st).1 = .ok (l', c') → c' = c.skip (4 * n) ∧ 4 * n ≤ c.rest.length
  | 0, l, c, st, l', c', h => by
    simp only [pass1Table, ret_apply, Outcome.ok.injEq, Prod.mk.injEq] at h
    rw [← h.2]
    exact ⟨(skip_zero c).symm, Nat.zero_le _⟩
  | n + 1, l, c, st, l', c', h => by
    unfold pass1Table at h
    rw [branch32_eq, ofOption_bind] at h
    cases hb : branch32P p c with
    | none => rw [hb] at h; exact absurd h (fail_ne_ok _ _)
    | some q =>
      obtain ⟨t, c1⟩ := q
      rw [hb] at h
      dsimp only at h
      rw [bnd_apply] at h
      cases hg : Labels.getOrCreate l t st with
      | mk o st1 =>
        rw [hg] at h
        cases o with
        | err => simp at h
        | panic s => simp at h
        | ok l1 =>
          dsimp only at h
          have ih := pass1Table_shape p n l1 c1 st1 l' c' h
          have hb' := branch32P_some hb
          obtain ⟨e1, e2⟩ := hb'
          subst e1
          rw [skip_skip, skip_rest_length] at ih
          refine ⟨?_, by omega⟩
          rw [ih.1]; congr 1; omega

theorem pass1Pairs_shape (p : Nat) : ∀ (n : Nat) (l : Labels) (c : Cur) (st : Acct) (l' : Labels) (c' : Cur),
    (pass1Pairs p n l c st).1 = .ok (l', c') → c' = c.skip (8 * n) ∧ 8 * n ≤ c.rest.length
  | 0, l, c, st, l', c', h => by
    simp only [pass1Pairs, ret_apply, Outcome.ok.injEq, Prod.mk.injEq] at h
    rw [← h.2]
    exact ⟨(skip_zero c).symm, Nat.zero_le _⟩
  | n + 1, l, c, st, l', c', h => by
    unfold pass1Pairs at h
    rw [i32_eq, ofOption_bind] at h
    cases hk : i32P c with
    | none => rw [hk] at h; exact absurd h (fail_ne_ok _ _)
    | some q0 =>
      obtain ⟨k, c0⟩ := q0
      rw [hk] at h
      dsimp only at h
      rw [branch32_eq, ofOption_bind] at h
      cases hb : branch32P p c0 with
      | none => rw [hb] at h; exact absurd h (fail_ne_ok _ _)
      | some q =>
        obtain ⟨t, c1⟩ := q
        rw [hb] at h
        dsimp only at h
        rw [bnd_apply] at h
        cases hg : Labels.getOrCreate l t st with
        | mk o st1 =>
          rw [hg] at h
          cases o with
          | err => simp at h
          | panic s => simp at h
          | ok l1 =>
            dsimp only at h
            have ih := pass1Pairs_shape p n l1 c1 st1 l' c' h
            obtain ⟨e0, e0'⟩ := i32P_some hk
            obtain ⟨e1, e2⟩ := branch32P_some hb
            subst e0 e1
            rw [skip_skip, skip_skip, skip_rest_length, skip_rest_length] at ih
            rw [skip_rest_length] at e2
            refine ⟨?_, by omega⟩
            rw [ih.1]; congr 1; omega

theorem pass2Table_skip (l : Labels) (p : Nat) : ∀ (n : Nat) (c : Cur),
    Spec openSites B (pass2Table l p n c) (fun c' => c' = c.skip (4 * n))
  | 0, c => Spec.ret _ (skip_zero c).symm
  | n + 1, c => by
    unfold pass2Table
    rw [branch32_eq, ofOption_bind]
    cases hb : branch32P p c with
    | none => exact Spec.fail
    | some q =>
      obtain ⟨t, c1⟩ := q
      dsimp only
      refine Spec.bind (Labels.tryGet_spec l t) (fun _ _ => ?_)
      refine Spec.weaken (pass2Table_skip l p n c1) (fun c' h => ?_)
      rw [h, (branch32P_some hb).1, skip_skip]; congr 1; omega

theorem pass2Pairs_skip (l : Labels) (p : Nat) : ∀ (n : Nat) (c : Cur),
    Spec openSites B (pass2Pairs l p n c) (fun c' => c' = c.skip (8 * n))
  | 0, c => Spec.ret _ (skip_zero c).symm
  | n + 1, c => by
    unfold pass2Pairs
    rw [i32_eq, ofOption_bind]
    cases hk : i32P c with
    | none => exact Spec.fail
    | some q0 =>
      obtain ⟨k, c0⟩ := q0
      dsimp only
      rw [branch32_eq, ofOption_bind]
      cases hb : branch32P p c0 with
      | none => exact Spec.fail
      | some q =>
        obtain ⟨t, c1⟩ := q
        dsimp only
        refine Spec.bind (Labels.tryGet_spec l t) (fun _ _ => ?_)
        refine Spec.weaken (pass2Pairs_skip l p n c1) (fun c' h => ?_)
        rw [h, (branch32P_some hb).1, (i32P_some hk).1, skip_skip, skip_skip]; congr 1; omega

/-! ## one step of the first pass and one step of the second pass at the same cursor -/

variable {B : Nat}

def tableCountP (low high : Int) : Option Nat :=
  if low > high then none else if high - low > 2147483646 then none else some (high - low + 1).toNat

theorem tableCount_eq (low high : Int) : tableCount low high = TM.ofOption (tableCountP low high) := by
  unfold tableCount tableCountP
  split
  · rfl
  · split <;> rfl

def pairCountP (n : Int) : Option Nat := if n < 0 then none else some n.toNat

theorem pairCount_eq (n : Int) : pairCount n = TM.ofOption (pairCountP n) := by
  unfold pairCount pairCountP
  split <;> rfl

theorem bind_pure_snd {α β : Type} {m : TM α} {c2 : β} {st : Acct} {a1 : α} {c1 : β}
    (h : ((m >>= fun a => (pure (a, c2) : TM (α × β))) st).1 = .ok (a1, c1)) : c2 = c1 := by
  rw [bnd_apply] at h
  cases hm : m st with
  | mk o st1 =>
    rw [hm] at h
    cases o with
    | ok a => simp only [ret_apply, Outcome.ok.injEq, Prod.mk.injEq] at h; exact h.2
    | err => simp at h
    | panic s => simp at h

/-- if the first computation of a sequence succeeds overall, it succeeded itself -/
theorem bind_ok_inv {α β : Type} {m : TM α} {f : α → TM β} {st : Acct} {b : β}
    (h : ((m >>= f) st).1 = .ok b) : ∃ a st1, m st = (.ok a, st1) ∧ (f a st1).1 = .ok b := by
  rw [bnd_apply] at h
  cases hm : m st with
  | mk o st1 =>
    rw [hm] at h
    cases o with
    | ok a => exact ⟨a, st1, rfl, h⟩
    | err => simp at h
    | panic s => simp at h

theorem step_agree (hB : 65535 ≤ B) (l l2 : Labels) (c : Cur) (st : Acct) (l1 : Labels) (c1 : Cur)
    (hw : WF c) (hlen : c.len ≤ 65535) (h : (pass1Step l c st).1 = .ok (l1, c1)) :
    Spec openSites B (pass2Step l2 c) (fun c2 => c2 = c1) := by
  unfold pass1Step at h
  unfold pass2Step
  rw [u8_eq, ofOption_bind] at h ⊢
  cases hu : u8P c with
  | none => exact Spec.fail
  | some q =>
    obtain ⟨op, c'⟩ := q
    rw [hu] at h
    dsimp only at h ⊢
    obtain ⟨ec, hc1, hop⟩ := u8P_some hu
    cases ho : operandOf op with
    | some o =>
      have hs := tables_plain hop ho
      rw [hs] at h
      simp only [ret_apply, Outcome.ok.injEq, Prod.mk.injEq] at h
      dsimp only
      exact Spec.weaken (readOperand_spec o c') (fun c2 h2 => by rw [← h.2]; exact h2.1.eq_skip h2.2)
    | none =>
      dsimp only
      have hrest : c'.rest.length = c.rest.length - 1 := by rw [ec, skip_rest_length]
      have hroom : c.rest.length ≤ 65535 := by simp only [WF] at hw; omega
      by_cases h26 : 26 ≤ op ∧ op ≤ 45
      · have ts := tables_loadstore hop (Or.inl h26)
        rw [ts.2] at h
        simp only [ret_apply, Outcome.ok.injEq, Prod.mk.injEq] at h
        rw [if_pos h26]
        refine Spec.bind (loadStoreN_spec _ _ _ 26 21 op h26.1 (by omega) (by decide)) (fun _ _ => Spec.ret _ ?_)
        rw [← h.2, skip_zero]
      · rw [if_neg h26]
        by_cases h59 : 59 ≤ op ∧ op ≤ 78
        · have ts := tables_loadstore hop (Or.inr h59)
          rw [ts.2] at h
          simp only [ret_apply, Outcome.ok.injEq, Prod.mk.injEq] at h
          rw [if_pos h59]
          refine Spec.bind (loadStoreN_spec _ _ _ 59 54 op h59.1 (by omega) (by decide)) (fun _ _ => Spec.ret _ ?_)
          rw [← h.2, skip_zero]
        · rw [if_neg h59]
          have hsk : skipOf op = none := tables_bad hop ho h26 h59
          rw [hsk] at h
          dsimp only at h
          by_cases hb16 : isBranch16 op = true
          · have hne : op ≠ 196 := by intro e; subst e; simp [isBranch16] at hb16
            rw [if_neg hne, if_pos hb16, branch16_eq, ofOption_bind] at h
            rw [if_pos hb16, branch16_eq, ofOption_bind]
            cases hbr : branch16P c.pos c' with
            | none => exact Spec.fail
            | some q =>
              obtain ⟨t, c2⟩ := q
              rw [hbr] at h
              dsimp only at h ⊢
              have e := bind_pure_snd h
              exact Spec.bind (Labels.tryGet_spec l2 t) (fun _ _ => Spec.ret _ e)
          · rw [if_neg hb16]
            by_cases hb32 : isBranch32 op = true
            · have hne : op ≠ 196 := by intro e; subst e; simp [isBranch32] at hb32
              rw [if_neg hne, if_neg hb16, if_pos hb32, branch32_eq, ofOption_bind] at h
              rw [if_pos hb32, branch32_eq, ofOption_bind]
              cases hbr : branch32P c.pos c' with
              | none => exact Spec.fail
              | some q =>
                obtain ⟨t, c2⟩ := q
                rw [hbr] at h
                dsimp only at h ⊢
                have e := bind_pure_snd h
                exact Spec.bind (Labels.tryGet_spec l2 t) (fun _ _ => Spec.ret _ e)
            · rw [if_neg hb32]
              by_cases h170 : op = 170
              · subst h170
                rw [if_neg (by decide), if_neg hb16, if_neg hb32, if_pos rfl, align_eq, ofOption_bind] at h
                rw [if_pos rfl, align_eq, ofOption_bind]
                cases ha : alignP c' with
                | none => exact Spec.fail
                | some c2 =>
                  rw [ha] at h
                  dsimp only at h ⊢
                  rw [branch32_eq, ofOption_bind] at h ⊢
                  cases hbr : branch32P c.pos c2 with
                  | none => exact Spec.fail
                  | some q =>
                    obtain ⟨t, c3⟩ := q
                    rw [hbr] at h
                    dsimp only at h ⊢
                    obtain ⟨la, st1, _, h⟩ := bind_ok_inv h
                    refine Spec.bind (Labels.tryGet_spec l2 t) (fun _ _ => ?_)
                    rw [i32_eq, ofOption_bind] at h ⊢
                    cases hlo : i32P c3 with
                    | none => exact Spec.fail
                    | some q =>
                      obtain ⟨low, c4⟩ := q
                      rw [hlo] at h
                      dsimp only at h ⊢
                      rw [i32_eq, ofOption_bind] at h ⊢
                      cases hhi : i32P c4 with
                      | none => exact Spec.fail
                      | some q =>
                        obtain ⟨high, c5⟩ := q
                        rw [hhi] at h
                        dsimp only at h ⊢
                        rw [tableCount_eq, ofOption_bind] at h ⊢
                        cases hn : tableCountP low high with
                        | none => exact Spec.fail
                        | some n =>
                          rw [hn] at h
                          dsimp only at h ⊢
                          have sh := pass1Table_shape _ n la c5 st1 l1 c1 h
                          have e2 := (alignP_some ha)
                          have e3 := (branch32P_some hbr)
                          have e4 := (i32P_some hlo)
                          have e5 := (i32P_some hhi)
                          have hr5 : c5.rest.length ≤ c.rest.length := by
                            rw [e5.1, e4.1, e3.1, e2.1, ec]
                            simp only [skip_rest_length]
                            omega
                          refine Spec.bind (Spec.request (by omega)) (fun _ _ => ?_)
                          exact Spec.weaken (pass2Table_skip l2 _ n c5) (fun c6 h6 => by rw [h6, sh.1])
              · rw [if_neg h170]
                by_cases h171 : op = 171
                · subst h171
                  rw [if_neg (by decide), if_neg hb16, if_neg hb32, if_neg (by decide), if_pos rfl, align_eq, ofOption_bind] at h
                  rw [if_pos rfl, align_eq, ofOption_bind]
                  cases ha : alignP c' with
                  | none => exact Spec.fail
                  | some c2 =>
                    rw [ha] at h
                    dsimp only at h ⊢
                    rw [branch32_eq, ofOption_bind] at h ⊢
                    cases hbr : branch32P c.pos c2 with
                    | none => exact Spec.fail
                    | some q =>
                      obtain ⟨t, c3⟩ := q
                      rw [hbr] at h
                      dsimp only at h ⊢
                      obtain ⟨la, st1, _, h⟩ := bind_ok_inv h
                      refine Spec.bind (Labels.tryGet_spec l2 t) (fun _ _ => ?_)
                      rw [i32_eq, ofOption_bind] at h ⊢
                      cases hlo : i32P c3 with
                      | none => exact Spec.fail
                      | some q =>
                        obtain ⟨np, c4⟩ := q
                        rw [hlo] at h
                        dsimp only at h ⊢
                        rw [pairCount_eq, ofOption_bind] at h ⊢
                        cases hn : pairCountP np with
                        | none => exact Spec.fail
                        | some n =>
                          rw [hn] at h
                          dsimp only at h ⊢
                          have sh := pass1Pairs_shape _ n la c4 st1 l1 c1 h
                          have e2 := (alignP_some ha)
                          have e3 := (branch32P_some hbr)
                          have e4 := (i32P_some hlo)
                          have hr4 : c4.rest.length ≤ c.rest.length := by
                            rw [e4.1, e3.1, e2.1, ec]
                            simp only [skip_rest_length]
                            omega
                          refine Spec.bind (Spec.request (by omega)) (fun _ _ => ?_)
                          exact Spec.weaken (pass2Pairs_skip l2 _ n c4) (fun c6 h6 => by rw [h6, sh.1])
                · rw [if_neg h171]
                  by_cases h196 : op = 196
                  · subst h196
                    rw [if_pos rfl, u8_eq, ofOption_bind] at h
                    rw [if_pos rfl, u8_eq, ofOption_bind]
                    cases hw8 : u8P c' with
                    | none => exact Spec.fail
                    | some q =>
                      obtain ⟨w, c2⟩ := q
                      rw [hw8] at h
                      dsimp only at h ⊢
                      by_cases hw2 : (21 ≤ w ∧ w ≤ 25) ∨ (54 ≤ w ∧ w ≤ 58) ∨ w = 169
                      · have : wideSkipOf w = some 2 := by unfold wideSkipOf; rw [if_pos hw2]
                        rw [this] at h
                        simp only [ret_apply, Outcome.ok.injEq, Prod.mk.injEq] at h
                        rw [if_pos hw2]
                        refine Spec.bind (Cur.take_spec 2 c2) (fun ⟨_, c3⟩ h3 => Spec.ret _ ?_)
                        rw [← h.2]; exact h3.1.eq_skip h3.2.1
                      · rw [if_neg hw2]
                        by_cases hw4 : w = 132
                        · have : wideSkipOf w = some 4 := by unfold wideSkipOf; rw [if_neg hw2, if_pos hw4]
                          rw [this] at h
                          simp only [ret_apply, Outcome.ok.injEq, Prod.mk.injEq] at h
                          rw [if_pos hw4]
                          refine Spec.bind (Cur.take_spec 4 c2) (fun ⟨_, c3⟩ h3 => Spec.ret _ ?_)
                          rw [← h.2]; exact h3.1.eq_skip h3.2.1
                        · rw [if_neg hw4]
                          exact Spec.fail
                  · rw [if_neg h196]
                    exact Spec.fail


/-! ## the second pass follows the first -/

theorem Spec.and {α : Type} {S S' : List Nat} {B B' : Nat} {m : TM α} {Q R : α → Prop}
    (h1 : Spec S B m Q) (h2 : Spec S' B' m R) : Spec S B m (fun a => Q a ∧ R a) := by
  intro st
  have a := h1 st
  have b := (h2 st).2
  refine ⟨a.1, ?_⟩
  cases hr : (m st).1 with
  | ok x => rw [hr] at a b; exact ⟨a.2, b⟩
  | err => trivial
  | panic s => rw [hr] at a; exact a.2

/-- the first pass, started at this cursor with some labels, succeeds -/
def Scanned (c : Cur) : Prop := ∃ fuel l st l', (pass1 fuel l c st).1 = .ok l'

theorem Scanned.step {c : Cur} (hs : Scanned c) (hlt : c.pos < c.len) :
    ∃ l st l1 c1, (pass1Step l c st).1 = .ok (l1, c1) ∧ Scanned c1 := by
  obtain ⟨fuel, l, st, l', h⟩ := hs
  cases fuel with
  | zero =>
    unfold pass1 at h
    rw [if_neg (by omega)] at h
    exact absurd h (fail_ne_ok _ _)
  | succ fuel =>
    unfold pass1 at h
    rw [if_pos hlt] at h
    obtain ⟨⟨l1, c1⟩, st1, h1, h2⟩ := bind_ok_inv h
    exact ⟨l, st, l1, c1, by rw [h1], fuel, l1, st1, l', h2⟩

/-- the second pass after a successful first pass: every request, including the two `with_capacity(n)` of the switch
arms, is at most 65535 -/
theorem pass2_spec_scanned (hB : 65535 ≤ B) (l2 : Labels) : ∀ (fuel : Nat) (c : Cur), WF c → c.len ≤ 65535 → Scanned c →
    Spec openSites B (pass2 l2 fuel c) (fun _ => True)
  | 0, c, h, _, _ => by
    unfold pass2
    refine Spec.bind (Spec.check_true (by simp only [WF] at h; simp; omega)) (fun _ _ => ?_)
    split <;> first | exact Spec.ret _ trivial | exact Spec.fail
  | fuel + 1, c, h, hl, hs => by
    unfold pass2
    refine Spec.bind (Spec.check_true (by simp only [WF] at h; simp; omega)) (fun _ _ => ?_)
    split
    · rename_i hlt
      obtain ⟨l, st, l1, c1, h1, hs1⟩ := hs.step hlt
      refine Spec.bind (Spec.and (step_agree hB l l2 c st l1 c1 h hl h1) (pass2Step_spec (B := 2147483647) (Nat.le_refl _) l2 c))
        (fun c2 h2 => ?_)
      obtain ⟨e, ha, _⟩ := h2
      subst e
      exact pass2_spec_scanned hB l2 fuel c2 (h.adv ha) (by rw [ha.2.1]; exact hl) hs1
    · exact Spec.ret _ trivial

/-- `read_code`: no panic, and every allocation request is at most `B` for any `B ≥ 65535` that also bounds the input
length: 16-bit counts, the switch capacities of the second pass (through the agreement of the passes) and the buffers
of `read_u8_vec`, which hold bytes that are present -/
theorem readCode_spec_sharp (hB : 65535 ≤ B) (s : Bytes) (hs : s.length ≤ B) : Spec openSites B (readCode s) (fun _ => True) :=
  readCode_spec_gen hB s hs (fun code l hlen hsc => by
    obtain ⟨l0, st, l1, h⟩ := hsc
    exact pass2_spec_scanned hB l code.length (Cur.start code) (WF.start code) (by simpa [Cur.start] using hlen)
      ⟨code.length, l0, st, l1, h⟩)

theorem codeOp_spec_sharp (body : Bytes) : Spec openSites (max 65535 (body.length + 2)) (codeOp body) (fun _ => True) :=
  readCode_spec_sharp (Nat.le_max_left _ _) _ (by simp only [List.length_append, List.length_cons, List.length_nil]; omega)

end Total.Code
