import FeatherModel.Lemmas.MergeJarSlice

/-! Lemmas for C13, part 3: InnerClasses and the class-level merge. -/
set_option linter.unusedSectionVars false
namespace MergeJar
open Outcome

/-! ### InnerClasses -/
def innerElem (c s : List Inner) (i : JStr) : Outcome Inner :=
  match get i (collect (fun x : Inner => x.name) c), get i (collect (fun x : Inner => x.name) s) with
  | some ec, some es => if ec == es then ok ec else err
  | some ec, none => ok ec
  | none, some es => ok es
  | none, none => Outcome.panic "unreachable"

theorem mergeInners_eq (c s : List Inner) :
    mergeInners c s = mapM' (innerElem c s) (mergePreserveOrder (c.map (·.name)) (s.map (·.name))) := by
  unfold mergeInners mergeSlice
  simp only []
  congr
  funext i
  unfold innerElem
  cases get i (collect (fun x : Inner => x.name) c) <;> cases get i (collect (fun x : Inner => x.name) s) <;> rfl

theorem innerElem_ok {c s : List Inner} {i : JStr} {m : Inner} (h : innerElem c s i = ok m) :
    m.name = i ∧ (m ∈ c ∨ m ∈ s) := by
  unfold innerElem at h
  cases hc : get i (collect (fun x : Inner => x.name) c) with
  | some ec =>
    obtain ⟨hec, hkc⟩ := get_collect_some hc
    cases hs : get i (collect (fun x : Inner => x.name) s) with
    | some es =>
      rw [hc, hs] at h
      simp only at h
      by_cases he : (ec == es) = true
      · simp only [he, if_true, Outcome.ok.injEq] at h; subst h; exact ⟨hkc, Or.inl hec⟩
      · simp [he] at h
    | none =>
      rw [hc, hs] at h
      simp only [Outcome.ok.injEq] at h
      subst h; exact ⟨hkc, Or.inl hec⟩
  | none =>
    cases hs : get i (collect (fun x : Inner => x.name) s) with
    | some es =>
      obtain ⟨hes, hks⟩ := get_collect_some hs
      rw [hc, hs] at h
      simp only [Outcome.ok.injEq] at h
      subst h; exact ⟨hks, Or.inr hes⟩
    | none => rw [hc, hs] at h; simp at h

theorem innerElem_total {c s : List Inner} (hf : sharedInnersOk c s = true) {i : JStr}
    (hi : i ∈ mergePreserveOrder (c.map (·.name)) (s.map (·.name))) : ∃ m, innerElem c s i = ok m := by
  unfold innerElem
  cases hc : get i (collect (fun x : Inner => x.name) c) with
  | some ec =>
    obtain ⟨hec, hkc⟩ := get_collect_some hc
    cases hs : get i (collect (fun x : Inner => x.name) s) with
    | some es =>
      obtain ⟨hes, hks⟩ := get_collect_some hs
      simp only
      unfold sharedInnersOk at hf
      simp only [List.all_eq_true] at hf
      have := hf ec hec es hes
      have hk : ec.name = es.name := by rw [hkc, hks]
      simp only [hk, bne_self_eq_false, Bool.false_or] at this
      exact ⟨ec, by simp only [this, if_true]⟩
    | none => exact ⟨_, rfl⟩
  | none =>
    have hnc := get_collect_none hc
    cases hs : get i (collect (fun x : Inner => x.name) s) with
    | some es => exact ⟨_, rfl⟩
    | none =>
      have hns := get_collect_none hs
      exfalso
      cases mpo_mem_subset _ _ i hi with
      | inl h =>
        simp only [List.mem_map] at h
        obtain ⟨m, hm, hk⟩ := h
        exact hnc m hm hk
      | inr h =>
        simp only [List.mem_map] at h
        obtain ⟨m, hm, hk⟩ := h
        exact hns m hm hk

theorem mergeInners_total {c s : List Inner} (hf : sharedInnersOk c s = true) : ∃ r, mergeInners c s = ok r := by
  rw [mergeInners_eq]
  exact mapM'_total (fun k hk => innerElem_total hf hk)

/-! ### class_merger_merge -/

theorem mergeFromClient_ok {α : Type} [BEq α] [LawfulBEq α] {c s r : α} (h : mergeFromClient c s = ok r) : c = s ∧ r = c := by
  unfold mergeFromClient at h
  by_cases hne : (c != s) = true
  · simp [hne] at h
  · simp only [hne, Bool.false_eq_true, if_false, Outcome.ok.injEq] at h
    have hcs : c = s := by
      apply Classical.byContradiction
      intro hx; exact hne (by simpa using hx)
    exact ⟨hcs, h.symm⟩

theorem mergeEq_ok {α : Type} [BEq α] [LawfulBEq α] {c s r : α} (h : mergeEq c s = ok r) : c = s ∧ r = c := by
  unfold mergeEq at h
  by_cases hne : (c != s) = true
  · simp [hne] at h
  · simp only [hne, Bool.false_eq_true, if_false, Outcome.ok.injEq] at h
    have hcs : c = s := by
      apply Classical.byContradiction
      intro hx; exact hne (by simpa using hx)
    exact ⟨hcs, h.symm⟩

theorem bind_ok {α β : Type} {x : Outcome α} {f : α → Outcome β} {r : β} (h : (x >>= f) = ok r) :
    ∃ a, x = ok a ∧ f a = ok r := by
  cases x with
  | ok a => exact ⟨a, rfl, h⟩
  | err => simp at h
  | panic s => simp at h

/-- inversion of a successful class merge -/
theorem mergeClass_ok {c s r : Class} (h : mergeClass c s = ok r) :
    c.version = s.version ∧ c.access = s.access ∧ c.name = s.name ∧ c.super = s.super ∧
    c.deprecated = s.deprecated ∧ c.synthetic = s.synthetic ∧
    ∃ fields methods inners,
      mergeMembers c.fields s.fields = ok fields ∧ mergeMembers c.methods s.methods = ok methods ∧
      mergeInners c.inners s.inners = ok inners ∧
      r = { version := c.version, access := c.access, name := c.name, super := c.super,
            interfaces := mergePreserveOrder c.interfaces s.interfaces, fields := fields, methods := methods,
            deprecated := c.deprecated, synthetic := c.synthetic, inners := inners, payload := c.payload,
            visAnns := c.visAnns,
            invisAnns := if (itfMarks c s (mergePreserveOrder c.interfaces s.interfaces)).isEmpty then c.invisAnns
              else c.invisAnns ++ [Ann.envItfs (itfMarks c s (mergePreserveOrder c.interfaces s.interfaces))] } := by
  unfold mergeClass at h
  simp only [] at h
  obtain ⟨v, hv, h⟩ := bind_ok h
  obtain ⟨ac, hac, h⟩ := bind_ok h
  obtain ⟨n, hn, h⟩ := bind_ok h
  obtain ⟨su, hsu, h⟩ := bind_ok h
  obtain ⟨f, hf, h⟩ := bind_ok h
  obtain ⟨m, hm, h⟩ := bind_ok h
  obtain ⟨d, hd, h⟩ := bind_ok h
  obtain ⟨sy, hsy, h⟩ := bind_ok h
  obtain ⟨inn, hinn, h⟩ := bind_ok h
  obtain ⟨e1, r1⟩ := mergeFromClient_ok hv
  obtain ⟨e2, r2⟩ := mergeFromClient_ok hac
  obtain ⟨e3, r3⟩ := mergeEq_ok hn
  obtain ⟨e4, r4⟩ := mergeEq_ok hsu
  obtain ⟨e5, r5⟩ := mergeFromClient_ok hd
  obtain ⟨e6, r6⟩ := mergeFromClient_ok hsy
  subst r1 r2 r3 r4 r5 r6
  simp only [pure_eq_ok, Outcome.ok.injEq] at h
  exact ⟨e1, e2, e3, e4, e5, e6, f, m, inn, hf, hm, hinn, h.symm⟩

theorem mergeClass_total {c s : Class} (h : mergeOk c s = true) : ∃ r, mergeClass c s = ok r := by
  unfold mergeOk at h
  simp only [Bool.and_eq_true, beq_iff_eq] at h
  obtain ⟨⟨⟨⟨⟨⟨⟨⟨⟨⟨⟨⟨⟨⟨h1, h2⟩, h3⟩, h4⟩, h5⟩, h6⟩, _⟩, _⟩, _⟩, _⟩, _⟩, _⟩, hf⟩, hm⟩, hi⟩ := h
  obtain ⟨f, hf⟩ := mergeMembers_total hf
  obtain ⟨m, hm⟩ := mergeMembers_total hm
  obtain ⟨inn, hi⟩ := mergeInners_total hi
  unfold mergeClass
  simp [mergeFromClient, mergeEq, h1, h2, h3, h4, h5, h6, hf, hm, hi]
end MergeJar
