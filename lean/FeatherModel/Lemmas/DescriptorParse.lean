import FeatherModel.Lemmas.DescriptorNames

/-! Soundness and completeness of the reader functions of `Model/Descriptor.lean` with respect to the grammar of
`Spec/DescriptorGrammar.lean`; printer lemmas. -/

namespace Descriptor
open DescriptorGrammar

/-! ## characters -/

theorem primOf_char (p : Prim) : primOf p.char = some p := by cases p <;> decide

theorem primOf_some {c : Nat} {p : Prim} (h : primOf c = some p) : c = p.char := by
  unfold primOf at h
  repeat' split at h
  all_goals first
    | (simp only [Option.some.injEq] at h; subst h; assumption)
    | (simp at h)

theorem primOf_L : primOf cL = none := by decide

theorem prim_char_ne (p : Prim) :
    p.char ≠ LBRACKET ∧ p.char ≠ cL ∧ p.char ≠ cV ∧ p.char ≠ RPAREN ∧ p.char ≠ SEMI := by
  cases p <;> decide

/-! ## flat form of the grammar -/

/-- non-recursive description of `FieldTy` -/
def Flat (s : JStr) : Ty → Prop
  | .prim p => s = [p.char]
  | .obj n => ClassName n ∧ s = cL :: n ++ [SEMI]
  | .arr d b => 1 ≤ d ∧ d ≤ 255 ∧ ∃ p, BaseTy p b ∧ s = List.replicate d LBRACKET ++ p

theorem flat_of_FieldTy {s : JStr} {t : Ty} (h : FieldTy s t) : Flat s t := by
  induction h with
  | prim p => rfl
  | obj hn => exact ⟨hn, rfl⟩
  | arr1 hb => exact ⟨Nat.le_refl _, by omega, _, hb, rfl⟩
  | arrS _ hd ih =>
    obtain ⟨h1, _, p, hp, hs⟩ := ih
    exact ⟨by omega, by omega, p, hp, by rw [hs, List.replicate_succ]; rfl⟩

theorem FieldTy_arr_of : ∀ (d : Nat) {p : JStr} {b : Base}, BaseTy p b → d + 1 ≤ 255 →
    FieldTy (List.replicate (d + 1) LBRACKET ++ p) (.arr (d + 1) b) := by
  intro d
  induction d with
  | zero => intro p b hb _; exact FieldTy.arr1 hb
  | succ d ih =>
    intro p b hb hd
    have := FieldTy.arrS (ih hb (by omega)) (by omega)
    rw [List.replicate_succ (n := d + 1)]
    exact this

theorem FieldTy_of_flat {s : JStr} {t : Ty} (h : Flat s t) : FieldTy s t := by
  cases t with
  | prim p => simp only [Flat] at h; subst h; exact FieldTy.prim p
  | obj n => obtain ⟨hn, hs⟩ := h; subst hs; exact FieldTy.obj hn
  | arr d b =>
    obtain ⟨h1, h2, p, hp, hs⟩ := h
    subst hs
    cases d with
    | zero => omega
    | succ d => exact FieldTy_arr_of d hp h2

theorem FieldTy_iff_flat {s : JStr} {t : Ty} : FieldTy s t ↔ Flat s t := ⟨flat_of_FieldTy, FieldTy_of_flat⟩

theorem BaseTy_head {p : JStr} {b : Base} (h : BaseTy p b) :
    ∃ c rest, p = c :: rest ∧ c ≠ LBRACKET ∧ c ≠ cV ∧ c ≠ RPAREN := by
  cases h with
  | prim q => exact ⟨q.char, [], rfl, (prim_char_ne q).1, (prim_char_ne q).2.2.1, (prim_char_ne q).2.2.2.1⟩
  | obj hn => exact ⟨cL, _, rfl, by decide, by decide, by decide⟩

theorem FieldTy_head {s : JStr} {t : Ty} (h : FieldTy s t) :
    ∃ c rest, s = c :: rest ∧ c ≠ cV ∧ c ≠ RPAREN := by
  cases h with
  | prim q => exact ⟨q.char, [], rfl, (prim_char_ne q).2.2.1, (prim_char_ne q).2.2.2.1⟩
  | obj hn => exact ⟨cL, _, rfl, by decide, by decide⟩
  | arr1 hb => exact ⟨LBRACKET, _, rfl, by decide, by decide⟩
  | arrS _ _ => exact ⟨LBRACKET, _, rfl, by decide, by decide⟩

/-! ## `readBrackets` -/

theorem readBrackets_replicate : ∀ (d n : Nat) (r : JStr), n + d ≤ 255 → r.head? ≠ some LBRACKET →
    readBrackets n (List.replicate d LBRACKET ++ r) = some (n + d, r) := by
  intro d
  induction d with
  | zero =>
    intro n r _ hr
    cases r with
    | nil => simp [readBrackets]
    | cons c rest =>
      simp only [List.head?_cons, ne_eq, Option.some.injEq] at hr
      simp [readBrackets, hr]
  | succ d ih =>
    intro n r hn hr
    simp only [List.replicate_succ, List.cons_append, readBrackets, if_true]
    rw [if_neg (by omega), ih (n + 1) r (by omega) hr]
    simp; omega

theorem readBrackets_over : ∀ (d n : Nat) (r : JStr), n ≤ 255 → 255 < n + d →
    readBrackets n (List.replicate d LBRACKET ++ r) = none := by
  intro d
  induction d with
  | zero => intro n r h1 h2; omega
  | succ d ih =>
    intro n r h1 h2
    simp only [List.replicate_succ, List.cons_append, readBrackets, if_true]
    by_cases hn : n = 255
    · simp [hn]
    · rw [if_neg hn]
      exact ih (n + 1) r (by omega) (by omega)

theorem readBrackets_some : ∀ (s : JStr) (n m : Nat) (r : JStr), readBrackets n s = some (m, r) →
    ∃ d, m = n + d ∧ s = List.replicate d LBRACKET ++ r ∧ r.head? ≠ some LBRACKET ∧ (n ≤ 255 → m ≤ 255) := by
  intro s
  induction s with
  | nil =>
    intro n m r h
    simp only [readBrackets, Option.some.injEq, Prod.mk.injEq] at h
    obtain ⟨rfl, rfl⟩ := h
    exact ⟨0, rfl, rfl, by simp, id⟩
  | cons c rest ih =>
    intro n m r h
    simp only [readBrackets] at h
    split at h
    · rename_i hc
      split at h
      · simp at h
      · rename_i hn
        obtain ⟨d, h1, h2, h3, h4⟩ := ih _ _ _ h
        exact ⟨d + 1, by omega, by rw [h2, hc, List.replicate_succ]; rfl, h3, fun hle => h4 (by omega)⟩
    · rename_i hc
      simp only [Option.some.injEq, Prod.mk.injEq] at h
      obtain ⟨rfl, rfl⟩ := h
      exact ⟨0, rfl, rfl, by simpa using hc, id⟩

/-! ## `readName` -/

theorem readName_append : ∀ (n : JStr) (r : JStr), SEMI ∉ n → readName (n ++ SEMI :: r) = some (n, r) := by
  intro n
  induction n with
  | nil => intro r _; simp [readName]
  | cons x xs ih =>
    intro r h
    simp only [List.mem_cons, not_or] at h
    simp only [List.cons_append, readName]
    rw [if_neg (fun e => h.1 e.symm), ih r h.2]

theorem readName_some : ∀ (s n r : JStr), readName s = some (n, r) → s = n ++ SEMI :: r ∧ SEMI ∉ n := by
  intro s
  induction s with
  | nil => intro n r h; simp [readName] at h
  | cons c rest ih =>
    intro n r h
    simp only [readName] at h
    split at h
    · rename_i hc
      simp only [Option.some.injEq, Prod.mk.injEq] at h
      obtain ⟨rfl, rfl⟩ := h
      exact ⟨by simp [hc], by simp⟩
    · rename_i hc
      split at h
      · rename_i n' r' hr
        simp only [Option.some.injEq, Prod.mk.injEq] at h
        obtain ⟨rfl, rfl⟩ := h
        obtain ⟨h1, h2⟩ := ih _ _ hr
        refine ⟨by rw [h1]; rfl, ?_⟩
        simp only [List.mem_cons, not_or]
        exact ⟨fun e => hc e.symm, h2⟩
      · simp at h

/-! ## `readBase` -/

theorem readBase_complete {p : JStr} {b : Base} (h : BaseTy p b) (r : JStr) : readBase (p ++ r) = some (b, r) := by
  cases h with
  | prim q => simp [readBase, primOf_char]
  | obj hn =>
    rename_i n
    have e : (cL :: n ++ [SEMI]) ++ r = cL :: (n ++ SEMI :: r) := by simp
    rw [e]
    simp only [readBase, primOf_L, if_true]
    rw [readName_append n r (ClassName_no_semi hn)]
    simp only [(validObj_iff n).mpr hn, if_true]

theorem readBase_sound {s r : JStr} {b : Base} (h : readBase s = some (b, r)) : ∃ p, s = p ++ r ∧ BaseTy p b := by
  cases s with
  | nil => simp [readBase] at h
  | cons c rest =>
    simp only [readBase] at h
    split at h
    · rename_i q hq
      simp only [Option.some.injEq, Prod.mk.injEq] at h
      obtain ⟨rfl, rfl⟩ := h
      have := primOf_some hq
      subst this
      exact ⟨[q.char], rfl, BaseTy.prim q⟩
    · split at h
      · rename_i hc
        split at h
        · rename_i n r' hr
          split at h
          · rename_i hv
            simp only [Option.some.injEq, Prod.mk.injEq] at h
            obtain ⟨rfl, rfl⟩ := h
            obtain ⟨h1, _⟩ := readName_some _ _ _ hr
            refine ⟨cL :: n ++ [SEMI], by rw [h1, hc]; simp, BaseTy.obj ((validObj_iff n).mp hv)⟩
          · simp at h
        · simp at h
      · simp at h

/-! ## `readFieldType` -/

theorem mkTy_flat {d : Nat} {b : Base} {p : JStr} (hd : d ≤ 255) (hb : BaseTy p b) :
    Flat (List.replicate d LBRACKET ++ p) (mkTy d b) := by
  cases d with
  | zero =>
    cases hb with
    | prim q => simp [mkTy, Flat]
    | obj hn => exact ⟨hn, by simp⟩
  | succ d => exact ⟨by omega, hd, p, hb, rfl⟩

theorem readFieldType_sound {s r : JStr} {t : Ty} (h : readFieldType s = some (t, r)) :
    ∃ p, s = p ++ r ∧ FieldTy p t := by
  unfold readFieldType at h
  split at h
  · simp at h
  · rename_i d r0 hb
    split at h
    · simp at h
    · rename_i b r' hbase
      simp only [Option.some.injEq, Prod.mk.injEq] at h
      obtain ⟨rfl, rfl⟩ := h
      obtain ⟨d', h1, h2, _, h4⟩ := readBrackets_some _ _ _ _ hb
      obtain ⟨p, hp1, hp2⟩ := readBase_sound hbase
      have hd : d = d' := by omega
      subst hd
      refine ⟨List.replicate d LBRACKET ++ p, by rw [h2, hp1]; simp, FieldTy_of_flat (mkTy_flat (h4 (by omega)) hp2)⟩

theorem readFieldType_complete {p : JStr} {t : Ty} (h : FieldTy p t) (r : JStr) :
    readFieldType (p ++ r) = some (t, r) := by
  have hf := flat_of_FieldTy h
  unfold readFieldType
  cases t with
  | prim q =>
    simp only [Flat] at hf
    subst hf
    have : readBrackets 0 ([q.char] ++ r) = some (0, [q.char] ++ r) := by
      have := readBrackets_replicate 0 0 ([q.char] ++ r) (by omega) (by simpa using (prim_char_ne q).1)
      simpa using this
    rw [this]
    simp only
    rw [readBase_complete (BaseTy.prim q) r]
    rfl
  | obj n =>
    obtain ⟨hn, hs⟩ := hf
    subst hs
    have : readBrackets 0 ((cL :: n ++ [SEMI]) ++ r) = some (0, (cL :: n ++ [SEMI]) ++ r) := by
      have := readBrackets_replicate 0 0 ((cL :: n ++ [SEMI]) ++ r) (by omega) (by simp; decide)
      simpa using this
    rw [this]
    simp only
    rw [readBase_complete (BaseTy.obj hn) r]
    rfl
  | arr d b =>
    obtain ⟨h1, h2, q, hq, hs⟩ := hf
    subst hs
    obtain ⟨c, rest, hc, hcb, _⟩ := BaseTy_head hq
    have : readBrackets 0 ((List.replicate d LBRACKET ++ q) ++ r) = some (d, q ++ r) := by
      have := readBrackets_replicate d 0 (q ++ r) (by omega) (by rw [hc]; simpa using hcb)
      simpa using this
    rw [this]
    simp only
    rw [readBase_complete hq r]
    cases d with
    | zero => omega
    | succ d => rfl

theorem parseField_iff (s : JStr) (t : Ty) : parseField s = some t ↔ FieldTy s t := by
  unfold parseField
  constructor
  · intro h
    split at h
    · rename_i t' hr
      simp only [Option.some.injEq] at h
      subst h
      obtain ⟨p, hp, hf⟩ := readFieldType_sound hr
      simp at hp; subst hp; exact hf
    · simp at h
  · intro h
    have := readFieldType_complete h []
    simp only [List.append_nil] at this
    rw [this]

/-! ## return descriptors -/

theorem readReturn_sound {s r : JStr} {t : Option Ty} (h : readReturn s = some (t, r)) :
    ∃ p, s = p ++ r ∧ ReturnTy p t := by
  cases s with
  | nil => simp [readReturn] at h
  | cons c rest =>
    simp only [readReturn] at h
    split at h
    · rename_i hc
      simp only [Option.some.injEq, Prod.mk.injEq] at h
      obtain ⟨rfl, rfl⟩ := h
      exact ⟨[cV], by simp [hc], ReturnTy.void⟩
    · split at h
      · rename_i t' r' hr
        simp only [Option.some.injEq, Prod.mk.injEq] at h
        obtain ⟨rfl, rfl⟩ := h
        obtain ⟨p, hp, hf⟩ := readFieldType_sound hr
        exact ⟨p, hp, ReturnTy.ty hf⟩
      · simp at h

theorem readReturn_complete {p : JStr} {t : Option Ty} (h : ReturnTy p t) (r : JStr) :
    readReturn (p ++ r) = some (t, r) := by
  cases h with
  | void => simp [readReturn]
  | ty hf =>
    obtain ⟨c, rest, hc, hv, _⟩ := FieldTy_head hf
    have := readFieldType_complete hf r
    subst hc
    simp only [List.cons_append] at this ⊢
    simp only [readReturn, if_neg hv, this]

theorem parseReturn_iff (s : JStr) (t : Option Ty) : parseReturn s = some t ↔ ReturnTy s t := by
  unfold parseReturn
  constructor
  · intro h
    split at h
    · rename_i t' hr
      simp only [Option.some.injEq] at h
      subst h
      obtain ⟨p, hp, hf⟩ := readReturn_sound hr
      simp at hp; subst hp; exact hf
    · simp at h
  · intro h
    have := readReturn_complete h []
    simp only [List.append_nil] at this
    rw [this]

/-! ## parameter lists -/

theorem FieldTy_length_pos {s : JStr} {t : Ty} (h : FieldTy s t) : 0 < s.length := by
  obtain ⟨c, rest, hc, _⟩ := FieldTy_head h
  subst hc; simp

theorem readParams_complete {ps : JStr} {ts : List Ty} (h : ParamsTy ps ts) :
    ∀ (fuel : Nat) (r : JStr), ps.length ≤ fuel → readParams fuel (ps ++ RPAREN :: r) = some (ts, r) := by
  induction h with
  | nil =>
    intro fuel r _
    cases fuel <;> simp [readParams]
  | cons hf hps ih =>
    rename_i s rest t ts'
    intro fuel r hfuel
    obtain ⟨c, s', hc, _, hp⟩ := FieldTy_head hf
    have hlen : (s ++ rest).length = s.length + rest.length := by simp
    have hpos := FieldTy_length_pos hf
    cases fuel with
    | zero => omega
    | succ fuel =>
      have hrd := readFieldType_complete hf (rest ++ RPAREN :: r)
      subst hc
      simp only [List.cons_append, List.append_assoc] at hrd ⊢
      simp only [readParams, if_neg hp, hrd]
      rw [ih fuel r (by simp at hlen hfuel hpos; omega)]

theorem readParams_sound : ∀ (fuel : Nat) (s r : JStr) (ts : List Ty), readParams fuel s = some (ts, r) →
    ∃ ps, s = ps ++ RPAREN :: r ∧ ParamsTy ps ts := by
  intro fuel
  induction fuel with
  | zero =>
    intro s r ts h
    cases s with
    | nil => simp [readParams] at h
    | cons c rest =>
      simp only [readParams] at h
      split at h
      · rename_i hc
        simp only [Option.some.injEq, Prod.mk.injEq] at h
        obtain ⟨rfl, rfl⟩ := h
        exact ⟨[], by simp [hc], ParamsTy.nil⟩
      · simp at h
  | succ fuel ih =>
    intro s r ts h
    cases s with
    | nil => simp [readParams] at h
    | cons c rest =>
      simp only [readParams] at h
      split at h
      · rename_i hc
        simp only [Option.some.injEq, Prod.mk.injEq] at h
        obtain ⟨rfl, rfl⟩ := h
        exact ⟨[], by simp [hc], ParamsTy.nil⟩
      · split at h
        · simp at h
        · rename_i t r1 hr
          split at h
          · simp at h
          · rename_i ts' r2 hrec
            simp only [Option.some.injEq, Prod.mk.injEq] at h
            obtain ⟨rfl, rfl⟩ := h
            obtain ⟨p, hp, hf⟩ := readFieldType_sound hr
            obtain ⟨ps, hps, hpt⟩ := ih _ _ _ hrec
            exact ⟨p ++ ps, by rw [hp, hps]; simp, ParamsTy.cons hf hpt⟩

/-- more fuel than the length of the input changes nothing -/
theorem readParams_fuel (s : JStr) (f1 f2 : Nat) (h1 : s.length ≤ f1) (h2 : s.length ≤ f2) :
    readParams f1 s = readParams f2 s := by
  cases h : readParams f1 s with
  | some q =>
    obtain ⟨ts, r⟩ := q
    obtain ⟨ps, hps, hpt⟩ := readParams_sound _ _ _ _ h
    subst hps
    rw [readParams_complete hpt f2 r (by simp at h2; omega)]
  | none =>
    cases h' : readParams f2 s with
    | none => rfl
    | some q =>
      obtain ⟨ts, r⟩ := q
      obtain ⟨ps, hps, hpt⟩ := readParams_sound _ _ _ _ h'
      subst hps
      rw [readParams_complete hpt f1 r (by simp at h1; omega)] at h
      simp at h

theorem parseMethod_iff (s : JStr) (m : List Ty × Option Ty) : parseMethod s = some m ↔ MethodTy s m := by
  constructor
  · intro h
    cases s with
    | nil => simp [parseMethod] at h
    | cons c rest =>
      simp only [parseMethod] at h
      split at h
      · rename_i hc
        split at h
        · simp at h
        · rename_i ps r hp
          split at h
          · rename_i rt hr
            simp only [Option.some.injEq] at h
            subst h
            obtain ⟨p, hp1, hp2⟩ := readParams_sound _ _ _ _ hp
            obtain ⟨q, hq1, hq2⟩ := readReturn_sound hr
            simp only [List.append_nil] at hq1
            subst hq1 hp1 hc
            exact MethodTy.mk hp2 hq2
          · simp at h
      · simp at h
  · intro h
    cases h with
    | mk hp hr =>
      rename_i ps r ts rt
      have e : (LPAREN :: ps) ++ RPAREN :: r = LPAREN :: (ps ++ RPAREN :: r) := rfl
      rw [e]
      simp only [parseMethod, if_true]
      rw [readParams_complete hp _ r (by simp)]
      have := readReturn_complete hr []
      simp only [List.append_nil] at this
      simp only [this]

/-! ## printing -/

theorem printBase_of_BaseTy {p : JStr} {b : Base} (h : BaseTy p b) : printBase b = some p := by
  cases h with
  | prim q => rfl
  | obj hn => simp [printBase, startsWithBracket_false_of_not_mem (ClassName_no_bracket hn)]

theorem printTy_of_FieldTy {s : JStr} {t : Ty} (h : FieldTy s t) : printTy t = some s := by
  have hf := flat_of_FieldTy h
  cases t with
  | prim q => simp only [Flat] at hf; subst hf; rfl
  | obj n =>
    obtain ⟨hn, hs⟩ := hf
    subst hs
    simp [printTy, startsWithBracket_false_of_not_mem (ClassName_no_bracket hn)]
  | arr d b =>
    obtain ⟨_, _, p, hp, hs⟩ := hf
    subst hs
    simp [printTy, printBase_of_BaseTy hp]

theorem BaseTy_of_wf {b : Base} (h : b.wf = true) : ∃ p, printBase b = some p ∧ BaseTy p b := by
  cases b with
  | prim q => exact ⟨[q.char], rfl, BaseTy.prim q⟩
  | obj n =>
    simp only [Base.wf] at h
    have hn := (validObj_iff n).mp h
    exact ⟨cL :: n ++ [SEMI], by simp [printBase, startsWithBracket_false_of_not_mem (ClassName_no_bracket hn)],
      BaseTy.obj hn⟩

theorem FieldTy_of_wf {t : Ty} (h : t.wf = true) : ∃ s, printTy t = some s ∧ FieldTy s t := by
  cases t with
  | prim q => exact ⟨[q.char], rfl, FieldTy.prim q⟩
  | obj n =>
    simp only [Ty.wf] at h
    have hn := (validObj_iff n).mp h
    exact ⟨cL :: n ++ [SEMI], by simp [printTy, startsWithBracket_false_of_not_mem (ClassName_no_bracket hn)],
      FieldTy.obj hn⟩
  | arr d b =>
    simp only [Ty.wf, Bool.and_eq_true, decide_eq_true_eq] at h
    obtain ⟨⟨h1, h2⟩, h3⟩ := h
    obtain ⟨p, hp1, hp2⟩ := BaseTy_of_wf h3
    exact ⟨List.replicate d LBRACKET ++ p, by simp [printTy, hp1], FieldTy_of_flat ⟨h1, h2, p, hp2, rfl⟩⟩

theorem printTys_of_ParamsTy {ps : JStr} {ts : List Ty} (h : ParamsTy ps ts) : printTys ts = some ps := by
  induction h with
  | nil => rfl
  | cons hf _ ih => simp [printTys, printTy_of_FieldTy hf, ih]

theorem ParamsTy_of_wf : ∀ (ts : List Ty), (∀ t ∈ ts, t.wf = true) → ∃ ps, printTys ts = some ps ∧ ParamsTy ps ts := by
  intro ts
  induction ts with
  | nil => intro _; exact ⟨[], rfl, ParamsTy.nil⟩
  | cons t ts ih =>
    intro h
    obtain ⟨s, hs1, hs2⟩ := FieldTy_of_wf (h t (by simp))
    obtain ⟨ps, hp1, hp2⟩ := ih (fun x hx => h x (List.mem_cons_of_mem _ hx))
    exact ⟨s ++ ps, by simp [printTys, hs1, hp1], ParamsTy.cons hs2 hp2⟩

theorem printReturn_of_ReturnTy {s : JStr} {t : Option Ty} (h : ReturnTy s t) : printReturn t = some s := by
  cases h with
  | void => rfl
  | ty hf => exact printTy_of_FieldTy hf

theorem ReturnTy_of_wf {t : Option Ty} (h : ∀ x, t = some x → x.wf = true) :
    ∃ s, printReturn t = some s ∧ ReturnTy s t := by
  cases t with
  | none => exact ⟨[cV], rfl, ReturnTy.void⟩
  | some x =>
    obtain ⟨s, h1, h2⟩ := FieldTy_of_wf (h x rfl)
    exact ⟨s, h1, ReturnTy.ty h2⟩

theorem printMethod_of_MethodTy {s : JStr} {ts : List Ty} {rt : Option Ty} (h : MethodTy s (ts, rt)) :
    printMethod ts rt = some s := by
  cases h with
  | mk hp hr => simp [printMethod, printTys_of_ParamsTy hp, printReturn_of_ReturnTy hr]

end Descriptor
