import FeatherModel.Lemmas.ClassReadFields

/-! C01 lemmas: record components and the `Module` attribute. -/

namespace ClassRead
open Outcome Spec

theorem readRecordAttr_enc (p : Pool) (a : SRecordAttr) (ha : a.Legal p) (c c' : RecordComponent) (h : a.apply c = some c') (r : Bytes) :
    readRecordAttr p c (attrFrame a.raw.1 a.raw.2 ++ r) = ok (c', r) := by
  cases a with
  | signature nc cp sig =>
    obtain ⟨h1, h2, h3, h4⟩ := ha
    simp only [SRecordAttr.apply] at h
    cases hc : c.signature with
    | some _ => simp [hc] at h
    | none =>
      simp only [hc, Option.isNone_none, if_true, Option.some.injEq] at h; subst h
      simp [readRecordAttr, SRecordAttr.raw, attrFrame, u16_be16 _ h1, h2, be16_length, u32_be32 2 (by decide),
        readUtf8Ref, u16_be16 _ h3, h4, hc, insertIfEmpty_none]
  | annotations nc visible as =>
    obtain ⟨h1, h2, h3, h4, h5⟩ := ha
    have hread := readAnnotations_enc p as h3 h4 r
    cases visible with
    | true =>
      have n1 := recordNe_RVA
      simp only [SRecordAttr.apply, if_true, Option.some.injEq] at h; subst h
      simp only [if_true] at h2
      simp only [readRecordAttr, SRecordAttr.raw, attrFrame, List.append_assoc, u16_be16 _ h1, ok_bind, h2, u32_be32 _ h5,
        n1, if_false, if_true, hread, pure_eq]
    | false =>
      obtain ⟨n1, n2⟩ := recordNe_RIA
      simp only [SRecordAttr.apply, Bool.false_eq_true, if_false, Option.some.injEq] at h; subst h
      simp only [Bool.false_eq_true, if_false] at h2
      simp only [readRecordAttr, SRecordAttr.raw, attrFrame, List.append_assoc, u16_be16 _ h1, ok_bind, h2, u32_be32 _ h5,
        n1, n2, if_false, if_true, hread, pure_eq]
  | typeAnnotations nc visible as =>
    obtain ⟨h1, h2, h3, h4, h5⟩ := ha
    have hread : readTypeAnnos p readTargetField (encTypeAnnos as ++ r) = ok (as.map STypeAnno.fact, r) :=
      readTypeAnnos_enc p .field as h3 h4 r
    cases visible with
    | true =>
      obtain ⟨n1, n2, n3⟩ := recordNe_RVTA
      simp only [SRecordAttr.apply, if_true, Option.some.injEq] at h; subst h
      simp only [if_true] at h2
      simp only [readRecordAttr, SRecordAttr.raw, attrFrame, List.append_assoc, u16_be16 _ h1, ok_bind, h2, u32_be32 _ h5,
        n1, n2, n3, if_false, if_true, hread, pure_eq]
    | false =>
      obtain ⟨n1, n2, n3, n4⟩ := recordNe_RITA
      simp only [SRecordAttr.apply, Bool.false_eq_true, if_false, Option.some.injEq] at h; subst h
      simp only [Bool.false_eq_true, if_false] at h2
      simp only [readRecordAttr, SRecordAttr.raw, attrFrame, List.append_assoc, u16_be16 _ h1, ok_bind, h2, u32_be32 _ h5,
        n1, n2, n3, n4, if_false, if_true, hread, pure_eq]
  | unknown nc name b =>
    obtain ⟨h1, h2, hnot, hlen⟩ := ha
    simp only [recordAttrNames, List.mem_cons, List.not_mem_nil, or_false, not_or] at hnot
    obtain ⟨n1, n2, n3, n4, n5⟩ := hnot
    simp only [SRecordAttr.apply, Option.some.injEq] at h; subst h
    simp only [readRecordAttr, SRecordAttr.raw, attrFrame, List.append_assoc, u16_be16 _ h1, ok_bind, h2, u32_be32 _ hlen,
      n1, n2, n3, n4, n5, if_false, readUnknown, takeN_append, pure_eq]

theorem readRecordComponent_enc (p : Pool) (c : RecordLayout) (hc : c.Legal p) (cf : RecordComponent) (hfacts : c.facts = some cf)
    (r : Bytes) : readRecordComponent p (c.encode ++ r) = ok (cf, r) := by
  obtain ⟨h1, h2, h3, h4, h5, h6⟩ := hc
  have hn : (c.attrs.map SRecordAttr.raw).length < 65536 := by simpa using h5
  have hloop := attrLoop_enc (readRecordAttrs p) (readRecordAttr p) (fun _ _ => rfl) (fun _ _ _ => rfl) SRecordAttr.raw SRecordAttr.apply
    c.attrs (fun a ha st st' r hs => readRecordAttr_enc p a (h6 a ha) st st' hs r) _ cf hfacts r
  simp only [readRecordComponent, RecordLayout.encode, encAttrs, List.append_assoc, readUtf8Ref, u16_be16 _ h1, u16_be16 _ h2, ok_bind,
    h3, h4, pure_eq, u16_be16 _ hn]
  simpa using hloop

/-- `read_vec(u16, |r| get(r.read_u16()?))` on `encRefs` -/
theorem readRefs_enc (get : Nat → Outcome JStr) (xs : List (Nat × JStr)) (h : refsLegal get xs) (r : Bytes) :
    readVec16 (fun s => do let (i, s) ← u16 s; let c ← get i; pure (c, s)) (encRefs xs ++ r) = ok (xs.map (·.2), r) := by
  obtain ⟨hn, hall⟩ := h
  have := readVec16_flatMap (fun s => do let (i, s) ← u16 s; let c ← get i; pure (c, s)) (fun (x : Nat × JStr) => be16 x.1)
    (fun x => x.2) xs hn (fun x hx r => by
      obtain ⟨k1, k2⟩ := hall x hx
      simp [u16_be16 _ k1, k2]) r
  simpa [encRefs, List.append_assoc] using this

theorem readModuleRefs_enc (p : Pool) (xs : List (Nat × JStr)) (h : refsLegal p.getModule xs) (r : Bytes) :
    readVec16 (readModuleRef p) (encRefs xs ++ r) = ok (xs.map (·.2), r) := readRefs_enc p.getModule xs h r

theorem readClassRefs2_enc (p : Pool) (xs : List (Nat × JStr)) (h : refsLegal p.getClass xs) (r : Bytes) :
    readVec16 (readClassRef p) (encRefs xs ++ r) = ok (xs.map (·.2), r) := readRefs_enc p.getClass xs h r

theorem readPackageRefs_enc (p : Pool) (xs : List (Nat × JStr)) (h : refsLegal p.getPackage xs) (r : Bytes) :
    readVec16 (readPackageRef p) (encRefs xs ++ r) = ok (xs.map (·.2), r) := readRefs_enc p.getPackage xs h r

theorem readModule_enc (p : Pool) (m : SModule) (hm : m.Legal p) (r : Bytes) :
    readModule p (m.encode ++ r) = ok (m.fact, r) := by
  obtain ⟨h1, h2, h3, h4, h5, h6, h7, h8, h9, h10, h11, h12, h13, h14⟩ := hm
  have k1 : ∀ r, readModuleRef p (be16 m.cp ++ r) = ok (m.name, r) := fun r => by simp [readModuleRef, u16_be16 _ h1, h4]
  have k3 : ∀ r, readOptUtf8 p (be16 m.vcp ++ r) = ok (m.version, r) := fun r => by simp [readOptUtf8, u16_be16 _ h3, h5]
  have hexp : ∀ e : SExports, e.Legal p → ∀ r, (do
      let __x ← readPackageRef p (e.encode ++ r)
      let __x_1 ← u16 __x.snd
      let __x_2 ← readVec16 (readModuleRef p) __x_1.snd
      (ok (({ name := __x.fst, flags := __x_1.fst &&& maskExports, to := __x_2.fst } : ModuleExports), __x_2.snd) : Outcome _)) =
      ok ((⟨e.name, e.flags &&& maskExports, e.to.map (·.2)⟩ : ModuleExports), r) := by
    intro e he r
    obtain ⟨q1, q2, q3, q4⟩ := he
    have := readModuleRefs_enc p e.to q4 r
    simp [SExports.encode, List.append_assoc, readPackageRef, u16_be16 _ q1, u16_be16 _ q2, q3, this]
  simp only [readModule, SModule.encode, encRefs, List.append_assoc, k1, u16_be16 _ h2, k3, ok_bind, pure_eq]
  rw [readVec16_flatMap' _ SRequires.encode (fun q => (⟨q.name, q.flags &&& maskRequires, q.version⟩ : ModuleRequires)) m.requires h6
    (fun q hq r => by
      obtain ⟨q1, q2, q3, q4, q5⟩ := h7 q hq
      simp [SRequires.encode, List.append_assoc, readModuleRef, readOptUtf8, u16_be16 _ q1, u16_be16 _ q2, u16_be16 _ q3, q4, q5])]
  simp only [ok_bind]
  rw [readVec16_flatMap' _ SExports.encode (fun e => (⟨e.name, e.flags &&& maskExports, e.to.map (·.2)⟩ : ModuleExports)) m.exports h8
    (fun e he r => hexp e (h9 e he) r)]
  simp only [ok_bind]
  rw [readVec16_flatMap' _ SExports.encode (fun e => (⟨e.name, e.flags &&& maskExports, e.to.map (·.2)⟩ : ModuleExports)) m.opens h10
    (fun e he r => hexp e (h11 e he) r)]
  simp only [ok_bind]
  rw [readVec16_flatMap' (readClassRef p) (fun x : Nat × JStr => be16 x.1) (fun x => x.2) m.uses h12.1
    (fun x hx r => by
      obtain ⟨q1, q2⟩ := h12.2 x hx
      simp [readClassRef, u16_be16 _ q1, q2])]
  simp only [ok_bind]
  rw [readVec16_flatMap' _ SProvides.encode (fun e => (⟨e.name, e.with_.map (·.2)⟩ : ModuleProvides)) m.provides h13
    (fun e he r => by
      obtain ⟨q1, q2, q3⟩ := h14 e he
      have := readClassRefs2_enc p e.with_ q3 r
      simp [SProvides.encode, List.append_assoc, readClassRef, u16_be16 _ q1, q2, this])]
  simp only [ok_bind, SModule.fact]

end ClassRead
