import FeatherModel.Lemmas.TinyInv

/-! Keys during a run of the Tiny v2 reader (C03): the maps stay well formed (unique keys, every entry under the key
derived from it), and a second line with the key of an earlier sibling is an error. -/

namespace Tiny

/-! ## unique keys -/

theorem contains_cons {K V : Type} [BEq K] (k k0 : K) (v0 : V) (m : AList K V) :
    AList.contains k ((k0, v0) :: m) = (k0 == k || AList.contains k m) := by
  simp only [AList.contains, AList.lookup]
  split <;> simp_all

theorem keysNodup_append_single {K V : Type} [BEq K] [LawfulBEq K] (k : K) (v : V) :
    ∀ m : AList K V, keysNodup (m ++ [(k, v)]) = (keysNodup m && !AList.contains k m)
  | [] => by simp [keysNodup, AList.contains, AList.lookup]
  | (k0, v0) :: rest => by
    simp only [List.cons_append, keysNodup, keysNodup_append_single k v rest, contains_append_single, contains_cons]
    have hc : (k == k0) = (k0 == k) := by
      rw [Bool.eq_iff_iff]; simp only [beq_iff_eq]; exact ⟨fun h => h.symm, fun h => h.symm⟩
    rw [hc]
    cases AList.contains k0 rest <;> cases (k0 == k) <;> cases keysNodup rest <;> cases AList.contains k rest <;> rfl

theorem keysNodup_replace_last {K V : Type} [BEq K] [LawfulBEq K] (init : AList K V) (k : K) (v v' : V) :
    keysNodup (init ++ [(k, v')]) = keysNodup (init ++ [(k, v)]) := by
  rw [keysNodup_append_single, keysNodup_append_single]

theorem wf_eq_wfCs (m : Mappings) : wf m = wfCs m.classes := rfl

theorem methodStep_wf {κ : LineKind} {m m' : Method} (h : MethodStep κ m m') (hw : wfMethod m = true) :
    wfMethod m' = true := by
  cases h with
  | doc => exact hw
  | addParam h1 h2 =>
    simp only [wfMethod, Bool.and_eq_true] at hw ⊢
    rw [keysNodup_append_single]
    simp [hw.1, h2, List.all_append, hw.2]
  | inParam h1 h2 =>
    cases h2 with
    | doc hd =>
      simp only [wfMethod, h1] at hw ⊢
      rw [keysNodup_replace_last (v := _)]
      simpa [List.all_append] using hw

theorem classStep_wf {κ : LineKind} {c c' : Class} (h : ClassStep κ c c') (hw : wfClass c = true) :
    wfClass c' = true := by
  cases h with
  | doc => exact hw
  | addField h1 h2 h3 =>
    simp only [wfClass, Bool.and_eq_true] at hw ⊢
    rw [keysNodup_append_single]
    simp [hw.1.1.1, hw.1.1.2, hw.1.2, hw.2, h3, List.all_append, h2]
  | addMethod h1 h2 h3 h4 =>
    simp only [wfClass, Bool.and_eq_true] at hw ⊢
    rw [keysNodup_append_single]
    refine ⟨⟨hw.1.1, by simp [hw.1.2, h4]⟩, ?_⟩
    rw [List.all_append, hw.2]
    simp [h3, wfMethod, h2, keysNodup]
  | inField h1 h2 =>
    cases h2 with
    | doc hd =>
      simp only [wfClass, h1] at hw ⊢
      rw [keysNodup_replace_last (v := _)]
      simpa [List.all_append] using hw
  | inMethod h1 h2 =>
    rename_i init k m m'
    have hdn : m'.desc = m.desc ∧ m'.names = m.names := by
      cases h2 <;> exact ⟨rfl, rfl⟩
    simp only [wfClass, h1, Bool.and_eq_true, List.all_append, List.all_cons, List.all_nil, Bool.and_true] at hw ⊢
    rw [keysNodup_replace_last (v := m)]
    refine ⟨⟨⟨hw.1.1.1, hw.1.1.2⟩, hw.1.2⟩, hw.2.1, ?_⟩
    have := hw.2.2
    rw [hdn.1, hdn.2]
    exact ⟨this.1, methodStep_wf h2 this.2⟩

theorem treeStep_wf {κ : LineKind} {cs cs' : AList JStr Class} (h : TreeStep κ cs cs') (hw : wfCs cs = true) :
    wfCs cs' = true := by
  cases h with
  | skip => exact hw
  | addClass h1 h2 h3 h4 h5 =>
    simp only [wfCs, Bool.and_eq_true] at hw ⊢
    rw [keysNodup_append_single]
    refine ⟨by simp [hw.1, h5], ?_⟩
    rw [List.all_append, hw.2]
    simp [h4, wfClass, h2, h3, keysNodup]
  | inClass h1 =>
    rename_i init k c c'
    have hn : c'.names = c.names := by
      cases h1 <;> rfl
    simp only [wfCs, Bool.and_eq_true, List.all_append, List.all_cons, List.all_nil, Bool.and_true] at hw ⊢
    rw [keysNodup_replace_last (v := c)]
    refine ⟨hw.1, hw.2.1, ?_⟩
    have := hw.2.2
    rw [hn]
    exact ⟨this.1, classStep_wf h1 this.2⟩

theorem run_wf {n : Nat} : ∀ (ls : List TLine) (s s' : St), run n s ls = some s' → wfCs s.classes = true →
    wfCs s'.classes = true
  | [], s, s', h, hw => by
    simp only [run, Option.some.injEq] at h
    subst h
    exact hw
  | l :: ls, s, s', h, hw => by
    obtain ⟨m, h1, h2⟩ := run_cons_some h
    exact run_wf ls m s' h2 (treeStep_wf (step_treeStep h1).1 hw)

/-! ## keys never disappear -/

theorem keys_append_single {K V : Type} (m : AList K V) (k : K) (v : V) : AList.keys (m ++ [(k, v)]) = AList.keys m ++ [k] := by
  simp [AList.keys]

theorem mem_keys_of_contains_false {K V : Type} [BEq K] [LawfulBEq K] {k : K} {m : AList K V}
    (h : AList.contains k m = false) : k ∉ AList.keys m := by
  intro hk
  simp only [AList.keys, List.mem_map] at hk
  obtain ⟨e, he, rfl⟩ := hk
  exact contains_false_of h e he rfl

theorem treeStep_keys {κ : LineKind} {cs cs' : AList JStr Class} (h : TreeStep κ cs cs') :
    ∀ k, k ∈ AList.keys cs → k ∈ AList.keys cs' := by
  intro k hk
  cases h with
  | skip => exact hk
  | addClass => rw [keys_append_single]; exact List.mem_append_left _ hk
  | inClass => simpa [AList.keys] using hk

theorem run_keys {n : Nat} : ∀ (ls : List TLine) (s s' : St), run n s ls = some s' →
    ∀ k, k ∈ AList.keys s.classes → k ∈ AList.keys s'.classes
  | [], s, s', h, k, hk => by
    simp only [run, Option.some.injEq] at h
    subst h
    exact hk
  | l :: ls, s, s', h, k, hk => by
    obtain ⟨m, h1, h2⟩ := run_cons_some h
    exact run_keys ls m s' h2 k (treeStep_keys (step_treeStep h1).1 k hk)

/-- the field / method / parameter keys of the node that is currently open -/
def openFieldKeys (cs : AList JStr Class) : List MemberKey :=
  match cs.getLast? with
  | some e => AList.keys e.2.fields
  | none => []

def openMethodKeys (cs : AList JStr Class) : List MemberKey :=
  match cs.getLast? with
  | some e => AList.keys e.2.methods
  | none => []

def openParamKeys (cs : AList JStr Class) : List Nat :=
  match cs.getLast? with
  | some e =>
    match e.2.methods.getLast? with
    | some me => AList.keys me.2.params
    | none => []
  | none => []

theorem openFieldKeys_snoc (init : AList JStr Class) (k : JStr) (c : Class) :
    openFieldKeys (init ++ [(k, c)]) = AList.keys c.fields := by
  simp [openFieldKeys]

theorem openMethodKeys_snoc (init : AList JStr Class) (k : JStr) (c : Class) :
    openMethodKeys (init ++ [(k, c)]) = AList.keys c.methods := by
  simp [openMethodKeys]

theorem openParamKeys_snoc (init : AList JStr Class) (k : JStr) (c : Class) (minit : AList MemberKey Method)
    (mk : MemberKey) (m : Method) (h : c.methods = minit ++ [(mk, m)]) :
    openParamKeys (init ++ [(k, c)]) = AList.keys m.params := by
  simp [openParamKeys, h]

theorem classStep_member_keys {κ : LineKind} {c c' : Class} (h : ClassStep κ c c') :
    (∀ k, k ∈ AList.keys c.fields → k ∈ AList.keys c'.fields) ∧
      (∀ k, k ∈ AList.keys c.methods → k ∈ AList.keys c'.methods) := by
  cases h with
  | doc => exact ⟨fun _ h => h, fun _ h => h⟩
  | addField => exact ⟨fun _ h => by rw [keys_append_single]; exact List.mem_append_left _ h, fun _ h => h⟩
  | addMethod => exact ⟨fun _ h => h, fun _ h => by rw [keys_append_single]; exact List.mem_append_left _ h⟩
  | inField h1 _ => exact ⟨fun _ h => by rw [h1] at h; simpa [AList.keys] using h, fun _ h => h⟩
  | inMethod h1 _ => exact ⟨fun _ h => h, fun _ h => by rw [h1] at h; simpa [AList.keys] using h⟩

/-- a line that does not start a class keeps the member keys of the open class -/
theorem treeStep_member_keys {κ : LineKind} {cs cs' : AList JStr Class} (h : TreeStep κ cs cs') (hk : κ ≠ .cls) :
    (∀ k, k ∈ openFieldKeys cs → k ∈ openFieldKeys cs') ∧ (∀ k, k ∈ openMethodKeys cs → k ∈ openMethodKeys cs') := by
  cases h with
  | skip => exact ⟨fun _ h => h, fun _ h => h⟩
  | addClass => exact absurd rfl hk
  | inClass h1 =>
    simp only [openFieldKeys_snoc, openMethodKeys_snoc]
    exact classStep_member_keys h1

theorem methodStep_param_keys {κ : LineKind} {m m' : Method} (h : MethodStep κ m m') :
    ∀ k, k ∈ AList.keys m.params → k ∈ AList.keys m'.params := by
  intro k hk
  cases h with
  | doc => exact hk
  | addParam => rw [keys_append_single]; exact List.mem_append_left _ hk
  | inParam h1 _ => rw [h1] at hk; simpa [AList.keys] using hk

/-- a line that starts neither a class nor a member keeps the parameter keys of the open method -/
theorem treeStep_param_keys {κ : LineKind} {cs cs' : AList JStr Class} (h : TreeStep κ cs cs')
    (hk : κ ≠ .cls ∧ κ ≠ .fld ∧ κ ≠ .mth) : ∀ k, k ∈ openParamKeys cs → k ∈ openParamKeys cs' := by
  intro k hmem
  cases h with
  | skip => exact hmem
  | addClass => exact absurd rfl hk.1
  | inClass h1 =>
    rename_i init kc c c'
    cases h1 with
    | doc => simpa [openParamKeys] using hmem
    | addField => exact absurd rfl hk.2.1
    | addMethod => exact absurd rfl hk.2.2
    | inField => simpa [openParamKeys] using hmem
    | inMethod h2 h3 =>
      rename_i minit mk m m'
      rw [openParamKeys_snoc init kc c minit mk m h2] at hmem
      rw [openParamKeys_snoc init kc _ minit mk m' rfl]
      exact methodStep_param_keys h3 k hmem

theorem lineKind_ne_cls {k : Kind} {l : TLine} (h : 1 ≤ l.indent) : lineKind k l ≠ .cls := by
  unfold lineKind
  split
  · omega
  · repeat' split
    all_goals simp
  · repeat' split
    all_goals simp
  · split <;> simp

theorem lineKind_deep {k : Kind} {l : TLine} (h : 2 ≤ l.indent) :
    lineKind k l ≠ .cls ∧ lineKind k l ≠ .fld ∧ lineKind k l ≠ .mth := by
  unfold lineKind
  split
  · omega
  · omega
  · repeat' split
    all_goals simp
  · split <;> simp

theorem run_member_keys {n : Nat} : ∀ (ls : List TLine) (s s' : St), run n s ls = some s' → (∀ l ∈ ls, 1 ≤ l.indent) →
    (∀ k, k ∈ openFieldKeys s.classes → k ∈ openFieldKeys s'.classes) ∧
      (∀ k, k ∈ openMethodKeys s.classes → k ∈ openMethodKeys s'.classes)
  | [], s, s', h, _ => by
    simp only [run, Option.some.injEq] at h
    subst h
    exact ⟨fun _ h => h, fun _ h => h⟩
  | l :: ls, s, s', h, hi => by
    obtain ⟨m, h1, h2⟩ := run_cons_some h
    have a := treeStep_member_keys (step_treeStep h1).1 (lineKind_ne_cls (hi l List.mem_cons_self))
    have b := run_member_keys ls m s' h2 (fun l hl => hi l (List.mem_cons_of_mem _ hl))
    exact ⟨fun k hk => b.1 k (a.1 k hk), fun k hk => b.2 k (a.2 k hk)⟩

theorem run_param_keys {n : Nat} : ∀ (ls : List TLine) (s s' : St), run n s ls = some s' → (∀ l ∈ ls, 2 ≤ l.indent) →
    s'.kind = s.kind ∧ ∀ k, k ∈ openParamKeys s.classes → k ∈ openParamKeys s'.classes
  | [], s, s', h, _ => by
    simp only [run, Option.some.injEq] at h
    subst h
    exact ⟨rfl, fun _ h => h⟩
  | l :: ls, s, s', h, hi => by
    obtain ⟨m, h1, h2⟩ := run_cons_some h
    have hl := hi l List.mem_cons_self
    obtain ⟨ht, hkind, _⟩ := step_treeStep h1
    have a := treeStep_param_keys ht (lineKind_deep hl)
    have b := run_param_keys ls m s' h2 (fun l hl => hi l (List.mem_cons_of_mem _ hl))
    have hk : m.kind = s.kind := by
      rw [hkind, kindAfter]
      have : ¬ l.indent = 1 := by omega
      simp [this]
    exact ⟨by rw [b.1, hk], fun k hk => b.2 k (a k hk)⟩

/-! ## the key of a row is its first cell -/

theorem head_of_intoNames {valid : JStr → Bool} {n : Nat} {cells : List JStr} {names : Names} {key : JStr}
    (h : intoNames valid n cells = some names) (hf : firstName names = some key) : cells.head? = some key := by
  unfold intoNames at h
  split at h
  · simp at h
  · split at h
    · simp at h
    · simp only [Option.some.injEq] at h
      subst h
      cases cells with
      | nil => simp [firstName] at hf
      | cons c rest =>
        simp only [List.map_cons, firstName] at hf
        split at hf
        · rename_i k _ heq
          simp only [List.cons.injEq] at heq
          split at heq
          · simp at heq
          · simp only [Option.some.injEq] at heq hf
            simp [heq.1, ← hf]
        · simp at hf

/-! ## what the four kinds of entry lines do -/

theorem step_cls {n : Nat} {s s' : St} {l : TLine} (hi : l.indent = 0) (hf : l.first = C_) (h : step n s l = some s') :
    ∃ (key : JStr) (c : Class), l.fields.head? = some key ∧ AList.contains key s.classes = false ∧
      s'.classes = s.classes ++ [(key, c)] := by
  unfold step at h
  split at h
  · simp at h
  · simp only [hi] at h  -- (the `if` on `l.first` is discharged from `hf`)
    obtain ⟨cs, hcs, rfl⟩ := map_some' h
    obtain ⟨names, key, h1, h2, h3, rfl⟩ := addClass_some hcs
    exact ⟨key, _, head_of_intoNames h1 h2, h3, rfl⟩

theorem step_fld {n : Nat} {s s' : St} {l : TLine} (hi : l.indent = 1) (hf : l.first = F_) (h : step n s l = some s') :
    ∃ (init : AList JStr Class) (k : JStr) (c : Class) (desc name : JStr) (rest : List JStr) (f : Field),
      l.fields = desc :: rest ∧ rest.head? = some name ∧ s.classes = init ++ [(k, c)] ∧
      AList.contains (name, desc) c.fields = false ∧
      s'.classes = init ++ [(k, { c with fields := c.fields ++ [((name, desc), f)] })] := by
  unfold step at h
  split at h
  · simp at h
  · simp only [hi] at h  -- (the `if` on `l.first` is discharged from `hf`)
    obtain ⟨cs, hcs, rfl⟩ := map_some' h
    obtain ⟨init, k, c, c', h1, h2, rfl⟩ := modLastV_some hcs
    obtain ⟨desc, rest, names, name, g1, g2, g3, g4, rfl⟩ := addField_some h2
    exact ⟨init, k, c, desc, name, rest, _, g1, head_of_intoNames g2 g3, h1, g4, rfl⟩

theorem step_mth {n : Nat} {s s' : St} {l : TLine} (hi : l.indent = 1) (hf : l.first = M_) (h : step n s l = some s') :
    ∃ (init : AList JStr Class) (k : JStr) (c : Class) (desc name : JStr) (rest : List JStr) (m : Method),
      l.fields = desc :: rest ∧ rest.head? = some name ∧ s.classes = init ++ [(k, c)] ∧
      AList.contains (name, desc) c.methods = false ∧ s'.kind = .method ∧
      s'.classes = init ++ [(k, { c with methods := c.methods ++ [((name, desc), m)] })] := by
  have hMF : ¬ M_ = F_ := by decide
  unfold step at h
  split at h
  · simp at h
  · simp only [hi, hf, hMF, if_false] at h
    obtain ⟨cs, hcs, rfl⟩ := map_some' h
    obtain ⟨init, k, c, c', h1, h2, rfl⟩ := modLastV_some hcs
    obtain ⟨desc, rest, names, name, g1, g2, g3, g4, rfl⟩ := addMethod_some h2
    exact ⟨init, k, c, desc, name, rest, _, g1, head_of_intoNames g2 g3, h1, g4, rfl, rfl⟩

theorem step_par {n : Nat} {s s' : St} {l : TLine} (hi : l.indent = 2) (hf : l.first = P_) (hk : s.kind = .method)
    (h : step n s l = some s') :
    ∃ (init : AList JStr Class) (k : JStr) (c : Class) (minit : AList MemberKey Method) (mk : MemberKey) (m : Method)
      (idx : JStr) (rest : List JStr) (index : Nat) (p : Param),
      l.fields = idx :: rest ∧ parseUsize idx = some index ∧ s.classes = init ++ [(k, c)] ∧
      c.methods = minit ++ [(mk, m)] ∧ AList.contains index m.params = false ∧
      s'.classes = init ++ [(k, { c with methods := minit ++ [(mk, { m with params := m.params ++ [(index, p)] })] })] := by
  unfold step at h
  split at h
  · simp at h
  · simp only [hi, hk] at h  -- (the `if` on `l.first` is discharged from `hf`)
    obtain ⟨cs, hcs, rfl⟩ := map_some' h
    obtain ⟨init, k, c, c', h1, h2, rfl⟩ := modLastV_some hcs
    obtain ⟨ms, hms, rfl⟩ := map_some' h2
    obtain ⟨minit, mk, m, m', h3, h4, rfl⟩ := modLastV_some hms
    obtain ⟨idx, rest, index, names, g1, g2, g3, g4, rfl⟩ := addParam_some h4
    exact ⟨init, k, c, minit, mk, m, idx, rest, index, _, g1, g2, h1, h3, g4, rfl⟩

/-! ## a second line with the key of an earlier sibling stops the run -/

theorem run_dup_class {n : Nat} {s : St} {pre mid post : List TLine} {l1 l2 : TLine}
    (h1 : l1.indent = 0 ∧ l1.first = C_) (h2 : l2.indent = 0 ∧ l2.first = C_)
    (hk : l1.fields.head? = l2.fields.head?) : run n s (pre ++ l1 :: (mid ++ l2 :: post)) = none := by
  cases hr : run n s (pre ++ l1 :: (mid ++ l2 :: post)) with
  | none => rfl
  | some s' =>
    exfalso
    obtain ⟨sa, _, ha⟩ := run_append_some hr
    obtain ⟨sb, hb, hb'⟩ := run_cons_some ha
    obtain ⟨sc, hc, hc'⟩ := run_append_some hb'
    obtain ⟨sd, hd, _⟩ := run_cons_some hc'
    obtain ⟨key1, c1, e1, _, e3⟩ := step_cls h1.1 h1.2 hb
    obtain ⟨key2, c2, f1, f2, _⟩ := step_cls h2.1 h2.2 hd
    have hkey : key1 = key2 := by
      rw [e1, f1] at hk
      exact Option.some.inj hk
    have hmem : key1 ∈ AList.keys sc.classes :=
      run_keys mid sb sc hc key1 (by rw [e3, keys_append_single]; simp)
    exact mem_keys_of_contains_false f2 (hkey ▸ hmem)

theorem run_dup_field {n : Nat} {s : St} {pre mid post : List TLine} {l1 l2 : TLine}
    (h1 : l1.indent = 1 ∧ l1.first = F_) (h2 : l2.indent = 1 ∧ l2.first = F_) (hmid : ∀ l ∈ mid, 1 ≤ l.indent)
    (hk : l1.fields.take 2 = l2.fields.take 2) : run n s (pre ++ l1 :: (mid ++ l2 :: post)) = none := by
  cases hr : run n s (pre ++ l1 :: (mid ++ l2 :: post)) with
  | none => rfl
  | some s' =>
    exfalso
    obtain ⟨sa, _, ha⟩ := run_append_some hr
    obtain ⟨sb, hb, hb'⟩ := run_cons_some ha
    obtain ⟨sc, hc, hc'⟩ := run_append_some hb'
    obtain ⟨sd, hd, _⟩ := run_cons_some hc'
    obtain ⟨i1, k1, c1, d1, n1, r1, f1, a1, a2, _, _, a5⟩ := step_fld h1.1 h1.2 hb
    obtain ⟨i2, k2, c2, d2, n2, r2, f2, b1, b2, b3, b4, _⟩ := step_fld h2.1 h2.2 hd
    have hkey : (n1, d1) = (n2, d2) := by
      rw [a1, b1] at hk
      cases r1 with
      | nil => simp at a2
      | cons x r1 =>
        cases r2 with
        | nil => simp at b2
        | cons y r2 =>
          simp only [List.head?_cons, Option.some.injEq] at a2 b2
          simp only [List.take_succ_cons, List.take_zero, List.cons.injEq, and_true] at hk
          rw [← a2, ← b2, hk.1, hk.2]
    have hmem : (n1, d1) ∈ openFieldKeys sc.classes :=
      (run_member_keys mid sb sc hc hmid).1 _ (by rw [a5, openFieldKeys_snoc, keys_append_single]; simp)
    rw [b3, openFieldKeys_snoc, hkey] at hmem
    exact mem_keys_of_contains_false b4 hmem

theorem run_dup_method {n : Nat} {s : St} {pre mid post : List TLine} {l1 l2 : TLine}
    (h1 : l1.indent = 1 ∧ l1.first = M_) (h2 : l2.indent = 1 ∧ l2.first = M_) (hmid : ∀ l ∈ mid, 1 ≤ l.indent)
    (hk : l1.fields.take 2 = l2.fields.take 2) : run n s (pre ++ l1 :: (mid ++ l2 :: post)) = none := by
  cases hr : run n s (pre ++ l1 :: (mid ++ l2 :: post)) with
  | none => rfl
  | some s' =>
    exfalso
    obtain ⟨sa, _, ha⟩ := run_append_some hr
    obtain ⟨sb, hb, hb'⟩ := run_cons_some ha
    obtain ⟨sc, hc, hc'⟩ := run_append_some hb'
    obtain ⟨sd, hd, _⟩ := run_cons_some hc'
    obtain ⟨i1, k1, c1, d1, n1, r1, f1, a1, a2, _, _, _, a5⟩ := step_mth h1.1 h1.2 hb
    obtain ⟨i2, k2, c2, d2, n2, r2, f2, b1, b2, b3, b4, _, _⟩ := step_mth h2.1 h2.2 hd
    have hkey : (n1, d1) = (n2, d2) := by
      rw [a1, b1] at hk
      cases r1 with
      | nil => simp at a2
      | cons x r1 =>
        cases r2 with
        | nil => simp at b2
        | cons y r2 =>
          simp only [List.head?_cons, Option.some.injEq] at a2 b2
          simp only [List.take_succ_cons, List.take_zero, List.cons.injEq, and_true] at hk
          rw [← a2, ← b2, hk.1, hk.2]
    have hmem : (n1, d1) ∈ openMethodKeys sc.classes :=
      (run_member_keys mid sb sc hc hmid).2 _ (by rw [a5, openMethodKeys_snoc, keys_append_single]; simp)
    rw [b3, openMethodKeys_snoc, hkey] at hmem
    exact mem_keys_of_contains_false b4 hmem

/-- two parameter lines with the same index under one method line (`lm`) -/
theorem run_dup_param {n : Nat} {s : St} {pre mid0 mid post : List TLine} {lm l1 l2 : TLine}
    (hm : lm.indent = 1 ∧ lm.first = M_) (hmid0 : ∀ l ∈ mid0, 2 ≤ l.indent)
    (h1 : l1.indent = 2 ∧ l1.first = P_) (h2 : l2.indent = 2 ∧ l2.first = P_) (hmid : ∀ l ∈ mid, 2 ≤ l.indent)
    (hk : (l1.fields.head?).bind parseUsize = (l2.fields.head?).bind parseUsize) :
    run n s (pre ++ lm :: (mid0 ++ l1 :: (mid ++ l2 :: post))) = none := by
  cases hr : run n s (pre ++ lm :: (mid0 ++ l1 :: (mid ++ l2 :: post))) with
  | none => rfl
  | some s' =>
    exfalso
    obtain ⟨s0, _, h0⟩ := run_append_some hr
    obtain ⟨sm, hsm, hsm'⟩ := run_cons_some h0
    obtain ⟨sa, hsa, ha⟩ := run_append_some hsm'
    obtain ⟨sb, hb, hb'⟩ := run_cons_some ha
    obtain ⟨sc, hc, hc'⟩ := run_append_some hb'
    obtain ⟨sd, hd, _⟩ := run_cons_some hc'
    obtain ⟨_, _, _, _, _, _, _, _, _, _, _, km, _⟩ := step_mth hm.1 hm.2 hsm
    have ka : sa.kind = .method := by rw [(run_param_keys mid0 sm sa hsa hmid0).1, km]
    obtain ⟨i1, k1, c1, mi1, mk1, m1, x1, r1, ix1, p1, a1, a2, _, _, _, a6⟩ := step_par h1.1 h1.2 ka hb
    have kb : sb.kind = .method := by
      rw [(step_treeStep hb).2.1, kindAfter, ka]
      simp [h1.1]
    have kc : sc.kind = .method := by rw [(run_param_keys mid sb sc hc hmid).1, kb]
    obtain ⟨i2, k2, c2, mi2, mk2, m2, x2, r2, ix2, p2, b1, b2, b3, b4, b5, _⟩ := step_par h2.1 h2.2 kc hd
    have hkey : ix1 = ix2 := by
      rw [a1, b1] at hk
      simp only [List.head?_cons, Option.bind_some, a2, b2, Option.some.injEq] at hk
      exact hk
    have hmem : ix1 ∈ openParamKeys sc.classes :=
      (run_param_keys mid sb sc hc hmid).2 _ (by
        rw [a6, openParamKeys_snoc _ _ _ mi1 mk1 _ rfl, keys_append_single]; simp)
    rw [b3, openParamKeys_snoc _ _ _ mi2 mk2 m2 b4, hkey] at hmem
    exact mem_keys_of_contains_false b5 hmem

end Tiny
