import FeatherModel.Model.RemapProv
import FeatherModel.Lemmas.RemapperB

/-!
# Lemmas about `JarSuperProv::remap` (C06): `setOf`, `remapSupers`, the pre-order of the carried provider
-/

namespace Remapper

/-! ## `setOf` -/

theorem mem_foldl_setInsert (l acc : List JStr) (x : JStr) : x ∈ l.foldl setInsert acc ↔ x ∈ acc ∨ x ∈ l := by
  induction l generalizing acc with
  | nil => simp
  | cons a rest ih =>
    simp only [List.foldl_cons, ih, setInsert, List.mem_cons]
    by_cases h : a ∈ acc
    · simp only [List.contains_iff_mem.mpr h, if_true]
      constructor
      · rintro (h1 | h1)
        · exact Or.inl h1
        · exact Or.inr (Or.inr h1)
      · rintro (h1 | h1 | h1)
        · exact Or.inl h1
        · exact Or.inl (h1 ▸ h)
        · exact Or.inr h1
    · have : acc.contains a = false := by
        cases hc : acc.contains a with
        | false => rfl
        | true => exact absurd (List.contains_iff_mem.mp hc) h
      simp only [this, Bool.false_eq_true, if_false, List.mem_append, List.mem_singleton]
      constructor
      · rintro ((h1 | h1) | h1)
        · exact Or.inl h1
        · exact Or.inr (Or.inl h1)
        · exact Or.inr (Or.inr h1)
      · rintro (h1 | h1 | h1)
        · exact Or.inl (Or.inl h1)
        · exact Or.inl (Or.inr h1)
        · exact Or.inr h1

theorem mem_setOf (l : List JStr) (x : JStr) : x ∈ setOf l ↔ x ∈ l := by
  simp [setOf, mem_foldl_setInsert]

theorem nodup_foldl_setInsert (l acc : List JStr) (h : acc.Nodup) : (l.foldl setInsert acc).Nodup := by
  induction l generalizing acc with
  | nil => simpa
  | cons a rest ih =>
    simp only [List.foldl_cons]
    apply ih
    unfold setInsert
    by_cases hc : a ∈ acc
    · simpa [hc] using h
    · have : acc.contains a = false := by
        cases hc' : acc.contains a with
        | false => rfl
        | true => exact absurd (List.contains_iff_mem.mp hc') hc
      simp only [this, Bool.false_eq_true, if_false]
      rw [List.nodup_append]
      refine ⟨h, by simp, ?_⟩
      intro x hx y hy
      simp only [List.mem_singleton] at hy
      subst hy
      intro e
      exact hc (e ▸ hx)

theorem nodup_setOf (l : List JStr) : (setOf l).Nodup := nodup_foldl_setInsert l [] List.nodup_nil

theorem foldl_setInsert_of_nodup (l acc : List JStr) (h : (acc ++ l).Nodup) : l.foldl setInsert acc = acc ++ l := by
  induction l generalizing acc with
  | nil => simp
  | cons a rest ih =>
    have ha : a ∉ acc := by
      intro hm
      rw [List.nodup_append] at h
      exact h.2.2 a hm a List.mem_cons_self rfl
    have : acc.contains a = false := by
      cases hc' : acc.contains a with
      | false => rfl
      | true => exact absurd (List.contains_iff_mem.mp hc') ha
    simp only [List.foldl_cons, setInsert, this, Bool.false_eq_true, if_false]
    rw [ih (acc ++ [a]) (by simpa using h)]
    simp

/-- a duplicate-free list is what the loop of inserts produces -/
theorem setOf_of_nodup (l : List JStr) (h : l.Nodup) : setOf l = l := by
  unfold setOf
  rw [foldl_setInsert_of_nodup l [] (by simpa using h)]
  rfl

/-! ## `injOnList` -/

theorem injOnList_spec {f : JStr → JStr} {N : List JStr} (h : injOnList f N = true) {a b : JStr}
    (ha : a ∈ N) (hb : b ∈ N) (e : f a = f b) : a = b := by
  unfold injOnList at h
  have := (List.all_eq_true.mp ((List.all_eq_true.mp h) a ha)) b hb
  simpa [e] using this

theorem nodup_map_of_inj {f : JStr → JStr} {N l : List JStr} (h : injOnList f N = true) (hsub : ∀ x ∈ l, x ∈ N)
    (hl : l.Nodup) : (l.map f).Nodup := by
  induction l with
  | nil => simp
  | cons a rest ih =>
    rw [List.nodup_cons] at hl
    simp only [List.map_cons, List.nodup_cons, List.mem_map, not_exists, not_and]
    refine ⟨?_, ih (fun x hx => hsub x (List.mem_cons_of_mem _ hx)) hl.2⟩
    intro x hx e
    have := injOnList_spec h (hsub x (List.mem_cons_of_mem _ hx)) (hsub a List.mem_cons_self) e
    exact hl.1 (this ▸ hx)

/-! ## rows of the carried provider -/

theorem lookup_append {V : Type} (k : JStr) (a b : AList JStr V) :
    AList.lookup k (a ++ b) = match AList.lookup k a with
      | some v => some v
      | none => AList.lookup k b := by
  induction a with
  | nil => simp [AList.lookup]
  | cons e rest ih =>
    obtain ⟨k', v⟩ := e
    simp only [List.cons_append, AList.lookup]
    split
    · rfl
    · exact ih

theorem lookup_none_of_not_key {V : Type} (k : JStr) (s : AList JStr V) (h : k ∉ s.map Prod.fst) :
    AList.lookup k s = none := by
  induction s with
  | nil => rfl
  | cons e rest ih =>
    obtain ⟨k', v⟩ := e
    simp only [List.map_cons, List.mem_cons, not_or] at h
    simp only [AList.lookup]
    have : (k' == k) = false := by
      cases hc : k' == k with
      | false => rfl
      | true => exact absurd (by simpa using hc : k' = k).symm h.1
    simp [this, ih h.2]

theorem lookup_key_mem {V : Type} {k : JStr} {s : AList JStr V} {v : V} (h : AList.lookup k s = some v) : (k, v) ∈ s := by
  induction s with
  | nil => simp [AList.lookup] at h
  | cons e rest ih =>
    obtain ⟨k', v'⟩ := e
    simp only [AList.lookup] at h
    split at h
    · rename_i hk
      have : k' = k := by simpa using hk
      simp only [Option.some.injEq] at h
      subst this; subst h
      exact List.mem_cons_self
    · exact List.mem_cons_of_mem _ (ih h)

/-- **row-wise characterisation.** The row of the carried provider for a name `k` is the image of the *last* row of the
provider whose key has the image `k`; there is no row for `k` when no key has that image -/
theorem lookup_remapSupers (t : ATable) (s : Supers) (k : JStr) :
    AList.lookup k (remapSupers t s) =
      (lastMatch (fun e => mapClass t e.1 == k) s).map fun e => setOf (e.2.map (mapClass t)) := by
  unfold remapSupers
  rw [lookup_tableOf]
  unfold lastPair
  induction s with
  | nil => rfl
  | cons e rest ih =>
    simp only [List.map_cons, lastMatch]
    cases h1 : lastMatch (fun p : JStr × List JStr => p.1 == k) (rest.map (remapRow t)) with
    | some b =>
      rw [h1] at ih
      cases h2 : lastMatch (fun e => mapClass t e.1 == k) rest with
      | some c => rw [h2] at ih; simpa using ih
      | none => rw [h2] at ih; simp at ih
    | none =>
      rw [h1] at ih
      cases h2 : lastMatch (fun e => mapClass t e.1 == k) rest with
      | some c => rw [h2] at ih; simp at ih
      | none =>
        simp only [remapRow]
        by_cases hk : (mapClass t e.1 == k) = true <;> simp [hk]

/-- the keys of the carried provider are the images of the keys -/
theorem mem_keys_remapSupers (t : ATable) (s : Supers) (k : JStr) :
    (AList.lookup k (remapSupers t s)).isSome ↔ ∃ e ∈ s, mapClass t e.1 = k := by
  rw [lookup_remapSupers]
  cases h : lastMatch (fun e => mapClass t e.1 == k) s with
  | some e =>
    obtain ⟨h1, h2⟩ := lastMatch_some h
    simp only [Option.map_some, Option.isSome_some, true_iff]
    exact ⟨e, h1, by simpa using h2⟩
  | none =>
    simp only [Option.map_none, Option.isSome_none, Bool.false_eq_true, false_iff, not_exists, not_and]
    intro e he heq
    have := lastMatch_none h e he
    simp [heq] at this

/-- with unique keys and a renaming that is injective on the keys and on `c`, the last row whose key has the image of `c`
is the row of `c` -/
theorem lastMatch_of_inj (t : ATable) (s : Supers) (c : JStr) (N : List JStr) (hinj : injOnList (mapClass t) N = true)
    (hc : c ∈ N) (hkeys : ∀ e ∈ s, e.1 ∈ N) (hnd : (s.map Prod.fst).Nodup) :
    lastMatch (fun e => mapClass t e.1 == mapClass t c) s = (AList.lookup c s).map fun v => (c, v) := by
  induction s with
  | nil => rfl
  | cons e rest ih =>
    obtain ⟨k, v⟩ := e
    simp only [List.map_cons, List.nodup_cons] at hnd
    have ih' := ih (fun e he => hkeys e (List.mem_cons_of_mem _ he)) hnd.2
    simp only [lastMatch, AList.lookup]
    by_cases hk : k = c
    · subst hk
      have hnone : AList.lookup k rest = none := lookup_none_of_not_key k rest hnd.1
      rw [ih', hnone]
      simp
    · have hk' : (k == c) = false := by simpa using hk
      have hne : (mapClass t k == mapClass t c) = false := by
        cases hh : mapClass t k == mapClass t c with
        | false => rfl
        | true =>
          have := injOnList_spec hinj (hkeys (k, v) List.mem_cons_self) hc (by simpa using hh)
          exact absurd this hk
      rw [ih', hk']
      cases AList.lookup c rest with
      | some w => rfl
      | none => simp [hne]

/-- under the invariants and injectivity, the carried provider answers for the image of `c` with the image of the row of `c` -/
theorem lookup_remapSupers_inj (t : ATable) (s : Supers) (c : JStr) (N : List JStr)
    (hinj : injOnList (mapClass t) N = true) (hc : c ∈ N) (hkeys : ∀ e ∈ s, e.1 ∈ N) (hsups : ∀ e ∈ s, ∀ x ∈ e.2, x ∈ N)
    (hnd : (s.map Prod.fst).Nodup) (hnds : ∀ e ∈ s, e.2.Nodup) :
    AList.lookup (mapClass t c) (remapSupers t s) = (AList.lookup c s).map (List.map (mapClass t)) := by
  rw [lookup_remapSupers, lastMatch_of_inj t s c N hinj hc hkeys hnd]
  cases h : AList.lookup c s with
  | none => rfl
  | some v =>
    have hm := lookup_key_mem h
    simp only [Option.map_some]
    rw [setOf_of_nodup _ (nodup_map_of_inj hinj (hsups _ hm) (hnds _ hm))]

theorem mem_nodesOf_key {ps : List Supers} {s : Supers} {e : JStr × List JStr} (hs : s ∈ ps) (he : e ∈ s) :
    e.1 ∈ nodesOf ps := by
  unfold nodesOf
  simp only [List.mem_flatMap]
  exact ⟨s, hs, e, he, List.mem_cons_self⟩

theorem mem_nodesOf_sup {ps : List Supers} {s : Supers} {e : JStr × List JStr} {x : JStr} (hs : s ∈ ps) (he : e ∈ s)
    (hx : x ∈ e.2) : x ∈ nodesOf ps := by
  unfold nodesOf
  simp only [List.mem_flatMap]
  exact ⟨s, hs, e, he, List.mem_cons_of_mem _ hx⟩

theorem wfProvs_spec {ps : List Supers} (h : wfProvs ps = true) {s : Supers} (hs : s ∈ ps) :
    (s.map Prod.fst).Nodup ∧ ∀ e ∈ s, e.2.Nodup := by
  unfold wfProvs at h
  have := List.all_eq_true.mp h s hs
  simp only [Bool.and_eq_true, decide_eq_true_eq, List.all_eq_true] at this
  exact this

/-- the same for a `Vec` of providers behind `flattenProvs` -/
theorem lookup_flatten_remapProvs (t : ATable) (ps : List Supers) (c : JStr) (N : List JStr)
    (hinj : injOnList (mapClass t) N = true) (hc : c ∈ N) (hN : ∀ x ∈ nodesOf ps, x ∈ N) (hwf : wfProvs ps = true) :
    AList.lookup (mapClass t c) (flattenProvs (remapProvs t ps)) =
      (AList.lookup c (flattenProvs ps)).map (List.map (mapClass t)) := by
  induction ps with
  | nil => rfl
  | cons s rest ih =>
    have hwf' : wfProvs rest = true := by
      unfold wfProvs at hwf ⊢
      simp only [List.all_cons, Bool.and_eq_true] at hwf
      exact hwf.2
    have hN' : ∀ x ∈ nodesOf rest, x ∈ N := by
      intro x hx
      apply hN
      unfold nodesOf at hx ⊢
      simp only [List.flatMap_cons, List.mem_append]
      exact Or.inr hx
    obtain ⟨hnd, hnds⟩ := wfProvs_spec hwf (s := s) List.mem_cons_self
    simp only [flattenProvs, remapProvs, List.map_cons, List.flatten_cons] at ih ⊢
    rw [lookup_append, lookup_append]
    rw [lookup_remapSupers_inj t s c N hinj hc
      (fun e he => hN _ (mem_nodesOf_key List.mem_cons_self he))
      (fun e he x hx => hN _ (mem_nodesOf_sup List.mem_cons_self he hx)) hnd hnds]
    cases AList.lookup c s with
    | some v => rfl
    | none => exact ih hN' hwf'

/-! ## the pre-order of the carried provider -/

theorem concatM_map {α β γ : Type} (f : β → Option (List γ)) (g : α → β) (l : List α) :
    concatM f (l.map g) = concatM (fun a => f (g a)) l := by
  induction l with
  | nil => rfl
  | cons a rest ih => simp only [List.map_cons, concatM, ih]

theorem concatM_congr {α β : Type} {f g : α → Option (List β)} {l : List α} (h : ∀ a ∈ l, f a = g a) :
    concatM f l = concatM g l := by
  induction l with
  | nil => rfl
  | cons a rest ih =>
    simp only [concatM, h a List.mem_cons_self, ih (fun x hx => h x (List.mem_cons_of_mem _ hx))]

theorem concatM_map_result {α β γ : Type} (f : α → Option (List β)) (g : β → γ) (l : List α) :
    concatM (fun a => (f a).map (List.map g)) l = (concatM f l).map (List.map g) := by
  induction l with
  | nil => rfl
  | cons a rest ih =>
    simp only [concatM, ih]
    cases f a with
    | none => rfl
    | some x =>
      cases concatM f rest with
      | none => rfl
      | some y => simp

/-- the pre-order of the carried provider from the image of `c` is the image of the pre-order from `c` -/
theorem dfs_remapProvs (t : ATable) (ps : List Supers) (N : List JStr)
    (hinj : injOnList (mapClass t) N = true) (hN : ∀ x ∈ nodesOf ps, x ∈ N) (hwf : wfProvs ps = true) :
    ∀ (fuel : Nat) (c : JStr), c ∈ N →
      dfs (flattenProvs (remapProvs t ps)) fuel (mapClass t c) = (dfs (flattenProvs ps) fuel c).map (List.map (mapClass t)) := by
  intro fuel
  induction fuel with
  | zero => intro c _; rfl
  | succ f ih =>
    intro c hc
    rw [dfs, dfs, lookup_flatten_remapProvs t ps c N hinj hc hN hwf]
    cases hl : AList.lookup c (flattenProvs ps) with
    | none => rfl
    | some ss =>
      simp only [Option.map_some]
      have hss : ∀ x ∈ ss, x ∈ N := by
        intro x hx
        have hm := lookup_key_mem hl
        unfold flattenProvs at hm
        obtain ⟨s, hs, he⟩ := List.mem_flatten.mp hm
        exact hN _ (mem_nodesOf_sup hs he hx)
      rw [concatM_map, concatM_congr (fun a ha => ih a (hss a ha)), concatM_map_result]
      cases concatM (fun s => dfs (flattenProvs ps) f s) ss with
      | none => rfl
      | some l => simp

/-! ## the search on the way back -/

/-- if the first declaration of `key` along `order` is `key'`, every class of `order` that does not declare `key` declares
nothing for `key'` on the other side, and every class that declares `key ↦ key'` declares `key' ↦ key` on the other side,
then the first declaration of `key'` along the image of `order` is `key` -/
theorem findSome_back (φ : JStr → JStr) (D D' : JStr → Option MemberKey) (key key' : MemberKey) (order : List JStr)
    (hfwd : order.findSome? D = some key')
    (hmiss : ∀ d ∈ order, D d = none → D' (φ d) = none)
    (hhit : ∀ d ∈ order, D d = some key' → D' (φ d) = some key) :
    (order.map φ).findSome? D' = some key := by
  induction order with
  | nil => simp at hfwd
  | cons d rest ih =>
    simp only [List.map_cons, List.findSome?_cons] at hfwd ⊢
    cases hd : D d with
    | some v =>
      rw [hd] at hfwd
      simp only [Option.some.injEq] at hfwd
      subst hfwd
      rw [hhit d List.mem_cons_self hd]
    | none =>
      rw [hd] at hfwd
      rw [hmiss d List.mem_cons_self hd]
      exact ih hfwd (fun x hx => hmiss x (List.mem_cons_of_mem _ hx)) (fun x hx => hhit x (List.mem_cons_of_mem _ hx))

end Remapper
