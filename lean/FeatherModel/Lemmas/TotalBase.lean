import Lean.Elab.Tactic
import FeatherModel.Model.TotalBase

/-!
# C16 — reasoning principles for the `TM` monad

`Spec S B m Q`: whatever state `m` is started in,
* a panic of `m` is at a site of `S`,
* if the `alloc` account was at most `B` before, it is at most `B` afterwards (every request of `m` is `≤ B`),
* a result `ok a` satisfies `Q a`.

`PanicsIn S m` is `Spec` without the last two parts.  `pin` is the tactic that walks through a `do` block.
-/

namespace Total

def Spec {α : Type} (S : List Nat) (B : Nat) (m : TM α) (Q : α → Prop) : Prop :=
  ∀ st, (st.alloc ≤ B → (m st).2.alloc ≤ B) ∧
    (match (m st).1 with
     | .ok a => Q a
     | .err => True
     | .panic s => s ∈ S)

namespace Spec

variable {α β : Type} {S : List Nat} {B : Nat}

theorem ret (a : α) {Q : α → Prop} (h : Q a) : Spec S B (Pure.pure a : TM α) Q := by
  intro st; exact ⟨fun h => h, h⟩

theorem bind {m : TM α} {f : α → TM β} {Q : α → Prop} {R : β → Prop}
    (hm : Spec S B m Q) (hf : ∀ a, Q a → Spec S B (f a) R) : Spec S B (m >>= f) R := by
  intro st
  have h1 := hm st
  show (_ → (TM.bnd m f st).2.alloc ≤ B) ∧ (match (TM.bnd m f st).1 with | .ok a => R a | .err => True | .panic s => s ∈ S)
  unfold TM.bnd
  cases hr : m st with
  | mk o st1 =>
    rw [hr] at h1
    cases o with
    | ok a =>
      have h2 := hf a h1.2 st1
      exact ⟨fun h => h2.1 (h1.1 h), h2.2⟩
    | err => exact ⟨h1.1, trivial⟩
    | panic s => exact ⟨h1.1, h1.2⟩

theorem fail {Q : α → Prop} : Spec S B (TM.fail : TM α) Q := by
  intro st; exact ⟨fun h => h, trivial⟩

theorem crash {site : Nat} {Q : α → Prop} (h : site ∈ S) : Spec S B (TM.crash site : TM α) Q := by
  intro st; exact ⟨fun h => h, h⟩

theorem weaken {m : TM α} {Q R : α → Prop} (h : Spec S B m Q) (hq : ∀ a, Q a → R a) : Spec S B m R := by
  intro st
  have h1 := h st
  refine ⟨h1.1, ?_⟩
  cases hr : (m st).1 with
  | ok a => rw [hr] at h1; exact hq a h1.2
  | err => trivial
  | panic s => rw [hr] at h1; exact h1.2

theorem mono {S' : List Nat} {m : TM α} {Q : α → Prop} (h : Spec S B m Q) (hs : ∀ x, x ∈ S → x ∈ S') : Spec S' B m Q := by
  intro st
  have h1 := h st
  refine ⟨h1.1, ?_⟩
  cases hr : (m st).1 with
  | ok a => rw [hr] at h1; exact h1.2
  | err => trivial
  | panic s => rw [hr] at h1; exact hs s h1.2

theorem ofOption (o : Option α) : Spec S B (TM.ofOption o) (fun a => o = some a) := by
  cases o with
  | none => exact fail
  | some a => exact ret a rfl

theorem guard (c : Bool) : Spec S B (TM.guard c) (fun _ => c = true) := by
  unfold TM.guard
  cases c with
  | true => exact ret () rfl
  | false => exact fail

/-- a check whose site is allowed -/
theorem check_mem {site : Nat} (c : Bool) (h : site ∈ S) : Spec S B (TM.check site c) (fun _ => c = true) := by
  unfold TM.check
  cases c with
  | true => exact ret () rfl
  | false => exact crash h

/-- a check that holds: no site needed -/
theorem check_true {site : Nat} {c : Bool} (h : c = true) : Spec S B (TM.check site c) (fun _ => True) := by
  subst h; exact ret () trivial

theorem request {n : Nat} (h : n ≤ B) : Spec S B (TM.request n) (fun _ => True) := by
  intro st
  refine ⟨fun h' => ?_, trivial⟩
  show max st.alloc n ≤ B
  exact Nat.max_le.mpr ⟨h', h⟩

theorem addU8_mem {site a b : Nat} (h : site ∈ S) : Spec S B (addU8 site a b) (fun r => r = a + b ∧ r ≤ 255) := by
  unfold addU8; split
  · exact ret _ ⟨rfl, by assumption⟩
  · exact crash h

theorem addU8_le {site a b : Nat} (h : a + b ≤ 255) : Spec S B (addU8 site a b) (fun r => r = a + b) := by
  unfold addU8; rw [if_pos h]; exact ret _ rfl

theorem addU16_mem {site a b : Nat} (h : site ∈ S) : Spec S B (addU16 site a b) (fun r => r = a + b ∧ r ≤ 65535) := by
  unfold addU16; split
  · exact ret _ ⟨rfl, by assumption⟩
  · exact crash h

theorem subU_le {site a b : Nat} (h : b ≤ a) : Spec S B (subU site a b) (fun r => r = a - b) := by
  unfold subU; rw [if_pos h]; exact ret _ rfl

theorem byte_le (a : Nat) : byte a ≤ 255 := by unfold byte; omega

theorem u8 (s : Bytes) : Spec S B (Total.u8 s) (fun r => s.length = r.2.length + 1 ∧ r.1 ≤ 255) := by
  unfold Total.u8; split
  · exact ret _ ⟨by simp, byte_le _⟩
  · exact fail

theorem u16 (s : Bytes) : Spec S B (Total.u16 s) (fun r => s.length = r.2.length + 2 ∧ r.1 ≤ 65535) := by
  unfold Total.u16; split
  · rename_i a b r
    exact ret _ ⟨by simp, by have := byte_le a; have := byte_le b; show byte a * 256 + byte b ≤ 65535; omega⟩
  · exact fail

theorem u32 (s : Bytes) : Spec S B (Total.u32 s) (fun r => s.length = r.2.length + 4 ∧ r.1 ≤ 4294967295) := by
  unfold Total.u32; split
  · rename_i a b c d r
    refine ret _ ⟨by simp, ?_⟩
    have := byte_le a; have := byte_le b; have := byte_le c; have := byte_le d
    show ((byte a * 256 + byte b) * 256 + byte c) * 256 + byte d ≤ 4294967295
    omega
  · exact fail

theorem takeVec {n : Nat} (s : Bytes) (h : n ≤ B ∨ s.length ≤ B) :
    Spec S B (Total.takeVec n s) (fun r => r.1.length = n ∧ r.2.length ≤ s.length) := by
  unfold Total.takeVec
  refine bind (request (by rcases h with h | h <;> omega)) (fun _ _ => ?_)
  split
  · exact fail
  · refine ret _ ⟨?_, ?_⟩
    · simp only [List.length_take]; omega
    · simp only [List.length_drop]; omega

theorem loopN {body : Rd Unit} (h : ∀ s, Spec S B (body s) (fun r => r.2.length ≤ s.length)) :
    ∀ n s, Spec S B (Total.loopN body n s) (fun r => r.2.length ≤ s.length)
  | 0, s => ret _ (Nat.le_refl _)
  | n + 1, s => by
    unfold Total.loopN
    exact bind (h s) (fun ⟨_, s'⟩ h1 => weaken (loopN h n s') (fun r hr => Nat.le_trans hr h1))

theorem strSliceFrom_true {site : Nat} {l : List Nat} {n : Nat} (h : isCharBoundary l n = true) :
    Spec S B (Total.strSliceFrom site l n) (fun _ => True) :=
  check_true h

end Spec

/-- every panic of `m` is at a site of `S` -/
def PanicsIn {α : Type} (S : List Nat) (m : TM α) : Prop :=
  ∀ st s, (m st).1 = .panic s → s ∈ S

theorem Spec.panicsIn {α : Type} {S : List Nat} {B : Nat} {m : TM α} {Q : α → Prop} (h : Spec S B m Q) : PanicsIn S m := by
  intro st s e
  have h1 := (h st).2
  rw [e] at h1
  exact h1

/-- `alloc` stays below `B` -/
theorem Spec.alloc_le {α : Type} {S : List Nat} {B : Nat} {m : TM α} {Q : α → Prop} (h : Spec S B m Q) :
    (m.run).2.alloc ≤ B :=
  (h {}).1 (Nat.zero_le _)

theorem PanicsIn.not_panic {α : Type} {m : TM α} (h : PanicsIn [] m) (st : Acct) (s : Nat) : (m st).1 ≠ .panic s := by
  intro e
  have := h st s e
  simp at this


/-! ## evaluating a computation step by step (for the witnesses) -/

theorem bnd_apply {α β : Type} (m : TM α) (f : α → TM β) (st : Acct) :
    (m >>= f) st = (match m st with
      | (.ok a, st') => f a st'
      | (.err, st') => (.err, st')
      | (.panic s, st') => (.panic s, st')) := rfl
theorem ret_apply {α : Type} (a : α) (st : Acct) : (Pure.pure a : TM α) st = (.ok a, st) := rfl
theorem fail_apply {α : Type} (st : Acct) : (TM.fail : TM α) st = (.err, st) := rfl
theorem crash_apply {α : Type} (s : Nat) (st : Acct) : (TM.crash s : TM α) st = (.panic s, st) := rfl
/-- a panic of the first computation is the panic of the sequence -/
theorem bind_panic {α β : Type} {m : TM α} {f : α → TM β} {st : Acct} {s : Nat} (h : (m st).1 = .panic s) :
    ((m >>= f) st).1 = .panic s := by
  rw [bnd_apply]
  cases hr : m st with
  | mk o st1 =>
    rw [hr] at h
    cases o with
    | ok a => simp at h
    | err => simp at h
    | panic s1 => simpa using h

/-! ## the `pin` tactic: walk through a `do` block -/

open Lean Elab Tactic Meta in
/-- succeeds iff the goal is syntactically `Spec …` -/
elab "spec_goal" : tactic => do
  let g ← whnfR (← instantiateMVars (← getMainTarget))
  unless g.getAppFn.isConstOf ``Total.Spec do throwError "not a Spec goal"

open Lean Elab Tactic Meta in
/-- succeeds iff the goal is syntactically a `∀` / `→` -/
elab "pi_goal" : tactic => do
  let g ← whnfR (← instantiateMVars (← getMainTarget))
  unless g.isForall do throwError "not a pi goal"
  unless (← inferType g).isProp do throwError "not a proposition"

/-- extensible: closes a goal `Spec S B (f args) ?Q` for a function whose lemma is registered -/
syntax "pin_lemma" : tactic
macro_rules | `(tactic| pin_lemma) => `(tactic| assumption)
macro_rules | `(tactic| pin_lemma) => `(tactic| (with_reducible refine Spec.ret _ ?_) <;> try trivial)
macro_rules | `(tactic| pin_lemma) => `(tactic| with_reducible exact Spec.fail)
macro_rules | `(tactic| pin_lemma) => `(tactic| with_reducible exact Spec.guard _)
macro_rules | `(tactic| pin_lemma) => `(tactic| with_reducible exact Spec.ofOption _)
macro_rules | `(tactic| pin_lemma) => `(tactic| with_reducible exact Spec.u8 _)
macro_rules | `(tactic| pin_lemma) => `(tactic| with_reducible exact Spec.u16 _)
macro_rules | `(tactic| pin_lemma) => `(tactic| with_reducible exact Spec.u32 _)
macro_rules | `(tactic| pin_lemma) => `(tactic| (with_reducible refine Spec.check_mem _ ?_) <;> decide)
macro_rules | `(tactic| pin_lemma) => `(tactic| (with_reducible refine Spec.addU16_mem ?_) <;> decide)
macro_rules | `(tactic| pin_lemma) => `(tactic| (with_reducible refine Spec.addU8_mem ?_) <;> decide)
macro_rules | `(tactic| pin_lemma) => `(tactic| (with_reducible refine Spec.crash ?_) <;> decide)

/-- one structural step; goals that are not of the form `Spec …` / `∀ …` are left alone -/
macro "pin_step" : tactic => `(tactic| first
  | (spec_goal; first | pin_lemma | with_reducible apply Spec.bind | split)
  | (pi_goal; intro _))

/-- walks through the `do` block; what remains are the postconditions that are not `True` -/
macro "pin" : tactic => `(tactic| repeat' pin_step)

end Total
