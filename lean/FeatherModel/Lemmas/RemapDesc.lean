import FeatherModel.Model.RemapSpec
import FeatherModel.Lemmas.DescriptorParse

/-!
# Lemmas for C07: the class named by a field descriptor

The specification side reads the class of an enum constant's type off the descriptor text (`classOfDesc`: between the
leading `L` and the trailing `;`); `remap.rs` asks duke's descriptor parser (`objectClassOf`, model of
`FieldDescriptorSlice::parse` from C18). Both are the JVMS production `ObjectType: L ClassName ;`.
-/

namespace RemapTree

theorem dropLast_concat_of_getLast? (l : List Nat) (a : Nat) (h : l.getLast? = some a) : l.dropLast ++ [a] = l := by
  have hne : l ≠ [] := by intro e; simp [e] at h
  have h2 := List.dropLast_concat_getLast hne
  rw [List.getLast?_eq_some_getLast hne] at h
  simp only [Option.some.injEq] at h
  rw [h] at h2
  exact h2

/-- duke's parser answers `Type::Object(k)` exactly for `L k ;` with `k` a class name in internal form -/
theorem objectClassOf_iff (t k : JStr) :
    objectClassOf t = some k ↔ DescriptorGrammar.ClassName k ∧ t = Descriptor.cL :: k ++ [Descriptor.SEMI] := by
  have h1 : objectClassOf t = some k ↔ Descriptor.parseField t = some (.obj k) := by
    unfold objectClassOf
    cases h : Descriptor.parseField t with
    | none => simp
    | some ty => cases ty <;> simp
  rw [h1, Descriptor.parseField_iff, Descriptor.FieldTy_iff_flat]
  rfl

theorem classOfDesc_iff (t k : JStr) :
    classOfDesc t = some k ↔ DescriptorGrammar.ClassName k ∧ t = Descriptor.cL :: k ++ [Descriptor.SEMI] := by
  cases t with
  | nil => simp [classOfDesc]
  | cons c rest =>
    simp only [classOfDesc, L_, SEMI, Descriptor.cL, Descriptor.SEMI]
    constructor
    · intro h
      by_cases hc : (c == 76 && rest.getLast? == some 59 && Descriptor.validObj rest.dropLast) = true
      · simp only [hc, ↓reduceIte] at h
        simp only [Bool.and_eq_true, beq_iff_eq] at hc
        obtain ⟨⟨hc1, hc2⟩, hc3⟩ := hc
        simp only [Option.some.injEq] at h
        subst h
        refine ⟨(Descriptor.validObj_iff _).1 hc3, ?_⟩
        have := dropLast_concat_of_getLast? rest 59 hc2
        rw [hc1, List.cons_append, this]
      · simp [hc] at h
    · rintro ⟨hk, ht⟩
      simp only [List.cons_append, List.cons.injEq] at ht
      obtain ⟨rfl, rfl⟩ := ht
      have hv := (Descriptor.validObj_iff k).2 hk
      simp [hv]

/-- **the specification's reading of the descriptor is the parser's** -/
theorem classOfDesc_eq (t : JStr) : classOfDesc t = objectClassOf t := by
  apply Option.ext
  intro k
  rw [classOfDesc_iff, objectClassOf_iff]

end RemapTree
