import FeatherModel.Model.VersionGraph

/-! Paths, shortest paths and the loop walk of the version graph (helper lemmas for `Thm/C05.lean`). -/

namespace VG

/-! ## paths -/

theorem IsPath.mono {g1 g2 : Graph} (h : ∀ e, e ∈ g1.edges → e ∈ g2.edges) {s d : JStr} {p : List Edge}
    (hp : IsPath g1 s d p) : IsPath g2 s d p := by
  induction hp with
  | nil n => exact IsPath.nil n
  | cons he _ ih => exact IsPath.cons (h _ he) ih

theorem IsPath.append {g : Graph} {a b c : JStr} {p q : List Edge}
    (hp : IsPath g a b p) (hq : IsPath g b c q) : IsPath g a c (p ++ q) := by
  induction hp with
  | nil n => simpa using hq
  | cons he _ ih => exact IsPath.cons he (ih hq)

theorem IsPath.snoc {g : Graph} {a : JStr} {p : List Edge} {e : Edge}
    (hp : IsPath g a e.parent p) (he : e ∈ g.edges) : IsPath g a e.child (p ++ [e]) :=
  hp.append (IsPath.cons he (IsPath.nil _))

theorem IsPath.split {g : Graph} {p q : List Edge} : ∀ {a c : JStr}, IsPath g a c (p ++ q) →
    ∃ b, IsPath g a b p ∧ IsPath g b c q := by
  induction p with
  | nil => intro a c h; exact ⟨a, IsPath.nil a, by simpa using h⟩
  | cons e p ih =>
    intro a c h
    cases h with
    | cons he hrest =>
      obtain ⟨b, h1, h2⟩ := ih hrest
      exact ⟨b, IsPath.cons he h1, h2⟩

theorem IsPath.nil_inv {g : Graph} {a b : JStr} (h : IsPath g a b []) : a = b := by
  cases h; rfl

theorem IsPath.cons_inv {g : Graph} {a c : JStr} {e : Edge} {p : List Edge} (h : IsPath g a c (e :: p)) :
    a = e.parent ∧ e ∈ g.edges ∧ IsPath g e.child c p := by
  cases h with
  | cons he hrest => exact ⟨rfl, he, hrest⟩

theorem IsPath.single_inv {g : Graph} {a b : JStr} {e : Edge} (h : IsPath g a b [e]) :
    a = e.parent ∧ e ∈ g.edges ∧ e.child = b := by
  obtain ⟨h1, h2, h3⟩ := h.cons_inv
  exact ⟨h1, h2, h3.nil_inv⟩

theorem IsPath.mem_edges {g : Graph} {a b : JStr} {p : List Edge} (hp : IsPath g a b p) :
    ∀ e, e ∈ p → e ∈ g.edges := by
  induction hp with
  | nil n => intro e he; simp at he
  | cons he _ ih =>
    intro e' he'
    rcases List.mem_cons.mp he' with h | h
    · subst h; exact he
    · exact ih _ h

theorem liveEdges_sub {g : Graph} {e : Edge} (h : e ∈ liveEdges g) : e ∈ g.edges :=
  (List.mem_filter.mp h).1

theorem IsPath.of_live {g : Graph} {s d : JStr} {p : List Edge} (hp : IsPath (live g) s d p) : IsPath g s d p :=
  hp.mono (fun _ he => liveEdges_sub he)

/-- every edge has a live representative with the same end points -/
theorem live_rep {g : Graph} {e : Edge} (he : e ∈ g.edges) :
    ∃ e', e' ∈ liveEdges g ∧ e'.parent = e.parent ∧ e'.child = e.child := by
  have hmem : e ∈ g.edges.filter (fun x => x.parent == e.parent && x.child == e.child) := by
    simp [List.mem_filter, he]
  cases hl : (g.edges.filter (fun x => x.parent == e.parent && x.child == e.child)).getLast? with
  | none =>
    rw [List.getLast?_eq_none_iff] at hl
    rw [hl] at hmem; simp at hmem
  | some e' =>
    have hin : e' ∈ g.edges.filter (fun x => x.parent == e.parent && x.child == e.child) :=
      List.mem_of_getLast? hl
    obtain ⟨h1, h2⟩ := List.mem_filter.mp hin
    have h3 : e'.parent = e.parent ∧ e'.child = e.child := by simpa using h2
    refine ⟨e', ?_, h3.1, h3.2⟩
    simp only [liveEdges, List.mem_filter, findEdge, h3.1, h3.2, hl, h1, true_and]
    simp

theorem IsPath.to_live {g : Graph} {s d : JStr} {q : List Edge} (hq : IsPath g s d q) :
    ∃ q', IsPath (live g) s d q' ∧ q'.length = q.length := by
  induction hq with
  | nil n => exact ⟨[], IsPath.nil n, rfl⟩
  | cons he _ ih =>
    obtain ⟨q', h1, h2⟩ := ih
    obtain ⟨e', hl, hp, hc⟩ := live_rep he
    refine ⟨e' :: q', ?_, by simp [h2]⟩
    rw [← hp]
    exact IsPath.cons (g := live g) hl (by rw [hc]; exact h1)

/-! ## `pathsOfLen`, `shortestPaths` -/

theorem mem_pathsOfLen {g : Graph} : ∀ (len : Nat) (src dst : JStr) (p : List Edge),
    p ∈ pathsOfLen g len src dst ↔ (IsPath (live g) src dst p ∧ p.length = len) := by
  intro len
  induction len with
  | zero =>
    intro src dst p
    simp only [pathsOfLen]
    constructor
    · intro hp
      split at hp
      · rename_i h
        have : src = dst := by simpa using h
        subst this
        simp at hp; subst hp
        exact ⟨IsPath.nil _, rfl⟩
      · simp at hp
    · intro ⟨hp, hl⟩
      have : p = [] := List.eq_nil_of_length_eq_zero hl
      subst this
      cases hp
      simp
  | succ n ih =>
    intro src dst p
    simp only [pathsOfLen, List.mem_flatMap, List.mem_map, List.mem_filter]
    constructor
    · intro ⟨e, ⟨he, hpar⟩, q, hq, hpq⟩
      subst hpq
      have hpar' : e.parent = src := by simpa using hpar
      obtain ⟨h1, h2⟩ := (ih e.child dst q).mp hq
      subst hpar'
      exact ⟨IsPath.cons (g := live g) he h1, by simp [h2]⟩
    · intro ⟨hp, hl⟩
      cases hp with
      | nil => simp at hl
      | cons he hrest =>
        rename_i e q
        refine ⟨e, ⟨he, by simp⟩, q, (ih e.child dst q).mpr ⟨hrest, by simpa using hl⟩, rfl⟩

theorem mem_go {g : Graph} {src dst : JStr} {p : List Edge} : ∀ (fuel len : Nat),
    p ∈ shortestPaths.go g src dst fuel len →
    IsPath (live g) src dst p ∧ len ≤ p.length ∧ p.length < len + fuel ∧
      ∀ l, len ≤ l → l < p.length → pathsOfLen g l src dst = [] := by
  intro fuel
  induction fuel with
  | zero => intro len hp; simp [shortestPaths.go] at hp
  | succ f ih =>
    intro len hp
    simp only [shortestPaths.go] at hp
    cases hps : pathsOfLen g len src dst with
    | nil =>
      rw [hps] at hp
      obtain ⟨h1, h2, h3, h4⟩ := ih (len + 1) hp
      refine ⟨h1, by omega, by omega, ?_⟩
      intro l hl1 hl2
      by_cases hll : l = len
      · subst hll; exact hps
      · exact h4 l (by omega) hl2
    | cons q qs =>
      rw [hps] at hp
      simp only at hp
      rw [← hps] at hp
      obtain ⟨h1, h2⟩ := (mem_pathsOfLen _ _ _ _).mp hp
      refine ⟨h1, by omega, by omega, ?_⟩
      intro l hl1 hl2
      omega

theorem go_complete {g : Graph} {src dst : JStr} {q : List Edge} (hq : IsPath (live g) src dst q) :
    ∀ (fuel len : Nat), (∀ l, len ≤ l → l < q.length → pathsOfLen g l src dst = []) →
    len ≤ q.length → q.length < len + fuel → q ∈ shortestPaths.go g src dst fuel len := by
  intro fuel
  induction fuel with
  | zero => intro len _ h1 h2; omega
  | succ f ih =>
    intro len hnone h1 h2
    simp only [shortestPaths.go]
    by_cases hl : len = q.length
    · have hmem : q ∈ pathsOfLen g len src dst := (mem_pathsOfLen _ _ _ _).mpr ⟨hq, hl.symm⟩
      cases hps : pathsOfLen g len src dst with
      | nil => rw [hps] at hmem; simp at hmem
      | cons x xs => simp only; rw [← hps]; exact hmem
    · have hps : pathsOfLen g len src dst = [] := hnone len (Nat.le_refl _) (by omega)
      rw [hps]
      exact ih (len + 1) (fun l hl1 hl2 => hnone l (by omega) hl2) (by omega) (by omega)

/-- the result of the path search, characterised without reference to the order of the edge list: the live paths of
minimal length (the length bound is the search bound; it is never reached in a resolved graph) -/
theorem mem_shortestPaths_iff {g : Graph} {src dst : JStr} {p : List Edge} :
    p ∈ shortestPaths g src dst ↔
      (IsPath (live g) src dst p ∧ (∀ q, IsPath (live g) src dst q → p.length ≤ q.length) ∧
        p.length ≤ g.edges.length) := by
  unfold shortestPaths
  constructor
  · intro hp
    obtain ⟨h1, _, h3, h4⟩ := mem_go _ _ hp
    refine ⟨h1, ?_, by omega⟩
    intro q hq
    cases Nat.lt_or_ge q.length p.length with
    | inr h => exact h
    | inl h =>
      have := h4 q.length (Nat.zero_le _) h
      have hm : q ∈ pathsOfLen g q.length src dst := (mem_pathsOfLen _ _ _ _).mpr ⟨hq, rfl⟩
      rw [this] at hm; simp at hm
  · intro ⟨h1, h2, h3⟩
    refine go_complete h1 _ _ ?_ (Nat.zero_le _) (by omega)
    intro l _ hl
    cases hps : pathsOfLen g l src dst with
    | nil => rfl
    | cons x xs =>
      have hx : x ∈ pathsOfLen g l src dst := by rw [hps]; simp
      obtain ⟨hx1, hx2⟩ := (mem_pathsOfLen _ _ _ _).mp hx
      have := h2 x hx1
      omega

/-! ## the loop walk -/

theorem all_false_of_mem {α : Type} {l : List α} {f : α → Bool} {x : α} (hx : x ∈ l) (hf : f x = false) :
    l.all f = false := by
  cases h : l.all f with
  | false => rfl
  | true =>
    rw [List.all_eq_true] at h
    rw [h x hx] at hf; simp at hf

theorem mem_children {g : Graph} {n v : JStr} : v ∈ children g n ↔ ∃ e, e ∈ g.edges ∧ e.parent = n ∧ e.child = v := by
  simp only [children, List.mem_map, List.mem_filter]
  constructor
  · intro ⟨e, ⟨h1, h2⟩, h3⟩; exact ⟨e, h1, by simpa using h2, h3⟩
  · intro ⟨e, h1, h2, h3⟩; exact ⟨e, ⟨h1, by simpa using h2⟩, h3⟩

/-- a walk of at least `fuel` steps from `head` makes the loop check fail -/
theorem walk_long_false {g : Graph} : ∀ (fuel : Nat) (path : List JStr) (head dst : JStr) (p : List Edge),
    IsPath g head dst p → fuel ≤ p.length → walkOk g fuel path head = false := by
  intro fuel
  induction fuel with
  | zero => intros; rfl
  | succ f ih =>
    intro path head dst p hp hlen
    cases hp with
    | nil => simp at hlen
    | cons he hrest =>
      rename_i e q
      simp only [walkOk]
      apply all_false_of_mem (x := e.child) (mem_children.mpr ⟨e, he, rfl, rfl⟩)
      rw [ih (path ++ [e.child]) e.child dst q hrest (by simpa using hlen)]
      simp

theorem cycle_unbounded {g : Graph} {root v : JStr} {p q : List Edge}
    (hp : IsPath g root v p) (hq : IsPath g v v q) (hne : q ≠ []) :
    ∀ n, ∃ p', IsPath g root v p' ∧ n ≤ p'.length := by
  intro n
  induction n with
  | zero => exact ⟨p, hp, Nat.zero_le _⟩
  | succ n ih =>
    obtain ⟨p', h1, h2⟩ := ih
    refine ⟨p' ++ q, h1.append hq, ?_⟩
    have : 1 ≤ q.length := by
      cases q with
      | nil => exact absurd rfl hne
      | cons => simp
    simp; omega

/-- pigeonhole: a duplicate-free list inside `m` is at most as long as `m` -/
theorem nodup_sub_length_le : ∀ (l m : List JStr), l.Nodup → (∀ x, x ∈ l → x ∈ m) → l.length ≤ m.length := by
  intro l
  induction l with
  | nil => intros; simp
  | cons a l ih =>
    intro m hnd hsub
    obtain ⟨hna, hnd'⟩ := List.nodup_cons.mp hnd
    obtain ⟨s, t, hm⟩ := List.append_of_mem (hsub a List.mem_cons_self)
    have hsub' : ∀ x, x ∈ l → x ∈ s ++ t := by
      intro x hx
      have hxm := hsub x (List.mem_cons_of_mem _ hx)
      rw [hm] at hxm
      have hxa : x ≠ a := fun h => hna (h ▸ hx)
      simp only [List.mem_append, List.mem_cons] at hxm ⊢
      rcases hxm with h | h | h
      · exact Or.inl h
      · exact absurd h hxa
      · exact Or.inr h
    have := ih (s ++ t) hnd' hsub'
    rw [hm]
    simp at this ⊢
    omega

/-- if the loop check fails with enough fuel, there is a cycle that can be reached from the root -/
theorem walk_false_cycle {g : Graph} {root : JStr} : ∀ (fuel : Nat) (path : List JStr) (head : JStr) (pe : List Edge),
    IsPath g root head pe → pe.map (·.child) = path → path.Nodup → g.edges.length + 1 ≤ fuel + path.length →
    walkOk g fuel path head = false → ReachableCycle g root := by
  intro fuel
  induction fuel with
  | zero =>
    intro path head pe hpe hmap hnd hlen _
    have hsub : ∀ x, x ∈ path → x ∈ g.edges.map (·.child) := by
      intro x hx
      rw [← hmap] at hx
      obtain ⟨e, he, rfl⟩ := List.mem_map.mp hx
      exact List.mem_map.mpr ⟨e, hpe.mem_edges e he, rfl⟩
    have := nodup_sub_length_le _ _ hnd hsub
    simp at this
    omega
  | succ f ih =>
    intro path head pe hpe hmap hnd hlen hw
    simp only [walkOk] at hw
    rw [List.all_eq_false] at hw
    obtain ⟨v, hv, hfv⟩ := hw
    obtain ⟨e, he, hpar, hch⟩ := mem_children.mp hv
    by_cases hc : path.contains v = true
    · -- `v` is already on the path: the part of the path after `v`, closed by `e`, is a cycle
      have hvp : v ∈ pe.map (·.child) := by rw [hmap]; simpa using hc
      obtain ⟨e', he', hch'⟩ := List.mem_map.mp hvp
      obtain ⟨s, t, hst⟩ := List.append_of_mem he'
      rw [hst] at hpe
      obtain ⟨b, h1, h2⟩ := hpe.split
      cases h2 with
      | cons he'' hrest =>
        have hcyc : IsPath g v v (t ++ [e]) := by
          have h3 : IsPath g e'.child e.parent t := by rw [hpar]; exact hrest
          have := h3.snoc he
          rw [hch, hch'] at this
          exact this
        have hroot : IsPath g root v (s ++ [e']) := by
          have := h1.snoc he''
          rw [hch'] at this
          exact this
        exact ⟨v, s ++ [e'], t ++ [e], hroot, hcyc, by simp⟩
    · have hw' : walkOk g f (path ++ [v]) v = false := by
        have hc' : path.contains v = false := by simpa using hc
        rw [hc'] at hfv
        simpa using hfv
      have hpe' : IsPath g root v (pe ++ [e]) := by
        have h3 : IsPath g root e.parent pe := by rw [hpar]; exact hpe
        have := h3.snoc he
        rw [hch] at this
        exact this
      refine ih (path ++ [v]) v (pe ++ [e]) hpe' (by simp [hmap, hch]) ?_ (by simp; omega) hw'
      rw [List.nodup_append]
      refine ⟨hnd, by simp, ?_⟩
      intro a ha b hb
      have : b = v := by simpa using hb
      subst this
      intro hab
      subst hab
      exact hc (by simpa using ha)

/-! ## listing order -/

theorem all_perm {α : Type} {l l' : List α} (h : l.Perm l') (f : α → Bool) : l.all f = l'.all f := by
  cases h1 : l.all f <;> cases h2 : l'.all f <;> try rfl
  · rw [List.all_eq_true] at h2
    rw [List.all_eq_false] at h1
    obtain ⟨x, hx, hfx⟩ := h1
    exact absurd (h2 x (h.mem_iff.mp hx)) hfx
  · rw [List.all_eq_true] at h1
    rw [List.all_eq_false] at h2
    obtain ⟨x, hx, hfx⟩ := h2
    exact absurd (h1 x (h.mem_iff.mpr hx)) hfx

theorem children_perm {g g' : Graph} (h : g'.edges.Perm g.edges) (n : JStr) : (children g' n).Perm (children g n) :=
  (h.filter _).map _

theorem walkOk_perm {g g' : Graph} (h : g'.edges.Perm g.edges) : ∀ (fuel : Nat) (path : List JStr) (head : JStr),
    walkOk g' fuel path head = walkOk g fuel path head := by
  intro fuel
  induction fuel with
  | zero => intros; rfl
  | succ f ih =>
    intro path head
    simp only [walkOk]
    rw [all_perm (children_perm h head)]
    congr 1
    funext v
    rw [ih]

/-- without parallel edges every edge is live -/
theorem liveEdges_of_noParallel {g : Graph} (h : NoParallel g) : liveEdges g = g.edges := by
  unfold liveEdges
  rw [List.filter_eq_self]
  intro e he
  have hmem : e ∈ g.edges.filter (fun x => x.parent == e.parent && x.child == e.child) := by
    simp [List.mem_filter, he]
  cases hl : (g.edges.filter (fun x => x.parent == e.parent && x.child == e.child)).getLast? with
  | none =>
    rw [List.getLast?_eq_none_iff] at hl
    rw [hl] at hmem; simp at hmem
  | some e' =>
    have hin := List.mem_of_getLast? hl
    obtain ⟨h1, h2⟩ := List.mem_filter.mp hin
    have h3 : e'.parent = e.parent ∧ e'.child = e.child := by simpa using h2
    have : e' = e := h e' h1 e he h3.1 h3.2
    subst this
    simp [findEdge, hl]

end VG
