import FeatherModel.Lemmas.ArmsReaderModel

/-!
# The small tag dispatches of the reader: constant pool, verification types, stack-map frames, element values

Generated tables (`Gen/ReaderArms.lean`) against the JVMS tables, and against the hand-written model: the pool entry
dispatch by evaluation on every tag byte, `read_verification_type_info` and `read_stack_map_frame` for all inputs.
-/

namespace Arms

open ClassRead ClassRead.Outcome JvmsTables

/-! ## against the JVMS -/

theorem pool_arms_jvms :
    (Gen.ReaderArms.poolArms.map fun a => (a.1, squash a.2.1, a.2.2.1.sum, a.2.2.2.1, a.2.2.2.2)) =
      (poolTags.map fun r => (r.1, squash r.2.1, r.2.2.1.sum, (if r.2.2.2.1 then 1 else 0), r.2.2.2.2)) := by decide +kernel

theorem vtype_arms_jvms : Gen.ReaderArms.vtypeArms = verificationTypes := by decide +kernel

theorem frame_arms_jvms :
    ((Gen.ReaderArms.frameArms.filter fun a => a.2.2.1 != jstr "bail").map
        fun a => (a.1, a.2.1, squash a.2.2.1, if a.2.2.2.1 = 0 then some a.2.2.2.2 else none)) =
      (frameTypes.map fun r => (r.1, r.2.1, squash r.2.2.2.1, r.2.2.2.2)) ∧
    ((Gen.ReaderArms.frameArms.filter fun a => a.2.2.1 == jstr "bail").map fun a => (a.1, a.2.1)) = [frameReserved] ∧
    Gen.ReaderArms.chopFrom = chopFrom ∧ Gen.ReaderArms.appendFrom = appendFrom := by decide +kernel

theorem element_arms_jvms :
    Gen.ReaderArms.elementArmsNamed = Gen.ReaderArms.elementArmsUnnamed ∧
    (Gen.ReaderArms.elementArmsNamed.map fun a => (a.1, squash (if a.2.1 = jstr "Integer" then jstr "int" else a.2.1), getterKind a.2.2)) =
      (elementValueTags.map fun r => (r.1, squash r.2.1, squash r.2.2)) := by decide +kernel

/-! ## the model's constant-pool dispatch, by evaluation -/

theorem pool_probe_all :
    ((List.range 256).all fun tag =>
      poolProbe tag == (Gen.ReaderArms.poolArms.lookup tag).map fun a => (a.1, a.2.1.sum, a.2.2.2)) = true := by decide +kernel

theorem pool_arms_match_model (tag : Nat) (h : tag < 256) :
    poolProbe tag = (Gen.ReaderArms.poolArms.lookup tag).map fun a => (a.1, a.2.1.sum, a.2.2.2) := by
  have := List.all_eq_true.mp pool_probe_all tag (List.mem_range.mpr h)
  simpa using this

/-! ## `read_verification_type_info`, all inputs -/

theorem readVType_kind (p : Pool) (l l' : Labels) (t : Nat) (s s' : Bytes) (v : VType)
    (h : readVType p l (t :: s) = ok (v, l', s')) :
    ∃ extra, Gen.ReaderArms.vtypeArms.lookup t = some (vtypeName v, extra) := by
  unfold readVType at h
  simp only [u8, ok_bind] at h
  rcases t with _ | _ | _ | _ | _ | _ | _ | _ | _ | t
  all_goals simp only [bind_eq_ok, Prod.exists, pure_eq, ok.injEq, Prod.mk.injEq, reduceCtorEq] at h
  · obtain ⟨rfl, -⟩ := h; exact ⟨_, rfl⟩
  · obtain ⟨rfl, -⟩ := h; exact ⟨_, rfl⟩
  · obtain ⟨rfl, -⟩ := h; exact ⟨_, rfl⟩
  · obtain ⟨rfl, -⟩ := h; exact ⟨_, rfl⟩
  · obtain ⟨rfl, -⟩ := h; exact ⟨_, rfl⟩
  · obtain ⟨rfl, -⟩ := h; exact ⟨_, rfl⟩
  · obtain ⟨rfl, -⟩ := h; exact ⟨_, rfl⟩
  · obtain ⟨_, _, _, _, _, rfl, -⟩ := h; exact ⟨_, rfl⟩
  · obtain ⟨_, _, _, _, _, _, rfl, -⟩ := h; exact ⟨_, rfl⟩

theorem readVType_none (p : Pool) (l : Labels) (t : Nat) (s : Bytes) (ht : t < 256)
    (h : Gen.ReaderArms.vtypeArms.lookup t = none) : readVType p l (t :: s) = err := by
  have key : ∀ t, t < 256 → Gen.ReaderArms.vtypeArms.lookup t = none → 9 ≤ t := by decide +kernel
  have h9 := key t ht h
  obtain ⟨k, rfl⟩ : ∃ k, t = k + 9 := ⟨t - 9, by omega⟩
  unfold readVType
  simp only [u8, ok_bind]

/-! ## `read_stack_map_frame`, all inputs -/

/-- the model's `readFrame` dispatch as a table -/
def frameModel (t : Nat) : Option (JStr × Option Nat) :=
  if t ≤ 63 then some (jstr "Same", some 0)
  else if t ≤ 127 then some (jstr "SameLocals1StackItem", some 64)
  else if t ≤ 246 then none
  else if t = 247 then some (jstr "SameLocals1StackItem", none)
  else if t ≤ 250 then some (jstr "Chop", none)
  else if t = 251 then some (jstr "Same", none)
  else if t ≤ 254 then some (jstr "Append", none)
  else some (jstr "Full", none)

theorem frame_model_agree : ∀ t, t < 256 → frameModel t = frameArm? t := by decide +kernel

theorem readFrame_kind (p : Pool) (l l' : Labels) (t d : Nat) (s s' : Bytes) (f : Frame)
    (h : readFrame p l (t :: s) = ok ((d, f), l', s')) :
    ∃ b, frameModel t = some (frameName f, b) ∧ (∀ k, b = some k → d = t - k) ∧ (∀ k, f = .chop k → k = 251 - t) := by
  unfold readFrame at h
  simp only [u8, ok_bind] at h
  unfold frameModel
  split at h
  · rename_i c; rw [if_pos c]
    simp only [pure_eq, ok.injEq, Prod.mk.injEq] at h
    obtain ⟨⟨rfl, rfl⟩, -⟩ := h
    exact ⟨_, rfl, (by intro k hk; cases hk; rfl), (by intro k hk; cases hk)⟩
  rename_i c1; rw [if_neg c1]
  split at h
  · rename_i c; rw [if_pos c]
    simp only [bind_eq_ok, Prod.exists, pure_eq, ok.injEq, Prod.mk.injEq] at h
    obtain ⟨_, _, _, _, ⟨rfl, rfl⟩, -⟩ := h
    exact ⟨_, rfl, (by intro k hk; cases hk; rfl), (by intro k hk; cases hk)⟩
  rename_i c2; rw [if_neg c2]
  split at h
  · exact absurd h (by simp)
  rename_i c3; rw [if_neg c3]
  split at h
  · rename_i c; rw [if_pos c]
    simp only [bind_eq_ok, Prod.exists, pure_eq, ok.injEq, Prod.mk.injEq] at h
    obtain ⟨_, _, _, _, _, _, _, ⟨rfl, rfl⟩, -⟩ := h
    exact ⟨_, rfl, (by intro k hk; cases hk), (by intro k hk; cases hk)⟩
  rename_i c4; rw [if_neg c4]
  split at h
  · rename_i c; rw [if_pos c]
    simp only [bind_eq_ok, Prod.exists, pure_eq, ok.injEq, Prod.mk.injEq] at h
    obtain ⟨_, _, _, ⟨rfl, rfl⟩, -⟩ := h
    exact ⟨_, rfl, (by intro k hk; cases hk), (by intro k hk; injection hk with hk; exact hk.symm)⟩
  rename_i c5; rw [if_neg c5]
  split at h
  · rename_i c; rw [if_pos c]
    simp only [bind_eq_ok, Prod.exists, pure_eq, ok.injEq, Prod.mk.injEq] at h
    obtain ⟨_, _, _, ⟨rfl, rfl⟩, -⟩ := h
    exact ⟨_, rfl, (by intro k hk; cases hk), (by intro k hk; cases hk)⟩
  rename_i c6; rw [if_neg c6]
  split at h
  · rename_i c; rw [if_pos c]
    simp only [bind_eq_ok, Prod.exists, pure_eq, ok.injEq, Prod.mk.injEq] at h
    obtain ⟨_, _, _, _, _, _, _, ⟨rfl, rfl⟩, -⟩ := h
    exact ⟨_, rfl, (by intro k hk; cases hk), (by intro k hk; cases hk)⟩
  · rename_i c; rw [if_neg c]
    simp only [bind_eq_ok, Prod.exists, pure_eq, ok.injEq, Prod.mk.injEq] at h
    obtain ⟨_, _, _, _, _, _, _, _, _, _, _, ⟨rfl, rfl⟩, -⟩ := h
    exact ⟨_, rfl, (by intro k hk; cases hk), (by intro k hk; cases hk)⟩

theorem readFrame_none (p : Pool) (l : Labels) (t : Nat) (s : Bytes) (h : frameModel t = none) :
    readFrame p l (t :: s) = err := by
  unfold frameModel at h
  split at h; · cases h
  split at h; · cases h
  split at h
  · rename_i c1 c2 c3
    unfold readFrame
    simp only [u8, ok_bind, c1, c2, c3, ↓reduceIte]
  · split at h; · cases h
    split at h; · cases h
    split at h; · cases h
    split at h <;> cases h

theorem vtype_frame_arms_match_model (p : Pool) (l l' : Labels) (t : Nat) (s s' : Bytes) (ht : t < 256) :
    (∀ v, readVType p l (t :: s) = ok (v, l', s') → ∃ extra, Gen.ReaderArms.vtypeArms.lookup t = some (vtypeName v, extra)) ∧
    (Gen.ReaderArms.vtypeArms.lookup t = none → readVType p l (t :: s) = err) ∧
    (∀ d f, readFrame p l (t :: s) = ok ((d, f), l', s') →
      ∃ b, frameArm? t = some (frameName f, b) ∧ (∀ k, b = some k → d = t - k) ∧ (∀ k, f = .chop k → k = Gen.ReaderArms.chopFrom - t)) ∧
    (frameArm? t = none → readFrame p l (t :: s) = err) := by
  refine ⟨fun v h => readVType_kind p l l' t s s' v h, fun h => readVType_none p l t s ht h, ?_, ?_⟩
  · intro d f h
    obtain ⟨b, h1, h2, h3⟩ := readFrame_kind p l l' t d s s' f h
    exact ⟨b, by rw [← frame_model_agree t ht]; exact h1, h2, h3⟩
  · intro h
    exact readFrame_none p l t s (by rw [frame_model_agree t ht]; exact h)

end Arms
