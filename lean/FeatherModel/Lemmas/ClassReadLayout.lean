import FeatherModel.Lemmas.ClassReadInsn

/-! C01 lemmas about the layout functions of the specification: sizes are the lengths of the encodings, positions
are strictly increasing. -/

namespace ClassRead
open Outcome Spec

theorem length_flatMap_const {α : Type} (f : α → Bytes) (k : Nat) (xs : List α) (h : ∀ x ∈ xs, (f x).length = k) :
    (xs.flatMap f).length = k * xs.length := by
  induction xs with
  | nil => simp
  | cons x xs ih =>
    have := h x (by simp)
    have := ih (fun y hy => h y (by simp [hy]))
    simp [List.flatMap_cons, *]
    rw [Nat.mul_add]; omega

theorem SInsn.size_pos (a : Nat) (si : SInsn) : 1 ≤ si.size a := by
  obtain ⟨insn, form, cp, pad⟩ := si
  cases insn <;> cases form <;> simp [SInsn.size] <;> omega

theorem SInsn.encode_length (pos : Nat → Nat) (a : Nat) (si : SInsn) : (si.encode pos a).length = si.size a := by
  obtain ⟨insn, form, cp, pad⟩ := si
  cases insn with
  | tableswitch d lo hi tbl =>
    have h := length_flatMap_const (fun t => be32 (ofI32 (relOff pos a t))) 4 tbl (fun _ _ => rfl)
    cases form <;> simp [SInsn.encode, SInsn.size, be32_length, h] <;> omega
  | lookupswitch d pairs =>
    have h := length_flatMap_const (fun kt : Int × Nat => be32 (ofI32 kt.1) ++ be32 (ofI32 (relOff pos a kt.2))) 8 pairs
      (fun _ _ => by simp [be32_length])
    cases form <;> simp [SInsn.encode, SInsn.size, be32_length, h] <;> omega
  | _ => cases form <;> simp [SInsn.encode, SInsn.size, be16_length, be32_length]

theorem SInsn.encode_ne_nil (pos : Nat → Nat) (a : Nat) (si : SInsn) : si.encode pos a ≠ [] := by
  intro h
  have := SInsn.encode_length pos a si
  have := SInsn.size_pos a si
  simp [h] at *
  omega

theorem endPos_ge (xs : List SInsn) (a : Nat) : a + xs.length ≤ endPos xs a := by
  induction xs generalizing a with
  | nil => simp [endPos]
  | cons x xs ih =>
    have := ih (a + x.size a)
    have := SInsn.size_pos a x
    simp [endPos]; omega

theorem encInsns_length (pos : Nat → Nat) (xs : List SInsn) (a : Nat) : a + (encInsns pos xs a).length = endPos xs a := by
  induction xs generalizing a with
  | nil => simp [encInsns, endPos]
  | cons x xs ih =>
    have := ih (a + x.size a)
    simp [encInsns, endPos, SInsn.encode_length]; omega

theorem endPos_append (xs ys : List SInsn) (a : Nat) : endPos (xs ++ ys) a = endPos ys (endPos xs a) := by
  induction xs generalizing a with
  | nil => simp [endPos]
  | cons x xs ih => simp [endPos, ih]

theorem codePos_zero (insns : List SInsn) : codePos insns 0 = 0 := by simp [codePos, endPos]

theorem codePos_succ (insns : List SInsn) (i : Nat) (h : i < insns.length) :
    codePos insns (i + 1) = codePos insns i + insns[i].size (codePos insns i) := by
  unfold codePos
  rw [List.take_succ_eq_append_getElem h, endPos_append]
  simp [endPos]

theorem codePos_mono (insns : List SInsn) (i j : Nat) (hij : i < j) (hj : j ≤ insns.length) :
    codePos insns i < codePos insns j := by
  induction j with
  | zero => omega
  | succ j ih =>
    have hj' : j < insns.length := by omega
    rw [codePos_succ insns j hj']
    have := SInsn.size_pos (codePos insns j) insns[j]
    rcases Nat.lt_or_ge i j with h | h
    · have := ih h (by omega); omega
    · have : i = j := by omega
      subst this; omega

theorem codePos_inj (insns : List SInsn) (i j : Nat) (hi : i ≤ insns.length) (hj : j ≤ insns.length)
    (h : codePos insns i = codePos insns j) : i = j := by
  rcases Nat.lt_trichotomy i j with h1 | h1 | h1
  · have := codePos_mono insns i j h1 hj; omega
  · exact h1
  · have := codePos_mono insns j i h1 hi; omega

theorem codePos_le_end (insns : List SInsn) (i : Nat) (hi : i ≤ insns.length) :
    codePos insns i ≤ codePos insns insns.length := by
  rcases Nat.lt_or_ge i insns.length with h | h
  · exact Nat.le_of_lt (codePos_mono insns i insns.length h (Nat.le_refl _))
  · have : i = insns.length := by omega
    subst this; exact Nat.le_refl _

end ClassRead
