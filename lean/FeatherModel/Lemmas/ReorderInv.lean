import FeatherModel.Lemmas.ReorderSpec
import FeatherModel.Lemmas.ReorderDesc

/-!
# Lookup tables, rows, the class map on unique keys, and the relational inverse of `reorder`
-/

namespace Reorder
open MapDesc

/-! ## `get_namespace` -/

theorem nsGo_some {name : JStr} : ∀ (l : List JStr) (k i : Nat), Mappings.getNamespace.go name l k = some i →
    ∃ j, i = k + j ∧ l[j]? = some name := by
  intro l
  induction l with
  | nil => intro k i h; simp [Mappings.getNamespace.go] at h
  | cons n l ih =>
    intro k i h
    simp only [Mappings.getNamespace.go] at h
    split at h
    · rename_i hn
      simp only [Option.some.injEq] at h
      have : n = name := by simpa using hn
      exact ⟨0, by omega, by simp [this]⟩
    · obtain ⟨j, hj, hl⟩ := ih _ _ h
      exact ⟨j + 1, by omega, by simpa using hl⟩

theorem nsGo_nodup {name : JStr} : ∀ (l : List JStr) (k j : Nat), l.Nodup → l[j]? = some name →
    Mappings.getNamespace.go name l k = some (k + j) := by
  intro l
  induction l with
  | nil => intro k j _ h; simp at h
  | cons n l ih =>
    intro k j hnd h
    simp only [List.nodup_cons] at hnd
    simp only [Mappings.getNamespace.go]
    cases j with
    | zero =>
      simp only [List.getElem?_cons_zero, Option.some.injEq] at h
      simp [h]
    | succ j =>
      simp only [List.getElem?_cons_succ] at h
      have hmem : name ∈ l := List.mem_of_getElem? h
      have hne : ¬ (n == name) = true := by
        intro e
        have : n = name := by simpa using e
        subst this
        exact hnd.1 hmem
      simp only [hne]
      rw [ih (k + 1) j hnd.2 h]
      have : k + 1 + j = k + (j + 1) := by omega
      rw [this]
      simp

theorem nsGo_mem {name : JStr} : ∀ (l : List JStr) (k : Nat), name ∈ l →
    ∃ i, Mappings.getNamespace.go name l k = some i := by
  intro l
  induction l with
  | nil => intro k h; simp at h
  | cons n l ih =>
    intro k h
    simp only [Mappings.getNamespace.go]
    split
    · exact ⟨k, rfl⟩
    · rename_i hn
      rcases List.mem_cons.mp h with rfl | h
      · simp at hn
      · exact ih _ h

theorem getNamespace_some {m : Mappings} {x : JStr} {i : Nat} (h : m.getNamespace x = some i) : m.ns[i]? = some x := by
  obtain ⟨j, hj, hl⟩ := nsGo_some m.ns 0 i h
  have : i = j := by omega
  subst this; exact hl

theorem getNamespace_nodup {m : Mappings} {x : JStr} {i : Nat} (hnd : m.ns.Nodup) (h : m.ns[i]? = some x) :
    m.getNamespace x = some i := by
  have := nsGo_nodup m.ns 0 i hnd h
  simpa [Mappings.getNamespace] using this

theorem getNamespace_mem {m : Mappings} {x : JStr} (h : x ∈ m.ns) : ∃ i, m.getNamespace x = some i :=
  nsGo_mem m.ns 0 h

/-! ## lookup tables -/

theorem tableOf_rel {m : Mappings} {req : List JStr} {table : List Nat} (h : tableOf m req = some table) :
    ListRel (fun x i => m.getNamespace x = some i) req table := mapOpt_iff.mp h

/-- the new namespace names are the requested names -/
theorem tableOf_ns {m : Mappings} {req : List JStr} {table : List Nat} (h : tableOf m req = some table) :
    table.map (fun i => m.ns.getD i []) = req := by
  have := ListRel.map_eq (f := fun x : JStr => x) (g := fun i => m.ns.getD i [])
    ((tableOf_rel h).imp_mem (fun x _ i _ hx => by
      have := getNamespace_some hx
      simp [List.getD_eq_getElem?_getD, this]))
  simpa using this

theorem mapOpt_exists {α β : Type} {f : α → Option β} : ∀ (l : List α), (∀ a ∈ l, ∃ b, f a = some b) →
    ∃ l', mapOpt f l = some l' := by
  intro l
  induction l with
  | nil => intro _; exact ⟨[], rfl⟩
  | cons a l ih =>
    intro h
    obtain ⟨b, hb⟩ := h a List.mem_cons_self
    obtain ⟨l', hl'⟩ := ih (fun x hx => h x (List.mem_cons_of_mem _ hx))
    exact ⟨b :: l', by simp [mapOpt, hb, hl']⟩

theorem tableOf_exists {m : Mappings} {req : List JStr} (h : ∀ x ∈ req, x ∈ m.ns) : ∃ table, tableOf m req = some table :=
  mapOpt_exists req (fun x hx => getNamespace_mem (h x hx))

/-! ## name rows -/

theorem reorderNames_head {t0 : Nat} {rest : List Nat} {names : Names} :
    (reorderNames (t0 :: rest) names).head? = some (names.getD t0 none) := by
  simp [reorderNames]

theorem getD_zero_of_head {names : Names} {o : Option JStr} (h : names.head? = some o) : names.getD 0 none = o := by
  cases names with
  | nil => simp at h
  | cons a l => simp at h; simp [h]

theorem reorderNames_ext {table : List Nat} {src names : Names} (hlen : table.length = names.length)
    (h : ∀ (i : Nat) (hi : i < table.length), src.getD table[i] none = names.getD i none) :
    reorderNames table src = names := by
  apply List.ext_getElem
  · simp [reorderNames, hlen]
  · intro i h1 h2
    simp only [reorderNames, List.getElem_map]
    have hi : i < table.length := by simpa [reorderNames] using h1
    rw [h i hi]
    simp [List.getD_eq_getElem?_getD, h2]

theorem reorderNames_getD {table : List Nat} {names : Names} {j i : Nat} (h : table[j]? = some i) :
    (reorderNames table names).getD j none = names.getD i none := by
  simp [reorderNames, List.getD_eq_getElem?_getD, h]

/-! ## the class map when the `from` names are unique -/

theorem mapClass_of_mem {P : AList JStr JStr} {x y : JStr} (hnd : (AList.keys P).Nodup) (h : (x, y) ∈ P) :
    mapClass P x = y := by
  unfold mapClass
  have hnd' : (AList.keys P.reverse).Nodup := by
    simp only [AList.keys, List.map_reverse]
    exact (List.reverse_perm _).nodup_iff.mpr hnd
  rw [lookup_of_mem_nodup hnd' (List.mem_reverse.mpr h)]

theorem mapClass_of_not_mem {P : AList JStr JStr} {x : JStr} (h : x ∉ AList.keys P) : mapClass P x = x := by
  unfold mapClass
  have h' : x ∉ AList.keys P.reverse := by
    simp only [AList.keys, List.map_reverse, List.mem_reverse]
    exact h
  rw [lookup_none_of_not_mem h']

theorem filterMap_eq_map_of {α β : Type} {F : α → Option β} {G : α → β} : ∀ (l : List α),
    (∀ e ∈ l, F e = some (G e)) → l.filterMap F = l.map G := by
  intro l
  induction l with
  | nil => intro _; rfl
  | cons a l ih =>
    intro h
    rw [List.filterMap_cons, h a List.mem_cons_self]
    simp [ih (fun e he => h e (List.mem_cons_of_mem _ he))]

theorem filterMap_of_rel {α β γ : Type} {F : β → Option γ} {H : α → γ} {l : List α} {l' : List β}
    (h : ListRel (fun a b => F b = some (H a)) l l') : l'.filterMap F = l.map H := by
  induction h with
  | nil => rfl
  | cons hab _ ih => rw [List.filterMap_cons, hab]; simp [ih]

/-! ## entries of the result, read backwards -/

theorem mem_descsOf {m : Mappings} {d : JStr} : d ∈ descsOf m ↔
    ∃ e ∈ m.classes, (∃ x ∈ e.2.fields, x.2.desc = d) ∨ (∃ x ∈ e.2.methods, x.2.desc = d) := by
  simp only [descsOf, List.mem_flatMap, List.mem_append, List.mem_map]

theorem param_back {n : Nat} {table table' : List Nat} {e e' : Nat × Param}
    (hwf : ParamWF n e)
    (hnames : ∀ names : Names, names.length = n → reorderNames table' (reorderNames table names) = names)
    (h : ParamRel table e e') : ParamRel table' e' e := by
  obtain ⟨h1, h2, h3, h4⟩ := h
  refine ⟨by rw [hwf.2, h2], h2.symm, ?_, h4.symm⟩
  rw [h3, hnames _ hwf.1]

theorem field_back {n : Nat} {f g : JStr → JStr} {table table' : List Nat} {e e' : MemberKey × Field}
    (hwf : FieldWF n e)
    (hnames : ∀ names : Names, names.length = n → reorderNames table' (reorderNames table names) = names)
    (hdesc : ∀ d', mapDesc f e.2.desc = some d' → mapDesc g d' = some e.2.desc)
    (h : FieldRel f table e e') : FieldRel g table' e' e := by
  obtain ⟨h1, h2, h3, _, _⟩ := h
  refine ⟨hdesc _ h1, ?_, h3.symm, hwf.2.1, hwf.2.2⟩
  rw [h2, hnames _ hwf.1]

theorem method_back {n : Nat} {f g : JStr → JStr} {table table' : List Nat} {e e' : MemberKey × Method}
    (hwf : MethodWF n e)
    (hnames : ∀ names : Names, names.length = n → reorderNames table' (reorderNames table names) = names)
    (hdesc : ∀ d', mapDesc f e.2.desc = some d' → mapDesc g d' = some e.2.desc)
    (h : MethodRel f table e e') : MethodRel g table' e' e := by
  obtain ⟨h1, h2, h3, _, _, h6, _⟩ := h
  refine ⟨hdesc _ h1, ?_, h3.symm, hwf.2.1, hwf.2.2.1, ?_, hwf.2.2.2.1⟩
  · rw [h2, hnames _ hwf.1]
  · exact h6.flip.imp_mem (fun b _ a ha hr => param_back (hwf.2.2.2.2 a ha) hnames hr)

theorem class_back {n : Nat} {f g : JStr → JStr} {table table' : List Nat} {e e' : JStr × Class}
    (hwf : ClassWF n e)
    (hnames : ∀ names : Names, names.length = n → reorderNames table' (reorderNames table names) = names)
    (hdescF : ∀ x ∈ e.2.fields, ∀ d', mapDesc f x.2.desc = some d' → mapDesc g d' = some x.2.desc)
    (hdescM : ∀ x ∈ e.2.methods, ∀ d', mapDesc f x.2.desc = some d' → mapDesc g d' = some x.2.desc)
    (h : ClassRel f table e e') : ClassRel g table' e' e := by
  obtain ⟨h1, h2, _, h4, _, h6, _⟩ := h
  obtain ⟨w1, w2, w3, w4, w5, w6⟩ := hwf
  refine ⟨?_, h2.symm, w2, ?_, w3, ?_, w5⟩
  · rw [h1, hnames _ w1]
  · exact h4.flip.imp_mem (fun b _ a ha hr => field_back (w4 a ha) hnames (hdescF a ha) hr)
  · exact h6.flip.imp_mem (fun b _ a ha hr => method_back (w6 a ha) hnames (hdescM a ha) hr)

/-- `table'` undoes `table` on rows of the right length -/
theorem names_roundtrip {table table' : List Nat} {n : Nat} (hlen : table'.length = n)
    (hperm : ∀ (i : Nat) (hi : i < table'.length), table[table'[i]]? = some i)
    (names : Names) (hn : names.length = n) : reorderNames table' (reorderNames table names) = names := by
  apply reorderNames_ext (by omega)
  intro i hi
  exact reorderNames_getD (hperm i hi)

/-- reordering back: the relational core of `Thm.C08.reorder_inverse` -/
theorem spec_inverse {m m' : Mappings} {req : List JStr} {t0 : Nat} {rest : List Nat}
    (hwf : WF m) (hreq : ∀ n ∈ m.ns, n ∈ req) (htab : tableOf m req = some (t0 :: rest))
    (hinj : DescInjective m t0) (hs : Spec m req m') : Spec m' m.ns m := by
  obtain ⟨hlen, t0', rest0, htab', hns, hdoc, hrel, hnd'⟩ := hs
  rw [htab] at htab'
  simp only [Option.some.injEq, List.cons.injEq] at htab'
  obtain ⟨ht0, hrest⟩ := htab'
  subst ht0 hrest
  obtain ⟨hnsnd, hknd, hcwf⟩ := hwf
  -- the new namespace names are the request
  have hns' : m'.ns = req := by rw [hns]; exact tableOf_ns htab
  have htlen : (t0 :: rest).length = req.length := ((tableOf_rel htab).length_eq).symm
  -- the table of the way back
  obtain ⟨table', htab2⟩ : ∃ table', tableOf m' m.ns = some table' :=
    tableOf_exists (fun x hx => by rw [hns']; exact hreq x hx)
  have ht'len : table'.length = m.ns.length := ((tableOf_rel htab2).length_eq).symm
  have hperm : ∀ (i : Nat) (hi : i < table'.length), (t0 :: rest)[table'[i]]? = some i := by
    intro i hi
    have hi2 : i < m.ns.length := by omega
    have h1 := (tableOf_rel htab2).get i hi2 hi
    have h2 := getNamespace_some h1
    rw [hns'] at h2
    have hj : table'[i] < req.length := by
      rcases Nat.lt_or_ge table'[i] req.length with h | h
      · exact h
      · rw [List.getElem?_eq_none h] at h2; simp at h2
    have hj2 : table'[i] < (t0 :: rest).length := by omega
    have h3 := (tableOf_rel htab).get table'[i] hj hj2
    have h4 : req[table'[i]] = m.ns[i] := by
      rw [List.getElem?_eq_getElem hj] at h2
      simpa using h2
    rw [h4] at h3
    have h5 := getNamespace_nodup hnsnd (List.getElem?_eq_getElem hi2)
    rw [h5] at h3
    simp only [Option.some.injEq] at h3
    rw [List.getElem?_eq_getElem hj2, ← h3]
  have hnames := names_roundtrip ht'len hperm
  cases table' with
  | nil =>
    simp only [List.length_nil] at ht'len
    simp only [List.length_cons] at htlen
    omega
  | cons t0' rest' =>
  have hback0 : (t0 :: rest)[t0']? = some 0 := hperm 0 (by simp)
  -- the rows of both class maps
  let tgt : JStr × Class → JStr := fun e => (e.2.names.getD t0 none).getD []
  have htgt : ∀ e ∈ m.classes, ∀ e' ∈ m'.classes, ClassRel (mapClass (rows m t0)) (t0 :: rest) e e' →
      e.2.names.getD t0 none = some e'.1 := by
    intro e _ e' _ hr
    have h3 := hr.2.2.1
    rw [hr.1, reorderNames_head] at h3
    simpa using h3
  have hsrc : ∀ e ∈ m.classes, e.2.names.getD 0 none = some e.1 := fun e he => getD_zero_of_head (hcwf e he).2.1
  have hrows : rows m t0 = m.classes.map (fun e => (e.1, tgt e)) := by
    apply filterMap_eq_map_of
    intro e he
    obtain ⟨e', he', hr⟩ := hrel.mem_left he
    simp only [hsrc e he, tgt, htgt e he e' he' hr, Option.getD_some]
  have hkeys' : AList.keys m'.classes = m.classes.map tgt := by
    unfold AList.keys
    apply ListRel.map_eq
    exact hrel.imp_mem (fun e he e' he' hr => by simp only [tgt, htgt e he e' he' hr, Option.getD_some])
  have htargets : targets m t0 = m.classes.map tgt := by
    apply filterMap_eq_map_of
    intro e he
    obtain ⟨e', he', hr⟩ := hrel.mem_left he
    simp only [tgt, htgt e he e' he' hr, Option.getD_some]
  have hrows' : rows m' t0' = m.classes.map (fun e => (tgt e, e.1)) := by
    apply filterMap_of_rel
    refine hrel.imp_mem (fun e he e' he' hr => ?_)
    have h0 : e'.2.names.getD 0 none = some e'.1 := getD_zero_of_head hr.2.2.1
    have h1 : e'.2.names.getD t0' none = some e.1 := by
      rw [hr.1, reorderNames_getD hback0]
      exact hsrc e he
    simp only [h0, h1, tgt, htgt e he e' he' hr, Option.getD_some]
  have hPnd : (AList.keys (rows m t0)).Nodup := by
    rw [hrows]; simpa [AList.keys, List.map_map, Function.comp_def] using hknd
  have hQnd : (AList.keys (rows m' t0')).Nodup := by
    rw [hrows']
    have : (m.classes.map tgt).Nodup := by rw [← hkeys']; exact hnd'
    simpa [AList.keys, List.map_map, Function.comp_def] using this
  -- the class map of the way back inverts the class map on every mentioned class
  have hmention : ∀ d ∈ descsOf m, ∀ x ∈ classesOf d,
      mapClass (rows m' t0') (mapClass (rows m t0) x) = x ∧
      mapClass (rows m t0) x ≠ [] ∧ SEMI ∉ mapClass (rows m t0) x := by
    intro d hd x hx
    by_cases hk : x ∈ AList.keys m.classes
    · obtain ⟨e, he, hex⟩ := List.mem_map.mp hk
      have hP : (x, tgt e) ∈ rows m t0 := by
        rw [hrows]; exact List.mem_map.mpr ⟨e, he, by simp [hex]⟩
      have hQ : (tgt e, x) ∈ rows m' t0' := by
        rw [hrows']; exact List.mem_map.mpr ⟨e, he, by simp [hex]⟩
      rw [mapClass_of_mem hPnd hP, mapClass_of_mem hQnd hQ]
      have : tgt e ∈ targets m t0 := by rw [htargets]; exact List.mem_map.mpr ⟨e, he, rfl⟩
      exact ⟨rfl, hinj.2 _ this⟩
    · have hP : x ∉ AList.keys (rows m t0) := by
        rw [hrows]; simpa [AList.keys, List.map_map, Function.comp_def] using hk
      rw [mapClass_of_not_mem hP]
      have hnt : x ∉ targets m t0 := by
        rcases hinj.1 d hd x hx with h | h
        · exact absurd h hk
        · exact h
      have hQ : x ∉ AList.keys (rows m' t0') := by
        rw [hrows']
        rw [htargets] at hnt
        simpa [AList.keys, List.map_map, Function.comp_def] using hnt
      rw [mapClass_of_not_mem hQ]
      exact ⟨rfl, classesOf_clean hx⟩
  have hdesc : ∀ d ∈ descsOf m, ∀ d', mapDesc (mapClass (rows m t0)) d = some d' →
      mapDesc (mapClass (rows m' t0')) d' = some d := by
    intro d hd d' h
    exact mapDesc_roundtrip h (fun x hx => (hmention d hd x hx).1) (fun x hx => (hmention d hd x hx).2)
  refine ⟨by rw [hns', hlen], t0', rest', htab2, ?_, hdoc.symm, ?_, hknd⟩
  · exact (tableOf_ns htab2).symm
  · refine hrel.flip.imp_mem (fun e' _ e he hr => ?_)
    refine class_back (hcwf e he) hnames ?_ ?_ hr
    · intro x hx
      exact hdesc _ (mem_descsOf.mpr ⟨e, he, Or.inl ⟨x, hx, rfl⟩⟩)
    · intro x hx
      exact hdesc _ (mem_descsOf.mpr ⟨e, he, Or.inr ⟨x, hx, rfl⟩⟩)

/-! ## small facts used by the failure and identity theorems -/

theorem nodup_get_ne {α : Type} {l : List α} (h : l.Nodup) {i j : Nat} (hi : i < l.length) (hj : j < l.length)
    (hij : i < j) : l[i] ≠ l[j] :=
  List.pairwise_iff_getElem.mp (List.nodup_iff_pairwise_ne.mp h) i j hi hj hij

theorem mapClass_diag {P : AList JStr JStr} (h : ∀ p ∈ P, p.1 = p.2) (x : JStr) : mapClass P x = x := by
  unfold mapClass
  cases hl : AList.lookup x P.reverse with
  | none => rfl
  | some b =>
    have := AList.lookup_mem hl
    exact (h _ (List.mem_reverse.mp this)).symm

theorem rows_zero_diag (m : Mappings) : ∀ p ∈ rows m 0, p.1 = p.2 := by
  intro p hp
  simp only [rows, List.mem_filterMap] at hp
  obtain ⟨e, _, he⟩ := hp
  cases hn : e.2.names.getD 0 none with
  | none => rw [hn] at he; simp at he
  | some a =>
    rw [hn] at he
    simp only [Option.some.injEq] at he
    subst he; rfl

end Reorder
