import FeatherModel.Lemmas.MavenMediation

/-! The `set.remove` closure of `clean_up_dependencies` (a set that starts with every id of the forest and shrinks)
and the "first seen" predicate of the specification (a set that starts empty and grows) give the same level trace (C19). -/

namespace Maven
open Tree (sizeList)

variable {α σ τ : Type}

section sim
variable (f : σ → α → Bool × σ) (g : τ → α → Bool × τ) (R : σ → τ → Prop) (P : α → Prop)
variable (hstep : ∀ s t a, R s t → P a → (f s a).1 = (g t a).1 ∧ R (f s a).2 (g t a).2)
include hstep

theorem filterS_sim : ∀ (ts : List (Tree α)) (s : σ) (t : τ), R s t → (∀ x ∈ ts, P x.data) →
    (filterS f s ts).2 = (filterS g t ts).2 ∧ R (filterS f s ts).1 (filterS g t ts).1 ∧
      verdicts f s ts = verdicts g t ts := by
  intro ts
  induction ts with
  | nil => intro s t hR _; exact ⟨rfl, hR, rfl⟩
  | cons x xs ih =>
    intro s t hR hP
    obtain ⟨h1, h2⟩ := hstep s t x.data hR (hP x (by simp))
    obtain ⟨i1, i2, i3⟩ := ih (f s x.data).2 (g t x.data).2 h2 (fun y hy => hP y (by simp [hy]))
    simp only [filterS, verdicts, h1, i1, i3]
    exact ⟨trivial, i2, trivial⟩

theorem levelsFrom_sim : ∀ (n : Nat) (level : List (Tree α)) (s : σ) (t : τ), sizeList level ≤ n → R s t →
    (∀ a ∈ nodesList level, P a) → levelsFrom f s level = levelsFrom g t level := by
  intro n
  induction n with
  | zero =>
    intro level s t h _ _
    cases level with
    | nil => rw [levelsFrom_nil, levelsFrom_nil]
    | cons x xs => simp [Tree.sizeList, size_eq] at h
  | succ n ih =>
    intro level s t h hR hP
    cases level with
    | nil => rw [levelsFrom_nil, levelsFrom_nil]
    | cons x xs =>
      have hPc : ∀ a ∈ nodesList ((x :: xs).flatMap Tree.children), P a :=
        fun a ha => hP a (mem_nodesList_children ha)
      obtain ⟨i1, i2, i3⟩ := filterS_sim f g R P hstep ((x :: xs).flatMap Tree.children) s t hR
        (fun y hy => hPc _ (mem_nodesList_data hy))
      rw [levelsFrom_cons, levelsFrom_cons, i3, ← i1]
      congr 1
      apply ih _ _ _ (by have := sizeList_next_lt f s x xs; omega) i2
      intro a ha
      exact hPc a (mem_nodesList_of_sublist (filterS_sublist _ _ _) ha)

theorem considered_sim (forest : List (Tree α)) (s : σ) (t : τ) (hR : R s t) (hP : ∀ a ∈ nodesList forest, P a) :
    considered f s forest = considered g t forest := by
  obtain ⟨i1, i2, i3⟩ := filterS_sim f g R P hstep forest s t hR (fun y hy => hP _ (mem_nodesList_data hy))
  show (verdicts f s forest :: levelsFrom f (filterS f s forest).1 (filterS f s forest).2).flatten =
    (verdicts g t forest :: levelsFrom g (filterS g t forest).1 (filterS g t forest).2).flatten
  rw [i3, ← i1]
  congr 2
  apply levelsFrom_sim f g R P hstep _ _ _ _ (Nat.le_refl _) i2
  intro a ha
  exact hP a (mem_nodesList_of_sublist (filterS_sublist _ _ _) ha)

end sim

/-! ## `set.remove` = first seen -/

section ids
variable {ι : Type} [DecidableEq ι] (idOf : α → ι)

theorem removeFirst_firstSeen (forest : List (Tree α)) :
    considered (removeFirst idOf) ((forest.flatMap (fun t => bfs [t])).map idOf) forest =
      considered (firstSeen idOf) [] forest := by
  let all : List ι := (forest.flatMap (fun t => bfs [t])).map idOf
  apply considered_sim (removeFirst idOf) (firstSeen idOf)
    (fun rem seen => ∀ i ∈ all, rem.contains i = !seen.contains i) (fun a => idOf a ∈ all)
  · intro rem seen a hR hP
    refine ⟨hR _ hP, ?_⟩
    intro i hi
    have := hR i hi
    simp only [removeFirst, firstSeen, List.contains_cons]
    by_cases e : i = idOf a
    · subst e; simp
    · have e' : (i == idOf a) = false := by simpa using e
      rw [e', Bool.false_or, ← this]
      simp [List.contains_eq_mem, List.mem_filter, e]
  · intro i hi
    have hi' : i ∈ List.map idOf (List.flatMap (fun t => bfs [t]) forest) := hi
    simp [hi']
  · intro a ha
    exact List.mem_map_of_mem (mem_allNodes ha)

/-- one pass of "first seen": a node is kept iff its id was not seen before the pass and no earlier node of the pass
has it -/
theorem firstSeen_state_contains (seen : List ι) (pre : List α) (i : ι) :
    (stateAfter (firstSeen idOf) seen pre).contains i = (seen.contains i || (pre.map idOf).contains i) := by
  induction pre generalizing seen with
  | nil => simp [stateAfter]
  | cons a as ih =>
    simp only [stateAfter, firstSeen, ih, List.map_cons, List.contains_cons]
    cases (i == idOf a) <;> cases seen.contains i <;> simp

theorem firstSeen_pass (seen : List ι) (pre : List α) (x : α) (post : List α) :
    ∃ tail, verdictsL (firstSeen idOf) seen (pre ++ x :: post) =
      verdictsL (firstSeen idOf) seen pre ++
        (x, !seen.contains (idOf x) && !(pre.map idOf).contains (idOf x)) :: tail := by
  refine ⟨verdictsL (firstSeen idOf) (stateAfter (firstSeen idOf) seen (pre ++ [x])) post, ?_⟩
  rw [verdictsL_append]
  simp only [verdictsL, stateAfter_append, stateAfter]
  congr 2
  simp only [firstSeen, firstSeen_state_contains, Bool.not_or]

theorem verdictsL_length (f : σ → α → Bool × σ) (s : σ) (l : List α) : (verdictsL f s l).length = l.length := by
  induction l generalizing s with
  | nil => rfl
  | cons a as ih => simp [verdictsL, ih]

/-- in a pass that starts with nothing seen, an entry is kept iff no earlier entry has the same id -/
theorem firstSeen_first (l : List α) (pre : List (α × Bool)) (x : α × Bool) (post : List (α × Bool))
    (h : verdictsL (firstSeen idOf) [] l = pre ++ x :: post) :
    x.2 = true ↔ ∀ y ∈ pre, idOf y.1 ≠ idOf x.1 := by
  have hl : l = pre.map Prod.fst ++ x.1 :: post.map Prod.fst := by
    have := congrArg (List.map Prod.fst) h
    rwa [verdictsL_map_fst, List.map_append, List.map_cons] at this
  obtain ⟨tail, ht⟩ := firstSeen_pass idOf [] (pre.map Prod.fst) x.1 (post.map Prod.fst)
  rw [← hl, h] at ht
  have hlen : pre.length = (verdictsL (firstSeen idOf) [] (pre.map Prod.fst)).length := by
    rw [verdictsL_length, List.length_map]
  have := List.append_inj ht hlen
  obtain ⟨_, h2⟩ := this
  injection h2 with h2 _
  have hx : x.2 = !((pre.map Prod.fst).map idOf).contains (idOf x.1) := by
    have := congrArg Prod.snd h2
    simpa using this
  rw [hx]
  simp only [Bool.not_eq_eq_eq_not, Bool.not_true, List.contains_eq_mem, decide_eq_false_iff_not, List.mem_map,
    not_exists, not_and]
  constructor
  · intro hh y hy e
    exact hh (y.1) ⟨y, hy, rfl⟩ e
  · rintro hh a ⟨y, hy, rfl⟩ e
    exact hh y hy e

end ids

end Maven
