import FeatherModel.Model.Visit

/-!
# C17 lemmas — where the cursor ends

Under exact framing every loop of the reader ends at `start + declared size`, whatever the visitor masks or declines.
-/

namespace Visit

theorem bind_ok {α β : Type} {x : R α} {f : α → R β} {b : β} :
    (x >>= f) = .ok b ↔ ∃ a, x = .ok a ∧ f a = .ok b := by
  cases x with
  | error e => simp [bind, Except.bind]
  | ok a => simp [bind, Except.bind]

theorem need_ok {avail pos n p : Nat} (h : need avail pos n = .ok p) : p = pos + n ∧ pos + n ≤ avail := by
  unfold need at h
  split at h
  · simp at h; omega
  · simp at h

theorem need_of_le {avail pos n : Nat} (h : pos + n ≤ avail) : need avail pos n = .ok (pos + n) := by
  simp [need, h]

theorem exactly_ok {u l : Nat} (h : exactly u l = .ok ()) : u = l := by
  unfold exactly at h
  split at h
  · assumption
  · simp at h

theorem exactly_self (u : Nat) : exactly u u = .ok () := by simp [exactly]

theorem named_ok {b : Bool} {u : Unit} (h : named b = .ok u) : b = true := by
  cases b <;> simp [named] at h ⊢

theorem named_true : named true = .ok () := rfl

def lensSize (lens : List Nat) : Nat := (lens.map (· + 6)).sum

@[simp] theorem lensSize_nil : lensSize [] = 0 := rfl
@[simp] theorem lensSize_cons (l : Nat) (ls : List Nat) : lensSize (l :: ls) = l + 6 + lensSize ls := by
  simp [lensSize]

theorem attrsSize_eq (lens : List Nat) : attrsSize lens = 2 + lensSize lens := rfl

/-! ## skipping -/

theorem skipAttrsGo_pos {avail : Nat} : ∀ (lens : List Nat) (p p' : Nat),
    skipAttrsGo avail lens p = .ok p' → p' = p + lensSize lens := by
  intro lens
  induction lens with
  | nil => intro p p' h; simp [skipAttrsGo] at h; simp [h]
  | cons l ls ih =>
    intro p p' h
    simp only [skipAttrsGo] at h
    obtain ⟨q, hq, h⟩ := bind_ok.mp h
    have := need_ok hq
    have := ih _ _ h
    simp; omega

theorem skipAttrs_pos {avail : Nat} {lens : List Nat} {p p' : Nat}
    (h : skipAttrs avail lens p = .ok p') : p' = p + attrsSize lens := by
  simp only [skipAttrs] at h
  obtain ⟨q, hq, h⟩ := bind_ok.mp h
  have := need_ok hq
  have := skipAttrsGo_pos _ _ _ h
  rw [attrsSize_eq]; omega

/-! ## leaf attributes -/

theorem leaf1_pos {avail : Nat} {act : K → Act} {m : Mask} {mk : Bool → K → Pay → Ev} {a : Attr} {pos : Nat}
    {s : Step} (hx : leafExact act a = true) (h : leaf1 avail act m mk a pos = .ok s) : s.pos = pos + a.len := by
  unfold leaf1 at h
  unfold leafExact at hx
  split at h
  all_goals (rename_i hact; simp only [hact] at hx)
  · obtain ⟨_, _, h⟩ := bind_ok.mp h
    simp [pure, Except.pure] at h; subst h; simp at hx; simp [hx]
  · obtain ⟨_, _, h⟩ := bind_ok.mp h
    simp [pure, Except.pure] at h; subst h; simp at hx; simp [hx]
  · split at h
    · obtain ⟨p, hp, h⟩ := bind_ok.mp h
      obtain ⟨_, _, h⟩ := bind_ok.mp h
      simp [pure, Except.pure] at h; subst h
      have := need_ok hp; simp at hx; simp; omega
    · simp [pure, Except.pure] at h; subst h; rfl
  · obtain ⟨p, hp, h⟩ := bind_ok.mp h
    obtain ⟨_, _, h⟩ := bind_ok.mp h
    simp [pure, Except.pure] at h; subst h
    have := need_ok hp; simp at hx; simp; omega
  · simp [pure, Except.pure] at h; subst h; rfl
  · split at h
    · obtain ⟨p, hp, h⟩ := bind_ok.mp h
      simp [pure, Except.pure] at h; subst h
      have := need_ok hp; simp; omega
    · simp [pure, Except.pure] at h; subst h; rfl

theorem readLeafs_pos {avail : Nat} {act : K → Act} {m : Mask} {mk : Bool → K → Pay → Ev} :
    ∀ (as : List Attr) (p : Nat) (r : Nat × List Ev × Bool × Bool),
      as.all (leafExact act) = true → readLeafs avail act m mk as p = .ok r →
      r.1 = p + lensSize (attrLens as) := by
  intro as
  induction as with
  | nil => intro p r _ h; simp [readLeafs] at h; subst h; simp [attrLens]
  | cons a as ih =>
    intro p r hx h
    simp only [List.all_cons, Bool.and_eq_true] at hx
    simp only [readLeafs] at h
    obtain ⟨q, hq, h⟩ := bind_ok.mp h
    obtain ⟨s, hs, h⟩ := bind_ok.mp h
    obtain ⟨r', hr', h⟩ := bind_ok.mp h
    obtain ⟨p', evs, d, sy⟩ := r'
    simp [pure, Except.pure] at h; subst h
    have h1 := need_ok hq
    have h2 := leaf1_pos hx.1 hs
    have h3 := ih _ _ hx.2 hr'
    simp [attrLens] at h3 ⊢; omega

/-! ## record components -/

theorem readRecComp_pos {avail : Nat} {cfg : Cfg} {r : Nat} {rc : RecComp} {p : Nat} {res : Nat × List Ev}
    (hx : rc.attrs.all (leafExact recAct) = true) (h : readRecComp avail cfg r rc p = .ok res) :
    res.1 = p + rc.size := by
  simp only [readRecComp] at h
  obtain ⟨q, hq, h⟩ := bind_ok.mp h
  have h1 := need_ok hq
  split at h
  · obtain ⟨q2, hq2, h⟩ := bind_ok.mp h
    simp [pure, Except.pure] at h; subst h
    have := skipAttrs_pos hq2
    simp [RecComp.size]; omega
  · obtain ⟨q2, hq2, h⟩ := bind_ok.mp h
    obtain ⟨r', hr', h⟩ := bind_ok.mp h
    obtain ⟨p', evs, d, sy⟩ := r'
    simp [pure, Except.pure] at h; subst h
    have h2 := need_ok hq2
    have h3 := readLeafs_pos _ _ _ hx hr'
    simp [RecComp.size, attrsSize_eq] at h3 ⊢; omega

def compsSize (comps : List RecComp) : Nat := (comps.map RecComp.size).sum

theorem readRecComps_pos {avail : Nat} {cfg : Cfg} : ∀ (comps : List RecComp) (r p : Nat) (res : Nat × List Ev),
    comps.all (fun rc => rc.attrs.all (leafExact recAct)) = true →
    readRecComps avail cfg r comps p = .ok res → res.1 = p + compsSize comps := by
  intro comps
  induction comps with
  | nil => intro r p res _ h; simp [readRecComps] at h; subst h; simp [compsSize]
  | cons rc rcs ih =>
    intro r p res hx h
    simp only [List.all_cons, Bool.and_eq_true] at hx
    simp only [readRecComps] at h
    obtain ⟨r1, h1, h⟩ := bind_ok.mp h
    obtain ⟨p1, e1⟩ := r1
    obtain ⟨r2, h2, h⟩ := bind_ok.mp h
    obtain ⟨p2, e2⟩ := r2
    simp [pure, Except.pure] at h; subst h
    have a1 := readRecComp_pos hx.1 h1
    have a2 := ih _ _ _ hx.2 h2
    simp [compsSize] at a1 a2 ⊢; omega

/-! ## class attributes -/

theorem readClassAttrs_pos {avail : Nat} {cfg : Cfg} {m : Mask} :
    ∀ (as : List CAttr) (st : CSt) (p : Nat) (res : Nat × List Ev × Bool × Bool),
      as.all cattrExact = true → readClassAttrs avail cfg m st as p = .ok res →
      res.1 = p + lensSize (cattrLens as) := by
  intro as
  induction as with
  | nil => intro st p res _ h; simp [readClassAttrs] at h; subst h; simp [cattrLens]
  | cons a as ih =>
    intro st p res hx h
    simp only [List.all_cons, Bool.and_eq_true] at hx
    cases a with
    | leaf a =>
      simp only [readClassAttrs] at h
      obtain ⟨q, hq, h⟩ := bind_ok.mp h
      split at h
      · simp at h
      · obtain ⟨s, hs, h⟩ := bind_ok.mp h
        obtain ⟨r', hr', h⟩ := bind_ok.mp h
        obtain ⟨p', evs, d, sy⟩ := r'
        simp [pure, Except.pure] at h; subst h
        have h1 := need_ok hq
        have h2 := leaf1_pos (by simpa [cattrExact] using hx.1) hs
        have h3 := ih _ _ _ hx.2 hr'
        simp [cattrLens, cattrLen] at h3 ⊢; omega
    | record len comps =>
      simp only [readClassAttrs] at h
      obtain ⟨q, hq, h⟩ := bind_ok.mp h
      have h1 := need_ok hq
      split at h
      · split at h
        · simp at h
        · obtain ⟨q2, hq2, h⟩ := bind_ok.mp h
          obtain ⟨r1, hr1, h⟩ := bind_ok.mp h
          obtain ⟨q3, e1⟩ := r1
          obtain ⟨_, hex, h⟩ := bind_ok.mp h
          obtain ⟨r', hr', h⟩ := bind_ok.mp h
          obtain ⟨p', evs, d, sy⟩ := r'
          simp [pure, Except.pure] at h; subst h
          have h3 := ih _ _ _ hx.2 hr'
          have h4 := exactly_ok hex
          have h5 := need_ok hq2
          have hx1 := hx.1
          simp only [cattrExact, Bool.and_eq_true, beq_iff_eq] at hx1
          have h6 := readRecComps_pos _ _ _ _ hx1.2 hr1
          simp [cattrLens, cattrLen, recSize, compsSize] at h3 h6 hx1 ⊢; omega
      · obtain ⟨r', hr', h⟩ := bind_ok.mp h
        obtain ⟨p', evs, d, sy⟩ := r'
        simp [pure, Except.pure] at h; subst h
        have h3 := ih _ _ _ hx.2 hr'
        simp [cattrLens, cattrLen] at h3 ⊢; omega

/-! ## fields -/

theorem readField_pos {avail : Nat} {cfg : Cfg} {i : Nat} {f : Field} {p : Nat} {res : Nat × List Ev}
    (hx : f.attrs.all (leafExact fieldAct) = true) (h : readField avail cfg i f p = .ok res) :
    res.1 = p + f.size := by
  simp only [readField] at h
  obtain ⟨q, hq, h⟩ := bind_ok.mp h
  obtain ⟨_, _, h⟩ := bind_ok.mp h
  have h1 := need_ok hq
  split at h
  · obtain ⟨q2, hq2, h⟩ := bind_ok.mp h
    simp [pure, Except.pure] at h; subst h
    have := skipAttrs_pos hq2
    simp [Field.size]; omega
  · obtain ⟨q2, hq2, h⟩ := bind_ok.mp h
    obtain ⟨r', hr', h⟩ := bind_ok.mp h
    obtain ⟨p', evs, d, sy⟩ := r'
    simp [pure, Except.pure] at h; subst h
    have h2 := need_ok hq2
    have h3 := readLeafs_pos _ _ _ hx hr'
    simp [Field.size, attrsSize_eq] at h3 ⊢; omega

def fieldsSize (fs : List Field) : Nat := (fs.map Field.size).sum
def methodsSize (ms : List Method) : Nat := (ms.map Method.size).sum

theorem readFields_pos {avail : Nat} {cfg : Cfg} : ∀ (fs : List Field) (i p : Nat) (res : Nat × List Ev),
    fs.all (fun f => f.attrs.all (leafExact fieldAct)) = true →
    readFields avail cfg i fs p = .ok res → res.1 = p + fieldsSize fs := by
  intro fs
  induction fs with
  | nil => intro i p res _ h; simp [readFields] at h; subst h; simp [fieldsSize]
  | cons f fs ih =>
    intro i p res hx h
    simp only [List.all_cons, Bool.and_eq_true] at hx
    simp only [readFields] at h
    obtain ⟨r1, h1, h⟩ := bind_ok.mp h
    obtain ⟨p1, e1⟩ := r1
    obtain ⟨r2, h2, h⟩ := bind_ok.mp h
    obtain ⟨p2, e2⟩ := r2
    simp [pure, Except.pure] at h; subst h
    have a1 := readField_pos hx.1 h1
    have a2 := ih _ _ _ hx.2 h2
    simp [fieldsSize] at a1 a2 ⊢; omega

/-! ## code -/

theorem readCodeAttrs_pos {avail i : Nat} {m : Mask} :
    ∀ (as : List Attr) (acc : KAcc) (p : Nat) (res : Nat × KAcc),
      as.all codeAttrExact = true → readCodeAttrs avail i m acc as p = .ok res →
      res.1 = p + lensSize (attrLens as) := by
  intro as
  induction as with
  | nil => intro acc p res _ h; simp [readCodeAttrs] at h; subst h; simp [attrLens]
  | cons a as ih =>
    intro acc p res hx h
    simp only [List.all_cons, Bool.and_eq_true] at hx
    have hx1 := hx.1
    simp only [codeAttrExact, beq_iff_eq] at hx1
    simp only [readCodeAttrs] at h
    obtain ⟨q, hq, h⟩ := bind_ok.mp h
    have h1 := need_ok hq
    split at h
    · obtain ⟨q2, hq2, h⟩ := bind_ok.mp h
      obtain ⟨_, _, h⟩ := bind_ok.mp h
      obtain ⟨acc', _, h⟩ := bind_ok.mp h
      have h2 := need_ok hq2
      have := ih _ _ _ hx.2 h
      simp [attrLens] at this ⊢; omega
    · have := ih _ _ _ hx.2 h
      simp [attrLens] at this ⊢; omega

theorem readCode_pos {avail i : Nat} {mc : MethodCfg} {c : Code} {p : Nat} {res : Nat × List Ev}
    (hx : c.exact = true) (h : readCode avail i mc c p = .ok res) : res.1 = p + c.len := by
  simp only [Code.exact, Bool.and_eq_true, beq_iff_eq] at hx
  unfold readCode at h
  split at h
  · split at h
    · simp at h; subst h; rfl
    · obtain ⟨q1, hq1, h⟩ := bind_ok.mp h
      obtain ⟨q2, hq2, h⟩ := bind_ok.mp h
      obtain ⟨r', hr', h⟩ := bind_ok.mp h
      obtain ⟨q, acc⟩ := r'
      obtain ⟨_, hex, h⟩ := bind_ok.mp h
      simp [pure, Except.pure] at h; subst h
      have h1 := need_ok hq1
      have h2 := need_ok hq2
      have h3 := readCodeAttrs_pos _ _ _ _ hx.2 hr'
      have h4 := exactly_ok hex
      simp at h3 ⊢; omega
  · simp at h; subst h; rfl

/-! ## methods -/

theorem readMethodAttrs_pos {avail i : Nat} {mc : MethodCfg} :
    ∀ (as : List MAttr) (p : Nat) (res : Nat × List Ev × Bool × Bool),
      as.all mattrExact = true → readMethodAttrs avail i mc as p = .ok res →
      res.1 = p + lensSize (mattrLens as) := by
  intro as
  induction as with
  | nil => intro p res _ h; simp [readMethodAttrs] at h; subst h; simp [mattrLens]
  | cons a as ih =>
    intro p res hx h
    simp only [List.all_cons, Bool.and_eq_true] at hx
    cases a with
    | leaf a =>
      simp only [readMethodAttrs] at h
      obtain ⟨q, hq, h⟩ := bind_ok.mp h
      obtain ⟨s, hs, h⟩ := bind_ok.mp h
      obtain ⟨r', hr', h⟩ := bind_ok.mp h
      obtain ⟨p', evs, d, sy⟩ := r'
      simp [pure, Except.pure] at h; subst h
      have h1 := need_ok hq
      have h2 := leaf1_pos (by simpa [mattrExact] using hx.1) hs
      have h3 := ih _ _ hx.2 hr'
      simp [mattrLens, mattrLen] at h3 ⊢; omega
    | code c =>
      simp only [readMethodAttrs] at h
      obtain ⟨q, hq, h⟩ := bind_ok.mp h
      obtain ⟨r1, hr1, h⟩ := bind_ok.mp h
      obtain ⟨q1, e1⟩ := r1
      obtain ⟨r', hr', h⟩ := bind_ok.mp h
      obtain ⟨p', evs, d, sy⟩ := r'
      simp [pure, Except.pure] at h; subst h
      have h1 := need_ok hq
      have h2 := readCode_pos (by simpa [mattrExact] using hx.1) hr1
      have h3 := ih _ _ hx.2 hr'
      simp [mattrLens, mattrLen] at h2 h3 ⊢; omega

theorem readMethod_pos {avail : Nat} {cfg : Cfg} {i : Nat} {mt : Method} {p : Nat} {res : Nat × List Ev}
    (hx : mt.attrs.all mattrExact = true) (h : readMethod avail cfg i mt p = .ok res) :
    res.1 = p + mt.size := by
  simp only [readMethod] at h
  obtain ⟨q, hq, h⟩ := bind_ok.mp h
  obtain ⟨_, _, h⟩ := bind_ok.mp h
  have h1 := need_ok hq
  split at h
  · obtain ⟨q2, hq2, h⟩ := bind_ok.mp h
    simp [pure, Except.pure] at h; subst h
    have := skipAttrs_pos hq2
    simp [Method.size]; omega
  · obtain ⟨q2, hq2, h⟩ := bind_ok.mp h
    obtain ⟨r', hr', h⟩ := bind_ok.mp h
    obtain ⟨p', evs, d, sy⟩ := r'
    simp [pure, Except.pure] at h; subst h
    have h2 := need_ok hq2
    have h3 := readMethodAttrs_pos _ _ _ hx hr'
    simp [Method.size, attrsSize_eq] at h3 ⊢; omega

theorem readMethods_pos {avail : Nat} {cfg : Cfg} : ∀ (ms : List Method) (i p : Nat) (res : Nat × List Ev),
    ms.all (fun m => m.attrs.all mattrExact) = true →
    readMethods avail cfg i ms p = .ok res → res.1 = p + methodsSize ms := by
  intro ms
  induction ms with
  | nil => intro i p res _ h; simp [readMethods] at h; subst h; simp [methodsSize]
  | cons f fs ih =>
    intro i p res hx h
    simp only [List.all_cons, Bool.and_eq_true] at hx
    simp only [readMethods] at h
    obtain ⟨r1, h1, h⟩ := bind_ok.mp h
    obtain ⟨p1, e1⟩ := r1
    obtain ⟨r2, h2, h⟩ := bind_ok.mp h
    obtain ⟨p2, e2⟩ := r2
    simp [pure, Except.pure] at h; subst h
    have a1 := readMethod_pos hx.1 h1
    have a2 := ih _ _ _ hx.2 h2
    simp [methodsSize] at a1 a2 ⊢; omega

/-! ## the member-skipping loops and the whole class -/

theorem skipMembers_pos {avail : Nat} : ∀ (ls : List (List Nat)) (p p' : Nat),
    skipMembers avail ls p = .ok p' → p' = p + (ls.map (fun l => 6 + attrsSize l)).sum := by
  intro ls
  induction ls with
  | nil => intro p p' h; simp [skipMembers] at h; simp [h]
  | cons l ls ih =>
    intro p p' h
    simp only [skipMembers] at h
    obtain ⟨q, hq, h⟩ := bind_ok.mp h
    have := skipAttrs_pos hq
    have := ih _ _ h
    simp; omega

theorem fields_sum (fs : List Field) :
    ((fs.map (fun f => attrLens f.attrs)).map (fun l => 6 + attrsSize l)).sum = fieldsSize fs := by
  induction fs with
  | nil => rfl
  | cons f fs ih => simp [fieldsSize, Field.size] at ih ⊢; omega

theorem methods_sum (ms : List Method) :
    ((ms.map (fun f => mattrLens f.attrs)).map (fun l => 6 + attrsSize l)).sum = methodsSize ms := by
  induction ms with
  | nil => rfl
  | cons f fs ih => simp [methodsSize, Method.size] at ih ⊢; omega

/-- the cursor ends exactly at the end of the class file, whatever the configuration — also when the fields are skipped
or the methods are not read inside `with_pos` (the position handed back is the one remembered after the class attributes) -/
theorem readWith_pos {cfg : Cfg} {c : ClassFrame} {avail : Nat} {res : Nat × List Ev}
    (hx : c.attrs.all cattrExact = true) (h : readWith cfg c avail = .ok res) : res.1 = c.size := by
  simp only [readWith] at h
  obtain ⟨fs, hfs, h⟩ := bind_ok.mp h
  split at h
  · simp at h
  · obtain ⟨p1, hp1, h⟩ := bind_ok.mp h
    obtain ⟨p2, hp2, h⟩ := bind_ok.mp h
    obtain ⟨p3, hp3, h⟩ := bind_ok.mp h
    obtain ⟨p4, hp4, h⟩ := bind_ok.mp h
    have a0 := need_ok hfs
    have a1 := need_ok hp1
    have a2 := skipMembers_pos _ _ _ hp2
    have a3 := need_ok hp3
    have a4 := skipMembers_pos _ _ _ hp4
    rw [fields_sum] at a2
    rw [methods_sum] at a4
    split at h
    · obtain ⟨p5, hp5, h⟩ := bind_ok.mp h
      simp [pure, Except.pure] at h; subst h
      have a5 := skipAttrs_pos hp5
      simp [ClassFrame.size, fieldsSize, methodsSize] at a2 a4 ⊢; omega
    · obtain ⟨p5, hp5, h⟩ := bind_ok.mp h
      obtain ⟨r', hr', h⟩ := bind_ok.mp h
      obtain ⟨p6, evs, d, sy⟩ := r'
      obtain ⟨q1, _, h⟩ := bind_ok.mp h
      obtain ⟨r2, _, h⟩ := bind_ok.mp h
      obtain ⟨q2, fevs⟩ := r2
      obtain ⟨mevs, _, h⟩ := bind_ok.mp h
      simp [pure, Except.pure] at h; subst h
      have a5 := need_ok hp5
      have a6 := readClassAttrs_pos _ _ _ _ hx hr'
      simp [ClassFrame.size, fieldsSize, methodsSize, attrsSize_eq] at a2 a4 a6 ⊢; omega

end Visit
