import FeatherModel.Spec.ClassEncode
import FeatherModel.Lemmas.ClassReadBytes
import FeatherModel.Lemmas.Mutf8RoundTrip

/-! C01 lemmas: `PoolRead::read` on the JVMS serialisation of any list of constant-pool entries. -/

namespace ClassRead
open Outcome Spec

theorem readPoolEntry_enc (e : PoolEntry) (he : PoolEntryOk e) (r : Bytes) :
    readPoolEntry (encPoolEntry e ++ r) = ok ((e, poolSlots e), r) := by
  cases e with
  | utf8 s =>
    obtain ⟨h1, h2⟩ := he
    simp only [encPoolEntry, readPoolEntry, List.cons_append, List.append_assoc, u8, ok_bind, u16_be16 _ h2,
      takeN_append, Mutf8.decode_encode s h1, ofOption_some, pure_eq, poolSlots]
  | int v => simp [encPoolEntry, readPoolEntry, u8, i32_be v he, poolSlots]
  | float b => simp [encPoolEntry, readPoolEntry, u8, u32_be32 b he, poolSlots]
  | long v => simp [encPoolEntry, readPoolEntry, u8, i64_be v he, poolSlots]
  | double b => simp [encPoolEntry, readPoolEntry, u8, u64_be64 b he, poolSlots]
  | cls i => simp [encPoolEntry, readPoolEntry, u8, u16_be16 i he, poolSlots]
  | str i => simp [encPoolEntry, readPoolEntry, u8, u16_be16 i he, poolSlots]
  | fieldRef c n => simp [encPoolEntry, readPoolEntry, u8, u16_be16 c he.1, u16_be16 n he.2, poolSlots]
  | methodRef c n => simp [encPoolEntry, readPoolEntry, u8, u16_be16 c he.1, u16_be16 n he.2, poolSlots]
  | ifaceMethodRef c n => simp [encPoolEntry, readPoolEntry, u8, u16_be16 c he.1, u16_be16 n he.2, poolSlots]
  | nameAndType c n => simp [encPoolEntry, readPoolEntry, u8, u16_be16 c he.1, u16_be16 n he.2, poolSlots]
  | methodHandle k i => simp [encPoolEntry, readPoolEntry, u8, u16_be16 i he.2, poolSlots]
  | methodType i => simp [encPoolEntry, readPoolEntry, u8, u16_be16 i he, poolSlots]
  | dynamic c n => simp [encPoolEntry, readPoolEntry, u8, u16_be16 c he.1, u16_be16 n he.2, poolSlots]
  | invokeDynamic c n => simp [encPoolEntry, readPoolEntry, u8, u16_be16 c he.1, u16_be16 n he.2, poolSlots]
  | module i => simp [encPoolEntry, readPoolEntry, u8, u16_be16 i he, poolSlots]
  | package i => simp [encPoolEntry, readPoolEntry, u8, u16_be16 i he, poolSlots]

theorem poolSlots_pos (e : PoolEntry) : 1 ≤ poolSlots e := by cases e <;> simp [poolSlots]
theorem poolSlots_le (e : PoolEntry) : poolSlots e = 1 ∨ poolSlots e = 2 := by cases e <;> simp [poolSlots]

theorem readPoolLoop_enc (es : List PoolEntry) (hes : ∀ e ∈ es, PoolEntryOk e) (fuel count : Nat) (racc : List (Option PoolEntry))
    (len : Nat) (hcount : count = len + (es.map poolSlots).sum) (hfuel : es.length ≤ fuel) (r : Bytes) :
    readPoolLoop fuel count racc len (es.flatMap encPoolEntry ++ r) = ok (racc.reverse ++ poolSlotsOf es, r) := by
  induction es generalizing fuel racc len with
  | nil =>
    simp only [List.map_nil, List.sum_nil, Nat.add_zero] at hcount
    cases fuel <;> simp [readPoolLoop, poolSlotsOf, hcount]
  | cons e es ih =>
    cases fuel with
    | zero => simp at hfuel
    | succ fuel =>
      simp only [List.map_cons, List.sum_cons] at hcount
      have hp := poolSlots_pos e
      have hlt : len < count := by omega
      simp only [readPoolLoop, hlt, if_true, List.flatMap_cons, List.append_assoc,
        readPoolEntry_enc e (hes e (by simp)), ok_bind]
      rcases poolSlots_le e with h1 | h2
      · have hne : ¬ poolSlots e = 2 := by omega
        simp only [hne, if_false]
        rw [ih (fun x hx => hes x (by simp [hx])) fuel (some e :: racc) (len + 1) (by omega) (by simp at hfuel; omega)]
        simp [poolSlotsOf, List.flatMap_cons, hne]
      · simp only [h2, if_true]
        rw [ih (fun x hx => hes x (by simp [hx])) fuel (none :: some e :: racc) (len + 2) (by omega) (by simp at hfuel; omega)]
        simp [poolSlotsOf, List.flatMap_cons, h2]

theorem sum_slots_ge (es : List PoolEntry) : es.length ≤ (es.map poolSlots).sum := by
  induction es with
  | nil => simp
  | cons e es ih => have := poolSlots_pos e; simp [List.sum_cons]; omega

/-- the reader builds exactly the table the entries denote, whatever their order, duplicates or unused entries -/
theorem readPool_enc (es : List PoolEntry) (hes : ∀ e ∈ es, PoolEntryOk e) (hcount : poolCount es < 65536) (r : Bytes) :
    readPool (encPool es ++ r) = ok (poolTable es, r) := by
  have hge := sum_slots_ge es
  simp only [readPool, encPool, List.append_assoc, u16_be16 _ hcount, ok_bind]
  rw [readPoolLoop_enc es hes (poolCount es) (poolCount es) [none] 1 (by simp [poolCount]) (by simp [poolCount]; omega)]
  simp [poolTable]

end ClassRead
