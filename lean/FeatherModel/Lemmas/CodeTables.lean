import FeatherModel.Model.CodeWrite

/-!
# Tables written from the label table (exception table, LineNumberTable, LocalVariable(Type)Table)
-/

namespace CodeWrite

theorem excRows_spec (lp : Nat → Option Nat) (es : List Exc) :
    ∀ rows, excRows lp es = some rows →
      rows.length = es.length ∧
      ∀ (j : Nat) (e : Exc), es[j]? = some e → ∃ a b c, lp e.start = some a ∧ lp e.stop = some b ∧ lp e.handler = some c ∧
        rows[j]? = some [a, b, c, e.catchIdx] := by
  induction es with
  | nil => intro rows h; simp only [excRows, Option.some.injEq] at h; subst h; exact ⟨rfl, by intro j e h; simp at h⟩
  | cons e es ih =>
    intro rows h
    simp only [excRows] at h
    split at h
    · rename_i a b c rest ha hb hc hr
      cases h
      obtain ⟨hl, hj⟩ := ih rest hr
      refine ⟨by simp [hl], ?_⟩
      intro j e' hje
      cases j with
      | zero => simp only [List.getElem?_cons_zero, Option.some.injEq] at hje; subst hje; exact ⟨a, b, c, ha, hb, hc, rfl⟩
      | succ j => simp only [List.getElem?_cons_succ] at hje ⊢; exact hj j e' hje
    · cases h

theorem lineRows_spec (lp : Nat → Option Nat) (ls : List (Nat × Nat)) :
    ∀ rows, lineRows lp ls = some rows →
      rows.length = ls.length ∧
      ∀ (j : Nat) (e : Nat × Nat), ls[j]? = some e → ∃ a, lp e.1 = some a ∧ rows[j]? = some [a, e.2] := by
  induction ls with
  | nil => intro rows h; simp only [lineRows, Option.some.injEq] at h; subst h; exact ⟨rfl, by intro j e h; simp at h⟩
  | cons e es ih =>
    intro rows h
    simp only [lineRows] at h
    split at h
    · rename_i a rest ha hr
      cases h
      obtain ⟨hl, hj⟩ := ih rest hr
      refine ⟨by simp [hl], ?_⟩
      intro j e' hje
      cases j with
      | zero => simp only [List.getElem?_cons_zero, Option.some.injEq] at hje; subst hje; exact ⟨a, ha, rfl⟩
      | succ j => simp only [List.getElem?_cons_succ] at hje ⊢; exact hj j e' hje
    · cases h

/-- a local-variable row is `(start_pc, length, …)` with `start_pc + length` = the position of the end label -/
theorem lvRows_spec (lp : Nat → Option Nat) (vs : List Lv) :
    ∀ rows, lvRows lp vs = .ok rows →
      rows.length = vs.length ∧
      ∀ (j : Nat) (v : Lv), vs[j]? = some v → ∃ s e, lp v.start = some s ∧ lp v.stop = some e ∧ s ≤ e ∧
        rows[j]? = some [s, e - s, v.nameIdx, v.descIdx, v.index] := by
  induction vs with
  | nil => intro rows h; simp only [lvRows, Except.ok.injEq] at h; subst h; exact ⟨rfl, by intro j e h; simp at h⟩
  | cons v vs ih =>
    intro rows h
    simp only [lvRows] at h
    split at h
    · cases h
    · rename_i r hr
      split at h
      · cases h
      · rename_i rest hrest
        cases h
        obtain ⟨hl, hj⟩ := ih rest hrest
        refine ⟨by simp [hl], ?_⟩
        intro j v' hjv
        cases j with
        | zero =>
          simp only [List.getElem?_cons_zero, Option.some.injEq] at hjv
          subst hjv
          unfold range at hr
          split at hr
          · cases hr
          · rename_i s hs
            split at hr
            · cases hr
            · rename_i e he
              split at hr
              · cases hr
              · cases hr
                exact ⟨s, e, hs, he, by omega, rfl⟩
        | succ j => simp only [List.getElem?_cons_succ] at hjv ⊢; exact hj j v' hjv

/-- the table is refused with an error exactly because of a label without offset or a range that ends before it
starts (`Labels::try_get_range`, f538c01) … -/
theorem lvRows_err (lp : Nat → Option Nat) (vs : List Lv) :
    lvRows lp vs = .error .err →
      ∃ v ∈ vs, lp v.start = none ∨ lp v.stop = none ∨ ∃ s e, lp v.start = some s ∧ lp v.stop = some e ∧ e < s := by
  induction vs with
  | nil => intro h; simp [lvRows] at h
  | cons v vs ih =>
    intro h
    simp only [lvRows] at h
    split at h
    · rename_i e hr
      cases h
      unfold range at hr
      split at hr
      · exact ⟨v, List.mem_cons_self, Or.inl ‹_›⟩
      · rename_i s hs
        split at hr
        · exact ⟨v, List.mem_cons_self, Or.inr (Or.inl ‹_›)⟩
        · rename_i e he
          split at hr
          · exact ⟨v, List.mem_cons_self, Or.inr (Or.inr ⟨s, e, hs, he, ‹_›⟩)⟩
          · cases hr
    · split at h
      · rename_i e hrest
        cases h
        obtain ⟨v', hv', hp⟩ := ih hrest
        exact ⟨v', List.mem_cons_of_mem _ hv', hp⟩
      · cases h

/-- … and never panics (the `end - start` of `try_get_range` is checked since f538c01) -/
theorem lvRows_no_panic (lp : Nat → Option Nat) (vs : List Lv) : lvRows lp vs ≠ .error .panic := by
  induction vs with
  | nil => simp [lvRows]
  | cons v vs ih =>
    intro h
    simp only [lvRows] at h
    split at h
    · rename_i e hr
      cases h
      unfold range at hr
      split at hr
      · cases hr
      · split at hr
        · cases hr
        · split at hr <;> cases hr
    · split at h
      · rename_i e hrest
        cases h
        exact ih hrest
      · cases h

end CodeWrite
