import FeatherModel.Model.RemapSpec

/-!
# Lemmas for C07: the entry loop of `dukebox::remap::remap`
-/

namespace RemapTree

theorem stripDotClass_append (n : JStr) : stripDotClass (n ++ dotClass) = some n := by
  have h : dotClass.isSuffixOf (n ++ dotClass) = true := by
    rw [List.isSuffixOf_iff_suffix]; exact List.suffix_append n dotClass
  simp [stripDotClass, h]

theorem stripDotClass_some {name cn : JStr} (h : stripDotClass name = some cn) : name = cn ++ dotClass := by
  unfold stripDotClass at h
  split at h
  · rename_i hs
    rw [List.isSuffixOf_iff_suffix] at hs
    obtain ⟨t, ht⟩ := hs
    simp at h
    subst ht
    simp at h
    simp [h]
  · simp at h

theorem insert_fresh (k : JStr) (v : Entry) (m : Jar) (h : k ∉ m.map Prod.fst) :
    AList.insert k v m = m ++ [(k, v)] := by
  induction m with
  | nil => rfl
  | cons kv m ih =>
    obtain ⟨k', v'⟩ := kv
    simp only [List.map_cons, List.mem_cons, not_or] at h
    have hne : (k' == k) = false := by
      simp only [beq_eq_false_iff_ne, ne_eq]; exact fun e => h.1 e.symm
    simp [AList.insert, hne, ih h.2]

/-- the loop is the fold of `IndexMap::insert` over the entry-wise image -/
theorem remapJarLoop_fold (r : Remapper) (es : List (JStr × Entry)) (acc : Jar) :
    remapJarLoop r es acc =
      (omapM (remapEntry r) es).map (fun es' => es'.foldl (fun a ne => AList.insert ne.1 ne.2 a) acc) := by
  induction es generalizing acc with
  | nil => rfl
  | cons e es ih =>
    simp only [remapJarLoop, omapM]
    cases h : remapEntry r e with
    | none => rfl
    | some ne =>
      obtain ⟨n, e'⟩ := ne
      simp only [ih]
      cases omapM (remapEntry r) es <;> rfl

theorem foldl_insert_nodup (es : List (JStr × Entry)) (acc : Jar)
    (h : (acc.map Prod.fst ++ es.map Prod.fst).Nodup) :
    es.foldl (fun a ne => AList.insert ne.1 ne.2 a) acc = acc ++ es := by
  induction es generalizing acc with
  | nil => simp
  | cons e es ih =>
    obtain ⟨n, e'⟩ := e
    simp only [List.foldl_cons]
    have hn : n ∉ acc.map Prod.fst := by
      intro hm
      rw [List.nodup_append] at h
      exact h.2.2 n hm n (by simp) rfl
    rw [insert_fresh n e' acc hn, ih]
    · simp
    · simpa using h

end RemapTree
