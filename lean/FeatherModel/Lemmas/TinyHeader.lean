import FeatherModel.Lemmas.TinyLines

/-! The header's own section of a Tiny v2 file (C03): the property lines at indentation 1 directly after the header line
(`Tiny.headerSec`). What it consumes is a function of the text alone (`headerPart` / `bodyPart`), it reads back the
comment `write` puts there, ignores every other property line, refuses a second comment and deeper lines. -/

namespace Tiny

/-! ## `headerPart` / `bodyPart` -/

theorem headerPart_append_bodyPart (ls : List TLine) : headerPart ls ++ bodyPart ls = ls :=
  List.takeWhile_append_dropWhile

theorem bodyPart_nil : bodyPart [] = [] := rfl
theorem headerPart_nil : headerPart [] = [] := rfl

theorem bodyPart_cons_zero {l : TLine} (ls : List TLine) (h : l.indent = 0) : bodyPart (l :: ls) = l :: ls := by
  simp [bodyPart, h]

theorem headerPart_cons_zero {l : TLine} (ls : List TLine) (h : l.indent = 0) : headerPart (l :: ls) = [] := by
  simp [headerPart, h]

theorem bodyPart_cons_pos {l : TLine} (ls : List TLine) (h : l.indent ≠ 0) : bodyPart (l :: ls) = bodyPart ls := by
  simp [bodyPart, h]

theorem headerPart_cons_pos {l : TLine} (ls : List TLine) (h : l.indent ≠ 0) : headerPart (l :: ls) = l :: headerPart ls := by
  simp [headerPart, h]

/-- lines that are all indented belong to the header section -/
theorem bodyPart_append_of_pos : ∀ (pre : List TLine) (rest : List TLine), (∀ l ∈ pre, l.indent ≠ 0) →
    bodyPart (pre ++ rest) = bodyPart rest
  | [], _, _ => rfl
  | l :: pre, rest, h => by
    rw [List.cons_append, bodyPart_cons_pos _ (h l List.mem_cons_self)]
    exact bodyPart_append_of_pos pre rest (fun x hx => h x (List.mem_cons_of_mem _ hx))

theorem headerPart_append_of_pos : ∀ (pre : List TLine) (rest : List TLine), (∀ l ∈ pre, l.indent ≠ 0) →
    headerPart (pre ++ rest) = pre ++ headerPart rest
  | [], _, _ => rfl
  | l :: pre, rest, h => by
    rw [List.cons_append, headerPart_cons_pos _ (h l List.mem_cons_self), List.cons_append]
    congr 1
    exact headerPart_append_of_pos pre rest (fun x hx => h x (List.mem_cons_of_mem _ hx))

/-- the body is a suffix: whatever stands from a line at indentation 0 on is in the body -/
theorem bodyPart_split : ∀ (pre : List TLine) (l : TLine) (post : List TLine), l.indent = 0 →
    ∃ pre', bodyPart (pre ++ l :: post) = pre' ++ l :: post
  | [], l, post, h => ⟨[], by rw [List.nil_append, bodyPart_cons_zero _ h]⟩
  | x :: pre, l, post, h => by
    by_cases hx : x.indent = 0
    · exact ⟨x :: pre, by rw [List.cons_append, bodyPart_cons_zero _ hx]⟩
    · rw [List.cons_append, bodyPart_cons_pos _ hx]
      exact bodyPart_split pre l post h

theorem headerPart_indent_pos : ∀ (ls : List TLine), ∀ l ∈ headerPart ls, l.indent ≠ 0
  | [], l, hl => by simp [headerPart] at hl
  | x :: ls, l, hl => by
    by_cases hx : x.indent = 0
    · rw [headerPart_cons_zero _ hx] at hl; simp at hl
    · rw [headerPart_cons_pos _ hx] at hl
      rcases List.mem_cons.mp hl with rfl | hl
      · exact hx
      · exact headerPart_indent_pos ls l hl

theorem bodyPart_head (ls : List TLine) : ∀ l ∈ (bodyPart ls).head?, l.indent = 0 := by
  intro l hl
  have := List.head?_dropWhile_not (fun l : TLine => l.indent != 0) ls
  unfold bodyPart at hl
  cases hd : (List.dropWhile (fun l : TLine => l.indent != 0) ls).head? with
  | none => rw [hd] at hl; simp at hl
  | some x =>
    rw [hd] at hl this
    simp only [Option.mem_def, Option.some.injEq] at hl
    subst hl
    simpa using this

/-! ## `headerSec` -/

theorem headerSec_nil (doc : Option JStr) : headerSec doc [] = some (doc, []) := rfl

theorem headerSec_zero (doc : Option JStr) {l : TLine} (ls : List TLine) (h : l.indent = 0) :
    headerSec doc (l :: ls) = some (doc, l :: ls) := by
  simp only [headerSec, h]

theorem headerSec_deep (doc : Option JStr) {l : TLine} (ls : List TLine) (h : 2 ≤ l.indent) :
    headerSec doc (l :: ls) = none := by
  unfold headerSec
  split
  · omega
  · omega
  · rfl

theorem headerSec_other (doc : Option JStr) {l : TLine} (ls : List TLine) (h : l.indent = 1) (hf : l.first ≠ C_) :
    headerSec doc (l :: ls) = headerSec doc ls := by
  simp only [headerSec, h, hf, if_false]

theorem headerSec_comment (doc : Option JStr) {l : TLine} (ls : List TLine) (h : l.indent = 1) (hf : l.first = C_) :
    headerSec doc (l :: ls) = (setDoc doc l).bind fun d => headerSec d ls := by
  simp only [headerSec, h, hf, if_true]
  cases setDoc doc l <;> rfl

/-- what is left for the class loop is `bodyPart`, a function of the text alone -/
theorem headerSec_rest : ∀ (ls : List TLine) (doc d : Option JStr) (rest : List TLine),
    headerSec doc ls = some (d, rest) → rest = bodyPart ls
  | [], doc, d, rest, h => by
    simp only [headerSec_nil, Option.some.injEq, Prod.mk.injEq] at h
    rw [← h.2]; rfl
  | l :: ls, doc, d, rest, h => by
    by_cases h0 : l.indent = 0
    · rw [headerSec_zero doc ls h0] at h
      simp only [Option.some.injEq, Prod.mk.injEq] at h
      rw [← h.2, bodyPart_cons_zero _ h0]
    · by_cases h1 : l.indent = 1
      · rw [bodyPart_cons_pos _ h0]
        by_cases hf : l.first = C_
        · rw [headerSec_comment doc ls h1 hf] at h
          cases hs : setDoc doc l with
          | none => simp [hs] at h
          | some d' =>
            simp only [hs, Option.bind_some] at h
            exact headerSec_rest ls d' d rest h
        · rw [headerSec_other doc ls h1 hf] at h
          exact headerSec_rest ls doc d rest h
      · rw [headerSec_deep doc ls (by omega)] at h
        simp at h

/-- an accepted header section consists of lines at indentation 1 only -/
theorem headerSec_indents : ∀ (ls : List TLine) (doc d : Option JStr) (rest : List TLine),
    headerSec doc ls = some (d, rest) → ∀ l ∈ headerPart ls, l.indent = 1
  | [], _, _, _, _ => by simp [headerPart]
  | l :: ls, doc, d, rest, h => by
    by_cases h0 : l.indent = 0
    · rw [headerPart_cons_zero _ h0]; simp
    · rw [headerPart_cons_pos _ h0]
      by_cases h1 : l.indent = 1
      · intro x hx
        rcases List.mem_cons.mp hx with rfl | hx
        · exact h1
        · by_cases hf : l.first = C_
          · rw [headerSec_comment doc ls h1 hf] at h
            cases hs : setDoc doc l with
            | none => simp [hs] at h
            | some d' =>
              simp only [hs, Option.bind_some] at h
              exact headerSec_indents ls d' d rest h x hx
          · rw [headerSec_other doc ls h1 hf] at h
            exact headerSec_indents ls doc d rest h x hx
      · rw [headerSec_deep doc ls (by omega)] at h
        simp at h

theorem setDoc_some' {old : Option JStr} {l : TLine} {d : Option JStr} (h : setDoc old l = some d) :
    old = none ∧ d = commentOf l ∧ d.isSome = true := by
  unfold setDoc at h
  cases hc : commentOf l with
  | none => simp [hc] at h
  | some c =>
    simp only [hc] at h
    cases old with
    | some o => simp at h
    | none =>
      simp only [Option.isSome_none, Bool.false_eq_true, if_false, Option.some.injEq] at h
      subst h
      exact ⟨rfl, rfl, rfl⟩

theorem headerDocLines_cons_zero {l : TLine} (ls : List TLine) (h : l.indent = 0) : headerDocLines (l :: ls) = [] := by
  simp [headerDocLines, headerPart_cons_zero _ h]

theorem headerDocLines_cons_other {l : TLine} (ls : List TLine) (h : l.indent ≠ 0) (hf : l.first ≠ C_) :
    headerDocLines (l :: ls) = headerDocLines ls := by
  simp [headerDocLines, headerPart_cons_pos _ h, hf]

theorem headerDocLines_cons_comment {l : TLine} (ls : List TLine) (h : l.indent ≠ 0) (hf : l.first = C_) :
    headerDocLines (l :: ls) = l :: headerDocLines ls := by
  simp [headerDocLines, headerPart_cons_pos _ h, hf]

/-- **the comment of the mapping set** comes from the comment lines of the header section and from nowhere else: there is
none and the comment stays what it was, or there is exactly one, no comment was there before, and it is that line's
(unescaped) cell -/
theorem headerSec_doc : ∀ (ls : List TLine) (doc d : Option JStr) (rest : List TLine),
    headerSec doc ls = some (d, rest) →
    (headerDocLines ls = [] ∧ d = doc) ∨ (∃ l, headerDocLines ls = [l] ∧ doc = none ∧ d = commentOf l ∧ d.isSome = true)
  | [], doc, d, rest, h => by
    simp only [headerSec_nil, Option.some.injEq, Prod.mk.injEq] at h
    exact Or.inl ⟨rfl, h.1.symm⟩
  | l :: ls, doc, d, rest, h => by
    by_cases h0 : l.indent = 0
    · rw [headerSec_zero doc ls h0] at h
      simp only [Option.some.injEq, Prod.mk.injEq] at h
      exact Or.inl ⟨headerDocLines_cons_zero ls h0, h.1.symm⟩
    · by_cases h1 : l.indent = 1
      · by_cases hf : l.first = C_
        · rw [headerSec_comment doc ls h1 hf] at h
          cases hs : setDoc doc l with
          | none => simp [hs] at h
          | some d' =>
            simp only [hs, Option.bind_some] at h
            obtain ⟨hdoc, hd', hsome⟩ := setDoc_some' hs
            rw [headerDocLines_cons_comment ls h0 hf]
            rcases headerSec_doc ls d' d rest h with ⟨hnil, hd⟩ | ⟨l', _, hnone, _, _⟩
            · right
              exact ⟨l, by rw [hnil], hdoc, by rw [hd, hd'], by rw [hd]; exact hsome⟩
            · rw [hnone] at hsome
              simp at hsome
        · rw [headerSec_other doc ls h1 hf] at h
          rw [headerDocLines_cons_other ls h0 hf]
          exact headerSec_doc ls doc d rest h
      · rw [headerSec_deep doc ls (by omega)] at h
        simp at h

theorem headerSec_none_doc {ls : List TLine} {d : Option JStr} {rest : List TLine} (h : headerSec none ls = some (d, rest)) :
    d = headerDoc ls ∧ docN d = (headerDocLines ls).length := by
  rcases headerSec_doc ls none d rest h with ⟨hnil, hd⟩ | ⟨l, hl, _, hd, hsome⟩
  · subst hd
    simp [headerDoc, hnil, docN]
  · refine ⟨by simp [headerDoc, hl, hd], ?_⟩
    simp [hl, docN, hsome]

/-! ## unknown property lines are ignored, a second comment and deeper lines are errors -/

/-- a property line other than `c` can be deleted from the header section without changing anything -/
theorem headerSec_ignores : ∀ (pre : List TLine) (doc : Option JStr) (l : TLine) (post : List TLine),
    (∀ x ∈ pre, x.indent ≠ 0) → l.indent = 1 → l.first ≠ C_ →
    headerSec doc (pre ++ l :: post) = headerSec doc (pre ++ post)
  | [], doc, l, post, _, h1, hf => by simp only [List.nil_append, headerSec_other doc post h1 hf]
  | x :: pre, doc, l, post, hpre, h1, hf => by
    have hx0 := hpre x List.mem_cons_self
    have hpre' : ∀ y ∈ pre, y.indent ≠ 0 := fun y hy => hpre y (List.mem_cons_of_mem _ hy)
    simp only [List.cons_append]
    by_cases hx1 : x.indent = 1
    · by_cases hxf : x.first = C_
      · rw [headerSec_comment doc _ hx1 hxf, headerSec_comment doc _ hx1 hxf]
        cases setDoc doc x with
        | none => rfl
        | some d => simp only [Option.bind_some]; exact headerSec_ignores pre d l post hpre' h1 hf
      · rw [headerSec_other doc _ hx1 hxf, headerSec_other doc _ hx1 hxf]
        exact headerSec_ignores pre doc l post hpre' h1 hf
    · rw [headerSec_deep doc _ (by omega), headerSec_deep doc _ (by omega)]

/-- a line deeper than the header's properties, inside the header section, is an error -/
theorem headerSec_deep_none : ∀ (pre : List TLine) (doc : Option JStr) (l : TLine) (post : List TLine),
    (∀ x ∈ pre, x.indent ≠ 0) → 2 ≤ l.indent → headerSec doc (pre ++ l :: post) = none
  | [], doc, l, post, _, h2 => by simp only [List.nil_append, headerSec_deep doc post h2]
  | x :: pre, doc, l, post, hpre, h2 => by
    have hx0 := hpre x List.mem_cons_self
    have hpre' : ∀ y ∈ pre, y.indent ≠ 0 := fun y hy => hpre y (List.mem_cons_of_mem _ hy)
    simp only [List.cons_append]
    by_cases hx1 : x.indent = 1
    · by_cases hxf : x.first = C_
      · rw [headerSec_comment doc _ hx1 hxf]
        cases setDoc doc x with
        | none => rfl
        | some d => simp only [Option.bind_some]; exact headerSec_deep_none pre d l post hpre' h2
      · rw [headerSec_other doc _ hx1 hxf]
        exact headerSec_deep_none pre doc l post hpre' h2
    · rw [headerSec_deep doc _ (by omega)]

/-- once a comment is there, another comment line in the header section is an error -/
theorem headerSec_second_comment : ∀ (mid : List TLine) (c : JStr) (l : TLine) (post : List TLine),
    (∀ x ∈ mid, x.indent ≠ 0) → l.indent = 1 → l.first = C_ → headerSec (some c) (mid ++ l :: post) = none
  | [], c, l, post, _, h1, hf => by
    rw [List.nil_append, headerSec_comment _ post h1 hf]
    unfold setDoc
    cases commentOf l <;> simp
  | x :: mid, c, l, post, hmid, h1, hf => by
    have hx0 := hmid x List.mem_cons_self
    have hmid' : ∀ y ∈ mid, y.indent ≠ 0 := fun y hy => hmid y (List.mem_cons_of_mem _ hy)
    simp only [List.cons_append]
    by_cases hx1 : x.indent = 1
    · by_cases hxf : x.first = C_
      · rw [headerSec_comment _ _ hx1 hxf]
        have : setDoc (some c) x = none := by
          unfold setDoc
          cases commentOf x <;> simp
        rw [this]; rfl
      · rw [headerSec_other _ _ hx1 hxf]
        exact headerSec_second_comment mid c l post hmid' h1 hf
    · rw [headerSec_deep _ _ (by omega)]

/-- two comment lines in the header section: error -/
theorem headerSec_two_comments : ∀ (pre : List TLine) (doc : Option JStr) (l1 : TLine) (mid : List TLine) (l2 : TLine)
    (post : List TLine), (∀ x ∈ pre, x.indent ≠ 0) → (∀ x ∈ mid, x.indent ≠ 0) →
    l1.indent = 1 → l1.first = C_ → l2.indent = 1 → l2.first = C_ →
    headerSec doc (pre ++ l1 :: (mid ++ l2 :: post)) = none
  | [], doc, l1, mid, l2, post, _, hmid, h1, hf1, h2, hf2 => by
    rw [List.nil_append, headerSec_comment _ _ h1 hf1]
    cases hs : setDoc doc l1 with
    | none => rfl
    | some d =>
      obtain ⟨_, _, hsome⟩ := setDoc_some' hs
      obtain ⟨c, rfl⟩ := Option.isSome_iff_exists.mp hsome
      simp only [Option.bind_some]
      exact headerSec_second_comment mid c l2 post hmid h2 hf2
  | x :: pre, doc, l1, mid, l2, post, hpre, hmid, h1, hf1, h2, hf2 => by
    have hx0 := hpre x List.mem_cons_self
    have hpre' : ∀ y ∈ pre, y.indent ≠ 0 := fun y hy => hpre y (List.mem_cons_of_mem _ hy)
    simp only [List.cons_append]
    by_cases hx1 : x.indent = 1
    · by_cases hxf : x.first = C_
      · rw [headerSec_comment _ _ hx1 hxf]
        cases setDoc doc x with
        | none => rfl
        | some d => simp only [Option.bind_some]; exact headerSec_two_comments pre d l1 mid l2 post hpre' hmid h1 hf1 h2 hf2
      · rw [headerSec_other _ _ hx1 hxf]
        exact headerSec_two_comments pre doc l1 mid l2 post hpre' hmid h1 hf1 h2 hf2
    · rw [headerSec_deep _ _ (by omega)]

/-! ## what `write` puts there is read back -/

/-- the header section `write` emits (the comment of the mapping set, escaped, or nothing), followed by the classes -/
theorem headerSec_written (doc : Option JStr) (rest : List TLine) (h : ∀ l ∈ rest.head?, l.indent = 0) :
    headerSec none (docT 1 doc ++ rest) = some (doc, rest) := by
  have hrest : ∀ d : Option JStr, headerSec d rest = some (d, rest) := by
    intro d
    cases rest with
    | nil => rfl
    | cons l ls => exact headerSec_zero d ls (h l (by simp))
  cases doc with
  | none => simpa [docT] using hrest none
  | some c =>
    simp only [docT, List.singleton_append]
    rw [headerSec_comment none _ rfl rfl]
    simp only [setDoc, commentOf, unescape_escape, Option.isSome_none, Bool.false_eq_true, if_false, Option.bind_some]
    exact hrest (some c)

end Tiny
