import FeatherModel.Lemmas.ClassWriteFullClass

/-!
# C02 (whole writer) — every class attribute block as a `Block`, and the whole attribute list of `write`
-/

namespace ClassWriteFull
open PoolWrite (Entry)
open FramePool (Good Le)
open ClassRead ClassRead.Spec

theorem block_flag_deprecated {t : ClassFacts} {o : Option Bytes} {q : Pool}
    (c : (t.deprecated = false ∧ o = none) ∨ (t.deprecated = true ∧ Present o q sDeprecated [])) :
    Block o q (fun _ => True) (fun c => { c with deprecated := c.deprecated || t.deprecated }) := by
  rcases c with ⟨hf, rfl⟩ | ⟨hf, nc, rfl, hn, a⟩
  · exact block_absent (fun c _ => by simp [hf])
  · exact block_present (.deprecated nc) (fun q' hq => ⟨hn, getUtf8_of hq.good (a.mono hq.le)⟩)
      (fun st _ => by simp [SClassAttr.apply, hf])

theorem block_flag_synthetic {t : ClassFacts} {o : Option Bytes} {q : Pool}
    (c : (t.synthetic = false ∧ o = none) ∨ (t.synthetic = true ∧ Present o q sSynthetic [])) :
    Block o q (fun _ => True) (fun c => { c with synthetic := c.synthetic || t.synthetic }) := by
  rcases c with ⟨hf, rfl⟩ | ⟨hf, nc, rfl, hn, a⟩
  · exact block_absent (fun c _ => by simp [hf])
  · exact block_present (.synthetic nc) (fun q' hq => ⟨hn, getUtf8_of hq.good (a.mono hq.le)⟩)
      (fun st _ => by simp [SClassAttr.apply, hf])

theorem block_inner {t : ClassFacts} {o : Option Bytes} {q : Pool}
    (hok : ∀ es, t.innerClasses = some es → ∀ e ∈ es, InnerOk e)
    (c : (t.innerClasses = none ∧ o = none) ∨
      (∃ (es : List InnerClass) (ls : List SInner), t.innerClasses = some es ∧
        Present o q sInnerClasses (be16 ls.length ++ ls.flatMap SInner.encode) ∧ ls.length = es.length ∧
        ls.length < 65536 ∧ ∀ y ∈ ls.zip es, InnerAt q y.2 y.1)) :
    Block o q (fun c => c.innerClasses = none) (fun c => { c with innerClasses := t.innerClasses }) := by
  rcases c with ⟨hf, rfl⟩ | ⟨es, ls, hf, ⟨nc, rfl, hn, a⟩, hl, hlt, hr⟩
  · exact block_absent (fun c hc => by cases c; simp_all)
  · refine block_present (.innerClasses nc ls) ?_ ?_
    · intro q' hq
      refine ⟨hn, getUtf8_of hq.good (a.mono hq.le), hlt, ?_⟩
      intro l hl'
      obtain ⟨k, hk, hlk⟩ := List.getElem_of_mem hl'
      have hz : (l, es[k]'(by omega)) ∈ ls.zip es := by
        rw [← hlk]
        exact List.mem_iff_getElem.mpr ⟨k, by rw [List.length_zip]; omega, by simp⟩
      exact inner_legal hq.good ((hr _ hz).mono hq.le) (hok es hf _ (List.getElem_mem _))
    · intro st hst
      simp only [SClassAttr.apply, hst, Option.isNone_none, if_true, hf]
      congr 3
      refine congrArg some ?_
      apply map_eq_of_zip _ ls es hl
      intro x hx
      obtain ⟨a1, a2, a3, a4, _⟩ := hr x hx
      have := (hok es hf x.2 (List.of_mem_zip hx).2).2.2.2
      cases hx2 : x.2
      simp_all

theorem block_enclosing {t : ClassFacts} {o : Option Bytes} {q : Pool}
    (hok : ∀ em, t.enclosingMethod = some em →
      validClassName em.1 = true ∧ ∀ nd, em.2 = some nd → validMethodName nd.1 = true)
    (c : (t.enclosingMethod = none ∧ o = none) ∨
      (∃ em clsCp mCp, t.enclosingMethod = some em ∧ Present o q sEnclosingMethod (be16 clsCp ++ be16 mCp) ∧
        clsCp < 65536 ∧ mCp < 65536 ∧ ClsAt q clsCp em.1 ∧
        ((em.2 = none ∧ mCp = 0) ∨ ∃ nd, em.2 = some nd ∧ NatAt q mCp nd.1 nd.2 ∧ 1 ≤ mCp))) :
    Block o q (fun c => c.enclosingMethod = none) (fun c => { c with enclosingMethod := t.enclosingMethod }) := by
  rcases c with ⟨hf, rfl⟩ | ⟨em, clsCp, mCp, hf, ⟨nc, rfl, hn, a⟩, h1, h2, hc, hm⟩
  · exact block_absent (fun c hc => by cases c; simp_all)
  · refine block_present (.enclosingMethod nc clsCp em.1 mCp em.2) ?_ ?_
    · intro q' hq
      refine ⟨hn, getUtf8_of hq.good (a.mono hq.le), h1, h2, getClass_of hq.good (hc.mono hq.le) (hok em hf).1, ?_⟩
      rcases hm with ⟨h0, hz⟩ | ⟨nd, hnd, hna, hone⟩
      · rw [hz, h0]; exact getOptional_zero _ _
      · rw [hnd]
        exact getOptional_pos _ _ hone (getMethodNameAndType_of hq.good (hna.mono hq.le) ((hok em hf).2 nd hnd))
    · intro st hst
      simp [SClassAttr.apply, hst, hf]

theorem block_signature {t : ClassFacts} {o : Option Bytes} {q : Pool}
    (c : (t.signature = none ∧ o = none) ∨
      (∃ s cp, t.signature = some s ∧ Present o q sSignature (be16 cp) ∧ cp < 65536 ∧ Utf8At q cp s)) :
    Block o q (fun c => c.signature = none) (fun c => { c with signature := t.signature }) := by
  rcases c with ⟨hf, rfl⟩ | ⟨s, cp, hf, ⟨nc, rfl, hn, a⟩, hc, ac⟩
  · exact block_absent (fun c hc => by cases c; simp_all)
  · exact block_present (.signature nc cp s)
      (fun q' hq => ⟨hn, getUtf8_of hq.good (a.mono hq.le), hc, getUtf8_of hq.good (ac.mono hq.le)⟩)
      (fun st hst => by simp [SClassAttr.apply, hst, hf])

theorem block_sourceFile {t : ClassFacts} {o : Option Bytes} {q : Pool}
    (c : (t.sourceFile = none ∧ o = none) ∨
      (∃ s cp, t.sourceFile = some s ∧ Present o q sSourceFile (be16 cp) ∧ cp < 65536 ∧ Utf8At q cp s)) :
    Block o q (fun c => c.sourceFile = none) (fun c => { c with sourceFile := t.sourceFile }) := by
  rcases c with ⟨hf, rfl⟩ | ⟨s, cp, hf, ⟨nc, rfl, hn, a⟩, hc, ac⟩
  · exact block_absent (fun c hc => by cases c; simp_all)
  · exact block_present (.sourceFile nc cp s)
      (fun q' hq => ⟨hn, getUtf8_of hq.good (a.mono hq.le), hc, getUtf8_of hq.good (ac.mono hq.le)⟩)
      (fun st hst => by simp [SClassAttr.apply, hst, hf])

theorem block_sde {t : ClassFacts} {o : Option Bytes} {q : Pool}
    (hok : ∀ s, t.sourceDebugExtension = some s → Mutf8.Encodable s = true)
    (c : (t.sourceDebugExtension = none ∧ o = none) ∨
      (∃ s, t.sourceDebugExtension = some s ∧ Present o q sSourceDebugExtension (Mutf8.encode s) ∧
        (Mutf8.encode s).length < 4294967296)) :
    Block o q (fun c => c.sourceDebugExtension = none) (fun c => { c with sourceDebugExtension := t.sourceDebugExtension }) := by
  rcases c with ⟨hf, rfl⟩ | ⟨s, hf, ⟨nc, rfl, hn, a⟩, hl⟩
  · exact block_absent (fun c hc => by cases c; simp_all)
  · exact block_present (.sourceDebugExtension nc s)
      (fun q' hq => ⟨hn, getUtf8_of hq.good (a.mono hq.le), hok s hf, hl⟩)
      (fun st hst => by simp [SClassAttr.apply, hst, hf])

theorem block_annos {o : Option Bytes} {q : Pool} (visible : Bool) {as : List Annotation}
    (c : (as = [] ∧ o = none) ∨
      ∃ sas : List SAnno, Present o q (if visible then sRVA else sRIA) (encAnnos sas) ∧ sas.map SAnno.fact = as ∧
        sas.length < 65536 ∧ (encAnnos sas).length < 4294967296 ∧ ∀ sa ∈ sas, Sound q (fun rp => sa.Ok rp)) :
    Block o q (fun _ => True)
      (fun c => if visible then { c with rva := c.rva ++ as } else { c with ria := c.ria ++ as }) := by
  rcases c with ⟨rfl, rfl⟩ | ⟨sas, ⟨nc, rfl, hn, a⟩, hm, hl, hb, hs⟩
  · exact block_absent (fun c _ => by cases visible <;> simp)
  · exact block_present (.annotations nc visible sas)
      (fun q' hq => ⟨hn, getUtf8_of hq.good (a.mono hq.le), hl, fun sa hsa => hs sa hsa q' hq, hb⟩)
      (fun st _ => by cases visible <;> simp [SClassAttr.apply, hm])

theorem block_typeAnnos {o : Option Bytes} {q : Pool} (visible : Bool) {as : List TypeAnno}
    (c : (as = [] ∧ o = none) ∨
      ∃ sas : List STypeAnno, Present o q (if visible then sRVTA else sRITA) (encTypeAnnos sas) ∧ sas.map STypeAnno.fact = as ∧
        sas.length < 65536 ∧ (encTypeAnnos sas).length < 4294967296 ∧ ∀ sa ∈ sas, Sound q (fun rp => sa.Legal rp .cls)) :
    Block o q (fun _ => True)
      (fun c => if visible then { c with rvta := c.rvta ++ as } else { c with rita := c.rita ++ as }) := by
  rcases c with ⟨rfl, rfl⟩ | ⟨sas, ⟨nc, rfl, hn, a⟩, hm, hl, hb, hs⟩
  · exact block_absent (fun c _ => by cases visible <;> simp)
  · exact block_present (.typeAnnotations nc visible sas)
      (fun q' hq => ⟨hn, getUtf8_of hq.good (a.mono hq.le), hl, fun sa hsa => hs sa hsa q' hq, hb⟩)
      (fun st _ => by cases visible <;> simp [SClassAttr.apply, hm])

theorem block_module {t : ClassFacts} {o : Option Bytes} {q : Pool}
    (hok : ∀ m, t.module = some m → ModuleOk m)
    (c : (t.module = none ∧ o = none) ∨
      (∃ (m : Module) (l : SModule), t.module = some m ∧ Present o q sModule l.encode ∧ l.encode.length < 4294967296 ∧
        ModuleAt q m l)) :
    Block o q (fun c => c.module = none) (fun c => { c with module := t.module }) := by
  rcases c with ⟨hf, rfl⟩ | ⟨m, l, hf, ⟨nc, rfl, hn, a⟩, hl, ha⟩
  · exact block_absent (fun c hc => by cases c; simp_all)
  · exact block_present (.module nc l)
      (fun q' hq => ⟨hn, getUtf8_of hq.good (a.mono hq.le), module_legal hq.good (ha.mono hq.le) (hok m hf), hl⟩)
      (fun st hst => by simp [SClassAttr.apply, hst, hf, module_fact ha (hok m hf)])

theorem block_packages {t : ClassFacts} {o : Option Bytes} {q : Pool}
    (c : (t.modulePackages = none ∧ o = none) ∨
      (∃ (ps : List JStr) (ls : List (Nat × JStr)), t.modulePackages = some ps ∧ Present o q sModulePackages (encRefs ls) ∧
        ls.map (·.2) = ps ∧ ls.length < 65536 ∧ ∀ y ∈ ls, y.1 < 65536 ∧ PkgAt q y.1 y.2)) :
    Block o q (fun c => c.modulePackages = none) (fun c => { c with modulePackages := t.modulePackages }) := by
  rcases c with ⟨hf, rfl⟩ | ⟨ps, ls, hf, ⟨nc, rfl, hn, a⟩, hm, hlt, hr⟩
  · exact block_absent (fun c hc => by cases c; simp_all)
  · exact block_present (.modulePackages nc ls)
      (fun q' hq => ⟨hn, getUtf8_of hq.good (a.mono hq.le), hlt,
        fun y hy => ⟨(hr y hy).1, getPackage_of hq.good ((hr y hy).2.mono hq.le)⟩⟩)
      (fun st hst => by simp [SClassAttr.apply, hst, hf, hm])

theorem block_mainClass {t : ClassFacts} {o : Option Bytes} {q : Pool}
    (hok : ∀ c, t.moduleMainClass = some c → validClassName c = true)
    (c : (t.moduleMainClass = none ∧ o = none) ∨
      (∃ s cp, t.moduleMainClass = some s ∧ Present o q sModuleMainClass (be16 cp) ∧ cp < 65536 ∧ ClsAt q cp s)) :
    Block o q (fun c => c.moduleMainClass = none) (fun c => { c with moduleMainClass := t.moduleMainClass }) := by
  rcases c with ⟨hf, rfl⟩ | ⟨s, cp, hf, ⟨nc, rfl, hn, a⟩, hc, ac⟩
  · exact block_absent (fun c hc => by cases c; simp_all)
  · exact block_present (.moduleMainClass nc cp s)
      (fun q' hq => ⟨hn, getUtf8_of hq.good (a.mono hq.le), hc, getClass_of hq.good (ac.mono hq.le) (hok s hf)⟩)
      (fun st hst => by simp [SClassAttr.apply, hst, hf])

theorem block_nestHost {t : ClassFacts} {o : Option Bytes} {q : Pool}
    (hok : ∀ c, t.nestHost = some c → validClassName c = true)
    (c : (t.nestHost = none ∧ o = none) ∨
      (∃ s cp, t.nestHost = some s ∧ Present o q sNestHost (be16 cp) ∧ cp < 65536 ∧ ClsAt q cp s)) :
    Block o q (fun c => c.nestHost = none) (fun c => { c with nestHost := t.nestHost }) := by
  rcases c with ⟨hf, rfl⟩ | ⟨s, cp, hf, ⟨nc, rfl, hn, a⟩, hc, ac⟩
  · exact block_absent (fun c hc => by cases c; simp_all)
  · exact block_present (.nestHost nc cp s)
      (fun q' hq => ⟨hn, getUtf8_of hq.good (a.mono hq.le), hc, getClass_of hq.good (ac.mono hq.le) (hok s hf)⟩)
      (fun st hst => by simp [SClassAttr.apply, hst, hf])

theorem classRefs_legal {q' : Pool} (hq : Good q') {cps : List Nat} {cs : List JStr} (hl : cps.length = cs.length)
    (hlt : cps.length < 65536) (hr : ∀ y ∈ cps.zip cs, y.1 < 65536 ∧ ClsAt q' y.1 y.2) (hv : ∀ c ∈ cs, validClassName c = true) :
    classRefsLegal (rpool q') cps cs :=
  ⟨hlt, hl, fun y hy => ⟨(hr y hy).1, getClass_of hq (hr y hy).2 (hv y.2 (List.of_mem_zip hy).2)⟩⟩

theorem block_nestMembers {t : ClassFacts} {o : Option Bytes} {q : Pool}
    (hok : ∀ cs, t.nestMembers = some cs → ∀ c ∈ cs, validClassName c = true)
    (c : (t.nestMembers = none ∧ o = none) ∨
      (∃ (cs : List JStr) (cps : List Nat), t.nestMembers = some cs ∧
        Present o q sNestMembers (be16 cps.length ++ cps.flatMap be16) ∧ cps.length = cs.length ∧
        cps.length < 65536 ∧ ∀ y ∈ cps.zip cs, y.1 < 65536 ∧ ClsAt q y.1 y.2)) :
    Block o q (fun c => c.nestMembers = none) (fun c => { c with nestMembers := t.nestMembers }) := by
  rcases c with ⟨hf, rfl⟩ | ⟨cs, cps, hf, ⟨nc, rfl, hn, a⟩, hl, hlt, hr⟩
  · exact block_absent (fun c hc => by cases c; simp_all)
  · exact block_present (.nestMembers nc cps cs)
      (fun q' hq => ⟨hn, getUtf8_of hq.good (a.mono hq.le),
        classRefs_legal hq.good hl hlt (fun y hy => ⟨(hr y hy).1, (hr y hy).2.mono hq.le⟩) (hok cs hf)⟩)
      (fun st hst => by simp [SClassAttr.apply, hst, hf])

theorem block_permitted {t : ClassFacts} {o : Option Bytes} {q : Pool}
    (hok : ∀ cs, t.permittedSubclasses = some cs → ∀ c ∈ cs, validClassName c = true)
    (c : (t.permittedSubclasses = none ∧ o = none) ∨
      (∃ (cs : List JStr) (cps : List Nat), t.permittedSubclasses = some cs ∧
        Present o q sPermittedSubclasses (be16 cps.length ++ cps.flatMap be16) ∧ cps.length = cs.length ∧
        cps.length < 65536 ∧ ∀ y ∈ cps.zip cs, y.1 < 65536 ∧ ClsAt q y.1 y.2)) :
    Block o q (fun c => c.permittedSubclasses = none) (fun c => { c with permittedSubclasses := t.permittedSubclasses }) := by
  rcases c with ⟨hf, rfl⟩ | ⟨cs, cps, hf, ⟨nc, rfl, hn, a⟩, hl, hlt, hr⟩
  · exact block_absent (fun c hc => by cases c; simp_all)
  · exact block_present (.permittedSubclasses nc cps cs)
      (fun q' hq => ⟨hn, getUtf8_of hq.good (a.mono hq.le),
        classRefs_legal hq.good hl hlt (fun y hy => ⟨(hr y hy).1, (hr y hy).2.mono hq.le⟩) (hok cs hf)⟩)
      (fun st hst => by simp [SClassAttr.apply, hst, hf])

theorem blocks_unknown {t : ClassFacts} (hok : ∀ a ∈ t.attrs, a.name ∉ classAttrNames) {q : Pool} {ncs : List Nat}
    (hlen : ncs.length = t.attrs.length)
    (hunk : ∀ x ∈ ncs.zip t.attrs, x.1 < 65536 ∧ Utf8At q x.1 x.2.name ∧ x.2.bytes.length < 4294967296) :
    Blocks ((ncs.zip t.attrs).map (fun x => attrFrame x.1 x.2.bytes)) q (fun _ => True)
      (fun st => ({ st.1 with attrs := st.1.attrs ++ t.attrs }, st.2)) := by
  refine ⟨(ncs.zip t.attrs).map fun x => SClassAttr.unknown x.1 x.2.name x.2.bytes, ?_, ?_, ?_⟩
  · simp [List.map_map, Function.comp_def, ownClass, SClassAttr.frame, SClassAttr.raw]
  · intro a ha q' hq
    obtain ⟨x, hx, rfl⟩ := List.mem_map.mp ha
    obtain ⟨hn, hu, hb⟩ := hunk x hx
    exact ⟨hn, getUtf8_of hq.good (hu.mono hq.le), hok x.2 (List.of_mem_zip hx).2, hb⟩
  · intro st _
    exact applyAll_class_unknown st ncs t.attrs hlen

/-- one row of `BootstrapMethods` -/
theorem writeBsmRow_spec {p p' : Pool} {b : Bsm} {bytes : Bytes} (hg : Good p)
    (hh : ∃ h : ClassRead.Handle, handleOk h ∧ b.handle = handleOf h) (h : writeBsmRow p b = .ok (bytes, p')) :
    Step p p' ∧ ∃ l : SBsm, bytes = l.encode ∧ l.args = b.args ∧ l.handle = rdHandle b.handle ∧ l.handleCp < 65536 ∧
      HandleAt p' l.handleCp l.handle ∧ handleOk l.handle ∧ l.args.length < 65536 := by
  obtain ⟨hd, hok, he⟩ := hh
  obtain ⟨⟨i, p1⟩, h1, h⟩ := bind_eq_ok.mp h
  obtain ⟨c, h2, h⟩ := bind_eq_ok.mp h
  obtain ⟨hl, rfl⟩ := cnt16_eq_ok.mp h2
  have := pure_eq_ok.mp h
  simp only [Prod.mk.injEq] at this
  obtain ⟨rfl, rfl⟩ := this
  rw [he] at h1
  obtain ⟨s, a, hi⟩ := putHandle_spec (h := hd) hg h1
  exact ⟨s, ⟨i, hd, b.args⟩, rfl, rfl, by rw [he, rdHandle_handleOf hok], hi, a, hok, by show b.args.length < 65536; omega⟩

/-- the `BootstrapMethods` block: written exactly when a bootstrap method was put while the members were written; it
establishes the table `bsTable bs` for the reader -/
theorem ablock_bootstrap {bs : List Bsm} (hb : BsOk bs) {p p' : Pool} {o : Option Bytes} (hg : Good p)
    (h : onlyIf (!bs.isEmpty) (attrBuf sBootstrapMethods (fun p => writeSlice16 writeBsmRow p bs)) p = .ok (o, p')) :
    Step p p' ∧ GBlock ownClass o p' (fun st => st.2.1 = none) (fun st => (st.1, bsTable bs, st.2.2)) := by
  rcases onlyIf_inv h with ⟨hc, b, hbb, rfl⟩ | ⟨hc, rfl, rfl⟩
  · obtain ⟨bb, p1, i, h1, h2, hlen, rfl⟩ := attrBuf_inv hbb
    obtain ⟨hl, bb', h3, rfl⟩ := writeSlice16_inv h1
    obtain ⟨s1, ls, rfl, hlen', hr⟩ := writeList_spec' writeBsmRow SBsm.encode
      (fun b : Bsm => ∃ h : ClassRead.Handle, handleOk h ∧ b.handle = handleOf h)
      (fun p (b : Bsm) (l : SBsm) => l.args = b.args ∧ l.handle = rdHandle b.handle ∧ l.handleCp < 65536 ∧
        HandleAt p l.handleCp l.handle ∧ handleOk l.handle ∧ l.args.length < 65536)
      (fun p p' a l hle hr => ⟨hr.1, hr.2.1, hr.2.2.1, hr.2.2.2.1.mono hle, hr.2.2.2.2⟩)
      (fun p p' a b hg hP h => writeBsmRow_spec hg hP h) bs p p1 bb' hg hb.handles h3
    obtain ⟨s2, a2, hi⟩ := putUtf8_spec s1.good h2
    have hne : bs.isEmpty = false := by simpa using hc
    refine ⟨s1.trans s2, ?_⟩
    have hframe : attrFrame i (be16 bs.length ++ ls.flatMap SBsm.encode) = SClassAttr.frame (.bootstrapMethods i ls) := by
      simp [SClassAttr.frame, SClassAttr.raw, hlen']
    rw [hframe]
    refine gblock_present (O := ownClass) (.bootstrapMethods i ls) ?_ ?_
    · intro q hq
      refine ⟨hi, getUtf8_of hq.good (a2.mono hq.le), by omega, ?_, by rw [hlen']; omega⟩
      intro l hlm
      obtain ⟨x, hx, hz⟩ := zip_mem_of_mem hlen' hlm
      obtain ⟨b1, b2, b3, b4, b5, b6⟩ := hr _ hz
      refine ⟨b3, getMethodHandle_of hq.good ((b4.mono s2.le).mono hq.le) b5, b6, ?_⟩
      intro a ha
      rw [b1] at ha
      exact hb.args x hx a ha
    · intro st hst
      simp only [ownClass, SClassAttr.apply, hst, Option.isNone_none, if_true]
      congr 3
      simp only [bsTable, hne, Bool.false_eq_true, if_false]
      congr 1
      apply map_eq_of_zip _ ls (bs.map rdBsm) (by simp [hlen'])
      intro x hx
      rw [List.zip_map_right] at hx
      obtain ⟨y, hy, rfl⟩ := List.mem_map.mp hx
      obtain ⟨b1, b2, _⟩ := hr y hy
      simp [rdBsm, b1, b2]
  · have he : bs = [] := by
      cases bs with
      | nil => rfl
      | cons _ _ => simp at hc
    subst he
    exact ⟨Step.refl hg, gblock_absent (fun st hst => by obtain ⟨a, b, c⟩ := st; simp only at hst; subst hst; rfl)⟩

/-- the `Record` block: sets the components and the "a `Record` attribute was seen" flag of the accumulator -/
theorem ablock_record {t : ClassFacts} {o : Option Bytes} {q : Pool}
    (c : (t.recordComponents = [] ∧ o = none) ∨
      (t.recordComponents ≠ [] ∧ ∃ ls : List RecordLayout,
        Present o q sRecord (be16 ls.length ++ ls.flatMap RecordLayout.encode) ∧
        ls.length < 65536 ∧ (be16 ls.length ++ ls.flatMap RecordLayout.encode).length < 4294967296 ∧
        (∀ l ∈ ls, Sound q (fun rp => l.Legal rp)) ∧ mapOpt RecordLayout.facts ls = some t.recordComponents)) :
    GBlock ownClass o q (fun st => st.2.2 = false)
      (fun st => ({ st.1 with recordComponents := st.1.recordComponents ++ t.recordComponents }, st.2.1,
        st.2.2 || !t.recordComponents.isEmpty)) := by
  rcases c with ⟨hf, rfl⟩ | ⟨hne, ls, ⟨nc, rfl, hn, a⟩, hlt, hb, hs, hfacts⟩
  · exact gblock_absent (fun st _ => by rw [hf]; simp)
  · refine gblock_present (O := ownClass) (.record nc ls)
      (fun q' hq => ⟨hn, getUtf8_of hq.good (a.mono hq.le), hlt, fun l hl => hs l hl q' hq, hb⟩) ?_
    intro st hst
    have hne' : t.recordComponents.isEmpty = false := by
      cases h : t.recordComponents with
      | nil => exact absurd h hne
      | cons _ _ => rfl
    simp [ownClass, SClassAttr.apply, hst, hfacts, hne']

end ClassWriteFull
