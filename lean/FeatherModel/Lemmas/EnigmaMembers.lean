import FeatherModel.Lemmas.EnigmaRun

/-!
# C12, layer 4: the reader on `ARG`, `FIELD` and `METHOD` blocks
-/

namespace Enigma

/-! ## parameters -/

theorem handle_arg (cs : AList JStr Class) (st : List Frame) (k : MemberKey) (m : Method) (n idx : Nat) (d : JStr)
    (hv : validUnq d = true) (hc : AList.contains idx m.params = false) (hi : idx < 18446744073709551616) :
    handle ⟨cs, st, .method k m none⟩ ⟨n, kwARG, [natToDec idx, d]⟩ =
      some ⟨cs, st, .method k m (some (idx, { index := idx, names := [none, some d], doc := none }))⟩ := by
  simp [handle, parseUsize_natToDec idx hi, hv, hc]

theorem run_params (cs : AList JStr Class) (st : List Frame) (k : MemberKey) :
    ∀ (ps : List (Nat × Param)) (m : Method) (s : St),
      (∀ e ∈ ps, paramOk e = true) → ((m.params ++ ps).map Prod.fst).Nodup →
      Settle (st.length + 1) s ⟨cs, st, .method k m none⟩ →
      ∃ s', run (paramEL (st.length + 1) ps) s = some s' ∧
        Settle (st.length + 1) s' ⟨cs, st, .method k { m with params := m.params ++ ps } none⟩
  | [], m, s, _, _, hs => ⟨s, rfl, by simpa using hs⟩
  | (i, p) :: rest, m, s, hok, hnd, hs => by
    obtain ⟨d, hn, hi, hlt, hdoc, _, hv⟩ := paramOk_spec (hok (i, p) List.mem_cons_self)
    simp only at hn hi hlt hdoc
    subst hi
    have hfresh : AList.contains p.index m.params = false := by
      rw [contains_eq_false_iff]
      intro hm
      simp only [List.map_append, List.map_cons] at hnd
      exact (List.nodup_append.mp hnd).2.2 _ hm _ List.mem_cons_self rfl
    have hd : dstOf p.names = some d := by rw [hn, dstOf_pair]
    -- the `ARG` line
    have h1 := step_of_settle hs (l := ⟨st.length + 1, kwARG, [natToDec p.index, d]⟩) rfl
    rw [handle_arg cs st k m _ p.index d hv hfresh hlt] at h1
    -- its comments
    let mk : Option JStr → St := fun doc =>
      ⟨cs, st, .method k m (some (p.index, { index := p.index, names := [none, some d], doc := doc }))⟩
    have h2 := run_commentEL mk (st.length + 1 + 1) (fun _ => rfl)
      (by intro doc l hl; simp [mk, handle, hl]) p.doc hdoc
    have hp : ({ index := p.index, names := [none, some d], doc := p.doc } : Param) = p := by
      cases p; simp only at hn; simp [hn]
    have h3 : Settle (st.length + 1) (mk p.doc) ⟨cs, st, .method k { m with params := m.params ++ [(p.index, p)] } none⟩ := by
      simp only [mk, hp]
      exact settle_param cs st k m (p.index, p)
    -- the remaining parameters
    obtain ⟨s', hr, hs'⟩ := run_params cs st k rest { m with params := m.params ++ [(p.index, p)] } (mk p.doc)
      (fun e he => hok e (List.mem_cons_of_mem _ he)) (by simpa [List.append_assoc] using hnd) h3
    refine ⟨s', ?_, by simpa [List.append_assoc] using hs'⟩
    simp only [paramEL, hd, Option.getD_some, List.cons_append]
    rw [run_cons, h1, Option.bind_some, run_append]
    show (run (commentEL (st.length + 1 + 1) p.doc) (mk none)).bind _ = _
    rw [h2, Option.bind_some, hr]

/-! ## fields -/

theorem memberArgs_ok (name desc : JStr) (dst : Option JStr) (h : ∀ d, dst = some d → isModifier desc = false) :
    memberArgs (name :: dst.toList ++ [desc]) = some (name, dst, desc) := by
  cases dst with
  | none => rfl
  | some d => simp [memberArgs, h d rfl]

theorem handle_field (cs : AList JStr Class) (fr : Frame) (rest : List Frame) (n : Nat) (name desc : JStr) (dst : Option JStr)
    (hm : ∀ d, dst = some d → isModifier desc = false) (hv : validUnq name = true) (hvd : optAll validUnq dst = true)
    (hc : AList.contains (name, desc) fr.cls.fields = false) :
    handle ⟨cs, fr :: rest, .idle⟩ ⟨n, kwFIELD, name :: dst.toList ++ [desc]⟩ =
      some ⟨cs, fr :: rest, .field (name, desc) { desc := desc, names := [some name, dst], doc := none }⟩ := by
  have h1 : ¬ (kwFIELD = kwCLASS) := by decide
  simp only [handle, h1, if_false, if_true, memberArgs_ok name desc dst hm, hv, hvd, hc, Bool.and_self, Bool.not_false]

theorem run_fields (cs : AList JStr Class) (rest : List Frame) :
    ∀ (fs : List (MemberKey × Field)) (fr : Frame) (s : St),
      (∀ e ∈ fs, fieldOk e = true) → ((fr.cls.fields ++ fs).map Prod.fst).Nodup →
      Settle (rest.length + 1) s ⟨cs, fr :: rest, .idle⟩ →
      ∃ s', run (fieldEL (rest.length + 1) fs) s = some s' ∧
        Settle (rest.length + 1) s' ⟨cs, { fr with cls := { fr.cls with fields := fr.cls.fields ++ fs } } :: rest, .idle⟩
  | [], fr, s, _, _, hs => ⟨s, rfl, by simpa using hs⟩
  | ((name, desc), f) :: more, fr, s, hok, hnd, hs => by
    obtain ⟨dst, hn, hde, _, hdoc, _, hv, hdst⟩ := fieldOk_spec (hok ((name, desc), f) List.mem_cons_self)
    simp only at hn hde hdoc hv hdst
    have hfresh : AList.contains (name, desc) fr.cls.fields = false := by
      rw [contains_eq_false_iff]
      intro hm
      simp only [List.map_append, List.map_cons] at hnd
      exact (List.nodup_append.mp hnd).2.2 _ hm _ List.mem_cons_self rfl
    have hd : dstOf f.names = dst := by rw [hn, dstOf_pair]
    have hvd : optAll validUnq dst = true := by
      cases dst with
      | none => rfl
      | some x => exact (hdst x rfl).2.1
    have h1 := step_of_settle hs (l := ⟨rest.length + 1, kwFIELD, name :: dst.toList ++ [desc]⟩) rfl
    rw [handle_field cs fr rest _ name desc dst (fun x hx => (hdst x hx).2.2) hv hvd hfresh] at h1
    let mk : Option JStr → St := fun doc =>
      ⟨cs, fr :: rest, .field (name, desc) { desc := desc, names := [some name, dst], doc := doc }⟩
    have h2 := run_commentEL mk (rest.length + 1 + 1) (fun _ => rfl)
      (by intro doc l hl; simp [mk, handle, hl]) f.doc hdoc
    have hf : ({ desc := desc, names := [some name, dst], doc := f.doc } : Field) = f := by
      cases f; simp only at hn hde; simp [hn, hde]
    have h3 : Settle (rest.length + 1) (mk f.doc)
        ⟨cs, { fr with cls := { fr.cls with fields := fr.cls.fields ++ [((name, desc), f)] } } :: rest, .idle⟩ := by
      simp only [mk, hf]
      exact settle_field cs fr rest (name, desc) f
    obtain ⟨s', hr, hs'⟩ := run_fields cs rest more
      { fr with cls := { fr.cls with fields := fr.cls.fields ++ [((name, desc), f)] } } (mk f.doc)
      (fun e he => hok e (List.mem_cons_of_mem _ he)) (by simpa [List.append_assoc] using hnd) h3
    refine ⟨s', ?_, by simpa [List.append_assoc] using hs'⟩
    simp only [fieldEL, hd, List.cons_append]
    simp only [List.cons_append] at h1
    rw [run_cons, h1, Option.bind_some, run_append]
    show (run (commentEL (rest.length + 1 + 1) f.doc) (mk none)).bind _ = _
    rw [h2, Option.bind_some, hr]

/-! ## methods -/

theorem handle_method (cs : AList JStr Class) (fr : Frame) (rest : List Frame) (n : Nat) (name desc : JStr) (dst : Option JStr)
    (hm : ∀ d, dst = some d → isModifier desc = false) (hv : validMethodName name = true)
    (hvd : optAll validMethodName dst = true) (hc : AList.contains (name, desc) fr.cls.methods = false) :
    handle ⟨cs, fr :: rest, .idle⟩ ⟨n, kwMETHOD, name :: dst.toList ++ [desc]⟩ =
      some ⟨cs, fr :: rest, .method (name, desc) { desc := desc, names := [some name, dst], doc := none, params := [] } none⟩ := by
  have h1 : ¬ (kwMETHOD = kwCLASS) := by decide
  have h2 : ¬ (kwMETHOD = kwFIELD) := by decide
  simp only [handle, h1, h2, if_false, if_true, memberArgs_ok name desc dst hm, hv, hvd, hc, Bool.and_self, Bool.not_false]

/-- what the reader makes of a method entry -/
theorem canonMethod_eq {name desc : JStr} {m : Method} {dst : Option JStr} (hn : m.names = [some name, dst])
    (hde : m.desc = desc) :
    ({ desc := desc, names := [some name, methodDst m], doc := m.doc, params := isort paramLe m.params } : Method) =
      canonMethod m := by
  cases m with
  | mk mdesc mnames mdoc mparams =>
    simp only at hn hde
    subst hn hde
    cases dst with
    | none => simp [canonMethod, methodDst, dstOf]
    | some d =>
      by_cases hd : d = kwINIT
      · simp [canonMethod, methodDst, dstOf, hd]
      · simp [canonMethod, methodDst, dstOf, hd]

theorem run_methods (cs : AList JStr Class) (rest : List Frame) :
    ∀ (ms : List (MemberKey × Method)) (fr : Frame) (s : St),
      (∀ e ∈ ms, methodOk e = true) → ((fr.cls.methods ++ ms).map Prod.fst).Nodup →
      Settle (rest.length + 1) s ⟨cs, fr :: rest, .idle⟩ →
      ∃ s', run (methodEL (rest.length + 1) ms) s = some s' ∧
        Settle (rest.length + 1) s'
          ⟨cs, { fr with cls := { fr.cls with methods := fr.cls.methods ++ ms.map fun e => (e.1, canonMethod e.2) } } :: rest, .idle⟩
  | [], fr, s, _, _, hs => ⟨s, rfl, by simpa using hs⟩
  | ((name, desc), m) :: more, fr, s, hok, hnd, hs => by
    obtain ⟨dst, hn, hde, _, hdoc, _, hv, hdst, hps, hpnd⟩ := methodOk_spec (hok ((name, desc), m) List.mem_cons_self)
    simp only at hn hde hdoc hv hdst hps hpnd
    have hfresh : AList.contains (name, desc) fr.cls.methods = false := by
      rw [contains_eq_false_iff]
      intro hm
      simp only [List.map_append, List.map_cons] at hnd
      exact (List.nodup_append.mp hnd).2.2 _ hm _ List.mem_cons_self rfl
    have hd : dstOf m.names = dst := by rw [hn, dstOf_pair]
    -- the written target name
    have hmd : ∀ x, methodDst m = some x → dst = some x ∧ x ≠ kwINIT := by
      intro x hx
      simp only [methodDst, hd] at hx
      cases dst with
      | none => simp at hx
      | some y =>
        simp only at hx
        split at hx
        · simp at hx
        · rename_i hy
          simp only [Option.some.injEq] at hx
          subst hx
          exact ⟨rfl, hy⟩
    have hmod : ∀ x, methodDst m = some x → isModifier desc = false := by
      intro x hx
      obtain ⟨e, hne⟩ := hmd x hx
      rcases hdst x e with h | h
      · exact absurd h hne
      · exact h.2.2
    have hvd : optAll validMethodName (methodDst m) = true := by
      cases hx : methodDst m with
      | none => rfl
      | some x =>
        obtain ⟨e, hne⟩ := hmd x hx
        rcases hdst x e with h | h
        · exact absurd h hne
        · exact h.2.1
    have h1 := step_of_settle hs (l := ⟨rest.length + 1, kwMETHOD, name :: (methodDst m).toList ++ [desc]⟩) rfl
    rw [handle_method cs fr rest _ name desc (methodDst m) hmod hv hvd hfresh] at h1
    -- comments
    let mk : Option JStr → St := fun doc =>
      ⟨cs, fr :: rest, .method (name, desc) { desc := desc, names := [some name, methodDst m], doc := doc, params := [] } none⟩
    have h2 := run_commentEL mk (rest.length + 1 + 1) (fun _ => rfl)
      (by intro doc l hl; simp [mk, handle, hl, kwCOMMENT, kwARG]) m.doc hdoc
    -- parameters
    have hsp : ∀ e ∈ isort paramLe m.params, paramOk e = true := mem_isort_all hps
    have hspn : ((([] : AList Nat Param) ++ isort paramLe m.params).map Prod.fst).Nodup := by
      simp only [List.nil_append]
      exact ((isort_perm paramLe m.params).map Prod.fst).nodup_iff.mpr hpnd
    obtain ⟨s2, hr2, hs2⟩ := run_params cs (fr :: rest) (name, desc) (isort paramLe m.params)
      { desc := desc, names := [some name, methodDst m], doc := m.doc, params := [] } (mk m.doc) hsp hspn
      (Settle.of_depth rfl)
    simp only [List.nil_append, canonMethod_eq hn hde] at hs2
    have h3 := Settle.trans (Nat.le_succ _) hs2 (settle_method cs fr rest (name, desc) (canonMethod m))
    obtain ⟨s', hr, hs'⟩ := run_methods cs rest more
      { fr with cls := { fr.cls with methods := fr.cls.methods ++ [((name, desc), canonMethod m)] } } s2
      (fun e he => hok e (List.mem_cons_of_mem _ he)) (by simpa [List.append_assoc] using hnd) h3
    refine ⟨s', ?_, by simpa [List.append_assoc] using hs'⟩
    simp only [methodEL, List.cons_append, List.append_assoc]
    simp only [List.cons_append] at h1
    rw [run_cons, h1, Option.bind_some, run_append]
    show (run (commentEL (rest.length + 1 + 1) m.doc) (mk none)).bind _ = _
    rw [h2, Option.bind_some, run_append]
    show (run (paramEL ((fr :: rest).length + 1) (isort paramLe m.params)) (mk m.doc)).bind _ = _
    rw [hr2, Option.bind_some, hr]

end Enigma
