import FeatherModel.Lemmas.BridgeBase
import FeatherModel.Model.BridgeSpec

/-! The index the class visitor builds (`ofJar`) in terms of the jar description (C15). -/

namespace Bridge

/-! ## generic fold lemmas -/

theorem foldl_pred {α β : Type} (f : β → α → β) (P : β → Prop) :
    ∀ (l : List α) (b : β), (∀ a, a ∈ l → ∀ b, P b → P (f b a)) → P b → P (l.foldl f b) := by
  intro l
  induction l with
  | nil => intro b _ h; exact h
  | cons a rest ih =>
    intro b hstep h
    exact ih (f b a) (fun a' ha' => hstep a' (List.mem_cons_of_mem _ ha')) (hstep a (by simp) b h)

theorem foldl_preserve {α β δ : Type} (f : β → α → β) (g : β → δ) (h : ∀ b a, g (f b a) = g b) :
    ∀ (l : List α) (b : β), g (l.foldl f b) = g b := by
  intro l
  induction l with
  | nil => intro b; rfl
  | cons a rest ih => intro b; simp only [List.foldl_cons]; rw [ih, h]

/-- a fold that only ever adds to a "set" `S` -/
theorem foldl_accum {α β γ : Type} (f : β → α → β) (S : β → γ → Prop) (Q : α → γ → Prop)
    (hstep : ∀ b a x, S (f b a) x ↔ S b x ∨ Q a x) :
    ∀ (l : List α) (b : β) (x : γ), S (l.foldl f b) x ↔ S b x ∨ ∃ a, a ∈ l ∧ Q a x := by
  intro l
  induction l with
  | nil => intro b x; simp
  | cons a rest ih =>
    intro b x
    simp only [List.foldl_cons]
    rw [ih, hstep]
    constructor
    · rintro ((h | h) | ⟨a', ha', h⟩)
      · exact Or.inl h
      · exact Or.inr ⟨a, by simp, h⟩
      · exact Or.inr ⟨a', List.mem_cons_of_mem _ ha', h⟩
    · rintro (h | ⟨a', ha', h⟩)
      · exact Or.inl (Or.inl h)
      · rcases List.mem_cons.mp ha' with e | ha'
        · subst e; exact Or.inl (Or.inr h)
        · exact Or.inr ⟨a', ha', h⟩

/-! ## which step touches which component -/

@[simp] theorem addEdge_classes (idx : Index) (c p : JStr) : (addEdge idx c p).classes = idx.classes := rfl
@[simp] theorem addEdge_methods (idx : Index) (c p : JStr) : (addEdge idx c p).methods = idx.methods := rfl
@[simp] theorem addEdge_refs (idx : Index) (c p : JStr) : (addEdge idx c p).refs = idx.refs := rfl

@[simp] theorem visitMethod_classes (cls : JStr) (idx : Index) (m : MethodDesc) :
    (visitMethod cls idx m).classes = idx.classes := by
  unfold visitMethod; cases m.code <;> rfl
@[simp] theorem visitMethod_parents (cls : JStr) (idx : Index) (m : MethodDesc) :
    (visitMethod cls idx m).parents = idx.parents := by
  unfold visitMethod; cases m.code <;> rfl
@[simp] theorem visitMethod_children (cls : JStr) (idx : Index) (m : MethodDesc) :
    (visitMethod cls idx m).children = idx.children := by
  unfold visitMethod; cases m.code <;> rfl
theorem visitMethod_methods (cls : JStr) (idx : Index) (m : MethodDesc) :
    (visitMethod cls idx m).methods = upsert ⟨cls, m.name, m.desc⟩ (Access.ofFlags m.flags) idx.methods := by
  unfold visitMethod; cases m.code <;> rfl

/-- the index after the class header (class set and edges), before the methods -/
def headerOf (idx : Index) (c : ClassDesc) : Index :=
  let idx := { idx with classes := setInsert c.name idx.classes }
  let idx := match c.super with
    | some s => if s != JLO then addEdge idx c.name s else idx
    | none => idx
  c.ifaces.foldl (fun idx i => addEdge idx c.name i) idx

theorem visitClass_eq (idx : Index) (c : ClassDesc) :
    visitClass idx c = c.methods.foldl (visitMethod c.name) (headerOf idx c) := rfl

theorem headerOf_methods (idx : Index) (c : ClassDesc) : (headerOf idx c).methods = idx.methods := by
  unfold headerOf
  simp only
  rw [foldl_preserve (fun idx i => addEdge idx c.name i) Index.methods (fun _ _ => rfl)]
  cases c.super with
  | none => rfl
  | some s => by_cases h : (s != JLO) = true <;> simp [h]

theorem headerOf_refs (idx : Index) (c : ClassDesc) : (headerOf idx c).refs = idx.refs := by
  unfold headerOf
  simp only
  rw [foldl_preserve (fun idx i => addEdge idx c.name i) Index.refs (fun _ _ => rfl)]
  cases c.super with
  | none => rfl
  | some s => by_cases h : (s != JLO) = true <;> simp [h]

theorem headerOf_classes (idx : Index) (c : ClassDesc) : (headerOf idx c).classes = setInsert c.name idx.classes := by
  unfold headerOf
  simp only
  rw [foldl_preserve (fun idx i => addEdge idx c.name i) Index.classes (fun _ _ => rfl)]
  cases c.super with
  | none => rfl
  | some s => by_cases h : (s != JLO) = true <;> simp [h]

/-! ## methods: unique keys -/

theorem visitClass_methods_nodup (idx : Index) (c : ClassDesc) (h : (idx.methods.map Prod.fst).Nodup) :
    ((visitClass idx c).methods.map Prod.fst).Nodup := by
  rw [visitClass_eq]
  apply foldl_pred (visitMethod c.name) (fun i => (i.methods.map Prod.fst).Nodup)
  · intro m _ b hb
    show ((visitMethod c.name b m).methods.map Prod.fst).Nodup
    rw [visitMethod_methods]
    exact keys_upsert_nodup _ _ hb
  · show ((headerOf idx c).methods.map Prod.fst).Nodup
    rw [headerOf_methods]; exact h

theorem ofJar_methods_nodup (jar : JarDesc) : ((ofJar jar).methods.map Prod.fst).Nodup := by
  unfold ofJar
  apply foldl_pred visitClass (fun i => (i.methods.map Prod.fst).Nodup)
  · intro c _ b hb; exact visitClass_methods_nodup b c hb
  · simp [Index.empty]

/-! ## class set -/

theorem visitClass_classes (idx : Index) (c : ClassDesc) : (visitClass idx c).classes = setInsert c.name idx.classes := by
  rw [visitClass_eq, foldl_preserve (visitMethod c.name) Index.classes (fun b a => visitMethod_classes c.name b a), headerOf_classes]

theorem ofJar_classes (jar : JarDesc) (c : JStr) : c ∈ (ofJar jar).classes ↔ ∃ cd, cd ∈ jar ∧ cd.name = c := by
  unfold ofJar
  have := foldl_accum visitClass (fun i (x : JStr) => x ∈ i.classes) (fun cd x => cd.name = x)
    (by intro b a x; simp only [visitClass_classes, mem_setInsert]; exact or_congr Iff.rfl eq_comm) jar Index.empty c
  simpa [Index.empty] using this

/-! ## hierarchy -/

theorem nexts_entryModify (g : AList JStr (List JStr)) (k x c : JStr) :
    nexts (entryModify k [] (setInsert x) g) c = if c = k then setInsert x (nexts g k) else nexts g c := by
  unfold nexts entryModify
  rw [lookup_upsert]
  by_cases h : c = k
  · simp [h]
  · simp [h]

/-- the direct super types the hierarchy index records for a class description -/
def directSupers (cd : ClassDesc) (p : JStr) : Prop := (cd.super = some p ∧ p ≠ JLO) ∨ p ∈ cd.ifaces

theorem addEdge_parents (idx : Index) (ch pa c p : JStr) :
    p ∈ nexts (addEdge idx ch pa).parents c ↔ p ∈ nexts idx.parents c ∨ (c = ch ∧ p = pa) := by
  show p ∈ nexts (entryModify ch [] (setInsert pa) idx.parents) c ↔ _
  rw [nexts_entryModify]
  by_cases h : c = ch
  · subst h; simp [mem_setInsert]
  · simp [h]

theorem addEdge_children (idx : Index) (ch pa c p : JStr) :
    c ∈ nexts (addEdge idx ch pa).children p ↔ c ∈ nexts idx.children p ∨ (c = ch ∧ p = pa) := by
  show c ∈ nexts (entryModify pa [] (setInsert ch) idx.children) p ↔ _
  rw [nexts_entryModify]
  by_cases h : p = pa
  · subst h; simp [mem_setInsert]
  · simp [h]

theorem ifaces_fold_parents (idx : Index) (name : JStr) (ifaces : List JStr) (c p : JStr) :
    p ∈ nexts (ifaces.foldl (fun idx i => addEdge idx name i) idx).parents c ↔
      p ∈ nexts idx.parents c ∨ (c = name ∧ p ∈ ifaces) := by
  have hf := foldl_accum (fun idx i => addEdge idx name i) (fun i (x : JStr × JStr) => x.2 ∈ nexts i.parents x.1)
    (fun i x => x.1 = name ∧ x.2 = i) (by intro b a x; exact addEdge_parents b name a x.1 x.2) ifaces idx (c, p)
  rw [hf]
  apply or_congr Iff.rfl
  constructor
  · rintro ⟨i, hi, h1, h2⟩
    cases h2; exact ⟨h1, hi⟩
  · rintro ⟨h1, h2⟩; exact ⟨p, h2, h1, rfl⟩

theorem ifaces_fold_children (idx : Index) (name : JStr) (ifaces : List JStr) (c p : JStr) :
    c ∈ nexts (ifaces.foldl (fun idx i => addEdge idx name i) idx).children p ↔
      c ∈ nexts idx.children p ∨ (c = name ∧ p ∈ ifaces) := by
  have hf := foldl_accum (fun idx i => addEdge idx name i) (fun i (x : JStr × JStr) => x.1 ∈ nexts i.children x.2)
    (fun i x => x.1 = name ∧ x.2 = i) (by intro b a x; exact addEdge_children b name a x.1 x.2) ifaces idx (c, p)
  rw [hf]
  apply or_congr Iff.rfl
  constructor
  · rintro ⟨i, hi, h1, h2⟩
    cases h2; exact ⟨h1, hi⟩
  · rintro ⟨h1, h2⟩; exact ⟨p, h2, h1, rfl⟩

theorem headerOf_parents (idx : Index) (cd : ClassDesc) (c p : JStr) :
    p ∈ nexts (headerOf idx cd).parents c ↔ p ∈ nexts idx.parents c ∨ (c = cd.name ∧ directSupers cd p) := by
  unfold headerOf
  simp only
  rw [ifaces_fold_parents]
  unfold directSupers
  cases hs : cd.super with
  | none =>
    show p ∈ nexts idx.parents c ∨ _ ↔ _
    constructor
    · rintro (h | ⟨h1, h2⟩)
      · exact Or.inl h
      · exact Or.inr ⟨h1, Or.inr h2⟩
    · rintro (h | ⟨h1, h2 | h2⟩)
      · exact Or.inl h
      · exact absurd h2.1 (by simp)
      · exact Or.inr ⟨h1, h2⟩
  | some s =>
    by_cases hj : s = JLO
    · have hb : (s != JLO) = false := by simp [hj]
      simp only [hb]
      show p ∈ nexts idx.parents c ∨ _ ↔ _
      constructor
      · rintro (h | ⟨h1, h2⟩)
        · exact Or.inl h
        · exact Or.inr ⟨h1, Or.inr h2⟩
      · rintro (h | ⟨h1, h2 | h2⟩)
        · exact Or.inl h
        · have : s = p := by simpa using h2.1
          exact absurd (this ▸ hj) h2.2
        · exact Or.inr ⟨h1, h2⟩
    · have hb : (s != JLO) = true := by simpa using hj
      simp only [hb, if_true]
      rw [addEdge_parents]
      show (p ∈ nexts idx.parents c ∨ _) ∨ _ ↔ _
      constructor
      · rintro ((h | ⟨h1, h2⟩) | ⟨h1, h2⟩)
        · exact Or.inl h
        · exact Or.inr ⟨h1, Or.inl ⟨by rw [h2], by rw [h2]; exact hj⟩⟩
        · exact Or.inr ⟨h1, Or.inr h2⟩
      · rintro (h | ⟨h1, h2 | h2⟩)
        · exact Or.inl (Or.inl h)
        · have : s = p := by simpa using h2.1
          exact Or.inl (Or.inr ⟨h1, this.symm⟩)
        · exact Or.inr ⟨h1, h2⟩

theorem headerOf_children (idx : Index) (cd : ClassDesc) (c p : JStr) :
    c ∈ nexts (headerOf idx cd).children p ↔ c ∈ nexts idx.children p ∨ (c = cd.name ∧ directSupers cd p) := by
  unfold headerOf
  simp only
  rw [ifaces_fold_children]
  unfold directSupers
  cases hs : cd.super with
  | none =>
    show c ∈ nexts idx.children p ∨ _ ↔ _
    constructor
    · rintro (h | ⟨h1, h2⟩)
      · exact Or.inl h
      · exact Or.inr ⟨h1, Or.inr h2⟩
    · rintro (h | ⟨h1, h2 | h2⟩)
      · exact Or.inl h
      · exact absurd h2.1 (by simp)
      · exact Or.inr ⟨h1, h2⟩
  | some s =>
    by_cases hj : s = JLO
    · have hb : (s != JLO) = false := by simp [hj]
      simp only [hb]
      show c ∈ nexts idx.children p ∨ _ ↔ _
      constructor
      · rintro (h | ⟨h1, h2⟩)
        · exact Or.inl h
        · exact Or.inr ⟨h1, Or.inr h2⟩
      · rintro (h | ⟨h1, h2 | h2⟩)
        · exact Or.inl h
        · have : s = p := by simpa using h2.1
          exact absurd (this ▸ hj) h2.2
        · exact Or.inr ⟨h1, h2⟩
    · have hb : (s != JLO) = true := by simpa using hj
      simp only [hb, if_true]
      rw [addEdge_children]
      show (c ∈ nexts idx.children p ∨ _) ∨ _ ↔ _
      constructor
      · rintro ((h | ⟨h1, h2⟩) | ⟨h1, h2⟩)
        · exact Or.inl h
        · exact Or.inr ⟨h1, Or.inl ⟨by rw [h2], by rw [h2]; exact hj⟩⟩
        · exact Or.inr ⟨h1, Or.inr h2⟩
      · rintro (h | ⟨h1, h2 | h2⟩)
        · exact Or.inl (Or.inl h)
        · have : s = p := by simpa using h2.1
          exact Or.inl (Or.inr ⟨h1, this.symm⟩)
        · exact Or.inr ⟨h1, h2⟩

theorem ofJar_parents (jar : JarDesc) (c p : JStr) :
    p ∈ nexts (ofJar jar).parents c ↔ ∃ cd, cd ∈ jar ∧ cd.name = c ∧ directSupers cd p := by
  unfold ofJar
  have := foldl_accum visitClass (fun i (x : JStr × JStr) => x.2 ∈ nexts i.parents x.1)
    (fun cd x => x.1 = cd.name ∧ directSupers cd x.2)
    (by
      intro b a x
      rw [visitClass_eq, foldl_preserve (visitMethod a.name) Index.parents (fun b m => visitMethod_parents a.name b m)]
      exact headerOf_parents b a x.1 x.2) jar Index.empty (c, p)
  simp only [Index.empty, nexts, AList.lookup, Option.getD_none, List.not_mem_nil, false_or] at this
  rw [show nexts (List.foldl visitClass Index.empty jar).parents c = ((AList.lookup c (List.foldl visitClass Index.empty jar).parents).getD []) from rfl]
  rw [show Index.empty = ({ classes := [], methods := [], refs := [], parents := [], children := [] } : Index) from rfl]
  rw [this]
  constructor
  · rintro ⟨cd, h1, h2, h3⟩; exact ⟨cd, h1, h2.symm, h3⟩
  · rintro ⟨cd, h1, h2, h3⟩; exact ⟨cd, h1, h2.symm, h3⟩

theorem ofJar_children (jar : JarDesc) (c p : JStr) :
    c ∈ nexts (ofJar jar).children p ↔ ∃ cd, cd ∈ jar ∧ cd.name = c ∧ directSupers cd p := by
  unfold ofJar
  have := foldl_accum visitClass (fun i (x : JStr × JStr) => x.1 ∈ nexts i.children x.2)
    (fun cd x => x.1 = cd.name ∧ directSupers cd x.2)
    (by
      intro b a x
      rw [visitClass_eq, foldl_preserve (visitMethod a.name) Index.children (fun b m => visitMethod_children a.name b m)]
      exact headerOf_children b a x.1 x.2) jar Index.empty (c, p)
  simp only [Index.empty, nexts, AList.lookup, Option.getD_none, List.not_mem_nil, false_or] at this
  rw [show nexts (List.foldl visitClass Index.empty jar).children p = ((AList.lookup p (List.foldl visitClass Index.empty jar).children).getD []) from rfl]
  rw [show Index.empty = ({ classes := [], methods := [], refs := [], parents := [], children := [] } : Index) from rfl]
  rw [this]
  constructor
  · rintro ⟨cd, h1, h2, h3⟩; exact ⟨cd, h1, h2.symm, h3⟩
  · rintro ⟨cd, h1, h2, h3⟩; exact ⟨cd, h1, h2.symm, h3⟩

end Bridge
