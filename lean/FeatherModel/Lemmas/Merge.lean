import FeatherModel.Lemmas.MergeZip

/-! Node-level and path-level facts about `Model/Merge.lean`: what a successful merge of one node consists of, how the
entries of the result relate to the entries of the inputs (`Joined`), failure = conflict. Helper lemmas for `Thm/C09.lean`. -/

namespace Merge
open AList
variable {K V W α β : Type}

/-! ### leaves -/

theorem mergeNames_spec {c : Comb Names} {r : Names} (h : mergeNames c = some r) :
    r = joinRow c.left c.right ∧ (∀ x, c.left = some x → projRow 0 1 r = x) ∧
      (∀ y, c.right = some y → projRow 0 2 r = y) := by
  cases c with
  | a n =>
    rcases n with _ | ⟨a0, _ | ⟨a1, _ | ⟨a2, t⟩⟩⟩ <;> simp [mergeNames, mkNames] at h
    obtain ⟨_, rfl⟩ := h
    simp [joinRow, col, projRow, Comb.left, Comb.right]
  | b n =>
    rcases n with _ | ⟨a0, _ | ⟨a1, _ | ⟨a2, t⟩⟩⟩ <;> simp [mergeNames, mkNames] at h
    obtain ⟨_, rfl⟩ := h
    simp [joinRow, col, projRow, Comb.left, Comb.right]
  | ab n n' =>
    rcases n with _ | ⟨a0, _ | ⟨a1, _ | ⟨a2, t⟩⟩⟩ <;>
      rcases n' with _ | ⟨b0, _ | ⟨b1, _ | ⟨b2, t'⟩⟩⟩ <;> simp [mergeNames, mkNames] at h
    obtain ⟨rfl, _, rfl⟩ := h
    simp [joinRow, col, projRow, Comb.left, Comb.right]

theorem mergeNames_none_iff {c : Comb Names} (hs : Comb.All ShapeNames c) :
    mergeNames c = none ↔ combBad srcConflict c = true := by
  cases c with
  | a n =>
    obtain ⟨hl, he⟩ := hs
    rcases n with _ | ⟨a0, _ | ⟨a1, _ | ⟨a2, t⟩⟩⟩ <;> simp at hl
    simp at he
    simp [mergeNames, mkNames, namesOk, combBad, Ne.symm he.1, Ne.symm he.2]
  | b n =>
    obtain ⟨hl, he⟩ := hs
    rcases n with _ | ⟨a0, _ | ⟨a1, _ | ⟨a2, t⟩⟩⟩ <;> simp at hl
    simp at he
    simp [mergeNames, mkNames, namesOk, combBad, Ne.symm he.1, Ne.symm he.2]
  | ab n n' =>
    obtain ⟨⟨hl, he⟩, ⟨hl', he'⟩⟩ := hs
    rcases n with _ | ⟨a0, _ | ⟨a1, _ | ⟨a2, t⟩⟩⟩ <;> simp at hl
    rcases n' with _ | ⟨b0, _ | ⟨b1, _ | ⟨b2, t'⟩⟩⟩ <;> simp at hl'
    simp at he he'
    simp [mergeNames, mkNames, namesOk, combBad, srcConflict, Ne.symm he.1, Ne.symm he.2, Ne.symm he'.2]

theorem mergeDoc_spec {c : Comb (Option JStr)} {d : Option JStr} (h : mergeDoc c = some d) :
    d = joinDoc c.left.join c.right.join ∧ (∀ x, c.left = some (some x) → d = some x) ∧
      (∀ y, c.right = some (some y) → d = some y) := by
  cases c with
  | a x => simp [mergeDoc] at h; subst h; cases x <;> simp [joinDoc, Comb.left, Comb.right]
  | b y => simp [mergeDoc] at h; subst h; cases y <;> simp [joinDoc, Comb.left, Comb.right]
  | ab x y =>
    cases x <;> cases y <;> simp [mergeDoc] at h
    · subst h; simp [joinDoc, Comb.left, Comb.right]
    · subst h; simp [joinDoc, Comb.left, Comb.right]
    · subst h; simp [joinDoc, Comb.left, Comb.right]
    · obtain ⟨rfl, rfl⟩ := h; simp [joinDoc, Comb.left, Comb.right]

theorem mergeDoc_none_iff {c : Comb (Option JStr)} : mergeDoc c = none ↔ combBad docConflict c = true := by
  cases c with
  | a x => simp [mergeDoc, combBad]
  | b y => simp [mergeDoc, combBad]
  | ab x y => cases x <;> cases y <;> simp [mergeDoc, combBad, docConflict]

theorem mergeEq_spec [BEq α] [LawfulBEq α] {c : Comb α} {v : α} (h : mergeEq c = some v) :
    (∀ x, c.left = some x → v = x) ∧ (∀ y, c.right = some y → v = y) := by
  cases c with
  | a x => simp [mergeEq] at h; subst h; simp [Comb.left, Comb.right]
  | b y => simp [mergeEq] at h; subst h; simp [Comb.left, Comb.right]
  | ab x y =>
    simp [mergeEq] at h
    obtain ⟨rfl, rfl⟩ := h
    simp [Comb.left, Comb.right]

theorem mergeEq_none_iff [BEq α] [LawfulBEq α] {c : Comb α} :
    mergeEq c = none ↔ combBad (fun x y => x != y) c = true := by
  cases c <;> simp [mergeEq, combBad]


/-! ### nodes: what a successful merge of one node consists of -/

theorem mergeParam_inv {c : Comb Param} {r : Param} (h : mergeParam c = some r) :
    mergeEq (c.map (·.index)) = some r.index ∧ mergeNames (c.map (·.names)) = some r.names ∧
      mergeDoc (c.map (·.doc)) = some r.doc := by
  unfold mergeParam at h
  split at h
  · simp only [Option.some.injEq] at h; subst h; simp [*]
  · simp at h

theorem mergeField_inv {c : Comb Field} {r : Field} (h : mergeField c = some r) :
    mergeEq (c.map (·.desc)) = some r.desc ∧ mergeNames (c.map (·.names)) = some r.names ∧
      mergeDoc (c.map (·.doc)) = some r.doc := by
  unfold mergeField at h
  split at h
  · simp only [Option.some.injEq] at h; subst h; simp [*]
  · simp at h

theorem mergeMethod_inv {c : Comb Method} {r : Method} (h : mergeMethod c = some r) :
    mergeEq (c.map (·.desc)) = some r.desc ∧ mergeNames (c.map (·.names)) = some r.names ∧
      zipComb (c.map (·.params)) mergeParam = some r.params ∧ mergeDoc (c.map (·.doc)) = some r.doc := by
  unfold mergeMethod at h
  split at h
  · simp only [Option.some.injEq] at h; subst h; simp [*]
  · simp at h

theorem mergeClass_inv {c : Comb Class} {r : Class} (h : mergeClass c = some r) :
    mergeNames (c.map (·.names)) = some r.names ∧ zipComb (c.map (·.fields)) mergeField = some r.fields ∧
      zipComb (c.map (·.methods)) mergeMethod = some r.methods ∧ mergeDoc (c.map (·.doc)) = some r.doc := by
  unfold mergeClass at h
  split at h
  · simp only [Option.some.injEq] at h; subst h; simp [*]
  · simp at h

theorem merge_inv {A B R : Mappings} (h : merge A B = some R) :
    mergeNamespaces A.ns B.ns = some R.ns ∧ zipMap A.classes B.classes mergeClass = some R.classes ∧
      mergeDoc (.ab A.doc B.doc) = some R.doc := by
  unfold merge at h
  split at h
  · simp only [Option.some.injEq] at h; subst h; simp [*]
  · simp at h

theorem mergeNamespaces_spec {a b r : List JStr} (h : mergeNamespaces a b = some r) :
    ∃ s x y, a = [s, x] ∧ b = [s, y] ∧ r = [s, x, y] := by
  unfold mergeNamespaces at h
  split at h
  · rename_i a0 a1 b0 b1
    split at h
    · simp at h
    · split at h
      · simp at h
      · rename_i hne _
        simp only [Option.some.injEq] at h
        have : a0 = b0 := by simpa using hne
        subst this
        exact ⟨a0, a1, b1, rfl, rfl, h.symm⟩
  · simp at h

/-! ### entries by path -/

/-- `or` is the merge (by `f`) of what the two sides have at some path: absent when both are, present otherwise -/
def Joined (f : Comb α → Option β) (oa ob : Option α) (or : Option β) : Prop :=
  (∀ c, combOf oa ob = some c → ∃ r, f c = some r ∧ or = some r) ∧ (combOf oa ob = none → or = none)

theorem Joined.inv {f : Comb α → Option β} {oa ob : Option α} {or : Option β} (hj : Joined f oa ob or)
    {r : β} (hr : or = some r) : ∃ c, c.left = oa ∧ c.right = ob ∧ f c = some r := by
  cases hc : combOf oa ob with
  | none => rw [hj.2 hc] at hr; simp at hr
  | some c =>
    obtain ⟨r', hf, hr'⟩ := hj.1 c hc
    rw [hr'] at hr
    simp only [Option.some.injEq] at hr
    subst hr
    obtain ⟨h1, h2⟩ := combOf_left_right hc
    exact ⟨c, h1, h2, hf⟩

theorem Joined.isSome_iff {f : Comb α → Option β} {oa ob : Option α} {or : Option β} (hj : Joined f oa ob or) :
    or.isSome = true ↔ oa.isSome = true ∨ ob.isSome = true := by
  cases hc : combOf oa ob with
  | none =>
    rw [hj.2 hc]
    obtain ⟨h1, h2⟩ := combOf_eq_none.mp hc
    simp [h1, h2]
  | some c =>
    obtain ⟨r, _, hr⟩ := hj.1 c hc
    rw [hr]
    cases oa <;> cases ob <;> simp [combOf] at hc ⊢

theorem Joined.child [BEq K] [LawfulBEq K] {X XR Y YR : Type}
    {fX : Comb X → Option XR} {fY : Comb Y → Option YR} {g : X → AList K Y} {gR : XR → AList K YR}
    (hz : ∀ c r, fX c = some r → zipComb (c.map g) fY = some (gR r))
    {oa ob : Option X} {or : Option XR} (hj : Joined fX oa ob or) (k : K) :
    Joined fY (oa.bind (fun x => lookup k (g x))) (ob.bind (fun x => lookup k (g x)))
      (or.bind (fun x => lookup k (gR x))) := by
  cases hc : combOf oa ob with
  | none =>
    obtain ⟨h1, h2⟩ := combOf_eq_none.mp hc
    rw [hj.2 hc, h1, h2]
    exact ⟨fun c h => by simp [combOf] at h, fun _ => rfl⟩
  | some c =>
    obtain ⟨r, hf, hr⟩ := hj.1 c hc
    have hz' := hz c r hf
    have hat := combAt_map hc g k
    rw [hr]
    simp only [Option.bind_some]
    constructor
    · intro c' hc'
      rw [← hat] at hc'
      exact zipComb_some_of hz' hc'
    · intro hn
      rw [← hat] at hn
      rw [zipComb_lookup hz' k, hn]
      rfl

theorem merge_cls {A B R : Mappings} (h : merge A B = some R) (kc : JStr) :
    Joined mergeClass (cls A kc) (cls B kc) (cls R kc) := by
  obtain ⟨_, hz, _⟩ := merge_inv h
  have hz' : zipComb (.ab A.classes B.classes) mergeClass = some R.classes := hz
  constructor
  · intro c hc
    exact zipComb_some_of hz' (k := kc) hc
  · intro hn
    show lookup kc R.classes = none
    rw [zipComb_lookup hz' kc]
    show (combOf (cls A kc) (cls B kc)).bind mergeClass = none
    rw [hn]; rfl

theorem merge_fld {A B R : Mappings} (h : merge A B = some R) (kc : JStr) (kf : MemberKey) :
    Joined mergeField (fld A kc kf) (fld B kc kf) (fld R kc kf) :=
  Joined.child (g := (·.fields)) (gR := (·.fields)) (fun _ _ hc => (mergeClass_inv hc).2.1) (merge_cls h kc) kf

theorem merge_mth {A B R : Mappings} (h : merge A B = some R) (kc : JStr) (km : MemberKey) :
    Joined mergeMethod (mth A kc km) (mth B kc km) (mth R kc km) :=
  Joined.child (g := (·.methods)) (gR := (·.methods)) (fun _ _ hc => (mergeClass_inv hc).2.2.1) (merge_cls h kc) km

theorem merge_prm {A B R : Mappings} (h : merge A B = some R) (kc : JStr) (km : MemberKey) (kp : Nat) :
    Joined mergeParam (prm A kc km kp) (prm B kc km kp) (prm R kc km kp) :=
  Joined.child (g := (·.params)) (gR := (·.params)) (fun _ _ hc => (mergeMethod_inv hc).2.2.1) (merge_mth h kc km) kp


/-! ### failure = conflict -/

theorem Comb.All_map {P : β → Prop} {g : α → β} {c : Comb α} (h : Comb.All (fun x => P (g x)) c) :
    Comb.All P (c.map g) := by
  cases c <;> exact h

theorem Comb.All.imp {P Q : α → Prop} (h : ∀ x, P x → Q x) {c : Comb α} (hc : Comb.All P c) : Comb.All Q c := by
  cases c with
  | a x => exact h x hc
  | b y => exact h y hc
  | ab x y => exact ⟨h x hc.1, h y hc.2⟩

theorem mergeParam_none_iff {c : Comb Param} (hs : Comb.All (fun p => ShapeNames p.names) c) :
    mergeParam c = none ↔ combBad paramConflict c = true := by
  have e1 := mergeEq_none_iff (c := c.map (·.index))
  have e2 := mergeNames_none_iff (c := c.map (·.names)) (Comb.All_map hs)
  have e3 := mergeDoc_none_iff (c := c.map (·.doc))
  have : combBad paramConflict c = (combBad (fun x y => x != y) (c.map (·.index)) ||
      combBad srcConflict (c.map (·.names)) || combBad docConflict (c.map (·.doc))) := by
    cases c <;> simp [combBad, Comb.map, paramConflict]
  rw [this]
  simp only [Bool.or_eq_true, ← e1, ← e2, ← e3]
  unfold mergeParam
  cases mergeEq (c.map (·.index)) <;> cases mergeNames (c.map (·.names)) <;>
    cases mergeDoc (c.map (·.doc)) <;> simp

theorem mergeField_none_iff {c : Comb Field} (hs : Comb.All (fun p => ShapeNames p.names) c) :
    mergeField c = none ↔ combBad fieldConflict c = true := by
  have e1 := mergeEq_none_iff (c := c.map (·.desc))
  have e2 := mergeNames_none_iff (c := c.map (·.names)) (Comb.All_map hs)
  have e3 := mergeDoc_none_iff (c := c.map (·.doc))
  have : combBad fieldConflict c = (combBad (fun x y => x != y) (c.map (·.desc)) ||
      combBad srcConflict (c.map (·.names)) || combBad docConflict (c.map (·.doc))) := by
    cases c <;> simp [combBad, Comb.map, fieldConflict]
  rw [this]
  simp only [Bool.or_eq_true, ← e1, ← e2, ← e3]
  unfold mergeField
  cases mergeEq (c.map (·.desc)) <;> cases mergeNames (c.map (·.names)) <;>
    cases mergeDoc (c.map (·.doc)) <;> simp

theorem mergeMethod_none_iff {c : Comb Method} (hs : Comb.All ShapeMethod c) :
    mergeMethod c = none ↔ combBad methodConflict c = true := by
  have e1 := mergeEq_none_iff (c := c.map (·.desc))
  have e2 := mergeNames_none_iff (c := c.map (·.names)) (Comb.All_map (hs.imp (fun _ h => h.1)))
  have e3 := zipComb_none_iff (f := mergeParam) (conf := paramConflict) (P := fun p => ShapeNames p.names)
    (fun c hc => mergeParam_none_iff hc) (ab := c.map (·.params))
    (Comb.All_map (hs.imp (fun _ h => ⟨h.2.1, h.2.2⟩)))
  have e4 := mergeDoc_none_iff (c := c.map (·.doc))
  have : combBad methodConflict c = (combBad (fun x y => x != y) (c.map (·.desc)) ||
      combBad srcConflict (c.map (·.names)) ||
      combBad (fun m n => anyShared m n paramConflict) (c.map (·.params)) ||
      combBad docConflict (c.map (·.doc))) := by
    cases c <;> simp [combBad, Comb.map, methodConflict]
  rw [this]
  simp only [Bool.or_eq_true, ← e1, ← e2, ← e3, ← e4]
  unfold mergeMethod
  cases mergeEq (c.map (·.desc)) <;> cases mergeNames (c.map (·.names)) <;>
    cases zipComb (c.map (·.params)) mergeParam <;> cases mergeDoc (c.map (·.doc)) <;> simp

theorem mergeClass_none_iff {c : Comb Class} (hs : Comb.All ShapeClass c) :
    mergeClass c = none ↔ combBad classConflict c = true := by
  have e1 := mergeNames_none_iff (c := c.map (·.names)) (Comb.All_map (hs.imp (fun _ h => h.1)))
  have e2 := zipComb_none_iff (f := mergeField) (conf := fieldConflict) (P := fun p => ShapeNames p.names)
    (fun c hc => mergeField_none_iff hc) (ab := c.map (·.fields))
    (Comb.All_map (hs.imp (fun _ h => ⟨h.2.1, h.2.2.1⟩)))
  have e3 := zipComb_none_iff (f := mergeMethod) (conf := methodConflict) (P := ShapeMethod)
    (fun c hc => mergeMethod_none_iff hc) (ab := c.map (·.methods))
    (Comb.All_map (hs.imp (fun _ h => ⟨h.2.2.2.1, h.2.2.2.2⟩)))
  have e4 := mergeDoc_none_iff (c := c.map (·.doc))
  have : combBad classConflict c = (combBad srcConflict (c.map (·.names)) ||
      combBad (fun m n => anyShared m n fieldConflict) (c.map (·.fields)) ||
      combBad (fun m n => anyShared m n methodConflict) (c.map (·.methods)) ||
      combBad docConflict (c.map (·.doc))) := by
    cases c <;> simp [combBad, Comb.map, classConflict]
  rw [this]
  simp only [Bool.or_eq_true, ← e1, ← e2, ← e3, ← e4]
  unfold mergeClass
  cases mergeNames (c.map (·.names)) <;> cases zipComb (c.map (·.fields)) mergeField <;>
    cases zipComb (c.map (·.methods)) mergeMethod <;> cases mergeDoc (c.map (·.doc)) <;> simp

theorem mergeNamespaces_none_iff {a b : List JStr} (ha : a.length = 2 ∧ [] ∉ a) (hb : b.length = 2 ∧ [] ∉ b) :
    mergeNamespaces a b = none ↔ (a[0]? != b[0]?) = true := by
  obtain ⟨hl, he⟩ := ha
  obtain ⟨hl', he'⟩ := hb
  rcases a with _ | ⟨a0, _ | ⟨a1, _ | ⟨a2, t⟩⟩⟩ <;> simp at hl
  rcases b with _ | ⟨b0, _ | ⟨b1, _ | ⟨b2, t'⟩⟩⟩ <;> simp at hl'
  simp at he he'
  simp [mergeNamespaces, he.1, he.2, he'.2]

theorem merge_none_iff {A B : Mappings} (hA : Shape A) (hB : Shape B) :
    merge A B = none ↔ conflict A B = true := by
  have e1 := mergeNamespaces_none_iff ⟨hA.1, hA.2.1⟩ ⟨hB.1, hB.2.1⟩
  have e2 := zipComb_none_iff (f := mergeClass) (conf := classConflict) (P := ShapeClass)
    (fun c hc => mergeClass_none_iff hc) (ab := .ab A.classes B.classes)
    ⟨⟨hA.2.2.1, hA.2.2.2⟩, ⟨hB.2.2.1, hB.2.2.2⟩⟩
  have e3 := mergeDoc_none_iff (c := .ab A.doc B.doc)
  simp only [zipComb, combBad] at e2 e3
  unfold conflict
  simp only [Bool.or_eq_true, ← e1, ← e2, ← e3]
  unfold merge
  cases mergeNamespaces A.ns B.ns <;> cases zipMap A.classes B.classes mergeClass <;>
    cases mergeDoc (.ab A.doc B.doc) <;> simp


/-! ### sides of a merged node -/

theorem names_left {c : Comb α} {g : α → Names} {r : Names} (h : mergeNames (c.map g) = some r)
    {a : α} (ha : c.left = some a) : projRow 0 1 r = g a :=
  (mergeNames_spec h).2.1 _ (by rw [Comb.left_map, ha]; rfl)

theorem names_right {c : Comb α} {g : α → Names} {r : Names} (h : mergeNames (c.map g) = some r)
    {b : α} (hb : c.right = some b) : projRow 0 2 r = g b :=
  (mergeNames_spec h).2.2 _ (by rw [Comb.right_map, hb]; rfl)

theorem names_join {c : Comb α} {g : α → Names} {r : Names} (h : mergeNames (c.map g) = some r) :
    r = joinRow (c.left.map g) (c.right.map g) := by
  have := (mergeNames_spec h).1
  rwa [Comb.left_map, Comb.right_map] at this

theorem doc_left {c : Comb α} {g : α → Option JStr} {d : Option JStr} (h : mergeDoc (c.map g) = some d)
    {a : α} (ha : c.left = some a) {x : JStr} (hx : g a = some x) : d = some x :=
  (mergeDoc_spec h).2.1 x (by rw [Comb.left_map, ha, ← hx]; rfl)

theorem doc_right {c : Comb α} {g : α → Option JStr} {d : Option JStr} (h : mergeDoc (c.map g) = some d)
    {b : α} (hb : c.right = some b) {y : JStr} (hy : g b = some y) : d = some y :=
  (mergeDoc_spec h).2.2 y (by rw [Comb.right_map, hb, ← hy]; rfl)

theorem doc_join {c : Comb α} {g : α → Option JStr} {d : Option JStr} (h : mergeDoc (c.map g) = some d) :
    d = joinDoc (c.left.bind g) (c.right.bind g) := by
  have := (mergeDoc_spec h).1
  rw [Comb.left_map, Comb.right_map] at this
  rw [this]
  cases c.left <;> cases c.right <;> rfl

theorem eq_left [BEq β] [LawfulBEq β] {c : Comb α} {g : α → β} {v : β} (h : mergeEq (c.map g) = some v)
    {a : α} (ha : c.left = some a) : v = g a :=
  (mergeEq_spec h).1 _ (by rw [Comb.left_map, ha]; rfl)

theorem eq_right [BEq β] [LawfulBEq β] {c : Comb α} {g : α → β} {v : β} (h : mergeEq (c.map g) = some v)
    {b : α} (hb : c.right = some b) : v = g b :=
  (mergeEq_spec h).2 _ (by rw [Comb.right_map, hb]; rfl)

theorem Joined.of_left {f : Comb α → Option β} {oa ob : Option α} {or : Option β} (hj : Joined f oa ob or)
    {a : α} (ha : oa = some a) : ∃ c r, c.left = some a ∧ c.right = ob ∧ f c = some r ∧ or = some r := by
  subst ha
  cases hc : combOf (some a) ob with
  | none => cases ob <;> simp [combOf] at hc
  | some c =>
    obtain ⟨r, hf, hr⟩ := hj.1 c hc
    obtain ⟨h1, h2⟩ := combOf_left_right hc
    exact ⟨c, r, h1, h2, hf, hr⟩

theorem Joined.of_right {f : Comb α → Option β} {oa ob : Option α} {or : Option β} (hj : Joined f oa ob or)
    {b : α} (hb : ob = some b) : ∃ c r, c.left = oa ∧ c.right = some b ∧ f c = some r ∧ or = some r := by
  subst hb
  cases hc : combOf oa (some b) with
  | none => cases oa <;> simp [combOf] at hc
  | some c =>
    obtain ⟨r, hf, hr⟩ := hj.1 c hc
    obtain ⟨h1, h2⟩ := combOf_left_right hc
    exact ⟨c, r, h1, h2, hf, hr⟩

/-! ### projection -/

theorem lookup_mapVals [BEq K] (g : V → W) (m : AList K V) (k : K) :
    lookup k (mapVals g m) = (lookup k m).map g := by
  induction m with
  | nil => rfl
  | cons e rest ih =>
    obtain ⟨k0, v0⟩ := e
    simp only [mapVals, List.map_cons, lookup] at ih ⊢
    by_cases hk : (k0 == k) = true
    · simp [hk]
    · simp only [hk]; exact ih

theorem cls_project (i j : Nat) (R : Mappings) (kc : JStr) :
    cls (project i j R) kc = (cls R kc).map (projClass i j) := lookup_mapVals _ _ _

theorem fld_project (i j : Nat) (R : Mappings) (kc : JStr) (kf : MemberKey) :
    fld (project i j R) kc kf = (fld R kc kf).map (projField i j) := by
  unfold fld
  rw [cls_project]
  cases cls R kc with
  | none => rfl
  | some c => exact lookup_mapVals _ _ _

theorem mth_project (i j : Nat) (R : Mappings) (kc : JStr) (km : MemberKey) :
    mth (project i j R) kc km = (mth R kc km).map (projMethod i j) := by
  unfold mth
  rw [cls_project]
  cases cls R kc with
  | none => rfl
  | some c => exact lookup_mapVals _ _ _

theorem prm_project (i j : Nat) (R : Mappings) (kc : JStr) (km : MemberKey) (kp : Nat) :
    prm (project i j R) kc km kp = (prm R kc km kp).map (projParam i j) := by
  unfold prm
  rw [mth_project]
  cases mth R kc km with
  | none => rfl
  | some c => exact lookup_mapVals _ _ _

/-! ### paths -/

theorem fld_some {M : Mappings} {kc : JStr} {kf : MemberKey} {x : Field} (h : fld M kc kf = some x) :
    ∃ c, cls M kc = some c ∧ lookup kf c.fields = some x := by
  unfold fld at h
  cases hc : cls M kc with
  | none => rw [hc] at h; simp at h
  | some c => rw [hc] at h; exact ⟨c, rfl, h⟩

theorem mth_some {M : Mappings} {kc : JStr} {km : MemberKey} {x : Method} (h : mth M kc km = some x) :
    ∃ c, cls M kc = some c ∧ lookup km c.methods = some x := by
  unfold mth at h
  cases hc : cls M kc with
  | none => rw [hc] at h; simp at h
  | some c => rw [hc] at h; exact ⟨c, rfl, h⟩

theorem prm_some {M : Mappings} {kc : JStr} {km : MemberKey} {kp : Nat} {x : Param} (h : prm M kc km kp = some x) :
    ∃ c m, cls M kc = some c ∧ lookup km c.methods = some m ∧ lookup kp m.params = some x := by
  unfold prm at h
  cases hm : mth M kc km with
  | none => rw [hm] at h; simp at h
  | some m =>
    rw [hm] at h
    obtain ⟨c, hc, hl⟩ := mth_some hm
    exact ⟨c, m, hc, hl, h⟩

theorem fld_of {M : Mappings} {kc : JStr} {kf : MemberKey} {c : Class} {x : Field}
    (hc : cls M kc = some c) (hx : lookup kf c.fields = some x) : fld M kc kf = some x := by
  simp [fld, hc, hx]

theorem mth_of {M : Mappings} {kc : JStr} {km : MemberKey} {c : Class} {x : Method}
    (hc : cls M kc = some c) (hx : lookup km c.methods = some x) : mth M kc km = some x := by
  simp [mth, hc, hx]

theorem prm_of {M : Mappings} {kc : JStr} {km : MemberKey} {kp : Nat} {c : Class} {m : Method} {x : Param}
    (hc : cls M kc = some c) (hm : lookup km c.methods = some m) (hx : lookup kp m.params = some x) :
    prm M kc km kp = some x := by
  simp [prm, mth_of hc hm, hx]

/-- between key-consistent inputs of the right shape the executable conflict predicate reduces to `Conflict` -/
theorem conflict_imp_Conflict {A B : Mappings} (hA : Shape A) (kA : KeysConsistent A) (kB : KeysConsistent B)
    (h : conflict A B = true) : Conflict A B := by
  unfold conflict at h
  simp only [Bool.or_eq_true] at h
  rcases h with (h | h) | h
  · left; simpa using h
  · obtain ⟨kc, a, b, ha, hb, hc⟩ := (anyShared_iff hA.2.2.1).mp h
    have hma := lookup_mem ha
    have hmb := lookup_mem hb
    obtain ⟨hsa, hfa, hmea⟩ := kA _ hma
    obtain ⟨hsb, hfb, hmeb⟩ := kB _ hmb
    have hSa := hA.2.2.2 _ hma
    unfold classConflict at hc
    simp only [Bool.or_eq_true] at hc
    rcases hc with ((hc | hc) | hc) | hc
    · simp at hsa hsb
      simp [srcConflict, hsa, hsb] at hc
    · obtain ⟨kf, x, y, hx, hy, hxy⟩ := (anyShared_iff hSa.2.1).mp hc
      obtain ⟨h1, h2⟩ := hfa _ (lookup_mem hx)
      obtain ⟨h3, h4⟩ := hfb _ (lookup_mem hy)
      unfold fieldConflict at hxy
      simp only [Bool.or_eq_true] at hxy
      rcases hxy with (hxy | hxy) | hxy
      · simp at h2 h4; simp [h2, h4] at hxy
      · simp at h1 h3; simp [srcConflict, h1, h3] at hxy
      · right; right; right; left
        exact ⟨kc, kf, x, y, fld_of ha hx, fld_of hb hy, hxy⟩
    · obtain ⟨km, x, y, hx, hy, hxy⟩ := (anyShared_iff hSa.2.2.2.1).mp hc
      obtain ⟨h1, h2, hpa⟩ := hmea _ (lookup_mem hx)
      obtain ⟨h3, h4, hpb⟩ := hmeb _ (lookup_mem hy)
      have hSx := hSa.2.2.2.2 _ (lookup_mem hx)
      unfold methodConflict at hxy
      simp only [Bool.or_eq_true] at hxy
      rcases hxy with ((hxy | hxy) | hxy) | hxy
      · simp at h2 h4; simp [h2, h4] at hxy
      · simp at h1 h3; simp [srcConflict, h1, h3] at hxy
      · obtain ⟨kp, p, q, hp, hq, hpq⟩ := (anyShared_iff hSx.2.1).mp hxy
        have h5 := hpa _ (lookup_mem hp)
        have h6 := hpb _ (lookup_mem hq)
        unfold paramConflict at hpq
        simp only [Bool.or_eq_true] at hpq
        have hpA : prm A kc km kp = some p := prm_of ha hx hp
        have hpB : prm B kc km kp = some q := prm_of hb hy hq
        rcases hpq with (hpq | hpq) | hpq
        · simp at h5 h6; simp [h5, h6] at hpq
        · right; right; right; right; right
          exact ⟨kc, km, kp, p, q, hpA, hpB, Or.inl (by simpa [srcConflict] using hpq)⟩
        · right; right; right; right; right
          exact ⟨kc, km, kp, p, q, hpA, hpB, Or.inr hpq⟩
      · right; right; right; right; left
        exact ⟨kc, km, x, y, mth_of ha hx, mth_of hb hy, hxy⟩
    · right; right; left
      exact ⟨kc, a, b, ha, hb, hc⟩
  · right; left; exact h

end Merge
