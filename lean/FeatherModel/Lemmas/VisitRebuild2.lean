import FeatherModel.Lemmas.VisitRebuild
import FeatherModel.Lemmas.VisitAccept

/-!
# C17 lemmas — replaying a tree into the tree builder reproduces it (objects and the whole class)
-/

set_option linter.unusedSimpArgs false

namespace Visit

theorem run_nil (st : BSt) : run st [] = some st := rfl

theorem run_cons (st : BSt) (e : Ev) (es : List Ev) :
    run st (e :: es) = (step st e).bind (fun st' => run st' es) := by
  simp [run, List.foldlM_cons, bind]

theorem run_append (st : BSt) (a b : List Ev) : run st (a ++ b) = (run st a).bind (fun st' => run st' b) := by
  simp [run, List.foldlM_append, bind]

/-! ## attribute events reach the slots of the open object only -/

theorem run_cls_items : ∀ (items : List Item) (st : BSt) (c : ClassTree), st.cls = some c →
    run st (items.map (toEv Ev.cAttr)) =
      (addItems classOrder c.slots items).map (fun s' => { st with cls := some { c with slots := s' } }) := by
  intro items
  induction items with
  | nil => intro st c hc; cases st; simp at hc; subst hc; simp [run_nil, addItems_nil]
  | cons it its ih =>
    intro st c hc
    simp only [List.map_cons, run_cons, addItems_cons, toEv, step, hc]
    cases hadd : c.slots.add classOrder it.1 it.2.1 it.2.2 with
    | none => simp [hadd, bind, Option.bind]
    | some s1 =>
      simp only [hadd, bind, Option.bind, pure]
      rw [ih { st with cls := some { c with slots := s1 } } { c with slots := s1 } rfl]

theorem run_rc_items (r : Nat) : ∀ (items : List Item) (st : BSt) (c : RecTree), st.rc = some c →
    run st (items.map (toEv (Ev.rAttr r))) =
      (addItems recOrder c.slots items).map (fun s' => { st with rc := some { c with slots := s' } }) := by
  intro items
  induction items with
  | nil => intro st c hc; cases st; simp at hc; subst hc; simp [run_nil, addItems_nil]
  | cons it its ih =>
    intro st c hc
    simp only [List.map_cons, run_cons, addItems_cons, toEv, step, hc]
    cases hadd : c.slots.add recOrder it.1 it.2.1 it.2.2 with
    | none => simp [hadd, bind, Option.bind]
    | some s1 =>
      simp only [hadd, bind, Option.bind, pure]
      rw [ih { st with rc := some { c with slots := s1 } } { c with slots := s1 } rfl]

theorem run_fld_items (i : Nat) : ∀ (items : List Item) (st : BSt) (c : FieldTree), st.fld = some c →
    run st (items.map (toEv (Ev.fAttr i))) =
      (addItems fieldOrder c.slots items).map (fun s' => { st with fld := some { c with slots := s' } }) := by
  intro items
  induction items with
  | nil => intro st c hc; cases st; simp at hc; subst hc; simp [run_nil, addItems_nil]
  | cons it its ih =>
    intro st c hc
    simp only [List.map_cons, run_cons, addItems_cons, toEv, step, hc]
    cases hadd : c.slots.add fieldOrder it.1 it.2.1 it.2.2 with
    | none => simp [hadd, bind, Option.bind]
    | some s1 =>
      simp only [hadd, bind, Option.bind, pure]
      rw [ih { st with fld := some { c with slots := s1 } } { c with slots := s1 } rfl]

theorem run_mth_items (i : Nat) : ∀ (items : List Item) (st : BSt) (c : MethodTree), st.mth = some c →
    run st (items.map (toEv (Ev.mAttr i))) =
      (addItems methodOrder c.slots items).map (fun s' => { st with mth := some { c with slots := s' } }) := by
  intro items
  induction items with
  | nil => intro st c hc; cases st; simp at hc; subst hc; simp [run_nil, addItems_nil]
  | cons it its ih =>
    intro st c hc
    simp only [List.map_cons, run_cons, addItems_cons, toEv, step, hc]
    cases hadd : c.slots.add methodOrder it.1 it.2.1 it.2.2 with
    | none => simp [hadd, bind, Option.bind]
    | some s1 =>
      simp only [hadd, bind, Option.bind, pure]
      rw [ih { st with mth := some { c with slots := s1 } } { c with slots := s1 } rfl]

theorem run_code_items (i : Nat) : ∀ (items : List Item) (st : BSt) (c : CodeTree), st.code = some c →
    run st (items.map (toEv (Ev.kAttr i))) =
      (addItems codeOrder c.slots items).map (fun s' => { st with code := some { c with slots := s' } }) := by
  intro items
  induction items with
  | nil => intro st c hc; cases st; simp at hc; subst hc; simp [run_nil, addItems_nil]
  | cons it its ih =>
    intro st c hc
    simp only [List.map_cons, run_cons, addItems_cons, toEv, step, hc]
    cases hadd : c.slots.add codeOrder it.1 it.2.1 it.2.2 with
    | none => simp [hadd, bind, Option.bind]
    | some s1 =>
      simp only [hadd, bind, Option.bind, pure]
      rw [ih { st with code := some { c with slots := s1 } } { c with slots := s1 } rfl]

/-! ## record components, fields -/

theorem emit_all (ord : List K) (mk : Bool → K → Pay → Ev) (s : Slots) :
    emitKinds allMask ord mk s ++ emitUnknown allMask mk s = (kindItems allMask ord s ++ unkItems allMask s).map (toEv mk) := by
  simp [emitKinds, emitUnknown]

theorem run_acceptRec (st : BSt) (c : ClassTree) (r : Nat) (t : RecTree) (hc : st.cls = some c)
    (hs : t.slots.ShapedFor recOrder) :
    run st (acceptRec full r t) = some { st with cls := some { c with recs := c.recs ++ [t] }, rc := none } := by
  have hacc : acceptRec full r t = Ev.recBegin r t.h ::
      ((emitKinds allMask recOrder (Ev.rAttr r) t.slots ++ emitUnknown allMask (Ev.rAttr r) t.slots) ++ [Ev.recEnd r]) := by
    simp [acceptRec, full]
  rw [hacc, run_cons]
  simp only [step, Option.bind]
  rw [run_append, emit_all, run_rc_items r _ _ { h := t.h } rfl, addItems_rebuild recOrder_nodup hs]
  simp only [Option.map, Option.bind, run_cons, step, hc, bind, pure, run_nil]

theorem run_acceptRecs : ∀ (ts : List RecTree) (st : BSt) (c : ClassTree) (r : Nat), st.cls = some c →
    st.rc = none → (∀ t ∈ ts, t.slots.ShapedFor recOrder) →
    run st (acceptRecs full r ts) = some { st with cls := some { c with recs := c.recs ++ ts } } := by
  intro ts
  induction ts with
  | nil => intro st c r hc _ _; cases st; simp at hc; subst hc; simp [acceptRecs, run_nil]
  | cons t ts ih =>
    intro st c r hc hrc hs
    simp only [acceptRecs, run_append]
    rw [run_acceptRec st c r t hc (hs t (by simp))]
    simp only [Option.bind]
    rw [ih _ { c with recs := c.recs ++ [t] } (r + 1) rfl rfl (fun t' h' => hs t' (by simp [h']))]
    cases st; simp at hrc; subst hrc; simp

theorem run_acceptField (st : BSt) (c : ClassTree) (i : Nat) (t : FieldTree) (hc : st.cls = some c)
    (hs : t.slots.ShapedFor fieldOrder) :
    run st (acceptField full i t) = some { st with cls := some { c with fields := c.fields ++ [t] }, fld := none } := by
  have hacc : acceptField full i t = Ev.fieldBegin i t.h :: Ev.fieldFlags i t.dep t.syn ::
      ((emitKinds allMask fieldOrder (Ev.fAttr i) t.slots ++ emitUnknown allMask (Ev.fAttr i) t.slots) ++ [Ev.fieldEnd i]) := by
    simp [acceptField, full]
  rw [hacc, run_cons]
  simp only [step, Option.bind]
  rw [run_cons]
  simp only [step, Option.bind, bind, pure]
  rw [run_append, emit_all, run_fld_items i _ _ { h := t.h, dep := t.dep, syn := t.syn } rfl,
    addItems_rebuild fieldOrder_nodup hs]
  simp only [Option.map, Option.bind, run_cons, step, hc, bind, pure, run_nil]

theorem run_acceptFields : ∀ (ts : List FieldTree) (st : BSt) (c : ClassTree) (i : Nat), st.cls = some c →
    st.fld = none → (∀ t ∈ ts, t.slots.ShapedFor fieldOrder) →
    run st (acceptFields full i ts) = some { st with cls := some { c with fields := c.fields ++ ts } } := by
  intro ts
  induction ts with
  | nil => intro st c i hc _ _; cases st; simp at hc; subst hc; simp [acceptFields, run_nil]
  | cons t ts ih =>
    intro st c i hc hf hs
    simp only [acceptFields, run_append]
    rw [run_acceptField st c i t hc (hs t (by simp))]
    simp only [Option.bind]
    rw [ih _ { c with fields := c.fields ++ [t] } (i + 1) rfl rfl (fun t' h' => hs t' (by simp [h']))]
    cases st; simp at hf; subst hf; simp

/-! ## code, methods -/

theorem run_insns (i : Nat) : ∀ (l : List (Option Pay × Nat)) (st : BSt) (k : CodeTree), st.code = some k →
    run st (l.map (fun x => Ev.codeInsns i x.1 x.2)) = some { st with code := some { k with insns := k.insns ++ l } } := by
  intro l
  induction l with
  | nil => intro st k hk; cases st; simp at hk; subst hk; simp [run_nil]
  | cons x l ih =>
    intro st k hk
    simp only [List.map_cons, run_cons, step, hk, bind, Option.bind, pure]
    rw [ih _ { k with insns := k.insns ++ [x] } rfl]
    simp

theorem run_maxs (i : Nat) (maxs : Option Nat) (st : BSt) (k : CodeTree) (hk : st.code = some k) (h0 : k.maxs = none) :
    run st (match maxs with | some h => [Ev.codeMaxs i h] | none => []) = some { st with code := some { k with maxs := maxs } } := by
  cases maxs with
  | none => cases st; cases k; simp at hk h0; subst hk; subst h0; simp [run_nil]
  | some h => simp [run_cons, run_nil, step, hk, bind, Option.bind, pure]

theorem run_lines (i : Nat) (lines : Option (List Pay)) (st : BSt) (k : CodeTree) (hk : st.code = some k)
    (h0 : k.lines = none) :
    run st (match lines with | some p => [Ev.codeLines i p] | none => []) = some { st with code := some { k with lines := lines } } := by
  cases lines with
  | none => cases st; cases k; simp at hk h0; subst hk; subst h0; simp [run_nil]
  | some h => simp [run_cons, run_nil, step, hk, h0, bind, Option.bind, pure]

theorem run_locals (i : Nat) (locals : Option (List LvPart)) (st : BSt) (k : CodeTree) (hk : st.code = some k)
    (h0 : k.locals = none) :
    run st (match locals with | some p => [Ev.codeLocals i p] | none => []) = some { st with code := some { k with locals := locals } } := by
  cases locals with
  | none => cases st; cases k; simp at hk h0; subst hk; subst h0; simp [run_nil]
  | some h => simp [run_cons, run_nil, step, hk, h0, bind, Option.bind, pure]

theorem run_acceptCode (st : BSt) (m : MethodTree) (i : Nat) (t : CodeTree) (hm : st.mth = some m)
    (hmc : m.code = none) (hs : t.Shaped) :
    run st (acceptCode i { mask := allMask, code := true, codeV := some allMask } t)
      = some { st with mth := some { m with code := some t }, code := none } := by
  have e0 : acceptCode i { mask := allMask, code := true, codeV := some allMask } t = Ev.codeBegin i ::
      ((match t.maxs with | some h => [Ev.codeMaxs i h] | none => []) ++
       (t.insns.map (fun x => Ev.codeInsns i x.1 x.2) ++ (Ev.codeExc i t.exc ::
       ((match t.lines with | some p => [Ev.codeLines i p] | none => []) ++
       ((match t.locals with | some p => [Ev.codeLocals i p] | none => []) ++
       ((emitKinds allMask codeOrder (Ev.kAttr i) t.slots ++ emitUnknown allMask (Ev.kAttr i) t.slots) ++
        [Ev.codeEnd i])))))) := by
    unfold acceptCode
    simp only [allMask, if_true, Bool.or_self]
    cases t.maxs <;> cases t.lines <;> cases t.locals <;> simp [acceptLocals_all]
  rw [e0, run_cons]
  simp only [step, Option.bind]
  rw [run_append, run_maxs i t.maxs _ {} rfl rfl]
  simp only [Option.bind]
  rw [run_append, run_insns i t.insns _ _ rfl]
  simp only [Option.bind, run_cons, step, bind, pure, List.nil_append]
  rw [run_append, run_lines i t.lines _ _ rfl rfl]
  simp only [Option.bind]
  rw [run_append, run_locals i t.locals _ _ rfl rfl]
  simp only [Option.bind]
  rw [run_append, emit_all, run_code_items i _ _ _ rfl]
  simp only []
  rw [addItems_rebuild codeOrder_nodup hs]
  simp only [Option.map, Option.bind, run_cons, step, hm, hmc, bind, pure, run_nil, Option.isSome_none,
    Bool.false_eq_true, if_false]

theorem run_acceptMethod (st : BSt) (c : ClassTree) (i : Nat) (t : MethodTree) (hc : st.cls = some c)
    (hs : t.Shaped) :
    run st (acceptMethod full i t)
      = some { st with cls := some { c with methods := c.methods ++ [t] }, mth := none,
                       code := if t.code.isSome then none else st.code } := by
  have e0 : acceptMethod full i t = Ev.methodBegin i t.h :: Ev.methodFlags i t.dep t.syn ::
      ((match t.code with
          | some k => acceptCode i { mask := allMask, code := true, codeV := some allMask } k | none => []) ++
       ((emitKinds allMask methodOrder (Ev.mAttr i) t.slots ++ emitUnknown allMask (Ev.mAttr i) t.slots) ++
        [Ev.methodEnd i])) := by
    cases hcode : t.code <;> simp [acceptMethod, full, hcode]
  rw [e0, run_cons]
  simp only [step, Option.bind]
  rw [run_cons]
  simp only [step, Option.bind, bind, pure]
  rw [run_append]
  obtain ⟨th, tdep, tsyn, tslots, tcode⟩ := t
  cases tcode with
  | none =>
    simp only [run_nil, Option.bind]
    rw [run_append, emit_all, run_mth_items i _ _ _ rfl]
    simp only []
    rw [addItems_rebuild methodOrder_nodup hs.1]
    simp only [Option.map, Option.bind, run_cons, step, hc, bind, pure, run_nil, Option.isSome_none,
      Bool.false_eq_true, if_false]
  | some k =>
    simp only []
    rw [run_acceptCode _ { h := th, dep := tdep, syn := tsyn } i k rfl rfl (hs.2 k rfl)]
    simp only [Option.bind]
    rw [run_append, emit_all, run_mth_items i _ _ _ rfl]
    simp only []
    rw [addItems_rebuild methodOrder_nodup hs.1]
    simp only [Option.map, Option.bind, run_cons, step, hc, bind, pure, run_nil, Option.isSome_some, if_true]

theorem run_acceptMethods : ∀ (ts : List MethodTree) (st : BSt) (c : ClassTree) (i : Nat), st.cls = some c →
    st.mth = none → st.code = none → (∀ t ∈ ts, t.Shaped) →
    run st (acceptMethods full i ts) = some { st with cls := some { c with methods := c.methods ++ ts } } := by
  intro ts
  induction ts with
  | nil => intro st c i hc _ _ _; cases st; simp at hc; subst hc; simp [acceptMethods, run_nil]
  | cons t ts ih =>
    intro st c i hc hm hk hs
    simp only [acceptMethods, run_append]
    rw [run_acceptMethod st c i t hc (hs t (by simp))]
    simp only [Option.bind]
    rw [ih _ { c with methods := c.methods ++ [t] } (i + 1) rfl rfl (by simp [hk]) (fun t' h' => hs t' (by simp [h']))]
    cases st; simp at hm hk; subst hm; subst hk; simp

/-! ## the class -/

/-- **replaying a shaped tree into the tree builder reproduces it** -/
theorem build_accept (t : ClassTree) (hs : t.Shaped) : build (accept full t) = some t := by
  obtain ⟨h1, h2, h3, h4⟩ := hs
  have e0 : accept full t = Ev.classBegin t.h :: Ev.classFlags t.dep t.syn ::
      (emitKinds allMask classOrder Ev.cAttr t.slots ++ (acceptRecs full 0 t.recs ++ (emitUnknown allMask Ev.cAttr t.slots
      ++ (acceptFields full 0 t.fields ++ (acceptMethods full 0 t.methods ++ [Ev.classEnd]))))) := by
    simp [accept, full, allMask]
  unfold build
  rw [e0, run_cons]
  simp only [step, Option.isSome_none, Bool.false_eq_true, if_false, Option.bind]
  rw [run_cons]
  simp only [step, Option.bind, bind, pure]
  -- known attributes of the class
  have ek : emitKinds allMask classOrder Ev.cAttr t.slots = (kindItems allMask classOrder t.slots).map (toEv Ev.cAttr) := rfl
  have eu : emitUnknown allMask Ev.cAttr t.slots = (unkItems allMask t.slots).map (toEv Ev.cAttr) := rfl
  rw [run_append, ek, run_cls_items _ _ _ rfl]
  simp only []
  rw [addItems_kinds classOrder {} classOrder_nodup (fun _ h => h) (fun _ _ => ⟨rfl, rfl⟩)
    (fun k _ => ⟨fun hm => h1.1 k (Or.inr hm), fun hm => h1.2 k (Or.inr hm)⟩)]
  simp only [Option.map, Option.bind]
  -- record components
  rw [run_append, run_acceptRecs t.recs _ _ 0 rfl rfl h2]
  simp only [Option.bind]
  -- unknown attributes
  rw [run_append, eu, run_cls_items _ _ _ rfl]
  simp only [unkItems, allMask, if_true]
  rw [addItems_unknown]
  simp only [Option.map, Option.bind]
  -- fields, methods
  rw [run_append, run_acceptFields t.fields _ _ 0 rfl rfl h3]
  simp only [Option.bind]
  rw [run_append, run_acceptMethods t.methods _ _ 0 rfl rfl rfl h4]
  simp only [Option.bind, run_cons, step, run_nil, if_true, List.nil_append]
  congr 1
  obtain ⟨th, tdep, tsyn, tslots, trecs, tfields, tmethods⟩ := t
  simp only [ClassTree.mk.injEq, true_and]
  refine ⟨?_, trivial⟩
  apply Slots.ext'
  · funext k
    by_cases hk : k ∈ classOrder
    · simp [hk]
    · have := h1.1 k (Or.inl hk)
      simp only at this
      simp [hk, this]
  · funext k
    by_cases hk : k ∈ classOrder
    · simp [hk]
    · have := h1.2 k (Or.inl hk)
      simp only at this
      simp [hk, this]
  · simp

end Visit
