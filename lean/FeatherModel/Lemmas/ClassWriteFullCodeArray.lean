import FeatherModel.Lemmas.ClassWriteFullCodeInsn
import FeatherModel.Lemmas.ClassReadLayout

/-!
# C02 (whole writer) — the code array of a method of at most 32767 bytes is `Spec.encInsns` of the writer's layout

A syntactic bound on the size of the code (`maxSize`, the longest form of every instruction) of at most 32767 bytes
means: every offset fits 16 bits, the first attempt of `write_code` succeeds, no jump is widened and no conditional
branch is turned into an inverted-condition trampoline.  Then the code array is the specification's encoding of
`sinsnOf` of every instruction, and the position of instruction `k` is `codePos` of that layout.
-/

namespace ClassWriteFull
open ClassRead ClassRead.Spec
open CodeWrite (encInsn resolveAt LabelsOk offs fitsI16 Unwritten Chunks chunkBytes chunkUnw lblUpTo St)
open FrameReadBack (posOf)

/-- the longest encoding `write_code` has for an instruction (`wide` forms, `goto_w`, trampoline, 3 padding bytes) -/
def maxSize : CodeWrite.Insn → Nat
  | .simple _ => 1
  | .bipush _ => 2
  | .sipush _ => 3
  | .ldc _ _ => 3
  | .load _ _ => 4
  | .store _ _ => 4
  | .iinc _ _ => 6
  | .ret _ => 4
  | .ifc _ _ => 8
  | .goto _ => 5
  | .jsr _ => 5
  | .tableswitch _ _ _ tb => 16 + 4 * tb.length
  | .lookupswitch _ ps => 12 + 8 * ps.length
  | .cp _ _ => 3
  | .invokeinterface _ _ => 5
  | .newarray _ => 2
  | .multianewarray _ _ => 4
  | .invokedynamic _ => 5

theorem padLen_le (p : Nat) : CodeWrite.padLen p ≤ 3 := by unfold CodeWrite.padLen; omega

/-- a chunk is at most `maxSize` long, and the jumps it leaves open are computed from an opcode inside the chunk -/
theorem encInsn_bounds {isWide : Bool} {lbl : Nat → Option Nat} {p k : Nat} {i : CodeWrite.Insn}
    {r : Bytes × List Unwritten} (h : encInsn isWide lbl p k i = .ok r) :
    r.1.length ≤ maxSize i ∧ ∀ u ∈ r.2, u.opcodePos ≤ p + r.1.length := by
  cases i with
  | ifc c t =>
    simp only [encInsn, CodeWrite.encIf] at h
    split at h
    · split at h
      · cases h; simp [maxSize, CodeWrite.i16b, CodeWrite.u16b]
      · split at h
        · cases h
        · cases h; simp [maxSize, CodeWrite.i16b, CodeWrite.u16b, CodeWrite.i32b, CodeWrite.u32b]
    · split at h
      · split at h
        · cases h
        · cases h; simp [maxSize, CodeWrite.i16b, CodeWrite.u16b, CodeWrite.i32b, CodeWrite.u32b]
      · cases h; simp [maxSize, CodeWrite.i16b, CodeWrite.u16b]
  | goto t =>
    simp only [encInsn, CodeWrite.encGoto] at h
    split at h
    · split at h <;> (cases h; simp [maxSize, CodeWrite.i16b, CodeWrite.u16b, CodeWrite.i32b, CodeWrite.u32b])
    · split at h <;> (cases h; simp [maxSize, CodeWrite.i16b, CodeWrite.u16b, CodeWrite.i32b, CodeWrite.u32b])
  | jsr t =>
    simp only [encInsn, CodeWrite.encGoto] at h
    split at h
    · split at h <;> (cases h; simp [maxSize, CodeWrite.i16b, CodeWrite.u16b, CodeWrite.i32b, CodeWrite.u32b])
    · split at h <;> (cases h; simp [maxSize, CodeWrite.i16b, CodeWrite.u16b, CodeWrite.i32b, CodeWrite.u32b])
  | tableswitch d lo hi tb =>
    simp only [encInsn, CodeWrite.encTableSwitch] at h
    split at h
    · cases h
    · split at h
      · cases h
      · split at h
        · cases h
        · cases h
          have hp := padLen_le p
          refine ⟨by simp [maxSize, CodeWrite.swLabel_len, CodeWrite.swTable_len, CodeWrite.i32b, CodeWrite.u32b]; omega, ?_⟩
          intro u hu
          have hop : u.opcodePos = p := by
            rcases List.mem_append.mp hu with hu | hu
            · unfold CodeWrite.swLabel at hu
              split at hu
              · simp at hu
              · simp at hu; subst hu; rfl
            · exact swTable_opcodePos lbl p k tb _ u hu
          omega
  | lookupswitch d ps =>
    simp only [encInsn, CodeWrite.encLookupSwitch] at h
    split at h
    · cases h
    · cases h
      have hp := padLen_le p
      refine ⟨by simp [maxSize, CodeWrite.swLabel_len, CodeWrite.swPairs_len, CodeWrite.i32b, CodeWrite.u32b]; omega, ?_⟩
      intro u hu
      have hop : u.opcodePos = p := by
        rcases List.mem_append.mp hu with hu | hu
        · unfold CodeWrite.swLabel at hu
          split at hu
          · simp at hu
          · simp at hu; subst hu; rfl
        · exact swPairs_opcodePos lbl p k ps _ u hu
      omega
  | invokeinterface idx desc =>
    simp only [encInsn] at h
    split at h
    · cases h
    · cases h; simp [maxSize, CodeWrite.u16b]
  | ldc idx two =>
    simp only [encInsn] at h; cases h
    simp only [CodeWrite.encLdc, maxSize]
    refine ⟨?_, by simp⟩
    split
    · simp [CodeWrite.u16b]
    · split <;> simp [CodeWrite.u16b]
  | load kind idx =>
    simp only [encInsn] at h; cases h
    simp only [CodeWrite.encLocal, maxSize]
    refine ⟨?_, by simp⟩
    split
    · simp
    · split <;> simp [CodeWrite.u16b]
  | store kind idx =>
    simp only [encInsn] at h; cases h
    simp only [CodeWrite.encLocal, maxSize]
    refine ⟨?_, by simp⟩
    split
    · simp
    · split <;> simp [CodeWrite.u16b]
  | iinc idx v =>
    simp only [encInsn] at h; cases h
    simp only [CodeWrite.encIinc, maxSize]
    refine ⟨?_, by simp⟩
    split <;> simp [CodeWrite.u16b, CodeWrite.i16b]
  | ret idx =>
    simp only [encInsn] at h; cases h
    simp only [CodeWrite.encRet, maxSize]
    refine ⟨?_, by simp⟩
    split <;> simp [CodeWrite.u16b]
  | simple op => simp only [encInsn] at h; cases h; simp [maxSize]
  | bipush v => simp only [encInsn] at h; cases h; simp [maxSize]
  | sipush v => simp only [encInsn] at h; cases h; simp [maxSize, CodeWrite.i16b, CodeWrite.u16b]
  | cp op idx => simp only [encInsn] at h; cases h; simp [maxSize, CodeWrite.u16b]
  | newarray a => simp only [encInsn] at h; cases h; simp [maxSize]
  | multianewarray idx d => simp only [encInsn] at h; cases h; simp [maxSize, CodeWrite.u16b]
  | invokedynamic idx => simp only [encInsn] at h; cases h; simp [maxSize, CodeWrite.u16b]
where
  swTable_opcodePos (lbl : Nat → Option Nat) (p k : Nat) : ∀ (ts : List Nat) (wp : Nat) (u : Unwritten),
      u ∈ (CodeWrite.swTable lbl p k wp ts).2 → u.opcodePos = p
    | [], _, u, hu => by simp [CodeWrite.swTable] at hu
    | t :: ts, wp, u, hu => by
      simp only [CodeWrite.swTable] at hu
      rcases List.mem_append.mp hu with hu | hu
      · unfold CodeWrite.swLabel at hu
        split at hu
        · simp at hu
        · simp at hu; subst hu; rfl
      · exact swTable_opcodePos lbl p k ts _ u hu
  swPairs_opcodePos (lbl : Nat → Option Nat) (p k : Nat) : ∀ (ps : List (Int × Nat)) (wp : Nat) (u : Unwritten),
      u ∈ (CodeWrite.swPairs lbl p k wp ps).2 → u.opcodePos = p
    | [], _, u, hu => by simp [CodeWrite.swPairs] at hu
    | kt :: ps, wp, u, hu => by
      simp only [CodeWrite.swPairs] at hu
      rcases List.mem_append.mp hu with hu | hu
      · unfold CodeWrite.swLabel at hu
        split at hu
        · simp at hu
        · simp at hu; subst hu; rfl
      · exact swPairs_opcodePos lbl p k ps _ u hu

/-- size of an attempt: the bytes of the chunks, the opcode positions of the open jumps, the recorded positions -/
theorem chunks_bounds {wide : List Nat} {pos : Array Nat} {k p : Nat} {is : List CodeWrite.Insn}
    {cs : List (Bytes × List Unwritten)} (hc : Chunks wide pos k p is cs) :
    (chunkBytes cs).length ≤ (is.map maxSize).sum ∧
    (∀ u ∈ chunkUnw cs, u.opcodePos ≤ p + (chunkBytes cs).length) ∧
    (∀ j x, k ≤ j → j < k + is.length → pos[j]? = some x → x ≤ p + (chunkBytes cs).length) := by
  induction hc with
  | nil k p => exact ⟨by simp [chunkBytes], by simp [chunkUnw], fun j x h1 h2 => by simp at h2; omega⟩
  | @cons k p i is r cs hp hk henc _ ih =>
    obtain ⟨h1, h2⟩ := encInsn_bounds henc
    obtain ⟨i1, i2, i3⟩ := ih
    have hb : (chunkBytes (r :: cs)).length = r.1.length + (chunkBytes cs).length := by simp [chunkBytes]
    refine ⟨by rw [hb]; simp only [List.map_cons, List.sum_cons]; omega, ?_, ?_⟩
    · intro u hu
      have : u ∈ r.2 ∨ u ∈ chunkUnw cs := by simpa [chunkUnw] using hu
      rcases this with hu | hu
      · have := h2 u hu; omega
      · have := i2 u hu; omega
    · intro j x hj1 hj2 hj
      by_cases hjk : j = k
      · subst hjk; rw [hk] at hj; cases hj; omega
      · have := i3 j x (by omega) (by simp at hj2; omega) hj
        omega

/-- the patch loop does not ask for a retry when every narrow open jump fits -/
theorem resolve_no_retry (lp : Nat → Option Nat) : ∀ (us : List Unwritten) (w : Array Nat) (idx : Nat),
    (∀ u ∈ us, ∀ tp, lp u.label = some tp → fitsI16 (offs u.opcodePos tp) = true) →
    CodeWrite.resolve lp us w ≠ .retry idx
  | [], w, idx, _ => by simp [CodeWrite.resolve]
  | u :: us, w, idx, h => by
    simp only [CodeWrite.resolve]
    split
    · simp
    · rename_i tp htp
      split
      · exact resolve_no_retry lp us _ idx (fun u' hu' => h u' (List.mem_cons_of_mem _ hu'))
      · rw [h u List.mem_cons_self tp htp]
        simp only [if_true]
        exact resolve_no_retry lp us _ idx (fun u' hu' => h u' (List.mem_cons_of_mem _ hu'))

theorem fits_of_le {a b : Nat} (ha : a ≤ 32767) (hb : b ≤ 32767) : fitsI16 (offs a b) = true := by
  rw [CodeWrite.fitsI16_iff]
  unfold offs
  omega

/-- **no widened jump**: with the syntactic size bound the first attempt is the successful one -/
theorem writeCode_first (is : List CodeWrite.Insn) (hb : (is.map maxSize).sum ≤ 32767) (res : CodeWrite.Result)
    (h : CodeWrite.writeCode is = .ok res) :
    ∃ (s : St) (w' : Array Nat) (cs : List (Bytes × List Unwritten)),
      Chunks [] s.pos 0 0 is cs ∧ s.w.toList = chunkBytes cs ∧ s.pos.size = is.length ∧
      resolveAt 0 (CodeWrite.labelPos s.pos s.w.size) (chunkUnw cs) (chunkBytes cs) = some w'.toList ∧
      w'.size = s.w.size ∧ w'.size ≠ 0 ∧ s.w.size ≤ 32767 ∧ res = ⟨w'.toList, s.pos, []⟩ := by
  unfold CodeWrite.writeCode CodeWrite.write at h
  cases hs : CodeWrite.pass [] is St.init with
  | error e => rw [hs] at h; cases e <;> simp at h
  | ok s =>
    rw [hs] at h
    simp only [] at h
    obtain ⟨cs, hc, hw, hu, hsz, _⟩ := CodeWrite.pass_chunks [] is St.init s hs
    simp only [St.init, List.size_toArray, List.length_nil, Nat.zero_add, List.nil_append,
      List.toList_toArray] at hc hw hu hsz
    obtain ⟨b1, b2, b3⟩ := chunks_bounds hc
    have hlen : s.w.size = (chunkBytes cs).length := by rw [← hw]; simp
    have hsmall : s.w.size ≤ 32767 := by omega
    cases hres : CodeWrite.resolve (CodeWrite.labelPos s.pos s.w.size) s.unw.toList s.w with
    | fail => rw [hres] at h; simp at h
    | retry idx =>
      exfalso
      refine resolve_no_retry _ _ _ idx ?_ hres
      intro u hu' tp htp
      rw [hu] at hu'
      have h1 := b2 u hu'
      have h2 : tp ≤ s.w.size := by
        unfold CodeWrite.labelPos at htp
        split at htp
        · rename_i x hx
          cases htp
          have hlt : u.label < s.pos.size := (Array.getElem?_eq_some_iff.mp hx).1
          have := b3 u.label _ (Nat.zero_le _) (by omega) hx
          omega
        · split at htp
          · cases htp; exact Nat.mod_le _ _
          · cases htp
      exact fits_of_le (by omega) (by omega)
    | done w =>
      rw [hres] at h
      simp only [] at h
      split at h
      · cases h
      · rename_i hsz'
        cases h
        have hd := CodeWrite.resolve_done _ _ _ _ hres
        rw [hu, hw] at hd
        have hl : w.toList.length = (chunkBytes cs).length := CodeWrite.resolveAt_length _ _ _ _ _ hd
        exact ⟨s, w, cs, hc, hw, hsz, hd, by simp at hl; omega, by omega, hsmall, rfl⟩

/-! ## chunks → `encInsns` -/

/-- `is` is what `putInsns` made of the tree instructions `rcs` (with the pool index each one got) -/
inductive CwAll : List (ClassRead.Insn × Nat) → List CodeWrite.Insn → Prop
  | nil : CwAll [] []
  | cons {ri : ClassRead.Insn} {cp : Nat} {i : CodeWrite.Insn} {rcs : List (ClassRead.Insn × Nat)} {is : List CodeWrite.Insn} :
      cw cp ri = some i → CwAll rcs is → CwAll ((ri, cp) :: rcs) (i :: is)

theorem CwAll.length {rcs : List (ClassRead.Insn × Nat)} {is : List CodeWrite.Insn} (h : CwAll rcs is) :
    rcs.length = is.length := by
  induction h with
  | nil => rfl
  | cons _ _ ih => simp [ih]

/-- the layout of the instructions -/
def sinsnsOf (rcs : List (ClassRead.Insn × Nat)) : List SInsn := rcs.map (fun x => sinsnOf x.2 x.1)

/-- patching the open jumps of all chunks finalises each chunk to the specification's encoding of its instruction;
the recorded positions are the running sums of the encoded sizes -/
theorem chunks_enc {pos : Array Nat} {lp : Nat → Option Nat}
    (hsub : ∀ t x, pos[t]? = some x → lp t = some x) (hbound : ∀ t x, lp t = some x → x ≤ 32767)
    {k p : Nat} {is : List CodeWrite.Insn} {cs : List (Bytes × List Unwritten)} (hc : Chunks [] pos k p is cs) :
    ∀ (rcs : List (ClassRead.Insn × Nat)), CwAll rcs is → ∀ (X c : Bytes), X.length = p →
      p + (chunkBytes cs).length ≤ 32767 →
      resolveAt 0 lp (chunkUnw cs) (X ++ chunkBytes cs) = some c →
      c = X ++ encInsns (posOf lp) (sinsnsOf rcs) p ∧ endPos (sinsnsOf rcs) p = p + (chunkBytes cs).length ∧
        ∀ j, j < rcs.length → pos[k + j]? = some (endPos ((sinsnsOf rcs).take j) p) := by
  induction hc with
  | nil k p =>
    intro rcs hcw X c _ _ h
    cases hcw
    simp only [chunkUnw, chunkBytes, List.map_nil, List.flatten_nil, List.append_nil, CodeWrite.resolveAt_nil,
      Option.some.injEq] at h
    exact ⟨by simp [sinsnsOf, encInsns, h], by simp [sinsnsOf, endPos, chunkBytes], fun j hj => by simp at hj⟩
  | @cons k p i is r cs hp hk henc _ ih =>
    intro rcs hcw X c hx hsm h
    cases hcw with
    | @cons ri cp _ rcs' _ hcw1 hcwr =>
    have hu : chunkUnw (r :: cs) = r.2 ++ chunkUnw cs := by simp [chunkUnw]
    have hb : X ++ chunkBytes (r :: cs) = X ++ r.1 ++ chunkBytes cs := by simp [chunkBytes]
    have hbl : (chunkBytes (r :: cs)).length = r.1.length + (chunkBytes cs).length := by simp [chunkBytes]
    rw [hu, hb, CodeWrite.resolveAt_append] at h
    have hw : CodeWrite.Within X.length (X.length + r.1.length) r.2 := by rw [hx]; exact CodeWrite.encInsn_within henc
    rw [CodeWrite.resolveAt_local lp X (chunkBytes cs) r.2 r.1 hw, hx] at h
    cases hf : resolveAt p lp r.2 r.1 with
    | none => simp [hf] at h
    | some fin =>
      simp only [hf, Option.map_some, Option.bind_some] at h
      have hfl := CodeWrite.resolveAt_length _ _ _ _ _ hf
      have hok : LabelsOk (lblUpTo pos k) lp := by
        refine ⟨fun t x ht => ?_, fun t x ht => by have := hbound t x ht; omega⟩
        unfold lblUpTo at ht
        split at ht
        · exact hsub t x ht
        · cases ht
      have hfit : ∀ t tp, lp t = some tp → fitsI16 (offs p tp) = true :=
        fun t tp ht => fits_of_le (by omega) (hbound t tp ht)
      have hfin : fin = (sinsnOf cp ri).encode (posOf lp) p := encInsn_sinsn hcw1 hok hfit henc hf
      have hsize : (sinsnOf cp ri).size p = r.1.length := by
        rw [← SInsn.encode_length (posOf lp) p, ← hfin, hfl]
      obtain ⟨hc1, hc2, hc3⟩ := ih rcs' hcwr (X ++ fin) c (by simp [hx, hfl]) (by rw [hbl] at hsm; omega) h
      refine ⟨?_, ?_, ?_⟩
      · rw [hc1]
        simp only [sinsnsOf, List.map_cons, encInsns, hsize, List.append_assoc, hfin]
      · simp only [sinsnsOf, List.map_cons, endPos, hsize]
        rw [hbl]
        simp only [sinsnsOf] at hc2
        rw [hc2]; omega
      · intro j hj
        cases j with
        | zero => simpa [endPos] using hk
        | succ j =>
          have := hc3 j (by simp at hj; omega)
          simp only [sinsnsOf, List.map_cons, List.take_succ_cons, endPos, hsize]
          rw [show k + (j + 1) = k + 1 + j by omega]
          exact this

/-- **the code array**: for a method within the size bound the written code is `encInsns` of the writer's layout, and
the label table is `codePos` of that layout (label `k` = instruction `k`, label `n` = `code_length`) -/
theorem writeCode_enc {rcs : List (ClassRead.Insn × Nat)} {is : List CodeWrite.Insn} (hcw : CwAll rcs is)
    (hb : (is.map maxSize).sum ≤ 32767) (res : CodeWrite.Result) (h : CodeWrite.writeCode is = .ok res) :
    res.code = encInsns (posOf res.label) (sinsnsOf rcs) 0 ∧
    (∀ j, j ≤ rcs.length → res.label j = some (codePos (sinsnsOf rcs) j)) ∧
    (∀ j, rcs.length < j → res.label j = none) ∧
    codePos (sinsnsOf rcs) rcs.length = res.code.length ∧ 0 < res.code.length ∧ res.code.length ≤ 32767 := by
  obtain ⟨s, w', cs, hc, hw, hsz, hd, hsize, hne, hsmall, rfl⟩ := writeCode_first is hb res h
  have hlen := hcw.length
  have hlab : (CodeWrite.Result.label ⟨w'.toList, s.pos, []⟩) = CodeWrite.labelPos s.pos s.w.size := by
    funext t
    simp only [CodeWrite.Result.label, Array.length_toList, hsize]
  obtain ⟨_, _, b3⟩ := chunks_bounds hc
  have hcl : s.w.size = (chunkBytes cs).length := by rw [← hw]; simp
  have hsub : ∀ t x, s.pos[t]? = some x → CodeWrite.labelPos s.pos s.w.size t = some x :=
    fun t x => CodeWrite.labelPos_sub _ _ _ _
  have hbound : ∀ t x, CodeWrite.labelPos s.pos s.w.size t = some x → x ≤ 32767 := by
    intro t x ht
    unfold CodeWrite.labelPos at ht
    split at ht
    · rename_i y hy
      cases ht
      have hlt : t < s.pos.size := (Array.getElem?_eq_some_iff.mp hy).1
      have := b3 t _ (Nat.zero_le _) (by omega) hy
      omega
    · split at ht
      · cases ht
        have := Nat.mod_le s.w.size 65536
        omega
      · cases ht
  obtain ⟨e1, e2, e3⟩ := chunks_enc hsub hbound hc rcs hcw [] w'.toList rfl (by omega) (by simpa using hd)
  simp only [List.nil_append, Nat.zero_add] at e1 e2 e3
  have hcp : codePos (sinsnsOf rcs) rcs.length = s.w.size := by
    have : (sinsnsOf rcs).take rcs.length = sinsnsOf rcs := by
      apply List.take_of_length_le; simp [sinsnsOf]
    rw [codePos, this, e2, hcl]
  refine ⟨by rw [hlab]; exact e1, ?_, ?_, ?_, ?_, ?_⟩
  · intro j hj
    rw [hlab]
    by_cases hjn : j = rcs.length
    · subst hjn
      have hnone : s.pos[rcs.length]? = none := by
        apply Array.getElem?_eq_none; omega
      have hm : s.w.size % 65536 = s.w.size := Nat.mod_eq_of_lt (by omega)
      simp only [CodeWrite.labelPos, hnone, hsz, ← hlen, if_true, hm, hcp]
    · rw [CodeWrite.labelPos_sub _ _ _ _ (e3 j (by omega))]
      rfl
  · intro j hj
    rw [hlab]
    have hnone : s.pos[j]? = none := by
      apply Array.getElem?_eq_none; omega
    have hne' : j ≠ s.pos.size := by omega
    simp [CodeWrite.labelPos, hnone, hne']
  · rw [hcp]; simp [hsize]
  · simp only [Array.length_toList]; omega
  · simp only [Array.length_toList]; omega

/-! ## the offsets depend on the positions of the targets only -/

theorem flatMap_congr' {α β : Type} {f g : α → List β} : ∀ (xs : List α), (∀ x ∈ xs, f x = g x) →
    xs.flatMap f = xs.flatMap g
  | [], _ => rfl
  | x :: xs, h => by
    rw [List.flatMap_cons, List.flatMap_cons, h x List.mem_cons_self,
      flatMap_congr' xs (fun y hy => h y (List.mem_cons_of_mem _ hy))]

theorem SInsn.encode_congr {pos pos' : Nat → Nat} (a : Nat) (si : SInsn)
    (h : ∀ t ∈ targetsOf si.insn, pos t = pos' t) : si.encode pos a = si.encode pos' a := by
  obtain ⟨insn, form, cp, pad⟩ := si
  cases insn with
  | branch op t =>
    have := h t (by simp [targetsOf])
    simp [SInsn.encode, relOff, this]
  | goto t =>
    have := h t (by simp [targetsOf])
    cases form <;> simp [SInsn.encode, relOff, this]
  | jsr t =>
    have := h t (by simp [targetsOf])
    cases form <;> simp [SInsn.encode, relOff, this]
  | tableswitch d lo hi tbl =>
    have hd := h d (by simp [targetsOf])
    have ht : tbl.flatMap (fun t => be32 (ofI32 (relOff pos a t))) = tbl.flatMap (fun t => be32 (ofI32 (relOff pos' a t))) := by
      apply flatMap_congr'
      intro t ht
      simp [relOff, h t (by simp [targetsOf, ht])]
    simp only [SInsn.encode, ht]
    simp [relOff, hd]
  | lookupswitch d pairs =>
    have hd := h d (by simp [targetsOf])
    have ht : pairs.flatMap (fun kt => be32 (ofI32 kt.1) ++ be32 (ofI32 (relOff pos a kt.2))) =
        pairs.flatMap (fun kt => be32 (ofI32 kt.1) ++ be32 (ofI32 (relOff pos' a kt.2))) := by
      apply flatMap_congr'
      intro kt hkt
      have : pos kt.2 = pos' kt.2 := h kt.2 (by
        simp only [targetsOf, List.mem_cons, List.mem_map]
        exact Or.inr ⟨kt, hkt, rfl⟩)
      simp [relOff, this]
    simp only [SInsn.encode, ht]
    simp [relOff, hd]
  | _ => cases form <;> rfl

theorem encInsns_congr {pos pos' : Nat → Nat} : ∀ (xs : List SInsn) (a : Nat),
    (∀ si ∈ xs, ∀ t ∈ targetsOf si.insn, pos t = pos' t) → encInsns pos xs a = encInsns pos' xs a
  | [], _, _ => rfl
  | x :: xs, a, h => by
    simp only [encInsns]
    rw [SInsn.encode_congr a x (h x List.mem_cons_self),
      encInsns_congr xs _ (fun si hsi => h si (List.mem_cons_of_mem _ hsi))]

end ClassWriteFull
