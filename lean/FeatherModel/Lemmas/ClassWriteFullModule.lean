import FeatherModel.Lemmas.ClassWriteFullClassAttrs

/-!
# C02 (whole writer) — `write_module`: the body of the `Module` attribute is the encoding of a legal `SModule` denoting
the module description
-/

namespace ClassWriteFull
open PoolWrite (Entry)
open FramePool (Good Le)
open ClassRead ClassRead.Spec

/-- conditions on a module description of the proved fragment that do not depend on the pool: flags within the masks
the tree can hold, valid class names where the reader validates them (`uses`, `provides … with …`; module and package
names are not validated by the reader) -/
structure ModuleOk (m : Module) : Prop where
  flags : m.flags < 65536 ∧ m.flags &&& maskModule = m.flags
  requires : ∀ r ∈ m.requires, r.flags < 65536 ∧ r.flags &&& maskRequires = r.flags
  exports : ∀ e ∈ m.exports, e.flags < 65536 ∧ e.flags &&& maskExports = e.flags
  opens : ∀ e ∈ m.opens, e.flags < 65536 ∧ e.flags &&& maskExports = e.flags
  uses : ∀ c ∈ m.uses, validClassName c = true
  provides : ∀ e ∈ m.provides, validClassName e.name = true ∧ ∀ c ∈ e.with_, validClassName c = true

/-! ## `requires` -/

def RequiresAt (p : Pool) (r : ModuleRequires) (l : SRequires) : Prop :=
  l.name = r.name ∧ l.flags = r.flags ∧ l.version = r.version ∧ l.cp < 65536 ∧ l.vcp < 65536 ∧ ModAt p l.cp r.name ∧
    ((r.version = none ∧ l.vcp = 0) ∨ ∃ v, r.version = some v ∧ Utf8At p l.vcp v ∧ 1 ≤ l.vcp)

theorem RequiresAt.mono {p q : Pool} (h : Le p q) {r : ModuleRequires} {l : SRequires} (a : RequiresAt p r l) :
    RequiresAt q r l := by
  obtain ⟨a1, a2, a3, a4, a5, a6, a7⟩ := a
  refine ⟨a1, a2, a3, a4, a5, a6.mono h, ?_⟩
  rcases a7 with a7 | ⟨v, hv, hu, h1⟩
  · exact Or.inl a7
  · exact Or.inr ⟨v, hv, hu.mono h, h1⟩

theorem writeRequires_spec {p p' : Pool} {r : ModuleRequires} {b : Bytes} (hg : Good p)
    (h : writeRequires p r = .ok (b, p')) : Step p p' ∧ ∃ l : SRequires, b = l.encode ∧ RequiresAt p' r l := by
  obtain ⟨⟨n, p1⟩, h1, h⟩ := bind_eq_ok.mp h
  obtain ⟨⟨v, p2⟩, h2, h⟩ := bind_eq_ok.mp h
  have := pure_eq_ok.mp h
  cases this
  obtain ⟨s1, a1, hn⟩ := putModule_spec hg h1
  obtain ⟨s2, hv, c2⟩ := putOptional_spec Utf8At (fun p p' a i hg h => putUtf8_spec' hg h) s1.good h2
  exact ⟨s1.trans s2, ⟨n, r.name, r.flags, v, r.version⟩, rfl, rfl, rfl, rfl, hn, hv, a1.mono s2.le, c2⟩

theorem requires_legal {q : Pool} (hq : Good q) {r : ModuleRequires} {l : SRequires} (a : RequiresAt q r l)
    (hok : r.flags < 65536) : l.Legal (rpool q) := by
  obtain ⟨a1, a2, a3, a4, a5, a6, a7⟩ := a
  refine ⟨a4, by rw [a2]; exact hok, a5, by rw [a1]; exact getModule_of hq a6, ?_⟩
  rcases a7 with ⟨h0, hz⟩ | ⟨v, hv, hu, h1⟩
  · rw [hz, a3, h0]; exact getOptional_zero _ _
  · rw [a3, hv]; exact getOptional_pos _ _ h1 (getUtf8_of hq hu)

/-! ## `exports` / `opens` -/

def ExportsAt (p : Pool) (e : ModuleExports) (l : SExports) : Prop :=
  l.name = e.name ∧ l.flags = e.flags ∧ l.to.map (·.2) = e.to ∧ l.cp < 65536 ∧ PkgAt p l.cp e.name ∧
    l.to.length < 65536 ∧ ∀ x ∈ l.to, x.1 < 65536 ∧ ModAt p x.1 x.2

theorem ExportsAt.mono {p q : Pool} (h : Le p q) {e : ModuleExports} {l : SExports} (a : ExportsAt p e l) :
    ExportsAt q e l := by
  obtain ⟨a1, a2, a3, a4, a5, a6, a7⟩ := a
  exact ⟨a1, a2, a3, a4, a5.mono h, a6, fun x hx => ⟨(a7 x hx).1, (a7 x hx).2.mono h⟩⟩

theorem writeExports_spec {p p' : Pool} {e : ModuleExports} {b : Bytes} (hg : Good p)
    (h : writeExports p e = .ok (b, p')) : Step p p' ∧ ∃ l : SExports, b = l.encode ∧ ExportsAt p' e l := by
  obtain ⟨⟨n, p1⟩, h1, h⟩ := bind_eq_ok.mp h
  obtain ⟨⟨bb, p2⟩, h2, h⟩ := bind_eq_ok.mp h
  have := pure_eq_ok.mp h
  cases this
  obtain ⟨s1, a1, hn⟩ := putPackage_spec hg h1
  obtain ⟨s2, ls, rfl, hm, hlt, hr⟩ := refList_spec (At := ModAt) (fun p p' c i hg h => putModule_spec hg h)
    (fun p p' i c hle a => a.mono hle) s1.good h2
  exact ⟨s1.trans s2, ⟨n, e.name, e.flags, ls⟩, rfl, rfl, rfl, hm, hn, a1.mono s2.le, hlt, hr⟩

theorem exports_legal {q : Pool} (hq : Good q) {e : ModuleExports} {l : SExports} (a : ExportsAt q e l)
    (hok : e.flags < 65536) : l.Legal (rpool q) := by
  obtain ⟨a1, a2, a3, a4, a5, a6, a7⟩ := a
  exact ⟨a4, by rw [a2]; exact hok, by rw [a1]; exact getPackage_of hq a5, a6,
    fun x hx => ⟨(a7 x hx).1, getModule_of hq (a7 x hx).2⟩⟩

/-! ## `provides` -/

def ProvidesAt (p : Pool) (e : ModuleProvides) (l : SProvides) : Prop :=
  l.name = e.name ∧ l.with_.map (·.2) = e.with_ ∧ l.cp < 65536 ∧ ClsAt p l.cp e.name ∧
    l.with_.length < 65536 ∧ ∀ x ∈ l.with_, x.1 < 65536 ∧ ClsAt p x.1 x.2

theorem ProvidesAt.mono {p q : Pool} (h : Le p q) {e : ModuleProvides} {l : SProvides} (a : ProvidesAt p e l) :
    ProvidesAt q e l := by
  obtain ⟨a1, a3, a4, a5, a6, a7⟩ := a
  exact ⟨a1, a3, a4, a5.mono h, a6, fun x hx => ⟨(a7 x hx).1, (a7 x hx).2.mono h⟩⟩

theorem writeProvides_spec {p p' : Pool} {e : ModuleProvides} {b : Bytes} (hg : Good p)
    (h : writeProvides p e = .ok (b, p')) : Step p p' ∧ ∃ l : SProvides, b = l.encode ∧ ProvidesAt p' e l := by
  obtain ⟨⟨n, p1⟩, h1, h⟩ := bind_eq_ok.mp h
  obtain ⟨⟨bb, p2⟩, h2, h⟩ := bind_eq_ok.mp h
  have := pure_eq_ok.mp h
  cases this
  obtain ⟨s1, a1, hn⟩ := putClass_spec hg h1
  obtain ⟨s2, ls, rfl, hm, hlt, hr⟩ := refList_spec (At := ClsAt) (fun p p' c i hg h => putClass_spec hg h)
    (fun p p' i c hle a => a.mono hle) s1.good h2
  exact ⟨s1.trans s2, ⟨n, e.name, ls⟩, rfl, rfl, hm, hn, a1.mono s2.le, hlt, hr⟩

theorem provides_legal {q : Pool} (hq : Good q) {e : ModuleProvides} {l : SProvides} (a : ProvidesAt q e l)
    (hok : validClassName e.name = true ∧ ∀ c ∈ e.with_, validClassName c = true) : l.Legal (rpool q) := by
  obtain ⟨a1, a3, a4, a5, a6, a7⟩ := a
  refine ⟨a4, by rw [a1]; exact getClass_of hq a5 hok.1, a6, fun x hx => ⟨(a7 x hx).1, getClass_of hq (a7 x hx).2 (hok.2 x.2 ?_)⟩⟩
  rw [← a3]
  exact List.mem_map_of_mem hx

/-! ## the whole body -/

/-- what the indices of a written `Module` body denote -/
structure ModuleAt (p : Pool) (m : Module) (l : SModule) : Prop where
  name : l.name = m.name
  flags : l.flags = m.flags
  version : l.version = m.version
  cp : l.cp < 65536
  vcp : l.vcp < 65536
  nameAt : ModAt p l.cp m.name
  versionAt : (m.version = none ∧ l.vcp = 0) ∨ ∃ v, m.version = some v ∧ Utf8At p l.vcp v ∧ 1 ≤ l.vcp
  nRequires : l.requires.length = m.requires.length ∧ l.requires.length < 65536
  requires : ∀ x ∈ l.requires.zip m.requires, RequiresAt p x.2 x.1
  nExports : l.exports.length = m.exports.length ∧ l.exports.length < 65536
  exports : ∀ x ∈ l.exports.zip m.exports, ExportsAt p x.2 x.1
  nOpens : l.opens.length = m.opens.length ∧ l.opens.length < 65536
  opens : ∀ x ∈ l.opens.zip m.opens, ExportsAt p x.2 x.1
  usesEq : l.uses.map (·.2) = m.uses
  uses : l.uses.length < 65536 ∧ ∀ x ∈ l.uses, x.1 < 65536 ∧ ClsAt p x.1 x.2
  nProvides : l.provides.length = m.provides.length ∧ l.provides.length < 65536
  provides : ∀ x ∈ l.provides.zip m.provides, ProvidesAt p x.2 x.1

theorem ModuleAt.mono {p q : Pool} (h : Le p q) {m : Module} {l : SModule} (a : ModuleAt p m l) : ModuleAt q m l :=
  { name := a.name, flags := a.flags, version := a.version, cp := a.cp, vcp := a.vcp, nameAt := a.nameAt.mono h,
    versionAt := by
      rcases a.versionAt with c | ⟨v, hv, hu, h1⟩
      · exact Or.inl c
      · exact Or.inr ⟨v, hv, hu.mono h, h1⟩
    nRequires := a.nRequires, requires := fun x hx => (a.requires x hx).mono h,
    nExports := a.nExports, exports := fun x hx => (a.exports x hx).mono h,
    nOpens := a.nOpens, opens := fun x hx => (a.opens x hx).mono h,
    usesEq := a.usesEq, uses := ⟨a.uses.1, fun x hx => ⟨(a.uses.2 x hx).1, (a.uses.2 x hx).2.mono h⟩⟩,
    nProvides := a.nProvides, provides := fun x hx => (a.provides x hx).mono h }

theorem writeModule_spec {m : Module} {p p' : Pool} {b : Bytes} (hg : Good p) (h : writeModule m p = .ok (b, p')) :
    Step p p' ∧ ∃ l : SModule, b = l.encode ∧ ModuleAt p' m l := by
  obtain ⟨⟨n, p1⟩, h1, h⟩ := bind_eq_ok.mp h
  obtain ⟨⟨v, p2⟩, h2, h⟩ := bind_eq_ok.mp h
  obtain ⟨⟨rq, p3⟩, h3, h⟩ := bind_eq_ok.mp h
  obtain ⟨⟨ex, p4⟩, h4, h⟩ := bind_eq_ok.mp h
  obtain ⟨⟨op, p5⟩, h5, h⟩ := bind_eq_ok.mp h
  obtain ⟨⟨us, p6⟩, h6, h⟩ := bind_eq_ok.mp h
  obtain ⟨⟨pr, p7⟩, h7, h⟩ := bind_eq_ok.mp h
  have := pure_eq_ok.mp h
  cases this
  obtain ⟨s1, a1, hn⟩ := putModule_spec hg h1
  obtain ⟨s2, hv, c2⟩ := putOptional_spec Utf8At (fun p p' a i hg h => putUtf8_spec' hg h) s1.good h2
  obtain ⟨s3, rqs, rfl, hrl, hrlt, hrr⟩ := table_spec writeRequires SRequires.encode RequiresAt
    (fun p p' a l hle hr => hr.mono hle) (fun p p' a b hg h => writeRequires_spec hg h) s2.good h3
  obtain ⟨s4, exs, rfl, hel, helt, her⟩ := table_spec writeExports SExports.encode ExportsAt
    (fun p p' a l hle hr => hr.mono hle) (fun p p' a b hg h => writeExports_spec hg h) s3.good h4
  obtain ⟨s5, ops, rfl, hol, holt, hor⟩ := table_spec writeExports SExports.encode ExportsAt
    (fun p p' a l hle hr => hr.mono hle) (fun p p' a b hg h => writeExports_spec hg h) s4.good h5
  obtain ⟨s6, uss, rfl, hum, hult, hur⟩ := refList_spec (At := ClsAt) (fun p p' c i hg h => putClass_spec hg h)
    (fun p p' i c hle a => a.mono hle) s5.good h6
  obtain ⟨s7, prs, rfl, hpl, hplt, hpr⟩ := table_spec writeProvides SProvides.encode ProvidesAt
    (fun p p' a l hle hr => hr.mono hle) (fun p p' a b hg h => writeProvides_spec hg h) s6.good h7
  have l7 := s7.le
  have l6 := s6.le.trans l7
  have l5 := s5.le.trans l6
  have l4 := s4.le.trans l5
  have l3 := s3.le.trans l4
  have l2 := s2.le.trans l3
  refine ⟨s1.trans (s2.trans (s3.trans (s4.trans (s5.trans (s6.trans s7))))),
    ⟨n, m.name, m.flags, v, m.version, rqs, exs, ops, uss, prs⟩, ?_, ?_⟩
  · simp [SModule.encode, List.append_assoc]
  · exact
      { name := rfl, flags := rfl, version := rfl, cp := hn, vcp := hv, nameAt := a1.mono l2,
        versionAt := by
          rcases c2 with c | ⟨x, hx, hu, h1'⟩
          · exact Or.inl c
          · exact Or.inr ⟨x, hx, hu.mono l3, h1'⟩
        nRequires := ⟨hrl, hrlt⟩, requires := fun x hx => (hrr x hx).mono l4,
        nExports := ⟨hel, helt⟩, exports := fun x hx => (her x hx).mono l5,
        nOpens := ⟨hol, holt⟩, opens := fun x hx => (hor x hx).mono l6,
        usesEq := hum, uses := ⟨hult, fun x hx => ⟨(hur x hx).1, (hur x hx).2.mono l7⟩⟩,
        nProvides := ⟨hpl, hplt⟩, provides := hpr }

theorem module_legal {q : Pool} (hq : Good q) {m : Module} {l : SModule} (a : ModuleAt q m l) (hok : ModuleOk m) :
    l.Legal (rpool q) := by
  refine ⟨a.cp, by rw [a.flags]; exact hok.flags.1, a.vcp, by rw [a.name]; exact getModule_of hq a.nameAt, ?_,
    a.nRequires.2, ?_, a.nExports.2, ?_, a.nOpens.2, ?_, ⟨a.uses.1, ?_⟩, a.nProvides.2, ?_⟩
  · rcases a.versionAt with ⟨h0, hz⟩ | ⟨v, hv, hu, h1⟩
    · rw [hz, a.version, h0]; exact getOptional_zero _ _
    · rw [a.version, hv]; exact getOptional_pos _ _ h1 (getUtf8_of hq hu)
  · intro r hr
    obtain ⟨x, hx, hz⟩ := zip_mem_of_mem a.nRequires.1 hr
    exact requires_legal hq (a.requires _ hz) (hok.requires x hx).1
  · intro r hr
    obtain ⟨x, hx, hz⟩ := zip_mem_of_mem a.nExports.1 hr
    exact exports_legal hq (a.exports _ hz) (hok.exports x hx).1
  · intro r hr
    obtain ⟨x, hx, hz⟩ := zip_mem_of_mem a.nOpens.1 hr
    exact exports_legal hq (a.opens _ hz) (hok.opens x hx).1
  · intro x hx
    refine ⟨(a.uses.2 x hx).1, getClass_of hq (a.uses.2 x hx).2 (hok.uses x.2 ?_)⟩
    rw [← a.usesEq]
    exact List.mem_map_of_mem hx
  · intro r hr
    obtain ⟨x, hx, hz⟩ := zip_mem_of_mem a.nProvides.1 hr
    exact provides_legal hq (a.provides _ hz) (hok.provides x hx)

theorem module_fact {q : Pool} {m : Module} {l : SModule} (a : ModuleAt q m l) (hok : ModuleOk m) : l.fact = m := by
  have h1 : l.requires.map (fun r => (⟨r.name, r.flags &&& maskRequires, r.version⟩ : ModuleRequires)) = m.requires := by
    apply map_eq_of_zip _ _ _ a.nRequires.1
    intro x hx
    obtain ⟨b1, b2, b3, _⟩ := a.requires x hx
    have := (hok.requires x.2 (List.of_mem_zip hx).2).2
    cases hx2 : x.2
    simp_all
  have h2 : l.exports.map (fun e => (⟨e.name, e.flags &&& maskExports, e.to.map (·.2)⟩ : ModuleExports)) = m.exports := by
    apply map_eq_of_zip _ _ _ a.nExports.1
    intro x hx
    obtain ⟨b1, b2, b3, _⟩ := a.exports x hx
    have := (hok.exports x.2 (List.of_mem_zip hx).2).2
    cases hx2 : x.2
    simp_all
  have h3 : l.opens.map (fun e => (⟨e.name, e.flags &&& maskExports, e.to.map (·.2)⟩ : ModuleExports)) = m.opens := by
    apply map_eq_of_zip _ _ _ a.nOpens.1
    intro x hx
    obtain ⟨b1, b2, b3, _⟩ := a.opens x hx
    have := (hok.opens x.2 (List.of_mem_zip hx).2).2
    cases hx2 : x.2
    simp_all
  have h4 : l.provides.map (fun e => (⟨e.name, e.with_.map (·.2)⟩ : ModuleProvides)) = m.provides := by
    apply map_eq_of_zip _ _ _ a.nProvides.1
    intro x hx
    obtain ⟨b1, b2, _⟩ := a.provides x hx
    cases hx2 : x.2
    simp_all
  have h5 := hok.flags.2
  have h6 := a.name
  have h7 := a.flags
  have h8 := a.version
  have h9 := a.usesEq
  simp only [SModule.fact, h1, h2, h3, h4, h6, h7, h8, h9, h5]

/-- the `Module` block of `write` -/
theorem moduleAttr_spec {x : Option Module} {p p' : Pool} {o : Option Bytes} (hg : Good p)
    (h : ifSome x (fun m => attrBuf sModule (writeModule m)) p = .ok (o, p')) :
    Step p p' ∧ ((x = none ∧ o = none) ∨
      (∃ (m : Module) (l : SModule), x = some m ∧ Present o p' sModule l.encode ∧ l.encode.length < 4294967296 ∧
        ModuleAt p' m l)) := by
  rcases ifSome_inv h with ⟨m, b, rfl, hb, rfl⟩ | ⟨rfl, rfl, rfl⟩
  · obtain ⟨bb, p1, i, h1, h2, hlen, rfl⟩ := attrBuf_inv hb
    obtain ⟨s1, l, rfl, ha⟩ := writeModule_spec hg h1
    obtain ⟨s2, a2, hi⟩ := putUtf8_spec s1.good h2
    exact ⟨s1.trans s2, Or.inr ⟨m, l, rfl, ⟨i, rfl, hi, a2⟩, by omega, ha.mono s2.le⟩⟩
  · exact ⟨Step.refl hg, Or.inl ⟨rfl, rfl⟩⟩

end ClassWriteFull
