import FeatherModel.Lemmas.CodeWriteTerm
import FeatherModel.Lemmas.CodeWithin

/-!
# `write_code` cannot panic (all inputs, since the `fix:` commits 136eeb3, dc41ad9); size bound `maxLen`
-/

namespace CodeWrite

/-- the longest encoding the writer may choose for an instruction -/
def maxLen : Insn → Nat
  | .simple _ => 1
  | .bipush _ => 2
  | .sipush _ => 3
  | .ldc _ _ => 3
  | .load _ _ => 4
  | .store _ _ => 4
  | .iinc _ _ => 6
  | .ret _ => 4
  | .ifc _ _ => 8
  | .goto _ => 5
  | .jsr _ => 5
  | .tableswitch _ _ _ tb => 16 + 4 * tb.length
  | .lookupswitch _ ps => 12 + 8 * ps.length
  | .cp _ _ => 3
  | .invokeinterface _ _ => 5
  | .newarray _ => 2
  | .multianewarray _ _ => 4
  | .invokedynamic _ => 5

def maxSize (is : List Insn) : Nat := (is.map maxLen).sum

theorem padLen_le (p : Nat) : padLen p ≤ 3 := by unfold padLen; omega

theorem encInsn_len {isWide : Bool} {lbl : Nat → Option Nat} {p k : Nat} {i : Insn} {r : Bytes × List Unwritten}
    (h : encInsn isWide lbl p k i = .ok r) : r.1.length ≤ maxLen i := by
  cases i with
  | simple op => simp only [encInsn] at h; cases h; simp [maxLen]
  | bipush v => simp only [encInsn] at h; cases h; simp [maxLen]
  | sipush v => simp only [encInsn] at h; cases h; simp [maxLen, i16b, u16b]
  | ldc idx two =>
    simp only [encInsn, encLdc] at h; cases h
    simp only [maxLen]
    split
    · simp [u16b]
    · split <;> simp [u16b]
  | load kind idx =>
    simp only [encInsn, encLocal] at h; cases h
    simp only [maxLen]
    split
    · simp
    · split <;> simp [u16b]
  | store kind idx =>
    simp only [encInsn, encLocal] at h; cases h
    simp only [maxLen]
    split
    · simp
    · split <;> simp [u16b]
  | iinc idx v =>
    simp only [encInsn, encIinc] at h; cases h
    simp only [maxLen]
    split <;> simp [u16b, i16b]
  | ret idx =>
    simp only [encInsn, encRet] at h; cases h
    simp only [maxLen]
    split <;> simp [u16b]
  | cp op idx => simp only [encInsn] at h; cases h; simp [maxLen, u16b]
  | invokeinterface idx desc =>
    simp only [encInsn] at h
    split at h
    · cases h
    · cases h; simp [maxLen, u16b]
  | newarray t => simp only [encInsn] at h; cases h; simp [maxLen]
  | invokedynamic idx => simp only [encInsn] at h; cases h; simp [maxLen, u16b]
  | multianewarray idx d => simp only [encInsn] at h; cases h; simp [maxLen, u16b]
  | ifc c t =>
    simp only [encInsn, encIf] at h
    simp only [maxLen]
    split at h
    · split at h
      · cases h; simp [i16b, u16b]
      · split at h
        · cases h
        · cases h; simp [i16b, u16b, i32b, u32b]
    · split at h
      · split at h
        · cases h
        · cases h; simp [i16b, u16b, i32b, u32b]
      · cases h; simp [i16b, u16b]
  | goto t =>
    simp only [encInsn, encGoto] at h
    simp only [maxLen]
    split at h
    · split at h <;> (cases h; simp [i16b, u16b, i32b, u32b])
    · split at h <;> (cases h; simp [i16b, u16b, i32b, u32b])
  | jsr t =>
    simp only [encInsn, encGoto] at h
    simp only [maxLen]
    split at h
    · split at h <;> (cases h; simp [i16b, u16b, i32b, u32b])
    · split at h <;> (cases h; simp [i16b, u16b, i32b, u32b])
  | tableswitch d lo hi tb =>
    simp only [encInsn, encTableSwitch] at h
    simp only [maxLen]
    split at h
    · cases h
    · split at h
      · cases h
      · split at h
        · cases h
        · cases h
          have := padLen_le p
          simp [swLabel_len, swTable_len, i32b, u32b]; omega
  | lookupswitch d ps =>
    simp only [encInsn, encLookupSwitch] at h
    simp only [maxLen]
    split at h
    · cases h
    · cases h
      have := padLen_le p
      simp [swLabel_len, swPairs_len, i32b, u32b]; omega

theorem argsLoop_no_panic : ∀ (fuel : Nat) (cs : List Nat) (size : Nat), argsLoop fuel cs size ≠ .error .panic := by
  intro fuel
  induction fuel with
  | zero => intro cs size; simp [argsLoop]
  | succ fuel ih =>
    intro cs size
    cases cs with
    | nil => simp [argsLoop]
    | cons c rest =>
      simp only [argsLoop]
      split
      · simp
      · split
        · split
          · simp
          · exact ih _ _
        · split
          · simp
          · split
            · split
              · simp
              · split
                · simp
                · exact ih _ _
            · split
              · simp
              · exact ih _ _

theorem argsSize_no_panic (desc : JStr) : argsSize desc ≠ .error .panic := by
  unfold argsSize
  split
  · exact argsLoop_no_panic _ _ _
  · simp

theorem encInsn_no_panic {isWide : Bool} {lbl : Nat → Option Nat} {p k : Nat} {i : Insn} :
    encInsn isWide lbl p k i ≠ .error .panic := by
  cases i with
  | ifc c t =>
    simp only [encInsn, encIf]
    split
    · split
      · simp
      · split <;> simp
    · split
      · split <;> simp
      · simp
  | tableswitch d lo hi tb =>
    simp only [encInsn, encTableSwitch]
    intro h
    split at h
    · cases h
    · split at h
      · cases h
      · split at h <;> cases h
  | lookupswitch d ps =>
    simp only [encInsn, encLookupSwitch]
    split <;> simp
  | goto t =>
    simp only [encInsn, encGoto]
    split
    · split <;> simp
    · split <;> simp
  | jsr t =>
    simp only [encInsn, encGoto]
    split
    · split <;> simp
    · split <;> simp
  | invokeinterface idx desc =>
    simp only [encInsn]
    cases ha : argsSize desc with
    | error e =>
      cases e with
      | err => simp
      | panic => exact absurd ha (argsSize_no_panic desc)
    | ok c => simp
  | _ => simp [encInsn]

theorem pass_no_panic (wide : List Nat) (is : List Insn) :
    ∀ (s : St), pass wide is s ≠ .error .panic := by
  induction is with
  | nil => intro s; simp [pass]
  | cons i is ih =>
    intro s
    simp only [pass]
    cases hst : step wide i s with
    | error e =>
      simp only []
      intro he
      cases he
      obtain ⟨w, pos, unw⟩ := s
      simp only [step] at hst
      split at hst
      · cases hst
      · split at hst
        · rename_i e' henc
          cases hst
          exact encInsn_no_panic henc
        · cases hst
    | ok s1 =>
      simp only []
      exact ih _

/-- every failure of `write_code`'s code array is the explicit error (since 136eeb3, dc41ad9: all inputs) -/
theorem write_no_panic (is : List Insn) :
    ∀ (fuel : Nat) (wide : List Nat), write is fuel wide ≠ .panic := by
  intro fuel
  induction fuel with
  | zero => intro wide; simp [write]
  | succ fuel ih =>
    intro wide
    simp only [write]
    cases hs : pass wide is St.init with
    | error e =>
      cases e with
      | err => simp
      | panic => exact absurd hs (pass_no_panic wide is St.init)
    | ok s =>
      simp only []
      cases resolve (labelPos s.pos s.w.size) s.unw.toList s.w with
      | fail => simp
      | retry idx => exact ih _
      | done w => simp only []; split <;> simp

end CodeWrite
