import FeatherModel.Lemmas.TotalAnno
import FeatherModel.Model.TotalCode

/-!
# C16 — `read_code` (after e3534dd, 4853513, 6b80d4b, 8349742, 835fdd2): no panic at all, every guarded operation is
silent, allocation requests are bounded by `max 65535 |input|`

All statements are `Spec openSites B …` with `openSites = []`: they also say that the `alloc` account stays below `B`.
Everything outside the second pass works for any `B ≥ 65535` that also bounds the length of the unread input (the
buffer of an unknown attribute grows with the bytes present); the two `Vec::with_capacity(n)` of the second pass are
bounded by `2^31 - 1` here and by `65535` in `Lemmas/TotalPasses.lean` (where the two passes are related).
-/

namespace Total.Code

open TM

/-- the sites `read_code` can still panic at: none -/
def openSites : List Nat := []

variable {B : Nat}

/-! ## labels -/

theorem Labels.addUnchecked_spec (l : Labels) (pc : Nat) :
    Spec openSites B (l.addUnchecked pc) (fun l' => l'.codeLength = l.codeLength) := by
  unfold Labels.addUnchecked
  pin
  all_goals rfl

theorem Labels.getOrCreate_spec (l : Labels) (pc : Nat) :
    Spec openSites B (l.getOrCreate pc) (fun l' => l'.codeLength = l.codeLength) := by
  unfold Labels.getOrCreate
  exact Spec.bind (Spec.guard _) (fun _ _ => Labels.addUnchecked_spec l pc)

theorem Labels.getOrCreateExcl_spec (l : Labels) (pc : Nat) :
    Spec openSites B (l.getOrCreateExcl pc) (fun l' => l'.codeLength = l.codeLength) := by
  unfold Labels.getOrCreateExcl
  exact Spec.bind (Spec.guard _) (fun _ _ => Labels.addUnchecked_spec l pc)

theorem Labels.getOrCreateRange_spec (l : Labels) (a b : Nat) :
    Spec openSites B (l.getOrCreateRange a b) (fun _ => True) := by
  unfold Labels.getOrCreateRange
  refine Spec.bind (Labels.getOrCreate_spec l a) (fun l1 _ => ?_)
  refine Spec.bind (Spec.guard _) (fun _ _ => ?_)
  exact Spec.weaken (Labels.getOrCreateExcl_spec l1 _) (fun _ _ => trivial)

theorem Labels.tryGet_spec (l : Labels) (pc : Nat) : Spec openSites B (l.tryGet pc) (fun _ => True) := by
  unfold Labels.tryGet
  exact Spec.weaken (Spec.guard _) (fun _ _ => trivial)

macro_rules | `(tactic| pin_lemma) => `(tactic| with_reducible exact Labels.getOrCreate_spec _ _)
macro_rules | `(tactic| pin_lemma) => `(tactic| with_reducible exact Labels.getOrCreateExcl_spec _ _)
macro_rules | `(tactic| pin_lemma) => `(tactic| with_reducible exact Labels.getOrCreateRange_spec _ _ _)
macro_rules | `(tactic| pin_lemma) => `(tactic| with_reducible exact Labels.tryGet_spec _ _)

/-! ## cursor -/

/-- `c'` is `c` after reading (not skipping) `c'.pos - c.pos` bytes -/
def Adv (c c' : Cur) : Prop :=
  c.pos ≤ c'.pos ∧ c'.len = c.len ∧ c.rest.length = c'.rest.length + (c'.pos - c.pos) ∧
    c'.rest = c.rest.drop (c'.pos - c.pos)

theorem Adv.refl (c : Cur) : Adv c c := ⟨Nat.le_refl _, rfl, by simp, by simp⟩

theorem Adv.trans {a b c : Cur} (h1 : Adv a b) (h2 : Adv b c) : Adv a c := by
  obtain ⟨p1, l1, n1, r1⟩ := h1
  obtain ⟨p2, l2, n2, r2⟩ := h2
  refine ⟨by omega, by omega, by omega, ?_⟩
  rw [r2, r1, List.drop_drop]
  congr 1
  omega

/-- reading exactly `k` bytes is the same cursor as skipping `k` bytes -/
theorem Adv.eq_skip {c c' : Cur} {k : Nat} (h : Adv c c') (hp : c'.pos = c.pos + k) : c' = c.skip k := by
  obtain ⟨_, l1, _, r1⟩ := h
  cases c'
  simp only [Cur.skip] at *
  subst hp l1
  simp [r1]

theorem splitExact_some : ∀ (k : Nat) (s x r : Bytes), Cur.splitExact k s = some (x, r) →
    s.length = r.length + k ∧ x.length = k ∧ r = s.drop k
  | 0, s, x, r, h => by simp [Cur.splitExact] at h; obtain ⟨h1, h2⟩ := h; subst h1 h2; simp
  | k + 1, [], x, r, h => by simp [Cur.splitExact] at h
  | k + 1, a :: s, x, r, h => by
    simp only [Cur.splitExact, Option.map_eq_some_iff] at h
    obtain ⟨⟨x', r'⟩, h1, h2⟩ := h
    have := splitExact_some k s x' r' h1
    simp only [Prod.mk.injEq] at h2
    obtain ⟨h3, h4⟩ := h2
    subst h3 h4
    obtain ⟨t1, t2, t3⟩ := this
    refine ⟨?_, ?_, ?_⟩
    · simp only [List.length_cons]; omega
    · simp only [List.length_cons]; omega
    · simpa using t3

theorem Cur.take_spec (k : Nat) (c : Cur) :
    Spec openSites B (c.take k) (fun r => Adv c r.2 ∧ r.2.pos = c.pos + k ∧ r.1.length = k) := by
  unfold Cur.take
  split
  · rename_i x r h
    have := splitExact_some k c.rest x r h
    refine Spec.ret _ ⟨⟨?_, rfl, ?_, ?_⟩, rfl, this.2.1⟩
    · show c.pos ≤ c.pos + k; omega
    · show c.rest.length = r.length + (c.pos + k - c.pos); omega
    · show r = c.rest.drop (c.pos + k - c.pos)
      rw [this.2.2]; congr 1; omega
  · exact Spec.fail

theorem Cur.u8_spec (c : Cur) :
    Spec openSites B c.u8 (fun r => Adv c r.2 ∧ r.2.pos = c.pos + 1 ∧ r.1 ≤ 255) := by
  unfold Cur.u8
  refine Spec.bind (Cur.take_spec 1 c) (fun ⟨b, c'⟩ h => ?_)
  dsimp only
  split
  · exact Spec.ret _ ⟨h.1, h.2.1, Spec.byte_le _⟩
  · exact Spec.fail

theorem Cur.u16_spec (c : Cur) :
    Spec openSites B c.u16 (fun r => Adv c r.2 ∧ r.2.pos = c.pos + 2 ∧ r.1 ≤ 65535) := by
  unfold Cur.u16
  refine Spec.bind (Cur.take_spec 2 c) (fun ⟨b, c'⟩ h => ?_)
  dsimp only
  split
  · rename_i x y
    refine Spec.ret _ ⟨h.1, h.2.1, ?_⟩
    have := Spec.byte_le x; have := Spec.byte_le y
    show byte x * 256 + byte y ≤ 65535
    omega
  · exact Spec.fail

theorem Cur.i16_spec (c : Cur) :
    Spec openSites B c.i16 (fun r => Adv c r.2 ∧ r.2.pos = c.pos + 2) := by
  unfold Cur.i16
  exact Spec.bind (Cur.u16_spec c) (fun ⟨n, c'⟩ h => Spec.ret _ ⟨h.1, h.2.1⟩)

theorem toI32_bounds (n : Nat) (h : n ≤ 4294967295) : -2147483648 ≤ toI32 n ∧ toI32 n ≤ 2147483647 := by
  unfold toI32; split <;> omega

theorem Cur.i32_spec (c : Cur) :
    Spec openSites B c.i32 (fun r => Adv c r.2 ∧ r.2.pos = c.pos + 4 ∧ -2147483648 ≤ r.1 ∧ r.1 ≤ 2147483647) := by
  unfold Cur.i32
  refine Spec.bind (Cur.take_spec 4 c) (fun ⟨b, c'⟩ h => ?_)
  dsimp only
  split
  · rename_i x y z w
    refine Spec.ret _ ⟨h.1, h.2.1, ?_⟩
    apply toI32_bounds
    have := Spec.byte_le x; have := Spec.byte_le y; have := Spec.byte_le z; have := Spec.byte_le w
    omega
  · exact Spec.fail

/-- `align_to_4_byte_boundary`: its `unreachable!()` (site 30) is unreachable -/
theorem Cur.align_spec (c : Cur) : Spec openSites B c.align (fun c' => Adv c c') := by
  unfold Cur.align
  dsimp only
  refine Spec.bind (Spec.check_true (by simp; omega)) (fun _ _ => ?_)
  refine Spec.bind (Cur.take_spec _ c) (fun ⟨b, c'⟩ h => ?_)
  exact Spec.ret _ h.1

theorem Cur.branch16_spec (p : Nat) (c : Cur) :
    Spec openSites B (c.branch16 p) (fun r => Adv c r.2 ∧ r.2.pos = c.pos + 2) := by
  unfold Cur.branch16
  refine Spec.bind (Cur.i16_spec c) (fun ⟨off, c'⟩ h => ?_)
  dsimp only
  split
  · exact Spec.ret _ h
  · exact Spec.fail

theorem Cur.branch32_spec (p : Nat) (c : Cur) :
    Spec openSites B (c.branch32 p) (fun r => Adv c r.2 ∧ r.2.pos = c.pos + 4) := by
  unfold Cur.branch32
  refine Spec.bind (Cur.i32_spec c) (fun ⟨off, c'⟩ h => ?_)
  dsimp only
  split
  · exact Spec.ret _ ⟨h.1, h.2.1⟩
  · exact Spec.fail

theorem tableCount_spec (low high : Int) :
    Spec openSites B (tableCount low high) (fun n => n ≤ 2147483647) := by
  unfold tableCount
  split
  · exact Spec.fail
  · split
    · exact Spec.fail
    · refine Spec.ret _ ?_
      omega

theorem pairCount_spec (n : Int) (h : n ≤ 2147483647) : Spec openSites B (pairCount n) (fun k => k ≤ 2147483647) := by
  unfold pairCount
  split
  · exact Spec.fail
  · refine Spec.ret _ ?_
    omega

macro_rules | `(tactic| pin_lemma) => `(tactic| with_reducible exact Cur.u8_spec _)
macro_rules | `(tactic| pin_lemma) => `(tactic| with_reducible exact Cur.u16_spec _)
macro_rules | `(tactic| pin_lemma) => `(tactic| with_reducible exact Cur.i16_spec _)
macro_rules | `(tactic| pin_lemma) => `(tactic| with_reducible exact Cur.i32_spec _)
macro_rules | `(tactic| pin_lemma) => `(tactic| with_reducible exact Cur.take_spec _ _)
macro_rules | `(tactic| pin_lemma) => `(tactic| with_reducible exact Cur.align_spec _)
macro_rules | `(tactic| pin_lemma) => `(tactic| with_reducible exact Cur.branch16_spec _ _)
macro_rules | `(tactic| pin_lemma) => `(tactic| with_reducible exact Cur.branch32_spec _ _)
macro_rules | `(tactic| pin_lemma) => `(tactic| with_reducible exact tableCount_spec _ _)

/-! ## first pass -/

/-- the cursor only moves forward and stays on the same bytecode (the first pass `skip`s, so nothing more holds) -/
def Mono (c c' : Cur) : Prop := c.pos ≤ c'.pos ∧ c'.len = c.len

theorem Adv.mono {c c' : Cur} (h : Adv c c') : Mono c c' := ⟨h.1, h.2.1⟩

theorem pass1Table_spec (p : Nat) : ∀ (n : Nat) (l : Labels) (c : Cur),
    Spec openSites B (pass1Table p n l c) (fun r => Mono c r.2)
  | 0, l, c => Spec.ret _ ⟨Nat.le_refl _, rfl⟩
  | n + 1, l, c => by
    unfold pass1Table
    refine Spec.bind (Cur.branch32_spec p c) (fun ⟨t, c1⟩ h1 => ?_)
    refine Spec.bind (Labels.getOrCreate_spec l t) (fun l1 _ => ?_)
    refine Spec.weaken (pass1Table_spec p n l1 c1) (fun r hr => ?_)
    have := h1.1.mono
    simp only [Mono] at *
    omega

theorem pass1Pairs_spec (p : Nat) : ∀ (n : Nat) (l : Labels) (c : Cur),
    Spec openSites B (pass1Pairs p n l c) (fun r => Mono c r.2)
  | 0, l, c => Spec.ret _ ⟨Nat.le_refl _, rfl⟩
  | n + 1, l, c => by
    unfold pass1Pairs
    refine Spec.bind (Cur.i32_spec c) (fun ⟨k, c0⟩ h0 => ?_)
    refine Spec.bind (Cur.branch32_spec p c0) (fun ⟨t, c1⟩ h1 => ?_)
    refine Spec.bind (Labels.getOrCreate_spec l t) (fun l1 _ => ?_)
    refine Spec.weaken (pass1Pairs_spec p n l1 c1) (fun r hr => ?_)
    have := h0.1.mono
    have := h1.1.mono
    simp only [Mono] at *
    omega

theorem pass1Step_spec (l : Labels) (c : Cur) :
    Spec openSites B (pass1Step l c) (fun r => c.pos < r.2.pos ∧ r.2.len = c.len) := by
  unfold pass1Step
  refine Spec.bind (Cur.u8_spec c) (fun ⟨op, c1⟩ h1 => ?_)
  have hm1 := h1.1.mono
  have hp1 : c1.pos = c.pos + 1 := h1.2.1
  dsimp only
  split
  · rename_i k _
    refine Spec.ret _ ⟨?_, ?_⟩
    · show c.pos < c1.pos + k; omega
    · exact hm1.2
  · split
    · refine Spec.bind (Cur.u8_spec c1) (fun ⟨w, c2⟩ h2 => ?_)
      have hm2 := h2.1.mono
      dsimp only
      split
      · rename_i k _
        refine Spec.ret _ ⟨?_, ?_⟩
        · show c.pos < c2.pos + k; simp only [Mono] at *; omega
        · show c2.len = c.len; simp only [Mono] at *; omega
      · exact Spec.fail
    · split
      · refine Spec.bind (Cur.branch16_spec _ c1) (fun ⟨t, c2⟩ h2 => ?_)
        have hm2 := h2.1.mono
        refine Spec.bind (Labels.getOrCreate_spec l t) (fun l1 _ => ?_)
        refine Spec.ret _ ?_
        show c.pos < c2.pos ∧ c2.len = c.len
        simp only [Mono] at *; omega
      · split
        · refine Spec.bind (Cur.branch32_spec _ c1) (fun ⟨t, c2⟩ h2 => ?_)
          have hm2 := h2.1.mono
          refine Spec.bind (Labels.getOrCreate_spec l t) (fun l1 _ => ?_)
          refine Spec.ret _ ?_
          show c.pos < c2.pos ∧ c2.len = c.len
          simp only [Mono] at *; omega
        · split
          · refine Spec.bind (Cur.align_spec c1) (fun c2 h2 => ?_)
            have hm2 := h2.mono
            refine Spec.bind (Cur.branch32_spec _ c2) (fun ⟨t, c3⟩ h3 => ?_)
            have hm3 := h3.1.mono
            refine Spec.bind (Labels.getOrCreate_spec l t) (fun l1 _ => ?_)
            refine Spec.bind (Cur.i32_spec c3) (fun ⟨low, c4⟩ h4 => ?_)
            have hm4 := h4.1.mono
            refine Spec.bind (Cur.i32_spec c4) (fun ⟨high, c5⟩ h5 => ?_)
            have hm5 := h5.1.mono
            refine Spec.bind (tableCount_spec low high) (fun n _ => ?_)
            refine Spec.weaken (pass1Table_spec _ n l1 c5) (fun r hr => ?_)
            simp only [Mono] at *; omega
          · split
            · refine Spec.bind (Cur.align_spec c1) (fun c2 h2 => ?_)
              have hm2 := h2.mono
              refine Spec.bind (Cur.branch32_spec _ c2) (fun ⟨t, c3⟩ h3 => ?_)
              have hm3 := h3.1.mono
              refine Spec.bind (Labels.getOrCreate_spec l t) (fun l1 _ => ?_)
              refine Spec.bind (Cur.i32_spec c3) (fun ⟨n, c4⟩ h4 => ?_)
              have hm4 := h4.1.mono
              refine Spec.bind (pairCount_spec n h4.2.2.2) (fun k _ => ?_)
              refine Spec.weaken (pass1Pairs_spec _ k l1 c4) (fun r hr => ?_)
              simp only [Mono] at *; omega
            · exact Spec.fail

/-- the first pass: any panic is at an open site (the label counter), allocation none -/
theorem pass1_spec : ∀ (fuel : Nat) (l : Labels) (c : Cur), Spec openSites B (pass1 fuel l c) (fun _ => True)
  | 0, l, c => by unfold pass1; split <;> first | exact Spec.ret _ trivial | exact Spec.fail
  | fuel + 1, l, c => by
    unfold pass1
    split
    · exact Spec.bind (pass1Step_spec l c) (fun ⟨l1, c1⟩ _ => pass1_spec fuel l1 c1)
    · split <;> first | exact Spec.ret _ trivial | exact Spec.fail

/-- fuel: more than `len - pos` never matters -/
theorem pass1_fuel : ∀ (f1 f2 : Nat) (l : Labels) (c : Cur), c.len - c.pos ≤ f1 → c.len - c.pos ≤ f2 →
    pass1 f1 l c = pass1 f2 l c
  | 0, 0, l, c, _, _ => rfl
  | 0, f2 + 1, l, c, h1, _ => by
    have : ¬ c.pos < c.len := by omega
    simp [pass1, this]
  | f1 + 1, 0, l, c, _, h2 => by
    have : ¬ c.pos < c.len := by omega
    simp [pass1, this]
  | f1 + 1, f2 + 1, l, c, h1, h2 => by
    unfold pass1
    split
    · funext st
      rw [bnd_apply, bnd_apply]
      have hs := (pass1Step_spec (B := 0) l c st).2
      cases hr : pass1Step l c st with
      | mk o st1 =>
        rw [hr] at hs
        cases o with
        | ok a =>
          obtain ⟨l1, c1⟩ := a
          have hs' : c.pos < c1.pos ∧ c1.len = c.len := hs
          dsimp only
          rw [pass1_fuel f1 f2 l1 c1 (by omega) (by omega)]
        | err => rfl
        | panic s => rfl
    · rfl

/-! ## second pass -/

/-- a cursor that has only been read from: `pos ≤ len` -/
def WF (c : Cur) : Prop := c.pos + c.rest.length = c.len

theorem WF.adv {c c' : Cur} (h : WF c) (ha : Adv c c') : WF c' := by
  simp only [WF, Adv] at *
  omega

theorem WF.start (code : Bytes) : WF (Cur.start code) := by simp [WF, Cur.start]

theorem readOperand_spec (o : Operand) (c : Cur) :
    Spec openSites B (readOperand o c) (fun c' => Adv c c' ∧ c'.pos = c.pos + o.size) := by
  cases o <;> simp only [readOperand, Operand.size]
  case none_ => exact Spec.ret _ ⟨Adv.refl c, rfl⟩
  case imm k => exact Spec.bind (Cur.take_spec k c) (fun ⟨_, c1⟩ h => Spec.ret _ ⟨h.1, h.2.1⟩)
  case ldc1 =>
    refine Spec.bind (Cur.u8_spec c) (fun ⟨i, c1⟩ h => ?_)
    exact Spec.bind (Spec.guard _) (fun _ _ => Spec.ret _ ⟨h.1, h.2.1⟩)
  case indy =>
    exact Spec.bind (Cur.u16_spec c) (fun ⟨i, c1⟩ h => Spec.fail)
  case newarray =>
    refine Spec.bind (Cur.u8_spec c) (fun ⟨i, c1⟩ h => ?_)
    exact Spec.bind (Spec.guard _) (fun _ _ => Spec.ret _ ⟨h.1, h.2.1⟩)
  case iface =>
    refine Spec.bind (Cur.u16_spec c) (fun ⟨i, c1⟩ h => ?_)
    refine Spec.bind (Spec.guard _) (fun _ _ => ?_)
    refine Spec.bind (Cur.take_spec 2 c1) (fun ⟨_, c2⟩ h2 => ?_)
    refine Spec.ret _ ⟨h.1.trans h2.1, ?_⟩
    have := h.2.1; have := h2.2.1
    show c2.pos = c.pos + 4
    simp only at *; omega
  case multi =>
    refine Spec.bind (Cur.u16_spec c) (fun ⟨i, c1⟩ h => ?_)
    refine Spec.bind (Spec.guard _) (fun _ _ => ?_)
    refine Spec.bind (Cur.take_spec 1 c1) (fun ⟨_, c2⟩ h2 => ?_)
    refine Spec.ret _ ⟨h.1.trans h2.1, ?_⟩
    have := h.2.1; have := h2.2.1
    show c2.pos = c.pos + 3
    simp only at *; omega
  all_goals
    refine Spec.bind (Cur.u16_spec c) (fun ⟨i, c1⟩ h => ?_)
    exact Spec.bind (Spec.guard _) (fun _ _ => Spec.ret _ ⟨h.1, h.2.1⟩)

/-- `iload_n` / `istore_n`: the two `u8` operations and the `unreachable!()` (sites 21–26) are silent inside their
match arm -/
theorem loadStoreN_spec (s1 s2 s3 base0 base op : Nat) (h0 : base0 ≤ op) (h1 : op ≤ base0 + 19) (hb : base + 4 ≤ 255) :
    Spec openSites B (loadStoreN s1 s2 s3 base0 base op) (fun _ => True) := by
  unfold loadStoreN
  refine Spec.bind (Spec.subU_le h0) (fun shifted hs => ?_)
  have hs' : shifted = op - base0 := hs
  refine Spec.bind (Spec.addU8_le (by omega)) (fun o ho => ?_)
  have ho' : o = base + shifted / 4 := ho
  refine Spec.check_true ?_
  simp only [Bool.and_eq_true, decide_eq_true_eq]
  omega

theorem pass2Table_spec (l : Labels) (p : Nat) : ∀ (n : Nat) (c : Cur),
    Spec openSites B (pass2Table l p n c) (fun c' => Adv c c')
  | 0, c => Spec.ret _ (Adv.refl c)
  | n + 1, c => by
    unfold pass2Table
    refine Spec.bind (Cur.branch32_spec p c) (fun ⟨t, c1⟩ h1 => ?_)
    refine Spec.bind (Labels.tryGet_spec l t) (fun _ _ => ?_)
    exact Spec.weaken (pass2Table_spec l p n c1) (fun r hr => h1.1.trans hr)

theorem pass2Pairs_spec (l : Labels) (p : Nat) : ∀ (n : Nat) (c : Cur),
    Spec openSites B (pass2Pairs l p n c) (fun c' => Adv c c')
  | 0, c => Spec.ret _ (Adv.refl c)
  | n + 1, c => by
    unfold pass2Pairs
    refine Spec.bind (Cur.i32_spec c) (fun ⟨k, c0⟩ h0 => ?_)
    refine Spec.bind (Cur.branch32_spec p c0) (fun ⟨t, c1⟩ h1 => ?_)
    refine Spec.bind (Labels.tryGet_spec l t) (fun _ _ => ?_)
    exact Spec.weaken (pass2Pairs_spec l p n c1) (fun r hr => (h0.1.trans h1.1).trans hr)

/-- one instruction of the second pass; `hB` pays for the two `Vec::with_capacity(n)` (sites 33, 34) -/
theorem pass2Step_spec (hB : 2147483647 ≤ B) (l : Labels) (c : Cur) :
    Spec openSites B (pass2Step l c) (fun c' => Adv c c' ∧ c.pos < c'.pos) := by
  unfold pass2Step
  refine Spec.bind (Cur.u8_spec c) (fun ⟨op, c1⟩ h1 => ?_)
  have ha1 := h1.1
  have hp1 : c1.pos = c.pos + 1 := h1.2.1
  have step : ∀ {c' : Cur}, Adv c1 c' → Adv c c' ∧ c.pos < c'.pos := by
    intro c' h
    refine ⟨ha1.trans h, ?_⟩
    simp only [Adv] at *
    omega
  dsimp only
  split
  · rename_i o _
    exact Spec.weaken (readOperand_spec o c1) (fun c' h => step h.1)
  · split
    · rename_i h
      exact Spec.bind (loadStoreN_spec _ _ _ 26 21 op h.1 (by omega) (by decide)) (fun _ _ => Spec.ret _ (step (Adv.refl c1)))
    · split
      · rename_i h
        exact Spec.bind (loadStoreN_spec _ _ _ 59 54 op h.1 (by omega) (by decide)) (fun _ _ => Spec.ret _ (step (Adv.refl c1)))
      · split
        · refine Spec.bind (Cur.branch16_spec _ c1) (fun ⟨t, c2⟩ h2 => ?_)
          exact Spec.bind (Labels.tryGet_spec l t) (fun _ _ => Spec.ret _ (step h2.1))
        · split
          · refine Spec.bind (Cur.branch32_spec _ c1) (fun ⟨t, c2⟩ h2 => ?_)
            exact Spec.bind (Labels.tryGet_spec l t) (fun _ _ => Spec.ret _ (step h2.1))
          · split
            · refine Spec.bind (Cur.align_spec c1) (fun c2 h2 => ?_)
              refine Spec.bind (Cur.branch32_spec _ c2) (fun ⟨t, c3⟩ h3 => ?_)
              refine Spec.bind (Labels.tryGet_spec l t) (fun _ _ => ?_)
              refine Spec.bind (Cur.i32_spec c3) (fun ⟨low, c4⟩ h4 => ?_)
              refine Spec.bind (Cur.i32_spec c4) (fun ⟨high, c5⟩ h5 => ?_)
              refine Spec.bind (tableCount_spec low high) (fun n hn => ?_)
              refine Spec.bind (Spec.request (Nat.le_trans hn hB)) (fun _ _ => ?_)
              exact Spec.weaken (pass2Table_spec l _ n c5) (fun c' h =>
                step ((((h2.trans h3.1).trans h4.1).trans h5.1).trans h))
            · split
              · refine Spec.bind (Cur.align_spec c1) (fun c2 h2 => ?_)
                refine Spec.bind (Cur.branch32_spec _ c2) (fun ⟨t, c3⟩ h3 => ?_)
                refine Spec.bind (Labels.tryGet_spec l t) (fun _ _ => ?_)
                refine Spec.bind (Cur.i32_spec c3) (fun ⟨n, c4⟩ h4 => ?_)
                refine Spec.bind (pairCount_spec n h4.2.2.2) (fun k hk => ?_)
                refine Spec.bind (Spec.request (Nat.le_trans hk hB)) (fun _ _ => ?_)
                exact Spec.weaken (pass2Pairs_spec l _ k c4) (fun c' h => step (((h2.trans h3.1).trans h4.1).trans h))
              · split
                · refine Spec.bind (Cur.u8_spec c1) (fun ⟨w, c2⟩ h2 => ?_)
                  dsimp only
                  split
                  · exact Spec.bind (Cur.take_spec 2 c2) (fun ⟨_, c3⟩ h3 => Spec.ret _ (step (h2.1.trans h3.1)))
                  · split
                    · exact Spec.bind (Cur.take_spec 4 c2) (fun ⟨_, c3⟩ h3 => Spec.ret _ (step (h2.1.trans h3.1)))
                    · exact Spec.fail
                · exact Spec.fail

/-- the second pass never slices past the end (site 20): it only reads -/
theorem pass2_spec (hB : 2147483647 ≤ B) (l : Labels) : ∀ (fuel : Nat) (c : Cur), WF c →
    Spec openSites B (pass2 l fuel c) (fun _ => True)
  | 0, c, h => by
    unfold pass2
    refine Spec.bind (Spec.check_true (by simp only [WF] at h; simp; omega)) (fun _ _ => ?_)
    split <;> first | exact Spec.ret _ trivial | exact Spec.fail
  | fuel + 1, c, h => by
    unfold pass2
    refine Spec.bind (Spec.check_true (by simp only [WF] at h; simp; omega)) (fun _ _ => ?_)
    split
    · exact Spec.bind (pass2Step_spec hB l c) (fun c1 h1 => pass2_spec hB l fuel c1 (h.adv h1.1))
    · exact Spec.ret _ trivial

theorem pass2_fuel (l : Labels) : ∀ (f1 f2 : Nat) (c : Cur), WF c → c.len - c.pos ≤ f1 → c.len - c.pos ≤ f2 →
    pass2 l f1 c = pass2 l f2 c
  | 0, 0, c, _, _, _ => rfl
  | 0, f2 + 1, c, _, h1, _ => by
    have : ¬ c.pos < c.len := by omega
    simp [pass2, this]
  | f1 + 1, 0, c, _, _, h2 => by
    have : ¬ c.pos < c.len := by omega
    simp [pass2, this]
  | f1 + 1, f2 + 1, c, hw, h1, h2 => by
    unfold pass2
    congr 1
    funext _
    split
    · funext st
      rw [bnd_apply, bnd_apply]
      have hs := (pass2Step_spec (B := 2147483647) (Nat.le_refl _) l c st).2
      cases hr : pass2Step l c st with
      | mk o st1 =>
        rw [hr] at hs
        cases o with
        | ok c1 =>
          have hs' : Adv c c1 ∧ c.pos < c1.pos := hs
          have hl : c1.len = c.len := hs'.1.2.1
          dsimp only
          rw [pass2_fuel l f1 f2 c1 (hw.adv hs'.1) (by omega) (by omega)]
        | err => rfl
        | panic s => rfl
    · rfl

theorem Spec.self {α : Type} {S : List Nat} {B : Nat} {m : TM α} {Q : α → Prop} (h : Spec S B m Q) :
    Spec S B m (fun a => Q a ∧ ∃ st, (m st).1 = .ok a) := by
  intro st
  have h1 := h st
  refine ⟨h1.1, ?_⟩
  cases hr : (m st).1 with
  | ok a => rw [hr] at h1; exact ⟨h1.2, st, hr⟩
  | err => trivial
  | panic s => rw [hr] at h1; exact h1.2

/-! ## exception table and attributes -/

/-- the unread input only shrinks -/
abbrev Shrinks (s : Bytes) (r : Labels × Bytes) : Prop := r.2.length ≤ s.length

theorem loopL_spec {body : Labels → Bytes → TM (Labels × Bytes)}
    (h : ∀ l s, Spec openSites B (body l s) (Shrinks s)) :
    ∀ n l s, Spec openSites B (loopL body n l s) (Shrinks s)
  | 0, l, s => Spec.ret _ (Nat.le_refl _)
  | n + 1, l, s => by
    unfold loopL
    exact Spec.bind (h l s) (fun ⟨l1, s1⟩ h1 => Spec.weaken (loopL_spec h n l1 s1) (fun r hr => Nat.le_trans hr h1))

theorem vecL_spec {body : Labels → Bytes → TM (Labels × Bytes)}
    (h : ∀ l s, Spec openSites B (body l s) (Shrinks s)) {n : Nat} (hn : n ≤ B) (l : Labels) (s : Bytes) :
    Spec openSites B (vecL body n l s) (Shrinks s) := by
  unfold vecL
  exact Spec.bind (Spec.request hn) (fun _ _ => loopL_spec h n l s)

theorem vec16L_spec (hB : 65535 ≤ B) {body : Labels → Bytes → TM (Labels × Bytes)}
    (h : ∀ l s, Spec openSites B (body l s) (Shrinks s)) (l : Labels) (s : Bytes) :
    Spec openSites B (vec16L body l s) (Shrinks s) := by
  unfold vec16L
  refine Spec.bind (Spec.u16 s) (fun ⟨n, s1⟩ hn => ?_)
  exact Spec.weaken (vecL_spec h (Nat.le_trans hn.2 hB) l s1) (fun r hr => by
    have h1 : s.length = s1.length + 2 := hn.1
    have h2 : r.2.length ≤ s1.length := hr
    show r.2.length ≤ s.length
    omega)

/-- closes the `Shrinks` goals `pin` leaves behind -/
macro "shrinks" : tactic => `(tactic| all_goals (simp only [Shrinks] at *; omega))

theorem readException_spec (l : Labels) (s : Bytes) : Spec openSites B (readException l s) (Shrinks s) := by
  unfold readException; pin; shrinks

theorem readVType_spec (l : Labels) (s : Bytes) : Spec openSites B (readVType l s) (Shrinks s) := by
  unfold readVType; pin; shrinks

/-- `read_stack_map_frame`: the three `u8` subtractions (sites 27, 28, 29) are silent inside their match arms -/
theorem readFrame_spec (hB : 65535 ≤ B) (l : Labels) (s : Bytes) :
    Spec openSites B (readFrame l s) (fun r => r.2.2.length ≤ s.length) := by
  unfold readFrame
  refine Spec.bind (Spec.u8 s) (fun ⟨t, s1⟩ h1 => ?_)
  have e1 : s.length = s1.length + 1 := h1.1
  dsimp only
  split
  · exact Spec.ret _ (by show s1.length ≤ s.length; omega)
  · split
    · refine Spec.bind (Spec.subU_le (by omega)) (fun _ _ => ?_)
      exact Spec.bind (readVType_spec l s1) (fun ⟨_, s2⟩ h2 => Spec.ret _ (by
        have : s2.length ≤ s1.length := h2
        show s2.length ≤ s.length; omega))
    · split
      · exact Spec.fail
      · split
        · refine Spec.bind (Spec.u16 s1) (fun ⟨_, s2⟩ h2 => ?_)
          have e2 : s1.length = s2.length + 2 := h2.1
          exact Spec.bind (readVType_spec l s2) (fun ⟨_, s3⟩ h3 => Spec.ret _ (by
            have : s3.length ≤ s2.length := h3
            show s3.length ≤ s.length; omega))
        · split
          · refine Spec.bind (Spec.u16 s1) (fun ⟨_, s2⟩ h2 => ?_)
            have e2 : s1.length = s2.length + 2 := h2.1
            exact Spec.bind (Spec.subU_le (by omega)) (fun _ _ => Spec.ret _ (by show s2.length ≤ s.length; omega))
          · split
            · refine Spec.bind (Spec.u16 s1) (fun ⟨_, s2⟩ h2 => Spec.ret _ ?_)
              have e2 : s1.length = s2.length + 2 := h2.1
              show s2.length ≤ s.length; omega
            · split
              · refine Spec.bind (Spec.u16 s1) (fun ⟨_, s2⟩ h2 => ?_)
                have e2 : s1.length = s2.length + 2 := h2.1
                refine Spec.bind (Spec.subU_le (by omega)) (fun k hk => ?_)
                have hk' : k = t - 251 := hk
                exact Spec.bind (vecL_spec readVType_spec (by omega) l s2) (fun ⟨_, s3⟩ h3 => Spec.ret _ (by
                  have : s3.length ≤ s2.length := h3
                  show s3.length ≤ s.length; omega))
              · refine Spec.bind (Spec.u16 s1) (fun ⟨_, s2⟩ h2 => ?_)
                have e2 : s1.length = s2.length + 2 := h2.1
                refine Spec.bind (vec16L_spec hB readVType_spec l s2) (fun ⟨l1, s3⟩ h3 => ?_)
                exact Spec.bind (vec16L_spec hB readVType_spec l1 s3) (fun ⟨_, s4⟩ h4 => Spec.ret _ (by
                  have : s3.length ≤ s2.length := h3
                  have : s4.length ≤ s3.length := h4
                  show s4.length ≤ s.length; omega))

theorem readFrames_spec (hB : 65535 ≤ B) : ∀ (n : Nat) (first : Bool) (offset : Nat) (l : Labels) (s : Bytes),
    Spec openSites B (readFrames n first offset l s) (Shrinks s)
  | 0, _, _, l, s => Spec.ret _ (Nat.le_refl _)
  | n + 1, first, offset, l, s => by
    unfold readFrames
    refine Spec.bind (readFrame_spec hB l s) (fun ⟨delta, l1, s1⟩ h1 => ?_)
    refine Spec.bind (Spec.guard _) (fun _ _ => ?_)
    refine Spec.bind (Spec.guard _) (fun _ _ => ?_)
    dsimp only
    refine Spec.bind (Labels.getOrCreate_spec l1 _) (fun l2 _ => ?_)
    exact Spec.weaken (readFrames_spec hB n false _ l2 s1) (fun r hr => Nat.le_trans hr h1)

theorem readCldcFrame_spec (hB : 65535 ≤ B) (l : Labels) (s : Bytes) :
    Spec openSites B (readCldcFrame l s) (fun r => r.2.2.length ≤ s.length) := by
  unfold readCldcFrame
  refine Spec.bind (Spec.u16 s) (fun ⟨off, s1⟩ h1 => ?_)
  have e1 : s.length = s1.length + 2 := h1.1
  refine Spec.bind (vec16L_spec hB readVType_spec l s1) (fun ⟨l1, s2⟩ h2 => ?_)
  exact Spec.bind (vec16L_spec hB readVType_spec l1 s2) (fun ⟨l2, s3⟩ h3 => Spec.ret _ (by
    have : s2.length ≤ s1.length := h2
    have : s3.length ≤ s2.length := h3
    show s3.length ≤ s.length; omega))

theorem readCldcFrames_spec (hB : 65535 ≤ B) : ∀ (n : Nat) (l : Labels) (acc : List Nat) (s : Bytes),
    Spec openSites B (readCldcFrames n l acc s) (fun r => r.2.2.length ≤ s.length)
  | 0, l, acc, s => Spec.ret _ (Nat.le_refl _)
  | n + 1, l, acc, s => by
    unfold readCldcFrames
    exact Spec.bind (readCldcFrame_spec hB l s) (fun ⟨o, l1, s1⟩ h1 =>
      Spec.weaken (readCldcFrames_spec hB n l1 (o :: acc) s1) (fun r hr => Nat.le_trans hr h1))

theorem createAll_spec : ∀ (os : List Nat) (l : Labels), Spec openSites B (createAll os l) (fun _ => True)
  | [], l => Spec.ret _ trivial
  | o :: os, l => by
    unfold createAll
    exact Spec.bind (Labels.getOrCreate_spec l o) (fun l1 _ => createAll_spec os l1)

theorem readLine_spec (l : Labels) (s : Bytes) : Spec openSites B (readLine l s) (Shrinks s) := by
  unfold readLine; pin; shrinks

theorem readLv_spec (l : Labels) (s : Bytes) : Spec openSites B (readLv l s) (Shrinks s) := by
  unfold readLv; pin; shrinks

theorem readLvTarget_spec (l : Labels) (s : Bytes) : Spec openSites B (readLvTarget l s) (Shrinks s) := by
  unfold readLvTarget; pin; shrinks

theorem readTargetCode_spec (l : Labels) (s : Bytes) : Spec openSites B (readTargetCode l s) (Shrinks s) := by
  unfold readTargetCode
  refine Spec.bind (Spec.u8 s) (fun ⟨t, s1⟩ h1 => ?_)
  have e1 : s.length = s1.length + 1 := h1.1
  dsimp only
  split
  · refine Spec.bind (Spec.u16 s1) (fun ⟨n, s2⟩ h2 => ?_)
    have e2 : s1.length = s2.length + 2 := h2.1
    exact Spec.weaken (loopL_spec readLvTarget_spec n l s2) (fun r hr => by
      have : r.2.length ≤ s2.length := hr
      show r.2.length ≤ s.length; omega)
  · pin; shrinks

/-- the inner `match kind { 0 | 1 | 2 => …, _ => unreachable!() }` (site 32) -/
theorem readTypePathEntry_spec (s : Bytes) : Spec openSites B (readTypePathEntry s) (fun r => r.2.length ≤ s.length) := by
  unfold readTypePathEntry
  refine Spec.bind (Spec.u8 s) (fun ⟨kind, s1⟩ h1 => ?_)
  refine Spec.bind (Spec.u8 s1) (fun ⟨arg, s2⟩ h2 => ?_)
  have e : s2.length ≤ s.length := by have := h1.1; have := h2.1; simp only at *; omega
  dsimp only
  split
  · rename_i h
    refine Spec.bind (Spec.check_true ?_) (fun _ _ => ?_)
    · have : kind = 0 ∨ kind = 1 ∨ kind = 2 := by omega
      rcases this with h | h | h <;> subst h <;> rfl
    · exact Spec.bind (Spec.guard _) (fun _ _ => Spec.ret _ e)
  · split
    · exact Spec.ret _ e
    · exact Spec.fail

theorem readTypePath_spec (s : Bytes) : Spec openSites B (readTypePath s) (fun r => r.2.length ≤ s.length) := by
  unfold readTypePath
  refine Spec.bind (Spec.u8 s) (fun ⟨n, s1⟩ h1 => ?_)
  exact Spec.weaken (Spec.loopN readTypePathEntry_spec n s1) (fun r hr => by
    have e1 : s.length = s1.length + 1 := h1.1
    have : r.2.length ≤ s1.length := hr
    omega)

theorem readTypeAnno_spec (l : Labels) (s : Bytes) : Spec openSites B (readTypeAnno l s) (Shrinks s) := by
  unfold readTypeAnno
  refine Spec.bind (readTargetCode_spec l s) (fun ⟨l1, s1⟩ h1 => ?_)
  refine Spec.bind (readTypePath_spec s1) (fun ⟨_, s2⟩ h2 => ?_)
  refine Spec.bind (Spec.u16 s2) (fun ⟨d, s3⟩ h3 => ?_)
  refine Spec.bind (Spec.guard _) (fun _ _ => ?_)
  exact Spec.bind (Anno.readPairs_spec s3) (fun ⟨_, s4⟩ h4 => Spec.ret _ (by
    have : s1.length ≤ s.length := h1
    have : s2.length ≤ s1.length := h2
    have : s2.length = s3.length + 2 := h3.1
    have : s4.length ≤ s3.length := h4
    show s4.length ≤ s.length; omega))

/-- one attribute of the Code attribute; `hs`: the bound also covers the bytes still unread (the buffer of an unknown
attribute holds at most those) -/
theorem readCodeAttr_spec (hB : 65535 ≤ B) (st : AttrState) (s : Bytes) (hs : s.length ≤ B) :
    Spec openSites B (readCodeAttr st s) (fun r => r.2.length ≤ s.length) := by
  unfold readCodeAttr
  refine Spec.bind (Spec.u16 s) (fun ⟨ni, s1⟩ h1 => ?_)
  have e1 : s.length = s1.length + 2 := h1.1
  refine Spec.bind (Spec.ofOption _) (fun name _ => ?_)
  refine Spec.bind (Spec.u32 s1) (fun ⟨length, s2⟩ h2 => ?_)
  have e2 : s1.length = s2.length + 4 := h2.1
  dsimp only
  split
  · refine Spec.bind (Spec.u16 s2) (fun ⟨n, s3⟩ hn => ?_)
    have e3 : s2.length = s3.length + 2 := hn.1
    refine Spec.bind (Spec.request (Nat.le_trans hn.2 hB)) (fun _ _ => ?_)
    refine Spec.bind (readFrames_spec hB n true 0 st.labels s3) (fun ⟨l, s4⟩ h4 => ?_)
    exact Spec.bind (Spec.guard _) (fun _ _ => Spec.ret _ (by
      have : s4.length ≤ s3.length := h4
      show s4.length ≤ s.length; omega))
  · split
    · refine Spec.bind (Spec.u16 s2) (fun ⟨n, s3⟩ hn => ?_)
      have e3 : s2.length = s3.length + 2 := hn.1
      refine Spec.bind (Spec.request (Nat.le_trans hn.2 hB)) (fun _ _ => ?_)
      refine Spec.bind (readCldcFrames_spec hB n st.labels [] s3) (fun ⟨l, offsets, s4⟩ h4 => ?_)
      refine Spec.bind (createAll_spec _ l) (fun l2 _ => ?_)
      exact Spec.bind (Spec.guard _) (fun _ _ => Spec.ret _ (by
        have : s4.length ≤ s3.length := h4
        show s4.length ≤ s.length; omega))
    · split
      · refine Spec.bind (Spec.u16 s2) (fun ⟨n, s3⟩ hn => ?_)
        have e3 : s2.length = s3.length + 2 := hn.1
        exact Spec.bind (loopL_spec readLine_spec n st.labels s3) (fun ⟨_, s4⟩ h4 => Spec.ret _ (by
          have : s4.length ≤ s3.length := h4
          show s4.length ≤ s.length; omega))
      · split
        · refine Spec.bind (Spec.u16 s2) (fun ⟨n, s3⟩ hn => ?_)
          have e3 : s2.length = s3.length + 2 := hn.1
          exact Spec.bind (loopL_spec readLv_spec n st.labels s3) (fun ⟨_, s4⟩ h4 => Spec.ret _ (by
            have : s4.length ≤ s3.length := h4
            show s4.length ≤ s.length; omega))
        · split
          · refine Spec.bind (Spec.u16 s2) (fun ⟨n, s3⟩ hn => ?_)
            have e3 : s2.length = s3.length + 2 := hn.1
            exact Spec.bind (loopL_spec readTypeAnno_spec n st.labels s3) (fun ⟨_, s4⟩ h4 => Spec.ret _ (by
              have : s4.length ≤ s3.length := h4
              show s4.length ≤ s.length; omega))
          · exact Spec.bind (Spec.takeVec s2 (Or.inr (by omega))) (fun ⟨_, s3⟩ h3 => Spec.ret _ (by
              have : s3.length ≤ s2.length := h3.2
              show s3.length ≤ s.length; omega))

theorem readCodeAttrs_spec (hB : 65535 ≤ B) : ∀ (n : Nat) (st : AttrState) (s : Bytes), s.length ≤ B →
    Spec openSites B (readCodeAttrs n st s) (fun _ => True)
  | 0, st, s, _ => Spec.ret _ trivial
  | n + 1, st, s, hs => by
    unfold readCodeAttrs
    exact Spec.bind (readCodeAttr_spec hB st s hs) (fun ⟨st1, s1⟩ h1 =>
      readCodeAttrs_spec hB n st1 s1 (Nat.le_trans h1 hs))

theorem Labels.new_spec (hB : 65535 ≤ B) {n : Nat} (hn : n ≤ 65535) : Spec openSites B (Labels.new n) (fun _ => True) := by
  unfold Labels.new
  exact Spec.bind (Spec.request (by omega)) (fun _ _ => Spec.ret _ trivial)

/-- `read_code` up to the second pass, shared by the two bounds below: the continuation gets the bytecode, the labels
after the attributes and the fact that the first pass succeeded on that bytecode -/
theorem readCode_spec_gen (hB : 65535 ≤ B) (s : Bytes) (hs : s.length ≤ B)
    (hp2 : ∀ (code : Bytes) (l : Labels), code.length ≤ 65535 →
      (∃ l0 st l1, (pass1 code.length l0 (Cur.start code) st).1 = .ok l1) →
      Spec openSites B (pass2 l code.length (Cur.start code)) (fun _ => True)) :
    Spec openSites B (readCode s) (fun _ => True) := by
  unfold readCode
  refine Spec.bind (Spec.u16 s) (fun ⟨_, s1⟩ h1 => ?_)
  refine Spec.bind (Spec.u16 s1) (fun ⟨_, s2⟩ h2 => ?_)
  refine Spec.bind (Spec.u32 s2) (fun ⟨cl, s3⟩ h3 => ?_)
  have e3 : s3.length ≤ s.length := by have := h1.1; have := h2.1; have := h3.1; simp only at *; omega
  refine Spec.bind (Spec.guard _) (fun _ hg => ?_)
  have hcl : cl ≤ 65535 := by
    simp only [Bool.and_eq_true, decide_eq_true_eq] at hg
    exact hg.2
  refine Spec.bind (Labels.new_spec hB hcl) (fun l _ => ?_)
  refine Spec.bind (Spec.takeVec s3 (Or.inl (Nat.le_trans hcl hB))) (fun ⟨code, s4⟩ hcode => ?_)
  have hlen : code.length ≤ 65535 := by have : code.length = cl := hcode.1; omega
  have e4 : s4.length ≤ s3.length := hcode.2
  refine Spec.bind (Spec.self (pass1_spec code.length l (Cur.start code))) (fun l1 hp1 => ?_)
  refine Spec.bind (vec16L_spec hB readException_spec l1 s4) (fun ⟨l2, s5⟩ h5 => ?_)
  have e5 : s5.length ≤ s4.length := h5
  refine Spec.bind (Spec.u16 s5) (fun ⟨n, s6⟩ h6 => ?_)
  have e6 : s5.length = s6.length + 2 := h6.1
  refine Spec.bind (readCodeAttrs_spec hB n _ s6 (by omega)) (fun ⟨st, _⟩ _ => ?_)
  obtain ⟨_, st0, hst⟩ := hp1
  exact hp2 code st.labels hlen ⟨l, st0, l1, hst⟩

/-- `read_code` never panics; `alloc` stays below `B` (weak form: the switch capacities of the second pass are only
known to be below 2^31 here) -/
theorem readCode_spec (hB : 2147483647 ≤ B) (s : Bytes) (hs : s.length ≤ B) : Spec openSites B (readCode s) (fun _ => True) :=
  readCode_spec_gen (by omega) s hs (fun code l _ _ => pass2_spec hB l code.length (Cur.start code) (WF.start code))

/-! ## the label counter: all 65536 offsets can be labelled (regression of former site 2) -/

theorem or_two_pow (k : Nat) : (2 ^ k - 1) ||| (1 <<< k) = 2 ^ (k + 1) - 1 := by
  apply Nat.eq_of_testBit_eq
  intro i
  rw [Nat.testBit_or, Nat.testBit_two_pow_sub_one, Nat.testBit_two_pow_sub_one, Nat.one_shiftLeft, Nat.testBit_two_pow]
  by_cases h1 : i < k <;> by_cases h2 : k = i <;> simp [h1, h2] <;> omega

theorem addUnchecked_fresh (cl k : Nat) (st : Acct) :
    Labels.addUnchecked ⟨cl, 2 ^ k - 1, k⟩ k st = (.ok ⟨cl, 2 ^ (k + 1) - 1, k + 1⟩, st) := by
  unfold Labels.addUnchecked Labels.has
  simp only [Nat.testBit_two_pow_sub_one, Nat.lt_irrefl, decide_false, Bool.false_eq_true, if_false, ret_apply, or_two_pow]

theorem addRange_new (cl : Nat) (k : Nat) : ∀ (st : Acct),
    Labels.addRange ⟨cl, 0, 0⟩ k st = (.ok ⟨cl, 2 ^ k - 1, k⟩, st) := by
  induction k with
  | zero => intro st; rfl
  | succ k ih =>
    intro st
    unfold Labels.addRange
    rw [bnd_apply, ih st]
    exact addUnchecked_fresh cl k st

end Total.Code
