import FeatherModel.Model.ClassWriteFull
import FeatherModel.Lemmas.FramePool
import FeatherModel.Spec.ClassEncode

/-!
# C02 (whole writer) — the pool the writer builds, seen through C01's reader

`rpool p` is the table C01's reader builds from the pool image `PoolWrite::write` emits for `p`.  An index at which the
writer's pool holds an entry resolves, in the reader's table of **every later (larger) pool**, to that entry
(`rget_of_get`, `At.mono`): so whatever index a put returned keeps its meaning in the final pool.
-/

namespace ClassWriteFull
open PoolWrite (Entry)
open FramePool (Good Le)
open ClassRead ClassRead.Spec

/-- the writer's entry as the reader's `cp_info` -/
def conv : Entry → PoolEntry
  | .utf8 s => .utf8 s
  | .int v => .int v
  | .float b => .float b
  | .long v => .long v
  | .double b => .double b
  | .cls n => .cls n
  | .str s => .str s
  | .fieldRef c nt => .fieldRef c nt
  | .methodRef c nt => .methodRef c nt
  | .ifaceMethodRef c nt => .ifaceMethodRef c nt
  | .nameAndType n d => .nameAndType n d
  | .methodHandle k i => .methodHandle k i
  | .methodType d => .methodType d
  | .dynamic b nt => .dynamic b nt
  | .invokeDynamic b nt => .invokeDynamic b nt
  | .module n => .module n
  | .package n => .package n

theorem poolSlots_conv (e : Entry) : poolSlots (conv e) = PoolWrite.slots e := by
  cases e <;> rfl

/-- the entries of the pool in file order, as the reader's entries -/
def rentries (p : Pool) : List PoolEntry := (PoolWrite.inner p).map conv

/-- the table the reader builds from the written pool -/
def rpool (p : Pool) : ClassRead.Pool := poolTable (rentries p)

theorem poolSlotsOf_append (xs ys : List PoolEntry) : poolSlotsOf (xs ++ ys) = poolSlotsOf xs ++ poolSlotsOf ys := by
  simp [poolSlotsOf, List.flatMap_append]

theorem poolSlotsOf_single (e : PoolEntry) :
    poolSlotsOf [e] = if poolSlots e = 2 then [some e, none] else [some e] := by
  simp [poolSlotsOf]

/-- table of a well-formed entry list: its length is `count`, and every stored index holds its entry -/
theorem table_of_wf {c : Nat} {es : List (Entry × Nat)} (h : PoolWrite.WF c es) :
    (poolTable (((es.map (·.1)).reverse).map conv)).length = c ∧
      ∀ e i, (e, i) ∈ es → (poolTable (((es.map (·.1)).reverse).map conv))[i]? = some (some (conv e)) := by
  induction h with
  | nil => exact ⟨rfl, fun e i hm => by cases hm⟩
  | @cons c e0 i0 rest hw hf hc ih =>
    obtain ⟨hl, hi⟩ := ih
    have hT : poolTable ((((e0, i0) :: rest).map (·.1)).reverse.map conv)
        = poolTable (((rest.map (·.1)).reverse).map conv) ++ poolSlotsOf [conv e0] := by
      simp [poolTable, poolSlotsOf_append]
    rw [hT]
    have hs : (poolSlotsOf [conv e0]).length = PoolWrite.slots e0 := by
      rw [poolSlotsOf_single, poolSlots_conv]
      have := PoolWrite.slots_pos e0
      have := PoolWrite.slots_le e0
      by_cases h2 : PoolWrite.slots e0 = 2
      · simp [h2]
      · simp [h2]; omega
    refine ⟨by rw [List.length_append, hl, hs, hc], ?_⟩
    intro e i hm
    rcases List.mem_cons.mp hm with h | h
    · cases h
      rw [List.getElem?_append_right (by omega), hl, Nat.sub_self, poolSlotsOf_single]
      split <;> rfl
    · have := (PoolWrite.wf_range hw e i h).2
      have := PoolWrite.slots_pos e
      rw [List.getElem?_append_left (by omega)]
      exact hi e i h

/-- an index the writer's pool holds resolves in the reader's table to the same entry -/
theorem rget_of_get {p : Pool} (hw : p.WF) {i : Nat} {e : Entry} (hg : p.get i = some e) :
    (rpool p).get i = .ok (conv e) := by
  have hm := PoolWrite.mem_of_get (c := p.count) (es := p.entries) hg
  have := (table_of_wf hw).2 e i hm
  unfold rpool rentries PoolWrite.inner ClassRead.Pool.get
  rw [this]

theorem rpool_length {p : Pool} (hw : p.WF) : (rpool p).length = p.count := (table_of_wf hw).1

/-- `poolCount` of the written entries is `constant_pool_count` -/
theorem poolCount_rentries {p : Pool} (hw : p.WF) : poolCount (rentries p) = p.count := by
  have h1 := PoolWrite.wf_count hw
  unfold poolCount rentries PoolWrite.inner
  rw [h1]
  congr 1
  simp only [List.map_map, List.map_reverse, List.sum_reverse]
  congr 1
  apply List.map_congr_left
  intro x _
  simp [poolSlots_conv]

/-! ## what an index denotes in the writer's pool (stable under growth) -/

/-- `q` is a pool the writer can have reached from `p`: good, and every index of `p` keeps its entry -/
structure Ext (p q : Pool) : Prop where
  good : Good q
  le : Le p q

theorem Ext.of_le {p p' q : Pool} (h : Le p p') (e : Ext p' q) : Ext p q := ⟨e.good, h.trans e.le⟩
theorem Ext.refl {p : Pool} (h : Good p) : Ext p p := ⟨h, Le.refl p⟩

def Utf8At (p : Pool) (i : Nat) (s : JStr) : Prop := p.get i = some (.utf8 s)
def ClsAt (p : Pool) (i : Nat) (c : JStr) : Prop := ∃ u, p.get i = some (.cls u) ∧ Utf8At p u c
def StrAt (p : Pool) (i : Nat) (s : JStr) : Prop := ∃ u, p.get i = some (.str u) ∧ Utf8At p u s
def PkgAt (p : Pool) (i : Nat) (s : JStr) : Prop := ∃ u, p.get i = some (.package u) ∧ Utf8At p u s
def ModAt (p : Pool) (i : Nat) (s : JStr) : Prop := ∃ u, p.get i = some (.module u) ∧ Utf8At p u s
def NatAt (p : Pool) (i : Nat) (n d : JStr) : Prop :=
  ∃ a b, p.get i = some (.nameAndType a b) ∧ Utf8At p a n ∧ Utf8At p b d

theorem Utf8At.mono {p q : Pool} (h : Le p q) {i : Nat} {s : JStr} (a : Utf8At p i s) : Utf8At q i s := h _ _ a
theorem ClsAt.mono {p q : Pool} (h : Le p q) {i : Nat} {s : JStr} : ClsAt p i s → ClsAt q i s
  | ⟨u, a, b⟩ => ⟨u, h _ _ a, b.mono h⟩
theorem StrAt.mono {p q : Pool} (h : Le p q) {i : Nat} {s : JStr} : StrAt p i s → StrAt q i s
  | ⟨u, a, b⟩ => ⟨u, h _ _ a, b.mono h⟩
theorem PkgAt.mono {p q : Pool} (h : Le p q) {i : Nat} {s : JStr} : PkgAt p i s → PkgAt q i s
  | ⟨u, a, b⟩ => ⟨u, h _ _ a, b.mono h⟩
theorem ModAt.mono {p q : Pool} (h : Le p q) {i : Nat} {s : JStr} : ModAt p i s → ModAt q i s
  | ⟨u, a, b⟩ => ⟨u, h _ _ a, b.mono h⟩
theorem NatAt.mono {p q : Pool} (h : Le p q) {i : Nat} {n d : JStr} : NatAt p i n d → NatAt q i n d
  | ⟨a, b, x, y, z⟩ => ⟨a, b, h _ _ x, y.mono h, z.mono h⟩

/-! ## the reader's resolvers on the written pool -/

theorem getUtf8_of {q : Pool} (hq : Good q) {i : Nat} {s : JStr} (h : Utf8At q i s) : (rpool q).getUtf8 i = .ok s := by
  simp [Pool.getUtf8, rget_of_get hq.1 h, conv, bind, Outcome.bind]

theorem getClass_of {q : Pool} (hq : Good q) {i : Nat} {c : JStr} (h : ClsAt q i c) (hv : validClassName c = true) :
    (rpool q).getClass i = .ok c := by
  obtain ⟨u, a, b⟩ := h
  simp [Pool.getClass, rget_of_get hq.1 a, conv, getUtf8_of hq b, checked, hv, bind, Outcome.bind]

theorem getObjClass_of {q : Pool} (hq : Good q) {i : Nat} {c : JStr} (h : ClsAt q i c) (hv : validObjClassName c = true) :
    (rpool q).getObjClass i = .ok c := by
  obtain ⟨u, a, b⟩ := h
  simp [Pool.getObjClass, rget_of_get hq.1 a, conv, getUtf8_of hq b, checked, hv, bind, Outcome.bind]

theorem getPackage_of {q : Pool} (hq : Good q) {i : Nat} {c : JStr} (h : PkgAt q i c) : (rpool q).getPackage i = .ok c := by
  obtain ⟨u, a, b⟩ := h
  simp [Pool.getPackage, rget_of_get hq.1 a, conv, getUtf8_of hq b, bind, Outcome.bind]

theorem getModule_of {q : Pool} (hq : Good q) {i : Nat} {c : JStr} (h : ModAt q i c) : (rpool q).getModule i = .ok c := by
  obtain ⟨u, a, b⟩ := h
  simp [Pool.getModule, rget_of_get hq.1 a, conv, getUtf8_of hq b, bind, Outcome.bind]

theorem getNameAndType_of {q : Pool} (hq : Good q) {i : Nat} {n d : JStr} (h : NatAt q i n d) :
    (rpool q).getNameAndType i = .ok (n, d) := by
  obtain ⟨a, b, x, y, z⟩ := h
  simp [Pool.getNameAndType, rget_of_get hq.1 x, conv, getUtf8_of hq y, getUtf8_of hq z, bind, Outcome.bind]

/-! ## `Except` plumbing -/

theorem bind_eq_ok {α β : Type} {x : Except Fail α} {f : α → Except Fail β} {b : β} :
    (x >>= f) = .ok b ↔ ∃ a, x = .ok a ∧ f a = .ok b := by
  cases x with
  | error e => simp [bind, Except.bind]
  | ok a => simp [bind, Except.bind]

theorem opt_eq_ok {α : Type} {o : Option α} {a : α} : opt o = .ok a ↔ o = some a := by
  cases o <;> simp [opt]

theorem cnt8_eq_ok {n : Nat} {b : Bytes} : cnt8 n = .ok b ↔ n ≤ 255 ∧ b = [n] := by
  unfold cnt8; split
  · simp_all [eq_comm]
  · simp; intro h; omega
theorem cnt16_eq_ok {n : Nat} {b : Bytes} : cnt16 n = .ok b ↔ n ≤ 65535 ∧ b = be16 n := by
  unfold cnt16; split
  · simp_all [eq_comm]
  · simp; intro h; omega
theorem cnt32_eq_ok {n : Nat} {b : Bytes} : cnt32 n = .ok b ↔ n ≤ 4294967295 ∧ b = be32 n := by
  unfold cnt32; split
  · simp_all [eq_comm]
  · simp; intro h; omega

/-! ## the puts -/

/-- what every put guarantees about the pool -/
structure Step (p p' : Pool) : Prop where
  good : Good p'
  le : Le p p'

theorem Step.trans {p p' p'' : Pool} (a : Step p p') (b : Step p' p'') : Step p p'' := ⟨b.good, a.le.trans b.le⟩
theorem Step.refl {p : Pool} (h : Good p) : Step p p := ⟨h, Le.refl p⟩

theorem put_spec {p p' : Pool} {e : Entry} {i : Nat} (hg : Good p) (h : put p e = .ok (i, p')) :
    Step p p' ∧ p'.get i = some e ∧ i < 65536 := by
  have h' := opt_eq_ok.mp h
  obtain ⟨g, l, a, _, b, _⟩ := FramePool.put_good hg h'
  exact ⟨⟨g, l⟩, a, by omega⟩

theorem putUtf8_spec {p p' : Pool} {s : JStr} {i : Nat} (hg : Good p) (h : putUtf8 p s = .ok (i, p')) :
    Step p p' ∧ Utf8At p' i s ∧ i < 65536 := put_spec hg h

/-- index + utf8 then a wrapping entry (`Class`, `String`, `Package`, `Module`, `MethodType`) -/
theorem put2_spec {p p' : Pool} {s : JStr} {i : Nat} (mk : Nat → Entry) (hg : Good p)
    (h : (match PoolWrite.putUtf8 p s with | none => none | some (u, p1) => PoolWrite.put p1 (mk u)) = some (i, p')) :
    Step p p' ∧ (∃ u, p'.get i = some (mk u) ∧ Utf8At p' u s) ∧ i < 65536 := by
  split at h
  · cases h
  · rename_i u p1 h1
    obtain ⟨s1, a1, _⟩ := put_spec hg (opt_eq_ok.mpr h1)
    obtain ⟨s2, a2, b2⟩ := put_spec s1.good (opt_eq_ok.mpr h)
    exact ⟨s1.trans s2, ⟨u, a2, s2.le _ _ a1⟩, b2⟩

theorem putClass_spec {p p' : Pool} {c : JStr} {i : Nat} (hg : Good p) (h : putClass p c = .ok (i, p')) :
    Step p p' ∧ ClsAt p' i c ∧ i < 65536 :=
  put2_spec .cls hg (opt_eq_ok.mp h)

theorem putString_spec {p p' : Pool} {c : JStr} {i : Nat} (hg : Good p) (h : putString p c = .ok (i, p')) :
    Step p p' ∧ StrAt p' i c ∧ i < 65536 :=
  put2_spec .str hg (opt_eq_ok.mp h)

theorem putPackage_spec {p p' : Pool} {c : JStr} {i : Nat} (hg : Good p) (h : putPackage p c = .ok (i, p')) :
    Step p p' ∧ PkgAt p' i c ∧ i < 65536 := by
  obtain ⟨⟨u, p1⟩, h1, h2⟩ := bind_eq_ok.mp h
  obtain ⟨s1, a1, _⟩ := putUtf8_spec hg h1
  obtain ⟨s2, a2, b2⟩ := put_spec s1.good h2
  exact ⟨s1.trans s2, ⟨u, a2, a1.mono s2.le⟩, b2⟩

theorem putModule_spec {p p' : Pool} {c : JStr} {i : Nat} (hg : Good p) (h : putModule p c = .ok (i, p')) :
    Step p p' ∧ ModAt p' i c ∧ i < 65536 := by
  obtain ⟨⟨u, p1⟩, h1, h2⟩ := bind_eq_ok.mp h
  obtain ⟨s1, a1, _⟩ := putUtf8_spec hg h1
  obtain ⟨s2, a2, b2⟩ := put_spec s1.good h2
  exact ⟨s1.trans s2, ⟨u, a2, a1.mono s2.le⟩, b2⟩

theorem putNameAndType_spec {p p' : Pool} {n d : JStr} {i : Nat} (hg : Good p) (h : putNameAndType p n d = .ok (i, p')) :
    Step p p' ∧ NatAt p' i n d ∧ i < 65536 := by
  have h' := opt_eq_ok.mp h
  unfold PoolWrite.putNameAndType at h'
  split at h'
  · cases h'
  · rename_i a p1 h1
    split at h'
    · cases h'
    · rename_i b p2 h2
      obtain ⟨s1, a1, _⟩ := put_spec hg (opt_eq_ok.mpr h1)
      obtain ⟨s2, a2, _⟩ := put_spec s1.good (opt_eq_ok.mpr h2)
      obtain ⟨s3, a3, b3⟩ := put_spec s2.good (opt_eq_ok.mpr h')
      exact ⟨(s1.trans s2).trans s3, ⟨a, b, a3, Utf8At.mono (s2.le.trans s3.le) a1, Utf8At.mono s3.le a2⟩, b3⟩

/-- a stored index is at least 1 (index 0 is never handed out) -/
theorem one_le_of_get {p : Pool} (hg : Good p) {i : Nat} {e : Entry} (h : p.get i = some e) : 1 ≤ i :=
  (PoolWrite.wf_range hg.1 e i (PoolWrite.mem_of_get (c := p.count) (es := p.entries) h)).1

/-- `put_optional`: 0 for `None`, otherwise what the put gives (an index ≥ 1) -/
theorem putOptional_spec {α : Type} {f : Pool → α → Except Fail (Nat × Pool)} (At : Pool → Nat → α → Prop)
    (hf : ∀ p p' a i, Good p → f p a = .ok (i, p') → Step p p' ∧ At p' i a ∧ 1 ≤ i ∧ i < 65536)
    {p p' : Pool} {x : Option α} {i : Nat} (hg : Good p) (h : putOptional f p x = .ok (i, p')) :
    Step p p' ∧ i < 65536 ∧ ((x = none ∧ i = 0) ∨ ∃ a, x = some a ∧ At p' i a ∧ 1 ≤ i) := by
  cases x with
  | none =>
    have := (Except.ok.injEq _ _).mp h
    cases this
    exact ⟨Step.refl hg, by omega, Or.inl ⟨rfl, rfl⟩⟩
  | some a =>
    obtain ⟨s, a1, h1, h2⟩ := hf p p' a i hg h
    exact ⟨s, h2, Or.inr ⟨a, rfl, a1, h1⟩⟩

theorem putUtf8_spec' {p p' : Pool} {s : JStr} {i : Nat} (hg : Good p) (h : putUtf8 p s = .ok (i, p')) :
    Step p p' ∧ Utf8At p' i s ∧ 1 ≤ i ∧ i < 65536 := by
  obtain ⟨a, b, c⟩ := putUtf8_spec hg h
  exact ⟨a, b, one_le_of_get a.good b, c⟩

theorem putClass_spec' {p p' : Pool} {s : JStr} {i : Nat} (hg : Good p) (h : putClass p s = .ok (i, p')) :
    Step p p' ∧ ClsAt p' i s ∧ 1 ≤ i ∧ i < 65536 := by
  obtain ⟨a, b, c⟩ := putClass_spec hg h
  obtain ⟨u, hu, _⟩ := b
  exact ⟨a, ⟨u, hu, by assumption⟩, one_le_of_get a.good hu, c⟩

theorem getOptional_zero {α : Type} (rp : ClassRead.Pool) (f : ClassRead.Pool → Nat → Outcome α) :
    rp.getOptional 0 f = .ok none := by simp [Pool.getOptional]

theorem getOptional_pos {α : Type} (rp : ClassRead.Pool) (f : ClassRead.Pool → Nat → Outcome α) {i : Nat} {a : α}
    (hi : 1 ≤ i) (h : f rp i = .ok a) : rp.getOptional i f = .ok (some a) := by
  have : i ≠ 0 := by omega
  simp [Pool.getOptional, this, h, bind, Outcome.bind]

end ClassWriteFull
