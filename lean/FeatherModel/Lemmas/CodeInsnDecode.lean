import FeatherModel.Lemmas.CodeDecodeEq
import FeatherModel.Lemmas.CodePatch

/-!
# What the final bytes of one instruction decode to

`fin` = the chunk `encInsn` wrote for instruction `i` at position `p`, after the `for unwritten` loop patched the
reserved spaces of that chunk using the final label table `lp`.
-/

namespace CodeWrite
open CodeDecode CodeDenote

theorem resolveAt_nil (base : Nat) (lp : Nat → Option Nat) (bs : Bytes) : resolveAt base lp [] bs = some bs := rfl

theorem resolveAt_single (base : Nat) (lp : Nat → Option Nat) (u : Unwritten) (bs : Bytes) :
    resolveAt base lp [u] bs = (patchVal lp u).map (patchL bs (u.writePos - base)) := by
  simp only [resolveAt]
  cases patchVal lp u <;> rfl

theorem lands_self {lp : Nat → Option Nat} {t tp : Nat} (h : lp t = some tp) : lands lp t (tp : Int) = true := by
  simp [lands, h]

/-- instructions without labels -/
def plainInsn : Insn → Bool
  | .ifc _ _ => false
  | .goto _ => false
  | .jsr _ => false
  | .tableswitch .. => false
  | .lookupswitch .. => false
  | _ => true

theorem plain_decoded (lp : Nat → Option Nat) (p : Nat) (i : Insn) (hwt : wt i = true) (bs : Bytes)
    (hnl : plainInsn i = true)
    (henc : ∀ isWide lbl k, encInsn isWide lbl p k i = .ok (bs, [])) :
    Decoded lp p i bs := by
  have h := henc false (fun _ => none) 0
  cases i with
  | simple op =>
    simp only [encInsn] at h; cases h
    simp only [wt] at hwt
    exact .single (.simple op) (by simp) (fun rest => by simpa using decodeOne_simple hwt p rest) (by simp [denote1])
  | bipush v =>
    simp only [encInsn] at h; cases h
    simp only [wt, Bool.and_eq_true, decide_eq_true_eq] at hwt
    refine .single (.bipush v) (by simp) (fun rest => ?_) (by simp [denote1])
    simp [decodeOne_bipush, s8_i8b v hwt.1 hwt.2]
  | sipush v =>
    simp only [encInsn] at h; cases h
    simp only [wt, Bool.and_eq_true, decide_eq_true_eq] at hwt
    refine .single (.sipush v) (by simp [i16b_eq]) (fun rest => ?_) (by simp [denote1])
    simp [i16b_eq, decodeOne_sipush, s16_i16b v hwt.1 hwt.2]
  | ldc idx two =>
    simp only [encInsn, encLdc] at h
    simp only [wt, decide_eq_true_eq] at hwt
    have hidx : idx ≤ 65535 := hwt
    clear hwt hnl henc
    cases two with
    | true =>
      simp only [if_true] at h; cases h
      refine .single (.ldc2 idx) (by simp [u16b]) (fun rest => ?_) (by simp [denote1])
      simp [u16b, decodeOne_ldc2_w, u16_u16b idx hidx]
    | false =>
      simp only [Bool.false_eq_true, if_false] at h
      split at h
      · cases h
        exact .single (.ldc idx) (by simp) (fun rest => by simp [decodeOne_ldc]) (by simp [denote1])
      · cases h
        refine .single (.ldc idx) (by simp [u16b]) (fun rest => ?_) (by simp [denote1])
        simp [u16b, decodeOne_ldc_w, u16_u16b idx hidx]
  | load kind idx =>
    simp only [encInsn, encLocal] at h
    simp only [wt, Bool.and_eq_true, decide_eq_true_eq] at hwt
    split at h
    · rename_i h4
      cases h
      refine .single (.load kind idx) (by simp) (fun rest => ?_) (by simp [denote1])
      simpa using decodeOne_load_short hwt.1 h4 p rest
    · split at h
      · cases h
        refine .single (.load kind idx) (by simp) (fun rest => ?_) (by simp [denote1])
        simpa using decodeOne_load_u8 hwt.1 p idx rest
      · cases h
        refine .single (.load kind idx) (by simp [u16b]) (fun rest => ?_) (by simp [denote1])
        have := decodeOne_load_wide hwt.1 p (idx / 256 % 256) (idx % 256) rest
        simp only [u16_u16b idx hwt.2] at this
        simpa [u16b] using this
  | store kind idx =>
    simp only [encInsn, encLocal] at h
    simp only [wt, Bool.and_eq_true, decide_eq_true_eq] at hwt
    split at h
    · rename_i h4
      cases h
      refine .single (.store kind idx) (by simp) (fun rest => ?_) (by simp [denote1])
      simpa using decodeOne_store_short hwt.1 h4 p rest
    · split at h
      · cases h
        refine .single (.store kind idx) (by simp) (fun rest => ?_) (by simp [denote1])
        simpa using decodeOne_store_u8 hwt.1 p idx rest
      · cases h
        refine .single (.store kind idx) (by simp [u16b]) (fun rest => ?_) (by simp [denote1])
        have := decodeOne_store_wide hwt.1 p (idx / 256 % 256) (idx % 256) rest
        simp only [u16_u16b idx hwt.2] at this
        simpa [u16b] using this
  | iinc idx v =>
    simp only [encInsn, encIinc] at h
    simp only [wt, Bool.and_eq_true, decide_eq_true_eq] at hwt
    split at h
    · rename_i hs
      cases h
      refine .single (.iinc idx v) (by simp) (fun rest => ?_) (by simp [denote1])
      simp [decodeOne_iinc, s8_i8b v hs.2.1 hs.2.2]
    · cases h
      refine .single (.iinc idx v) (by simp [u16b, i16b_eq]) (fun rest => ?_) (by simp [denote1])
      simp [u16b, i16b_eq, decodeOne_iinc_wide, u16_u16b idx hwt.1.1, s16_i16b v hwt.1.2 hwt.2]
  | ret idx =>
    simp only [encInsn, encRet] at h
    simp only [wt, decide_eq_true_eq] at hwt
    split at h
    · cases h
      exact .single (.ret idx) (by simp) (fun rest => by simp [decodeOne_ret]) (by simp [denote1])
    · cases h
      refine .single (.ret idx) (by simp [u16b]) (fun rest => ?_) (by simp [denote1])
      simp [u16b, decodeOne_ret_wide, u16_u16b idx hwt]
  | cp op idx =>
    simp only [encInsn] at h; cases h
    simp only [wt, Bool.and_eq_true, decide_eq_true_eq] at hwt
    refine .single (.cp op idx) (by simp [u16b]) (fun rest => ?_) (by simp [denote1])
    simp [u16b, decodeOne_cp hwt.1, u16_u16b idx hwt.2]
  | invokeinterface idx desc =>
    simp only [encInsn] at h
    simp only [wt, decide_eq_true_eq] at hwt
    cases ha : argsSize desc with
    | error e => simp [ha] at h
    | ok c =>
      simp only [ha, Except.ok.injEq, Prod.mk.injEq, and_true] at h
      subst h
      refine .single (.invokeinterface idx c) (by simp [u16b]) (fun rest => ?_) (by simp [denote1, ha])
      simp [u16b, decodeOne_invokeinterface, u16_u16b idx hwt]
  | invokedynamic idx =>
    simp only [encInsn] at h; cases h
    simp only [wt, decide_eq_true_eq] at hwt
    refine .single (.invokedynamic idx) (by simp [u16b]) (fun rest => ?_) (by simp [denote1])
    simp [u16b, decodeOne_invokedynamic, u16_u16b idx hwt]
  | newarray t =>
    simp only [encInsn] at h; cases h
    exact .single (.newarray t) (by simp) (fun rest => by simp [decodeOne_newarray]) (by simp [denote1])
  | multianewarray idx d =>
    simp only [encInsn] at h; cases h
    simp only [wt, Bool.and_eq_true, decide_eq_true_eq] at hwt
    refine .single (.multianewarray idx d) (by simp [u16b]) (fun rest => ?_) (by simp [denote1])
    simp [u16b, decodeOne_multianewarray, u16_u16b idx hwt.1]
  | ifc c t => simp [plainInsn] at hnl
  | goto t => simp [plainInsn] at hnl
  | jsr t => simp [plainInsn] at hnl
  | tableswitch d lo hi tb => simp [plainInsn] at hnl
  | lookupswitch d ps => simp [plainInsn] at hnl


/-- the final label table extends the one visible during the pass and stays inside the `u16` range -/
structure LabelsOk (lbl lp : Nat → Option Nat) : Prop where
  sub : ∀ t x, lbl t = some x → lp t = some x
  bound : ∀ t x, lp t = some x → x ≤ 65535

theorem narrow_fin {lp : Nat → Option Nat} {p k t op : Nat} {fin : Bytes}
    (hres : resolveAt p lp [⟨p, k, t, p + 1, false⟩] (op :: i16b I16MAX) = some fin) :
    ∃ tp, lp t = some tp ∧ fitsI16 (offs p tp) = true ∧ fin = op :: i16b (offs p tp) := by
  rw [resolveAt_single] at hres
  simp only [patchVal] at hres
  cases hl : lp t with
  | none => simp [hl] at hres
  | some tp =>
    simp only [hl, Bool.false_eq_true, if_false] at hres
    split at hres
    · rename_i hf
      simp only [Option.map_some, Option.some.injEq] at hres
      refine ⟨tp, rfl, hf, ?_⟩
      rw [← hres]
      simp [i16b_eq, patchL]
    · simp at hres

theorem wide_fin {lp : Nat → Option Nat} {p k t op : Nat} {fin : Bytes}
    (hres : resolveAt p lp [⟨p, k, t, p + 1, true⟩] (op :: i32b I32MAX) = some fin) :
    ∃ tp, lp t = some tp ∧ fin = op :: i32b (offs p tp) := by
  rw [resolveAt_single] at hres
  simp only [patchVal] at hres
  cases hl : lp t with
  | none => simp [hl] at hres
  | some tp =>
    simp only [hl, if_true, Option.map_some, Option.some.injEq] at hres
    refine ⟨tp, rfl, ?_⟩
    rw [← hres]
    simp [i32b_eq, patchL]

theorem goto_narrow_decoded {lp : Nat → Option Nat} {p t tp : Nat} (hl : lp t = some tp)
    (hf : fitsI16 (offs p tp) = true) : Decoded lp p (.goto t) (0xa7 :: i16b (offs p tp)) := by
  have hr := (fitsI16_iff _).mp hf
  refine .single (.goto (tp : Int)) (by simp [i16b_eq]) (fun rest => ?_) (by simp [denote1, lands_self hl])
  simp only [i16b_eq, List.cons_append, List.nil_append, decodeOne_goto, s16_i16b _ hr.1 hr.2]
  simp [offs]; omega

theorem goto_wide_decoded {lp : Nat → Option Nat} {p t tp : Nat} (hl : lp t = some tp) (hp : p ≤ 65535)
    (ht : tp ≤ 65535) : Decoded lp p (.goto t) (0xc8 :: i32b (offs p tp)) := by
  have hr := offs_range hp ht
  refine .single (.goto (tp : Int)) (by simp [i32b_eq]) (fun rest => ?_) (by simp [denote1, lands_self hl])
  simp only [i32b_eq, List.cons_append, List.nil_append, decodeOne_goto_w, s32_i32b _ hr.1 hr.2]
  simp [offs]; omega

theorem jsr_narrow_decoded {lp : Nat → Option Nat} {p t tp : Nat} (hl : lp t = some tp)
    (hf : fitsI16 (offs p tp) = true) : Decoded lp p (.jsr t) (0xa8 :: i16b (offs p tp)) := by
  have hr := (fitsI16_iff _).mp hf
  refine .single (.jsr (tp : Int)) (by simp [i16b_eq]) (fun rest => ?_) (by simp [denote1, lands_self hl])
  simp only [i16b_eq, List.cons_append, List.nil_append, decodeOne_jsr, s16_i16b _ hr.1 hr.2]
  simp [offs]; omega

theorem jsr_wide_decoded {lp : Nat → Option Nat} {p t tp : Nat} (hl : lp t = some tp) (hp : p ≤ 65535)
    (ht : tp ≤ 65535) : Decoded lp p (.jsr t) (0xc9 :: i32b (offs p tp)) := by
  have hr := offs_range hp ht
  refine .single (.jsr (tp : Int)) (by simp [i32b_eq]) (fun rest => ?_) (by simp [denote1, lands_self hl])
  simp only [i32b_eq, List.cons_append, List.nil_append, decodeOne_jsr_w, s32_i32b _ hr.1 hr.2]
  simp [offs]; omega

theorem goto_decoded {lp lbl : Nat → Option Nat} {p k t : Nat} {isWide : Bool} {r : Bytes × List Unwritten}
    {fin : Bytes} (hp : p ≤ 65535) (hok : LabelsOk lbl lp)
    (henc : encGoto 0xa7 0xc8 isWide lbl p k t = .ok r) (hres : resolveAt p lp r.2 r.1 = some fin) :
    Decoded lp p (.goto t) fin := by
  unfold encGoto at henc
  split at henc
  · rename_i tp htp
    have hl := hok.sub _ _ htp
    split at henc
    · rename_i hf
      cases henc; simp only [resolveAt_nil, Option.some.injEq] at hres; subst hres
      exact goto_narrow_decoded hl hf
    · cases henc; simp only [resolveAt_nil, Option.some.injEq] at hres; subst hres
      exact goto_wide_decoded hl hp (hok.bound _ _ hl)
  · split at henc
    · cases henc
      obtain ⟨tp, hl, rfl⟩ := wide_fin hres
      exact goto_wide_decoded hl hp (hok.bound _ _ hl)
    · cases henc
      obtain ⟨tp, hl, hf, rfl⟩ := narrow_fin hres
      exact goto_narrow_decoded hl hf

theorem jsr_decoded {lp lbl : Nat → Option Nat} {p k t : Nat} {isWide : Bool} {r : Bytes × List Unwritten}
    {fin : Bytes} (hp : p ≤ 65535) (hok : LabelsOk lbl lp)
    (henc : encGoto 0xa8 0xc9 isWide lbl p k t = .ok r) (hres : resolveAt p lp r.2 r.1 = some fin) :
    Decoded lp p (.jsr t) fin := by
  unfold encGoto at henc
  split at henc
  · rename_i tp htp
    have hl := hok.sub _ _ htp
    split at henc
    · rename_i hf
      cases henc; simp only [resolveAt_nil, Option.some.injEq] at hres; subst hres
      exact jsr_narrow_decoded hl hf
    · cases henc; simp only [resolveAt_nil, Option.some.injEq] at hres; subst hres
      exact jsr_wide_decoded hl hp (hok.bound _ _ hl)
  · split at henc
    · cases henc
      obtain ⟨tp, hl, rfl⟩ := wide_fin hres
      exact jsr_wide_decoded hl hp (hok.bound _ _ hl)
    · cases henc
      obtain ⟨tp, hl, hf, rfl⟩ := narrow_fin hres
      exact jsr_narrow_decoded hl hf


theorem if_narrow_decoded {lp : Nat → Option Nat} {c : Cond} {p t tp : Nat} (hl : lp t = some tp)
    (hf : fitsI16 (offs p tp) = true) : Decoded lp p (.ifc c t) (c.opcode :: i16b (offs p tp)) := by
  have hr := (fitsI16_iff _).mp hf
  refine .single (.ifc c.opcode (tp : Int)) (by simp [i16b_eq]) (fun rest => ?_) (by simp [denote1, lands_self hl])
  simp only [i16b_eq, List.cons_append, List.nil_append, decodeOne_if, s16_i16b _ hr.1 hr.2]
  simp [offs]; omega

theorem if_tramp_decoded {lp : Nat → Option Nat} {c : Cond} {p t tp : Nat} (hl : lp t = some tp)
    (hp : p + 3 ≤ 65535) (ht : tp ≤ 65535) :
    Decoded lp p (.ifc c t) (c.opposite.opcode :: (i16b 8 ++ GOTO_W :: i32b (offs (p + 3) tp))) := by
  have hr := offs_range hp ht
  refine .tramp c t (tp : Int) rfl (by simp [i16b_eq, i32b_eq]) (fun rest => ?_) (fun rest => ?_) (lands_self hl)
  · rw [negIf_opposite]
    simp only [i16b_eq, List.cons_append, List.nil_append, decodeOne_if]
    simp [s16]
  · simp only [i16b_eq, i32b_eq, GOTO_W, List.cons_append, List.nil_append, List.drop_succ_cons, List.drop_zero,
      decodeOne_goto_w, s32_i32b _ hr.1 hr.2]
    simp [offs]; omega

theorem wide_if_fin {lp : Nat → Option Nat} {p k t op : Nat} {fin : Bytes}
    (hres : resolveAt p lp [⟨p + 3, k, t, p + 4, true⟩] (op :: (i16b 8 ++ GOTO_W :: i32b I32MAX)) = some fin) :
    ∃ tp, lp t = some tp ∧ fin = op :: (i16b 8 ++ GOTO_W :: i32b (offs (p + 3) tp)) := by
  rw [resolveAt_single] at hres
  simp only [patchVal] at hres
  cases hl : lp t with
  | none => simp [hl] at hres
  | some tp =>
    simp only [hl, if_true, Option.map_some, Option.some.injEq] at hres
    refine ⟨tp, rfl, ?_⟩
    rw [← hres]
    have : p + 4 - p = 4 := by omega
    simp [i32b_eq, i16b_eq, patchL, this]

theorem if_decoded {lp lbl : Nat → Option Nat} {c : Cond} {p k t : Nat} {isWide : Bool} {r : Bytes × List Unwritten}
    {fin : Bytes} (hp : p ≤ 65535) (hok : LabelsOk lbl lp)
    (henc : encIf c isWide lbl p k t = .ok r) (hres : resolveAt p lp r.2 r.1 = some fin) :
    Decoded lp p (.ifc c t) fin := by
  unfold encIf at henc
  split at henc
  · rename_i tp htp
    have hl := hok.sub _ _ htp
    split at henc
    · rename_i hf
      cases henc; simp only [resolveAt_nil, Option.some.injEq] at hres; subst hres
      exact if_narrow_decoded hl hf
    · split at henc
      · cases henc
      · rename_i hp3
        cases henc; simp only [resolveAt_nil, Option.some.injEq] at hres; subst hres
        exact if_tramp_decoded hl (by omega) (hok.bound _ _ hl)
  · split at henc
    · split at henc
      · cases henc
      · rename_i hp3
        cases henc
        obtain ⟨tp, hl, rfl⟩ := wide_if_fin hres
        exact if_tramp_decoded hl (by omega) (hok.bound _ _ hl)
    · cases henc
      obtain ⟨tp, hl, hf, rfl⟩ := narrow_fin hres
      exact if_narrow_decoded hl hf

end CodeWrite
